package main

// series: translates `processPoints` of <repo>/geometry/series.go into a Lean file (namespace
// Geo.SGen), polymorphic over Geo.KNum, on top of the expression translator of kernel.go.
//
// Added to the subset of kernel.go (only here):
//   * `int` variables (↦ Int), integer literals in an int context, `+`/`-` on ints, int
//     comparisons (↦ decide (…)), `x++`/`x--` on ints, `len(s)` of a `[]Point`;
//   * `[]Point` parameters (↦ Array (KPoint α)) and indexing `s[e]` (↦ idx s e, with the
//     out-of-range condition accumulated in the flag oob', see the generated header);
//   * counted loops `for i := lo; i < hi; i++ { body }` whose body does not assign i or a
//     variable of hi: the body becomes a separate definition over (iteration number, state
//     tuple), `continue` ends the iteration with the current state;
//   * several (named) results, bare `return`.
// Everything else is refused: the function is then emitted as `opaque …_unrecognised : Unit`.

import (
	"fmt"
	"go/ast"
	"go/token"
	"sort"
	"strings"
)

func init() { translators["series"] = translateSeries }

var srTargets = []string{"processPoints"}

// the flag "an index expression was out of range" (a Go panic); not a Go identifier
const srOob = "oob'"

type srResult struct {
	name string // "" when unnamed
	ty   knType
}

type srTr struct {
	*knTr
	results []srResult
	useOob  bool     // the function contains an index expression
	aux     []string // definitions of loop bodies, printed before the function
	nloop   int
}

// ---------------------------------------------------------------------------------------------
// expressions

func srIsLen(e ast.Expr, env *knEnv) (*ast.CallExpr, bool) {
	c, ok := e.(*ast.CallExpr)
	if !ok || len(c.Args) != 1 || c.Ellipsis.IsValid() {
		return nil, false
	}
	id, ok := c.Fun.(*ast.Ident)
	if !ok || id.Name != "len" {
		return nil, false
	}
	_, shadowed := env.vars["len"]
	return c, !shadowed
}

// intLike: is the expression certainly of type int (a literal alone is not)?
func srIntLike(e ast.Expr, env *knEnv) bool {
	switch e := e.(type) {
	case *ast.ParenExpr:
		return srIntLike(e.X, env)
	case *ast.Ident:
		return env.vars[e.Name] == knInt
	case *ast.UnaryExpr:
		return (e.Op == token.SUB || e.Op == token.ADD) && srIntLike(e.X, env)
	case *ast.BinaryExpr:
		switch e.Op {
		case token.ADD, token.SUB, token.MUL, token.QUO, token.REM:
			return srIntLike(e.X, env) || srIntLike(e.Y, env)
		}
	case *ast.CallExpr:
		_, ok := srIsLen(e, env)
		return ok
	}
	return false
}

// intExpr translates an expression in an int context.
func (t *srTr) intExpr(e ast.Expr, env *knEnv) (knExpr, error) {
	switch e := e.(type) {
	case *ast.ParenExpr:
		return t.intExpr(e.X, env)
	case *ast.BasicLit:
		if e.Kind != token.INT {
			break
		}
		x, err := t.knTr.expr(e, env) // checks the form of the literal
		if err != nil {
			return knExpr{}, err
		}
		v := strings.TrimLeft(e.Value, "0")
		if v == "" {
			v = "0"
		}
		return knExpr{"(" + v + " : Int)", knPrecAtom, knInt, x.konst}, nil
	case *ast.UnaryExpr:
		if e.Op != token.SUB {
			break
		}
		x, err := t.intExpr(e.X, env)
		if err != nil {
			return knExpr{}, err
		}
		return knExpr{"(-" + x.atom() + " : Int)", knPrecAtom, knInt, x.konst}, nil
	case *ast.BinaryExpr:
		if e.Op != token.ADD && e.Op != token.SUB {
			return knExpr{}, t.errf(e, "operator %s on int (only + and - are in the subset)", e.Op)
		}
		l, err := t.intExpr(e.X, env)
		if err != nil {
			return knExpr{}, err
		}
		r, err := t.intExpr(e.Y, env)
		if err != nil {
			return knExpr{}, err
		}
		if l.konst && r.konst {
			return knExpr{}, t.errf(e, "constant expression: %s between two literals", e.Op)
		}
		return knExpr{s: l.at(knPrecAdd) + " " + e.Op.String() + " " + r.at(knPrecAdd+1), prec: knPrecAdd, ty: knInt}, nil
	}
	x, err := t.knTr.expr(e, env)
	if err != nil {
		return knExpr{}, err
	}
	if x.ty != knInt {
		return knExpr{}, t.errf(e, "%v where int is expected", x.ty)
	}
	return x, nil
}

var srIntCmp = map[token.Token]string{token.LSS: "<", token.LEQ: "≤", token.GTR: ">",
	token.GEQ: "≥", token.EQL: "=", token.NEQ: "≠"}

// ext is the hook of knTr.expr.
func (t *srTr) extExpr(e ast.Expr, env *knEnv) (knExpr, bool, error) {
	switch e := e.(type) {
	case *ast.IndexExpr:
		x, err := t.knTr.expr(e.X, env)
		if err != nil {
			return knExpr{}, false, err
		}
		if x.ty != knPoints {
			return knExpr{}, false, t.errf(e, "indexing of %v", x.ty)
		}
		i, err := t.intExpr(e.Index, env)
		if err != nil {
			return knExpr{}, false, err
		}
		t.useOob = true
		return knExpr{s: "idx " + x.atom() + " " + i.atom(), prec: knPrecApp, ty: knPoint}, true, nil
	case *ast.CallExpr:
		if c, ok := srIsLen(e, env); ok {
			x, err := t.knTr.expr(c.Args[0], env)
			if err != nil {
				return knExpr{}, false, err
			}
			if x.ty != knPoints {
				return knExpr{}, false, t.errf(e, "len of %v", x.ty)
			}
			return knExpr{s: "(" + x.atom() + ".size : Int)", prec: knPrecAtom, ty: knInt}, true, nil
		}
	case *ast.UnaryExpr:
		if srIntLike(e, env) {
			x, err := t.intExpr(e, env)
			return x, err == nil, err
		}
	case *ast.BinaryExpr:
		if !srIntLike(e.X, env) && !srIntLike(e.Y, env) {
			return knExpr{}, false, nil
		}
		if op, ok := srIntCmp[e.Op]; ok {
			l, err := t.intExpr(e.X, env)
			if err != nil {
				return knExpr{}, false, err
			}
			r, err := t.intExpr(e.Y, env)
			if err != nil {
				return knExpr{}, false, err
			}
			return knExpr{s: "decide (" + l.at(knPrecCmp+1) + " " + op + " " + r.at(knPrecCmp+1) + ")", prec: knPrecApp, ty: knBool}, true, nil
		}
		x, err := t.intExpr(e, env)
		return x, err == nil, err
	}
	return knExpr{}, false, nil
}

// panicOf returns the Lean condition (Bool) under which evaluating e indexes out of range, ""
// when e contains no index expression.  `&&` and `||` evaluate their right operand conditionally.
func (t *srTr) panicOf(e ast.Expr, env *knEnv) (string, error) {
	or := func(parts ...string) string {
		var ps []string
		for _, p := range parts {
			if p != "" {
				ps = append(ps, p)
			}
		}
		return strings.Join(ps, " || ")
	}
	switch e := e.(type) {
	case nil, *ast.Ident, *ast.BasicLit:
		return "", nil
	case *ast.ParenExpr:
		return t.panicOf(e.X, env)
	case *ast.SelectorExpr:
		return t.panicOf(e.X, env)
	case *ast.UnaryExpr:
		return t.panicOf(e.X, env)
	case *ast.KeyValueExpr:
		return t.panicOf(e.Value, env)
	case *ast.IndexExpr:
		in, err := t.panicOf(e.Index, env)
		if err != nil {
			return "", err
		}
		x, err := t.knTr.expr(e.X, env)
		if err != nil {
			return "", err
		}
		i, err := t.intExpr(e.Index, env)
		if err != nil {
			return "", err
		}
		return or(in, "!inb "+x.atom()+" "+i.atom()), nil
	case *ast.BinaryExpr:
		a, err := t.panicOf(e.X, env)
		if err != nil {
			return "", err
		}
		b, err := t.panicOf(e.Y, env)
		if err != nil || b == "" {
			return a, err
		}
		if e.Op == token.LAND || e.Op == token.LOR {
			l, err := t.knTr.expr(e.X, env)
			if err != nil {
				return "", err
			}
			guard := l.at(knPrecAnd + 1)
			if e.Op == token.LOR {
				guard = "!" + l.atom()
			}
			return or(a, "("+guard+" && ("+b+"))"), nil
		}
		return or(a, b), nil
	case *ast.CallExpr:
		var parts []string
		for _, a := range e.Args {
			p, err := t.panicOf(a, env)
			if err != nil {
				return "", err
			}
			parts = append(parts, p)
		}
		return or(parts...), nil
	case *ast.CompositeLit:
		var parts []string
		for _, a := range e.Elts {
			p, err := t.panicOf(a, env)
			if err != nil {
				return "", err
			}
			parts = append(parts, p)
		}
		return or(parts...), nil
	}
	return "", t.errf(e, "expression form %T is not in the subset", e)
}

// oobLines: the update of the flag before the expressions es are evaluated (in this order).
func (t *srTr) oobLines(env *knEnv, es ...ast.Expr) ([]string, error) {
	var ps []string
	for _, e := range es {
		p, err := t.panicOf(e, env)
		if err != nil {
			return nil, err
		}
		if p != "" {
			ps = append(ps, p)
		}
	}
	if len(ps) == 0 {
		return nil, nil
	}
	return []string{"let " + srOob + " := " + srOob + " || " + strings.Join(ps, " || ")}, nil
}

// ---------------------------------------------------------------------------------------------
// statements

// srMode says how a statement list ends.  srTop: the function body (return ↦ the result tuple);
// srState: a loop body or the branch of a joined if (falling through, and `continue` in a loop
// body, ↦ the tuple of vars).
type srMode struct {
	top    bool
	vars   []string // srState
	inLoop bool     // `continue` is allowed (it ends the iteration with the current state)
	loop   []string // the state of the enclosing loop (what `continue` delivers)
}

func (t *srTr) ident(name string) (string, error) {
	if name == srOob {
		return name, nil
	}
	return t.pkg.knIdent(name)
}

func (t *srTr) tuple(names []string, env *knEnv) (string, error) {
	var ids []string
	for _, n := range names {
		if _, ok := env.vars[n]; !ok {
			return "", fmt.Errorf("%s: assignment to %s, which is not a local variable of the subset", t.fn.key, n)
		}
		id, err := t.ident(n)
		if err != nil {
			return "", err
		}
		ids = append(ids, id)
	}
	if len(ids) == 1 {
		return ids[0], nil
	}
	return "(" + strings.Join(ids, ", ") + ")", nil
}

// proj: component j of an n-tuple (right-nested pairs) named v.
func srProj(v string, j, n int) string {
	if n == 1 {
		return v
	}
	s := v + strings.Repeat(".2", j)
	if j < n-1 {
		s += ".1"
	}
	return s
}

// unpack: `let x := v.1 …` for the variables of a tuple.
func (t *srTr) unpack(v string, names []string) ([]string, error) {
	var out []string
	for j, n := range names {
		id, err := t.ident(n)
		if err != nil {
			return nil, err
		}
		out = append(out, "let "+id+" := "+srProj(v, j, len(names)))
	}
	return out, nil
}

func (t *srTr) tupleType(names []string, env *knEnv) string {
	var ts []string
	for _, n := range names {
		ts = append(ts, env.vars[n].lean())
	}
	return strings.Join(ts, " × ")
}

func srHasIndex(n ast.Node) bool {
	found := false
	ast.Inspect(n, func(n ast.Node) bool {
		if _, ok := n.(*ast.IndexExpr); ok {
			found = true
		}
		return !found
	})
	return found
}

// srAssigned: the outer variables a statement list assigns (the flag oob' counts as assigned by
// every statement that contains an index expression); jumps reports return/continue/break/goto.
func srAssigned(list []ast.Stmt, local map[string]bool, out map[string]bool, jumps *bool) {
	loc := map[string]bool{}
	for k := range local {
		loc[k] = true
	}
	mark := func(l ast.Expr, define bool) {
		id := knRoot(l)
		if id == nil || id.Name == "_" {
			return
		}
		if _, plain := l.(*ast.Ident); plain && define {
			loc[id.Name] = true
		} else if !loc[id.Name] {
			out[id.Name] = true
		}
	}
	for _, s := range list {
		switch s := s.(type) {
		case *ast.AssignStmt:
			for _, l := range s.Lhs {
				mark(l, s.Tok == token.DEFINE)
			}
		case *ast.IncDecStmt:
			mark(s.X, false)
		case *ast.DeclStmt:
			if gd, ok := s.Decl.(*ast.GenDecl); ok {
				for _, sp := range gd.Specs {
					if vs, ok := sp.(*ast.ValueSpec); ok {
						for _, n := range vs.Names {
							loc[n.Name] = true
						}
					}
				}
			}
		case *ast.IfStmt:
			srAssigned(s.Body.List, loc, out, jumps)
			srAssigned(knElse(s), loc, out, jumps)
		case *ast.ForStmt:
			srAssigned(s.Body.List, loc, out, jumps)
		case *ast.BlockStmt:
			srAssigned(s.List, loc, out, jumps)
		case *ast.ReturnStmt, *ast.BranchStmt:
			*jumps = true
		}
		if srHasIndex(s) {
			out[srOob] = true
		}
	}
}

// srEnds: does every path through the list end in a return or a continue?
func srEnds(list []ast.Stmt) bool {
	if len(list) == 0 {
		return false
	}
	switch s := list[len(list)-1].(type) {
	case *ast.ReturnStmt:
		return true
	case *ast.BranchStmt:
		return s.Tok == token.CONTINUE && s.Label == nil
	case *ast.IfStmt:
		return s.Else != nil && srEnds(s.Body.List) && srEnds(knElse(s))
	}
	return false
}

func (t *srTr) fall(m srMode, env *knEnv) ([]string, error) {
	if m.top {
		return nil, fmt.Errorf("%s: control reaches the end of the function without a return", t.fn.key)
	}
	p, err := t.tuple(m.vars, env)
	return []string{p}, err
}

func (t *srTr) resultTuple(vals []string) string {
	r := strings.Join(vals, ", ")
	if len(vals) > 1 {
		r = "(" + r + ")"
	}
	if t.useOobFn() {
		return "(" + srOob + ", " + r + ")"
	}
	return r
}

func (t *srTr) useOobFn() bool { return srHasIndex(t.fn.decl.Body) }

func (t *srTr) returnStmt(s *ast.ReturnStmt, env *knEnv) ([]string, error) {
	var vals []string
	if len(s.Results) == 0 {
		for _, r := range t.results {
			if r.name == "" {
				return nil, t.errf(s, "bare return with unnamed results")
			}
			if env.vars[r.name] != r.ty {
				return nil, t.errf(s, "result %s is shadowed", r.name)
			}
			id, err := t.ident(r.name)
			if err != nil {
				return nil, t.errf(s, "%v", err)
			}
			vals = append(vals, id)
		}
		return []string{t.resultTuple(vals)}, nil
	}
	if len(s.Results) != len(t.results) {
		return nil, t.errf(s, "return of a multi-valued expression")
	}
	out, err := t.oobLines(env, s.Results...)
	if err != nil {
		return nil, err
	}
	for i, r := range s.Results {
		var x knExpr
		if t.results[i].ty == knInt {
			x, err = t.intExpr(r, env)
		} else {
			x, err = t.expr(r, env)
		}
		if err != nil {
			return nil, err
		}
		if !knAssignable(x.ty, t.results[i].ty) {
			return nil, t.errf(r, "returns %v where %v is expected", x.ty, t.results[i].ty)
		}
		vals = append(vals, x.s)
	}
	return append(out, t.resultTuple(vals)), nil
}

func (t *srTr) block(list []ast.Stmt, env *knEnv, m srMode) ([]string, error) {
	if len(list) == 0 {
		return t.fall(m, env)
	}
	rest := list[1:]
	var head []string
	var err error
	switch s := list[0].(type) {
	case *ast.EmptyStmt:
	case *ast.ReturnStmt:
		if len(rest) > 0 {
			return nil, t.errf(rest[0], "statement after a return")
		}
		if !m.top {
			return nil, t.errf(s, "return inside a loop body or a joined if statement")
		}
		return t.returnStmt(s, env)
	case *ast.BranchStmt:
		if s.Tok != token.CONTINUE || s.Label != nil {
			return nil, t.errf(s, "%s is not in the subset (only an unlabelled continue)", s.Tok)
		}
		if len(rest) > 0 {
			return nil, t.errf(rest[0], "statement after a continue")
		}
		if !m.inLoop {
			return nil, t.errf(s, "continue outside a loop body or inside a joined if statement")
		}
		p, err := t.tuple(m.loop, env)
		return []string{p}, err
	case *ast.AssignStmt:
		head, err = t.assign(s, env)
	case *ast.IncDecStmt:
		head, err = t.incDec(s, env)
	case *ast.DeclStmt:
		head, err = t.declStmt(s, env)
	case *ast.ForStmt:
		head, err = t.forStmt(s, env)
	case *ast.IfStmt:
		return t.ifStmt(s, rest, env, m)
	default:
		return nil, t.errf(s, "statement form %T is not in the subset", s)
	}
	if err != nil {
		return nil, err
	}
	tail, err := t.block(rest, env, m)
	if err != nil {
		return nil, err
	}
	return append(head, tail...), nil
}

func (t *srTr) ifStmt(s *ast.IfStmt, rest []ast.Stmt, env *knEnv, m srMode) ([]string, error) {
	if s.Init != nil {
		return nil, t.errf(s, "if statement with an init clause")
	}
	pre, err := t.oobLines(env, s.Cond)
	if err != nil {
		return nil, err
	}
	c, err := t.expr(s.Cond, env)
	if err != nil {
		return nil, err
	}
	if c.ty != knBool {
		return nil, t.errf(s, "condition of type %v", c.ty)
	}
	th, el := s.Body.List, knElse(s)
	two := func(a, b []ast.Stmt, ma, mb srMode, ea, eb *knEnv) ([]string, error) {
		la, err := t.block(a, ea, ma)
		if err != nil {
			return nil, err
		}
		lb, err := t.block(b, eb, mb)
		if err != nil {
			return nil, err
		}
		return append(pre, knIfLines(c.s, la, lb)...), nil
	}
	// m.vars ending in exactly the state of the loop: a continue may appear in the branches
	if len(rest) == 0 {
		return two(th, el, m, m, env.copy(), env.copy())
	}
	eT, eE := srEnds(th), srEnds(el)
	switch {
	case eT && eE:
		return nil, t.errf(rest[0], "statement after an if statement that always returns or continues")
	case eT && !knDeclares(el):
		return two(th, append(append([]ast.Stmt{}, el...), rest...), m, m, env.copy(), env)
	case eE && !knDeclares(th):
		return two(append(append([]ast.Stmt{}, th...), rest...), el, m, m, env, env.copy())
	}
	// both sides may fall through: join on the variables the statement assigns
	assigned, jumps := map[string]bool{}, false
	srAssigned([]ast.Stmt{s}, nil, assigned, &jumps)
	if jumps {
		return nil, t.errf(s, "if statement that may fall through on both sides and contains a return or continue, followed by more statements")
	}
	if srHasIndex(s.Cond) { // updated before the if, not inside it
		delete(assigned, srOob)
		if srHasIndex(s.Body) || (s.Else != nil && srHasIndex(s.Else)) {
			assigned[srOob] = true
		}
	}
	var vars []string
	for v := range assigned {
		vars = append(vars, v)
	}
	sort.Strings(vars)
	if len(vars) == 0 {
		return nil, t.errf(s, "if statement without effect")
	}
	inner := srMode{vars: vars}
	saved := pre
	pre = nil
	lines, err := two(th, el, inner, inner, env.copy(), env.copy())
	if err != nil {
		return nil, err
	}
	var out []string
	if len(vars) == 1 {
		id, err := t.tuple(vars, env)
		if err != nil {
			return nil, err
		}
		out = append([]string{"let " + id + " :="}, knIndent(lines)...)
	} else {
		if _, err := t.tuple(vars, env); err != nil {
			return nil, err
		}
		name := fmt.Sprintf("j%d'", t.tmp)
		t.tmp++
		out = append([]string{"let " + name + " : " + t.tupleType(vars, env) + " :="}, knIndent(lines)...)
		un, err := t.unpack(name, vars)
		if err != nil {
			return nil, err
		}
		out = append(out, un...)
	}
	tail, err := t.block(rest, env, m)
	if err != nil {
		return nil, err
	}
	return append(append(saved, out...), tail...), nil
}

func (t *srTr) incDec(s *ast.IncDecStmt, env *knEnv) ([]string, error) {
	id, ok := s.X.(*ast.Ident)
	if !ok || env.vars[id.Name] != knInt {
		return nil, t.errf(s, "%s is in the subset only on an int variable", s.Tok)
	}
	name, err := t.ident(id.Name)
	if err != nil {
		return nil, t.errf(s, "%v", err)
	}
	op := "+"
	if s.Tok == token.DEC {
		op = "-"
	}
	return []string{"let " + name + " := " + name + " " + op + " (1 : Int)"}, nil
}

func (t *srTr) declStmt(s *ast.DeclStmt, env *knEnv) ([]string, error) {
	gd, ok := s.Decl.(*ast.GenDecl)
	if !ok || gd.Tok != token.VAR {
		return nil, t.errf(s, "only var declarations are in the subset")
	}
	var out []string
	for _, sp := range gd.Specs {
		vs := sp.(*ast.ValueSpec)
		if knTypeString(vs.Type) == "int" && len(vs.Values) == 0 {
			for _, n := range vs.Names {
				if n.Name == "_" {
					continue
				}
				id, err := t.ident(n.Name)
				if err != nil {
					return nil, t.errf(n, "%v", err)
				}
				env.vars[n.Name] = knInt
				out = append(out, "let "+id+" : Int := (0 : Int)")
			}
			continue
		}
		one := &ast.DeclStmt{Decl: &ast.GenDecl{TokPos: gd.TokPos, Tok: token.VAR, Specs: []ast.Spec{vs}}}
		lines, err := t.knTr.declStmt(one, env)
		if err != nil {
			return nil, err
		}
		out = append(out, lines...)
	}
	return out, nil
}

func (t *srTr) assign(s *ast.AssignStmt, env *knEnv) ([]string, error) {
	var exprs []ast.Expr
	for _, l := range s.Lhs {
		if _, plain := l.(*ast.Ident); !plain {
			exprs = append(exprs, l)
		}
	}
	pre, err := t.oobLines(env, append(exprs, s.Rhs...)...)
	if err != nil {
		return nil, err
	}
	if len(s.Lhs) == 1 && len(s.Rhs) == 1 {
		if id, ok := s.Lhs[0].(*ast.Ident); ok && id.Name != "_" {
			_, isLit := s.Rhs[0].(*ast.BasicLit)
			old, exists := env.vars[id.Name]
			intTarget := (s.Tok == token.ASSIGN && exists && old == knInt) ||
				(s.Tok == token.DEFINE && (isLit || srIntLike(s.Rhs[0], env)))
			if intTarget {
				x, err := t.intExpr(s.Rhs[0], env)
				if err != nil {
					return nil, err
				}
				name, err := t.ident(id.Name)
				if err != nil {
					return nil, t.errf(s, "%v", err)
				}
				env.vars[id.Name] = knInt
				return append(pre, "let "+name+" : Int := "+x.s), nil
			}
		}
	}
	for _, l := range s.Lhs {
		if id := knRoot(l); id != nil && env.vars[id.Name] == knInt {
			return nil, t.errf(s, "assignment to the int variable %s of an unsupported shape", id.Name)
		}
		if id := knRoot(l); id != nil && env.vars[id.Name] == knPoints {
			return nil, t.errf(s, "assignment to the slice %s", id.Name)
		}
		if srHasIndex(l) {
			return nil, t.errf(s, "assignment to a slice element")
		}
	}
	lines, err := t.knTr.assign(s, env)
	if err != nil {
		return nil, err
	}
	return append(pre, lines...), nil
}

// forStmt: `for i := lo; i < hi; i++ { body }` where the body assigns neither i nor a variable
// of hi (so the trip count (hi - lo).toNat is known on entry).
func (t *srTr) forStmt(s *ast.ForStmt, env *knEnv) ([]string, error) {
	bad := func() ([]string, error) {
		return nil, t.errf(s, "only counted loops `for i := lo; i < hi; i++ { … }` are in the subset")
	}
	init, ok := s.Init.(*ast.AssignStmt)
	if !ok || init.Tok != token.DEFINE || len(init.Lhs) != 1 || len(init.Rhs) != 1 {
		return bad()
	}
	iv, ok := init.Lhs[0].(*ast.Ident)
	if !ok || iv.Name == "_" {
		return bad()
	}
	cond, ok := s.Cond.(*ast.BinaryExpr)
	if !ok || cond.Op != token.LSS {
		return bad()
	}
	if cv, ok := cond.X.(*ast.Ident); !ok || cv.Name != iv.Name || knMentions(cond.Y, iv.Name) {
		return bad()
	}
	post, ok := s.Post.(*ast.IncDecStmt)
	if !ok || post.Tok != token.INC {
		return bad()
	}
	if pv, ok := post.X.(*ast.Ident); !ok || pv.Name != iv.Name {
		return bad()
	}
	if srHasIndex(init.Rhs[0]) || srHasIndex(cond.Y) {
		return nil, t.errf(s, "index expression in the bounds of a loop")
	}
	lo, err := t.intExpr(init.Rhs[0], env)
	if err != nil {
		return nil, err
	}
	hi, err := t.intExpr(cond.Y, env)
	if err != nil {
		return nil, err
	}
	assigned, jumps := map[string]bool{}, false
	srAssigned(s.Body.List, map[string]bool{}, assigned, &jumps)
	if assigned[iv.Name] {
		return nil, t.errf(s, "the loop body assigns the loop variable %s", iv.Name)
	}
	var vars []string
	for v := range assigned {
		if knMentions(cond.Y, v) {
			return nil, t.errf(s, "the loop body assigns %s, which the loop bound mentions", v)
		}
		vars = append(vars, v)
	}
	sort.Strings(vars)
	if len(vars) == 0 {
		return nil, t.errf(s, "loop body without effect")
	}
	bad2 := ""
	ast.Inspect(s.Body, func(n ast.Node) bool {
		switch n := n.(type) {
		case *ast.ReturnStmt:
			bad2 = "return"
		case *ast.BranchStmt:
			if n.Tok != token.CONTINUE || n.Label != nil {
				bad2 = n.Tok.String()
			}
		case *ast.ForStmt, *ast.RangeStmt:
			bad2 = "nested loop"
		}
		return bad2 == ""
	})
	if bad2 != "" {
		return nil, t.errf(s, "%s inside a loop body", bad2)
	}
	state, err := t.tuple(vars, env)
	if err != nil {
		return nil, err
	}
	// the variables the body reads without assigning them become parameters of its definition
	var captured []string
	for v := range env.vars {
		if !assigned[v] && v != iv.Name && srMentions(s.Body, v) {
			captured = append(captured, v)
		}
	}
	sort.Strings(captured)
	t.nloop++
	name := fmt.Sprintf("%s_loop%d", t.fn.leanName, t.nloop)
	stTy := t.tupleType(vars, env)
	benv := env.copy()
	benv.vars[iv.Name] = knInt
	ivName, err := t.ident(iv.Name)
	if err != nil {
		return nil, t.errf(s, "%v", err)
	}
	body, err := t.block(s.Body.List, benv, srMode{vars: vars, inLoop: true, loop: vars})
	if err != nil {
		return nil, err
	}
	hdr := "def " + name + " {α : Type} [KNum α]"
	call := name
	for _, v := range captured {
		id, err := t.ident(v)
		if err != nil {
			return nil, t.errf(s, "%v", err)
		}
		hdr += " (" + id + " : " + env.vars[v].lean() + ")"
		call += " " + id
	}
	hdr += " (k' : Nat) (s' : " + stTy + ") :"
	src := fmt.Sprintf("for %s; %s; %s { … }", knSrc(t.fn.src, t.pkg.fset, s.Init),
		knSrc(t.fn.src, t.pkg.fset, s.Cond), knSrc(t.fn.src, t.pkg.fset, s.Post))
	def := []string{
		fmt.Sprintf("/-- body of the Go loop `%s` of %s — geometry/%s; k' is the iteration number,", src, t.fn.key, t.pos(s)),
		"    s' the values of (" + strings.Join(vars, ", ") + ") before the iteration, the result their values after it -/",
		hdr, "    " + stTy + " :=",
	}
	un, err := t.unpack("s'", vars)
	if err != nil {
		return nil, err
	}
	iDef := "let " + ivName + " : Int := " + lo.at(knPrecAdd) + " + Int.ofNat k'"
	count := "(" + hi.at(knPrecAdd) + " - " + lo.at(knPrecAdd+1) + ").toNat"
	if lo.s == "(0 : Int)" {
		iDef = "let " + ivName + " : Int := Int.ofNat k'"
		count = hi.atom() + ".toNat"
	}
	def = append(def, knIndent(un)...)
	def = append(def, "  "+iDef)
	def = append(def, knIndent(body)...)
	t.aux = append(t.aux, strings.Join(def, "\n"))
	tmp := fmt.Sprintf("l%d'", t.nloop)
	out := []string{
		fmt.Sprintf("-- Go loop `%s` at %s: %s iterations of %s", src, t.pos(s), count, name),
		"let " + tmp + " := loop " + count + " (" + call + ") " + state,
	}
	if len(vars) == 1 {
		out[1] = "let " + state + " := loop " + count + " (" + call + ") " + state
		return out, nil
	}
	un2, err := t.unpack(tmp, vars)
	if err != nil {
		return nil, err
	}
	return append(out, un2...), nil
}

// ---------------------------------------------------------------------------------------------
// functions

func srParseType(e ast.Expr) (knType, bool) {
	if a, ok := e.(*ast.ArrayType); ok {
		if a.Len == nil && knTypeString(a.Elt) == "Point" {
			return knPoints, true
		}
		return knInvalid, false
	}
	if knTypeString(e) == "int" {
		return knInt, true
	}
	return knParseType(e)
}

func srZero(ty knType) string {
	if ty == knInt {
		return "(0 : Int)"
	}
	return knZero(ty)
}

func (t *srTr) function() ([]string, error) {
	f, d := t.fn, t.fn.decl
	sig := "?"
	if d.Body != nil {
		a, b := t.pkg.fset.Position(d.Pos()).Offset, t.pkg.fset.Position(d.Body.Lbrace).Offset
		sig = strings.Join(strings.Fields(string(f.src[a:b])), " ")
	}
	f.comment = fmt.Sprintf("Go: `%s` — geometry/%s", sig, t.pos(d))
	if d.Body == nil {
		return nil, t.errf(d, "function without a body")
	}
	if d.Type.TypeParams != nil || d.Recv != nil {
		return nil, t.errf(d, "generic function or method")
	}
	for _, s := range knStructs {
		if why, bad := t.pkg.badStruct[s.goName]; bad && (s.ty == knPoint || s.ty == knRect) {
			return nil, t.errf(d, "%s", why)
		}
	}
	env := &knEnv{vars: map[string]knType{}}
	var binders []string
	for _, fld := range d.Type.Params.List {
		ty, ok := srParseType(fld.Type)
		if !ok {
			return nil, t.errf(fld, "parameter type outside the subset")
		}
		if len(fld.Names) == 0 {
			binders = append(binders, "(_ : "+ty.lean()+")")
		}
		for _, n := range fld.Names {
			if n.Name == "_" {
				binders = append(binders, "(_ : "+ty.lean()+")")
				continue
			}
			id, err := t.ident(n.Name)
			if err != nil {
				return nil, t.errf(n, "%v", err)
			}
			env.vars[n.Name] = ty
			binders = append(binders, "("+id+" : "+ty.lean()+")")
		}
	}
	if d.Type.Results == nil || len(d.Type.Results.List) == 0 {
		return nil, t.errf(d, "function without a result")
	}
	var pre, resTys []string
	for _, fld := range d.Type.Results.List {
		ty, ok := srParseType(fld.Type)
		if !ok || ty == knPoints {
			return nil, t.errf(fld, "result type outside the subset")
		}
		if len(fld.Names) == 0 {
			t.results = append(t.results, srResult{"", ty})
			resTys = append(resTys, ty.lean())
		}
		for _, n := range fld.Names {
			t.results = append(t.results, srResult{n.Name, ty})
			resTys = append(resTys, ty.lean())
			if n.Name == "_" {
				continue
			}
			if _, dup := env.vars[n.Name]; dup {
				return nil, t.errf(n, "result %s has the name of a parameter", n.Name)
			}
			id, err := t.ident(n.Name)
			if err != nil {
				return nil, t.errf(n, "%v", err)
			}
			env.vars[n.Name] = ty
			pre = append(pre, "let "+id+" : "+ty.lean()+" := "+srZero(ty))
		}
	}
	resTy := strings.Join(resTys, " × ")
	name := f.leanName
	if t.useOobFn() {
		env.vars[srOob] = knBool
		pre = append([]string{"let " + srOob + " : Bool := false"}, pre...)
		name += "Aux"
	}
	body, err := t.block(d.Body.List, env, srMode{top: true})
	if err != nil {
		return nil, err
	}
	bs := strings.Join(binders, " ")
	var args []string
	for _, b := range binders {
		args = append(args, strings.Fields(strings.Trim(b, "()"))[0])
	}
	as := strings.Join(args, " ")
	var out []string
	if t.useOobFn() {
		out = append(out, "/-- "+f.comment+".",
			"    First component: an index expression was out of range (the Go function panics). -/",
			"def "+name+" {α : Type} [KNum α] "+bs+" : Bool × ("+resTy+") :=")
		out = append(out, knIndent(append(pre, body...))...)
		out = append(out, "", "/-- "+f.comment+" (the results) -/",
			"def "+f.leanName+" {α : Type} [KNum α] "+bs+" : "+resTy+" :=",
			"  ("+name+" "+as+").2", "",
			"/-- does "+f.key+" panic with an index out of range? -/",
			"def "+f.leanName+"Panics {α : Type} [KNum α] "+bs+" : Bool :=",
			"  ("+name+" "+as+").1")
		return out, nil
	}
	out = append(out, "/-- "+f.comment+" -/", "def "+name+" {α : Type} [KNum α] "+bs+" : "+resTy+" :=")
	return append(out, knIndent(append(pre, body...))...), nil
}

const srHeader = `/-
  GENERATED FILE — do not edit.  Regenerate with
      cd /verif/translate && go build -o bin/translate . && \
        ./bin/translate series /repo > /verif/lean/GeoModel/Generated/SeriesGen.lean

  Syntactic translation (translate/series.go, on top of translate/kernel.go) of processPoints of
  geometry/series.go.  Conventions as in Generated/KernelGen.lean, and in addition:
    * int ↦ Int (unbounded).  Only integer literals, len(s), + and - are accepted on ints, so
      every int value is bounded by len(points) plus the literals of the source: the int64
      arithmetic of Go cannot wrap around here.  An int comparison a < b ↦ decide (a < b);
    * []Point ↦ Array (KPoint α); len(s) ↦ (s.size : Int); s[e] ↦ idx s e, the element when
      0 ≤ e < len(s) and the zero Point otherwise.  Go panics in that case: the flag oob' is
      raised (let oob' := oob' || !inb s e, in evaluation order and respecting the
      short-circuit of && and ||) before every statement or condition that indexes, and
      <f>Aux returns it as its first component; <f> and <f>Panics are its projections;
    * named results are variables initialised to their zero values; a bare return ↦ their tuple;
    * for i := lo; i < hi; i++ { body }, where body assigns neither i nor a variable of hi ↦
      loop (hi - lo).toNat (<f>_loopN captured…) state: the body is the separate definition
      <f>_loopN (iteration number k', state s' ↦ new state) with i = lo + k'; the state is the
      tuple of the outer variables the body assigns, in alphabetical order; continue ↦ the
      current state;
    * an if statement that may fall through on both sides and is followed by more statements is
      joined through the tuple jN' of the variables it assigns (projections .1, .2.1, …).
  Anything outside the recognised subset appears below as  opaque <name>_unrecognised : Unit.
-/
import GeoModel.KNum

set_option linter.unusedVariables false

namespace Geo.SGen
open Geo
open scoped Geo.KNum

/-- Go's bounds check of ` + "`s[i]`" + ` -/
def inb {β : Type} (s : Array β) (i : Int) : Bool := decide (0 ≤ i) && decide (i.toNat < s.size)

/-- ` + "`s[i]`" + ` on a []Point; the zero Point when out of range (Go panics: see oob') -/
def idx {α : Type} [KNum α] (s : Array (KPoint α)) (i : Int) : KPoint α :=
  if inb s i then s.getD i.toNat { x := (KNum.ofNat 0 : α), y := (KNum.ofNat 0 : α) }
  else { x := (KNum.ofNat 0 : α), y := (KNum.ofNat 0 : α) }

/-- a counted loop: ` + "`body k`" + ` for k = 0, …, n-1 -/
def loop {σ : Type} (n : Nat) (body : Nat → σ → σ) (s : σ) : σ :=
  (List.range n).foldl (fun s k => body k s) s
`

func translateSeries(repo string) (string, error) {
	pkg, err := knLoad(repo)
	if err != nil {
		return "", err
	}
	var b strings.Builder
	b.WriteString(srHeader)
	for _, key := range srTargets {
		f := pkg.funcs[key]
		b.WriteString("\n")
		if f == nil {
			fmt.Fprintf(&b, "-- %s: NOT RECOGNISED: no such function in package geometry\n", key)
			fmt.Fprintf(&b, "opaque %s_unrecognised : Unit\n", knLeanName(key))
			continue
		}
		t := &srTr{knTr: &knTr{pkg: pkg, fn: f}}
		t.knTr.ext = t.extExpr
		lines, err := t.function()
		if err != nil {
			fmt.Fprintf(&b, "-- %s: NOT RECOGNISED: %s\n", key, strings.ReplaceAll(err.Error(), "\n", " "))
			if f.comment != "" {
				b.WriteString("/-- " + f.comment + " -/\n")
			}
			fmt.Fprintf(&b, "opaque %s_unrecognised : Unit\n", f.leanName)
			continue
		}
		for _, a := range t.aux {
			b.WriteString(a + "\n\n")
		}
		b.WriteString(strings.Join(lines, "\n") + "\n")
	}
	b.WriteString("\nend Geo.SGen\n")
	return b.String(), nil
}

func srMentions(n ast.Node, name string) bool {
	found := false
	ast.Inspect(n, func(n ast.Node) bool {
		if id, ok := n.(*ast.Ident); ok && id.Name == name {
			found = true
		}
		return !found
	})
	return found
}
