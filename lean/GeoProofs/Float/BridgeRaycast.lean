/-
  GeoProofs.Float.BridgeRaycast — `raycastF = Geo.raycast` on the regime E.
-/
import GeoProofs.Float.BridgeCast
namespace Geo.F
open Geo
theorem rcCastF_eq {a b p : Pt} (ha : PtE a) (hb : PtE b) (hp : PtE p) (n : ℕ) :
    rcCastF (n + 2) a b p = rcCast a b p := by
  unfold rcCastF rcCast
  rw [nudge_E hp.2 ha.2 hb.2]
  have hlt : ∀ v, InE v → decide (nextUp p.y < v) = decide (p.y < v) :=
    fun v hv => decide_eq_decide.mpr (nextUp_lt_iff hp.2 hv)
  have hgt : ∀ v, InE v → decide (nextUp p.y > v) = decide (p.y ≥ v) :=
    fun v hv => decide_eq_decide.mpr (nextUp_gt_iff hp.2 hv)
  by_cases hn : p.y = a.y ∨ p.y = b.y
  · have hnb : (decide (p.y = a.y) || decide (p.y = b.y)) = true := by simpa using hn
    simp only [hn, if_true, hnb, hlt a.y ha.2, hlt b.y hb.2, hgt a.y ha.2, hgt b.y hb.2]
    by_cases hab : a.y < b.y
    · simp only [hab, if_true]
      by_cases hro : (decide (p.y < a.y) || decide (p.y ≥ b.y)) = true
      · simp only [hro, if_true]
      · simp only [hro]
        simp only [Bool.or_eq_true, decide_eq_true_eq, not_or, not_lt, not_le] at hro
        have hpa : p.y = a.y := by
          rcases hn with h | h
          · exact h
          · exfalso; linarith
        by_cases h1 : a.x > b.x <;> by_cases h2 : p.x ≥ a.x <;> by_cases h3 : p.x ≤ b.x <;>
          by_cases h4 : p.x ≥ b.x <;> by_cases h5 : p.x ≤ a.x <;>
          simp only [h1, h2, h3, h4, h5, if_true, if_false] <;>
          rw [hpa, slope_cmp_nudged ha.2 ha.1 hb.2 hb.1 hp.1 hab (by intro h; linarith)
            (by intro h; linarith)]
    · simp only [hab, if_false]
      by_cases hro : (decide (p.y < b.y) || decide (p.y ≥ a.y)) = true
      · simp only [hro, if_true]
      · simp only [hro]
        simp only [Bool.or_eq_true, decide_eq_true_eq, not_or, not_lt, not_le] at hro
        have hpb : p.y = b.y := by
          rcases hn with h | h
          · exfalso; linarith
          · exact h
        have hba : b.y < a.y := by linarith
        by_cases h1 : a.x > b.x <;> by_cases h2 : p.x ≥ a.x <;> by_cases h3 : p.x ≤ b.x <;>
          by_cases h4 : p.x ≥ b.x <;> by_cases h5 : p.x ≤ a.x <;>
          simp only [h1, h2, h3, h4, h5, if_true, if_false] <;>
          rw [hpb, slope_cmp_nudged hb.2 hb.1 ha.2 ha.1 hp.1 hba (by intro h; linarith)
            (by intro h; linarith)]
  · have hnb : (decide (p.y = a.y) || decide (p.y = b.y)) = false := by simpa using hn
    simp only [hn, if_false, hnb, Bool.false_eq_true]
    rw [slope_cmp_exact ha.2 ha.1 hb.2 hb.1 hp.1 hp.2, slope_cmp_exact hb.2 hb.1 ha.2 ha.1 hp.1 hp.2]
    rfl

/-- **Raycast bridge.**  For a segment and a point with coordinates in E the binary64
    `Raycast` returns what the exact model returns (In, On and return site), for any loop fuel ≥ 2
    (the `Nextafter` loop exits after at most one step). -/
theorem raycastFuel_eq {a b p : Pt} (ha : PtE a) (hb : PtE b) (hp : PtE p) (n : ℕ) :
    raycastFuel (n + 2) a b p = Geo.raycast a b p := by
  unfold raycastFuel Geo.raycast
  rw [rcSlopeEqF_eq ha hb hp, rcCastF_eq ha hb hp]
  rfl

theorem raycastF_eq {a b p : Pt} (ha : PtE a) (hb : PtE b) (hp : PtE p) :
    raycastF a b p = Geo.raycast a b p := raycastFuel_eq ha hb hp 0

end Geo.F
