/-
  GeoProofs.Glue.IndexGlueRBasic — the small R-tree functions of the generated index
  (`IGen.rRect_expand / contains / intersects / largestAxis / recalc / chooseLeastEnlargement`,
  `IGen.appendFloat`, translation of geometry/rtree.go) compute the hand model's
  `GBox.expand / contains / meets`, the `axisY` of `splitEntries`, `recalcBoxes`, `chooseLeast`
  and the coordinate encoder `encOf`.
-/
import GeoProofs.Glue.IndexGlueR

namespace Geo.IGlue
open Geo Geo.IGen
open scoped Geo.KNum

variable {F S SR D : Type} [KNum F] [Carrier F] [Compat F] (ops : Ops F S SR D)

/-! ## expand, contains, intersects, largestAxis -/

theorem expand_eq (r b : IGen.RRect F) :
    rbox (IGen.rRect_expand ops r b) = (rbox r).expand (rbox b) ∧
      (IGen.rRect_expand ops r b).data = r.data := by
  cases r with
  | mk rd r0 r1 r2 r3 =>
  cases b with
  | mk bd b0 b1 b2 b3 =>
  simp only [IGen.rRect_expand, rbox, GBox.expand, Compat.lt, KNum.gt, IGen.RRect.min0,
    IGen.RRect.min1, IGen.RRect.max0, IGen.RRect.max1, IGen.RRect.data]
  by_cases h0 : (b0 <ₖ r0) = true <;> by_cases h1 : (b1 <ₖ r1) = true <;>
    by_cases h2 : (r2 <ₖ b2) = true <;> by_cases h3 : (r3 <ₖ b3) = true <;>
    simp [h0, h1, h2, h3]

theorem contains_eq (r b : IGen.RRect F) :
    IGen.rRect_contains ops r b = (rbox r).contains (rbox b) := by
  cases r with
  | mk rd r0 r1 r2 r3 =>
  cases b with
  | mk bd b0 b1 b2 b3 =>
  simp only [IGen.rRect_contains, rbox, GBox.contains, Compat.lt, KNum.gt, IGen.RRect.min0,
    IGen.RRect.min1, IGen.RRect.max0, IGen.RRect.max1]
  by_cases h0 : (b0 <ₖ r0) = true <;> by_cases h1 : (b1 <ₖ r1) = true <;>
    by_cases h2 : (r2 <ₖ b2) = true <;> by_cases h3 : (r3 <ₖ b3) = true <;>
    simp [h0, h1, h2, h3]

theorem intersects_eq (r b : IGen.RRect F) :
    IGen.rRect_intersects ops r b = (rbox r).meets (rbox b) := by
  cases r with
  | mk rd r0 r1 r2 r3 =>
  cases b with
  | mk bd b0 b1 b2 b3 =>
  simp only [IGen.rRect_intersects, rbox, GBox.meets, Compat.lt, KNum.gt, IGen.RRect.min0,
    IGen.RRect.min1, IGen.RRect.max0, IGen.RRect.max1]
  by_cases h0 : (r2 <ₖ b0) = true <;> by_cases h1 : (b2 <ₖ r0) = true <;>
    by_cases h2 : (r3 <ₖ b1) = true <;> by_cases h3 : (b3 <ₖ r1) = true <;>
    simp [h0, h1, h2, h3]

theorem largestAxis_eq (r : IGen.RRect F) :
    (IGen.rRect_largestAxis ops r).1 =
      if Carrier.lt (Carrier.sub r.max0 r.min0) (Carrier.sub r.max1 r.min1) then 1 else 0 := by
  cases r with
  | mk rd r0 r1 r2 r3 =>
  simp only [IGen.rRect_largestAxis, Compat.lt, Compat.sub, KNum.gt, IGen.RRect.min0,
    IGen.RRect.min1, IGen.RRect.max0, IGen.RRect.max1]
  by_cases h : ((r2 -ₖ r0) <ₖ (r3 -ₖ r1)) = true <;> simp [h]

/-! ## appendFloat -/

theorem putU64_zero8 (v : Nat) : putU64 (Array.replicate 8 0) 0 v = (leBytes v 8).toArray := by
  apply Array.ext
  · simp [putU64, leBytes]
  · intro i h1 h2
    have h8 : i < 8 := by simpa [leBytes] using h2
    have : i = 0 ∨ i = 1 ∨ i = 2 ∨ i = 3 ∨ i = 4 ∨ i = 5 ∨ i = 6 ∨ i = 7 := by omega
    rcases this with rfl | rfl | rfl | rfl | rfl | rfl | rfl | rfl <;> simp [putU64, leBytes]

omit [Compat F] in
theorem appendFloat_eq {S SR : Type} (segAt : SR → Int → S) (segRect : S → Rect F) (f64 : Nat → F)
    (bits : F → Nat) (isNil : List F → Bool) (dst : Array Nat) (x : F) :
    IGen.appendFloat (aOpsR segAt segRect f64 bits isNil) dst x
      = some (dst ++ (encOf bits x).toArray) := by
  simp [IGen.appendFloat, aOpsR, encOf, putU64_zero8]

/-! ## counted loops over a slot array -/

theorem loopM_range'_slots {α σ : Type} (P : σ → Prop) (f : σ → α → σ) (body : Int → σ → Option σ)
    (xs : List α) :
    ∀ (n l : Nat) (s : σ), l + n ≤ xs.length → P s →
      (∀ k, l ≤ k → k < l + n → ∀ (h : k < xs.length) s, P s →
        body (Int.ofNat k) s = some (f s xs[k]) ∧ P (f s xs[k])) →
      loopM ((List.range' l n).map Int.ofNat) s body = some (((xs.drop l).take n).foldl f s) := by
  intro n
  induction n with
  | zero => intro l s _ _ _; simp [loopM]
  | succ n ih =>
    intro l s hl hp hb
    have hlt : l < xs.length := by omega
    rw [List.range'_succ, List.map_cons]
    simp only [loopM]
    rw [(hb l (Nat.le_refl _) (by omega) hlt s hp).1]
    simp only []
    rw [ih (l + 1) (f s xs[l]) (by omega) (hb l (Nat.le_refl _) (by omega) hlt s hp).2
      (fun k h1 h2 h s => hb k (by omega) (by omega) h s)]
    rw [List.drop_eq_getElem_cons hlt, List.take_succ_cons, List.foldl_cons]

theorem intRange_eq_range' (lo hi : Int) (h0 : 0 ≤ lo) :
    intRange lo hi = (List.range' lo.toNat (hi.toNat - lo.toNat)).map Int.ofNat := by
  unfold intRange
  rw [List.range'_eq_map_range, List.map_map]
  have hn : (hi - lo).toNat = hi.toNat - lo.toNat := by omega
  rw [hn]
  apply List.map_congr_left
  intro k _
  simp only [Function.comp, Int.ofNat_eq_natCast]
  omega

/-- `for i := lo; i < hi; i++ { s = f(s, xs[i]) }` is a fold over `xs[lo:hi]` (and never panics) -/
theorem loopM_slots {α σ : Type} (P : σ → Prop) (f : σ → α → σ) (body : Int → σ → Option σ)
    (xs : List α) (lo hi : Int) (s : σ) (h0 : 0 ≤ lo) (hh : hi.toNat ≤ xs.length) (hp : P s)
    (hb : ∀ k (h : k < xs.length) s, P s → body (Int.ofNat k) s = some (f s xs[k]) ∧ P (f s xs[k])) :
    loopM (intRange lo hi) s body
      = some (((xs.drop lo.toNat).take (hi.toNat - lo.toNat)).foldl f s) := by
  rw [intRange_eq_range' lo hi h0]
  by_cases hle : lo.toNat ≤ hi.toNat
  · exact loopM_range'_slots P f body xs _ _ s (by omega) hp (fun k _ _ h s => hb k h s)
  · have : hi.toNat - lo.toNat = 0 := by omega
    rw [this]; simp [loopM]

theorem listAt_ofNat {α : Type} (xs : List α) (k : Nat) (h : k < xs.length) :
    listAt xs (Int.ofNat k) = some xs[k] := by
  simp [listAt, h]

/-! ## recalc -/

/-- the loop state of `recalc` (the fields of the receiver) -/
def toT (r : IGen.RRect F) : Dyn F × F × F × F × F := (r.data, r.min0, r.min1, r.max0, r.max1)

def ofT (t : Dyn F × F × F × F × F) : IGen.RRect F := .mk t.1 t.2.1 t.2.2.1 t.2.2.2.1 t.2.2.2.2

omit [KNum F] [Carrier F] [Compat F] in
theorem ofT_toT (r : IGen.RRect F) : ofT (toT r) = r := by cases r; rfl

omit [Carrier F] [Compat F] in
theorem foldl_expand_toT (l : List (IGen.RRect F)) (r : IGen.RRect F) :
    l.foldl (fun s e => toT (IGen.rRect_expand ops (ofT s) e)) (toT r)
      = toT (l.foldl (IGen.rRect_expand ops) r) := by
  induction l generalizing r with
  | nil => rfl
  | cons e l ih => simp only [List.foldl_cons, ofT_toT, ih]

theorem foldl_expand_eq (l : List (IGen.RRect F)) (r : IGen.RRect F) :
    rbox (l.foldl (IGen.rRect_expand ops) r) = (l.map rbox).foldl GBox.expand (rbox r) ∧
      (l.foldl (IGen.rRect_expand ops) r).data = r.data := by
  induction l generalizing r with
  | nil => exact ⟨rfl, rfl⟩
  | cons e l ih =>
    simp only [List.foldl_cons, List.map_cons]
    rw [(ih _).1, (ih _).2, (expand_eq ops r e).1, (expand_eq ops r e).2]
    exact ⟨rfl, rfl⟩

theorem recalc_eq (r : IGen.RRect F) (nd : IGen.RNode F) (h : r.data = .rNode nd)
    (hs : SlotsOK nd) (hc : 1 ≤ nd.count) :
    ∃ r', IGen.rRect_recalc ops r = some r' ∧ r'.data = r.data ∧
      rbox r' = recalcBoxes ((usedSlots nd).map rbox) (rbox r) := by
  cases r with
  | mk rd r0 r1 r2 r3 =>
  simp only [IGen.RRect.data] at h
  subst h
  cases nd with
  | mk cnt rects =>
  obtain ⟨hlen, hc0, hc17⟩ := hs
  simp only [IGen.RNode.count, IGen.RNode.rects] at hlen hc0 hc17 hc
  cases rects with
  | nil => simp at hlen
  | cons e0 rest =>
  obtain ⟨c, hcc⟩ : ∃ c : Nat, cnt.toNat = c + 1 := ⟨cnt.toNat - 1, by omega⟩
  unfold IGen.rRect_recalc
  simp only [Option.bind_some, bind, Dyn.asRNode, IGen.RNode.count, IGen.RNode.rects]
  have e0' : listAt (e0 :: rest) 0 = some e0 := rfl
  simp only [e0', Option.bind_some]
  rw [loopM_slots (fun s => s.1 = Dyn.rNode (IGen.RNode.mk cnt (e0 :: rest)))
    (fun s e => toT (IGen.rRect_expand ops (ofT s) e)) _ (e0 :: rest) 1 cnt _ (by omega)
    (by simp only [List.length_cons] at hlen ⊢; omega) rfl ?_]
  · have hL : List.take (cnt.toNat - Int.toNat 1) (List.drop (Int.toNat 1) (e0 :: rest))
        = rest.take c := by
      have h1 : Int.toNat 1 = 1 := rfl
      rw [h1, hcc]; simp
    rw [hL, show (Dyn.rNode (IGen.RNode.mk cnt (e0 :: rest)), e0.min0, e0.min1, e0.max0, e0.max1)
        = toT (IGen.RRect.mk (Dyn.rNode (IGen.RNode.mk cnt (e0 :: rest))) e0.min0 e0.min1 e0.max0 e0.max1)
        from rfl, foldl_expand_toT]
    refine ⟨ofT _, rfl, ?_, ?_⟩
    · rw [ofT_toT, (foldl_expand_eq ops _ _).2]; rfl
    · rw [ofT_toT, (foldl_expand_eq ops _ _).1]
      simp only [usedSlots, IGen.RNode.rects, IGen.RNode.count, hcc, List.take_succ_cons,
        List.map_cons, recalcBoxes]
      rfl
  · intro k hk s hp
    obtain ⟨a, b, c, d, e⟩ := s
    simp only at hp
    subst hp
    simp only [listAt_ofNat _ _ hk, Option.bind_some]
    have hd := (expand_eq ops (IGen.RRect.mk (Dyn.rNode (IGen.RNode.mk cnt (e0 :: rest))) b c d e)
      (e0 :: rest)[k]).2
    rw [show ofT (Dyn.rNode (IGen.RNode.mk cnt (e0 :: rest)), b, c, d, e)
      = IGen.RRect.mk (Dyn.rNode (IGen.RNode.mk cnt (e0 :: rest))) b c d e from rfl]
    revert hd
    generalize IGen.rRect_expand ops _ _ = q
    intro hd
    cases q
    exact ⟨rfl, hd⟩

/-! ## chooseLeastEnlargement -/

/-- a counted loop over a slot array simulates a fold of the model, through a relation `R` between
    the loop state and the model's accumulator that may mention the index -/
theorem loopM_sim {α σ τ : Type} (R : Nat → σ → τ → Prop) (g : τ → α → τ)
    (body : Int → σ → Option σ) (xs : List α)
    (hb : ∀ k (h : k < xs.length) s t, R k s t →
      ∃ s', body (Int.ofNat k) s = some s' ∧ R (k + 1) s' (g t xs[k])) :
    ∀ (n l : Nat) (s : σ) (t : τ), l + n ≤ xs.length → R l s t →
      ∃ s', loopM ((List.range' l n).map Int.ofNat) s body = some s' ∧
        R (l + n) s' (((xs.drop l).take n).foldl g t) := by
  intro n
  induction n with
  | zero => intro l s t _ hr; exact ⟨s, by simp [loopM], by simpa using hr⟩
  | succ n ih =>
    intro l s t hl hr
    have hlt : l < xs.length := by omega
    obtain ⟨s1, hs1, hr1⟩ := hb l hlt s t hr
    obtain ⟨s2, hs2, hr2⟩ := ih (l + 1) s1 (g t xs[l]) (by omega) hr1
    refine ⟨s2, ?_, ?_⟩
    · rw [List.range'_succ, List.map_cons]
      simp only [loopM]
      rw [hs1]
      exact hs2
    · rw [List.drop_eq_getElem_cons hlt, List.take_succ_cons, List.foldl_cons]
      have : l + (n + 1) = l + 1 + n := by omega
      rw [this]
      exact hr2

/-- the model's `step` of `chooseLeast` -/
def clStep (b : GBox F) (acc : Option (Nat × F × F) × Nat) (r : GBox F) : Option (Nat × F × F) × Nat :=
  let i := acc.2
  let area := Carrier.mul (Carrier.sub r.maxx r.minx) (Carrier.sub r.maxy r.miny)
  let ex (bmin bmax rmin rmax : F) : F :=
    if Carrier.lt rmax bmax then
      if Carrier.lt bmin rmin then Carrier.sub bmax bmin else Carrier.sub bmax rmin
    else
      if Carrier.lt bmin rmin then Carrier.sub rmax bmin else Carrier.sub rmax rmin
  let enlargedArea := Carrier.mul (Carrier.mul Carrier.one (ex b.minx b.maxx r.minx r.maxx))
    (ex b.miny b.maxy r.miny r.maxy)
  let enlargement := Carrier.sub enlargedArea area
  match acc.1 with
  | none => (some (i, enlargement, area), i+1)
  | some (j, je, ja) =>
    if Carrier.lt enlargement je then (some (i, enlargement, area), i+1)
    else if feq enlargement je then
      if Carrier.lt area ja then (some (i, enlargement, area), i+1) else (some (j, je, ja), i+1)
    else (some (j, je, ja), i+1)

omit [KNum F] [Compat F] in
theorem chooseLeast_clStep (rects : List (GBox F)) (b : GBox F) :
    chooseLeast rects b = match (rects.foldl (clStep b) (none, 0)).1 with
      | some (j, _, _) => j
      | none => 0 := rfl

/-- the relation between the loop state `(j, jenlargement, jarea)` at index `k` and the model's
    accumulator: Go's `j == -1` is the model's `none` -/
def clRel (k : Nat) (s : Int × F × F) (t : Option (Nat × F × F) × Nat) : Prop :=
  t.2 = k ∧ ((k = 0 ∧ t.1 = none ∧ s.1 = -1) ∨
    ∃ j je ja, t.1 = some (j, je, ja) ∧ s = (Int.ofNat j, je, ja))

omit [KNum F] [Carrier F] [Compat F] in
theorem ite_some_some {α : Type} (c : Prop) [Decidable c] (a b : α) :
    (if c then some a else some b) = some (if c then a else b) := by
  split <;> rfl

/-- the per-dimension factor of the enlarged area, in the source's float operations -/
def exK (bmin bmax rmin rmax : F) : F :=
  if (rmax <ₖ bmax) then
    if (bmin <ₖ rmin) then bmax -ₖ bmin else bmax -ₖ rmin
  else
    if (bmin <ₖ rmin) then rmax -ₖ bmin else rmax -ₖ rmin

omit [KNum F] [Carrier F] [Compat F] in
theorem bind_of_sim {σ β : Type} (L : Option σ) (k : σ → Option β) (Q : σ → Prop) (v : Option β)
    (h1 : ∃ s', L = some s' ∧ Q s') (h2 : ∀ s', Q s' → k s' = v) : L.bind k = v := by
  obtain ⟨s', hL, hq⟩ := h1
  rw [hL]
  exact h2 s' hq

theorem chooseLeast_eq [CompatEq F] (r b : IGen.RRect F) (nd : IGen.RNode F)
    (h : r.data = .rNode nd) (hs : SlotsOK nd) (hc : 1 ≤ nd.count) :
    IGen.rRect_chooseLeastEnlargement ops r b
      = some (Int.ofNat (chooseLeast ((usedSlots nd).map rbox) (rbox b))) := by
  cases r with
  | mk rd r0 r1 r2 r3 =>
  simp only [IGen.RRect.data] at h
  subst h
  cases nd with
  | mk cnt rects =>
  obtain ⟨hlen, hc0, hc17⟩ := hs
  simp only [IGen.RNode.count, IGen.RNode.rects] at hlen hc0 hc17 hc
  unfold IGen.rRect_chooseLeastEnlargement
  simp only [Option.bind_some, bind, Dyn.asRNode, IGen.RNode.count, IGen.RNode.rects]
  have h02 : intRange 0 2 = [0, 1] := rfl
  have arr0 : ∀ x y : F, arrSel2 x y 0 = some x := fun _ _ => rfl
  have arr1 : ∀ x y : F, arrSel2 x y 1 = some y := fun _ _ => rfl
  rw [intRange_eq_range' 0 cnt (by omega)]
  refine bind_of_sim _ _ _ _ (loopM_sim clRel (fun t e => clStep (rbox b) t (rbox e)) _ rects ?_
    (cnt.toNat - Int.toNat 0) (Int.toNat 0) _ (none, 0) ?_ ?_) ?_
  · intro k hk s t hr
    obtain ⟨j, je, ja⟩ := s
    obtain ⟨acc, idx⟩ := t
    obtain ⟨hidx, hr⟩ := hr
    simp only at hidx
    subst hidx
    simp only [listAt_ofNat _ _ hk, Option.bind_some]
    generalize hEA : loopM (intRange 0 2) _ _ = EA
    have hEA' : EA = some (((KNum.ofNat 1 : F) *ₖ exK b.min0 b.max0 rects[idx].min0 rects[idx].max0)
        *ₖ exK b.min1 b.max1 rects[idx].min1 rects[idx].max1) := by
      rw [← hEA, h02]
      simp only [loopM, arr0, arr1, Option.bind_some, exK, KNum.gt]
      by_cases c1 : (rects[idx].max0 <ₖ b.max0) = true <;>
        by_cases c2 : (b.min0 <ₖ rects[idx].min0) = true <;>
        by_cases c3 : (rects[idx].max1 <ₖ b.max1) = true <;>
        by_cases c4 : (b.min1 <ₖ rects[idx].min1) = true <;>
        simp [c1, c2, c3, c4]
    subst hEA'
    clear hEA
    simp only [Option.bind_some, clStep, rbox, Compat.lt, Compat.sub, Compat.mul, Compat.one,
      ← CompatEq.eq, exK]
    generalize (rects[idx].max0 -ₖ rects[idx].min0) *ₖ (rects[idx].max1 -ₖ rects[idx].min1) = area
    generalize (KNum.sub _ area) = enl
    rcases hr with ⟨_, hnone, hj⟩ | ⟨j', je', ja', hacc, hs⟩
    · simp only at hnone hj
      subst hnone; subst hj
      exact ⟨_, by simp, rfl, Or.inr ⟨idx, enl, area, rfl, rfl⟩⟩
    · simp only at hacc
      subst hacc
      simp only [Prod.mk.injEq] at hs
      obtain ⟨rfl, rfl, rfl⟩ := hs
      have hne : (Int.ofNat j' == (-1 : Int)) = false := by
        simp only [Int.ofNat_eq_natCast, beq_eq_false_iff_ne, ne_eq]
        omega
      simp only [hne, Bool.false_or]
      by_cases c1 : (enl <ₖ je) = true
      · simp only [c1, if_true]
        exact ⟨_, rfl, rfl, Or.inr ⟨_, _, _, rfl, rfl⟩⟩
      · by_cases c2 : (enl ==ₖ je) = true
        · by_cases c3 : (area <ₖ ja) = true
          · simp only [c1, c2, c3, if_true]
            exact ⟨_, rfl, rfl, Or.inr ⟨_, _, _, rfl, rfl⟩⟩
          · simp only [c1, c2, c3, if_true]
            exact ⟨_, rfl, rfl, Or.inr ⟨_, _, _, rfl, rfl⟩⟩
        · simp only [c1, c2]
          exact ⟨_, rfl, rfl, Or.inr ⟨_, _, _, rfl, rfl⟩⟩
  · simp only [Int.toNat_zero]; omega
  · exact ⟨rfl, Or.inl ⟨rfl, rfl, rfl⟩⟩
  · intro s' hq
    obtain ⟨_, hq⟩ := hq
    simp only [Int.toNat_zero, Nat.zero_add, Nat.sub_zero, List.drop_zero] at hq
    rcases hq with ⟨hz, _, _⟩ | ⟨j', je', ja', ht, hs'⟩
    · omega
    · subst hs'
      rw [chooseLeast_clStep]
      simp only [usedSlots, IGen.RNode.rects, IGen.RNode.count, List.foldl_map]
      rw [ht]

end Geo.IGlue

#print axioms Geo.IGlue.expand_eq
#print axioms Geo.IGlue.contains_eq
#print axioms Geo.IGlue.intersects_eq
#print axioms Geo.IGlue.largestAxis_eq
#print axioms Geo.IGlue.recalc_eq
#print axioms Geo.IGlue.chooseLeast_eq
#print axioms Geo.IGlue.appendFloat_eq
