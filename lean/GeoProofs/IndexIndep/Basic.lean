/-
  GeoProofs.IndexIndep.Basic — index independence of the geometric predicates (C04, last clause).

  The index of a series enters the predicates only through `Ring.search` / `Series.search`.  By
  `Series.SearchExact` every search is the early-exit fold of the callback over a visit list
  that is a PERMUTATION of the brute-force filter.  `Ring.Sim r r'` ("same shape, possibly
  different index"): all index-free data agree and for every query the two searches are folds
  over two lists that are permutations of one another.  This file: the relation, and the two
  basic folds (point membership: hit bit; ∃-search `Ring.searchAny`).
-/
import GeoProofs.Props.C01

namespace Geo

/-! ### the relation -/

/-- the search of ring `r` with query `q` is the early-exit fold over the visit list `l` -/
def Ring.FoldOn (r : Ring) (q : Box) (l : List Nat) : Prop :=
  (∀ i ∈ l, i < r.numSegments) ∧
  ∀ {σ : Type} (f : σ → Seg → Nat → σ × Bool) (st : σ),
    r.search q f st = (foldUntil (fun st i => f st (r.segmentAt i) i) st l).1

/-- the index-free data of two rings agree -/
structure Ring.Data (r r' : Ring) : Prop where
  rect : r.rect = r'.rect
  empty : r.empty = r'.empty
  convex : r.convex = r'.convex
  clockwise : r.clockwise = r'.clockwise
  numPoints : r.numPoints = r'.numPoints
  numSegments : r.numSegments = r'.numSegments
  pointAt : r.pointAt = r'.pointAt
  segmentAt : r.segmentAt = r'.segmentAt

/-- same shape; every search visits the same multiset of segments -/
structure Ring.Sim (r r' : Ring) : Prop extends Ring.Data r r' where
  search : ∀ q, ∃ l l', List.Perm l l' ∧ r.FoldOn q l ∧ r'.FoldOn q l'

theorem Ring.Data.refl (r : Ring) : r.Data r := ⟨rfl, rfl, rfl, rfl, rfl, rfl, rfl, rfl⟩

theorem Ring.Data.symm {r r' : Ring} (h : r.Data r') : r'.Data r :=
  ⟨h.rect.symm, h.empty.symm, h.convex.symm, h.clockwise.symm, h.numPoints.symm,
    h.numSegments.symm, h.pointAt.symm, h.segmentAt.symm⟩

theorem Ring.Sim.symm {r r' : Ring} (h : r.Sim r') : r'.Sim r :=
  ⟨h.toData.symm, fun q => by
    obtain ⟨l, l', hp, h1, h2⟩ := h.search q
    exact ⟨l', l, hp.symm, h2, h1⟩⟩

/-- two series that differ at most in their index -/
def Series.Same (s t : Series) : Prop :=
  s.pts = t.pts ∧ s.closed = t.closed ∧ s.convex = t.convex ∧ s.clockwise = t.clockwise ∧
    s.rect = t.rect

theorem Series.Same.refl (s : Series) : s.Same s := ⟨rfl, rfl, rfl, rfl, rfl⟩
theorem Series.Same.symm {s t : Series} (h : s.Same t) : t.Same s :=
  ⟨h.1.symm, h.2.1.symm, h.2.2.1.symm, h.2.2.2.1.symm, h.2.2.2.2.symm⟩

theorem mkSeries_same (pts : Array Pt) (closed : Bool) (k1 k2 : IndexKind) (m1 m2 : Nat) :
    (mkSeries pts closed k1 m1).Same (mkSeries pts closed k2 m2) := ⟨rfl, rfl, rfl, rfl, rfl⟩

theorem Series.Same.numSegments {s t : Series} (h : s.Same t) : s.numSegments = t.numSegments := by
  unfold Series.numSegments; rw [h.1, h.2.1]
theorem Series.Same.segmentAt {s t : Series} (h : s.Same t) : s.segmentAt = t.segmentAt := by
  funext i; unfold Series.segmentAt; rw [h.1]
theorem Series.Same.empty {s t : Series} (h : s.Same t) : s.empty = t.empty := by
  unfold Series.empty; rw [h.1, h.2.1]
theorem Series.Same.numPoints {s t : Series} (h : s.Same t) : s.numPoints = t.numPoints := by
  unfold Series.numPoints; rw [h.1]

theorem Series.Same.data {s t : Series} (h : s.Same t) : (Ring.ser s).Data (.ser t) where
  rect := h.2.2.2.2
  empty := h.empty
  convex := h.2.2.1
  clockwise := h.2.2.2.1
  numPoints := h.numPoints
  numSegments := h.numSegments
  pointAt := by funext i; show s.pts[i]! = t.pts[i]!; rw [h.1]
  segmentAt := h.segmentAt

/-- a series whose search is exact: the ring search is a fold over a permutation of the
    brute-force filter -/
theorem Series.SearchExact.foldOn {s : Series} (hs : s.SearchExact) (q : Box) :
    ∃ l, List.Perm l ((List.range s.numSegments).filter (fun i => (s.segmentAt i).box.intersects q)) ∧
      (Ring.ser s).FoldOn q l := by
  obtain ⟨l, hp, hv⟩ := hs q
  refine ⟨l, hp, ?_, ?_⟩
  · intro i hi
    exact List.mem_range.1 (List.mem_filter.1 (hp.mem_iff.1 hi)).1
  · intro σ f st
    rw [ring_search_ser, hv]
    rfl

/-- **the bridge**: two series that differ only in their index, both searching exactly, are
    similar rings -/
theorem Series.Same.sim {s t : Series} (h : s.Same t) (hs : s.SearchExact) (ht : t.SearchExact) :
    (Ring.ser s).Sim (.ser t) where
  toData := h.data
  search := fun q => by
    obtain ⟨l, hp, hl⟩ := hs.foldOn q
    obtain ⟨l', hp', hl'⟩ := ht.foldOn q
    refine ⟨l, l', ?_, hl, hl'⟩
    rw [← h.numSegments, ← h.segmentAt] at hp'
    exact hp.trans hp'.symm

/-- a rectangle used as a ring has no index: it is similar to itself -/
theorem Ring.Sim.bx (b : Box) : (Ring.bx b).Sim (.bx b) where
  toData := Ring.Data.refl _
  search := fun q => by
    refine ⟨_, _, List.Perm.refl ([0, 1, 2, 3].filter (fun i => (b.segmentAt i).box.intersects q)), ?_, ?_⟩ <;>
    · refine ⟨?_, fun f st => bx_search b q f st⟩
      intro i hi
      have := (List.mem_filter.1 hi).1
      simp only [List.mem_cons, List.not_mem_nil, or_false] at this
      show i < 4
      omega

theorem stripBox_congr {r r' : Ring} (h : r.rect = r'.rect) (p : Pt) : stripBox r p = stripBox r' p := by
  unfold stripBox; rw [h]

/-! ### point membership -/

theorem Ring.FoldOn.containsPoint {r : Ring} {p : Pt} {l : List Nat}
    (h : r.FoldOn (stripBox r p) l) (allow : Bool) :
    ringContainsPoint r p allow =
      if !r.rect.containsPt p then ⟨false, none⟩
      else ⟨(cpFold r.segmentAt p allow (false, none) l).1,
            (cpFold r.segmentAt p allow (false, none) l).2⟩ := by
  rw [ringContainsPoint_eq, h.2]
  rfl

/-- the reported index is a segment of the ring that carries the point -/
theorem Ring.Sim.idx_on {r r' : Ring} (h : r.Sim r') (p : Pt) (allow : Bool) (i : Nat)
    (hi : (ringContainsPoint r p allow).idx = some i) :
    i < r.numSegments ∧ ((r.segmentAt i).raycast p).on = true := by
  obtain ⟨l, l', _, h1, _⟩ := h.search (stripBox r p)
  rw [h1.containsPoint] at hi
  split at hi
  · cases hi
  · obtain ⟨m, o⟩ := cpFold_idx _ _ _ _ _ _ hi
    exact ⟨h1.1 i m, o⟩

/-- the hit bit and the presence of an edge index are the same for similar rings -/
theorem Ring.Sim.containsPoint {r r' : Ring} (h : r.Sim r') (p : Pt) (allow : Bool) :
    (ringContainsPoint r p allow).hit = (ringContainsPoint r' p allow).hit ∧
    (ringContainsPoint r p allow).idx.isSome = (ringContainsPoint r' p allow).idx.isSome := by
  obtain ⟨l, l', hp, h1, h2⟩ := h.search (stripBox r p)
  rw [stripBox_congr h.rect] at h2
  rw [h1.containsPoint, h2.containsPoint, ← h.rect, ← h.segmentAt]
  split
  · exact ⟨rfl, rfl⟩
  · refine ⟨cpFold_hit_perm _ _ _ _ _ hp _ _ _, ?_⟩
    show (cpFold r.segmentAt p allow (false, none) l).2.isSome =
      (cpFold r.segmentAt p allow (false, none) l').2.isSome
    rw [cpFold_idx_isSome, cpFold_idx_isSome, hp.any_eq]

theorem Ring.Sim.hit {r r' : Ring} (h : r.Sim r') (p : Pt) (allow : Bool) :
    (ringContainsPoint r p allow).hit = (ringContainsPoint r' p allow).hit :=
  (h.containsPoint p allow).1

/-! ### the ∃-search -/

theorem Ring.FoldOn.searchAny {r : Ring} {q : Box} {l : List Nat} (h : r.FoldOn q l)
    (pred : Seg → Nat → Bool) : r.searchAny q pred = l.any (fun i => pred (r.segmentAt i) i) := by
  unfold Ring.searchAny
  rw [h.2]
  rw [anyFold (fun i => pred (r.segmentAt i) i) l false, Bool.false_or]

/-- list level: the ∃-fold with early exit depends only on the multiset of visited segments -/
theorem searchAny_fold_perm (segAt : Nat → Seg) (pred : Seg → Nat → Bool) (v1 v2 : List Nat)
    (h : List.Perm v1 v2) :
    (foldUntil (fun (st : Bool) i => if pred (segAt i) i then (true, false) else (st, true)) false v1).1 =
    (foldUntil (fun (st : Bool) i => if pred (segAt i) i then (true, false) else (st, true)) false v2).1 := by
  rw [anyFold (fun i => pred (segAt i) i) v1 false, anyFold (fun i => pred (segAt i) i) v2 false,
    h.any_eq]

theorem Ring.Sim.searchAny {r r' : Ring} (h : r.Sim r') (q : Box) (pred : Seg → Nat → Bool) :
    r.searchAny q pred = r'.searchAny q pred := by
  obtain ⟨l, l', hp, h1, h2⟩ := h.search q
  rw [h1.searchAny, h2.searchAny, ← h.segmentAt, hp.any_eq]

end Geo
