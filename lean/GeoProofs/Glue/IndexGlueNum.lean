/-
  GeoProofs.Glue.IndexGlueNum — generated `appendNum` / `readNum` (geometry/qtree.go) on `Array Nat`
  equal the model's, byte for byte.
-/
import GeoProofs.Glue.IndexGlueOps

namespace Geo.IGlue
open Geo Geo.IGen

variable {F S SR : Type} [KNum F] [Carrier F]
variable (segAt : SR → Int → S) (segRect : S → Rect F) (f64 : Nat → F)

theorem putU16_append (dst : Array Nat) (v : Nat) :
    putU16 (dst ++ [0, 0].toArray) dst.size v = dst ++ [v % 256, v / 256 % 256].toArray := by
  apply Array.ext
  · simp [putU16]
  · intro i h1 h2
    simp [putU16, Array.getElem_append]

theorem putU32_append (dst : Array Nat) (v : Nat) :
    putU32 (dst ++ [0, 0, 0, 0].toArray) dst.size v = dst ++ (leBytes v 4).toArray := by
  apply Array.ext
  · simp [putU32, leBytes]
  · intro i h1 h2
    simp [putU32, leBytes, Array.getElem_append]
    repeat' split
    all_goals first | omega | simp_all
    all_goals (try omega)

theorem appendNum_eq (dst : Array Nat) (num w : Nat) :
    IGen.appendNum (aOps segAt segRect f64) dst num w = some (Geo.appendNum dst num w) := by
  unfold IGen.appendNum Geo.appendNum
  by_cases h1 : w = 1
  · subst h1; simp [aOps, leBytes]
  · by_cases h2 : w = 2
    · subst h2
      simp [aOps, leBytes]
      have := putU16_append dst (num % 65536)
      simp at this
      rw [this]
      have e2 : num % 65536 / 256 % 256 = num / 256 % 256 := by omega
      rw [e2]
    · simp [aOps, h1, h2]
      have := putU32_append dst num
      simpa using this

theorem readLE_extract (data : Array Nat) (addr k : Nat) (_h : addr ≤ data.size) (off : Nat) :
    readLE (data.extract addr data.size) off k = readLE data (addr + off) k := by
  induction k generalizing off with
  | zero => rfl
  | succ k ih =>
    simp only [readLE]
    rw [ih (off + 1)]
    have : (data.extract addr data.size)[off]? = data[addr + off]? := by
      simp [Array.getElem?_extract]
      intro h'
      omega
    rw [this]
    rfl

/-- `readNum(data[addr:], w)`: the slicing and the read together are the model's `readNum data addr w` -/
theorem readNum_eq (data : Array Nat) (addr w : Nat) :
    ((aOps segAt segRect f64).bytesFrom data (Int.ofNat addr)).bind
        (fun sl => IGen.readNum (aOps segAt segRect f64) sl w) = Geo.readNum data addr w := by
  by_cases h : addr ≤ data.size
  · have hf : (aOps segAt segRect f64).bytesFrom data (Int.ofNat addr) = some (data.extract addr data.size) := by
      simp [aOps]; omega
    rw [hf]
    simp only [Option.bind_some]
    unfold IGen.readNum Geo.readNum
    by_cases h1 : w = 1
    · subst h1
      simp [aOps, readLE]
      have := readLE_extract data addr 1 h 0
      simp [readLE] at this
      cases h0 : (data.extract addr)[0]? <;> cases h1 : data[addr]? <;> simp_all
    · by_cases h2 : w = 2
      · subst h2; simp [aOps, readLE_extract _ _ _ h]
      · simp [aOps, h1, h2, readLE_extract _ _ _ h]
  · have hf : (aOps segAt segRect f64).bytesFrom data (Int.ofNat addr) = none := by
      simp [aOps]; omega
    rw [hf]
    have hn : data[addr]? = none := by simp; omega
    unfold Geo.readNum
    split <;> simp [readLE, hn]

end Geo.IGlue
