/-
  GeoProofs.IndexIndep.Segment — `ringContainsSegmentS` under a change of index.

  With `allowOnEdge = false`, or a convex ring, the edge index reported by `ringContainsPoint`
  is never looked at: the answer is index independent.  With `allowOnEdge = true` on a concave
  ring, sites 6/7/8 use the index of the FIRST visited edge that carries the endpoint.  That
  index is order independent exactly when the endpoint lies on one edge only; when it lies on
  several edges but is an END of each of them (a ring vertex of a ring whose edges meet only at
  shared vertices) every choice makes site 6 or site 7 fire with answer `true`.  Condition
  `Ring.IdxUnique r p` covers both; without it the answer genuinely depends on the visit order
  (see `Counterexample.lean`).
-/
import GeoProofs.IndexIndep.Count

namespace Geo

/-- the part of `ringContainsSegmentS` that looks at the two reported edge indexes -/
def csTail (ring : Ring) (seg : Seg) (ia ib : Option Nat) : BoolSite :=
  match ia, ib with
  | some ia, some ib =>
    if ib = ia then ⟨true, 6⟩
    else
      let rSegA := ring.segmentAt ia
      let rSegB := ring.segmentAt ib
      if rSegA.a = seg.a || rSegA.b = seg.a || rSegB.a = seg.a || rSegB.b = seg.a ||
         rSegA.a = seg.b || rSegA.b = seg.b || rSegB.a = seg.b || rSegB.b = seg.b then ⟨true, 7⟩
      else
        let (rSegA, rSegB) := if ib < ia then (rSegB, rSegA) else (rSegA, rSegB)
        let pts := [rSegA.a, rSegA.b, rSegB.a, rSegB.b, rSegA.a]
        let cwc := (pts.zip pts.tail).foldl (fun acc (ab : Pt × Pt) =>
          acc + (ab.2.x - ab.1.x) * (ab.2.y + ab.1.y)) (0 : Rat)
        let clockwise := decide (cwc > 0)
        if clockwise != ring.clockwise then ⟨false, 8⟩
        else
          let inter := ring.searchAny seg.box (fun seg2 _ =>
            seg.intersects seg2 && !(seg2.raycast seg.a).on && !(seg2.raycast seg.b).on)
          ⟨!inter, 9⟩
  | some _, none =>
    let inter := ring.searchAny seg.box (fun seg2 _ =>
      seg.intersects seg2 && !(seg2.raycast seg.a).on)
    ⟨!inter, 10⟩
  | none, some _ =>
    let inter := ring.searchAny seg.box (fun seg2 _ =>
      seg.intersects seg2 && !(seg2.raycast seg.b).on)
    ⟨!inter, 11⟩
  | none, none =>
    let inter := ring.searchAny seg.box (fun seg2 _ =>
      seg.intersects seg2 && !(seg.raycast seg2.a).on && !(seg.raycast seg2.b).on)
    ⟨!inter, 12⟩

theorem ringContainsSegmentS_eq (ring : Ring) (seg : Seg) (allowOnEdge : Bool) :
    ringContainsSegmentS ring seg allowOnEdge =
      if !ring.rect.containsPt seg.a || !ring.rect.containsPt seg.b then ⟨false, 1⟩
      else if !(ringContainsPoint ring seg.a allowOnEdge).hit then ⟨false, 2⟩
      else if seg.b = seg.a then ⟨true, 3⟩
      else if !(ringContainsPoint ring seg.b allowOnEdge).hit then ⟨false, 4⟩
      else if ring.convex then ⟨true, 5⟩
      else if allowOnEdge then
        csTail ring seg (ringContainsPoint ring seg.a allowOnEdge).idx
          (ringContainsPoint ring seg.b allowOnEdge).idx
      else ⟨!(ring.searchAny seg.box (fun seg2 _ => seg.intersects seg2)), 13⟩ := rfl

/-- `p` lies on one edge of the ring only, or is an end of every edge it lies on: the edge index
    reported by `ringContainsPoint` is then either unique or irrelevant -/
def Ring.IdxUnique (r : Ring) (p : Pt) : Prop :=
  ∀ i j, i < r.numSegments → j < r.numSegments →
    ((r.segmentAt i).raycast p).on = true → ((r.segmentAt j).raycast p).on = true →
    i = j ∨ (((r.segmentAt i).a = p ∨ (r.segmentAt i).b = p) ∧
             ((r.segmentAt j).a = p ∨ (r.segmentAt j).b = p))

/-- site 6 or 7 fires when the edge reported for `seg.a` has `seg.a` as an end -/
theorem csTail_true_of_end_a (ring : Ring) (seg : Seg) (i j : Nat)
    (h : (ring.segmentAt i).a = seg.a ∨ (ring.segmentAt i).b = seg.a) :
    (csTail ring seg (some i) (some j)).val = true := by
  unfold csTail
  simp only
  split
  · rfl
  · rw [if_pos]
    rcases h with h | h <;> simp [h]

theorem csTail_true_of_end_b (ring : Ring) (seg : Seg) (i j : Nat)
    (h : (ring.segmentAt j).a = seg.b ∨ (ring.segmentAt j).b = seg.b) :
    (csTail ring seg (some i) (some j)).val = true := by
  unfold csTail
  simp only
  split
  · rfl
  · rw [if_pos]
    rcases h with h | h <;> simp [h]

/-- same indexes, similar rings: same tail -/
theorem Ring.Sim.csTail_same {r r' : Ring} (h : r.Sim r') (seg : Seg) (ia ib : Option Nat) :
    csTail r seg ia ib = csTail r' seg ia ib := by
  unfold csTail
  simp only [h.searchAny, h.segmentAt, h.clockwise]

/-- the tail of `ringContainsSegmentS` for two similar rings, when the reported indexes may
    differ but each endpoint satisfies `IdxUnique` -/
theorem Ring.Sim.csTail_val {r r' : Ring} (h : r.Sim r') (seg : Seg) (allow : Bool)
    (ha : r.IdxUnique seg.a) (hb : r.IdxUnique seg.b) :
    (csTail r seg (ringContainsPoint r seg.a allow).idx (ringContainsPoint r seg.b allow).idx).val =
    (csTail r' seg (ringContainsPoint r' seg.a allow).idx (ringContainsPoint r' seg.b allow).idx).val := by
  have sa := (h.containsPoint seg.a allow).2
  have sb := (h.containsPoint seg.b allow).2
  have oa := h.idx_on seg.a allow
  have ob := h.idx_on seg.b allow
  have oa' := h.symm.idx_on seg.a allow
  have ob' := h.symm.idx_on seg.b allow
  rw [← h.numSegments, ← h.segmentAt] at oa' ob'
  generalize (ringContainsPoint r seg.a allow).idx = ia at *
  generalize (ringContainsPoint r seg.b allow).idx = ib at *
  generalize (ringContainsPoint r' seg.a allow).idx = ia' at *
  generalize (ringContainsPoint r' seg.b allow).idx = ib' at *
  rw [← h.csTail_same]
  cases ia with
  | none =>
    cases ia' with
    | some _ => cases sa
    | none =>
      cases ib with
      | none =>
        cases ib' with
        | some _ => cases sb
        | none => rfl
      | some j =>
        cases ib' with
        | none => cases sb
        | some j' => rfl
  | some i =>
    cases ia' with
    | none => cases sa
    | some i' =>
      cases ib with
      | none =>
        cases ib' with
        | some _ => cases sb
        | none => rfl
      | some j =>
        cases ib' with
        | none => cases sb
        | some j' =>
          obtain ⟨hi, oi⟩ := oa i rfl
          obtain ⟨hi', oi'⟩ := oa' i' rfl
          obtain ⟨hj, oj⟩ := ob j rfl
          obtain ⟨hj', oj'⟩ := ob' j' rfl
          rcases ha i i' hi hi' oi oi' with e1 | ⟨e1, e1'⟩
          · rcases hb j j' hj hj' oj oj' with e2 | ⟨e2, e2'⟩
            · rw [e1, e2]
            · rw [csTail_true_of_end_b r seg i j e2, csTail_true_of_end_b r seg i' j' e2']
          · rw [csTail_true_of_end_a r seg i j e1, csTail_true_of_end_a r seg i' j' e1']

/-- `ringContainsSegment` for similar rings: equal whenever the edge indexes are not used
    (exclusive reading, or convex ring) or both endpoints satisfy `IdxUnique` -/
theorem Ring.Sim.containsSegment {r r' : Ring} (h : r.Sim r') (seg : Seg) (allowOnEdge : Bool)
    (hc : allowOnEdge = false ∨ r.convex = true ∨ (r.IdxUnique seg.a ∧ r.IdxUnique seg.b)) :
    ringContainsSegment r seg allowOnEdge = ringContainsSegment r' seg allowOnEdge := by
  unfold ringContainsSegment
  rw [ringContainsSegmentS_eq, ringContainsSegmentS_eq, ← h.rect, ← h.hit, ← h.hit, ← h.convex,
    ← h.searchAny]
  split
  · rfl
  split
  · rfl
  split
  · rfl
  split
  · rfl
  split
  · rfl
  rename_i hconv
  split
  · rename_i hallow
    rcases hc with hc | hc | ⟨ha, hb⟩
    · rw [hc] at hallow; cases hallow
    · exact absurd hc hconv
    · exact h.csTail_val seg allowOnEdge ha hb
  · rfl

/-- the exclusive reading never looks at the edge indexes (the SITE is the same, too) -/
theorem Ring.Sim.containsSegmentS_false {r r' : Ring} (h : r.Sim r') (seg : Seg) :
    ringContainsSegmentS r seg false = ringContainsSegmentS r' seg false := by
  rw [ringContainsSegmentS_eq, ringContainsSegmentS_eq, ← h.rect, ← h.hit, ← h.hit, ← h.convex,
    ← h.searchAny]
  simp

end Geo
