/-
  GeoProofs.Contains.Ring — `ringContainsRing` / `ringContainsLine` are exact when no edge of
  the argument meets any edge of the ring, for arguments with fewer than 16 points (for which
  the rectangle shortcut is not taken), and for ≥ 16 points when in addition the ring's edges
  avoid the sides of the argument's bounding rectangle.  The shortcut on its own is NOT sound in
  general position: `ringContainsRing_shortcut_counterexample` (Props/C03General.lean).
-/
import GeoProofs.Contains.Segment

namespace Geo
open GL Jordan

/-- no edge of `es` meets any edge of `fs` -/
def NoContact (es fs : List (Pt × Pt)) : Prop :=
  ∀ e ∈ es, ∀ f ∈ fs, Spec.segsMeet e.1 e.2 f.1 f.2 = false

namespace Contains

theorem all_range_const (n : Nat) (f : Nat → Bool) (I : Bool) (hn : 0 < n)
    (h : ∀ i, i < n → f i = I) : (List.range n).all f = I := by
  cases I with
  | true =>
    rw [List.all_eq_true]
    intro i hi
    exact h i (List.mem_range.1 hi)
  | false =>
    rw [List.all_eq_false]
    exact ⟨0, List.mem_range.2 hn, by rw [h 0 hn]; exact Bool.false_ne_true⟩

theorem inRing_false_of_outside (pts : Array Pt) (p : Pt)
    (hp : (ringOf pts).rect.containsPt p = false) :
    Spec.inRing (Spec.edges pts.toList true) p = false := by
  obtain ⟨h1, h2⟩ := outside_rect pts p hp
  unfold Spec.inRing
  rw [h1, h2]; rfl

/-- the body of `ringContainsRing` on an argument all of whose points have the same membership
    `I`, none on the boundary, and all of whose segments avoid the ring -/
theorem body_core (pts : Array Pt) (other : Ring) (allow : Bool) (I : Bool)
    (hn : 0 < other.numPoints) (hm : 0 < other.numSegments)
    (hP : ∀ i, i < other.numPoints →
      Spec.onBoundary (Spec.edges pts.toList true) (other.pointAt i) = false ∧
      Spec.inRing (Spec.edges pts.toList true) (other.pointAt i) = I)
    (hS : ∀ j, j < other.numSegments → Avoids pts.toList (other.segmentAt j) ∧
      Spec.inRing (Spec.edges pts.toList true) (other.segmentAt j).a = I)
    (hR : (ringOf pts).rect.containsBox other.rect = false → I = false) :
    ringContainsRingBody (ringOf pts) other allow = I := by
  unfold ringContainsRingBody
  by_cases hr : (ringOf pts).rect.containsBox other.rect = true
  · rw [hr]
    simp only [Bool.not_true, Bool.false_eq_true, if_false]
    split_ifs
    · apply all_range_const _ _ _ hn
      intro i hi
      rw [(hit_of_offBoundary pts _ allow (hP i hi).1).1]
      exact (hP i hi).2
    · apply all_range_const _ _ _ hm
      intro j hj
      rw [Bool.eq_iff_iff, ringContainsSegment_of_avoids pts _ allow (hS j hj).1, (hS j hj).2]
  · have hr' : (ringOf pts).rect.containsBox other.rect = false := by simpa using hr
    rw [hr', hR hr']
    rfl

/-! ### a series as argument: its vertices are connected by its own segments -/

theorem numSegmentsOf_ge (pts : Array Pt) (closed : Bool)
    (hne : ((closed && pts.size < 3) || pts.size < 2) = false) :
    pts.size - 1 ≤ numSegmentsOf pts closed ∧ 2 ≤ pts.size := by
  unfold numSegmentsOf
  cases closed
  · simp only [Bool.false_and, Bool.false_or, decide_eq_false_iff_not, not_lt] at hne
    simp only [Bool.false_eq_true, if_false]
    rw [if_neg (by omega)]
    omega
  · simp only [Bool.true_and, Bool.or_eq_false_iff, decide_eq_false_iff_not, not_lt] at hne
    simp only [if_true]
    rw [if_neg (by omega)]
    split_ifs <;> omega

theorem segmentAtOf_a (pts : Array Pt) (i : Nat) : (segmentAtOf pts i).a = pts[i]! := rfl

theorem segmentAtOf_b (pts : Array Pt) (i : Nat) (h : i + 1 < pts.size) :
    (segmentAtOf pts i).b = pts[i+1]! := by
  unfold segmentAtOf
  simp only
  rw [if_neg (by simp; omega)]

/-- all vertices of a non-empty series whose edges avoid the chain have the same membership, and
    none lies on the chain -/
theorem chain_const (pts : List Pt) (opts : Array Pt) (closed : Bool)
    (hne : ((closed && opts.size < 3) || opts.size < 2) = false)
    (hav : NoContact (Spec.edges pts true) (Spec.edges opts.toList closed)) :
    ∀ i, i < opts.size →
      Spec.onBoundary (Spec.edges pts true) opts[i]! = false ∧
      Spec.inRing (Spec.edges pts true) opts[i]! = Spec.inRing (Spec.edges pts true) opts[0]! := by
  obtain ⟨hns, h2⟩ := numSegmentsOf_ge opts closed hne
  have hstep : ∀ i, i + 1 < opts.size →
      Spec.onBoundary (Spec.edges pts true) opts[i]! = false ∧
      Spec.onBoundary (Spec.edges pts true) opts[i+1]! = false ∧
      Spec.inRing (Spec.edges pts true) opts[i]! = Spec.inRing (Spec.edges pts true) opts[i+1]! := by
    intro i hi
    have hlt : i < numSegmentsOf opts closed :=
      Nat.lt_of_lt_of_le (by omega : i < opts.size - 1) hns
    have hmem := segmentAt_mem_edges opts closed i hlt
    rw [segmentAtOf_a, segmentAtOf_b opts i hi] at hmem
    have hav' : ∀ e ∈ Spec.edges pts true, Spec.segsMeet e.1 e.2 opts[i]! opts[i+1]! = false :=
      fun e he => hav e he (opts[i]!, opts[i+1]!) hmem
    obtain ⟨h1, h2⟩ := onBoundary_false_of_avoids hav'
    exact ⟨h1, h2, (inRing_const_of_avoids pts _ _ hav').1⟩
  intro i
  induction i with
  | zero => intro _; exact ⟨(hstep 0 (by omega)).1, rfl⟩
  | succ i ih =>
    intro hi
    obtain ⟨-, hb, he⟩ := hstep i hi
    exact ⟨hb, by rw [← he]; exact (ih (by omega)).2⟩

/-- membership of the argument as a whole: that of its first vertex -/
theorem body_series (pts : Array Pt) (o : Series) (allow : Bool)
    (hrect : o.rect = (processPoints o.pts o.closed).rect) (hne : o.empty = false)
    (hav : NoContact (Spec.edges pts.toList true) (Spec.edges o.pts.toList o.closed)) :
    ringContainsRingBody (ringOf pts) (.ser o) allow =
      Spec.inRing (Spec.edges pts.toList true) o.pts[0]! := by
  have hne' : ((o.closed && o.pts.size < 3) || o.pts.size < 2) = false := hne
  obtain ⟨hns, h2⟩ := numSegmentsOf_ge o.pts o.closed hne'
  have hc := chain_const pts.toList o.pts o.closed hne' hav
  have hle := numSegmentsOf_le o.pts o.closed
  have hpos : 0 < numSegmentsOf o.pts o.closed :=
    Nat.lt_of_lt_of_le (by omega : 0 < o.pts.size - 1) hns
  have hpos2 : 0 < o.pts.size := by omega
  apply body_core pts (.ser o) allow _ hpos2 hpos
  · intro i hi
    exact hc i hi
  · intro j hj
    have hj' : j < numSegmentsOf o.pts o.closed := hj
    refine ⟨fun e he => hav e he ((segmentAtOf o.pts j).a, (segmentAtOf o.pts j).b)
      (segmentAt_mem_edges o.pts o.closed j hj'), ?_⟩
    exact (hc j (Nat.lt_of_lt_of_le hj' hle)).2
  · intro hr
    have hr' : (ringOf pts).rect.containsBox (processPoints o.pts o.closed).rect = false := by
      rw [← hrect]; exact hr
    have hnot : ¬ ∀ q ∈ o.pts.toList, (ringOf pts).rect.containsPt q = true := by
      intro hall
      rw [(box_contains_seriesRect_iff _ o.pts o.closed (by simp [hne'])).2 hall] at hr'
      cases hr'
    push Not at hnot
    obtain ⟨q, hq, hqc⟩ := hnot
    obtain ⟨i, hi, rfl⟩ := List.getElem_of_mem hq
    simp only [Array.length_toList] at hi
    have := (hc i hi).2
    rw [getElem!_pos o.pts i hi] at this
    simp only [Array.getElem_toList] at hqc
    rw [← this]
    exact inRing_false_of_outside pts _ (by simpa using hqc)

/-! ### a rectangle as argument -/

theorem rect_edges (lo hi : Pt) :
    Spec.edges (Spec.rectPts lo hi) true =
      [(lo, ⟨hi.x, lo.y⟩), (⟨hi.x, lo.y⟩, hi), (hi, ⟨lo.x, hi.y⟩), (⟨lo.x, hi.y⟩, lo)] := by
  simp [Spec.edges, Spec.rectPts]

/-- well-formed rectangle -/
def BoxOk (r : Box) : Prop := r.min.x ≤ r.max.x ∧ r.min.y ≤ r.max.y

/-- the four sides of `r` avoid the chain: all four corners are off the chain and have the same
    membership, every point of every side included -/
theorem box_sides (pts : List Pt) (r : Box)
    (hav : NoContact (Spec.edges pts true) (Spec.edges (Spec.rectPts r.min r.max) true)) :
    (∀ j, j < 4 → Avoids pts (r.segmentAt j)) ∧
    (∀ i, Spec.onBoundary (Spec.edges pts true) (r.pointAt i) = false ∧
      Spec.inRing (Spec.edges pts true) (r.pointAt i) = Spec.inRing (Spec.edges pts true) r.min) := by
  rw [rect_edges] at hav
  have s0 : Avoids pts (r.segmentAt 0) := fun e he => hav e he (r.min, ⟨r.max.x, r.min.y⟩) (by simp)
  have s1 : Avoids pts (r.segmentAt 1) := fun e he => hav e he (⟨r.max.x, r.min.y⟩, r.max) (by simp)
  have s2 : Avoids pts (r.segmentAt 2) := fun e he => hav e he (r.max, ⟨r.min.x, r.max.y⟩) (by simp)
  have s3 : Avoids pts (r.segmentAt 3) := fun e he => hav e he (⟨r.min.x, r.max.y⟩, r.min) (by simp)
  have b0 := onBoundary_false_of_avoids s0
  have b1 := onBoundary_false_of_avoids s1
  have b2 := onBoundary_false_of_avoids s2
  have c0 := (inRing_const_of_avoids pts _ _ s0).1
  have c1 := (inRing_const_of_avoids pts _ _ s1).1
  have c2 := (inRing_const_of_avoids pts _ _ s2).1
  simp only [Box.segmentAt] at b0 b1 b2 c0 c1 c2
  refine ⟨?_, ?_⟩
  · intro j hj
    match j, hj with
    | 0, _ => exact s0
    | 1, _ => exact s1
    | 2, _ => exact s2
    | 3, _ => exact s3
  · intro i
    have e0 : r.pointAt 0 = r.min := rfl
    match i with
    | 0 => exact ⟨b0.1, rfl⟩
    | 1 => exact ⟨b0.2, c0.symm⟩
    | 2 => exact ⟨b1.2, by rw [← c0] at c1; exact c1.symm⟩
    | 3 => exact ⟨b2.2, by rw [← c0] at c1; rw [← c1] at c2; exact c2.symm⟩
    | (k+4) => exact ⟨b0.1, rfl⟩

theorem body_box (pts : Array Pt) (r : Box) (allow : Bool)
    (hav : NoContact (Spec.edges pts.toList true) (Spec.edges (Spec.rectPts r.min r.max) true)) :
    ringContainsRingBody (ringOf pts) (.bx r) allow = Spec.inRing (Spec.edges pts.toList true) r.min := by
  obtain ⟨hs, hp⟩ := box_sides pts.toList r hav
  apply body_core pts (.bx r) allow _ (by show 0 < 5; omega) (by show 0 < 4; omega)
  · intro i _
    exact hp i
  · intro j hj
    refine ⟨hs j hj, ?_⟩
    have hj' : j < 4 := hj
    match j, hj' with
    | 0, _ => exact (hp 0).2
    | 1, _ => exact (hp 1).2
    | 2, _ => exact (hp 2).2
    | 3, _ => exact (hp 3).2
  · intro hc
    have hc' : (ringOf pts).rect.containsBox r = false := hc
    have hnot : ¬ ((ringOf pts).rect.min.x ≤ r.min.x ∧ r.max.x ≤ (ringOf pts).rect.max.x ∧
        (ringOf pts).rect.min.y ≤ r.min.y ∧ r.max.y ≤ (ringOf pts).rect.max.y) := by
      rw [← containsBox_iff, hc']; simp
    by_cases hmin : (ringOf pts).rect.containsPt r.min = true
    · by_cases hmax : (ringOf pts).rect.containsPt r.max = true
      · rw [containsPt_iff] at hmin hmax
        exact absurd ⟨hmin.1, hmax.2.1, hmin.2.2.1, hmax.2.2.2⟩ hnot
      · rw [← (hp 2).2]
        have e2 : r.pointAt 2 = r.max := rfl
        rw [e2]
        exact inRing_false_of_outside pts _ (by simpa using hmax)
    · exact inRing_false_of_outside pts _ (by simpa using hmin)

end Contains

open Contains

/-! ### the theorems -/

theorem ringOf_empty (pts : Array Pt) : (ringOf pts).empty = decide (pts.size < 3) := by
  show ((true && decide (pts.size < 3)) || decide (pts.size < 2)) = _
  by_cases h : pts.size < 3
  · simp [h]
  · simp [h]; omega

/-- a closed chain with fewer than three points has no edge -/
theorem edges_nil_of_short (pts : List Pt) (h : pts.length < 3) : Spec.edges pts true = [] := by
  unfold Spec.edges
  simp [h]

theorem inRing_nil (p : Pt) : Spec.inRing [] p = false := rfl

/-- **`ringContainsRing` without boundary contact, fewer than 16 points**: the answer is the
    membership of the first vertex of the argument (and the argument is not empty).  The
    argument is any series (ring or line, any index) carrying its `processPoints` rectangle. -/
theorem ringContainsRing_of_avoids (pts : Array Pt) (o : Series) (allowOnEdge : Bool)
    (hrect : o.rect = (processPoints o.pts o.closed).rect)
    (hav : NoContact (Spec.edges pts.toList true) (Spec.edges o.pts.toList o.closed))
    (hsmall : o.numPoints < 16) :
    ringContainsRing (.ser (mkSeries pts true .none 0)) (.ser o) allowOnEdge =
      (!o.empty && Spec.inRing (Spec.edges pts.toList true) o.pts[0]!) := by
  unfold ringContainsRing
  have hs : (decide ((Ring.ser o).numPoints ≥ complexRingMinPoints)) = false := by
    simp only [decide_eq_false_iff_not, ge_iff_le, not_le]
    exact hsmall
  rw [hs, Bool.false_and]
  simp only [Bool.false_eq_true, if_false]
  by_cases he : o.empty = true
  · simp [Ring.empty, he]
  · have he' : o.empty = false := by simpa using he
    by_cases h3 : pts.size < 3
    · have : (ringOf pts).empty = true := by rw [ringOf_empty]; simpa using h3
      rw [show (Ring.ser (mkSeries pts true .none 0)) = ringOf pts from rfl, this]
      rw [edges_nil_of_short pts.toList (by simpa using h3), inRing_nil]
      simp
    · have : (ringOf pts).empty = false := by rw [ringOf_empty]; simpa using h3
      rw [show (Ring.ser (mkSeries pts true .none 0)) = ringOf pts from rfl, this]
      simp only [Ring.empty, he', Bool.or_false, Bool.false_eq_true, if_false, Bool.not_false,
        Bool.true_and]
      exact body_series pts o allowOnEdge hrect he' hav

/-- the rectangle shortcut is sound when the ring also avoids the sides of the argument's
    rectangle -/
theorem shortcut_sound (pts : Array Pt) (o : Series) (allowOnEdge : Bool)
    (hrect : o.rect = (processPoints o.pts o.closed).rect) (hne : o.empty = false)
    (hav : NoContact (Spec.edges pts.toList true) (Spec.edges o.pts.toList o.closed))
    (havr : NoContact (Spec.edges pts.toList true) (Spec.edges (Spec.rectPts o.rect.min o.rect.max) true))
    (h : ringContainsRingBody (ringOf pts) (.bx o.rect) allowOnEdge = true) :
    Spec.inRing (Spec.edges pts.toList true) o.pts[0]! = true := by
  have hne' : ¬ ((o.closed && o.pts.size < 3) || o.pts.size < 2) = true := by
    have : ((o.closed && o.pts.size < 3) || o.pts.size < 2) = false := hne
    simp [this]
  obtain ⟨hall, ⟨q, hq, hqx⟩, -, -, -⟩ :=
    bboxSpec_tight o.pts.toList _ (rect_tight o.pts o.closed hne').symm
  rw [← hrect] at hall hqx
  have hok : BoxOk o.rect := by
    obtain ⟨a1, a2, a3, a4⟩ := hall q hq
    exact ⟨le_trans a1 a2, le_trans a3 a4⟩
  rw [body_box pts o.rect allowOnEdge havr] at h
  -- `q` lies on the left side of the rectangle
  obtain ⟨hs, hp⟩ := box_sides pts.toList o.rect havr
  have hon : OnSeg (o.rect.segmentAt 3).a (o.rect.segmentAt 3).b q := by
    obtain ⟨a1, a2, a3, a4⟩ := hall q hq
    simp only [Box.segmentAt]
    apply onSeg_vert (a := ⟨o.rect.min.x, o.rect.max.y⟩) (b := ⟨o.rect.min.x, o.rect.min.y⟩) rfl hqx
    · simp only; rw [min_eq_right hok.2]; exact a3
    · simp only; rw [max_eq_left hok.2]; exact a4
  have h3 : Spec.inRing (Spec.edges pts.toList true) (o.rect.segmentAt 3).a = true := by
    have := (hp 3).2
    rw [h] at this
    exact this
  have hq' := segment_inside_of_avoids pts.toList _ _ (hs 3 (by omega)) h3 q hon
  obtain ⟨i, hi, rfl⟩ := List.getElem_of_mem hq
  simp only [Array.length_toList] at hi
  have hc := (chain_const pts.toList o.pts o.closed hne hav i hi).2
  rw [getElem!_pos o.pts i hi] at hc
  simp only [Array.getElem_toList] at hq'
  rw [← hc]
  unfold Spec.strictIn at hq'
  unfold Spec.inRing
  simp only [Bool.and_eq_true] at hq'
  rw [hq'.2]; simp

/-- **`ringContainsRing` without boundary contact, any number of points**, when the ring's edges
    also avoid the sides of the argument's bounding rectangle (the hypothesis `havr` is only used
    when the argument has 16 points or more). -/
theorem ringContainsRing_of_avoids_rect (pts : Array Pt) (o : Series) (allowOnEdge : Bool)
    (hrect : o.rect = (processPoints o.pts o.closed).rect)
    (hav : NoContact (Spec.edges pts.toList true) (Spec.edges o.pts.toList o.closed))
    (havr : 16 ≤ o.numPoints →
      NoContact (Spec.edges pts.toList true) (Spec.edges (Spec.rectPts o.rect.min o.rect.max) true)) :
    ringContainsRing (.ser (mkSeries pts true .none 0)) (.ser o) allowOnEdge =
      (!o.empty && Spec.inRing (Spec.edges pts.toList true) o.pts[0]!) := by
  by_cases hsmall : o.numPoints < 16
  · exact ringContainsRing_of_avoids pts o allowOnEdge hrect hav hsmall
  · have hbig : 16 ≤ o.numPoints := by omega
    unfold ringContainsRing
    by_cases he : o.empty = true
    · simp [Ring.empty, he]
    · have he' : o.empty = false := by simpa using he
      by_cases h3 : pts.size < 3
      · have : (ringOf pts).empty = true := by rw [ringOf_empty]; simpa using h3
        rw [show (Ring.ser (mkSeries pts true .none 0)) = ringOf pts from rfl, this]
        rw [edges_nil_of_short pts.toList (by simpa using h3), inRing_nil]
        simp
      · have : (ringOf pts).empty = false := by rw [ringOf_empty]; simpa using h3
        rw [show (Ring.ser (mkSeries pts true .none 0)) = ringOf pts from rfl, this]
        simp only [Ring.empty, he', Bool.or_false, Bool.false_eq_true, if_false, Bool.not_false,
          Bool.true_and]
        rw [body_series pts o allowOnEdge hrect he' hav]
        split_ifs with hsc
        · simp only [Bool.and_eq_true] at hsc
          exact (shortcut_sound pts o allowOnEdge hrect he' hav (havr hbig) hsc.2).symm
        · rfl

end Geo
