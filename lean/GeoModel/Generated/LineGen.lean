/-
  GENERATED FILE — do not edit.  Regenerate with
      cd /verif/translate && go build -o bin/translate . && \\
        ./bin/translate linewalk /repo > /verif/lean/GeoModel/Generated/LineGen.lean

  Syntactic translation (translate/linewalk.go) of the loops of geometry/line.go:
  (*Line).ContainsPoint, ContainsLine, IntersectsLine, ContainsPoly.

  Conventions:
    * the definitions are parametrised by `ops : LineOps L S B P F Y`: one field per distinct callee found
      in the source — method T.M as tM, `x.M(…).fld` as tM_fld, a field read x.f as tF, a struct literal
      T{…} as tMk, a field store v.f.g = e as lineSet_f_g, float64 comparisons as f64Eq/Ne/Lt/…,
      `==` on Points as pointEq; L = non-nil *Line (or a Line value), S = Segment, B = Rect, P = Point,
      F = float64, Y = non-nil *Poly; int ↦ Int; the callees are taken to be pure;
    * *Line ↦ Option L, *Poly ↦ Option Y (none = nil); `x == nil` in a condition ↦ match on the Option,
      the some arm rebinds the non-nil value under the same name; a callee is only ever applied to a
      value proved non-nil that way; `&v` of a Line value ↦ some v;
    * method T.M ↦ def tM (receiver first); x := e, x = e, x++ ↦ let; a, b = b, a ↦ one pattern let;
    * a statement list becomes one expression; an `if` containing return/break/continue is translated in
      continuation style (the following statements are copied into the arms that fall through),
      any other `if` as  let (assigned variables) := if c then … else …;
    * `for v := lo; v < hi; v++ { body }` (body leaves v, hi alone) ↦ forRange (fun v state => body)
      (intRange lo hi) state; state = the outer variables assigned in body;
    * any other for loop ↦ iterate fuel cond step state (state includes the loop variable; step = body
      followed by the post statement, also on `continue`); such a definition takes `fuel : Nat` and
      returns Option (none = fuel exhausted); Go has no fuel;
    * `x.Search(rect, func(seg, idx) bool {…})` ↦ forRange of the closure over the abstract visit list
      ops.lineSearch x rect; in the closure `return true` ↦ Flow.next, `return false` ↦ Flow.brk;
    * in loop bodies: end / continue ↦ Flow.next, break ↦ Flow.brk, return e ↦ Flow.ret e; the statements
      after the loop are the Exit.done arm of the match on the result.
  Anything outside the recognised subset appears below as  opaque <name>_unrecognised : Unit.
-/

set_option linter.unusedVariables false

namespace Geo.LGen

/-- how one pass through a loop body ends -/
inductive Flow (σ ρ : Type) where
  | next (s : σ) : Flow σ ρ
  | brk (s : σ) : Flow σ ρ
  | ret (r : ρ) : Flow σ ρ

/-- how a loop ends: normally (or by break) with the final state, or by `return r` -/
inductive Exit (σ ρ : Type) where
  | done (s : σ) : Exit σ ρ
  | ret (r : ρ) : Exit σ ρ

/-- a loop over the elements of a list (counted loop, Search callback): structural recursion. -/
def forRange {ε σ ρ : Type} (body : ε → σ → Flow σ ρ) : List ε → σ → Exit σ ρ
  | [], s => Exit.done s
  | x :: xs, s =>
    match body x s with
    | Flow.next s' => forRange body xs s'
    | Flow.brk s' => Exit.done s'
    | Flow.ret r => Exit.ret r

/-- the values lo, lo+1, …, hi-1 of a counted loop `for v := lo; v < hi; v++` -/
def intRange (lo hi : Int) : List Int := (List.range (hi - lo).toNat).map (fun k => lo + Int.ofNat k)

/-- `for …; cond; post { body }` whose body modifies the loop variable: at most `fuel` rounds
    (one unit per evaluation of the condition); `none` = fuel exhausted.  `step` = body followed
    by the post statement. -/
def iterate {σ ρ : Type} (fuel : Nat) (cond : σ → Bool) (step : σ → Flow σ ρ) (s : σ) : Option (Exit σ ρ) :=
  match fuel with
  | 0 => none
  | fuel + 1 =>
    if cond s then
      match step s with
      | Flow.next s' => iterate fuel cond step s'
      | Flow.brk s' => some (Exit.done s')
      | Flow.ret r => some (Exit.ret r)
    else some (Exit.done s)

/-- the callees of the translated methods, one field per distinct callee found in the source -/
structure LineOps (L S B P F Y : Type) where
  /-- Go: float64 comparison `!=` -/
  f64Ne : F → F → Bool
  /-- Go: `func (series *baseSeries) Empty() bool` — geometry/series.go:126 -/
  lineEmpty : L → Bool
  /-- Go: `func (series *baseSeries) NumPoints() int` — geometry/series.go:158 -/
  lineNumPoints : L → Int
  /-- Go: `func (series *baseSeries) NumSegments() int` — geometry/series.go:196 -/
  lineNumSegments : L → Int
  /-- Go: `func (series *baseSeries) Rect() Rect` — geometry/series.go:143 -/
  lineRect : L → B
  /-- Go: `func (series *baseSeries) Search( rect Rect, iter func(seg Segment, idx int) bool, )` — geometry/series.go:168; abstractly: the (segment, index) pairs handed to the callback, in order,
      if the callback never stops the search -/
  lineSearch : L → B → List (S × Int)
  /-- Go: `func (series *baseSeries) SegmentAt(index int) Segment` — geometry/series.go:212 -/
  lineSegmentAt : L → Int → S
  /-- Go: store into field `baseSeries.points` of a `Line` value — geometry/series.go:77 -/
  lineSet_baseSeries_points : L → List P → L
  /-- Go: store into field `baseSeries.rect` of a `Line` value — geometry/series.go:76 -/
  lineSet_baseSeries_rect : L → B → L
  /-- Go: the zero value of struct `Line` (`var x Line`) — geometry/line.go:8 -/
  lineZero : L
  /-- Go: `==` on struct `Point` (field-wise float64 `==`) — geometry/point.go:7 -/
  pointEq : P → P → Bool
  /-- Go: field `X` of struct `Point` — geometry/point.go:8 -/
  pointX : P → F
  /-- Go: field `Y` of struct `Point` — geometry/point.go:8 -/
  pointY : P → F
  /-- Go: `func (poly *Poly) Empty() bool` — geometry/poly.go:31 -/
  polyEmpty : Y → Bool
  /-- Go: `func (poly *Poly) Rect() Rect` — geometry/poly.go:53 -/
  polyRect : Y → B
  /-- Go: `func (rect Rect) IntersectsRect(other Rect) bool` — geometry/rect.go:135 -/
  rectIntersectsRect : B → B → Bool
  /-- Go: field `Max` of struct `Rect` — geometry/rect.go:8 -/
  rectMax : B → P
  /-- Go: field `Min` of struct `Rect` — geometry/rect.go:8 -/
  rectMin : B → P
  /-- Go: struct literal `Rect{Min, Max}` — geometry/rect.go:7 -/
  rectMk : P → P → B
  /-- Go: field `A` of struct `Segment` — geometry/segment.go:13 -/
  segA : S → P
  /-- Go: field `B` of struct `Segment` — geometry/segment.go:13 -/
  segB : S → P
  /-- Go: `func (seg Segment) ContainsSegment(other Segment) bool` — geometry/segment.go:135 -/
  segContainsSegment : S → S → Bool
  /-- Go: `func (seg Segment) IntersectsSegment(other Segment) bool` — geometry/segment.go:54 -/
  segIntersectsSegment : S → S → Bool
  /-- Go: `func (seg Segment) Raycast(point Point) RaycastResult` (field .On of the result) — geometry/raycast.go:12 -/
  segRaycast_On : S → P → Bool
  /-- Go: `func (seg Segment) Rect() Rect` — geometry/segment.go:25 -/
  segRect : S → B

/-- Go: `func (line *Line) ContainsPoint(point Point) bool` — geometry/line.go:32 -/
def lineContainsPoint {L S B P F Y : Type} (ops : LineOps L S B P F Y) (line : Option L) (point : P) : Bool :=
  (match line with
  | none =>
    false
  | some line =>
    let contains : Bool := false
    (match forRange (ρ := Empty) (fun (seg, index) contains =>
        if ops.segRaycast_On seg point then
          let contains : Bool := true
          Flow.brk contains
        else
          Flow.next contains) (ops.lineSearch line (ops.rectMk point point)) contains with
    | Exit.ret r' =>
      nomatch r'
    | Exit.done contains =>
      contains))

/-- Go: `func (line *Line) ContainsLine(other *Line) bool` — geometry/line.go:69
    `fuel` bounds the rounds of the loop(s) whose body modifies the loop variable (directly or in a
    callee).  Go has NO fuel: the Go loop simply runs; `none` = fuel exhausted. -/
def lineContainsLine {L S B P F Y : Type} (ops : LineOps L S B P F Y) (fuel : Nat) (line : Option L) (other : Option L) : Option Bool :=
  (match line with
  | none =>
    some false
  | some line =>
    (match other with
    | none =>
      some false
    | some other =>
      if ops.lineEmpty line then
        some false
      else
        if ops.lineEmpty other then
          some false
        else
          let lineNumSegments : Int := ops.lineNumSegments line
          let segIdx : Int := -1
          (match forRange (ρ := Bool) (fun j segIdx =>
              if ops.segContainsSegment (ops.lineSegmentAt line j) (ops.lineSegmentAt other 0) then
                let segIdx : Int := j
                Flow.brk segIdx
              else
                Flow.next segIdx) (intRange 0 lineNumSegments) segIdx with
          | Exit.ret r' =>
            some r'
          | Exit.done segIdx =>
            if segIdx == (-1) then
              some false
            else
              let otherNumSegments : Int := ops.lineNumSegments other
              let dir : Int := 0
              let i : Int := 1
              (match iterate (ρ := Bool) fuel (fun (segIdx, dir, i) => decide (i < otherNumSegments)) (fun (segIdx, dir, i) =>
                  let lineSeg : S := ops.lineSegmentAt line segIdx
                  let otherSeg : S := ops.lineSegmentAt other i
                  if ops.segContainsSegment lineSeg otherSeg then
                    let dir : Int := 0
                    let i : Int := i + 1
                    Flow.next (segIdx, dir, i)
                  else
                    if ops.pointEq (ops.segA otherSeg) (ops.segA lineSeg) then
                      if (segIdx == 0) || (dir == 1) then
                        Flow.ret false
                      else
                        let segIdx : Int := segIdx - 1
                        let i : Int := i - 1
                        let dir : Int := -1
                        let i : Int := i + 1
                        Flow.next (segIdx, dir, i)
                    else
                      if ops.pointEq (ops.segA otherSeg) (ops.segB lineSeg) then
                        if (segIdx == (lineNumSegments - 1)) || (dir == (-1)) then
                          Flow.ret false
                        else
                          let segIdx : Int := segIdx + 1
                          let i : Int := i - 1
                          let dir : Int := 1
                          let i : Int := i + 1
                          Flow.next (segIdx, dir, i)
                      else
                        let dir : Int := 0
                        let i : Int := i + 1
                        Flow.next (segIdx, dir, i)) (segIdx, dir, i) with
              | none =>
                none -- fuel exhausted (cannot happen in Go, which has no fuel)
              | some (Exit.ret r') =>
                some r'
              | some (Exit.done (segIdx, dir, i)) =>
                some true))))

/-- Go: `func (line *Line) IntersectsLine(other *Line) bool` — geometry/line.go:119 -/
def lineIntersectsLine {L S B P F Y : Type} (ops : LineOps L S B P F Y) (line : Option L) (other : Option L) : Bool :=
  (match line with
  | none =>
    false
  | some line =>
    (match other with
    | none =>
      false
    | some other =>
      if ops.lineEmpty line then
        false
      else
        if ops.lineEmpty other then
          false
        else
          if !(ops.rectIntersectsRect (ops.lineRect line) (ops.lineRect other)) then
            false
          else
            let (line, other) : L × L :=
              if decide (ops.lineNumPoints line > ops.lineNumPoints other) then
                let (line, other) : L × L := (other, line)
                (line, other)
              else
                (line, other)
            let lineNumSegments : Int := ops.lineNumSegments line
            (match forRange (ρ := Bool) (fun i () =>
                let segA : S := ops.lineSegmentAt line i
                let intersects : Bool := false
                (match forRange (ρ := Empty) (fun (segB, _) intersects =>
                    if ops.segIntersectsSegment segA segB then
                      let intersects : Bool := true
                      Flow.brk intersects
                    else
                      Flow.next intersects) (ops.lineSearch other (ops.segRect segA)) intersects with
                | Exit.ret r' =>
                  nomatch r'
                | Exit.done intersects =>
                  if intersects then
                    Flow.ret true
                  else
                    Flow.next ())) (intRange 0 lineNumSegments) () with
            | Exit.ret r' =>
              r'
            | Exit.done () =>
              false)))

/-- Go: `func (line *Line) ContainsPoly(poly *Poly) bool` — geometry/line.go:147
    `fuel` bounds the rounds of the loop(s) whose body modifies the loop variable (directly or in a
    callee).  Go has NO fuel: the Go loop simply runs; `none` = fuel exhausted. -/
def lineContainsPoly {L S B P F Y : Type} (ops : LineOps L S B P F Y) (fuel : Nat) (line : Option L) (poly : Option Y) : Option Bool :=
  (match line with
  | none =>
    some false
  | some line =>
    (match poly with
    | none =>
      some false
    | some poly =>
      if ops.lineEmpty line then
        some false
      else
        if ops.polyEmpty poly then
          some false
        else
          let rect : B := ops.polyRect poly
          if (ops.f64Ne (ops.pointX (ops.rectMin rect)) (ops.pointX (ops.rectMax rect))) && (ops.f64Ne (ops.pointY (ops.rectMin rect)) (ops.pointY (ops.rectMax rect))) then
            some false
          else
            let points : List P := [ops.rectMin rect, ops.rectMax rect]
            let other : L := ops.lineZero
            let other : L := ops.lineSet_baseSeries_points other points
            let other : L := ops.lineSet_baseSeries_rect other rect
            lineContainsLine ops fuel (some line) (some other)))

end Geo.LGen
