/-
  GeoProofs.Algebra.ContIntGeom — Contains ⇒ Intersects on the 4 × 4 matrix for valid shapes.
  Point / Rect / Line receivers: a vertex of the argument is exhibited as a common point and the
  exactness of Intersects (C02Exact) concludes; Polygon receivers: direct computation
  (ContIntPoly), the argument below the 16-point shortcut (D19).
-/
import GeoProofs.Algebra.ContIntPoly

namespace Geo
open GL IX

theorem ptbox_containsPt_iff (a v : Pt) : a.box.containsPt v = true ↔ v = a := by
  rw [containsPt_iff]
  constructor
  · rintro ⟨h1, h2, h3, h4⟩
    exact (K.pt_eq_iff _ _).2 ⟨le_antisymm h2 h1, le_antisymm h4 h3⟩
  · rintro rfl; exact ⟨le_refl _, le_refl _, le_refl _, le_refl _⟩

theorem containsBox_containsPt {r o : Box} {p : Pt} (h : r.containsBox o = true)
    (hp : o.containsPt p = true) : r.containsPt p = true := by
  rw [containsBox_iff] at h
  rw [containsPt_iff] at hp ⊢
  obtain ⟨h1, h2, h3, h4⟩ := h
  obtain ⟨p1, p2, p3, p4⟩ := hp
  exact ⟨by linarith, by linarith, by linarith, by linarith⟩

/-- the first vertex of a non-degenerate vertex list: a vertex, inside the rectangle -/
theorem first_vertex (pts : List Pt) (closed : Bool) (hlen : (if closed then 3 else 2) ≤ pts.length) :
    pts.toArray[0]! ∈ pts ∧ (mkSeries pts.toArray closed .none 0).rect.containsPt pts.toArray[0]! = true ∧
      (mkSeries pts.toArray closed .none 0).empty = false := by
  have h2 : 2 ≤ pts.length := by split at hlen <;> omega
  have hm : pts.toArray[0]! ∈ pts := by
    rw [getElem!_pos pts.toArray 0 (by simp; omega)]
    simp
  have hne : ¬ ((closed && decide (pts.toArray.size < 3)) || decide (pts.toArray.size < 2)) = true := by
    cases closed <;> simp at hlen ⊢ <;> omega
  refine ⟨hm, GL.mem_rect pts.toArray closed hne _ (by simpa using hm), ?_⟩
  unfold Series.empty
  simpa using hne

theorem valid_line_len {pts : List Pt} (hv : (Spec.Shape.line pts).valid = true) : 2 ≤ pts.length := by
  simp only [Spec.Shape.valid, Spec.validLine, Bool.and_eq_true, decide_eq_true_eq] at hv
  exact hv.1

theorem valid_poly_len {ext : List Pt} {hs : List (List Pt)} (hv : (Spec.Shape.poly ext hs).valid = true) :
    3 ≤ ext.length := (polyFacts_of_valid ext hs hv).cne

theorem onSeg_of_degenerate_box (r : Box) (p : Pt) (hd : r.min.x = r.max.x ∨ r.min.y = r.max.y)
    (hp : r.containsPt p = true) : OnSeg r.min r.max p := by
  rw [containsPt_iff] at hp
  obtain ⟨p1, p2, p3, p4⟩ := hp
  refine ⟨?_, le_trans (min_le_left _ _) p1, le_trans p2 (le_max_right _ _),
    le_trans (min_le_left _ _) p3, le_trans p4 (le_max_right _ _)⟩
  unfold Spec.cross
  rcases hd with hd | hd
  · have : p.x = r.min.x := le_antisymm (by linarith) p1
    rw [this, hd]; ring
  · have : p.y = r.min.y := le_antisymm (by linarith) p3
    rw [this, hd]; ring

theorem Line.containsPoly_deg (l : Line) (p : Poly) (h : l.containsPoly p = true) :
    p.rect.min.x = p.rect.max.x ∨ p.rect.min.y = p.rect.max.y := by
  unfold Line.containsPoly at h
  by_cases h1 : (l.empty || p.empty) = true
  · rw [if_pos h1] at h; cases h
  rw [if_neg h1] at h
  simp only at h
  by_contra hc
  rw [not_or] at hc
  rw [if_pos (by simp [hc.1, hc.2])] at h
  cases h

/-- the holes of a valid polygon have a strictly smaller rectangle than the exterior -/
theorem valid_holes_nest (ext : List Pt) (hs : List (List Pt)) (hv : (Spec.Shape.poly ext hs).valid = true)
    (h : List Pt) (hh : h ∈ hs) : (ringOfL h).rect.area < (ringOfL ext).rect.area := by
  have hf := polyFacts_of_valid ext hs hv
  exact strict_nesting_rect (ringSpec_ext h) (ringSpec_ext ext) (ser_nonempty h (hf.hne h hh))
    (fun u hu => ⟨strictIn_inRing (hf.hin h hh u hu), strictIn_off (hf.hin h hh u hu)⟩)

theorem wfb_of_containsPt {r : Box} {p : Pt} (h : r.containsPt p = true) : r.WFb := by
  rw [containsPt_iff] at h
  exact ⟨by linarith [h.1, h.2.1], by linarith [h.2.2.1, h.2.2.2]⟩

theorem made_ringOfL (h : List Pt) : (ringOfL h).Made :=
  ⟨_, .none, 0, rfl, series_search_exact_kind_none _ _ _⟩

def Spec.Shape.isPolyS : Spec.Shape → Bool
  | .poly _ _ => true
  | _ => false

/-- number of points of the line string / of the exterior ring (0 for Point and Rect) -/
def Spec.Shape.numPts : Spec.Shape → Nat
  | .line pts => pts.length
  | .poly ext _ => ext.length
  | _ => 0

end Geo

namespace Geo
open GL IX

/-- Point, Rect and LineString receivers -/
theorem build_contains_intersects_nonpoly (SA SB : Spec.Shape) (vA : SA.valid = true)
    (vB : SB.valid = true) (cA : HolesConvexOK SA) (cB : HolesConvexOK SB)
    (hnp : SA.isPolyS = false)
    (h : (build SA).contains (build SB) = true) : (build SA).intersects (build SB) = true := by
  have wit : ∀ x, SA.member x = true → SB.member x = true → (build SA).intersects (build SB) = true :=
    fun x h1 h2 => (intersects_iff_holes SA SB vA vB cA cB).2 ⟨x, h1, h2⟩
  have vmB := (factsH_of_valid SB vB).vmem
  cases SA with
  | poly ext hs => cases hnp
  | point a =>
    have mA : (Spec.Shape.point a).member a = true := by simp [Spec.Shape.member]
    cases SB with
    | point b =>
      have : a = b := by simpa [build, Geom.contains] using h
      subst this; exact wit a mA mA
    | rect lo hi =>
      have : a.box = ⟨lo, hi⟩ := by simpa [build, Geom.contains, Pt.containsRect] using h
      refine wit a mA ?_
      rw [← rectContainsPoint_spec, ← this]; exact ptbox_containsPt a
    | line pts =>
      obtain ⟨hm, hin, -⟩ := first_vertex pts false (valid_line_len vB)
      have hr : (mkSeries pts.toArray false .none 0).rect = a.box := by
        have := h
        simp only [build, Geom.contains, Pt.containsLine, Bool.and_eq_true, decide_eq_true_eq] at this
        exact this.2
      rw [hr, ptbox_containsPt_iff] at hin
      refine wit a mA ?_
      rw [← hin]; exact vmB _ hm
    | poly ext hs =>
      obtain ⟨hm, hin, -⟩ := first_vertex ext true (valid_poly_len vB)
      have hr : (mkSeries ext.toArray true .none 0).rect = a.box := by
        have := h
        simp only [build, Geom.contains, Pt.containsPoly, Bool.and_eq_true, decide_eq_true_eq] at this
        exact this.2
      rw [hr, ptbox_containsPt_iff] at hin
      refine wit a mA ?_
      rw [← hin]; exact vmB _ (List.mem_append_left _ hm)
  | rect lo hi =>
    have wA : lo.x ≤ hi.x ∧ lo.y ≤ hi.y := by
      simpa only [Spec.Shape.valid, Bool.and_eq_true, decide_eq_true_eq] using vA
    cases SB with
    | point b =>
      exact wit b (by rw [← rectContainsPoint_spec]; exact h) (by simp [Spec.Shape.member])
    | rect lo' hi' =>
      have wB : lo'.x ≤ hi'.x ∧ lo'.y ≤ hi'.y := by
        simpa only [Spec.Shape.valid, Bool.and_eq_true, decide_eq_true_eq] using vB
      have hc : (Box.mk lo hi).containsBox ⟨lo', hi'⟩ = true := h
      rw [containsBox_iff] at hc
      refine wit lo' ?_ (vmB lo' (by simp [Spec.Shape.vertices, Spec.rectPts]))
      rw [← rectContainsPoint_spec, containsPt_iff]
      exact ⟨hc.1, by linarith [hc.2.1, wB.1], hc.2.2.1, by linarith [hc.2.2.2, wB.2]⟩
    | line pts =>
      obtain ⟨hm, hin, -⟩ := first_vertex pts false (valid_line_len vB)
      have hc : (Box.mk lo hi).containsBox (mkSeries pts.toArray false .none 0).rect = true := by
        have := h
        simp only [build, Geom.contains, Box.containsLine, Bool.and_eq_true] at this
        exact this.2
      refine wit _ ?_ (vmB _ hm)
      rw [← rectContainsPoint_spec]; exact containsBox_containsPt hc hin
    | poly ext hs =>
      obtain ⟨hm, hin, -⟩ := first_vertex ext true (valid_poly_len vB)
      have hc : (Box.mk lo hi).containsBox (mkSeries ext.toArray true .none 0).rect = true := by
        have := h
        simp only [build, Geom.contains, Box.containsPoly, Bool.and_eq_true] at this
        exact this.2
      refine wit _ ?_ (vmB _ (List.mem_append_left _ hm))
      rw [← rectContainsPoint_spec]; exact containsBox_containsPt hc hin
  | line pts =>
    have lm := line_member_iff pts
    cases SB with
    | point b =>
      refine wit b ?_ (by simp [Spec.Shape.member])
      have := lineContainsPoint_spec pts.toArray .none 0 (series_search_exact_kind_none _ _ _) b
      rw [List.toList_toArray] at this
      rw [← this]; exact h
    | rect lo hi =>
      obtain ⟨-, -, j, hj, h1, -⟩ := Line.containsPoly_diag _ (Box.mk lo hi).asPoly h
      exact wit lo ((lm lo).2 ⟨j, hj, h1⟩) (vmB lo (by simp [Spec.Shape.vertices, Spec.rectPts]))
    | line qts =>
      obtain ⟨hm, -, -⟩ := first_vertex qts false (valid_line_len vB)
      obtain ⟨-, -, j, hj, hc⟩ := Line.containsLine_first _ _ h
      rw [segContainsSeg_iff] at hc
      exact wit _ ((lm _).2 ⟨j, hj, hc.1⟩) (vmB _ hm)
    | poly ext hs =>
      obtain ⟨hm, hin, -⟩ := first_vertex ext true (valid_poly_len vB)
      have hc : Line.containsPoly (mkSeries pts.toArray false .none 0) (⟨some (ringOfL ext), hs.map ringOfL⟩) = true := h
      obtain ⟨-, -, j, hj, h1, h2⟩ := Line.containsPoly_diag _ _ hc
      have hd := Line.containsPoly_deg _ _ hc
      have hon := onSeg_of_degenerate_box _ _ hd (show (Poly.rect ⟨some (ringOfL ext), hs.map ringOfL⟩).containsPt _ = true from hin)
      exact wit _ ((lm _).2 ⟨j, hj, K.onSeg_convex h1 h2 hon⟩) (vmB _ (List.mem_append_left _ hm))

end Geo

namespace Geo
open GL IX

/-- Polygon receivers; the argument's line string / exterior ring has fewer than 16 points -/
theorem build_contains_intersects_poly (ext : List Pt) (hs : List (List Pt)) (SB : Spec.Shape)
    (vB : SB.valid = true) (hsmall : SB.numPts < complexRingMinPoints)
    (h : (build (.poly ext hs)).contains (build SB) = true) :
    (build (.poly ext hs)).intersects (build SB) = true := by
  have hsym : ∀ (q : Poly), (∀ oe, q.ext = some oe → oe.Made) →
      ∀ e oe, (Poly.mk (some (ringOfL ext)) (hs.map ringOfL)).ext = some e → q.ext = some oe →
      ringIntersectsRing e oe true = true → ringIntersectsRing oe e true = true := by
    intro q hq e oe he ho hi
    simp only [Option.some.injEq] at he
    subst he
    rw [← ringIntersectsRing_symm_made (made_ringOfL ext) (hq oe ho)]; exact hi
  cases SB with
  | point b => exact h
  | rect lo hi =>
    have wB : lo.x ≤ hi.x ∧ lo.y ≤ hi.y := by
      simpa only [Spec.Shape.valid, Bool.and_eq_true, decide_eq_true_eq] using vB
    refine Poly.containsPoly_imp_intersectsPoly _ (Box.mk lo hi).asPoly ?_ (hsym _ ?_) ?_ h
    · intro oe ho
      simp only [Box.asPoly, Option.some.injEq] at ho
      subst ho
      exact ⟨show 5 < 16 by omega, wB⟩
    · intro oe ho
      simp only [Box.asPoly, Option.some.injEq] at ho
      subst ho
      exact wB
    · intro oe _ oh hoh
      simp [Box.asPoly] at hoh
  | line pts =>
    obtain ⟨-, hin, -⟩ := first_vertex pts false (valid_line_len vB)
    refine Poly.containsLine_imp_intersectsLine ⟨some (ringOfL ext), hs.map ringOfL⟩
      (mkSeries pts.toArray false .none 0) ?_ (wfb_of_containsPt hin) h
    show pts.toArray.size < _
    simpa [Spec.Shape.numPts] using hsmall
  | poly oext ohs =>
    obtain ⟨-, hin, -⟩ := first_vertex oext true (valid_poly_len vB)
    refine Poly.containsPoly_imp_intersectsPoly _ ⟨some (ringOfL oext), ohs.map ringOfL⟩ ?_ (hsym _ ?_) ?_ h
    · intro oe ho
      simp only [Option.some.injEq] at ho
      subst ho
      refine ⟨?_, wfb_of_containsPt hin⟩
      show oext.toArray.size < _
      simpa [Spec.Shape.numPts] using hsmall
    · intro oe ho
      simp only [Option.some.injEq] at ho
      subst ho
      exact made_ringOfL oext
    · intro oe ho oh hoh
      simp only [Option.some.injEq] at ho
      subst ho
      obtain ⟨hl, hhl, rfl⟩ := List.mem_map.1 hoh
      exact valid_holes_nest oext ohs vB hl hhl

/-- **Contains ⇒ Intersects** on valid shapes; for a Polygon receiver the argument stays below
    the 16-point rectangle shortcut -/
theorem build_contains_intersects (SA SB : Spec.Shape) (vA : SA.valid = true) (vB : SB.valid = true)
    (cA : HolesConvexOK SA) (cB : HolesConvexOK SB)
    (hsmall : SA.isPolyS = true → SB.numPts < complexRingMinPoints)
    (h : (build SA).contains (build SB) = true) : (build SA).intersects (build SB) = true := by
  cases hp : SA.isPolyS with
  | false => exact build_contains_intersects_nonpoly SA SB vA vB cA cB hp h
  | true =>
    cases SA with
    | poly ext hs => exact build_contains_intersects_poly ext hs SB vB (hsmall hp) h
    | _ => cases hp

end Geo
