/-
  GeoProofs.Symmetry.Shapes — from chains to shapes: membership, validity, `Spec.meets` and the
  model's `intersects` under a lattice symmetry `T` (`ShapeSym T`: an involutive, linear,
  orientation-reversing `LatSym`; instances `shapeSym_reflX`, `shapeSym_reflY`,
  `shapeSym_transpose`).
-/
import GeoProofs.Symmetry.Parity
import GeoProofs.Props.C12
import GeoProofs.Props.C02Exact

namespace Geo
open Sym IX

/-- a lattice symmetry acting on shapes: `LatSym` with factor -1 (orientation reversing),
    involutive, linear (area and turn determinants are negated), and mapping a well-formed
    box onto the normalised box of the images of its corners -/
structure ShapeSym (T : Pt → Pt) : Prop extends LatSym T (-1) where
  invol : ∀ p, T (T p) = p
  box : ∀ lo hi x : Pt, lo.x ≤ hi.x → lo.y ≤ hi.y →
    ((min (T lo).x (T hi).x ≤ (T x).x ∧ (T x).x ≤ max (T lo).x (T hi).x ∧
      min (T lo).y (T hi).y ≤ (T x).y ∧ (T x).y ≤ max (T lo).y (T hi).y) ↔
     (lo.x ≤ x.x ∧ x.x ≤ hi.x ∧ lo.y ≤ x.y ∧ x.y ≤ hi.y))
  area : ∀ a b : Pt, (T a).x * (T b).y - (T b).x * (T a).y = (-1) * (a.x * b.y - b.x * a.y)
  turn : ∀ a b e : Pt, SeriesL.turn (T a) (T b) (T e) = (-1) * SeriesL.turn a b e

/-! ### the three symmetries -/

theorem latSym_reflX : LatSym Pt.reflX (-1) where
  inj := EQ.reflX_inj
  k_ne := by norm_num
  cross := fun a b c => by simp only [K.cross_def, Pt.reflX]; ring
  onSeg := EQ.onSeg_reflX
  far := fun q l h => Or.inl fun v hv => (h v hv).2

theorem latSym_reflY : LatSym Pt.reflY (-1) where
  inj := EQ.reflY_inj
  k_ne := by norm_num
  cross := fun a b c => by simp only [K.cross_def, Pt.reflY]; ring
  onSeg := EQ.onSeg_reflY
  far := fun q l h => Or.inr fun v hv => by
    have := (h v hv).2
    simp only [Pt.reflY]
    linarith

theorem latSym_transpose : LatSym Pt.transpose (-1) where
  inj := EQ.transpose_inj
  k_ne := by norm_num
  cross := fun a b c => by simp only [K.cross_def, Pt.transpose]; ring
  onSeg := EQ.onSeg_transpose
  far := fun q l h => Or.inl fun v hv => (h v hv).1

theorem shapeSym_reflX : ShapeSym Pt.reflX where
  toLatSym := latSym_reflX
  invol := EQ.reflX_reflX
  box := fun lo hi x hx hy => by
    simp only [Pt.reflX]
    rw [min_eq_right (by linarith), max_eq_left (by linarith), min_eq_left hy, max_eq_right hy]
    constructor
    · rintro ⟨h1, h2, h3, h4⟩; exact ⟨by linarith, by linarith, h3, h4⟩
    · rintro ⟨h1, h2, h3, h4⟩; exact ⟨by linarith, by linarith, h3, h4⟩
  area := fun a b => by simp only [Pt.reflX]; ring
  turn := fun a b e => by simp only [SeriesL.turn, Pt.reflX]; ring

theorem shapeSym_reflY : ShapeSym Pt.reflY where
  toLatSym := latSym_reflY
  invol := EQ.reflY_reflY
  box := fun lo hi x hx hy => by
    simp only [Pt.reflY]
    rw [min_eq_left hx, max_eq_right hx, min_eq_right (by linarith), max_eq_left (by linarith)]
    constructor
    · rintro ⟨h1, h2, h3, h4⟩; exact ⟨h1, h2, by linarith, by linarith⟩
    · rintro ⟨h1, h2, h3, h4⟩; exact ⟨h1, h2, by linarith, by linarith⟩
  area := fun a b => by simp only [Pt.reflY]; ring
  turn := fun a b e => by simp only [SeriesL.turn, Pt.reflY]; ring

theorem shapeSym_transpose : ShapeSym Pt.transpose where
  toLatSym := latSym_transpose
  invol := EQ.transpose_transpose
  box := fun lo hi x hx hy => by
    simp only [Pt.transpose]
    rw [min_eq_left hy, max_eq_right hy, min_eq_left hx, max_eq_right hx]
    constructor
    · rintro ⟨h1, h2, h3, h4⟩; exact ⟨h3, h4, h1, h2⟩
    · rintro ⟨h1, h2, h3, h4⟩; exact ⟨h3, h4, h1, h2⟩
  area := fun a b => by simp only [Pt.transpose]; ring
  turn := fun a b e => by simp only [SeriesL.turn, Pt.transpose]; ring

/-! ### closed region, strict interior -/

namespace Sym

section
variable {T : Pt → Pt} {k : Rat} (hT : LatSym T k)
include hT

theorem inRing_map (pts : List Pt) (p : Pt) :
    Spec.inRing (Spec.edges (pts.map T) true) (T p) = Spec.inRing (Spec.edges pts true) p := by
  unfold Spec.inRing
  rw [onBoundary_map hT]
  cases hb : Spec.onBoundary (Spec.edges pts true) p
  · rw [parity_map hT pts p hb]
  · rfl

theorem strictIn_map (pts : List Pt) (p : Pt) :
    Spec.strictIn (Spec.edges (pts.map T) true) (T p) = Spec.strictIn (Spec.edges pts true) p := by
  unfold Spec.strictIn
  rw [onBoundary_map hT]
  cases hb : Spec.onBoundary (Spec.edges pts true) p
  · rw [parity_map hT pts p hb]
  · rfl

end

theorem all_congr_mem {α : Type} {l : List α} {f g : α → Bool} (h : ∀ x ∈ l, f x = g x) :
    l.all f = l.all g := by
  rw [Bool.eq_iff_iff, List.all_eq_true, List.all_eq_true]
  constructor <;> intro hh x hx
  · rw [← h x hx]; exact hh x hx
  · rw [h x hx]; exact hh x hx

theorem all_range_congr (n : Nat) {f g : Nat → Bool} (h : ∀ i, i < n → f i = g i) :
    (List.range n).all f = (List.range n).all g :=
  all_congr_mem fun i hi => h i (List.mem_range.1 hi)

end Sym

/-! ### shapes -/

/-- the image of a shape: points are mapped one by one; a rectangle is mapped to the
    normalised box spanned by the images of its two corners -/
def Spec.Shape.mapPts (T : Pt → Pt) : Spec.Shape → Spec.Shape
  | .point p => .point (T p)
  | .rect lo hi => .rect ⟨min (T lo).x (T hi).x, min (T lo).y (T hi).y⟩
      ⟨max (T lo).x (T hi).x, max (T lo).y (T hi).y⟩
  | .line pts => .line (pts.map T)
  | .poly ext holes => .poly (ext.map T) (holes.map (fun h => h.map T))

/-- a rectangle shape is well formed (lo ≤ hi in both coordinates); an ill-formed rectangle
    has no point, while the normalised box of its image has some -/
def Spec.Shape.rectOK : Spec.Shape → Prop
  | .rect lo hi => lo.x ≤ hi.x ∧ lo.y ≤ hi.y
  | _ => True

theorem rectOK_of_valid {S : Spec.Shape} (h : S.valid = true) : S.rectOK := by
  cases S with
  | rect lo hi =>
    simp only [Spec.Shape.valid, Bool.and_eq_true, decide_eq_true_eq] at h
    exact h
  | _ => trivial

namespace Sym

section
variable {T : Pt → Pt} (hT : ShapeSym T)
include hT

theorem member_map (S : Spec.Shape) (hS : S.rectOK) (x : Pt) :
    (S.mapPts T).member (T x) = S.member x := by
  cases S with
  | point a =>
    simp only [Spec.Shape.mapPts, Spec.Shape.member]
    rw [Bool.eq_iff_iff, decide_eq_true_eq, decide_eq_true_eq]
    exact hT.inj.eq_iff
  | rect lo hi =>
    simp only [Spec.Shape.mapPts, Spec.Shape.member]
    rw [Bool.eq_iff_iff]
    simp only [Bool.and_eq_true, decide_eq_true_eq, and_assoc]
    exact hT.box lo hi x hS.1 hS.2
  | line pts =>
    simp only [Spec.Shape.mapPts, Spec.Shape.member]
    exact onBoundary_map hT.toLatSym pts false x
  | poly ext holes =>
    simp only [Spec.Shape.mapPts, Spec.Shape.member]
    rw [inRing_map hT.toLatSym, List.all_map]
    congr 1
    apply all_congr_mem
    intro h _
    simp only [Function.comp, strictIn_map hT.toLatSym]

/-! ### validity is invariant -/

omit hT in
theorem getElem!_map_edges (es : List (Pt × Pt)) (i : Nat) (hi : i < es.length) :
    (es.map (Prod.map T T)).toArray[i]! = Prod.map T T (es.toArray[i]!) := by
  rw [getElem!_pos _ i (by simpa using hi), getElem!_pos _ i (by simpa using hi)]
  simp

theorem simpleRing_map (pts : List Pt) : Spec.simpleRing (pts.map T) = Spec.simpleRing pts := by
  unfold Spec.simpleRing
  simp only []
  rw [EQ.edges_map T hT.inj, EQ.area2_map T hT.inj (-1) hT.area]
  generalize Spec.edges pts true = es
  have hsz : (es.map (Prod.map T T)).toArray.size = es.toArray.size := by simp
  rw [hsz]
  have harea : (decide (-1 * Spec.area2 pts ≠ 0)) = decide (Spec.area2 pts ≠ 0) := by
    rw [decide_eq_decide]
    constructor <;> intro h hc
    · exact h (by rw [hc]; ring)
    · exact h (by linarith)
  rw [harea]
  congr 1
  apply all_range_congr
  intro i hi
  have hi' : i < es.length := by simpa using hi
  rw [getElem!_map_edges es i hi']
  congr 1
  · simp only [Prod.map]
    rw [decide_eq_decide]
    exact not_congr hT.inj.eq_iff
  · apply all_range_congr
    intro j hj
    have hj' : j < es.length := by simpa using hj
    rw [getElem!_map_edges es j hj']
    simp only [Prod.map, onSeg_map hT.toLatSym, segsMeet_map hT.toLatSym]

theorem validLine_map (pts : List Pt) : Spec.validLine (pts.map T) = Spec.validLine pts := by
  unfold Spec.validLine
  rw [EQ.edges_map T hT.inj, List.all_map, List.length_map]
  congr 1
  apply all_congr_mem
  intro e _
  simp only [Function.comp, Prod.map]
  rw [decide_eq_decide]
  exact not_congr hT.inj.eq_iff

theorem holeInside_map (ext h : List Pt) :
    Spec.holeInside (ext.map T) (h.map T) = Spec.holeInside ext h := by
  unfold Spec.holeInside
  rw [EQ.edges_map T hT.inj h, EQ.edges_map T hT.inj ext, List.all_map, List.all_map]
  congr 1
  · apply all_congr_mem
    intro p _
    simp only [Function.comp]
    rw [← EQ.edges_map T hT.inj ext, strictIn_map hT.toLatSym]
  · apply all_congr_mem
    intro e _
    simp only [Function.comp, Prod.map]
    rw [List.all_map]
    apply all_congr_mem
    intro f _
    simp only [Function.comp, Prod.map, segsMeet_map hT.toLatSym]

theorem holesDisjoint_map (a b : List Pt) :
    Spec.holesDisjoint (a.map T) (b.map T) = Spec.holesDisjoint a b := by
  unfold Spec.holesDisjoint
  congr 1
  · congr 1
    · rw [EQ.edges_map T hT.inj a, EQ.edges_map T hT.inj b, List.all_map]
      apply all_congr_mem
      intro e _
      simp only [Function.comp, Prod.map]
      rw [List.all_map]
      apply all_congr_mem
      intro f _
      simp only [Function.comp, Prod.map, segsMeet_map hT.toLatSym]
    · rw [List.all_map]
      apply all_congr_mem
      intro p _
      simp only [Function.comp, inRing_map hT.toLatSym]
  · rw [List.all_map]
    apply all_congr_mem
    intro p _
    simp only [Function.comp, inRing_map hT.toLatSym]

omit hT in
theorem getD_map_nil (holes : List (List Pt)) (i : Nat) :
    (holes.map (fun h => h.map T)).getD i [] = (holes.getD i []).map T := by
  simp only [List.getD_eq_getElem?_getD, List.getElem?_map]
  cases holes[i]? <;> rfl

theorem valid_map_eq (S : Spec.Shape) (hS : S.rectOK) : (S.mapPts T).valid = S.valid := by
  cases S with
  | point a => rfl
  | rect lo hi =>
    simp only [Spec.Shape.mapPts, Spec.Shape.valid]
    have h1 : min (T lo).x (T hi).x ≤ max (T lo).x (T hi).x := le_trans (min_le_left _ _) (le_max_left _ _)
    have h2 : min (T lo).y (T hi).y ≤ max (T lo).y (T hi).y := le_trans (min_le_left _ _) (le_max_left _ _)
    simp [h1, h2, hS.1, hS.2]
  | line pts => exact validLine_map hT pts
  | poly ext holes =>
    simp only [Spec.Shape.mapPts, Spec.Shape.valid, List.length_map]
    rw [simpleRing_map hT, List.all_map, List.all_map]
    congr 1
    · congr 1
      · congr 1
        apply all_congr_mem
        intro h _
        simp only [Function.comp, simpleRing_map hT]
      · apply all_congr_mem
        intro h _
        simp only [Function.comp, holeInside_map hT]
    · apply all_range_congr
      intro i _
      apply all_range_congr
      intro j _
      rw [getD_map_nil, getD_map_nil, holesDisjoint_map hT]

theorem valid_map (S : Spec.Shape) (hS : S.valid = true) : (S.mapPts T).valid = true := by
  rw [valid_map_eq hT S (rectOK_of_valid hS)]; exact hS

/-! ### `Spec.meets` -/

theorem meets_map (A B : Spec.Shape) (hA : A.valid = true) (hB : B.valid = true) :
    Spec.meets (A.mapPts T) (B.mapPts T) = Spec.meets A B := by
  rw [Bool.eq_iff_iff, spec_meets_iff_holes _ _ (valid_map hT A hA) (valid_map hT B hB),
    spec_meets_iff_holes A B hA hB]
  have rA := rectOK_of_valid hA
  have rB := rectOK_of_valid hB
  constructor
  · rintro ⟨x, h1, h2⟩
    refine ⟨T x, ?_, ?_⟩
    · rw [← member_map hT A rA (T x), hT.invol]; exact h1
    · rw [← member_map hT B rB (T x), hT.invol]; exact h2
  · rintro ⟨x, h1, h2⟩
    exact ⟨T x, by rw [member_map hT A rA]; exact h1, by rw [member_map hT B rB]; exact h2⟩

/-! ### the model's `intersects` -/

omit hT in
theorem noHoles_map (S : Spec.Shape) (h : S.noHoles) : (S.mapPts T).noHoles := by
  cases S with
  | poly ext hs =>
    simp only [Spec.Shape.noHoles] at h
    subst h
    rfl
  | _ => trivial

theorem convexFlag_map (h : List Pt) : (ringOfL (h.map T)).convex = (ringOfL h).convex := by
  show (processPoints (h.map T).toArray true).convex = (processPoints h.toArray true).convex
  have e : (h.map T).toArray = h.toArray.map T := by simp
  rw [e]
  by_cases h3 : 3 ≤ h.toArray.size
  · exact (processPoints_flags_of_neg T hT.inj hT.turn hT.area h.toArray h3).1
  · rw [processPoints_map_empty T h.toArray true (by simp; simp at h3; omega)]

theorem holesConvexOK_map (S : Spec.Shape) (hc : HolesConvexOK S) : HolesConvexOK (S.mapPts T) := by
  cases S with
  | poly ext hs =>
    intro h hh
    simp only [Spec.Shape.mapPts, Spec.Shape.holes, List.mem_map] at hh
    obtain ⟨h0, hh0, rfl⟩ := hh
    intro hcv p q hp hq x hx
    rw [convexFlag_map hT] at hcv
    have key : ∀ y, Spec.strictIn (Spec.edges (h0.map T) true) y = Spec.strictIn (Spec.edges h0 true) (T y) := by
      intro y
      rw [← strictIn_map hT.toLatSym h0 (T y), hT.invol]
    rw [key] at hp hq ⊢
    exact hc h0 hh0 hcv (T p) (T q) hp hq (T x) ((hT.onSeg p q x).2 hx)
  | point a => intro h hh; simp [Spec.Shape.mapPts, Spec.Shape.holes] at hh
  | rect lo hi => intro h hh; simp [Spec.Shape.mapPts, Spec.Shape.holes] at hh
  | line pts => intro h hh; simp [Spec.Shape.mapPts, Spec.Shape.holes] at hh

theorem geom_intersects_map_noholes (A B : Spec.Shape) (hA : A.valid = true) (hB : B.valid = true)
    (hnA : A.noHoles) (hnB : B.noHoles) :
    (build (A.mapPts T)).intersects (build (B.mapPts T)) = (build A).intersects (build B) := by
  rw [geom_intersects_exact_noholes _ _ (valid_map hT A hA) (valid_map hT B hB)
      (noHoles_map A hnA) (noHoles_map B hnB),
    geom_intersects_exact_noholes A B hA hB hnA hnB, meets_map hT A B hA hB]

theorem geom_intersects_map_holes (A B : Spec.Shape) (hA : A.valid = true) (hB : B.valid = true)
    (hcA : HolesConvexOK A) (hcB : HolesConvexOK B) :
    (build (A.mapPts T)).intersects (build (B.mapPts T)) = (build A).intersects (build B) := by
  rw [geom_intersects_exact_holes_of_convexOK _ _ (valid_map hT A hA) (valid_map hT B hB)
      (holesConvexOK_map hT A hcA) (holesConvexOK_map hT B hcB),
    geom_intersects_exact_holes_of_convexOK A B hA hB hcA hcB, meets_map hT A B hA hB]

end

/-! ### the same in the vocabulary of Props/C12.lean (`Geom.mapPts`)

`Geom.mapPts T` maps the two corners of a rectangle directly; for a reflection this yields an
inverted box (which the model treats as containing nothing), not the reflected rectangle.  For
the other three kinds, and for every kind under the transposition, `(build S).mapPts T` IS
`build (S.mapPts T)`. -/

def _root_.Geo.Spec.Shape.isRect : Spec.Shape → Bool
  | .rect _ _ => true
  | _ => false

theorem build_mapPts (T : Pt → Pt) (S : Spec.Shape) (hS : S.isRect = false) :
    (build S).mapPts T = build (S.mapPts T) := by
  cases S with
  | point a => rfl
  | rect lo hi => cases hS
  | line pts => simp [build, Geom.mapPts, Series.mapPts, Spec.Shape.mapPts, mkSeries]
  | poly ext holes =>
    simp [build, Geom.mapPts, Poly.mapPts, Ring.mapPts, Series.mapPts, Spec.Shape.mapPts, mkSeries]

theorem build_mapPts_transpose (S : Spec.Shape) (hS : S.rectOK) :
    (build S).mapPts Pt.transpose = build (S.mapPts Pt.transpose) := by
  cases S with
  | rect lo hi =>
    simp only [build, Geom.mapPts, Spec.Shape.mapPts, Pt.transpose]
    rw [min_eq_left hS.2, min_eq_left hS.1, max_eq_right hS.2, max_eq_right hS.1]
  | point a => exact build_mapPts _ _ rfl
  | line pts => exact build_mapPts _ _ rfl
  | poly ext holes => exact build_mapPts _ _ rfl

theorem geom_intersects_mapPts {T : Pt → Pt} (hT : ShapeSym T) (A B : Spec.Shape)
    (hA : A.valid = true) (hB : B.valid = true) (hcA : HolesConvexOK A) (hcB : HolesConvexOK B)
    (hrA : A.isRect = false) (hrB : B.isRect = false) :
    ((build A).mapPts T).intersects ((build B).mapPts T) = (build A).intersects (build B) := by
  rw [build_mapPts T A hrA, build_mapPts T B hrB]
  exact geom_intersects_map_holes hT A B hA hB hcA hcB

end Sym
end Geo
