package main

import (
	"bytes"
	"encoding/hex"
	"fmt"
	"math"
	"sort"
	"strconv"
	"strings"

	"github.com/tidwall/geojson"
	"github.com/tidwall/geojson/geometry"
)

// object-level worker ops

var oenv = map[string]geojson.Object{}

func unhex(h string) (string, bool) {
	if h == "-" {
		return "", true
	}
	b, err := hex.DecodeString(h)
	if err != nil {
		return "", false
	}
	return string(b), true
}

func kindName(o geojson.Object) string {
	switch o.(type) {
	case *geojson.Point:
		return "Point"
	case *geojson.SimplePoint:
		return "SimplePoint"
	case *geojson.LineString:
		return "LineString"
	case *geojson.Polygon:
		return "Polygon"
	case *geojson.Rect:
		return "Rect"
	case *geojson.Circle:
		return "Circle"
	case *geojson.MultiPoint:
		return "MultiPoint"
	case *geojson.MultiLineString:
		return "MultiLineString"
	case *geojson.MultiPolygon:
		return "MultiPolygon"
	case *geojson.GeometryCollection:
		return "GeometryCollection"
	case *geojson.FeatureCollection:
		return "FeatureCollection"
	case *geojson.Feature:
		return "Feature"
	}
	return fmt.Sprintf("%T", o)
}

func errEnum(err error) string {
	m := err.Error()
	switch {
	case m == "invalid data":
		return "dataInvalid"
	case m == "invalid type":
		return "typeInvalid"
	case m == "missing type":
		return "typeMissing"
	case strings.HasPrefix(m, "type '") && strings.HasSuffix(m, "' is unknown"):
		return "typeUnknown"
	case m == "invalid coordinates":
		return "coordsInvalid"
	case m == "missing coordinates":
		return "coordsMissing"
	case m == "missing geometry":
		return "geometryMissing"
	case m == "missing features":
		return "featuresMissing"
	case m == "invalid features":
		return "featuresInvalid"
	case m == "missing geometries":
		return "geometriesMissing"
	case m == "invalid geometries":
		return "geometriesInvalid"
	case m == "invalid circle radius units":
		return "circleUnits"
	}
	return "other:" + strings.ReplaceAll(m, " ", "_")
}

func parseOpts(s string) (*geojson.ParseOptions, bool) {
	f := strings.Split(s, ",")
	if len(f) != 7 {
		return nil, false
	}
	var v [7]int
	for i := range f {
		n, err := strconv.Atoi(f[i])
		if err != nil {
			return nil, false
		}
		v[i] = n
	}
	return &geojson.ParseOptions{
		IndexChildren: v[0], IndexGeometry: v[1], IndexGeometryKind: geometry.IndexKind(v[2]),
		RequireValid: v[3] != 0, AllowSimplePoints: v[4] != 0, DisableCircleType: v[5] != 0, AllowRects: v[6] != 0,
	}, true
}

func hasCircle(o geojson.Object) bool {
	switch v := o.(type) {
	case *geojson.Circle:
		return true
	case *geojson.Feature:
		return hasCircle(v.Base())
	case geojson.Collection:
		for _, c := range v.Children() {
			if hasCircle(c) {
				return true
			}
		}
	}
	return false
}

// firstJSON: the FIRST serialisation of a fresh object goes through AppendJSON into a caller-owned
// buffer with spare capacity, which is then overwritten: whatever the object may have kept of that
// buffer (a cached slice instead of a copy) is now garbage, and every later serialisation shows it
func firstJSON(o geojson.Object) string {
	buf := make([]byte, 0, 4096)
	res := o.AppendJSON(buf)
	s := string(res)
	full := res[:cap(res)]
	for i := range full {
		full[i] = '#'
	}
	return s
}

// decoys: other objects of every kind, serialised between obtaining a byte slice from the object under
// test and comparing it (a serialiser handing out a pooled / shared buffer shows here)
var jsonDecoys []geojson.Object

func init() {
	for _, t := range []string{
		`{"type":"FeatureCollection","features":[{"type":"Feature","geometry":{"type":"Point","coordinates":[9,9]},"properties":{"decoy":true}}]}`,
		`{"type":"GeometryCollection","geometries":[{"type":"LineString","coordinates":[[7,7],[8,8]]}]}`,
		`{"type":"Feature","geometry":{"type":"Polygon","coordinates":[[[0,0],[3,0],[3,3],[0,3],[0,0]]]},"properties":{"d":[1,2,3]}}`,
		`{"type":"MultiPolygon","coordinates":[[[[0,0],[5,0],[5,5],[0,0]]]]}`,
		`{"type":"Point","coordinates":[123.456,-65.4321]}`,
	} {
		if o, err := geojson.Parse(t, &geojson.ParseOptions{AllowRects: true}); err == nil {
			jsonDecoys = append(jsonDecoys, o)
		}
	}
}

func objJSONCheck(o geojson.Object) string {
	j := o.JSON()
	mj, err := o.MarshalJSON()
	aj := o.AppendJSON(nil)
	for _, d := range jsonDecoys {
		_ = d.JSON()
		_, _ = d.MarshalJSON()
		_ = d.String()
		_ = d.AppendJSON(nil)
	}
	// compare the slices obtained BEFORE the decoys ran first: a later call on o itself could rewrite a shared buffer with the right bytes
	held := string(mj) == j && string(aj) == j
	same := err == nil && held && o.String() == j && string(o.AppendJSON(nil)) == j
	// AppendJSON(prefix) = prefix ++ json, and the prefix's visible bytes are untouched,
	// with no, some and ample spare capacity
	appendOK := true
	for _, spare := range []int{0, 3, len(j) + 64} {
		prefix := make([]byte, 5, 5+spare)
		copy(prefix, "\x01ab\xff{")
		keep := append([]byte{}, prefix...)
		res := o.AppendJSON(prefix)
		if !bytes.Equal(prefix, keep) || len(res) != 5+len(j) || !bytes.Equal(res[:5], keep) || string(res[5:]) != j {
			appendOK = false
		}
	}
	v, t, d := structureOK(o, j)
	return hx(j) + " same=" + b2s(same) + " append=" + b2s(appendOK) + " valid=" + b2s(v) + " type=" + b2s(t) + " depth=" + b2s(d)
}

func fbits(f float64) string {
	if f == 0 {
		f = 0 // -0 and +0 print alike
	}
	if math.IsNaN(f) {
		return "nan"
	}
	return ratS(f)
}

func objOp(toks []string, line string) (string, bool) {
	switch toks[0] {
	case "oreset":
		oenv = map[string]geojson.Object{}
		otext = map[string]string{}
		return "ok", true
	case "oparse", "oparsewf", "oparsewfmix", "oparsedef", "oparserv":
		if len(toks) < 4 {
			return "bad-op", true
		}
		opts, ok := parseOpts(toks[2])
		text, ok2 := unhex(toks[3])
		if !ok || !ok2 {
			return "bad-op", true
		}
		delete(oenv, toks[1])
		otext[toks[1]] = text
		o, err := geojson.Parse(text, opts)
		if err != nil {
			if o != nil {
				return "err-with-object " + errEnum(err), true
			}
			return "err " + errEnum(err), true
		}
		if o == nil {
			return "nil-object-without-error", true
		}
		oenv[toks[1]] = o
		return "ok " + kindName(o) + " " + hx(firstJSON(o)), true
	case "onew":
		return onew(toks), true
	case "ojson":
		o, ok := oenv[toks[1]]
		if !ok {
			return "noobj", true
		}
		return objJSONCheck(o), true
	case "oattrs":
		o, ok := oenv[toks[1]]
		if !ok {
			return "noobj", true
		}
		r := o.Rect()
		c := o.Center()
		return fmt.Sprintf("%s%s %s,%s,%s,%s %s,%s %d", b2s(o.Empty()), b2s(o.Valid()),
			fbits(r.Min.X), fbits(r.Min.Y), fbits(r.Max.X), fbits(r.Max.Y), fbits(c.X), fbits(c.Y), o.NumPoints()), true
	case "opred":
		a, ok := oenv[toks[1]]
		b, ok2 := oenv[toks[2]]
		if !ok || !ok2 {
			return "noobj", true
		}
		return b2s(a.Contains(b)) + b2s(a.Within(b)) + b2s(a.Intersects(b)) + b2s(b.Intersects(a)) + b2s(b.Contains(a)) + b2s(b.Within(a)), true
	case "ochildren":
		o, ok := oenv[toks[1]]
		if !ok {
			return "noobj", true
		}
		c, ok := o.(geojson.Collection)
		if !ok {
			return "notcoll", true
		}
		var ks []string
		for _, ch := range c.Children() {
			ks = append(ks, kindName(ch)+":"+b2s(ch.Empty()))
		}
		var leaves []string
		o.ForEach(func(g geojson.Object) bool { leaves = append(leaves, kindName(g)); return true })
		return fmt.Sprintf("%d [%s] [%s]", len(ks), strings.Join(ks, ","), strings.Join(leaves, ",")), true
	case "osearch":
		// osearch ID minx miny maxx maxy stop : child search, canonicalised (sorted child indices)
		o, ok := oenv[toks[1]]
		if !ok {
			return "noobj", true
		}
		c, ok := o.(geojson.Collection)
		q, ok2 := queryBox(toks[2:6])
		stop, err := strconv.Atoi(toks[6])
		if !ok || !ok2 || err != nil {
			return "bad-op", true
		}
		children := c.Children()
		var got []int
		calls := 0
		c.Search(q, func(child geojson.Object) bool {
			calls++
			idx := -1
			for i, ch := range children {
				if ch == child {
					idx = i
				}
			}
			got = append(got, idx)
			return !(stop != 0 && calls == stop)
		})
		sort.Ints(got)
		if stop != 0 {
			// which children are reported first depends on the index; the count does not
			want := 0
			for _, ch := range children {
				if !ch.Empty() && ch.Rect().IntersectsRect(q) {
					want++
				}
			}
			subset := true
			for _, g := range got {
				if g < 0 || children[g].Empty() || !children[g].Rect().IntersectsRect(q) {
					subset = false
				}
			}
			for i := 1; i < len(got); i++ {
				if got[i] == got[i-1] {
					subset = false
				}
			}
			return fmt.Sprintf("n=%d subset=%s", len(got), b2s(subset)), true
		}
		var ss []string
		for _, g := range got {
			ss = append(ss, strconv.Itoa(g))
		}
		return strings.Join(ss, ","), true
	case "oindexed":
		o, ok := oenv[toks[1]]
		if !ok {
			return "noobj", true
		}
		if c, ok := o.(geojson.Collection); ok {
			return b2s(c.Indexed()), true
		}
		return "notcoll", true
	}
	if s, ok := xobjOp(toks); ok {
		return s, true
	}
	if s, ok := geoOp(toks); ok {
		return s, true
	}
	return "", false
}

func oline(toks []string) (*geometry.Line, []string, bool) {
	// k m n coords...
	if len(toks) < 3 {
		return nil, nil, false
	}
	opts, ok := idxOpts(toks[0], toks[1])
	n, err := strconv.Atoi(toks[2])
	if !ok || err != nil || len(toks) < 3+2*n {
		return nil, nil, false
	}
	pts, ok := parsePts(toks[3 : 3+2*n])
	if !ok {
		return nil, nil, false
	}
	return geometry.NewLine(pts, opts), toks[3+2*n:], true
}

func opoly(toks []string) (*geometry.Poly, []string, bool) {
	// k m nrings (n coords)...
	if len(toks) < 3 {
		return nil, nil, false
	}
	opts, ok := idxOpts(toks[0], toks[1])
	nr, err := strconv.Atoi(toks[2])
	if !ok || err != nil {
		return nil, nil, false
	}
	rest := toks[3:]
	var rings [][]geometry.Point
	for i := 0; i < nr; i++ {
		if len(rest) < 1 {
			return nil, nil, false
		}
		n, err := strconv.Atoi(rest[0])
		if err != nil || len(rest) < 1+2*n {
			return nil, nil, false
		}
		pts, ok := parsePts(rest[1 : 1+2*n])
		if !ok {
			return nil, nil, false
		}
		rings = append(rings, pts)
		rest = rest[1+2*n:]
	}
	if len(rings) == 0 {
		return nil, rest, true
	}
	return geometry.NewPoly(rings[0], rings[1:], opts), rest, true
}

// onew ID ctor args : objects from the public constructors (coordinates in sixteenths)
func onew(toks []string) string {
	if len(toks) < 3 {
		return "bad-op"
	}
	id, ctor, args := toks[1], toks[2], toks[3:]
	var o geojson.Object
	switch ctor {
	case "point", "spoint":
		pts, ok := parsePts(args)
		if !ok || len(pts) != 1 {
			return "bad-op"
		}
		if ctor == "point" {
			o = geojson.NewPoint(pts[0])
		} else {
			o = geojson.NewSimplePoint(pts[0])
		}
	case "pointz":
		pts, ok := parsePts(args[:2])
		z, ok2 := q16(args[2])
		if !ok || !ok2 {
			return "bad-op"
		}
		o = geojson.NewPointZ(pts[0], z)
	case "rect":
		pts, ok := parsePts(args)
		if !ok || len(pts) != 2 {
			return "bad-op"
		}
		o = geojson.NewRect(geometry.Rect{Min: pts[0], Max: pts[1]})
	case "line":
		l, _, ok := oline(args)
		if !ok {
			return "bad-op"
		}
		o = geojson.NewLineString(l)
	case "polygon":
		p, _, ok := opoly(args)
		if !ok {
			return "bad-op"
		}
		o = geojson.NewPolygon(p)
	case "mp":
		n, err := strconv.Atoi(args[0])
		pts, ok := parsePts(args[1:])
		if err != nil || !ok || len(pts) != n {
			return "bad-op"
		}
		o = geojson.NewMultiPoint(pts)
	case "mls":
		n, err := strconv.Atoi(args[0])
		if err != nil {
			return "bad-op"
		}
		rest := args[1:]
		var lines []*geometry.Line
		for i := 0; i < n; i++ {
			l, r, ok := oline(rest)
			if !ok {
				return "bad-op"
			}
			lines = append(lines, l)
			rest = r
		}
		o = geojson.NewMultiLineString(lines)
	case "mpg":
		n, err := strconv.Atoi(args[0])
		if err != nil {
			return "bad-op"
		}
		rest := args[1:]
		var polys []*geometry.Poly
		for i := 0; i < n; i++ {
			p, r, ok := opoly(rest)
			if !ok {
				return "bad-op"
			}
			polys = append(polys, p)
			rest = r
		}
		o = geojson.NewMultiPolygon(polys)
	case "gc", "fc":
		n, err := strconv.Atoi(args[0])
		if err != nil || len(args) != 1+n {
			return "bad-op"
		}
		var cs []geojson.Object
		for _, cid := range args[1:] {
			c, ok := oenv[cid]
			if !ok {
				return "noobj"
			}
			cs = append(cs, c)
		}
		if ctor == "gc" {
			o = geojson.NewGeometryCollection(cs)
		} else {
			o = geojson.NewFeatureCollection(cs)
		}
	case "feature":
		c, ok := oenv[args[0]]
		m, ok2 := unhex(args[1])
		if !ok || !ok2 {
			return "noobj"
		}
		o = geojson.NewFeature(c, m)
	default:
		return "bad-op"
	}
	oenv[id] = o
	return "ok " + kindName(o) + " " + hx(firstJSON(o))
}
