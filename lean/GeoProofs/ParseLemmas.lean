/-
  GeoProofs.ParseLemmas — structural lemmas about the model of `geojson.Parse`
  (GeoModel.Json): the per-type case functions, the decomposition of `parse`, facts
  about `scanKeys`, `takeNums`, the coordinate loops and `List.mapM` in `Except`.
  Core Lean only.
-/
import GeoModel.Write

namespace Geo

/-! ### the per-type bodies of `parse`, as separate functions -/

def pointCase (o : POpts) (k : Keys) : Except PErr Obj :=
  match k.coordinates with
  | none => .error .coordsMissing
  | some rc =>
    if !rc.isArray then .error .coordsInvalid
    else match parsePointCoords rc with
      | .error e => .error e
      | .ok (pos, ex) =>
        let ex := withMembers ex k
        let ob : Obj := if ex.isNone && o.allowSimplePoints then .spoint pos else .point pos ex
        if o.requireValid && !ob.valid then .error .coordsInvalid else .ok ob

def lineCase (o : POpts) (k : Keys) : Except PErr Obj :=
  match reqArray k.coordinates .coordsMissing .coordsInvalid with
  | .error e => .error e
  | .ok rc =>
    match parseLineCoords rc with
    | .error e => .error e
    | .ok (ps, ex) =>
      if ps.length < 2 then .error .coordsInvalid
      else
        let ob : Obj := .lineString (mkLine o ps) ps (withMembers ex k)
        if o.requireValid && !ob.valid then .error .dataInvalid else .ok ob

/-- the object built from the rings of a Polygon (rectangle detection under AllowRects) -/
def polyObj (o : POpts) (rings : List (List Pos)) (ex : Option Extra) : Obj :=
  match rings with
  | [e] =>
    if ex.isNone && o.allowRects && isRectRing e then
      match e with
      | [p0, _, p2, _, _] => .rectO ⟨p0.p, p2.p⟩ p0 p2
      | _ => .polygon (mkPoly o rings) rings ex
    else .polygon (mkPoly o rings) rings ex
  | _ => .polygon (mkPoly o rings) rings ex

def polyCase (o : POpts) (k : Keys) : Except PErr Obj :=
  match reqArray k.coordinates .coordsMissing .coordsInvalid with
  | .error e => .error e
  | .ok rc =>
    match parsePolyCoords rc with
    | .error e => .error e
    | .ok (rings, ex) =>
      if rings.isEmpty || !(rings.all ringOK) then .error .coordsInvalid
      else
        let ob : Obj := polyObj o rings (withMembers ex k)
        if o.requireValid && !ob.valid then .error .coordsInvalid else .ok ob

def multiPointCase (o : POpts) (k : Keys) : Except PErr Obj :=
  match reqArray k.coordinates .coordsMissing .coordsInvalid with
  | .error e => .error e
  | .ok rc =>
    match rc.elems.mapM (fun v => parsePointCoords v) with
    | .error e => .error e
    | .ok cs =>
      let children : List Obj := cs.map (fun c => Obj.point c.1 c.2)
      if o.requireValid && !(children.all Obj.valid) then .error .coordsInvalid
      else .ok (mkColl o .multiPoint children (withMembers none k))

/-- one child of a MultiLineString -/
def lineChild (o : POpts) (v : JVal) : Except PErr Obj := do
  let (ps, ex) ← parseLineCoords v
  if ps.length < 2 then throw PErr.coordsInvalid
  pure (Obj.lineString (mkLine o ps) ps ex)

/-- one child of a MultiPolygon -/
def polyChild (o : POpts) (v : JVal) : Except PErr Obj := do
  let (rings, ex) ← parsePolyCoords v
  if rings.isEmpty || !(rings.all ringOK) then throw PErr.coordsInvalid
  pure (Obj.polygon (mkPoly o rings) rings ex)

def multiLineCase (o : POpts) (k : Keys) : Except PErr Obj :=
  match reqArray k.coordinates .coordsMissing .coordsInvalid with
  | .error e => .error e
  | .ok rc =>
    match rc.elems.mapM (lineChild o) with
    | .error e => .error e
    | .ok children =>
      let ob := mkColl o .multiLineString children (withMembers none k)
      if o.requireValid && !ob.valid then .error .coordsInvalid else .ok ob

def multiPolyCase (o : POpts) (k : Keys) : Except PErr Obj :=
  match reqArray k.coordinates .coordsMissing .coordsInvalid with
  | .error e => .error e
  | .ok rc =>
    match rc.elems.mapM (polyChild o) with
    | .error e => .error e
    | .ok children =>
      let ob := mkColl o .multiPolygon children (withMembers none k)
      if o.requireValid && !ob.valid then .error .coordsInvalid else .ok ob

def geomCollCase (o : POpts) (k : Keys) (pl : List JVal → Except PErr (List Obj)) : Except PErr Obj :=
  match reqArray k.geometries .geometriesMissing .geometriesInvalid with
  | .error e => .error e
  | .ok (.arr items) =>
    match pl items with
    | .error e => .error e
    | .ok children => .ok (mkColl o .geometryCollection children (withMembers none k))
  | .ok _ => .error .geometriesInvalid

def featCollCase (o : POpts) (k : Keys) (pl : List JVal → Except PErr (List Obj)) : Except PErr Obj :=
  match reqArray k.features .featuresMissing .featuresInvalid with
  | .error e => .error e
  | .ok (.arr items) =>
    match pl items with
    | .error e => .error e
    | .ok children => .ok (mkColl o .featureCollection children (withMembers none k))
  | .ok _ => .error .featuresInvalid

/-- the centre of a Circle candidate: the base object is a Point -/
def centreOf : Obj → Option Pos
  | .point pos _ => some pos
  | .spoint pos => some pos
  | _ => none

/-- `properties` of the foreign members (gjson.Get on the members text) -/
def propsOf (k : Keys) : Option JVal := (JVal.obj k.foreign).get "properties"

/-- `properties.type` is the string "Circle" -/
def isCircleType (k : Keys) : Bool :=
  match (propsOf k).bind (fun p => p.get "type") with
  | some (.str _ "Circle") => true
  | _ => false

/-- the two radius texts (metres, kilometres ×1000); `none` = string-valued radius (unmodelled) -/
def radiusTexts (k : Keys) : Option (String × String) :=
  match (propsOf k).bind (fun p => p.get "radius") with
  | some (.num fin _ canon canonK _) => if fin then some (canon, canonK) else some ("null", "null")
  | some .tru => some ("1", "1000")
  | some (.str _ _) => none
  | _ => some ("0", "0")

def unitsOf (k : Keys) : String := strOf ((propsOf k).bind (fun p => p.get "radius_units"))

/-- the Feature / Circle decision once the geometry has been parsed -/
def featureObj (o : POpts) (k : Keys) (base : Obj) : Except PErr Obj :=
  match centreOf base, withMembers none k with
  | some c, some _ =>
    if !o.disableCircle && isCircleType k then
      match radiusTexts k with
      | none => .error .unmodelled
      | some (m, km) =>
        if unitsOf k == "" || unitsOf k == "m" then .ok (.circle c m)
        else if unitsOf k == "km" then .ok (.circle c km)
        else .error .circleUnits
    else .ok (.feature base (withMembers none k))
  | _, _ => .ok (.feature base (withMembers none k))

def featureCase (o : POpts) (k : Keys) (pr : JVal → Except PErr Obj) : Except PErr Obj :=
  match k.geometry with
  | none => .error .geometryMissing
  | some g =>
    match pr g with
    | .error e => .error e
    | .ok base => featureObj o k base

def parseTyped (o : POpts) (k : Keys) (pr : JVal → Except PErr Obj)
    (pl : List JVal → Except PErr (List Obj)) (ty : String) : Except PErr Obj :=
  match ty with
  | "Point" => pointCase o k
  | "LineString" => lineCase o k
  | "Polygon" => polyCase o k
  | "MultiPoint" => multiPointCase o k
  | "MultiLineString" => multiLineCase o k
  | "MultiPolygon" => multiPolyCase o k
  | "GeometryCollection" => geomCollCase o k pl
  | "FeatureCollection" => featCollCase o k pl
  | "Feature" => featureCase o k pr
  | _ => .error .typeUnknown

theorem parse_zero (o : POpts) (v : JVal) : parse o 0 v = .error .unmodelled := by
  rw [parse.eq_1]

theorem parse_succ_obj (o : POpts) (fuel : Nat) (ms : List (String × String × JVal)) :
    parse o (fuel+1) (.obj ms) =
      match (scanKeys ms).type with
      | none => .error .typeMissing
      | some (.str _ ty) => parseTyped o (scanKeys ms) (parse o fuel) (parseList o fuel) ty
      | some _ => .error .typeInvalid := by
  rw [parse.eq_2]
  rfl

end Geo

namespace Geo

/-! ### eliminator for the type dispatch -/

def nineTypes : List String :=
  ["Point", "LineString", "Polygon", "MultiPoint", "MultiLineString", "MultiPolygon",
   "GeometryCollection", "FeatureCollection", "Feature"]

theorem parseTyped_elim {motive : String → Except PErr Obj → Prop} (o k pr pl) (ty : String)
    (hPoint : motive "Point" (pointCase o k))
    (hLine : motive "LineString" (lineCase o k))
    (hPoly : motive "Polygon" (polyCase o k))
    (hMPoint : motive "MultiPoint" (multiPointCase o k))
    (hMLine : motive "MultiLineString" (multiLineCase o k))
    (hMPoly : motive "MultiPolygon" (multiPolyCase o k))
    (hGC : motive "GeometryCollection" (geomCollCase o k pl))
    (hFC : motive "FeatureCollection" (featCollCase o k pl))
    (hF : motive "Feature" (featureCase o k pr))
    (hU : ty ∉ nineTypes → motive ty (.error .typeUnknown)) :
    motive ty (parseTyped o k pr pl ty) := by
  unfold parseTyped
  split
  · exact hPoint
  · exact hLine
  · exact hPoly
  · exact hMPoint
  · exact hMLine
  · exact hMPoly
  · exact hGC
  · exact hFC
  · exact hF
  · apply hU
    simp only [nineTypes, List.mem_cons, List.not_mem_nil, or_false, not_or]
    refine ⟨?_,?_,?_,?_,?_,?_,?_,?_,?_⟩ <;> assumption

theorem parse_succ_nonobj (o : POpts) (fuel : Nat) (v : JVal) (h : ∀ ms, v ≠ .obj ms) :
    parse o (fuel+1) v = .error .dataInvalid :=
  parse.eq_3 o v fuel (fun ms hv => h ms hv)

theorem parseList_nil (o : POpts) (n : Nat) : parseList o n [] = .ok [] := parseList.eq_1 o n

theorem parseList_cons (o : POpts) (n : Nat) (v : JVal) (vs : List JVal) :
    parseList o n (v :: vs) =
      match parse o n v with
      | .error e => .error e
      | .ok c =>
        match parseList o n vs with
        | .error e => .error e
        | .ok cs => .ok (c :: cs) := parseList.eq_2 o n v vs

/-! ### `List.mapM` in `Except` -/

/-- pointwise relation of two lists (core Lean has no `List.Forall₂`) -/
inductive Forall2 {α β : Type} (R : α → β → Prop) : List α → List β → Prop
  | nil : Forall2 R [] []
  | cons {a b as bs} : R a b → Forall2 R as bs → Forall2 R (a :: as) (b :: bs)

theorem mapM_except_nil {α β ε} (f : α → Except ε β) : ([] : List α).mapM f = .ok [] := by
  simp [pure, Except.pure]

theorem mapM_except_cons {α β ε} (f : α → Except ε β) (x : α) (xs : List α) :
    (x :: xs).mapM f =
      match f x with
      | .error e => .error e
      | .ok y =>
        match xs.mapM f with
        | .error e => .error e
        | .ok ys => .ok (y :: ys) := by
  rw [List.mapM_cons]
  cases f x with
  | error e => rfl
  | ok y =>
    cases xs.mapM f with
    | error e => rfl
    | ok ys => rfl

theorem mapM_except_ok {α β ε} (f : α → Except ε β) :
    ∀ (l : List α) (ys : List β), l.mapM f = .ok ys → Forall2 (fun x y => f x = .ok y) l ys
  | [], ys, h => by
    rw [mapM_except_nil] at h
    cases h
    exact .nil
  | x :: xs, ys, h => by
    rw [mapM_except_cons] at h
    cases hx : f x with
    | error e => rw [hx] at h; cases h
    | ok y =>
      rw [hx] at h
      cases hxs : xs.mapM f with
      | error e => rw [hxs] at h; cases h
      | ok ys' =>
        rw [hxs] at h
        cases h
        exact .cons hx (mapM_except_ok f xs ys' hxs)

theorem mapM_except_of_forall₂ {α β ε} (f : α → Except ε β) :
    ∀ (l : List α) (ys : List β), Forall2 (fun x y => f x = .ok y) l ys → l.mapM f = .ok ys
  | [], _, .nil => mapM_except_nil f
  | x :: xs, _, .cons hx hxs => by
    rw [mapM_except_cons, hx, mapM_except_of_forall₂ f xs _ hxs]

/-- an error of `mapM` is the error of one of the elements -/
theorem mapM_except_error {α β ε} (f : α → Except ε β) :
    ∀ (l : List α) (e : ε), l.mapM f = .error e → ∃ x ∈ l, f x = .error e
  | [], e, h => by rw [mapM_except_nil] at h; cases h
  | x :: xs, e, h => by
    rw [mapM_except_cons] at h
    cases hx : f x with
    | error e' =>
      rw [hx] at h
      cases h
      exact ⟨x, List.mem_cons_self, hx⟩
    | ok y =>
      rw [hx] at h
      cases hxs : xs.mapM f with
      | error e' =>
        rw [hxs] at h
        cases h
        obtain ⟨z, hz, hfz⟩ := mapM_except_error f xs e hxs
        exact ⟨z, List.mem_cons_of_mem _ hz, hfz⟩
      | ok ys' => rw [hxs] at h; cases h

/-- if every element succeeds, `mapM` succeeds -/
theorem mapM_except_total {α β ε} (f : α → Except ε β) :
    ∀ (l : List α), (∀ x ∈ l, ∃ y, f x = .ok y) → ∃ ys, l.mapM f = .ok ys
  | [], _ => ⟨[], mapM_except_nil f⟩
  | x :: xs, h => by
    obtain ⟨y, hy⟩ := h x List.mem_cons_self
    obtain ⟨ys, hys⟩ := mapM_except_total f xs (fun z hz => h z (List.mem_cons_of_mem _ hz))
    exact ⟨y :: ys, by rw [mapM_except_cons, hy, hys]⟩

/-- if some element fails, `mapM` fails -/
theorem mapM_except_fails {α β ε} (f : α → Except ε β) :
    ∀ (l : List α) (x : α), x ∈ l → (∃ e, f x = .error e) → ∃ e, l.mapM f = .error e
  | y :: ys, x, hx, ⟨e, he⟩ => by
    rw [mapM_except_cons]
    cases hy : f y with
    | error e' => exact ⟨e', rfl⟩
    | ok b =>
      rcases List.mem_cons.1 hx with rfl | hx'
      · rw [he] at hy; cases hy
      · obtain ⟨e', he'⟩ := mapM_except_fails f ys x hx' ⟨e, he⟩
        exact ⟨e', by rw [he']⟩

/-- `mapM` with pointwise equal functions -/
theorem mapM_except_congr {α β ε} (f g : α → Except ε β) (l : List α)
    (h : ∀ x ∈ l, f x = g x) : l.mapM f = l.mapM g := by
  induction l with
  | nil => rw [mapM_except_nil, mapM_except_nil]
  | cons x xs ih =>
    rw [mapM_except_cons, mapM_except_cons, h x List.mem_cons_self,
      ih (fun z hz => h z (List.mem_cons_of_mem _ hz))]

/-- the same for `parseList` -/
theorem parseList_ok (o : POpts) (n : Nat) :
    ∀ (l : List JVal) (ys : List Obj), parseList o n l = .ok ys →
      Forall2 (fun x y => parse o n x = .ok y) l ys
  | [], ys, h => by
    rw [parseList_nil] at h
    cases h
    exact .nil
  | x :: xs, ys, h => by
    rw [parseList_cons] at h
    cases hx : parse o n x with
    | error e => rw [hx] at h; cases h
    | ok y =>
      rw [hx] at h
      cases hxs : parseList o n xs with
      | error e => rw [hxs] at h; cases h
      | ok ys' =>
        rw [hxs] at h
        cases h
        exact .cons hx (parseList_ok o n xs ys' hxs)

theorem parseList_of_forall₂ (o : POpts) (n : Nat) :
    ∀ (l : List JVal) (ys : List Obj), Forall2 (fun x y => parse o n x = .ok y) l ys →
      parseList o n l = .ok ys
  | [], _, .nil => parseList_nil o n
  | x :: xs, _, .cons hx hxs => by
    rw [parseList_cons, hx, parseList_of_forall₂ o n xs _ hxs]

theorem parseList_error (o : POpts) (n : Nat) :
    ∀ (l : List JVal) (e : PErr), parseList o n l = .error e → ∃ x ∈ l, parse o n x = .error e
  | [], e, h => by rw [parseList_nil] at h; cases h
  | x :: xs, e, h => by
    rw [parseList_cons] at h
    cases hx : parse o n x with
    | error e' =>
      rw [hx] at h
      cases h
      exact ⟨x, List.mem_cons_self, hx⟩
    | ok y =>
      rw [hx] at h
      cases hxs : parseList o n xs with
      | error e' =>
        rw [hxs] at h
        cases h
        obtain ⟨z, hz, hfz⟩ := parseList_error o n xs e hxs
        exact ⟨z, List.mem_cons_of_mem _ hz, hfz⟩
      | ok ys' => rw [hxs] at h; cases h

theorem parseList_total (o : POpts) (n : Nat) :
    ∀ (l : List JVal), (∀ x ∈ l, ∃ y, parse o n x = .ok y) → ∃ ys, parseList o n l = .ok ys
  | [], _ => ⟨[], parseList_nil o n⟩
  | x :: xs, h => by
    obtain ⟨y, hy⟩ := h x List.mem_cons_self
    obtain ⟨ys, hys⟩ := parseList_total o n xs (fun z hz => h z (List.mem_cons_of_mem _ hz))
    exact ⟨y :: ys, by rw [parseList_cons, hy, hys]⟩

theorem parseList_fails (o : POpts) (n : Nat) :
    ∀ (l : List JVal) (x : JVal), x ∈ l → (∃ e, parse o n x = .error e) →
      ∃ e, parseList o n l = .error e
  | y :: ys, x, hx, ⟨e, he⟩ => by
    rw [parseList_cons]
    cases hy : parse o n y with
    | error e' => exact ⟨e', rfl⟩
    | ok b =>
      rcases List.mem_cons.1 hx with rfl | hx'
      · rw [he] at hy; cases hy
      · obtain ⟨e', he'⟩ := parseList_fails o n ys x hx' ⟨e, he⟩
        exact ⟨e', by rw [he']⟩

/-- `parseList` is `mapM (parse o n)` -/
theorem parseList_eq_mapM (o : POpts) (n : Nat) (l : List JVal) :
    parseList o n l = l.mapM (parse o n) := by
  induction l with
  | nil => rw [parseList_nil, mapM_except_nil]
  | cons x xs ih =>
    rw [parseList_cons, mapM_except_cons, ih]
    cases parse o n x with
    | error e => rfl
    | ok y => cases List.mapM (parse o n) xs <;> rfl

/-! ### nesting depth -/

theorem depth_le_depthL : ∀ (items : List JVal) (x : JVal), x ∈ items → x.depth ≤ JVal.depthL items
  | y :: ys, x, h => by
    rw [JVal.depthL]
    rcases List.mem_cons.1 h with rfl | h'
    · exact Nat.le_max_left _ _
    · exact Nat.le_trans (depth_le_depthL ys x h') (Nat.le_max_right _ _)

theorem depth_le_depthM : ∀ (ms : List (String × String × JVal)) (m : String × String × JVal),
    m ∈ ms → m.2.2.depth ≤ JVal.depthM ms
  | (a, b, y) :: ys, m, h => by
    rw [JVal.depthM]
    rcases List.mem_cons.1 h with rfl | h'
    · exact Nat.le_max_left _ _
    · exact Nat.le_trans (depth_le_depthM ys m h') (Nat.le_max_right _ _)

theorem depth_arr (items : List JVal) : (JVal.arr items).depth = 1 + JVal.depthL items := by
  rw [JVal.depth]

theorem depth_obj (ms : List (String × String × JVal)) : (JVal.obj ms).depth = 1 + JVal.depthM ms := by
  rw [JVal.depth]

end Geo

namespace Geo

/-! ### `scanKeys` -/

/-- one step of the member scan -/
def scanStep (k : Keys) (m : String × String × JVal) : Keys :=
  match m.2.1 with
  | "type" => { k with type := some m.2.2 }
  | "coordinates" => { k with coordinates := some m.2.2 }
  | "geometries" => { k with geometries := some m.2.2 }
  | "geometry" => { k with geometry := some m.2.2 }
  | "features" => { k with features := some m.2.2 }
  | _ => { k with foreign := k.foreign ++ [m] }

theorem scanKeys_eq_foldl (ms : List (String × String × JVal)) : scanKeys ms = ms.foldl scanStep {} := rfl

/-- every value stored in the key record satisfies `P` -/
structure Keys.AllIn (P : JVal → Prop) (k : Keys) : Prop where
  type : ∀ v, k.type = some v → P v
  coordinates : ∀ v, k.coordinates = some v → P v
  geometries : ∀ v, k.geometries = some v → P v
  geometry : ∀ v, k.geometry = some v → P v
  features : ∀ v, k.features = some v → P v
  foreign : ∀ m ∈ k.foreign, P m.2.2

theorem scanStep_allIn (P : JVal → Prop) (k : Keys) (m : String × String × JVal)
    (hk : k.AllIn P) (hm : P m.2.2) : (scanStep k m).AllIn P := by
  unfold scanStep
  split
  · exact ⟨fun v h => by cases h; exact hm, hk.coordinates, hk.geometries, hk.geometry, hk.features, hk.foreign⟩
  · exact ⟨hk.type, fun v h => by cases h; exact hm, hk.geometries, hk.geometry, hk.features, hk.foreign⟩
  · exact ⟨hk.type, hk.coordinates, fun v h => by cases h; exact hm, hk.geometry, hk.features, hk.foreign⟩
  · exact ⟨hk.type, hk.coordinates, hk.geometries, fun v h => by cases h; exact hm, hk.features, hk.foreign⟩
  · exact ⟨hk.type, hk.coordinates, hk.geometries, hk.geometry, fun v h => by cases h; exact hm, hk.foreign⟩
  · refine ⟨hk.type, hk.coordinates, hk.geometries, hk.geometry, hk.features, ?_⟩
    intro x hx
    rcases List.mem_append.1 hx with h | h
    · exact hk.foreign x h
    · rw [List.mem_singleton] at h
      rw [h]; exact hm

theorem foldl_scanStep_allIn (P : JVal → Prop) :
    ∀ (ms : List (String × String × JVal)) (k : Keys), k.AllIn P → (∀ m ∈ ms, P m.2.2) →
      (ms.foldl scanStep k).AllIn P
  | [], k, hk, _ => hk
  | m :: ms, k, hk, h => by
    rw [List.foldl_cons]
    exact foldl_scanStep_allIn P ms _ (scanStep_allIn P k m hk (h m List.mem_cons_self))
      (fun x hx => h x (List.mem_cons_of_mem _ hx))

theorem scanKeys_allIn (P : JVal → Prop) (ms : List (String × String × JVal))
    (h : ∀ m ∈ ms, P m.2.2) : (scanKeys ms).AllIn P := by
  rw [scanKeys_eq_foldl]
  refine foldl_scanStep_allIn P ms {} ⟨?_, ?_, ?_, ?_, ?_, ?_⟩ h
  all_goals intro v hv; cases hv

/-- every value found by `scanKeys` is nested strictly below the object -/
theorem scanKeys_depth (ms : List (String × String × JVal)) :
    (scanKeys ms).AllIn (fun v => v.depth ≤ JVal.depthM ms) :=
  scanKeys_allIn _ ms (fun m hm => depth_le_depthM ms m hm)

end Geo

namespace Geo

/-! ### the recursive calls only see the values found by `scanKeys` -/

theorem reqArray_ok {v : Option JVal} {a b : PErr} {x : JVal} (h : reqArray v a b = .ok x) :
    v = some x ∧ x.isArray = true := by
  unfold reqArray at h
  split at h
  · cases h
  · split at h
    · cases h; exact ⟨rfl, by assumption⟩
    · cases h

theorem isArray_iff {x : JVal} : x.isArray = true ↔ ∃ items, x = .arr items := by
  cases x <;> simp [JVal.isArray]

theorem featureCase_congr (o : POpts) (k : Keys) (pr pr' : JVal → Except PErr Obj)
    (hg : ∀ g, k.geometry = some g → pr g = pr' g) : featureCase o k pr = featureCase o k pr' := by
  unfold featureCase
  split
  · rfl
  · rename_i g hgeo
    rw [hg g hgeo]

theorem geomCollCase_congr (o : POpts) (k : Keys) (pl pl' : List JVal → Except PErr (List Obj))
    (h : ∀ items, k.geometries = some (.arr items) → pl items = pl' items) :
    geomCollCase o k pl = geomCollCase o k pl' := by
  unfold geomCollCase
  split
  · rfl
  · rename_i items hreq
    rw [h items (reqArray_ok hreq).1]
  · rfl

theorem featCollCase_congr (o : POpts) (k : Keys) (pl pl' : List JVal → Except PErr (List Obj))
    (h : ∀ items, k.features = some (.arr items) → pl items = pl' items) :
    featCollCase o k pl = featCollCase o k pl' := by
  unfold featCollCase
  split
  · rfl
  · rename_i items hreq
    rw [h items (reqArray_ok hreq).1]
  · rfl

theorem parseTyped_congr (o : POpts) (k : Keys) (pr pr' : JVal → Except PErr Obj)
    (pl pl' : List JVal → Except PErr (List Obj)) (ty : String)
    (hg : ∀ g, k.geometry = some g → pr g = pr' g)
    (hgs : ∀ items, k.geometries = some (.arr items) → pl items = pl' items)
    (hfs : ∀ items, k.features = some (.arr items) → pl items = pl' items) :
    parseTyped o k pr pl ty = parseTyped o k pr' pl' ty := by
  unfold parseTyped
  split
  any_goals rfl
  · exact geomCollCase_congr o k pl pl' hgs
  · exact featCollCase_congr o k pl pl' hfs
  · exact featureCase_congr o k pr pr' hg

/-- the fuel of `parse` does not matter once it exceeds the nesting depth -/
theorem parse_fuel_indep (o : POpts) :
    ∀ (n m : Nat) (v : JVal), v.depth < n → v.depth < m → parse o n v = parse o m v
  | 0, _, _, hn, _ => absurd hn (Nat.not_lt_zero _)
  | _+1, 0, _, _, hm => absurd hm (Nat.not_lt_zero _)
  | n+1, m+1, v, hn, hm => by
    cases v with
    | obj ms =>
      rw [parse_succ_obj, parse_succ_obj]
      have hd := scanKeys_depth ms
      rw [depth_obj] at hn hm
      have key : ∀ x : JVal, x.depth ≤ JVal.depthM ms → parse o n x = parse o m x :=
        fun x hx => parse_fuel_indep o n m x (by omega) (by omega)
      have keyL : ∀ items : List JVal, (JVal.arr items).depth ≤ JVal.depthM ms →
          parseList o n items = parseList o m items := by
        intro items hx
        rw [parseList_eq_mapM, parseList_eq_mapM]
        apply mapM_except_congr
        intro x hxm
        have := depth_le_depthL items x hxm
        rw [depth_arr] at hx
        exact parse_fuel_indep o n m x (by omega) (by omega)
      split
      · rfl
      · exact parseTyped_congr o _ _ _ _ _ _
          (fun g hg => key g (hd.geometry g hg))
          (fun items hi => keyL items (hd.geometries _ hi))
          (fun items hi => keyL items (hd.features _ hi))
      · rfl
    | null => rw [parse_succ_nonobj o n _ (by intro ms h; cases h), parse_succ_nonobj o m _ (by intro ms h; cases h)]
    | tru => rw [parse_succ_nonobj o n _ (by intro ms h; cases h), parse_succ_nonobj o m _ (by intro ms h; cases h)]
    | fls => rw [parse_succ_nonobj o n _ (by intro ms h; cases h), parse_succ_nonobj o m _ (by intro ms h; cases h)]
    | num => rw [parse_succ_nonobj o n _ (by intro ms h; cases h), parse_succ_nonobj o m _ (by intro ms h; cases h)]
    | str => rw [parse_succ_nonobj o n _ (by intro ms h; cases h), parse_succ_nonobj o m _ (by intro ms h; cases h)]
    | arr => rw [parse_succ_nonobj o n _ (by intro ms h; cases h), parse_succ_nonobj o m _ (by intro ms h; cases h)]

end Geo

namespace Geo

/-! ### `takeNums` -/

/-- one ordinate: a number, or `null` where allowed -/
def ordOf? (allowNull : Bool) : JVal → Option Ord
  | .num fin val canon _ _ => some ⟨fin, val, if fin then canon else "null"⟩
  | .null => if allowNull then some ⟨false, 0, "null"⟩ else none
  | _ => none

theorem takeNums_nil (b : Bool) (c : Nat) : takeNums b [] c = .ok [] := by rw [takeNums]

theorem takeNums_cons (b : Bool) (v : JVal) (vs : List JVal) (c : Nat) :
    takeNums b (v :: vs) c =
      if c == 4 then .ok []
      else match ordOf? b v with
        | none => .error .coordsInvalid
        | some o =>
          match takeNums b vs (c+1) with
          | .error e => .error e
          | .ok rest => .ok (o :: rest) := by
  cases v <;> simp only [takeNums, ordOf?] <;> split <;> try rfl
  all_goals try (cases takeNums b vs (c+1) <;> rfl)
  all_goals (cases b <;> simp <;> try (cases takeNums false vs (c+1) <;> rfl))
  all_goals try (cases takeNums true vs (c+1) <;> rfl)

/-- closed form of the up-to-four-numbers loop -/
theorem takeNums_spec (b : Bool) : ∀ (l : List JVal) (c : Nat), c ≤ 4 →
    takeNums b l c =
      if (l.take (4 - c)).all (fun x => (ordOf? b x).isSome) then
        .ok ((l.take (4 - c)).filterMap (ordOf? b))
      else .error .coordsInvalid
  | [], c, _ => by simp [takeNums_nil]
  | v :: vs, c, hc => by
    rw [takeNums_cons]
    by_cases h4 : c = 4
    · subst h4; simp
    · have hc' : c + 1 ≤ 4 := by omega
      have : 4 - c = (4 - (c+1)) + 1 := by omega
      rw [if_neg (by simpa using h4), takeNums_spec b vs (c+1) hc', this, List.take_succ_cons]
      cases hv : ordOf? b v with
      | none => simp [hv]
      | some ov =>
        simp only [List.all_cons, hv, Option.isSome_some, Bool.true_and, List.filterMap_cons]
        by_cases hall : ((List.take (4 - (c + 1)) vs).all fun x => (ordOf? b x).isSome) = true
        · rw [if_pos hall, if_pos hall]
        · rw [if_neg hall, if_neg hall]
end Geo

namespace Geo

/-! ### unfolding lemmas for the coordinate parsers (no `do` notation) -/

/-- first half of `dimStep`: the `extra` record is created by the first position only -/
def dimInit (st : DimSt) (nums : List Ord) (isFirst : Bool) : Except PErr DimSt :=
  match st.ex with
  | some _ => .ok st
  | none =>
    if nums.length > 2 then
      if !isFirst then .error .coordsInvalid
      else .ok ⟨some ⟨if nums.length > 3 then 2 else 1, [], "", false⟩, if nums.length > 3 then 2 else 1⟩
    else .ok st

/-- the extra ordinates of one position, `dims` of them, absent ones are "0" -/
def dimVals (dims : Nat) (nums : List Ord) : List String :=
  (List.range dims).map (fun i => match nums[2+i]? with | some o => o.canon | none => "0")

/-- second half of `dimStep` -/
def dimAppend (st : DimSt) (nums : List Ord) : DimSt :=
  match st.ex with
  | none => st
  | some e => { st with ex := some { e with values := e.values ++ dimVals st.dims nums } }

theorem dimStep_eq (st : DimSt) (nums : List Ord) (isFirst : Bool) :
    dimStep st nums isFirst =
      match dimInit st nums isFirst with
      | .error e => .error e
      | .ok st' => .ok (dimAppend st' nums) := by
  unfold dimStep dimInit dimAppend dimVals
  cases hst : st.ex with
  | some e => simp only [bind, Except.bind, pure, Except.pure, hst]; rfl
  | none =>
    simp only [bind, Except.bind, pure, Except.pure]
    by_cases h2 : nums.length > 2
    · simp only [if_pos h2]
      cases isFirst <;> simp only [Bool.not_false, Bool.not_true, if_true, Bool.false_eq_true, if_false] <;> rfl
    · simp only [if_neg h2, hst]

/-- one position of a line string or ring -/
def posStep (v : JVal) (st : DimSt) (isFirst : Bool) : Except PErr (Pos × DimSt) :=
  match takeNums false v.elems 0 with
  | .error e => .error e
  | .ok nums =>
    match nums with
    | x :: y :: _ =>
      match dimStep st nums isFirst with
      | .error e => .error e
      | .ok st' => .ok (mkPos x y, st')
    | _ => .error .coordsInvalid

theorem parsePointCoords_eq (rc : JVal) :
    parsePointCoords rc =
      match takeNums true rc.elems 0 with
      | .error e => .error e
      | .ok nums =>
        match nums with
        | x :: y :: rest =>
          .ok (mkPos x y, if rest.isEmpty then none else some ⟨rest.length, rest.map (·.canon), "", false⟩)
        | _ => .error .coordsInvalid := by
  unfold parsePointCoords
  cases takeNums true rc.elems 0 with
  | error e => rfl
  | ok nums =>
    simp only [bind, Except.bind]
    match nums with
    | [] => rfl
    | [_] => rfl
    | _ :: _ :: _ => rfl

theorem parseLineCoordsLoop_nil (acc : List Pos) (st : DimSt) :
    parseLineCoordsLoop [] acc st = .ok (acc, st) := by rw [parseLineCoordsLoop]

theorem parseLineCoordsLoop_cons (v : JVal) (vs : List JVal) (acc : List Pos) (st : DimSt) :
    parseLineCoordsLoop (v :: vs) acc st =
      if !v.isArray then .error .coordsInvalid
      else match posStep v st (acc.length == 0) with
        | .error e => .error e
        | .ok (p, st') => parseLineCoordsLoop vs (acc ++ [p]) st' := by
  rw [parseLineCoordsLoop]
  unfold posStep
  cases v.isArray with
  | false => rfl
  | true =>
    simp only [Bool.not_true, Bool.false_eq_true, if_false, bind, Except.bind]
    cases takeNums false v.elems 0 with
    | error e => rfl
    | ok nums =>
      match nums with
      | [] => rfl
      | [_] => rfl
      | x :: y :: r =>
        simp only [List.length_append, List.length_cons, List.length_nil, Nat.zero_add]
        have : (acc.length + 1 == 1) = (acc.length == 0) := by
          cases acc.length <;> simp
        rw [this]
        cases dimStep st (x :: y :: r) (acc.length == 0) <;> rfl

end Geo

namespace Geo

theorem parseRingLoop_nil (ri : Nat) (acc : List Pos) (st : DimSt) :
    parseRingLoop ri [] acc st = .ok (acc, st) := by rw [parseRingLoop]

theorem parseRingLoop_cons (ri : Nat) (v : JVal) (vs : List JVal) (acc : List Pos) (st : DimSt) :
    parseRingLoop ri (v :: vs) acc st =
      match posStep v st (ri == 0 && acc.length == 0) with
      | .error e => .error e
      | .ok (p, st') => parseRingLoop ri vs (acc ++ [p]) st' := by
  rw [parseRingLoop]
  unfold posStep
  simp only [bind, Except.bind]
  cases takeNums false v.elems 0 with
  | error e => rfl
  | ok nums =>
    match nums with
    | [] => rfl
    | [_] => rfl
    | x :: y :: r =>
      simp only [List.length_append, List.length_cons, List.length_nil, Nat.zero_add]
      have : (acc.length + 1 == 1) = (acc.length == 0) := by
        cases acc.length <;> simp
      rw [this]
      cases dimStep st (x :: y :: r) (ri == 0 && acc.length == 0) <;> rfl

theorem parsePolyCoordsLoop_nil (acc : List (List Pos)) (st : DimSt) :
    parsePolyCoordsLoop [] acc st = .ok (acc, st) := by rw [parsePolyCoordsLoop]

theorem parsePolyCoordsLoop_cons (v : JVal) (vs : List JVal) (acc : List (List Pos)) (st : DimSt) :
    parsePolyCoordsLoop (v :: vs) acc st =
      if !v.isArray then .error .coordsInvalid
      else match parseRingLoop acc.length v.elems [] st with
        | .error e => .error e
        | .ok (ring, st') => parsePolyCoordsLoop vs (acc ++ [ring]) st' := by
  rw [parsePolyCoordsLoop]
  cases v.isArray with
  | false => rfl
  | true =>
    simp only [Bool.not_true, Bool.false_eq_true, if_false, bind, Except.bind]
    cases parseRingLoop acc.length v.elems [] st <;> rfl

theorem parseLineCoords_eq (rc : JVal) :
    parseLineCoords rc =
      match parseLineCoordsLoop rc.elems [] {} with
      | .error e => .error e
      | .ok (ps, st) => .ok (ps, st.ex) := by
  unfold parseLineCoords
  cases parseLineCoordsLoop rc.elems [] {} <;> rfl

theorem parsePolyCoords_eq (rc : JVal) :
    parsePolyCoords rc =
      match parsePolyCoordsLoop rc.elems [] {} with
      | .error e => .error e
      | .ok (rings, st) => .ok (rings, st.ex) := by
  unfold parsePolyCoords
  cases parsePolyCoordsLoop rc.elems [] {} <;> rfl

theorem lineChild_eq (o : POpts) (v : JVal) :
    lineChild o v =
      match parseLineCoords v with
      | .error e => .error e
      | .ok (ps, ex) =>
        if ps.length < 2 then .error .coordsInvalid
        else .ok (Obj.lineString (mkLine o ps) ps ex) := by
  unfold lineChild
  cases parseLineCoords v with
  | error e => rfl
  | ok r =>
    obtain ⟨ps, ex⟩ := r
    simp only [bind, Except.bind]
    by_cases h : ps.length < 2
    · simp only [if_pos h]; rfl
    · simp only [if_neg h]; rfl

theorem polyChild_eq (o : POpts) (v : JVal) :
    polyChild o v =
      match parsePolyCoords v with
      | .error e => .error e
      | .ok (rings, ex) =>
        if rings.isEmpty || !(rings.all ringOK) then .error .coordsInvalid
        else .ok (Obj.polygon (mkPoly o rings) rings ex) := by
  unfold polyChild
  cases parsePolyCoords v with
  | error e => rfl
  | ok r =>
    obtain ⟨rings, ex⟩ := r
    simp only [bind, Except.bind]
    by_cases h : (rings.isEmpty || !(rings.all ringOK)) = true
    · simp only [if_pos h]; rfl
    · simp only [if_neg h]; rfl

end Geo

namespace Geo

/-! ### errors of the coordinate stage -/

theorem takeNums_error {b : Bool} {l : List JVal} {e : PErr} (h : takeNums b l 0 = .error e) :
    e = .coordsInvalid := by
  rw [takeNums_spec b l 0 (by omega)] at h
  split at h
  · cases h
  · cases h; rfl

theorem dimStep_error {st : DimSt} {nums : List Ord} {f : Bool} {e : PErr}
    (h : dimStep st nums f = .error e) : e = .coordsInvalid := by
  rw [dimStep_eq] at h
  cases hi : dimInit st nums f with
  | ok s => rw [hi] at h; cases h
  | error e' =>
    rw [hi] at h
    cases h
    unfold dimInit at hi
    split at hi
    · cases hi
    · split at hi
      · split at hi
        · cases hi; rfl
        · cases hi
      · cases hi

theorem posStep_error {v : JVal} {st : DimSt} {f : Bool} {e : PErr}
    (h : posStep v st f = .error e) : e = .coordsInvalid := by
  unfold posStep at h
  split at h
  · rename_i e' he
    cases h
    exact takeNums_error he
  · split at h
    · split at h
      · rename_i e' he
        cases h
        exact dimStep_error he
      · cases h
    · cases h; rfl

theorem parsePointCoords_error {v : JVal} {e : PErr} (h : parsePointCoords v = .error e) :
    e = .coordsInvalid := by
  rw [parsePointCoords_eq] at h
  split at h
  · rename_i e' he
    cases h
    exact takeNums_error he
  · split at h
    · cases h
    · cases h; rfl

theorem parseLineCoordsLoop_error : ∀ {l : List JVal} {acc : List Pos} {st : DimSt} {e : PErr},
    parseLineCoordsLoop l acc st = .error e → e = .coordsInvalid
  | [], acc, st, e, h => by rw [parseLineCoordsLoop_nil] at h; cases h
  | v :: vs, acc, st, e, h => by
    rw [parseLineCoordsLoop_cons] at h
    split at h
    · cases h; rfl
    · split at h
      · rename_i e' he
        cases h
        exact posStep_error he
      · exact parseLineCoordsLoop_error h

theorem parseRingLoop_error {ri : Nat} : ∀ {l : List JVal} {acc : List Pos} {st : DimSt} {e : PErr},
    parseRingLoop ri l acc st = .error e → e = .coordsInvalid
  | [], acc, st, e, h => by rw [parseRingLoop_nil] at h; cases h
  | v :: vs, acc, st, e, h => by
    rw [parseRingLoop_cons] at h
    split at h
    · rename_i e' he
      cases h
      exact posStep_error he
    · exact parseRingLoop_error h

theorem parsePolyCoordsLoop_error : ∀ {l : List JVal} {acc : List (List Pos)} {st : DimSt} {e : PErr},
    parsePolyCoordsLoop l acc st = .error e → e = .coordsInvalid
  | [], acc, st, e, h => by rw [parsePolyCoordsLoop_nil] at h; cases h
  | v :: vs, acc, st, e, h => by
    rw [parsePolyCoordsLoop_cons] at h
    split at h
    · cases h; rfl
    · split at h
      · rename_i e' he
        cases h
        exact parseRingLoop_error he
      · exact parsePolyCoordsLoop_error h

theorem parseLineCoords_error {v : JVal} {e : PErr} (h : parseLineCoords v = .error e) :
    e = .coordsInvalid := by
  rw [parseLineCoords_eq] at h
  split at h
  · rename_i e' he
    cases h
    exact parseLineCoordsLoop_error he
  · cases h

theorem parsePolyCoords_error {v : JVal} {e : PErr} (h : parsePolyCoords v = .error e) :
    e = .coordsInvalid := by
  rw [parsePolyCoords_eq] at h
  split at h
  · rename_i e' he
    cases h
    exact parsePolyCoordsLoop_error he
  · cases h

theorem lineChild_error {o : POpts} {v : JVal} {e : PErr} (h : lineChild o v = .error e) :
    e = .coordsInvalid := by
  rw [lineChild_eq] at h
  split at h
  · rename_i e' he
    cases h
    exact parseLineCoords_error he
  · split at h
    · cases h; rfl
    · cases h

theorem polyChild_error {o : POpts} {v : JVal} {e : PErr} (h : polyChild o v = .error e) :
    e = .coordsInvalid := by
  rw [polyChild_eq] at h
  split at h
  · rename_i e' he
    cases h
    exact parsePolyCoords_error he
  · split at h
    · cases h; rfl
    · cases h

theorem reqArray_error {v : Option JVal} {a b e : PErr} (h : reqArray v a b = .error e) :
    e = a ∨ e = b := by
  unfold reqArray at h
  split at h
  · cases h; exact .inl rfl
  · split at h
    · cases h
    · cases h; exact .inr rfl

/-- the six coordinate types never produce `.unmodelled` -/
theorem pointCase_not_unmodelled {o : POpts} {k : Keys} : pointCase o k ≠ .error .unmodelled := by
  intro h
  unfold pointCase at h
  split at h
  · cases h
  · split at h
    · cases h
    · split at h
      · rename_i e he
        cases h
        cases parsePointCoords_error he
      · simp only at h
        split at h <;> split at h <;> cases h

theorem lineCase_not_unmodelled {o : POpts} {k : Keys} : lineCase o k ≠ .error .unmodelled := by
  intro h
  unfold lineCase at h
  split at h
  · rename_i e he
    cases h
    rcases reqArray_error he with h | h <;> cases h
  · split at h
    · rename_i e he
      cases h
      cases parseLineCoords_error he
    · split at h
      · cases h
      · simp only at h
        split at h <;> cases h

theorem polyCase_not_unmodelled {o : POpts} {k : Keys} : polyCase o k ≠ .error .unmodelled := by
  intro h
  unfold polyCase at h
  split at h
  · rename_i e he
    cases h
    rcases reqArray_error he with h | h <;> cases h
  · split at h
    · rename_i e he
      cases h
      cases parsePolyCoords_error he
    · split at h
      · cases h
      · simp only at h
        split at h <;> cases h

theorem multiPointCase_not_unmodelled {o : POpts} {k : Keys} : multiPointCase o k ≠ .error .unmodelled := by
  intro h
  unfold multiPointCase at h
  split at h
  · rename_i e he
    cases h
    rcases reqArray_error he with h | h <;> cases h
  · split at h
    · rename_i e he
      cases h
      obtain ⟨x, _, hx⟩ := mapM_except_error _ _ _ he
      cases parsePointCoords_error hx
    · simp only at h
      split at h <;> cases h

theorem multiLineCase_not_unmodelled {o : POpts} {k : Keys} : multiLineCase o k ≠ .error .unmodelled := by
  intro h
  unfold multiLineCase at h
  split at h
  · rename_i e he
    cases h
    rcases reqArray_error he with h | h <;> cases h
  · split at h
    · rename_i e he
      cases h
      obtain ⟨x, _, hx⟩ := mapM_except_error _ _ _ he
      cases lineChild_error hx
    · simp only at h
      split at h <;> cases h

theorem multiPolyCase_not_unmodelled {o : POpts} {k : Keys} : multiPolyCase o k ≠ .error .unmodelled := by
  intro h
  unfold multiPolyCase at h
  split at h
  · rename_i e he
    cases h
    rcases reqArray_error he with h | h <;> cases h
  · split at h
    · rename_i e he
      cases h
      obtain ⟨x, _, hx⟩ := mapM_except_error _ _ _ he
      cases polyChild_error hx
    · simp only at h
      split at h <;> cases h

end Geo

namespace Geo

/-! ### the table of extra ordinates is complete -/

/-- `n` positions have been appended: the table holds `dims` values for each -/
def DimInv (st : DimSt) (n : Nat) : Prop :=
  match st.ex with
  | none => True
  | some e => e.dims = st.dims ∧ e.values.length = st.dims * n

/-- an `extra` record fit for `n` positions -/
def extraLenOK (ex : Option Extra) (n : Nat) : Prop :=
  match ex with
  | none => True
  | some e => e.values.length = e.dims * n

theorem dimVals_length (d : Nat) (nums : List Ord) : (dimVals d nums).length = d := by
  simp [dimVals]

theorem dimStep_inv {st st' : DimSt} {nums : List Ord} {f : Bool} {n : Nat}
    (h : dimStep st nums f = .ok st') (hinv : DimInv st n) (hf : f = true → n = 0) :
    DimInv st' (n+1) := by
  rw [dimStep_eq] at h
  cases hi : dimInit st nums f with
  | error e => rw [hi] at h; cases h
  | ok s =>
    rw [hi] at h
    cases h
    have hs : DimInv s n := by
      unfold dimInit at hi
      split at hi
      · cases hi; exact hinv
      · split at hi
        · split at hi
          · cases hi
          · rename_i hnf
            cases hi
            have : n = 0 := hf (by simpa using hnf)
            subst this
            simp [DimInv]
        · cases hi; exact hinv
    unfold DimInv at hs ⊢
    unfold dimAppend
    cases hex : s.ex with
    | none => simp [hex]
    | some e =>
      rw [hex] at hs
      simp only [List.length_append, dimVals_length, hs.1, hs.2, true_and]
      rw [Nat.mul_succ]

theorem posStep_inv {v : JVal} {st st' : DimSt} {f : Bool} {p : Pos} {n : Nat}
    (h : posStep v st f = .ok (p, st')) (hinv : DimInv st n) (hf : f = true → n = 0) :
    DimInv st' (n+1) := by
  unfold posStep at h
  split at h
  · cases h
  · split at h
    · split at h
      · cases h
      · rename_i s hs
        cases h
        exact dimStep_inv hs hinv hf
    · cases h

theorem parseLineCoordsLoop_inv : ∀ {l : List JVal} {acc ps : List Pos} {st st' : DimSt},
    parseLineCoordsLoop l acc st = .ok (ps, st') → DimInv st acc.length → DimInv st' ps.length
  | [], acc, ps, st, st', h, hinv => by
    rw [parseLineCoordsLoop_nil] at h; cases h; exact hinv
  | v :: vs, acc, ps, st, st', h, hinv => by
    rw [parseLineCoordsLoop_cons] at h
    split at h
    · cases h
    · split at h
      · cases h
      · rename_i p s hs
        refine parseLineCoordsLoop_inv h ?_
        rw [List.length_append]
        exact posStep_inv hs hinv (by simp)

/-- `base` positions were appended by earlier rings (none if this is ring 0) -/
theorem parseRingLoop_inv {ri base : Nat} (hb : ri = 0 → base = 0) :
    ∀ {l : List JVal} {acc ps : List Pos} {st st' : DimSt},
    parseRingLoop ri l acc st = .ok (ps, st') → DimInv st (base + acc.length) →
      DimInv st' (base + ps.length)
  | [], acc, ps, st, st', h, hinv => by
    rw [parseRingLoop_nil] at h; cases h; exact hinv
  | v :: vs, acc, ps, st, st', h, hinv => by
    rw [parseRingLoop_cons] at h
    split at h
    · cases h
    · rename_i p s hs
      refine parseRingLoop_inv hb h ?_
      rw [List.length_append]
      refine posStep_inv hs hinv ?_
      intro hf
      simp only [Bool.and_eq_true, beq_iff_eq] at hf
      rw [hb hf.1, hf.2]

/-- total number of positions -/
def totalLen (rings : List (List Pos)) : Nat := (rings.map List.length).sum

theorem totalLen_append (a : List (List Pos)) (r : List Pos) : totalLen (a ++ [r]) = totalLen a + r.length := by
  simp [totalLen]

theorem parsePolyCoordsLoop_inv : ∀ {l : List JVal} {acc rings : List (List Pos)} {st st' : DimSt},
    parsePolyCoordsLoop l acc st = .ok (rings, st') → DimInv st (totalLen acc) → DimInv st' (totalLen rings)
  | [], acc, rings, st, st', h, hinv => by
    rw [parsePolyCoordsLoop_nil] at h; cases h; exact hinv
  | v :: vs, acc, rings, st, st', h, hinv => by
    rw [parsePolyCoordsLoop_cons] at h
    split at h
    · cases h
    · split at h
      · cases h
      · rename_i ring s hs
        refine parsePolyCoordsLoop_inv h ?_
        rw [totalLen_append]
        refine parseRingLoop_inv (base := totalLen acc) ?_ hs hinv
        intro h0
        rw [List.length_eq_zero_iff] at h0
        rw [h0]; rfl

theorem DimInv.extraLenOK {st : DimSt} {n : Nat} (h : DimInv st n) : extraLenOK st.ex n := by
  unfold DimInv at h
  unfold Geo.extraLenOK
  cases hex : st.ex with
  | none => trivial
  | some e => rw [hex] at h; simp only; rw [h.2, h.1]

theorem DimInv_init (n : Nat) : DimInv {} n := by simp [DimInv]

theorem parseLineCoords_extra {v : JVal} {ps : List Pos} {ex : Option Extra}
    (h : parseLineCoords v = .ok (ps, ex)) : extraLenOK ex ps.length := by
  rw [parseLineCoords_eq] at h
  split at h
  · cases h
  · rename_i ps' st hs
    cases h
    exact (parseLineCoordsLoop_inv hs (DimInv_init _)).extraLenOK

theorem parsePolyCoords_extra {v : JVal} {rings : List (List Pos)} {ex : Option Extra}
    (h : parsePolyCoords v = .ok (rings, ex)) : extraLenOK ex (totalLen rings) := by
  rw [parsePolyCoords_eq] at h
  split at h
  · cases h
  · rename_i rings' st hs
    cases h
    exact (parsePolyCoordsLoop_inv hs (DimInv_init _)).extraLenOK

theorem parsePointCoords_extra {v : JVal} {p : Pos} {ex : Option Extra}
    (h : parsePointCoords v = .ok (p, ex)) : extraLenOK ex 1 := by
  rw [parsePointCoords_eq] at h
  split at h
  · cases h
  · split at h
    · cases h
      unfold extraLenOK
      split
      · trivial
      · rename_i e he
        split at he
        · cases he
        · cases he; simp
    · cases h

theorem withMembers_extraLenOK {ex : Option Extra} {k : Keys} {n : Nat} (h : extraLenOK ex n) :
    extraLenOK (withMembers ex k) n := by
  unfold withMembers
  split
  · exact h
  · cases ex with
    | none => simp [extraLenOK]
    | some e => exact h

end Geo

namespace Geo

theorem Forall2.right {α β : Type} {R : α → β → Prop} {P : β → Prop} {l : List α} {ys : List β}
    (h : Forall2 R l ys) (hp : ∀ x y, x ∈ l → R x y → P y) : ∀ y ∈ ys, P y := by
  induction h with
  | nil => intro y hy; cases hy
  | cons hr _ ih =>
    intro y hy
    rcases List.mem_cons.1 hy with rfl | hy'
    · exact hp _ _ List.mem_cons_self hr
    · exact ih (fun x y hx => hp x y (List.mem_cons_of_mem _ hx)) y hy'

theorem polyObj_cases (o : POpts) (rings : List (List Pos)) (ex : Option Extra) :
    polyObj o rings ex = .polygon (mkPoly o rings) rings ex ∨
      ∃ p0 p1 p2 p3 p4, rings = [[p0, p1, p2, p3, p4]] ∧ ex = none ∧ o.allowRects = true ∧
        isRectRing [p0, p1, p2, p3, p4] = true ∧ polyObj o rings ex = .rectO ⟨p0.p, p2.p⟩ p0 p2 := by
  unfold polyObj
  split
  · split
    · rename_i hc
      split
      · right
        simp only [Bool.and_eq_true, Option.isNone_iff_eq_none] at hc
        exact ⟨_, _, _, _, _, rfl, hc.1.1, hc.1.2, hc.2, rfl⟩
      · left; rfl
    · left; rfl
  · left; rfl

end Geo

namespace Geo

/-! ### what the coordinate parsers return -/

/-- the ordinate read from one JSON value (`null` reads as NaN) -/
def ordOfNum : JVal → Ord
  | .num fin val canon _ _ => ⟨fin, val, if fin then canon else "null"⟩
  | _ => ⟨false, 0, "null"⟩

theorem ordOf?_eq_some {b : Bool} {x : JVal} {o : Ord} (h : ordOf? b x = some o) : o = ordOfNum x := by
  cases x <;> simp [ordOf?] at h <;> simp [ordOfNum, ← h]

theorem filterMap_ordOf? (b : Bool) : ∀ (l : List JVal), l.all (fun x => (ordOf? b x).isSome) = true →
    l.filterMap (ordOf? b) = l.map ordOfNum
  | [], _ => rfl
  | x :: xs, h => by
    simp only [List.all_cons, Bool.and_eq_true] at h
    cases hx : ordOf? b x with
    | none => rw [hx] at h; cases h.1
    | some o =>
      rw [List.filterMap_cons, hx, List.map_cons, ← ordOf?_eq_some hx, filterMap_ordOf? b xs h.2]

/-- a successful `takeNums` read the first (up to) four values, all acceptable -/
theorem takeNums_ok {b : Bool} {l : List JVal} {nums : List Ord} (h : takeNums b l 0 = .ok nums) :
    (l.take 4).all (fun x => (ordOf? b x).isSome) = true ∧ nums = (l.take 4).map ordOfNum := by
  rw [takeNums_spec b l 0 (by omega)] at h
  split at h
  · rename_i hall
    cases h
    exact ⟨hall, filterMap_ordOf? b _ hall⟩
  · cases h

theorem takeNums_of_all {b : Bool} {l : List JVal}
    (h : (l.take 4).all (fun x => (ordOf? b x).isSome) = true) :
    takeNums b l 0 = .ok ((l.take 4).map ordOfNum) := by
  rw [takeNums_spec b l 0 (by omega), if_pos h, filterMap_ordOf? b _ h]

theorem takeNums_fails {b : Bool} {l : List JVal}
    (h : (l.take 4).all (fun x => (ordOf? b x).isSome) = false) :
    takeNums b l 0 = .error .coordsInvalid := by
  rw [takeNums_spec b l 0 (by omega), if_neg (by simp [h])]

/-- the position read from one JSON value: the first two of its (up to four) ordinates -/
def posOfJ (p : JVal) : Pos :=
  match (p.elems.take 4).map ordOfNum with
  | x :: y :: _ => mkPos x y
  | _ => default

theorem posStep_pos {p : JVal} {st st' : DimSt} {f : Bool} {pos : Pos}
    (h : posStep p st f = .ok (pos, st')) : pos = posOfJ p := by
  unfold posStep at h
  split at h
  · cases h
  · rename_i nums hn
    have := (takeNums_ok hn).2
    split at h
    · split at h
      · cases h
      · cases h
        unfold posOfJ
        rw [← this]
    · cases h

theorem parsePointCoords_pos {p : JVal} {ex : Option Extra} {pos : Pos}
    (h : parsePointCoords p = .ok (pos, ex)) : pos = posOfJ p := by
  rw [parsePointCoords_eq] at h
  split at h
  · cases h
  · rename_i nums hn
    have := (takeNums_ok hn).2
    split at h
    · cases h
      unfold posOfJ
      rw [← this]
    · cases h

theorem parseLineCoordsLoop_pos : ∀ {l : List JVal} {acc ps : List Pos} {st st' : DimSt},
    parseLineCoordsLoop l acc st = .ok (ps, st') → ps = acc ++ l.map posOfJ
  | [], acc, ps, st, st', h => by
    rw [parseLineCoordsLoop_nil] at h; cases h; simp
  | v :: vs, acc, ps, st, st', h => by
    rw [parseLineCoordsLoop_cons] at h
    split at h
    · cases h
    · split at h
      · cases h
      · rename_i p s hs
        rw [parseLineCoordsLoop_pos h, posStep_pos hs]
        simp

theorem parseRingLoop_pos {ri : Nat} : ∀ {l : List JVal} {acc ps : List Pos} {st st' : DimSt},
    parseRingLoop ri l acc st = .ok (ps, st') → ps = acc ++ l.map posOfJ
  | [], acc, ps, st, st', h => by
    rw [parseRingLoop_nil] at h; cases h; simp
  | v :: vs, acc, ps, st, st', h => by
    rw [parseRingLoop_cons] at h
    split at h
    · cases h
    · rename_i p s hs
      rw [parseRingLoop_pos h, posStep_pos hs]
      simp

/-- the positions of one ring -/
def ringOfJ (r : JVal) : List Pos := r.elems.map posOfJ

theorem parsePolyCoordsLoop_pos : ∀ {l : List JVal} {acc rings : List (List Pos)} {st st' : DimSt},
    parsePolyCoordsLoop l acc st = .ok (rings, st') → rings = acc ++ l.map ringOfJ
  | [], acc, ps, st, st', h => by
    rw [parsePolyCoordsLoop_nil] at h; cases h; simp
  | v :: vs, acc, ps, st, st', h => by
    rw [parsePolyCoordsLoop_cons] at h
    split at h
    · cases h
    · split at h
      · cases h
      · rename_i ring s hs
        rw [parsePolyCoordsLoop_pos h, parseRingLoop_pos hs]
        simp [ringOfJ]

theorem parseLineCoords_pos {v : JVal} {ps : List Pos} {ex : Option Extra}
    (h : parseLineCoords v = .ok (ps, ex)) : ps = v.elems.map posOfJ := by
  rw [parseLineCoords_eq] at h
  split at h
  · cases h
  · rename_i ps' st hs
    cases h
    simpa using parseLineCoordsLoop_pos hs

theorem parsePolyCoords_pos {v : JVal} {rings : List (List Pos)} {ex : Option Extra}
    (h : parsePolyCoords v = .ok (rings, ex)) : rings = v.elems.map ringOfJ := by
  rw [parsePolyCoords_eq] at h
  split at h
  · cases h
  · rename_i ps' st hs
    cases h
    simpa using parsePolyCoordsLoop_pos hs

/-- every element of a successfully parsed line string is an array -/
theorem parseLineCoordsLoop_isArray : ∀ {l : List JVal} {acc ps : List Pos} {st st' : DimSt},
    parseLineCoordsLoop l acc st = .ok (ps, st') → ∀ v ∈ l, v.isArray = true
  | [], _, _, _, _, _ => by intro v hv; cases hv
  | v :: vs, acc, ps, st, st', h => by
    rw [parseLineCoordsLoop_cons] at h
    split at h
    · cases h
    · rename_i harr
      split at h
      · cases h
      · intro w hw
        rcases List.mem_cons.1 hw with rfl | hw'
        · simpa using harr
        · exact parseLineCoordsLoop_isArray h w hw'

end Geo

namespace Geo

/-! ### structural defects of coordinates, and: accepted ⇒ no defect -/

/-- an acceptable ordinate: a number, or `null` where allowed (Point / MultiPoint) -/
def okOrd (allowNull : Bool) : JVal → Bool
  | .num _ _ _ _ _ => true
  | .null => allowNull
  | _ => false

theorem okOrd_eq (b : Bool) (x : JVal) : okOrd b x = (ordOf? b x).isSome := by
  cases x <;> simp [okOrd, ordOf?]
  cases b <;> simp

/-- x,y of a position as written in the document: the `val` fields of its first two numbers -/
def posXY (p : JVal) : Option (Rat × Rat) :=
  match p.elems with
  | .num _ x _ _ _ :: .num _ y _ _ _ :: _ => some (x, y)
  | _ => none

/-- a position with fewer than two ordinates, or a non-numeric value among its first four.
    For a JSON array `p`, `p.elems` are its elements. (For a JSON object in place of a position
    gjson iterates the member VALUES, finding D12: `{"a":1,"b":2}` is no defect here, and is
    accepted.) -/
def badPos (allowNull : Bool) (p : JVal) : Bool :=
  decide (p.elems.length < 2) || (p.elems.take 4).any (fun x => !okOrd allowNull x)

/-- a line with fewer than two positions, or with a bad position -/
def badLine (l : JVal) : Bool :=
  decide (l.elems.length < 2) || l.elems.any (badPos false)

/-- first and last position of a ring differ in x or y -/
def notClosed (r : JVal) : Bool :=
  match r.elems.head?, r.elems.getLast? with
  | some a, some b =>
    (match posXY a, posXY b with
     | some u, some w => u != w
     | _, _ => false)
  | _, _ => false

/-- a ring with fewer than four positions, with a bad position, or not closed -/
def badRing (r : JVal) : Bool :=
  decide (r.elems.length < 4) || r.elems.any (badPos false) || notClosed r

/-- a polygon with no ring, or with a bad ring -/
def badPoly (pg : JVal) : Bool :=
  pg.elems.isEmpty || pg.elems.any badRing

theorem takeNums_good {b : Bool} {p : JVal} {x y : Ord} {rest : List Ord}
    (h : takeNums b p.elems 0 = .ok (x :: y :: rest)) : badPos b p = false := by
  obtain ⟨hall, hn⟩ := takeNums_ok h
  unfold badPos
  have hlen : 2 ≤ p.elems.length := by
    have := congrArg List.length hn
    simp only [List.length_cons, List.length_map, List.length_take] at this
    omega
  rw [Bool.or_eq_false_iff]
  refine ⟨by simpa using hlen, ?_⟩
  rw [List.any_eq_false]
  intro z hz
  rw [List.all_eq_true] at hall
  have := hall z hz
  rw [← okOrd_eq] at this
  simp [this]

theorem posStep_good {p : JVal} {st st' : DimSt} {f : Bool} {pos : Pos}
    (h : posStep p st f = .ok (pos, st')) : badPos false p = false := by
  unfold posStep at h
  split at h
  · cases h
  · rename_i nums hn
    split at h
    · exact takeNums_good hn
    · cases h

theorem parsePointCoords_good {p : JVal} {r : Pos × Option Extra}
    (h : parsePointCoords p = .ok r) : badPos true p = false := by
  rw [parsePointCoords_eq] at h
  split at h
  · cases h
  · rename_i nums hn
    split at h
    · exact takeNums_good hn
    · cases h

theorem parseLineCoordsLoop_good : ∀ {l : List JVal} {acc ps : List Pos} {st st' : DimSt},
    parseLineCoordsLoop l acc st = .ok (ps, st') → ∀ v ∈ l, badPos false v = false
  | [], _, _, _, _, _ => by intro v hv; cases hv
  | v :: vs, acc, ps, st, st', h => by
    rw [parseLineCoordsLoop_cons] at h
    split at h
    · cases h
    · split at h
      · cases h
      · rename_i p s hs
        intro w hw
        rcases List.mem_cons.1 hw with rfl | hw'
        · exact posStep_good hs
        · exact parseLineCoordsLoop_good h w hw'

theorem parseRingLoop_good {ri : Nat} : ∀ {l : List JVal} {acc ps : List Pos} {st st' : DimSt},
    parseRingLoop ri l acc st = .ok (ps, st') → ∀ v ∈ l, badPos false v = false
  | [], _, _, _, _, _ => by intro v hv; cases hv
  | v :: vs, acc, ps, st, st', h => by
    rw [parseRingLoop_cons] at h
    split at h
    · cases h
    · rename_i p s hs
      intro w hw
      rcases List.mem_cons.1 hw with rfl | hw'
      · exact posStep_good hs
      · exact parseRingLoop_good h w hw'

theorem parsePolyCoordsLoop_good : ∀ {l : List JVal} {acc rings : List (List Pos)} {st st' : DimSt},
    parsePolyCoordsLoop l acc st = .ok (rings, st') → ∀ r ∈ l, ∀ v ∈ r.elems, badPos false v = false
  | [], _, _, _, _, _ => by intro v hv; cases hv
  | v :: vs, acc, ps, st, st', h => by
    rw [parsePolyCoordsLoop_cons] at h
    split at h
    · cases h
    · split at h
      · cases h
      · rename_i ring s hs
        intro w hw
        rcases List.mem_cons.1 hw with rfl | hw'
        · exact parseRingLoop_good hs
        · exact parsePolyCoordsLoop_good h w hw'

theorem posXY_posOfJ {p : JVal} {u : Rat × Rat} (h : posXY p = some u) : (posOfJ p).p = ⟨u.1, u.2⟩ := by
  unfold posXY at h
  unfold posOfJ
  split at h
  · rename_i heq
    cases h
    rw [heq]
    simp [ordOfNum, mkPos]
  · cases h

theorem ringOK_closed {r : JVal} (h : ringOK (ringOfJ r) = true) : notClosed r = false := by
  unfold ringOK at h
  unfold notClosed
  simp only [ringOfJ, List.head?_map, List.getLast?_map, Bool.and_eq_true] at h
  cases hh : r.elems.head? with
  | none => rfl
  | some a =>
    cases hl : r.elems.getLast? with
    | none => rfl
    | some b =>
      rw [hh, hl] at h
      simp only [Option.map_some, Bool.and_eq_true, beq_iff_eq] at h
      simp only
      cases ha : posXY a with
      | none => rfl
      | some u =>
        cases hb : posXY b with
        | none => rfl
        | some w =>
          simp only
          have h1 := posXY_posOfJ ha
          have h2 := posXY_posOfJ hb
          have h3 := h.2.2
          rw [h1, h2] at h3
          simp only [Pt.mk.injEq] at h3
          have : u = w := Prod.ext h3.1 h3.2
          simp [this]

theorem parseLineCoords_good {c : JVal} {ps : List Pos} {ex : Option Extra}
    (h : parseLineCoords c = .ok (ps, ex)) (hlen : ¬ ps.length < 2) : badLine c = false := by
  have hps := parseLineCoords_pos h
  rw [parseLineCoords_eq] at h
  split at h
  · cases h
  · rename_i ps' st hs
    cases h
    have hg := parseLineCoordsLoop_good hs
    unfold badLine
    rw [Bool.or_eq_false_iff]
    refine ⟨?_, ?_⟩
    · rw [hps, List.length_map] at hlen
      simpa using hlen
    · rw [List.any_eq_false]
      intro v hv
      simp [hg v hv]

theorem parsePolyCoords_good {c : JVal} {rings : List (List Pos)} {ex : Option Extra}
    (h : parsePolyCoords c = .ok (rings, ex)) (hok : ¬ (rings.isEmpty || !(rings.all ringOK)) = true) :
    badPoly c = false := by
  have hps := parsePolyCoords_pos h
  rw [parsePolyCoords_eq] at h
  split at h
  · cases h
  · rename_i ps' st hs
    cases h
    have hg := parsePolyCoordsLoop_good hs
    simp only [Bool.or_eq_true, Bool.not_eq_true', not_or, Bool.not_eq_true, Bool.not_eq_false] at hok
    unfold badPoly
    rw [Bool.or_eq_false_iff]
    refine ⟨?_, ?_⟩
    · have := hok.1
      rw [hps] at this
      simpa using this
    · rw [List.any_eq_false]
      intro r hr
      have hrok : ringOK (ringOfJ r) = true := by
        have := hok.2
        rw [hps, List.all_eq_true] at this
        exact this _ (List.mem_map_of_mem hr)
      unfold badRing
      simp only [Bool.not_eq_true, Bool.or_eq_false_iff]
      refine ⟨⟨?_, ?_⟩, ringOK_closed hrok⟩
      · unfold ringOK at hrok
        simp only [Bool.and_eq_true, decide_eq_true_eq] at hrok
        have := hrok.1
        simp only [ringOfJ, List.length_map] at this
        simpa using this
      · rw [List.any_eq_false]
        intro v hv
        simp [hg r hr v hv]

end Geo

namespace Geo

theorem Forall2.left {α β : Type} {R : α → β → Prop} {l : List α} {ys : List β}
    (h : Forall2 R l ys) : ∀ x ∈ l, ∃ y, y ∈ ys ∧ R x y := by
  induction h with
  | nil => intro x hx; cases hx
  | cons hr _ ih =>
    intro x hx
    rcases List.mem_cons.1 hx with rfl | hx'
    · exact ⟨_, List.mem_cons_self, hr⟩
    · obtain ⟨y, hy, hxy⟩ := ih x hx'
      exact ⟨y, List.mem_cons_of_mem _ hy, hxy⟩

theorem Forall2.length_eq {α β : Type} {R : α → β → Prop} {l : List α} {ys : List β}
    (h : Forall2 R l ys) : l.length = ys.length := by
  induction h with
  | nil => rfl
  | cons _ _ ih => simp [ih]

/-! ### accepted ⇒ the required member is present, an array, and free of defects -/

theorem pointCase_ok {o : POpts} {k : Keys} {x : Obj} (h : pointCase o k = .ok x) :
    ∃ c, k.coordinates = some c ∧ c.isArray = true ∧ badPos true c = false := by
  unfold pointCase at h
  split at h
  · cases h
  · rename_i c hc
    split at h
    · cases h
    · rename_i harr
      split at h
      · cases h
      · rename_i pos ex hp
        exact ⟨c, hc, by simpa using harr, parsePointCoords_good hp⟩

theorem lineCase_ok {o : POpts} {k : Keys} {x : Obj} (h : lineCase o k = .ok x) :
    ∃ c, k.coordinates = some c ∧ c.isArray = true ∧ badLine c = false := by
  unfold lineCase at h
  split at h
  · cases h
  · rename_i c hc
    split at h
    · cases h
    · rename_i ps ex hp
      split at h
      · cases h
      · rename_i hlen
        exact ⟨c, (reqArray_ok hc).1, (reqArray_ok hc).2, parseLineCoords_good hp hlen⟩

theorem polyCase_ok {o : POpts} {k : Keys} {x : Obj} (h : polyCase o k = .ok x) :
    ∃ c, k.coordinates = some c ∧ c.isArray = true ∧ badPoly c = false := by
  unfold polyCase at h
  split at h
  · cases h
  · rename_i c hc
    split at h
    · cases h
    · rename_i rings ex hp
      split at h
      · cases h
      · rename_i hok
        exact ⟨c, (reqArray_ok hc).1, (reqArray_ok hc).2, parsePolyCoords_good hp hok⟩

theorem multiPointCase_ok {o : POpts} {k : Keys} {x : Obj} (h : multiPointCase o k = .ok x) :
    ∃ c, k.coordinates = some c ∧ c.isArray = true ∧ ∀ p ∈ c.elems, badPos true p = false := by
  unfold multiPointCase at h
  split at h
  · cases h
  · rename_i c hc
    split at h
    · cases h
    · rename_i cs hcs
      refine ⟨c, (reqArray_ok hc).1, (reqArray_ok hc).2, ?_⟩
      intro p hp
      obtain ⟨y, _, hy⟩ := (mapM_except_ok _ _ _ hcs).left p hp
      exact parsePointCoords_good hy

theorem lineChild_good {o : POpts} {v : JVal} {x : Obj} (h : lineChild o v = .ok x) :
    badLine v = false := by
  rw [lineChild_eq] at h
  split at h
  · cases h
  · rename_i ps ex hp
    split at h
    · cases h
    · rename_i hlen
      exact parseLineCoords_good hp hlen

theorem polyChild_good {o : POpts} {v : JVal} {x : Obj} (h : polyChild o v = .ok x) :
    badPoly v = false := by
  rw [polyChild_eq] at h
  split at h
  · cases h
  · rename_i rings ex hp
    split at h
    · cases h
    · rename_i hok
      exact parsePolyCoords_good hp hok

theorem multiLineCase_ok {o : POpts} {k : Keys} {x : Obj} (h : multiLineCase o k = .ok x) :
    ∃ c, k.coordinates = some c ∧ c.isArray = true ∧ ∀ l ∈ c.elems, badLine l = false := by
  unfold multiLineCase at h
  split at h
  · cases h
  · rename_i c hc
    split at h
    · cases h
    · rename_i cs hcs
      refine ⟨c, (reqArray_ok hc).1, (reqArray_ok hc).2, ?_⟩
      intro p hp
      obtain ⟨y, _, hy⟩ := (mapM_except_ok _ _ _ hcs).left p hp
      exact lineChild_good hy

theorem multiPolyCase_ok {o : POpts} {k : Keys} {x : Obj} (h : multiPolyCase o k = .ok x) :
    ∃ c, k.coordinates = some c ∧ c.isArray = true ∧ ∀ pg ∈ c.elems, badPoly pg = false := by
  unfold multiPolyCase at h
  split at h
  · cases h
  · rename_i c hc
    split at h
    · cases h
    · rename_i cs hcs
      refine ⟨c, (reqArray_ok hc).1, (reqArray_ok hc).2, ?_⟩
      intro p hp
      obtain ⟨y, _, hy⟩ := (mapM_except_ok _ _ _ hcs).left p hp
      exact polyChild_good hy

theorem geomCollCase_ok {o : POpts} {k : Keys} {pl : List JVal → Except PErr (List Obj)} {x : Obj}
    (h : geomCollCase o k pl = .ok x) :
    ∃ items cs, k.geometries = some (.arr items) ∧ pl items = .ok cs ∧
      x = mkColl o .geometryCollection cs (withMembers none k) := by
  unfold geomCollCase at h
  split at h
  · cases h
  · rename_i items hc
    split at h
    · cases h
    · rename_i cs hcs
      cases h
      exact ⟨items, cs, (reqArray_ok hc).1, hcs, rfl⟩
  · cases h

theorem featCollCase_ok {o : POpts} {k : Keys} {pl : List JVal → Except PErr (List Obj)} {x : Obj}
    (h : featCollCase o k pl = .ok x) :
    ∃ items cs, k.features = some (.arr items) ∧ pl items = .ok cs ∧
      x = mkColl o .featureCollection cs (withMembers none k) := by
  unfold featCollCase at h
  split at h
  · cases h
  · rename_i items hc
    split at h
    · cases h
    · rename_i cs hcs
      cases h
      exact ⟨items, cs, (reqArray_ok hc).1, hcs, rfl⟩
  · cases h

theorem featureCase_ok {o : POpts} {k : Keys} {pr : JVal → Except PErr Obj} {x : Obj}
    (h : featureCase o k pr = .ok x) :
    ∃ g base, k.geometry = some g ∧ pr g = .ok base ∧ featureObj o k base = .ok x := by
  unfold featureCase at h
  split at h
  · cases h
  · rename_i g hg
    split at h
    · cases h
    · rename_i base hb
      exact ⟨g, base, hg, hb, h⟩

/-- a result that is not `ok` is an error -/
theorem error_of_not_ok {α : Type} {r : Except PErr α} (h : ∀ x, r ≠ .ok x) : ∃ e, r = .error e := by
  cases r with
  | error e => exact ⟨e, rfl⟩
  | ok x => exact absurd rfl (h x)

end Geo

namespace Geo

/-! ### well-formed coordinates are accepted -/

def isFinNum : JVal → Bool
  | .num fin _ _ _ _ => fin
  | _ => false

/-- a position: an array of two to four (finite) numbers -/
def wfPos : JVal → Bool
  | .arr items => decide (2 ≤ items.length) && decide (items.length ≤ 4) && items.all isFinNum
  | _ => false

/-- a line string: an array of at least two positions -/
def wfLine : JVal → Bool
  | .arr ps => decide (2 ≤ ps.length) && ps.all wfPos
  | _ => false

/-- first position equal to last (x and y as written) -/
def closedRing (ps : List JVal) : Bool :=
  match ps.head?, ps.getLast? with
  | some a, some b => posXY a == posXY b
  | _, _ => false

/-- a polygon ring: an array of at least four positions, first equal to last -/
def wfRing : JVal → Bool
  | .arr ps => decide (4 ≤ ps.length) && ps.all wfPos && closedRing ps
  | _ => false

/-- polygon coordinates: a non-empty array of rings -/
def wfPoly : JVal → Bool
  | .arr rings => !rings.isEmpty && rings.all wfRing
  | _ => false

/-- an array whose elements all satisfy `f` -/
def wfArrayOf (f : JVal → Bool) : JVal → Bool
  | .arr xs => xs.all f
  | _ => false

theorem isFinNum_ordOf? {b : Bool} {x : JVal} (h : isFinNum x = true) : (ordOf? b x).isSome = true := by
  cases x <;> simp [isFinNum] at h
  simp [ordOf?]

theorem isFinNum_fin {x : JVal} (h : isFinNum x = true) : (ordOfNum x).fin = true := by
  cases x <;> simp [isFinNum] at h
  simp [ordOfNum, h]

theorem wfPos_inv {p : JVal} (h : wfPos p = true) :
    ∃ a b tl, p = .arr (a :: b :: tl) ∧ tl.length ≤ 2 ∧ isFinNum a = true ∧ isFinNum b = true ∧
      tl.all isFinNum = true := by
  cases p with
  | arr items =>
    simp only [wfPos, Bool.and_eq_true, decide_eq_true_eq] at h
    match items, h with
    | a :: b :: tl, h =>
      simp only [List.length_cons, List.all_cons, Bool.and_eq_true] at h
      exact ⟨a, b, tl, rfl, by omega, h.2.1, h.2.2.1, h.2.2.2⟩
    | [_], h => simp at h
    | [], h => simp at h
  | _ => simp [wfPos] at h

theorem wfPos_isArray {p : JVal} (h : wfPos p = true) : p.isArray = true := by
  obtain ⟨a, b, tl, rfl, _⟩ := wfPos_inv h
  rfl

theorem wfPos_takeNums (bl : Bool) {p : JVal} (h : wfPos p = true) :
    ∃ x y rest, takeNums bl p.elems 0 = .ok (x :: y :: rest) ∧ rest.length + 2 = p.elems.length ∧
      x.fin = true ∧ y.fin = true := by
  obtain ⟨a, b, tl, rfl, hl, ha, hb, htl⟩ := wfPos_inv h
  have h4 : (a :: b :: tl).take 4 = a :: b :: tl := List.take_of_length_le (by simp; omega)
  refine ⟨ordOfNum a, ordOfNum b, tl.map ordOfNum, ?_, by simp [JVal.elems], isFinNum_fin ha, isFinNum_fin hb⟩
  simp only [JVal.elems]
  rw [takeNums_of_all, h4]
  · rfl
  · rw [h4]
    simp only [List.all_cons, Bool.and_eq_true, isFinNum_ordOf? ha, isFinNum_ordOf? hb, true_and]
    rw [List.all_eq_true] at htl ⊢
    exact fun x hx => isFinNum_ordOf? (htl x hx)

theorem wfPos_posXY {p : JVal} (h : wfPos p = true) :
    posXY p = some ((posOfJ p).p.x, (posOfJ p).p.y) ∧ (posOfJ p).fin = true := by
  obtain ⟨a, b, tl, rfl, hl, ha, hb, htl⟩ := wfPos_inv h
  cases a <;> simp [isFinNum] at ha
  cases b <;> simp [isFinNum] at hb
  subst ha hb
  simp [posXY, posOfJ, JVal.elems, ordOfNum, mkPos]

/-- `dimStep` succeeds on an existing table, on the first position, or on a 2-ordinate position -/
theorem dimStep_ok {st : DimSt} {nums : List Ord} {f : Bool}
    (h : st.ex.isSome = true ∨ f = true ∨ nums.length ≤ 2) :
    ∃ st', dimStep st nums f = .ok st' ∧ (st.ex.isSome = true → st'.ex.isSome = true) ∧
      (f = true → 2 < nums.length → st'.ex.isSome = true) := by
  rw [dimStep_eq]
  unfold dimInit dimAppend
  cases hex : st.ex with
  | some e =>
    refine ⟨_, rfl, ?_, ?_⟩ <;> simp [hex]
  | none =>
    simp only
    by_cases h2 : nums.length > 2
    · rcases h with h | h | h
      · rw [hex] at h; cases h
      · subst h
        simp only [if_pos h2, Bool.not_true, Bool.false_eq_true, if_false]
        exact ⟨_, rfl, by simp, by simp⟩
      · omega
    · simp only [if_neg h2, hex]
      refine ⟨_, rfl, by simp, ?_⟩
      intro _ h3; omega

theorem wfPos_posStep {p : JVal} {st : DimSt} {f : Bool} (h : wfPos p = true)
    (hs : st.ex.isSome = true ∨ f = true ∨ p.elems.length ≤ 2) :
    ∃ st', posStep p st f = .ok (posOfJ p, st') ∧ (st.ex.isSome = true → st'.ex.isSome = true) ∧
      (f = true → 2 < p.elems.length → st'.ex.isSome = true) := by
  obtain ⟨x, y, rest, hn, hlen, _, _⟩ := wfPos_takeNums false h
  obtain ⟨st', hd, h1, h2⟩ := dimStep_ok (st := st) (nums := x :: y :: rest) (f := f) (by
    rcases hs with hs | hs | hs
    · exact .inl hs
    · exact .inr (.inl hs)
    · exact .inr (.inr (by simp only [List.length_cons]; omega)))
  have hpos : posStep p st f = .ok (mkPos x y, st') := by
    unfold posStep
    rw [hn]
    simp only [hd]
  refine ⟨st', ?_, h1, ?_⟩
  · rw [hpos, posStep_pos hpos]
  · intro hf hl
    exact h2 hf (by simp only [List.length_cons]; omega)

/-- no later position has more than two ordinates, or the table exists already -/
def Safe (st : DimSt) (l : List JVal) : Prop :=
  st.ex.isSome = true ∨ ∀ q ∈ l, q.elems.length ≤ 2

theorem Safe.tail {st st' : DimSt} {p : JVal} {l : List JVal} (h : Safe st (p :: l))
    (hs : st.ex.isSome = true → st'.ex.isSome = true) : Safe st' l := by
  rcases h with h | h
  · exact .inl (hs h)
  · exact .inr (fun q hq => h q (List.mem_cons_of_mem _ hq))

theorem parseLineCoordsLoop_safe : ∀ (l : List JVal) (acc : List Pos) (st : DimSt),
    (∀ q ∈ l, wfPos q = true) → Safe st l →
      ∃ st', parseLineCoordsLoop l acc st = .ok (acc ++ l.map posOfJ, st') ∧
        (st.ex.isSome = true → st'.ex.isSome = true)
  | [], acc, st, _, _ => ⟨st, by rw [parseLineCoordsLoop_nil]; simp, id⟩
  | p :: l, acc, st, hwf, hs => by
    have hp := hwf p List.mem_cons_self
    obtain ⟨st1, h1, h2, _⟩ := wfPos_posStep (st := st) (f := acc.length == 0) hp (by
      rcases hs with hs | hs
      · exact .inl hs
      · exact .inr (.inr (hs p List.mem_cons_self)))
    obtain ⟨st', h3, h4⟩ := parseLineCoordsLoop_safe l (acc ++ [posOfJ p]) st1
      (fun q hq => hwf q (List.mem_cons_of_mem _ hq)) (hs.tail h2)
    refine ⟨st', ?_, fun h => h4 (h2 h)⟩
    rw [parseLineCoordsLoop_cons, wfPos_isArray hp, h1]
    simp only [Bool.not_true, Bool.false_eq_true, if_false]
    rw [h3]
    simp

theorem parseRingLoop_safe (ri : Nat) : ∀ (l : List JVal) (acc : List Pos) (st : DimSt),
    (∀ q ∈ l, wfPos q = true) → Safe st l →
      ∃ st', parseRingLoop ri l acc st = .ok (acc ++ l.map posOfJ, st') ∧
        (st.ex.isSome = true → st'.ex.isSome = true)
  | [], acc, st, _, _ => ⟨st, by rw [parseRingLoop_nil]; simp, id⟩
  | p :: l, acc, st, hwf, hs => by
    have hp := hwf p List.mem_cons_self
    obtain ⟨st1, h1, h2, _⟩ := wfPos_posStep (st := st) (f := (ri == 0 && acc.length == 0)) hp (by
      rcases hs with hs | hs
      · exact .inl hs
      · exact .inr (.inr (hs p List.mem_cons_self)))
    obtain ⟨st', h3, h4⟩ := parseRingLoop_safe ri l (acc ++ [posOfJ p]) st1
      (fun q hq => hwf q (List.mem_cons_of_mem _ hq)) (hs.tail h2)
    refine ⟨st', ?_, fun h => h4 (h2 h)⟩
    rw [parseRingLoop_cons, h1]
    simp only
    rw [h3]
    simp

/-- the dimension rule on a list of positions: if the first has exactly two ordinates, no
    later one has more -/
def dimsOKb (ps : List JVal) : Bool :=
  match ps with
  | [] => true
  | p :: rest => p.elems.length != 2 || rest.all (fun q => decide (q.elems.length ≤ 2))

theorem wfPos_len {p : JVal} (h : wfPos p = true) : 2 ≤ p.elems.length := by
  obtain ⟨a, b, tl, rfl, _⟩ := wfPos_inv h
  simp [JVal.elems]

/-- after the first position the rest is safe -/
theorem dimsOKb_safe {p : JVal} {rest : List JVal} {st' : DimSt} (hp : wfPos p = true)
    (hd : dimsOKb (p :: rest) = true) (h : 2 < p.elems.length → st'.ex.isSome = true) :
    Safe st' rest := by
  simp only [dimsOKb, Bool.or_eq_true, bne_iff_ne, ne_eq, List.all_eq_true, decide_eq_true_eq] at hd
  rcases hd with hd | hd
  · have := wfPos_len hp
    exact .inl (h (by omega))
  · exact .inr hd

theorem parseLineCoordsLoop_wf (l : List JVal) (hwf : ∀ q ∈ l, wfPos q = true)
    (hd : dimsOKb l = true) :
    ∃ st', parseLineCoordsLoop l [] {} = .ok (l.map posOfJ, st') := by
  cases l with
  | nil => exact ⟨_, by rw [parseLineCoordsLoop_nil]; rfl⟩
  | cons p rest =>
    have hp := hwf p List.mem_cons_self
    obtain ⟨st1, h1, _, h2⟩ := wfPos_posStep (st := {}) (f := ([] : List Pos).length == 0) hp (.inr (.inl rfl))
    obtain ⟨st', h3, _⟩ := parseLineCoordsLoop_safe rest ([] ++ [posOfJ p]) st1
      (fun q hq => hwf q (List.mem_cons_of_mem _ hq)) (dimsOKb_safe hp hd (h2 rfl))
    refine ⟨st', ?_⟩
    rw [parseLineCoordsLoop_cons, wfPos_isArray hp, h1]
    simp only [Bool.not_true, Bool.false_eq_true, if_false]
    rw [h3]
    simp

end Geo

namespace Geo

theorem wfRing_inv {r : JVal} (h : wfRing r = true) :
    ∃ ps, r = .arr ps ∧ 4 ≤ ps.length ∧ (∀ q ∈ ps, wfPos q = true) ∧ closedRing ps = true := by
  cases r with
  | arr ps =>
    simp only [wfRing, Bool.and_eq_true, decide_eq_true_eq, List.all_eq_true] at h
    exact ⟨ps, rfl, h.1.1, h.1.2, h.2⟩
  | _ => simp [wfRing] at h

theorem wfLine_inv {r : JVal} (h : wfLine r = true) :
    ∃ ps, r = .arr ps ∧ 2 ≤ ps.length ∧ (∀ q ∈ ps, wfPos q = true) := by
  cases r with
  | arr ps =>
    simp only [wfLine, Bool.and_eq_true, decide_eq_true_eq, List.all_eq_true] at h
    exact ⟨ps, rfl, h.1, h.2⟩
  | _ => simp [wfLine] at h

theorem wfPoly_inv {c : JVal} (h : wfPoly c = true) :
    ∃ rings, c = .arr rings ∧ rings ≠ [] ∧ (∀ r ∈ rings, wfRing r = true) := by
  cases c with
  | arr rings =>
    simp only [wfPoly, Bool.and_eq_true, List.all_eq_true, Bool.not_eq_true', List.isEmpty_eq_false_iff] at h
    exact ⟨rings, rfl, h.1, h.2⟩
  | _ => simp [wfPoly] at h

theorem wfArrayOf_inv {f : JVal → Bool} {c : JVal} (h : wfArrayOf f c = true) :
    ∃ xs, c = .arr xs ∧ ∀ x ∈ xs, f x = true := by
  cases c with
  | arr xs =>
    simp only [wfArrayOf, List.all_eq_true] at h
    exact ⟨xs, rfl, h⟩
  | _ => simp [wfArrayOf] at h

theorem ringOK_of_wfRing {r : JVal} (h : wfRing r = true) : ringOK (ringOfJ r) = true := by
  obtain ⟨ps, rfl, hlen, hwf, hcl⟩ := wfRing_inv h
  unfold ringOK ringOfJ
  simp only [JVal.elems, List.length_map, List.head?_map, List.getLast?_map, Bool.and_eq_true,
    decide_eq_true_eq]
  refine ⟨hlen, ?_⟩
  unfold closedRing at hcl
  cases hh : ps.head? with
  | none => rw [hh] at hcl; simp at hcl
  | some a =>
    cases hl : ps.getLast? with
    | none => rw [hh, hl] at hcl; simp at hcl
    | some b =>
      rw [hh, hl] at hcl
      simp only [beq_iff_eq] at hcl
      have ha := wfPos_posXY (hwf a (List.mem_of_head? hh))
      have hb := wfPos_posXY (hwf b (List.mem_of_getLast? hl))
      rw [ha.1, hb.1] at hcl
      simp only [Option.some.injEq, Prod.mk.injEq] at hcl
      simp only [Option.map_some, ha.2, hb.2, Bool.and_self, Bool.true_and, beq_iff_eq]
      cases hpa : (posOfJ a).p
      cases hpb : (posOfJ b).p
      rw [hpa, hpb] at hcl
      simp only at hcl
      rw [hcl.1, hcl.2]

theorem parsePolyCoordsLoop_safe : ∀ (l : List JVal) (acc : List (List Pos)) (st : DimSt),
    (∀ r ∈ l, wfRing r = true) → Safe st (l.flatMap JVal.elems) →
      ∃ st', parsePolyCoordsLoop l acc st = .ok (acc ++ l.map ringOfJ, st') ∧
        (st.ex.isSome = true → st'.ex.isSome = true)
  | [], acc, st, _, _ => ⟨st, by rw [parsePolyCoordsLoop_nil]; simp, id⟩
  | r :: l, acc, st, hwf, hs => by
    obtain ⟨ps, rfl, _, hps, _⟩ := wfRing_inv (hwf _ List.mem_cons_self)
    obtain ⟨st1, h1, h2⟩ := parseRingLoop_safe acc.length ps [] st hps (by
      rcases hs with hs | hs
      · exact .inl hs
      · exact .inr (fun q hq => hs q (by simp [JVal.elems]; exact .inl hq)))
    obtain ⟨st', h3, h4⟩ := parsePolyCoordsLoop_safe l (acc ++ [ringOfJ (.arr ps)]) st1
      (fun q hq => hwf q (List.mem_cons_of_mem _ hq)) (by
      rcases hs with hs | hs
      · exact .inl (h2 hs)
      · exact .inr (fun q hq => hs q (by
          rw [List.flatMap_cons, List.mem_append]; exact .inr hq)))
    refine ⟨st', ?_, fun h => h4 (h2 h)⟩
    rw [parsePolyCoordsLoop_cons]
    simp only [JVal.isArray, Bool.not_true, Bool.false_eq_true, if_false, JVal.elems, h1]
    rw [List.nil_append] 
    rw [show List.map posOfJ ps = ringOfJ (.arr ps) from rfl, h3]
    simp

theorem parsePolyCoordsLoop_wf (l : List JVal) (hwf : ∀ r ∈ l, wfRing r = true)
    (hd : dimsOKb (l.flatMap JVal.elems) = true) :
    ∃ st', parsePolyCoordsLoop l [] {} = .ok (l.map ringOfJ, st') := by
  cases l with
  | nil => exact ⟨_, by rw [parsePolyCoordsLoop_nil]; rfl⟩
  | cons r rest =>
    obtain ⟨ps, rfl, hlen, hps, _⟩ := wfRing_inv (hwf _ List.mem_cons_self)
    match ps, hlen, hps with
    | p :: ps', _, hps =>
      have hp := hps p List.mem_cons_self
      simp only [List.flatMap_cons, JVal.elems, List.cons_append] at hd
      obtain ⟨st1, h1, _, h2⟩ := wfPos_posStep (st := {}) (f := true) hp (.inr (.inl rfl))
      have hsafe := dimsOKb_safe hp hd (h2 rfl)
      obtain ⟨st2, h3, h4⟩ := parseRingLoop_safe 0 ps' ([] ++ [posOfJ p]) st1
        (fun q hq => hps q (List.mem_cons_of_mem _ hq)) (by
        rcases hsafe with hs | hs
        · exact .inl hs
        · exact .inr (fun q hq => hs q (List.mem_append_left _ hq)))
      obtain ⟨st', h5, _⟩ := parsePolyCoordsLoop_safe rest ([] ++ [ringOfJ (.arr (p :: ps'))]) st2
        (fun q hq => hwf q (List.mem_cons_of_mem _ hq)) (by
        rcases hsafe with hs | hs
        · exact .inl (h4 hs)
        · exact .inr (fun q hq => hs q (List.mem_append_right _ hq)))
      refine ⟨st', ?_⟩
      rw [parsePolyCoordsLoop_cons]
      simp only [JVal.isArray, Bool.not_true, Bool.false_eq_true, if_false, JVal.elems]
      rw [List.length_nil, parseRingLoop_cons]
      simp only [List.length_nil, beq_self_eq_true, Bool.and_self, h1]
      rw [h3]
      simp only [List.nil_append, List.cons_append] at h5 ⊢
      rw [show posOfJ p :: List.map posOfJ ps' = ringOfJ (.arr (p :: ps')) from rfl, h5]
      simp

theorem parseLineCoords_wf {c : JVal} (h : wfLine c = true) (hd : dimsOKb c.elems = true) :
    ∃ ex, parseLineCoords c = .ok (c.elems.map posOfJ, ex) ∧ ¬ (c.elems.map posOfJ).length < 2 := by
  obtain ⟨ps, rfl, hlen, hps⟩ := wfLine_inv h
  obtain ⟨st', h1⟩ := parseLineCoordsLoop_wf ps hps hd
  refine ⟨st'.ex, ?_, by simp [JVal.elems]; omega⟩
  rw [parseLineCoords_eq]
  simp only [JVal.elems, h1]

theorem parsePolyCoords_wf {c : JVal} (h : wfPoly c = true)
    (hd : dimsOKb (c.elems.flatMap JVal.elems) = true) :
    ∃ ex, parsePolyCoords c = .ok (c.elems.map ringOfJ, ex) ∧
      ¬ ((c.elems.map ringOfJ).isEmpty || !((c.elems.map ringOfJ).all ringOK)) = true := by
  obtain ⟨rings, rfl, hne, hr⟩ := wfPoly_inv h
  obtain ⟨st', h1⟩ := parsePolyCoordsLoop_wf rings hr hd
  refine ⟨st'.ex, ?_, ?_⟩
  · rw [parsePolyCoords_eq]
    simp only [JVal.elems, h1]
  · simp only [JVal.elems, List.isEmpty_map, Bool.or_eq_true, Bool.not_eq_true', not_or,
      Bool.not_eq_true, Bool.not_eq_false, List.isEmpty_eq_false_iff]
    refine ⟨hne, ?_⟩
    rw [List.all_eq_true]
    intro x hx
    rw [List.mem_map] at hx
    obtain ⟨r, hr', rfl⟩ := hx
    exact ringOK_of_wfRing (hr r hr')

theorem parsePointCoords_wf {c : JVal} (h : wfPos c = true) :
    ∃ ex, parsePointCoords c = .ok (posOfJ c, ex) := by
  obtain ⟨x, y, rest, hn, _⟩ := wfPos_takeNums true h
  have : ∃ pos ex, parsePointCoords c = .ok (pos, ex) := by
    rw [parsePointCoords_eq, hn]
    exact ⟨_, _, rfl⟩
  obtain ⟨pos, ex, hp⟩ := this
  exact ⟨ex, by rw [hp, parsePointCoords_pos hp]⟩

end Geo

namespace Geo

/-! ### the per-type bodies accept well-formed members (RequireValid off) -/

theorem reqArray_arr (items : List JVal) (a b : PErr) : reqArray (some (.arr items)) a b = .ok (.arr items) := rfl

theorem pointCase_wf {o : POpts} {k : Keys} {c : JVal} (ho : o.requireValid = false)
    (hc : k.coordinates = some c) (h : wfPos c = true) : ∃ x, pointCase o k = .ok x := by
  obtain ⟨ex, hp⟩ := parsePointCoords_wf h
  unfold pointCase
  rw [hc]
  simp only [wfPos_isArray h, Bool.not_true, Bool.false_eq_true, if_false, hp, ho, Bool.false_and]
  exact ⟨_, rfl⟩

theorem lineCase_wf {o : POpts} {k : Keys} {c : JVal} (ho : o.requireValid = false)
    (hc : k.coordinates = some c) (h : wfLine c = true) (hd : dimsOKb c.elems = true) :
    ∃ x, lineCase o k = .ok x := by
  obtain ⟨ex, hp, hlen⟩ := parseLineCoords_wf h hd
  obtain ⟨ps, rfl, _⟩ := wfLine_inv h
  unfold lineCase
  rw [hc, reqArray_arr]
  simp only [hp, if_neg hlen, ho, Bool.false_and, Bool.false_eq_true, if_false]
  exact ⟨_, rfl⟩

theorem polyCase_wf {o : POpts} {k : Keys} {c : JVal} (ho : o.requireValid = false)
    (hc : k.coordinates = some c) (h : wfPoly c = true)
    (hd : dimsOKb (c.elems.flatMap JVal.elems) = true) :
    ∃ x, polyCase o k = .ok x := by
  obtain ⟨ex, hp, hok⟩ := parsePolyCoords_wf h hd
  obtain ⟨rings, rfl, _⟩ := wfPoly_inv h
  unfold polyCase
  rw [hc, reqArray_arr]
  simp only [hp, if_neg hok, ho, Bool.false_and, Bool.false_eq_true, if_false]
  exact ⟨_, rfl⟩

theorem multiPointCase_wf {o : POpts} {k : Keys} {c : JVal} (ho : o.requireValid = false)
    (hc : k.coordinates = some c) (h : wfArrayOf wfPos c = true) : ∃ x, multiPointCase o k = .ok x := by
  obtain ⟨xs, rfl, hxs⟩ := wfArrayOf_inv h
  obtain ⟨cs, hcs⟩ := mapM_except_total (fun v => parsePointCoords v) xs (fun p hp => by
    obtain ⟨ex, he⟩ := parsePointCoords_wf (hxs p hp)
    exact ⟨_, he⟩)
  unfold multiPointCase
  rw [hc, reqArray_arr]
  simp only [JVal.elems, hcs, ho, Bool.false_and, Bool.false_eq_true, if_false]
  exact ⟨_, rfl⟩

theorem lineChild_wf {o : POpts} {c : JVal} (h : wfLine c = true) (hd : dimsOKb c.elems = true) :
    ∃ x, lineChild o c = .ok x := by
  obtain ⟨ex, hp, hlen⟩ := parseLineCoords_wf h hd
  rw [lineChild_eq]
  simp only [hp, if_neg hlen]
  exact ⟨_, rfl⟩

theorem polyChild_wf {o : POpts} {c : JVal} (h : wfPoly c = true)
    (hd : dimsOKb (c.elems.flatMap JVal.elems) = true) : ∃ x, polyChild o c = .ok x := by
  obtain ⟨ex, hp, hok⟩ := parsePolyCoords_wf h hd
  rw [polyChild_eq]
  simp only [hp, if_neg hok]
  exact ⟨_, rfl⟩

theorem multiLineCase_wf {o : POpts} {k : Keys} {c : JVal} (ho : o.requireValid = false)
    (hc : k.coordinates = some c) (h : wfArrayOf wfLine c = true)
    (hd : ∀ l ∈ c.elems, dimsOKb l.elems = true) : ∃ x, multiLineCase o k = .ok x := by
  obtain ⟨xs, rfl, hxs⟩ := wfArrayOf_inv h
  obtain ⟨cs, hcs⟩ := mapM_except_total (lineChild o) xs (fun p hp => lineChild_wf (hxs p hp) (hd p hp))
  unfold multiLineCase
  rw [hc, reqArray_arr]
  simp only [JVal.elems, hcs, ho, Bool.false_and, Bool.false_eq_true, if_false]
  exact ⟨_, rfl⟩

theorem multiPolyCase_wf {o : POpts} {k : Keys} {c : JVal} (ho : o.requireValid = false)
    (hc : k.coordinates = some c) (h : wfArrayOf wfPoly c = true)
    (hd : ∀ pg ∈ c.elems, dimsOKb (pg.elems.flatMap JVal.elems) = true) :
    ∃ x, multiPolyCase o k = .ok x := by
  obtain ⟨xs, rfl, hxs⟩ := wfArrayOf_inv h
  obtain ⟨cs, hcs⟩ := mapM_except_total (polyChild o) xs (fun p hp => polyChild_wf (hxs p hp) (hd p hp))
  unfold multiPolyCase
  rw [hc, reqArray_arr]
  simp only [JVal.elems, hcs, ho, Bool.false_and, Bool.false_eq_true, if_false]
  exact ⟨_, rfl⟩

/-- a Feature that is not a Circle candidate is built from any accepted geometry -/
theorem featureObj_noCircle {o : POpts} {k : Keys} {base : Obj} (h : isCircleType k = false) :
    featureObj o k base = .ok (.feature base (withMembers none k)) := by
  unfold featureObj
  split
  · simp [h]
  · rfl

end Geo

namespace Geo

/-- the kinds whose "coordinates" value exists (`writeCoords`): children of Multi* collections -/
def isGeomLeaf : Obj → Bool
  | .point _ _ => true
  | .spoint _ => true
  | .lineString _ _ _ => true
  | .polygon _ _ _ => true
  | .rectO _ _ _ => true
  | _ => false

theorem lineChild_leaf {o : POpts} {v : JVal} {x : Obj} (h : lineChild o v = .ok x) :
    isGeomLeaf x = true := by
  rw [lineChild_eq] at h
  split at h
  · cases h
  · split at h
    · cases h
    · cases h; rfl

theorem polyChild_leaf {o : POpts} {v : JVal} {x : Obj} (h : polyChild o v = .ok x) :
    isGeomLeaf x = true := by
  rw [polyChild_eq] at h
  split at h
  · cases h
  · split at h
    · cases h
    · cases h; rfl

end Geo

namespace Geo

/-! ### the Circle decision of a Feature, separated from the base object -/

/-- `none`: not a Circle candidate; `some (.ok r)`: a Circle with radius text `r`;
    `some (.error e)`: a Circle candidate that is rejected -/
def circleDecision (o : POpts) (k : Keys) : Option (Except PErr String) :=
  if !o.disableCircle && isCircleType k then
    some (match radiusTexts k with
      | none => .error .unmodelled
      | some (m, km) =>
        if unitsOf k == "" || unitsOf k == "m" then .ok m
        else if unitsOf k == "km" then .ok km
        else .error .circleUnits)
  else none

theorem featureObj_eq (o : POpts) (k : Keys) (b : Obj) :
    featureObj o k b =
      match centreOf b, withMembers none k, circleDecision o k with
      | some c, some _, some (.ok r) => .ok (.circle c r)
      | some _, some _, some (.error e) => .error e
      | _, _, _ => .ok (.feature b (withMembers none k)) := by
  unfold featureObj circleDecision
  cases centreOf b with
  | none => rfl
  | some c =>
    cases withMembers none k with
    | none => rfl
    | some e =>
      simp only
      cases (!o.disableCircle && isCircleType k) with
      | false => rfl
      | true =>
        simp only [if_true]
        cases radiusTexts k with
        | none => rfl
        | some mk =>
          obtain ⟨m, km⟩ := mk
          simp only
          cases (unitsOf k == "" || unitsOf k == "m") with
          | true => rfl
          | false =>
            simp only [Bool.false_eq_true, if_false]
            cases (unitsOf k == "km") <;> rfl

theorem circleDecision_congr {o o' : POpts} (h : o.disableCircle = o'.disableCircle) (k : Keys) :
    circleDecision o k = circleDecision o' k := by
  unfold circleDecision
  rw [h]

end Geo

namespace Geo

theorem parseTyped_unknown (o : POpts) (k : Keys) (pr pl) {ty : String} (h : ty ∉ nineTypes) :
    parseTyped o k pr pl ty = .error .typeUnknown := by
  refine parseTyped_elim (motive := fun ty res => ty ∉ nineTypes → res = .error .typeUnknown)
    o k pr pl ty ?_ ?_ ?_ ?_ ?_ ?_ ?_ ?_ ?_ (fun _ _ => rfl) h
  all_goals (intro hne; exact absurd (by decide) hne)

/-- the type dispatch, for two runs of `parseTyped` on the same keys -/
theorem parseTyped_elim₂ {motive : String → Except PErr Obj → Except PErr Obj → Prop}
    (o o' : POpts) (k : Keys) (pr pr' : JVal → Except PErr Obj)
    (pl pl' : List JVal → Except PErr (List Obj)) (ty : String)
    (hPoint : motive "Point" (pointCase o k) (pointCase o' k))
    (hLine : motive "LineString" (lineCase o k) (lineCase o' k))
    (hPoly : motive "Polygon" (polyCase o k) (polyCase o' k))
    (hMPoint : motive "MultiPoint" (multiPointCase o k) (multiPointCase o' k))
    (hMLine : motive "MultiLineString" (multiLineCase o k) (multiLineCase o' k))
    (hMPoly : motive "MultiPolygon" (multiPolyCase o k) (multiPolyCase o' k))
    (hGC : motive "GeometryCollection" (geomCollCase o k pl) (geomCollCase o' k pl'))
    (hFC : motive "FeatureCollection" (featCollCase o k pl) (featCollCase o' k pl'))
    (hF : motive "Feature" (featureCase o k pr) (featureCase o' k pr'))
    (hU : ty ∉ nineTypes → motive ty (.error .typeUnknown) (.error .typeUnknown)) :
    motive ty (parseTyped o k pr pl ty) (parseTyped o' k pr' pl' ty) := by
  refine parseTyped_elim (motive := fun ty res => motive ty res (parseTyped o' k pr' pl' ty))
    o k pr pl ty hPoint hLine hPoly hMPoint hMLine hMPoly hGC hFC hF ?_
  intro hne
  rw [parseTyped_unknown o' k pr' pl' hne]
  exact hU hne

end Geo

namespace Geo

theorem parse_obj_ok {o : POpts} {n : Nat} {ms : List (String × String × JVal)} {x : Obj}
    (h : parse o (n+1) (.obj ms) = .ok x) :
    ∃ r ty, (scanKeys ms).type = some (.str r ty) ∧
      parseTyped o (scanKeys ms) (parse o n) (parseList o n) ty = .ok x := by
  rw [parse_succ_obj] at h
  split at h
  · cases h
  · rename_i r ty hty
    exact ⟨r, ty, hty, h⟩
  · cases h

theorem parse_ok_isObj {o : POpts} {n : Nat} {v : JVal} {x : Obj} (h : parse o n v = .ok x) :
    ∃ m ms, n = m + 1 ∧ v = .obj ms := by
  cases n with
  | zero => rw [parse_zero] at h; cases h
  | succ m =>
    cases v with
    | obj ms => exact ⟨m, ms, rfl, rfl⟩
    | null => rw [parse_succ_nonobj _ m _ (by intro ms h; cases h)] at h; cases h
    | tru => rw [parse_succ_nonobj _ m _ (by intro ms h; cases h)] at h; cases h
    | fls => rw [parse_succ_nonobj _ m _ (by intro ms h; cases h)] at h; cases h
    | num => rw [parse_succ_nonobj _ m _ (by intro ms h; cases h)] at h; cases h
    | str => rw [parse_succ_nonobj _ m _ (by intro ms h; cases h)] at h; cases h
    | arr => rw [parse_succ_nonobj _ m _ (by intro ms h; cases h)] at h; cases h

end Geo

namespace Geo

/-! ### building concrete documents -/

/-- a finite JSON number whose source text is its canonical text -/
def jnum (v : Rat) (s : String) : JVal := .num true v s s s
def jstr (s : String) : JVal := .str ("\"" ++ s ++ "\"") s
def jmem (k : String) (v : JVal) : String × String × JVal := ("\"" ++ k ++ "\"", k, v)

end Geo

namespace Geo

theorem polyCase_shape {o : POpts} {k : Keys} {x : Obj} (h : polyCase o k = .ok x) :
    ∃ c rings ex, k.coordinates = some c ∧ parsePolyCoords c = .ok (rings, ex) ∧
      rings.all ringOK = true ∧ x = polyObj o rings (withMembers ex k) := by
  unfold polyCase at h
  split at h
  · cases h
  · rename_i c hc
    split at h
    · cases h
    · rename_i rings ex hp
      split at h
      · cases h
      · rename_i hok
        simp only at h
        split at h
        · cases h
        · cases h
          refine ⟨c, rings, ex, (reqArray_ok hc).1, hp, ?_, rfl⟩
          simp only [Bool.or_eq_true, Bool.not_eq_true', not_or, Bool.not_eq_true, Bool.not_eq_false] at hok
          exact hok.2

end Geo
