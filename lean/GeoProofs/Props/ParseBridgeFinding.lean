/-
  GeoProofs.Props.ParseBridgeFinding — FINDING (hand model ≠ source), found while bridging the Polygon
  parser: the model's `ringOK` demands that the first and last position of a ring are FINITE and equal;
  the source (polygon.go, `p[0] != p[len(p)-1]`, regenerated as ops.geometryPointEq) compares float64s, and
  +Inf == +Inf.  Document (1e999 overflows to +Inf in gjson's Float()):
      {"type":"Polygon","coordinates":[[[1e999,0],[1,0],[1,1],[1e999,0]]]}
  Go: Parse succeeds (a Polygon; checked with `go test` on /repo);  model: `parseTop` = coordsInvalid;
  generated parseJSONPolygon under `PGlue.mops` (Go's == on floats): no error.  The same root (non-finite
  ordinates from overflowing literals) separates `isRectRing` (requires finite corners) from the source's
  AllowRects test (0 < +Inf holds).
-/
import GeoProofs.Glue.ParseGlueLine3

namespace Geo.ParseBridgeFinding
open Geo Geo.PGen Geo.PGlue

def inf : JVal := .num false 1000000000000000000000 "null" "null" "1e999"
def num (k : Int) (s : String) : JVal := .num true k s (s ++ "000") s
def ring : JVal := .arr [.arr [inf, num 0 "0"], .arr [num 1 "1", num 0 "0"], .arr [num 1 "1", num 1 "1"], .arr [inf, num 0 "0"]]
def doc : JVal := .obj [("\"type\"", "type", .str "\"Polygon\"" "Polygon"), ("\"coordinates\"", "coordinates", .arr [ring])]
def gk : GKeys := ⟨some (.arr [ring]), none, none, none, []⟩
def rec0 : RecT := fun _ _ => (default, none)

def modelRejects : Bool := match parseTop {} doc with | .error .coordsInvalid => true | _ => false
def generatedAccepts : Bool := (PGen.parseJSONPolygon (mops rec0) (some gk) (some (optsG {}))).2.isNone

theorem model_rejects : modelRejects = true := by
  simp [modelRejects, parseTop, doc, ring, parse, scanKeys, reqArray, parsePolyCoords, parsePolyCoordsLoop, parseRingLoop,
    takeNums, JVal.elems, JVal.isArray, dimStep, ringOK, mkPos, inf, num, JVal.depth, JVal.depthL, JVal.depthM,
    bind, Except.bind, pure, Except.pure]
theorem generated_accepts : generatedAccepts = true := by decide

#print axioms model_rejects
#print axioms generated_accepts

end Geo.ParseBridgeFinding
