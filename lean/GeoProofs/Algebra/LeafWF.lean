/-
  GeoProofs.Algebra.LeafWF — structural well-formedness of leaf geometry, and the rectangle /
  emptiness facts of the 4 × 4 matrix that follow from it.

  The model's `Series` is a raw structure: its `rect` and `index` fields are arbitrary data.
  `Series.WF`: the rectangle is the one `processPoints` computes and the search is exact
  (`Series.SearchExact`: no index, or a built index — GeoProofs/SeriesSearch*.lean).  Every series
  made by `mkSeries` (what the parser and the constructors produce) is of this form.  Nothing is
  assumed about the convex / clockwise flags, the closed flag, or validity of the shape.
-/
import GeoProofs.Algebra.LeafGeom
import GeoProofs.MemberLemmas

namespace Geo
open GL

def Series.WF (s : Series) : Prop :=
  s.rect = (processPoints s.pts s.closed).rect ∧ s.SearchExact

def Ring.WF : Ring → Prop
  | .ser s => s.WF
  | .bx _ => True

/-- only the exterior ring matters for the rectangle / emptiness laws -/
def Poly.WF (p : Poly) : Prop := ∀ e, p.ext = some e → e.WF

def Geom.WF : Geom → Prop
  | .line l => l.WF
  | .poly p => p.WF
  | _ => True

/-- a LineString's series, a Polygon's exterior ring: rectangle and search coherent with the
    points.  Point, SimplePoint, Rect (and non-leaves): no condition. -/
def Obj.LeafWF (a : Obj) : Prop := a.geom.WF

theorem mkSeries_WF (pts : Array Pt) (closed : Bool) (kind : IndexKind) (m : Nat)
    (h : (mkSeries pts closed kind m).SearchExact) : (mkSeries pts closed kind m).WF := ⟨rfl, h⟩

theorem mkSeries_WF_none (pts : Array Pt) (closed : Bool) (m : Nat) :
    (mkSeries pts closed .none m).WF := ⟨rfl, series_search_exact_kind_none pts closed m⟩

/-! ### points of a well-formed series lie in its rectangle -/

theorem Series.WF.onSeg_in_rect {s : Series} (hs : s.WF) (i : Nat) (hi : i < s.numSegments) (p : Pt)
    (hp : OnSeg (s.segmentAt i).a (s.segmentAt i).b p) : s.rect.containsPt p = true := by
  have he : s.empty = false := by
    cases h : s.empty with
    | false => rfl
    | true => rw [(numSegments_eq_zero_iff s).2 h] at hi; omega
  have hne : ¬ ((s.closed && decide (s.pts.size < 3)) || decide (s.pts.size < 2)) = true := by
    unfold Series.empty at he; simp [he]
  obtain ⟨ha, hb⟩ := segmentAt_mem s.pts s.closed i hi
  rw [hs.1]
  exact onSeg_in_box _ _ _ _ (GL.mem_rect s.pts s.closed hne _ ha) (GL.mem_rect s.pts s.closed hne _ hb) hp

theorem Series.WF.containsPoint_iff {s : Series} (hs : s.WF) (p : Pt) :
    Line.containsPoint s p = true ↔
      ∃ i, i < s.numSegments ∧ OnSeg (s.segmentAt i).a (s.segmentAt i).b p := by
  rw [line_containsPoint_any s hs.2, List.any_eq_true]
  constructor
  · rintro ⟨i, hi, h⟩
    exact ⟨i, List.mem_range.1 hi, (raycast_on_iff _ _ _).1 h⟩
  · rintro ⟨i, hi, h⟩
    exact ⟨i, List.mem_range.2 hi, (raycast_on_iff _ _ _).2 h⟩

theorem Series.WF.containsPoint_rect {s : Series} (hs : s.WF) (p : Pt)
    (h : Line.containsPoint s p = true) : s.rect.containsPt p = true := by
  obtain ⟨i, hi, hon⟩ := (hs.containsPoint_iff p).1 h
  exact hs.onSeg_in_rect i hi p hon

theorem Series.WF.containsPoint_empty {s : Series} (hs : s.WF) (p : Pt) (he : s.empty = true) :
    Line.containsPoint s p = false := by
  cases h : Line.containsPoint s p with
  | false => rfl
  | true =>
    obtain ⟨i, hi, -⟩ := (hs.containsPoint_iff p).1 h
    rw [Series.numSegments_of_empty s he] at hi; omega

/-! ### `ringContainsPoint`: the rectangle pre-test, and empty rings -/

theorem ringContainsPoint_hit_rect (r : Ring) (p : Pt) (b : Bool)
    (h : (ringContainsPoint r p b).hit = true) : r.rect.containsPt p = true := by
  cases hc : r.rect.containsPt p with
  | true => rfl
  | false => rw [ringContainsPoint_outside r p b hc] at h; cases h

theorem Ring.WF.containsPoint_empty {r : Ring} (hr : r.WF) (p : Pt) (b : Bool) (he : r.empty = true) :
    (ringContainsPoint r p b).hit = false := by
  cases r with
  | bx bb => cases he
  | ser s =>
    have hs : s.WF := hr
    have hn : s.numSegments = 0 := Series.numSegments_of_empty s he
    cases hc : s.rect.containsPt p with
    | false => rw [ringContainsPoint_outside (.ser s) p b hc]
    | true =>
      rw [(ser_ringContainsPoint s hs.2 (fun i hi => by omega) p b hc).1, hn]
      simp

theorem Poly.containsPoint_rect (poly : Poly) (p : Pt) (h : poly.containsPoint p = true) :
    poly.rect.containsPt p = true := by
  unfold Poly.containsPoint at h
  unfold Poly.rect
  cases he : poly.ext with
  | none => rw [he] at h; cases h
  | some e =>
    rw [he] at h
    simp only at h ⊢
    by_cases hh : (ringContainsPoint e p true).hit = true
    · exact ringContainsPoint_hit_rect e p true hh
    · simp [hh] at h

theorem Poly.WF.containsPoint_empty {poly : Poly} (hw : poly.WF) (p : Pt) (he : poly.empty = true) :
    poly.containsPoint p = false := by
  unfold Poly.containsPoint
  unfold Poly.empty at he
  cases hx : poly.ext with
  | none => rfl
  | some e =>
    rw [hx] at he
    simp only at he ⊢
    rw [(hw e hx).containsPoint_empty p true he]
    rfl

end Geo
