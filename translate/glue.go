package main

// glue: translates the GLUE above the ring level of <repo>/geometry — the methods of *Poly
// (hole loops), the Rect methods that forward to rings / polygons and the simple forwards of
// *Line — into a Lean file (namespace Geo.GGen, core Lean only) whose definitions are
// PARAMETRISED by the functions they call: every callee that is not itself a translated glue
// method becomes a field of the generated structure `RingOps R L B P` (R: non-nil Ring,
// L: non-nil *Line, B: Rect, P: Point).
//
// The translation is purely syntactic (go/parser + go/ast, a small local type inference over
// bool / Point / Rect / Ring / *Poly / *Line / []Ring with flow-sensitive nil refinement) and
// deterministic.  Recognised subset:
//   * `x := e`, `x = e`, `var x T` on plain local variables;
//   * if / else-if / else; a condition is decomposed along `||`, `&&`, `!` as far as it contains
//     nil tests, and `x == nil` becomes a `match` on the Option that refines x in the non-nil arm;
//     the statements after an `if` are copied into the arms that fall through;
//   * `for _, h := range xs { body }` over a []Ring: `forRange (fun h state => body) xs state`,
//     structural recursion over the list; state = the outer variables the body assigns; in the
//     body `continue`/end ↦ Flow.next, `break` ↦ Flow.brk, `return e` ↦ Flow.ret e;
//   * boolean operators, calls of package functions and methods, `f(…).field`,
//     `&Poly{Exterior: …, Holes: …}`, `Rect{}`, the implicit conversion Rect → Ring.
// A nilable value (Ring, *Poly, *Line) may only be dereferenced, or passed to a RingOps field,
// where a dominating nil test proves it non-nil; translated glue methods take `Option`s.
// Whatever is not recognised is emitted as `opaque <name>_unrecognised : Unit` preceded by the
// reason; functions that call an unrecognised function become unrecognised themselves.

import (
	"fmt"
	"go/ast"
	"go/parser"
	"go/token"
	"os"
	"path/filepath"
	"sort"
	"strings"
)

func init() { translators["glue"] = translateGlue }

// the glue methods, in output order (callees are translated on demand, printed before callers)
var glTargets = []string{
	"Poly.Empty", "Poly.Rect",
	"Poly.ContainsPoint", "Poly.IntersectsPoint",
	"Poly.ContainsLine", "Poly.IntersectsLine",
	"Poly.ContainsPoly", "Poly.IntersectsPoly",
	"Poly.ContainsRect", "Poly.IntersectsRect",
	"Rect.ContainsLine", "Rect.IntersectsLine", "Rect.ContainsPoly", "Rect.IntersectsPoly",
	"Line.IntersectsPoint", "Line.ContainsRect", "Line.IntersectsRect", "Line.IntersectsPoly",
}

var glIsTarget = func() map[string]bool {
	m := map[string]bool{}
	for _, k := range glTargets {
		m[k] = true
	}
	return m
}()

// ---------------------------------------------------------------------------------------------
// types of the subset

type glKind int

const (
	glBad   glKind = iota
	glBool         // bool    -> Bool
	glPoint        // Point   -> P
	glRect         // Rect    -> B
	glRing         // Ring    -> Option R   (R when known non-nil)
	glPoly         // *Poly   -> Option (GPoly R)
	glLine         // *Line   -> Option L
	glRings        // []Ring  -> List R  (elements are taken to be non-nil)
	glNil          // the literal nil
)

type glTy struct {
	k  glKind
	nn bool // known non-nil (glRing, glPoly, glLine only)
}

func (t glTy) nilable() bool { return t.k == glRing || t.k == glPoly || t.k == glLine }

func (t glTy) lean() string {
	base := ""
	switch t.k {
	case glBool:
		return "Bool"
	case glPoint:
		return "P"
	case glRect:
		return "B"
	case glRings:
		return "List R"
	case glRing:
		base = "R"
	case glPoly:
		base = "GPoly R"
	case glLine:
		base = "L"
	default:
		return "?"
	}
	if t.nn {
		return base
	}
	if strings.Contains(base, " ") {
		return "Option (" + base + ")"
	}
	return "Option " + base
}

func (t glTy) goName() string {
	switch t.k {
	case glBool:
		return "bool"
	case glPoint:
		return "Point"
	case glRect:
		return "Rect"
	case glRing:
		return "Ring"
	case glPoly:
		return "*Poly"
	case glLine:
		return "*Line"
	case glRings:
		return "[]Ring"
	case glNil:
		return "nil"
	}
	return "invalid"
}

func glAtomTy(s string) string {
	if strings.Contains(s, " ") {
		return "(" + s + ")"
	}
	return s
}

// ---------------------------------------------------------------------------------------------
// the parsed package

type glOp struct {
	name    string
	params  []glTy // non-nil forms
	result  glTy
	comment string
}

func (o *glOp) leanType() string {
	var parts []string
	for _, p := range o.params {
		parts = append(parts, glAtomTy(p.lean()))
	}
	parts = append(parts, glAtomTy(o.result.lean()))
	return strings.Join(parts, " → ")
}

type glFunc struct {
	key      string // "Recv.Name" (receiver without '*') or "Name"
	leanName string
	decl     *ast.FuncDecl
	file     string
	src      []byte
	state    int // 0 not visited, 1 in progress, 2 done
	hasRecv  bool
	params   []glTy // receiver first
	result   glTy
	err      error
	lines    []string
	comment  string
	ops      map[string]*glOp
}

type glPkg struct {
	fset    *token.FileSet
	funcs   map[string]*glFunc
	types   map[string]*ast.TypeSpec
	srcs    map[string][]byte
	badPoly string // why type Poly is not the expected struct ("" when it is)
	order   []*glFunc
}

func glRecvName(e ast.Expr) string { return strings.TrimPrefix(knTypeString(e), "*") }

func glLoad(repo string) (*glPkg, error) {
	dir := filepath.Join(repo, "geometry")
	ents, err := os.ReadDir(dir)
	if err != nil {
		return nil, err
	}
	var names []string
	for _, e := range ents {
		n := e.Name()
		if !e.IsDir() && strings.HasSuffix(n, ".go") && !strings.HasSuffix(n, "_test.go") {
			names = append(names, n)
		}
	}
	sort.Strings(names)
	pkg := &glPkg{fset: token.NewFileSet(), funcs: map[string]*glFunc{}, types: map[string]*ast.TypeSpec{},
		srcs: map[string][]byte{}}
	for _, n := range names {
		src, err := os.ReadFile(filepath.Join(dir, n))
		if err != nil {
			return nil, err
		}
		f, err := parser.ParseFile(pkg.fset, n, src, parser.SkipObjectResolution)
		if err != nil {
			return nil, err
		}
		pkg.srcs[n] = src
		for _, d := range f.Decls {
			switch d := d.(type) {
			case *ast.FuncDecl:
				key := d.Name.Name
				if d.Recv != nil && len(d.Recv.List) == 1 {
					key = glRecvName(d.Recv.List[0].Type) + "." + key
				}
				if _, dup := pkg.funcs[key]; !dup {
					pkg.funcs[key] = &glFunc{key: key, leanName: knLeanName(key), decl: d, file: n, src: src}
				}
			case *ast.GenDecl:
				if d.Tok == token.TYPE {
					for _, sp := range d.Specs {
						ts := sp.(*ast.TypeSpec)
						if _, dup := pkg.types[ts.Name.Name]; !dup {
							pkg.types[ts.Name.Name] = ts
						}
					}
				}
			}
		}
	}
	pkg.badPoly = pkg.checkPoly()
	return pkg, nil
}

// resolve follows alias declarations (`type Ring = Series`).
func (p *glPkg) resolve(name string) string {
	for i := 0; i < 8; i++ {
		ts := p.types[name]
		if ts == nil || !ts.Assign.IsValid() {
			return name
		}
		id, ok := ts.Type.(*ast.Ident)
		if !ok {
			return name
		}
		name = id.Name
	}
	return name
}

func (p *glPkg) isRingName(name string) bool {
	ts := p.types[p.resolve(name)]
	if ts == nil || p.resolve(name) != "Series" {
		return false
	}
	_, ok := ts.Type.(*ast.InterfaceType)
	return ok
}

// parseType: the Go types of the subset (value Poly / Line are outside of it).
func (p *glPkg) parseType(e ast.Expr) (glTy, bool) {
	switch e := e.(type) {
	case *ast.Ident:
		switch n := p.resolve(e.Name); {
		case n == "bool" && p.types["bool"] == nil:
			return glTy{k: glBool}, true
		case n == "Point" && p.types[n] != nil:
			return glTy{k: glPoint}, true
		case n == "Rect" && p.types[n] != nil:
			return glTy{k: glRect}, true
		case p.isRingName(e.Name):
			return glTy{k: glRing}, true
		}
	case *ast.StarExpr:
		if id, ok := e.X.(*ast.Ident); ok && p.types[id.Name] != nil {
			switch p.resolve(id.Name) {
			case "Poly":
				return glTy{k: glPoly}, true
			case "Line":
				return glTy{k: glLine}, true
			}
		}
	case *ast.ArrayType:
		if e.Len == nil {
			if t, ok := p.parseType(e.Elt); ok && t.k == glRing {
				return glTy{k: glRings}, true
			}
		}
	}
	return glTy{}, false
}

// checkPoly: `type Poly struct { Exterior Ring; Holes []Ring }` is what GPoly stands for.
func (p *glPkg) checkPoly() string {
	ts := p.types["Poly"]
	if ts == nil {
		return "type Poly not found in package geometry"
	}
	st, ok := ts.Type.(*ast.StructType)
	if !ok || ts.Assign.IsValid() {
		return "type Poly is not a struct declaration"
	}
	var got []string
	for _, f := range st.Fields.List {
		t, ok := p.parseType(f.Type)
		if !ok || len(f.Names) == 0 {
			return "type Poly: field outside the subset"
		}
		for _, n := range f.Names {
			got = append(got, n.Name+" "+t.goName())
		}
	}
	if s := strings.Join(got, "; "); s != "Exterior Ring; Holes []Ring" {
		return "type Poly: fields {" + s + "}, expected {Exterior Ring; Holes []Ring}"
	}
	return ""
}

// method finds the declaration of method m on a value of kind k that is NOT a glue target:
// an interface method of Ring, or a method of Rect / *Poly / *Line (through one level of
// embedding).  Returns the signature and the declaring node.
func (p *glPkg) method(k glKind, m string) (*ast.FuncType, ast.Node) {
	switch k {
	case glRing:
		ts := p.types["Series"]
		if ts == nil {
			return nil, nil
		}
		it, ok := ts.Type.(*ast.InterfaceType)
		if !ok {
			return nil, nil
		}
		for _, f := range it.Methods.List {
			ft, ok := f.Type.(*ast.FuncType)
			if ok && len(f.Names) == 1 && f.Names[0].Name == m {
				return ft, f
			}
		}
		return nil, nil
	case glRect, glPoly, glLine:
		tn := map[glKind]string{glRect: "Rect", glPoly: "Poly", glLine: "Line"}[k]
		if f := p.funcs[tn+"."+m]; f != nil {
			return f.decl.Type, f.decl
		}
		ts := p.types[tn]
		if ts == nil {
			return nil, nil
		}
		if st, ok := ts.Type.(*ast.StructType); ok {
			for _, fld := range st.Fields.List {
				if len(fld.Names) != 0 {
					continue
				}
				if f := p.funcs[glRecvName(fld.Type)+"."+m]; f != nil {
					return f.decl.Type, f.decl
				}
			}
		}
	}
	return nil, nil
}

// opSig turns a Go signature into the type of a RingOps field: nilable parameters in their
// non-nil form; result either in the subset or, with sel != "", the field sel of a struct.
func (p *glPkg) opSig(ft *ast.FuncType, sel string) ([]glTy, glTy, error) {
	var params []glTy
	for _, f := range ft.Params.List {
		if _, ok := f.Type.(*ast.Ellipsis); ok {
			return nil, glTy{}, fmt.Errorf("variadic callee")
		}
		t, ok := p.parseType(f.Type)
		if !ok {
			return nil, glTy{}, fmt.Errorf("callee parameter type outside the subset")
		}
		t.nn = t.nilable()
		n := len(f.Names)
		if n == 0 {
			n = 1
		}
		for i := 0; i < n; i++ {
			params = append(params, t)
		}
	}
	if ft.Results == nil || len(ft.Results.List) != 1 || len(ft.Results.List[0].Names) > 1 {
		return nil, glTy{}, fmt.Errorf("callee must have exactly one result")
	}
	rt := ft.Results.List[0].Type
	if sel == "" {
		t, ok := p.parseType(rt)
		if !ok {
			return nil, glTy{}, fmt.Errorf("callee result type outside the subset")
		}
		return params, t, nil
	}
	id, ok := rt.(*ast.Ident)
	if !ok || p.types[p.resolve(id.Name)] == nil {
		return nil, glTy{}, fmt.Errorf("field %s of a result that is not a named struct", sel)
	}
	st, ok := p.types[p.resolve(id.Name)].Type.(*ast.StructType)
	if !ok {
		return nil, glTy{}, fmt.Errorf("field %s of a result that is not a struct", sel)
	}
	for _, f := range st.Fields.List {
		for _, n := range f.Names {
			if n.Name == sel {
				if t, ok := p.parseType(f.Type); ok {
					return params, t, nil
				}
				return nil, glTy{}, fmt.Errorf("field %s.%s: type outside the subset", id.Name, sel)
			}
		}
	}
	return nil, glTy{}, fmt.Errorf("no field %s in %s", sel, id.Name)
}

// ---------------------------------------------------------------------------------------------
// identifiers, environment

var glReserved = map[string]bool{"ops": true, "forRange": true, "Flow": true, "Exit": true,
	"GPoly": true, "RingOps": true, "R": true, "L": true, "B": true, "P": true, "List": true,
	"GGen": true, "Unit": true}

func (p *glPkg) ident(name string) (string, error) {
	for _, r := range name {
		if !(r < 128 && (r == '_' || r >= '0' && r <= '9' || r >= 'a' && r <= 'z' || r >= 'A' && r <= 'Z')) {
			return "", fmt.Errorf("identifier %q: unsupported character %q", name, r)
		}
	}
	if name == "_" {
		return "", fmt.Errorf("blank identifier used as a value")
	}
	if knReserved[name] || glReserved[name] {
		return name + "_", nil
	}
	for _, f := range p.funcs {
		if f.leanName == name {
			return name + "_", nil
		}
	}
	return name, nil
}

type glVar struct {
	lean string
	ty   glTy
}

// glEnv: vars maps Go variables to Lean names and types (a refined nilable variable is
// shadowed by its non-nil value); ref maps refined Go paths ("poly.Exterior") to the Lean
// variable bound by the `some` arm of the nil test.
type glEnv struct {
	vars map[string]glVar
	ref  map[string]glVar
}

func (e *glEnv) copy() *glEnv {
	n := &glEnv{vars: map[string]glVar{}, ref: map[string]glVar{}}
	for k, v := range e.vars {
		n.vars[k] = v
	}
	for k, v := range e.ref {
		n.ref[k] = v
	}
	return n
}

// forget drops what is known about the paths rooted at variable name (it is being assigned).
func (e *glEnv) forget(name string) {
	for k := range e.ref {
		if strings.HasPrefix(k, name+".") {
			delete(e.ref, k)
		}
	}
}

// glPath: canonical text of a variable or field path ("" for anything else).
func glPath(e ast.Expr) string {
	switch e := e.(type) {
	case *ast.Ident:
		return e.Name
	case *ast.ParenExpr:
		return glPath(e.X)
	case *ast.SelectorExpr:
		if s := glPath(e.X); s != "" {
			return s + "." + e.Sel.Name
		}
	}
	return ""
}

type glTr struct {
	pkg *glPkg
	fn  *glFunc
	ops map[string]*glOp
	n   int // translated statement lists (bound on the copies made by `if`)
}

func (t *glTr) pos(n ast.Node) string {
	p := t.pkg.fset.Position(n.Pos())
	return fmt.Sprintf("%s:%d", p.Filename, p.Line)
}

func (t *glTr) errf(n ast.Node, format string, args ...interface{}) error {
	return fmt.Errorf("%s: %s", t.pos(n), fmt.Sprintf(format, args...))
}

// ---------------------------------------------------------------------------------------------
// expressions

type glExpr struct {
	s      string
	atomic bool
	ty     glTy
}

func (e glExpr) atom() string {
	if e.atomic {
		return e.s
	}
	return "(" + e.s + ")"
}

// useOp registers a RingOps field.
func (t *glTr) useOp(name string, params []glTy, result glTy, comment string) {
	if _, ok := t.ops[name]; !ok {
		t.ops[name] = &glOp{name: name, params: params, result: result, comment: comment}
	}
}

// coerce converts v to the parameter type want (want.nn: a non-nil value is required).
func (t *glTr) coerce(n ast.Node, v glExpr, want glTy) (glExpr, error) {
	if want.k == glRing && v.ty.k == glRect {
		t.useOp("ringOfRect", []glTy{{k: glRect}}, glTy{k: glRing, nn: true},
			"the implicit conversion of a Rect to the interface Ring (= Series)")
		v = glExpr{s: "ops.ringOfRect " + v.atom(), ty: glTy{k: glRing, nn: true}}
	}
	if v.ty.k == glNil && want.nilable() && !want.nn {
		return glExpr{s: "none", atomic: true, ty: want}, nil
	}
	if v.ty.k != want.k {
		return glExpr{}, t.errf(n, "%s used where %s is expected", v.ty.goName(), want.goName())
	}
	if !want.nilable() || want.nn == v.ty.nn {
		return v, nil
	}
	if want.nn {
		return glExpr{}, t.errf(n, "%s value not known to be non-nil here", v.ty.goName())
	}
	return glExpr{s: "some " + v.atom(), ty: want}, nil
}

func (t *glTr) boolExpr(e ast.Expr, env *glEnv) (glExpr, error) {
	v, err := t.expr(e, env)
	if err != nil {
		return v, err
	}
	if v.ty.k != glBool {
		return v, t.errf(e, "%s used as a condition", v.ty.goName())
	}
	return v, nil
}

func glIsNil(e ast.Expr, env *glEnv) bool {
	id, ok := e.(*ast.Ident)
	if !ok || id.Name != "nil" {
		return false
	}
	_, shadowed := env.vars["nil"]
	return !shadowed
}

// nilTest recognises `x == nil`, `nil == x`, `x != nil`, `nil != x`.
func glNilTest(e ast.Expr, env *glEnv) (x ast.Expr, isEq bool, ok bool) {
	b, isBin := e.(*ast.BinaryExpr)
	if !isBin || (b.Op != token.EQL && b.Op != token.NEQ) {
		return nil, false, false
	}
	switch {
	case glIsNil(b.Y, env) && !glIsNil(b.X, env):
		return b.X, b.Op == token.EQL, true
	case glIsNil(b.X, env) && !glIsNil(b.Y, env):
		return b.Y, b.Op == token.EQL, true
	}
	return nil, false, false
}

func (t *glTr) expr(e ast.Expr, env *glEnv) (glExpr, error) {
	switch e := e.(type) {
	case *ast.ParenExpr:
		return t.expr(e.X, env)
	case *ast.Ident:
		if v, ok := env.vars[e.Name]; ok {
			return glExpr{s: v.lean, atomic: true, ty: v.ty}, nil
		}
		switch e.Name {
		case "true", "false":
			return glExpr{s: e.Name, atomic: true, ty: glTy{k: glBool}}, nil
		case "nil":
			return glExpr{s: "none", atomic: true, ty: glTy{k: glNil}}, nil
		}
		return glExpr{}, t.errf(e, "identifier %s is not a local variable", e.Name)
	case *ast.UnaryExpr:
		switch e.Op {
		case token.NOT:
			v, err := t.boolExpr(e.X, env)
			if err != nil {
				return v, err
			}
			return glExpr{s: "!" + v.atom(), ty: glTy{k: glBool}}, nil
		case token.AND:
			if c, ok := e.X.(*ast.CompositeLit); ok {
				return t.composite(c, true, env)
			}
		}
		return glExpr{}, t.errf(e, "unary operator %s outside the subset", e.Op)
	case *ast.BinaryExpr:
		return t.binary(e, env)
	case *ast.CompositeLit:
		return t.composite(e, false, env)
	case *ast.CallExpr:
		return t.call(e, "", env)
	case *ast.SelectorExpr:
		if c, ok := e.X.(*ast.CallExpr); ok {
			return t.call(c, e.Sel.Name, env)
		}
		return t.field(e, env)
	}
	return glExpr{}, t.errf(e, "expression outside the subset (%T)", e)
}

func (t *glTr) binary(e *ast.BinaryExpr, env *glEnv) (glExpr, error) {
	b := glTy{k: glBool}
	if x, isEq, ok := glNilTest(e, env); ok {
		v, err := t.expr(x, env)
		if err != nil {
			return v, err
		}
		if !v.ty.nilable() {
			return v, t.errf(e, "%s compared with nil", v.ty.goName())
		}
		if v.ty.nn {
			return glExpr{s: map[bool]string{true: "false", false: "true"}[isEq], atomic: true, ty: b}, nil
		}
		return glExpr{s: v.atom() + map[bool]string{true: ".isNone", false: ".isSome"}[isEq], atomic: true, ty: b}, nil
	}
	var op string
	switch e.Op {
	case token.LAND:
		op = "&&"
	case token.LOR:
		op = "||"
	case token.EQL:
		op = "=="
	case token.NEQ:
		op = "!="
	default:
		return glExpr{}, t.errf(e, "operator %s outside the subset", e.Op)
	}
	x, err := t.boolExpr(e.X, env)
	if err != nil {
		return x, err
	}
	y, err := t.boolExpr(e.Y, env)
	if err != nil {
		return y, err
	}
	return glExpr{s: x.atom() + " " + op + " " + y.atom(), ty: b}, nil
}

// field: poly.Exterior / poly.Holes on a *Poly known to be non-nil.
func (t *glTr) field(e *ast.SelectorExpr, env *glEnv) (glExpr, error) {
	if p := glPath(e); p != "" {
		if v, ok := env.ref[p]; ok {
			return glExpr{s: v.lean, atomic: true, ty: v.ty}, nil
		}
	}
	x, err := t.expr(e.X, env)
	if err != nil {
		return x, err
	}
	if x.ty.k != glPoly {
		return x, t.errf(e, "field %s of a %s: outside the subset", e.Sel.Name, x.ty.goName())
	}
	if t.pkg.badPoly != "" {
		return x, t.errf(e, "%s", t.pkg.badPoly)
	}
	if !x.ty.nn {
		return x, t.errf(e, "field %s of a *Poly not known to be non-nil here", e.Sel.Name)
	}
	switch e.Sel.Name {
	case "Exterior":
		return glExpr{s: x.atom() + ".ext", atomic: true, ty: glTy{k: glRing}}, nil
	case "Holes":
		return glExpr{s: x.atom() + ".holes", atomic: true, ty: glTy{k: glRings}}, nil
	}
	return x, t.errf(e, "no field %s in Poly", e.Sel.Name)
}

// composite: `Poly{Exterior: …, Holes: …}` under & and the zero value `Rect{}`.
func (t *glTr) composite(c *ast.CompositeLit, addr bool, env *glEnv) (glExpr, error) {
	id, ok := c.Type.(*ast.Ident)
	if !ok {
		return glExpr{}, t.errf(c, "composite literal outside the subset")
	}
	switch {
	case t.pkg.resolve(id.Name) == "Rect" && !addr:
		if len(c.Elts) != 0 {
			return glExpr{}, t.errf(c, "Rect literal with fields: numeric code is outside the subset")
		}
		t.useOp("rectZero", nil, glTy{k: glRect}, "the zero value `Rect{}`")
		return glExpr{s: "ops.rectZero", atomic: true, ty: glTy{k: glRect}}, nil
	case t.pkg.resolve(id.Name) == "Poly" && addr:
		if t.pkg.badPoly != "" {
			return glExpr{}, t.errf(c, "%s", t.pkg.badPoly)
		}
		ext, holes := "none", "[]"
		seen := map[string]bool{}
		for _, el := range c.Elts {
			kv, ok := el.(*ast.KeyValueExpr)
			if !ok {
				return glExpr{}, t.errf(el, "positional Poly literal")
			}
			k, ok := kv.Key.(*ast.Ident)
			if !ok || seen[k.Name] {
				return glExpr{}, t.errf(el, "Poly literal key")
			}
			seen[k.Name] = true
			v, err := t.expr(kv.Value, env)
			if err != nil {
				return v, err
			}
			switch k.Name {
			case "Exterior":
				if v, err = t.coerce(kv.Value, v, glTy{k: glRing}); err != nil {
					return v, err
				}
				ext = v.s
			case "Holes":
				if v, err = t.coerce(kv.Value, v, glTy{k: glRings}); err != nil {
					return v, err
				}
				holes = v.s
			default:
				return glExpr{}, t.errf(el, "no field %s in Poly", k.Name)
			}
		}
		return glExpr{s: "{ ext := " + ext + ", holes := " + holes + " : GPoly R }", atomic: true,
			ty: glTy{k: glPoly, nn: true}}, nil
	}
	return glExpr{}, t.errf(c, "composite literal outside the subset")
}

var glKindName = map[glKind]string{glRing: "Ring", glRect: "Rect", glPoly: "Poly", glLine: "Line"}

// declText: the source text of a declaration (a function up to its body), on one line.
func (p *glPkg) declText(n ast.Node) string {
	a, b := p.fset.Position(n.Pos()), p.fset.Position(n.End())
	if d, ok := n.(*ast.FuncDecl); ok && d.Body != nil {
		b = p.fset.Position(d.Body.Lbrace)
	}
	src := p.srcs[a.Filename]
	if a.Offset < 0 || b.Offset > len(src) || a.Offset >= b.Offset {
		return "?"
	}
	return strings.Join(strings.Fields(string(src[a.Offset:b.Offset])), " ")
}

// call: f(args), x.M(args), optionally followed by `.sel` (sel != "").
func (t *glTr) call(c *ast.CallExpr, sel string, env *glEnv) (glExpr, error) {
	if c.Ellipsis.IsValid() {
		return glExpr{}, t.errf(c, "variadic call")
	}
	var args []glExpr
	for _, a := range c.Args {
		v, err := t.expr(a, env)
		if err != nil {
			return v, err
		}
		args = append(args, v)
	}
	var opName, where, what string
	var ft *ast.FuncType
	switch f := c.Fun.(type) {
	case *ast.Ident:
		if _, local := env.vars[f.Name]; local {
			return glExpr{}, t.errf(c, "call of a local value")
		}
		d := t.pkg.funcs[f.Name]
		if d == nil || d.decl.Recv != nil {
			return glExpr{}, t.errf(c, "call of %s: not a function of package geometry (conversions and builtins are outside the subset)", f.Name)
		}
		opName, ft, where, what = f.Name, d.decl.Type, t.pos(d.decl), t.pkg.declText(d.decl)
	case *ast.SelectorExpr:
		recv, err := t.expr(f.X, env)
		if err != nil {
			return recv, err
		}
		tn, ok := glKindName[recv.ty.k]
		if !ok {
			return recv, t.errf(c, "method call on a %s", recv.ty.goName())
		}
		key := tn + "." + f.Sel.Name
		if glIsTarget[key] && sel == "" {
			return t.glueCall(c, key, recv, args)
		}
		var node ast.Node
		if ft, node = t.pkg.method(recv.ty.k, f.Sel.Name); ft == nil {
			return recv, t.errf(c, "method %s not found on %s", f.Sel.Name, recv.ty.goName())
		}
		where, what = t.pos(node), t.pkg.declText(node)
		opName = knLowerFirst(tn) + f.Sel.Name
		args = append([]glExpr{recv}, args...)
	default:
		return glExpr{}, t.errf(c, "call outside the subset")
	}
	params, res, err := t.pkg.opSig(ft, sel)
	if err != nil {
		return glExpr{}, t.errf(c, "%s: %v", what, err)
	}
	if _, isMethod := c.Fun.(*ast.SelectorExpr); isMethod {
		rt := args[0].ty
		rt.nn = rt.nilable()
		params = append([]glTy{rt}, params...)
	}
	comment := "Go: `" + what + "`"
	if sel != "" {
		opName += "_" + sel
		comment += " (field ." + sel + " of the result)"
	}
	comment += " — geometry/" + where
	if len(args) != len(params) {
		return glExpr{}, t.errf(c, "%s: %d arguments for %d parameters", what, len(args), len(params))
	}
	s := "ops." + opName
	for i := range args {
		a, err := t.coerce(c, args[i], params[i])
		if err != nil {
			return a, err
		}
		s += " " + a.atom()
	}
	t.useOp(opName, params, res, comment)
	return glExpr{s: s, atomic: len(args) == 0, ty: res}, nil
}

// glueCall: a call of another translated glue method (nilable arguments are passed as Options).
func (t *glTr) glueCall(c *ast.CallExpr, key string, recv glExpr, args []glExpr) (glExpr, error) {
	f := t.pkg.request(key)
	switch {
	case f == nil:
		return glExpr{}, t.errf(c, "no method %s in package geometry", key)
	case f.state == 1:
		return glExpr{}, t.errf(c, "recursion through %s", key)
	case f.err != nil:
		return glExpr{}, t.errf(c, "calls %s, which is not recognised", key)
	}
	args = append([]glExpr{recv}, args...)
	if len(args) != len(f.params) {
		return glExpr{}, t.errf(c, "%s: %d arguments for %d parameters", key, len(args)-1, len(f.params)-1)
	}
	s := f.leanName + " ops"
	for i := range args {
		a, err := t.coerce(c, args[i], f.params[i])
		if err != nil {
			return a, err
		}
		s += " " + a.atom()
	}
	return glExpr{s: s, ty: f.result}, nil
}

// ---------------------------------------------------------------------------------------------
// statements (continuation style: a statement list becomes one expression)

type glMode struct {
	loop  bool
	state []string // Go names of the loop state (loop only)
}

func (t *glTr) stateTuple(names []string, env *glEnv) string {
	var parts []string
	for _, n := range names {
		if v := env.vars[n]; v.ty.nilable() && v.ty.nn {
			parts = append(parts, "(some "+v.lean+")")
		} else {
			parts = append(parts, v.lean)
		}
	}
	switch len(parts) {
	case 0:
		return "()"
	case 1:
		return parts[0]
	}
	return "(" + strings.Join(parts, ", ") + ")"
}

func (t *glTr) emit(lines []string) ([]string, error) {
	return lines, nil
}

func (t *glTr) ret(m glMode, v string) string {
	if m.loop {
		return "Flow.ret " + v
	}
	return v
}

func (t *glTr) block(list []ast.Stmt, env *glEnv, m glMode) ([]string, error) {
	if t.n++; t.n > 4000 {
		return nil, fmt.Errorf("%s: too many copies made by `if` statements that fall through", t.fn.key)
	}
	if len(list) == 0 {
		if !m.loop {
			return nil, fmt.Errorf("%s: control reaches the end of the function", t.fn.key)
		}
		return t.emit([]string{"Flow.next " + t.stateTuple(m.state, env)})
	}
	rest := list[1:]
	switch s := list[0].(type) {
	case *ast.EmptyStmt:
		return t.block(rest, env, m)
	case *ast.ReturnStmt:
		if len(s.Results) != 1 {
			return nil, t.errf(s, "return with %d values", len(s.Results))
		}
		v, err := t.expr(s.Results[0], env)
		if err != nil {
			return nil, err
		}
		if v, err = t.coerce(s, v, t.fn.result); err != nil {
			return nil, err
		}
		if m.loop {
			return t.emit([]string{"Flow.ret " + v.atom()})
		}
		return t.emit([]string{v.s})
	case *ast.BranchStmt:
		if s.Label != nil || !m.loop || (s.Tok != token.BREAK && s.Tok != token.CONTINUE) {
			return nil, t.errf(s, "%s outside the subset", s.Tok)
		}
		if s.Tok == token.BREAK {
			return t.emit([]string{"Flow.brk " + t.stateTuple(m.state, env)})
		}
		return t.emit([]string{"Flow.next " + t.stateTuple(m.state, env)})
	case *ast.AssignStmt:
		line, err := t.assign(s, env)
		if err != nil {
			return nil, err
		}
		tail, err := t.block(rest, env, m)
		if err != nil {
			return nil, err
		}
		return t.emit(append([]string{line}, tail...))
	case *ast.DeclStmt:
		line, err := t.declStmt(s, env)
		if err != nil {
			return nil, err
		}
		tail, err := t.block(rest, env, m)
		if err != nil {
			return nil, err
		}
		return t.emit(append([]string{line}, tail...))
	case *ast.IfStmt:
		if s.Init != nil {
			return nil, t.errf(s, "if with an init statement")
		}
		var els []ast.Stmt
		switch e := s.Else.(type) {
		case *ast.BlockStmt:
			els = e.List
		case *ast.IfStmt:
			els = []ast.Stmt{e}
		}
		join := func(a []ast.Stmt) []ast.Stmt { return append(append([]ast.Stmt{}, a...), rest...) }
		return t.cond(s.Cond, env,
			func(e *glEnv) ([]string, error) { return t.block(join(s.Body.List), e, m) },
			func(e *glEnv) ([]string, error) { return t.block(join(els), e, m) })
	case *ast.RangeStmt:
		return t.rangeStmt(s, rest, env, m)
	}
	return nil, t.errf(list[0], "statement outside the subset (%T)", list[0])
}

func glHasNilTest(e ast.Expr, env *glEnv) bool {
	found := false
	ast.Inspect(e, func(n ast.Node) bool {
		if x, ok := n.(ast.Expr); ok {
			if _, _, is := glNilTest(x, env); is {
				found = true
			}
		}
		return !found
	})
	return found
}

// cond translates `if c { thenK } else { elseK }`.  Each continuation receives its own copy of
// the environment, refined by what the condition proves on that side.
func (t *glTr) cond(c ast.Expr, env *glEnv, thenK, elseK func(*glEnv) ([]string, error)) ([]string, error) {
	if p, ok := c.(*ast.ParenExpr); ok {
		return t.cond(p.X, env, thenK, elseK)
	}
	if !glHasNilTest(c, env) {
		v, err := t.boolExpr(c, env)
		if err != nil {
			return nil, err
		}
		th, err := thenK(env.copy())
		if err != nil {
			return nil, err
		}
		el, err := elseK(env.copy())
		if err != nil {
			return nil, err
		}
		return t.emit(knIfLines(v.s, th, el))
	}
	if x, isEq, ok := glNilTest(c, env); ok {
		if !isEq {
			thenK, elseK = elseK, thenK
		}
		return t.nilMatch(c, x, env, thenK, elseK)
	}
	switch e := c.(type) {
	case *ast.UnaryExpr:
		if e.Op == token.NOT {
			return t.cond(e.X, env, elseK, thenK)
		}
	case *ast.BinaryExpr:
		switch e.Op {
		case token.LOR:
			return t.cond(e.X, env, thenK, func(e2 *glEnv) ([]string, error) { return t.cond(e.Y, e2, thenK, elseK) })
		case token.LAND:
			return t.cond(e.X, env, func(e2 *glEnv) ([]string, error) { return t.cond(e.Y, e2, thenK, elseK) }, elseK)
		}
	}
	return nil, t.errf(c, "nil test inside a condition that is not built from ||, && and !")
}

// nilMatch: `if x == nil { noneK } else { someK }` as a match that refines x in the some arm.
func (t *glTr) nilMatch(n ast.Node, x ast.Expr, env *glEnv, noneK, someK func(*glEnv) ([]string, error)) ([]string, error) {
	v, err := t.expr(x, env)
	if err != nil {
		return nil, err
	}
	if !v.ty.nilable() {
		return nil, t.errf(n, "%s compared with nil", v.ty.goName())
	}
	if v.ty.nn { // already proved non-nil by a dominating test: the nil side is dead
		return someK(env.copy())
	}
	someEnv := env.copy()
	nn := v.ty
	nn.nn = true
	bind := "_"
	path := glPath(x)
	if old, isVar := env.vars[path]; isVar {
		bind = old.lean
		someEnv.vars[path] = glVar{lean: bind, ty: nn}
	} else if path != "" {
		if bind, err = t.pkg.ident(strings.ReplaceAll(path, ".", "_")); err != nil {
			return nil, t.errf(n, "%v", err)
		}
		for clash := true; clash; {
			clash = false
			for _, u := range env.vars {
				clash = clash || u.lean == bind
			}
			for _, u := range env.ref {
				clash = clash || u.lean == bind
			}
			if clash {
				bind += "_"
			}
		}
		someEnv.ref[path] = glVar{lean: bind, ty: nn}
	}
	no, err := noneK(env.copy())
	if err != nil {
		return nil, err
	}
	so, err := someK(someEnv)
	if err != nil {
		return nil, err
	}
	out := []string{"(match " + v.s + " with", "| none =>"}
	out = append(out, knIndent(no)...)
	out = append(out, "| some "+bind+" =>")
	out = append(out, knIndent(so)...)
	out[len(out)-1] += ")"
	return t.emit(out)
}

func (t *glTr) assign(s *ast.AssignStmt, env *glEnv) (string, error) {
	if len(s.Lhs) != 1 || len(s.Rhs) != 1 {
		return "", t.errf(s, "tuple assignment")
	}
	id, ok := s.Lhs[0].(*ast.Ident)
	if !ok {
		return "", t.errf(s, "assignment to something that is not a plain variable")
	}
	v, err := t.expr(s.Rhs[0], env)
	if err != nil {
		return "", err
	}
	old, exists := env.vars[id.Name]
	switch s.Tok {
	case token.DEFINE:
		if exists {
			return "", t.errf(s, "redeclaration of %s (shadowing is outside the subset)", id.Name)
		}
		if v.ty.k == glNil {
			return "", t.errf(s, "untyped nil")
		}
		name, err := t.pkg.ident(id.Name)
		if err != nil {
			return "", t.errf(s, "%v", err)
		}
		env.vars[id.Name] = glVar{lean: name, ty: v.ty}
		return "let " + name + " : " + v.ty.lean() + " := " + v.s, nil
	case token.ASSIGN:
		if !exists {
			return "", t.errf(s, "assignment to %s, which is not a local variable", id.Name)
		}
		want := old.ty
		want.nn = v.ty.nn && v.ty.k == old.ty.k
		if v, err = t.coerce(s, v, want); err != nil {
			return "", err
		}
		env.forget(id.Name)
		env.vars[id.Name] = glVar{lean: old.lean, ty: want}
		return "let " + old.lean + " : " + want.lean() + " := " + v.s, nil
	}
	return "", t.errf(s, "assignment operator %s outside the subset", s.Tok)
}

func (t *glTr) declStmt(s *ast.DeclStmt, env *glEnv) (string, error) {
	g, ok := s.Decl.(*ast.GenDecl)
	if !ok || g.Tok != token.VAR || len(g.Specs) != 1 {
		return "", t.errf(s, "declaration outside the subset")
	}
	sp := g.Specs[0].(*ast.ValueSpec)
	if len(sp.Names) != 1 || len(sp.Values) > 1 || (sp.Type == nil && len(sp.Values) == 0) {
		return "", t.errf(s, "var declaration outside the subset")
	}
	if _, exists := env.vars[sp.Names[0].Name]; exists {
		return "", t.errf(s, "redeclaration of %s (shadowing is outside the subset)", sp.Names[0].Name)
	}
	name, err := t.pkg.ident(sp.Names[0].Name)
	if err != nil {
		return "", t.errf(s, "%v", err)
	}
	var v glExpr
	if len(sp.Values) == 1 {
		if v, err = t.expr(sp.Values[0], env); err != nil {
			return "", err
		}
	}
	ty := v.ty
	if sp.Type != nil {
		if ty, ok = t.pkg.parseType(sp.Type); !ok {
			return "", t.errf(s, "variable type outside the subset")
		}
		if len(sp.Values) == 1 {
			ty.nn = v.ty.nn && v.ty.k == ty.k
			if v, err = t.coerce(s, v, ty); err != nil {
				return "", err
			}
		} else {
			switch {
			case ty.k == glBool:
				v = glExpr{s: "false"}
			case ty.nilable():
				v = glExpr{s: "none"}
			case ty.k == glRings:
				v = glExpr{s: "[]"}
			case ty.k == glRect:
				t.useOp("rectZero", nil, glTy{k: glRect}, "the zero value `Rect{}`")
				v = glExpr{s: "ops.rectZero"}
			default:
				return "", t.errf(s, "zero value of %s outside the subset", ty.goName())
			}
		}
	}
	if ty.k == glNil || ty.k == glBad {
		return "", t.errf(s, "untyped nil")
	}
	env.vars[sp.Names[0].Name] = glVar{lean: name, ty: ty}
	return "let " + name + " : " + ty.lean() + " := " + v.s, nil
}

// glAssigned lists, in order of first appearance, the variables of outer that body assigns.
func (t *glTr) assigned(body *ast.BlockStmt, outer *glEnv) ([]string, error) {
	var names []string
	var err error
	seen := map[string]bool{}
	ast.Inspect(body, func(n ast.Node) bool {
		switch n := n.(type) {
		case *ast.FuncLit:
			err = t.errf(n, "function literal")
		case *ast.IncDecStmt:
			err = t.errf(n, "%s statement", n.Tok)
		case *ast.AssignStmt:
			if n.Tok == token.DEFINE {
				return true
			}
			for _, l := range n.Lhs {
				if id, ok := l.(*ast.Ident); ok {
					if _, isOuter := outer.vars[id.Name]; isOuter && !seen[id.Name] {
						seen[id.Name] = true
						names = append(names, id.Name)
					}
				}
			}
		}
		return err == nil
	})
	return names, err
}

// rangeStmt: `for _, h := range xs { body }; rest`.
func (t *glTr) rangeStmt(s *ast.RangeStmt, rest []ast.Stmt, env *glEnv, m glMode) ([]string, error) {
	if s.Tok != token.DEFINE {
		return nil, t.errf(s, "range loop that does not declare its variables")
	}
	if k, ok := s.Key.(*ast.Ident); s.Key != nil && !(ok && k.Name == "_") {
		return nil, t.errf(s, "range loop that uses the index")
	}
	xs, err := t.expr(s.X, env)
	if err != nil {
		return nil, err
	}
	if xs.ty.k != glRings {
		return nil, t.errf(s, "range over a %s", xs.ty.goName())
	}
	state, err := t.assigned(s.Body, env)
	if err != nil {
		return nil, err
	}
	init := t.stateTuple(state, env)
	// inside and after the loop nothing is known about the state variables
	after := env.copy()
	for _, n := range state {
		v := after.vars[n]
		v.ty.nn = false
		after.vars[n] = v
		after.forget(n)
	}
	inner := after.copy()
	elem := "_"
	if v, ok := s.Value.(*ast.Ident); ok && v.Name != "_" {
		if _, exists := env.vars[v.Name]; exists {
			return nil, t.errf(s, "redeclaration of %s (shadowing is outside the subset)", v.Name)
		}
		if elem, err = t.pkg.ident(v.Name); err != nil {
			return nil, t.errf(s, "%v", err)
		}
		inner.vars[v.Name] = glVar{lean: elem, ty: glTy{k: glRing, nn: true}}
	} else if s.Value != nil && !ok {
		return nil, t.errf(s, "range value that is not a variable")
	}
	pat := t.stateTuple(state, after)
	body, err := t.block(s.Body.List, inner, glMode{loop: true, state: state})
	if err != nil {
		return nil, err
	}
	tail, err := t.block(rest, after, m)
	if err != nil {
		return nil, err
	}
	out := []string{"(match forRange (fun " + elem + " " + pat + " =>"}
	out = append(out, knIndent(knIndent(body))...)
	out[len(out)-1] += ") " + xs.atom() + " " + init + " with"
	out = append(out, "| Exit.ret r' =>", "  "+t.ret(m, "r'"), "| Exit.done "+pat+" =>")
	out = append(out, knIndent(tail)...)
	out[len(out)-1] += ")"
	return t.emit(out)
}

// ---------------------------------------------------------------------------------------------
// functions

func (p *glPkg) request(key string) *glFunc {
	f := p.funcs[key]
	if f == nil {
		return nil
	}
	if f.state != 0 {
		return f
	}
	f.state = 1
	t := &glTr{pkg: p, fn: f, ops: map[string]*glOp{}}
	f.lines, f.err = t.function()
	f.ops = t.ops
	f.state = 2
	p.order = append(p.order, f)
	return f
}

func (t *glTr) function() ([]string, error) {
	f, d := t.fn, t.fn.decl
	f.comment = fmt.Sprintf("/-- Go: `%s` — geometry/%s -/", t.pkg.declText(d), t.pos(d))
	if d.Body == nil {
		return nil, t.errf(d, "function without a body")
	}
	if d.Type.TypeParams != nil {
		return nil, t.errf(d, "generic function")
	}
	env := &glEnv{vars: map[string]glVar{}, ref: map[string]glVar{}}
	var binders []string
	add := func(n *ast.Ident, te ast.Expr) error {
		ty, ok := t.pkg.parseType(te)
		if !ok {
			return t.errf(te, "parameter type outside the subset")
		}
		f.params = append(f.params, ty)
		if n == nil || n.Name == "_" {
			binders = append(binders, "(_ : "+ty.lean()+")")
			return nil
		}
		if _, dup := env.vars[n.Name]; dup {
			return t.errf(n, "duplicate parameter %s", n.Name)
		}
		id, err := t.pkg.ident(n.Name)
		if err != nil {
			return t.errf(n, "%v", err)
		}
		env.vars[n.Name] = glVar{lean: id, ty: ty}
		binders = append(binders, "("+id+" : "+ty.lean()+")")
		return nil
	}
	var fields []*ast.Field
	if d.Recv != nil {
		fields = append(fields, d.Recv.List...)
		f.hasRecv = true
	}
	fields = append(fields, d.Type.Params.List...)
	for _, fld := range fields {
		if _, ok := fld.Type.(*ast.Ellipsis); ok {
			return nil, t.errf(fld, "variadic parameter")
		}
		if len(fld.Names) == 0 {
			if err := add(nil, fld.Type); err != nil {
				return nil, err
			}
		}
		for _, n := range fld.Names {
			if err := add(n, fld.Type); err != nil {
				return nil, err
			}
		}
	}
	if d.Type.Results == nil || len(d.Type.Results.List) != 1 || len(d.Type.Results.List[0].Names) != 0 {
		return nil, t.errf(d, "exactly one unnamed result is required")
	}
	res, ok := t.pkg.parseType(d.Type.Results.List[0].Type)
	if !ok {
		return nil, t.errf(d, "result type outside the subset")
	}
	f.result = res
	body, err := t.block(d.Body.List, env, glMode{})
	if err != nil {
		return nil, err
	}
	head := "def " + f.leanName + " {R L B P : Type} (ops : RingOps R L B P) " +
		strings.Join(binders, " ") + " : " + res.lean() + " :="
	return append([]string{head}, knIndent(body)...), nil
}

const glHeader = `/-
  GENERATED FILE — do not edit.  Regenerate with
      cd /verif/translate && go build -o bin/translate . && \
        ./bin/translate glue /repo > /verif/lean/GeoModel/Generated/GlueGen.lean

  Syntactic translation (translate/glue.go) of the glue above the ring level of package
  geometry: the methods of *Poly (poly.go: hole loops), the Rect methods that forward to rings
  and polygons (rect.go) and the simple forwards of *Line (line.go).

  Conventions:
    * the definitions are parametrised by ` + "`ops : RingOps R L B P`" + `: one field per distinct callee
      that is not itself translated here (package functions under their own name, method T.M
      as tM, ` + "`f(…).fld`" + ` as f_fld), found in the source; R = non-nil Ring, L = non-nil *Line,
      B = Rect, P = Point; ringOfRect is the implicit conversion Rect → Ring, rectZero is Rect{};
      the callees are taken to be pure (statements that could mutate are not recognised);
    * *Poly ↦ Option (GPoly R), *Line ↦ Option L, Ring ↦ Option R (none = nil), []Ring ↦ List R
      (the elements of Holes are taken to be non-nil); ` + "`x == nil`" + ` in a condition ↦ match on the
      Option, the some arm rebinds the non-nil value (variable: same name; field path
      poly.Exterior: poly_Exterior); a RingOps field or a field access is only ever applied
      to a value proved non-nil that way (otherwise the function is not recognised);
    * method T.M ↦ def tM (receiver first); x := e, x = e ↦ let;
    * a statement list becomes one expression, continuation style; the statements after an
      ` + "`if`" + ` are copied into every arm that falls through; a condition that contains nil tests
      is split along ||, && and ! (short-circuit order);
    * ` + "`for _, h := range xs { body }`" + ` ↦ forRange (fun h state => body) xs state, where state is
      the tuple of the outer variables assigned in body; end of body / continue ↦ Flow.next,
      break ↦ Flow.brk, return e ↦ Flow.ret e; the statements after the loop are the
      Exit.done arm of the match on the result.
  Anything outside the recognised subset appears below as  opaque <name>_unrecognised : Unit.
-/

set_option linter.unusedVariables false

namespace Geo.GGen

/-- ` + "`Poly{Exterior Ring; Holes []Ring}`" + ` over an abstract type of non-nil rings. -/
structure GPoly (R : Type) where
  ext : Option R
  holes : List R

/-- how one pass through a loop body ends -/
inductive Flow (σ ρ : Type) where
  | next (s : σ) : Flow σ ρ
  | brk (s : σ) : Flow σ ρ
  | ret (r : ρ) : Flow σ ρ

/-- how a loop ends: normally (or by break) with the final state, or by ` + "`return r`" + ` -/
inductive Exit (σ ρ : Type) where
  | done (s : σ) : Exit σ ρ
  | ret (r : ρ) : Exit σ ρ

/-- ` + "`for _, x := range xs { body }`" + `: structural recursion over the list. -/
def forRange {ε σ ρ : Type} (body : ε → σ → Flow σ ρ) : List ε → σ → Exit σ ρ
  | [], s => Exit.done s
  | x :: xs, s =>
    match body x s with
    | Flow.next s' => forRange body xs s'
    | Flow.brk s' => Exit.done s'
    | Flow.ret r => Exit.ret r
`

func translateGlue(repo string) (string, error) {
	pkg, err := glLoad(repo)
	if err != nil {
		return "", err
	}
	var missing []string
	for _, key := range glTargets {
		if pkg.request(key) == nil {
			missing = append(missing, key)
		}
	}
	ops := map[string]*glOp{}
	for _, f := range pkg.order {
		if f.err == nil {
			for n, o := range f.ops {
				if _, ok := ops[n]; !ok {
					ops[n] = o
				}
			}
		}
	}
	var names []string
	for n := range ops {
		names = append(names, n)
	}
	sort.Strings(names)
	var b strings.Builder
	b.WriteString(glHeader)
	b.WriteString("\n/-- the callees of the glue, one field per distinct callee found in the source -/\n")
	b.WriteString("structure RingOps (R L B P : Type) where\n")
	for _, n := range names {
		fmt.Fprintf(&b, "  /-- %s -/\n  %s : %s\n", ops[n].comment, n, ops[n].leanType())
	}
	for _, f := range pkg.order {
		b.WriteString("\n")
		if f.err != nil {
			fmt.Fprintf(&b, "-- %s: NOT RECOGNISED: %s\n", f.key, strings.ReplaceAll(f.err.Error(), "\n", " "))
			if f.comment != "" {
				b.WriteString(f.comment + "\n")
			}
			fmt.Fprintf(&b, "opaque %s_unrecognised : Unit\n", f.leanName)
			continue
		}
		b.WriteString(f.comment + "\n")
		b.WriteString(strings.Join(f.lines, "\n") + "\n")
	}
	for _, key := range missing {
		fmt.Fprintf(&b, "\n-- %s: NOT RECOGNISED: no such method in package geometry\n", key)
		fmt.Fprintf(&b, "opaque %s_unrecognised : Unit\n", knLeanName(key))
	}
	b.WriteString("\nend Geo.GGen\n")
	return b.String(), nil
}
