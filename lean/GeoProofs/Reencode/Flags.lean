/-
  GeoProofs.Reencode.Flags — the convex flag computed by `processPoints` does not depend on
  the encoding of a ring (`RingEq`): rotation and closing vertex are C18, reversal is new here
  (the turns of the reversed cycle are the negated turns of the cycle).
-/
import GeoProofs.Reencode.Ring
import GeoProofs.Props.C18

namespace Geo
namespace RE
open Spec SeriesL

theorem turn_rev (a b c : Pt) : turn c b a = - turn a b c := by unfold turn; ring

theorem mod_sub (a n : Nat) (h1 : n ≤ a) (h2 : a < 2 * n) : a % n = a - n := by
  rw [Nat.mod_eq_sub_mod h1, Nat.mod_eq_of_lt (by omega)]

/-- the index of the turn of `v` that is the negated turn `i` of `v.reverse` -/
def sig (n i : Nat) : Nat := if i + 3 ≤ n then n - 3 - i else 2 * n - 3 - i

theorem sig_lt (n i : Nat) (h3 : 3 ≤ n) (hi : i < n) : sig n i < n := by
  unfold sig; split_ifs <;> omega

theorem sig_sig (n i : Nat) (h3 : 3 ≤ n) (hi : i < n) : sig n (sig n i) = i := by
  unfold sig; split_ifs <;> omega

theorem getElem!_reverse (v : List Pt) (j : Nat) (hj : j < v.length) :
    v.reverse[j]! = v[v.length - 1 - j]! := by
  rw [getElem!_pos _ j (by simpa using hj), getElem!_pos v _ (by omega), List.getElem_reverse]

theorem turn_idx (v : List Pt) {a b c a' b' c' : Nat} (ha : a = a') (hb : b = b') (hc : c = c') :
    turn v[a]! v[b]! v[c]! = turn v[a']! v[b']! v[c']! := by subst ha hb hc; rfl

theorem turnAt_reverse (v : List Pt) (h3 : 3 ≤ v.length) (i : Nat) (hi : i < v.length) :
    turnAt (fun j => v.reverse[j]!) v.length i =
      - turnAt (fun j => v[j]!) v.length (sig v.length i) := by
  have hn : 0 < v.length := by omega
  unfold turnAt
  rw [← turn_rev]
  simp only [getElem!_reverse v i hi, getElem!_reverse v _ (Nat.mod_lt _ hn)]
  unfold sig
  by_cases c1 : i + 3 ≤ v.length
  · rw [if_pos c1, Nat.mod_eq_of_lt (by omega : i + 1 < v.length),
      Nat.mod_eq_of_lt (by omega : i + 2 < v.length),
      Nat.mod_eq_of_lt (by omega : v.length - 3 - i + 1 < v.length),
      Nat.mod_eq_of_lt (by omega : v.length - 3 - i + 2 < v.length)]
    exact turn_idx v (by omega) (by omega) (by omega)
  · rw [if_neg c1]
    by_cases c2 : i + 2 = v.length
    · rw [Nat.mod_eq_of_lt (by omega : i + 1 < v.length), mod_sub (i + 2) _ (by omega) (by omega),
        mod_sub (2 * v.length - 3 - i + 1) _ (by omega) (by omega),
        mod_sub (2 * v.length - 3 - i + 2) _ (by omega) (by omega)]
      exact turn_idx v (by omega) (by omega) (by omega)
    · rw [mod_sub (i + 1) _ (by omega) (by omega), mod_sub (i + 2) _ (by omega) (by omega),
        Nat.mod_eq_of_lt (by omega : 2 * v.length - 3 - i + 1 < v.length),
        mod_sub (2 * v.length - 3 - i + 2) _ (by omega) (by omega)]
      exact turn_idx v (by omega) (by omega) (by omega)

theorem cycTurns_reverse_mem (v : List Pt) (h3 : 3 ≤ v.length) (x : Rat) :
    x ∈ cycTurns v.reverse ↔ -x ∈ cycTurns v := by
  unfold cycTurns
  simp only [List.mem_map, List.mem_range, List.length_reverse]
  have e : ∀ i, i < v.length → turnAt (fun j => v.reverse.reverse[j]!) v.length i =
      turnAt (fun j => v[j]!) v.length i := by intro i _; rw [List.reverse_reverse]
  constructor
  · rintro ⟨i, hi, rfl⟩
    exact ⟨sig _ i, sig_lt _ i h3 hi, by rw [turnAt_reverse v h3 i hi, neg_neg]⟩
  · rintro ⟨m, hm, hx⟩
    refine ⟨sig _ m, sig_lt _ m h3 hm, ?_⟩
    rw [turnAt_reverse v h3 _ (sig_lt _ m h3 hm), sig_sig _ m h3 hm, hx, neg_neg]

theorem convexSpec_reverse_closed (v : List Pt) (h3 : 3 ≤ v.length) :
    Driver.convexSpec (v.reverse ++ [v.reverse.head!]) = Driver.convexSpec (v ++ [v.head!]) := by
  have hv : v ≠ [] := by intro e; simp [e] at h3
  have hv' : v.reverse ≠ [] := by simpa using hv
  simp only [Driver.convexSpec]
  rw [turnsOf_closed _ hv', turnsOf_closed _ hv]
  have a1 : (cycTurns v.reverse).any (· > 0) = (cycTurns v).any (· < 0) := by
    rw [Bool.eq_iff_iff]
    simp only [List.any_eq_true, decide_eq_true_eq]
    constructor
    · rintro ⟨x, hx, g⟩
      exact ⟨-x, (cycTurns_reverse_mem v h3 x).1 hx, by linarith⟩
    · rintro ⟨x, hx, g⟩
      exact ⟨-x, (cycTurns_reverse_mem v h3 (-x)).2 (by rwa [neg_neg]), by linarith⟩
  have a2 : (cycTurns v.reverse).any (· < 0) = (cycTurns v).any (· > 0) := by
    rw [Bool.eq_iff_iff]
    simp only [List.any_eq_true, decide_eq_true_eq]
    constructor
    · rintro ⟨x, hx, g⟩
      exact ⟨-x, (cycTurns_reverse_mem v h3 x).1 hx, by linarith⟩
    · rintro ⟨x, hx, g⟩
      exact ⟨-x, (cycTurns_reverse_mem v h3 (-x)).2 (by rwa [neg_neg]), by linarith⟩
  rw [a1, a2, Bool.and_comm]

theorem processPoints_reverse_closed (v : List Pt) (h3 : 3 ≤ v.length) :
    (processPoints (v.reverse ++ [v.reverse.head!]).toArray true).convex =
      (processPoints (v ++ [v.head!]).toArray true).convex := by
  rw [convex_iff _ (by simp; omega), convex_iff _ (by simp; omega)]
  exact convexSpec_reverse_closed v h3

/-! ### the flag of a simple ring is independent of the encoding -/

abbrev cvx (r : List Pt) : Bool := (processPoints r.toArray true).convex

theorem simple_edges3 (r : List Pt) (hs : simpleRing r = true) : 3 ≤ (edges r true).length := by
  rw [simpleRing_eq, simpleEdges_unfold] at hs; exact hs.1

theorem simple_length3 (r : List Pt) (hs : simpleRing r = true) : 3 ≤ r.length := by
  by_contra hc
  have := simple_edges3 r hs
  rw [edges_short r (by omega)] at this
  simp at this

/-- a ring whose last vertex repeats the first is the closed form of its `dropLast` -/
theorem closed_decomp (r : List Pt) (h : 2 ≤ r.length) (hc : r[r.length - 1]! = r[0]!) :
    r = r.dropLast ++ [r.dropLast.head!] := by
  have hne : r ≠ [] := by intro e; simp [e] at h
  conv_lhs => rw [← List.dropLast_append_getLast hne]
  congr 2
  rw [List.getLast_eq_getElem, ← getElem!_pos r _ (by omega), hc]
  cases r with
  | nil => exact absurd rfl hne
  | cons a t =>
    cases t with
    | nil => simp at h
    | cons b u => simp

theorem cvx_reverse (r : List Pt) (hs : simpleRing r = true) : cvx r.reverse = cvx r := by
  have h3 := simple_length3 r hs
  by_cases hc : r[r.length - 1]! = r[0]!
  · have hd := closed_decomp r (by omega) hc
    generalize hv : r.dropLast = v at hd
    have hvl : 3 ≤ v.length := by
      have := simple_edges3 r hs
      have h2 : 2 ≤ v.length := by rw [← hv]; simp; omega
      rw [hd, edges_closedForm v h2] at this
      simpa [cycE] using this
    cases v with
    | nil => simp at hvl
    | cons a t =>
      have e1 : r.reverse = (a :: t).reverse.rotate t.length ++ [((a :: t).reverse.rotate t.length).head!] := by
        rw [hd]
        simp only [List.reverse_cons, List.head!_cons, List.reverse_append, List.reverse_nil,
          List.nil_append, List.cons_append]
        rw [show t.length = t.reverse.length from by simp, List.rotate_append_length_eq]
        simp
      unfold cvx
      rw [e1, processPoints_rotate_convex _ _ (by simp at hvl ⊢; omega),
        processPoints_reverse_closed _ hvl, ← hd]
  · have hne : r.getLast? ≠ r.head? := by
      rw [head?_eq_getElem! r (by omega), getLast?_eq_getElem! r (by omega)]
      exact fun e => hc (Option.some.inj e)
    have hne' : r.reverse.getLast? ≠ r.reverse.head? := by
      simp only [List.getLast?_reverse, List.head?_reverse]; exact fun e => hne e.symm
    unfold cvx
    rw [← processPoints_closing_convex r h3 hne,
      ← processPoints_closing_convex r.reverse (by simpa using h3) hne',
      processPoints_reverse_closed r h3]

theorem RingEq.cvx_eq {r r' : List Pt} (h : RingEq r r') :
    simpleRing r = true → cvx r' = cvx r := by
  induction h with
  | refl r => intro _; rfl
  | rot v k hv =>
    intro _
    by_cases h2 : 2 ≤ v.length
    · exact processPoints_rotate_convex v k h2
    · have : v.length = 1 := by have := List.length_pos_iff.2 hv; omega
      obtain ⟨a, rfl⟩ := List.length_eq_one_iff.1 this
      simp
  | rev r => exact cvx_reverse r
  | close v h3 hne => intro _; exact processPoints_closing_convex v h3 hne
  | @symm a b hab ih => intro hs; exact (ih (by rw [← hab.simple_eq]; exact hs)).symm
  | @trans a b c hab _ ih1 ih2 =>
    intro hs; exact (ih2 (by rw [hab.simple_eq]; exact hs)).trans (ih1 hs)

end RE
end Geo
