/-
  GeoProofs.Contains.Hole — `ringIntersectsSegment`, `ringIntersectsLine`, `ringIntersectsRing`
  without boundary contact: the crossing search never counts anything, so the answer is the
  membership of a vertex.
-/
import GeoProofs.Contains.Ring

namespace Geo
open GL Jordan

namespace Contains

/-- abstract core of `ringIntersectsSegment`: both endpoints have the same point-test answer
    `I`, no segment of the ring meets `seg` -/
theorem ris_core (ring : Ring) (seg : Seg) (allow : Bool) (I : Bool)
    (hu : Unindexed ring)
    (hA : (ringContainsPoint ring seg.a allow).hit = I)
    (hB : (ringContainsPoint ring seg.b allow).hit = I)
    (hno : ∀ i, i < ring.numSegments → seg.intersects (ring.segmentAt i) = false) :
    ringIntersectsSegment ring seg allow = I := by
  unfold ringIntersectsSegment ringIntersectsSegmentS
  by_cases hbx : seg.box.intersects ring.rect = true
  · rw [hbx]
    simp only [Bool.not_true, Bool.false_eq_true, if_false, hA, hB]
    cases I with
    | true => simp
    | false =>
      simp only [Bool.false_eq_true, if_false]
      rw [ring_search_eq ring hu]
      rw [foldUntil_const]
      · simp
      · intro i hi st
        rw [hno i (mem_visit.1 hi).1]
        simp
  · have hbx' : seg.box.intersects ring.rect = false := by simpa using hbx
    rw [hbx']
    simp only [Bool.not_false, if_true]
    by_cases hc : ring.rect.containsPt seg.a = true
    · have := intersects_of_common seg.box ring.rect seg.a
        (onSeg_in_segBox seg seg.a (K.onSeg_left _ _)) hc
      rw [hbx'] at this
      cases this
    · rw [ringContainsPoint_outside ring _ allow (by simpa using hc)] at hA
      exact hA

theorem any_range_const (n : Nat) (f : Nat → Bool) (I : Bool) (hn : 0 < n)
    (h : ∀ i, i < n → f i = I) : (List.range n).any f = I := by
  cases I with
  | false =>
    rw [List.any_eq_false]
    intro i hi
    rw [h i (List.mem_range.1 hi)]
    exact Bool.false_ne_true
  | true =>
    rw [List.any_eq_true]
    exact ⟨0, List.mem_range.2 hn, h 0 hn⟩

theorem inRing_eq_strictIn_of_off {es : List (Pt × Pt)} {p : Pt}
    (h : Spec.onBoundary es p = false) : Spec.inRing es p = Spec.strictIn es p := by
  unfold Spec.inRing Spec.strictIn
  rw [h]; simp

end Contains

open Contains

/-- `ringIntersectsSegment` without boundary contact (any chain, any `allowOnEdge`): membership
    of the first endpoint, equivalently of every point of the segment -/
theorem ringIntersectsSegment_of_avoids (pts : Array Pt) (seg : Seg) (allowOnEdge : Bool)
    (hav : Avoids pts.toList seg) :
    ringIntersectsSegment (.ser (mkSeries pts true .none 0)) seg allowOnEdge =
      Spec.strictIn (Spec.edges pts.toList true) seg.a := by
  obtain ⟨hba, hbb⟩ := onBoundary_false_of_avoids hav
  obtain ⟨-, ha2, -⟩ := hit_of_offBoundary pts seg.a allowOnEdge hba
  obtain ⟨-, hb2, -⟩ := hit_of_offBoundary pts seg.b allowOnEdge hbb
  rw [← (inRing_const_of_avoids pts.toList seg.a seg.b hav).2] at hb2
  exact ris_core (ringOf pts) seg allowOnEdge _ (ringOf_unindexed pts) ha2 hb2
    (no_intersect_of_avoids pts seg hav)

/-- **`ringIntersectsLine` without boundary contact** (the hole test of `Poly.containsLine`,
    `allowOnEdge = false`, but true for both values): the line string is not empty and its first
    vertex — equivalently every point of it — is strictly inside the ring. -/
theorem ringIntersectsLine_strict_of_avoids (pts : Array Pt) (line : Series) (allowOnEdge : Bool)
    (hrect : line.rect = (processPoints line.pts line.closed).rect)
    (hav : NoContact (Spec.edges pts.toList true) (Spec.edges line.pts.toList line.closed)) :
    ringIntersectsLine (.ser (mkSeries pts true .none 0)) line allowOnEdge =
      (!line.empty && Spec.strictIn (Spec.edges pts.toList true) line.pts[0]!) := by
  unfold ringIntersectsLine
  by_cases he : line.empty = true
  · simp [he]
  · have he' : line.empty = false := by simpa using he
    by_cases h3 : pts.size < 3
    · have : (ringOf pts).empty = true := by rw [ringOf_empty]; simpa using h3
      rw [show (Ring.ser (mkSeries pts true .none 0)) = ringOf pts from rfl, this]
      rw [edges_nil_of_short pts.toList (by simpa using h3)]
      simp [Spec.strictIn, Spec.parity]
    · have hre : (ringOf pts).empty = false := by rw [ringOf_empty]; simpa using h3
      rw [show (Ring.ser (mkSeries pts true .none 0)) = ringOf pts from rfl, hre, he']
      simp only [Bool.or_false, Bool.false_eq_true, if_false, Bool.not_false, Bool.true_and]
      have hne' : ((line.closed && line.pts.size < 3) || line.pts.size < 2) = false := he'
      obtain ⟨hns, h2⟩ := numSegmentsOf_ge line.pts line.closed hne'
      have hc := chain_const pts.toList line.pts line.closed hne' hav
      have hle := numSegmentsOf_le line.pts line.closed
      have hpos : 0 < numSegmentsOf line.pts line.closed :=
        Nat.lt_of_lt_of_le (by omega : 0 < line.pts.size - 1) hns
      have hpos2 : 0 < line.pts.size := by omega
      have hI : ∀ i, i < line.pts.size →
          Spec.strictIn (Spec.edges pts.toList true) line.pts[i]! =
            Spec.strictIn (Spec.edges pts.toList true) line.pts[0]! := by
        intro i hi
        rw [← inRing_eq_strictIn_of_off (hc i hi).1, ← inRing_eq_strictIn_of_off (hc 0 hpos2).1]
        exact (hc i hi).2
      by_cases hx : (ringOf pts).rect.intersects line.rect = true
      · rw [hx]
        simp only [Bool.not_true, Bool.false_eq_true, if_false]
        have h1 := any_range_const line.numPoints
          (fun i => (ringContainsPoint (ringOf pts) line.pts[i]! allowOnEdge).hit)
          (Spec.strictIn (Spec.edges pts.toList true) line.pts[0]!) hpos2 (by
            intro i hi
            show (ringContainsPoint (ringOf pts) line.pts[i]! allowOnEdge).hit = _
            rw [(hit_of_offBoundary pts _ allowOnEdge (hc i hi).1).2.1]
            exact hI i hi)
        have h2 := any_range_const line.numSegments
          (fun i => ringIntersectsSegment (ringOf pts) (line.segmentAt i) allowOnEdge)
          (Spec.strictIn (Spec.edges pts.toList true) line.pts[0]!) hpos (by
            intro j hj
            have hj' : j < numSegmentsOf line.pts line.closed := hj
            show ringIntersectsSegment (ringOf pts) (segmentAtOf line.pts j) allowOnEdge = _
            rw [ringIntersectsSegment_of_avoids pts _ allowOnEdge
              (fun e he => hav e he ((segmentAtOf line.pts j).a, (segmentAtOf line.pts j).b)
                (segmentAt_mem_edges line.pts line.closed j hj'))]
            exact hI j (Nat.lt_of_lt_of_le hj' hle))
        rw [h1, h2]
        cases Spec.strictIn (Spec.edges pts.toList true) line.pts[0]! <;> rfl
      · have hx' : (ringOf pts).rect.intersects line.rect = false := by simpa using hx
        rw [hx']
        simp only [Bool.not_false, if_true]
        symm
        rw [← inRing_eq_strictIn_of_off (hc 0 hpos2).1]
        apply inRing_false_of_outside
        cases hcp : (ringOf pts).rect.containsPt line.pts[0]! with
        | false => rfl
        | true =>
          have hv : line.rect.containsPt line.pts[0]! = true := by
            rw [hrect]
            apply GL.mem_rect line.pts line.closed (by simp [hne'])
            rw [getElem!_pos line.pts 0 hpos2]
            exact Array.getElem_mem_toList hpos2
          rw [intersects_of_common _ _ _ hcp hv] at hx'
          cases hx'

end Geo
