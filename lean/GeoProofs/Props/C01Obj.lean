/-
  C01 at the OBJECT level: "point membership is exact at every level".

  For every leaf object `a` (Polygon, LineString, Rect, Point, SimplePoint) and every position
  `pos`, the five object-level questions that involve a point argument
      a.contains (Point pos), a.contains (SimplePoint pos), a.intersects (Point pos),
      a.intersects (SimplePoint pos), (Point pos).within a, (Point pos).intersects a, …
  all equal ONE function of the base geometry, `Geom.c01Member a.geom pos.p`
  (`c01_leaf_point_relations`: pure dispatch, no hypothesis), and that function is the
  specification-level membership `Spec.Shape.member` of the vertex lists for every index
  configuration covered by C01Index (`Geom.C01Cfg`: every ring / line is `mkSeries … kind m` with
  an exact search; `c01Cfg_*` give the configurations: no index, quadtree, R-tree on dyadic
  coordinates, or any mix per ring).
-/
import GeoProofs.Props.C01Index
import GeoProofs.Props.C09Leaf

namespace Geo
open Obj

/-- the membership function of the base geometry, as the kernels compute it -/
def Geom.c01Member : Geom → Pt → Bool
  | .point a, p => decide (a = p)
  | .rect b, p => b.containsPt p
  | .line l, p => l.containsPoint p
  | .poly q, p => q.containsPoint p

theorem geom_contains_point (g : Geom) (p : Pt) : g.contains (.point p) = g.c01Member p := by
  cases g <;> rfl

theorem geom_point_intersects (g : Geom) (p : Pt) :
    (Geom.point p).intersects g = g.c01Member p := by
  cases g with
  | point a => simp only [Geom.intersects, Geom.c01Member, eq_comm]
  | rect b => rfl
  | line l => rfl
  | poly q => rfl

theorem geom_intersects_point (g : Geom) (p : Pt) :
    g.intersects (.point p) = g.c01Member p := by
  cases g <;> rfl

/-- **all object-level questions about a point and a leaf are the one membership function** -/
theorem c01_leaf_point_relations (a : Obj) (ha : a.isLeaf = true) (pos : Pos) (ex : Option Extra) :
    a.contains (.point pos ex) = a.geom.c01Member pos.p ∧
    a.contains (.spoint pos) = a.geom.c01Member pos.p ∧
    a.intersects (.point pos ex) = a.geom.c01Member pos.p ∧
    a.intersects (.spoint pos) = a.geom.c01Member pos.p ∧
    (Obj.point pos ex).within a = a.geom.c01Member pos.p ∧
    (Obj.spoint pos).within a = a.geom.c01Member pos.p ∧
    (Obj.point pos ex).intersects a = a.geom.c01Member pos.p ∧
    (Obj.spoint pos).intersects a = a.geom.c01Member pos.p := by
  have hp : (Obj.point pos ex).isLeaf = true := rfl
  have hs : (Obj.spoint pos).isLeaf = true := rfl
  have gp : (Obj.point pos ex).geom = .point pos.p := rfl
  have gs : (Obj.spoint pos).geom = .point pos.p := rfl
  refine ⟨?_, ?_, ?_, ?_, ?_, ?_, ?_, ?_⟩
  · rw [leaf_contains_geom a _ ha hp, gp, geom_contains_point]
  · rw [leaf_contains_geom a _ ha hs, gs, geom_contains_point]
  · rw [leaf_intersects_geom a _ ha hp, gp, geom_point_intersects]
  · rw [leaf_intersects_geom a _ ha hs, gs, geom_point_intersects]
  · rw [Obj.within, leaf_contains_geom a _ ha hp, gp, geom_contains_point]
  · rw [Obj.within, leaf_contains_geom a _ ha hs, gs, geom_contains_point]
  · rw [leaf_intersects_geom _ a hp ha, gp, geom_intersects_point]
  · rw [leaf_intersects_geom _ a hs ha, gs, geom_intersects_point]

/-- the per-method entry points agree with it as well (what the dispatch calls) -/
theorem c01_leaf_methods (a : Obj) (ha : a.isLeaf = true) (p : Pt) :
    a.intersectsPoint p = a.geom.c01Member p := by
  cases a <;> simp only [Obj.isLeaf, Bool.false_eq_true] at ha <;>
    simp only [Obj.intersectsPoint, Obj.geom, Geom.c01Member]

/-! ### the configurations covered by C01Index -/

/-- `C01Cfg g S`: the geometry `g` is what the constructors build from the vertex lists of the
    specification shape `S`, each ring / line with its own index kind and threshold, every
    search exact. -/
inductive Geom.C01Cfg : Geom → Spec.Shape → Prop
  | point (p : Pt) : Geom.C01Cfg (.point p) (.point p)
  | rect (b : Box) : Geom.C01Cfg (.rect b) (.rect b.min b.max)
  | line (pts : Array Pt) (kind : IndexKind) (m : Nat)
      (h : (mkSeries pts false kind m).SearchExact) :
      Geom.C01Cfg (.line (mkSeries pts false kind m)) (.line pts.toList)
  | poly (ext : Array Pt) (ek : IndexKind) (em : Nat) (holes : List (Array Pt × IndexKind × Nat))
      (hext : (mkSeries ext true ek em).SearchExact)
      (hholes : ∀ h ∈ holes, (mkSeries h.1 true h.2.1 h.2.2).SearchExact) :
      Geom.C01Cfg
        (.poly ⟨some (.ser (mkSeries ext true ek em)),
          holes.map (fun h => Ring.ser (mkSeries h.1 true h.2.1 h.2.2))⟩)
        (.poly ext.toList (holes.map (fun h => h.1.toList)))

/-- **membership of the base geometry = specification membership** -/
theorem Geom.C01Cfg.member_eq {g : Geom} {S : Spec.Shape} (h : g.C01Cfg S) (p : Pt) :
    g.c01Member p = S.member p := by
  cases h with
  | point a => rfl
  | rect b => exact rectContainsPoint_spec b.min b.max p
  | line pts kind m h => exact lineContainsPoint_spec pts kind m h p
  | poly ext ek em holes hext hholes => exact polyContainsPoint_iff ext ek em holes hext hholes p

/-- the specification shape is the one read off the geometry (`Obj.shape` of C09Leaf) -/
theorem Geom.C01Cfg.shape_eq {g : Geom} {S : Spec.Shape} (h : g.C01Cfg S) : g.shape = S := by
  cases h with
  | point a => rfl
  | rect b => rfl
  | line pts kind m h => rfl
  | poly ext ek em holes hext hholes =>
    simp only [Geom.shape, Ring.ptsL, List.map_map]
    congr 1

/-! ### the final leaf-level statement -/

/-- **C01 at the object level, leaves.**  `a` a leaf whose base geometry is in a covered
    configuration with specification shape `S`: every question about `a` and a point object at
    `pos` is `S.member pos.p`. -/
theorem c01_obj_point_exact (a : Obj) (ha : a.isLeaf = true) {S : Spec.Shape}
    (hc : a.geom.C01Cfg S) (pos : Pos) (ex : Option Extra) :
    a.contains (.point pos ex) = S.member pos.p ∧
    a.contains (.spoint pos) = S.member pos.p ∧
    a.intersects (.point pos ex) = S.member pos.p ∧
    a.intersects (.spoint pos) = S.member pos.p ∧
    (Obj.point pos ex).within a = S.member pos.p ∧
    (Obj.spoint pos).within a = S.member pos.p ∧
    (Obj.point pos ex).intersects a = S.member pos.p ∧
    (Obj.spoint pos).intersects a = S.member pos.p := by
  have h := c01_leaf_point_relations a ha pos ex
  simp only [hc.member_eq] at h
  exact h

/-- the same with the shape read off the object (`Obj.shape`) -/
theorem c01_obj_point_exact_shape (a : Obj) (ha : a.isLeaf = true)
    (hc : a.geom.C01Cfg a.shape) (pos : Pos) (ex : Option Extra) :
    a.contains (.point pos ex) = a.shape.member pos.p ∧
    a.intersects (.point pos ex) = a.shape.member pos.p ∧
    (Obj.point pos ex).within a = a.shape.member pos.p :=
  let h := c01_obj_point_exact a ha hc pos ex
  ⟨h.1, h.2.2.1, h.2.2.2.2.1⟩

/-! ### the index configurations -/

/-- no index on any ring -/
theorem c01Cfg_poly_none (ext : Array Pt) (em : Nat) (holes : List (Array Pt × Nat)) :
    Geom.C01Cfg
      (.poly ⟨some (.ser (mkSeries ext true .none em)),
        holes.map (fun h => Ring.ser (mkSeries h.1 true .none h.2))⟩)
      (.poly ext.toList (holes.map (fun h => h.1.toList))) := by
  have := Geom.C01Cfg.poly ext .none em (holes.map (fun h => (h.1, IndexKind.none, h.2)))
    (series_search_exact_kind_none _ _ _)
    (by intro h hh
        obtain ⟨x, _, rfl⟩ := List.mem_map.mp hh
        exact series_search_exact_kind_none _ _ _)
  simpa only [List.map_map, Function.comp_def] using this

theorem c01Cfg_line_none (pts : Array Pt) (m : Nat) :
    Geom.C01Cfg (.line (mkSeries pts false .none m)) (.line pts.toList) :=
  .line pts .none m (series_search_exact_kind_none _ _ _)

/-- any index kind (none, quadtree, R-tree), the size bounds of the 32-bit format, dyadic
    coordinates where an R-tree is used -/
theorem c01Cfg_line_dyadic (pts : Array Pt) (kind : IndexKind) (m : Nat) (hn : pts.size < 2 ^ 32)
    (hq : kind = .quadtree → (qBytesOf pts false).size < 2 ^ 32)
    (hr : kind = .rtree → (rBytesOf pts false).size < 2 ^ 32 ∧
      ∀ p ∈ pts.toList, Dyadic53 p.x ∧ Dyadic53 p.y) :
    Geom.C01Cfg (.line (mkSeries pts false kind m)) (.line pts.toList) :=
  .line pts kind m (series_search_exact_dyadic pts false kind m hn hq hr)

/-- the hypothesis of `series_search_exact_dyadic` for one ring -/
def C01RingOK (r : Array Pt × IndexKind × Nat) : Prop :=
  r.1.size < 2 ^ 32 ∧ (r.2.1 = .quadtree → (qBytesOf r.1 true).size < 2 ^ 32) ∧
  (r.2.1 = .rtree → (rBytesOf r.1 true).size < 2 ^ 32 ∧
    ∀ p ∈ r.1.toList, Dyadic53 p.x ∧ Dyadic53 p.y)

theorem C01RingOK.searchExact {r : Array Pt × IndexKind × Nat} (h : C01RingOK r) :
    (mkSeries r.1 true r.2.1 r.2.2).SearchExact :=
  series_search_exact_dyadic r.1 true r.2.1 r.2.2 h.1 h.2.1 h.2.2

/-- every ring with its own index kind and threshold -/
theorem c01Cfg_poly_dyadic (ext : Array Pt) (ek : IndexKind) (em : Nat)
    (holes : List (Array Pt × IndexKind × Nat)) (hext : C01RingOK (ext, ek, em))
    (hholes : ∀ h ∈ holes, C01RingOK h) :
    Geom.C01Cfg
      (.poly ⟨some (.ser (mkSeries ext true ek em)),
        holes.map (fun h => Ring.ser (mkSeries h.1 true h.2.1 h.2.2))⟩)
      (.poly ext.toList (holes.map (fun h => h.1.toList))) :=
  .poly ext ek em holes hext.searchExact (fun h hh => (hholes h hh).searchExact)

end Geo
