/-
  Property C09: the algebra of the object-level predicates across kinds — Within is Contains
  swapped; Feature transparency (as receiver always; as argument only for leaf receivers:
  finding D16); SimplePoint behaves as Point; empty arguments; and the reduction of the
  object-level laws (Contains ⇒ rectangle covers, Contains ⇒ Intersects, Intersects ⇒
  rectangles meet, symmetry of Intersects) to the corresponding facts on pairs of geometry
  leaves, by induction over collections and features.

  All statements are about GeoModel.Object as written.
-/
import GeoProofs.DispatchFacts
import GeoProofs.Props.C10

namespace Geo
open Obj

/-! ### Within is Contains with the roles swapped -/

/-- definitional in the model; the tie to the Go double dispatch is a generated table checked
    by the differential harness -/
theorem within_is_contains_swapped (a b : Obj) : a.within b = b.contains a := rfl

/-! ### a Feature is transparent as a receiver -/

theorem feature_transparent (base : Obj) (ex : Option Extra) (x : Obj) :
    (Obj.feature base ex).contains x = base.contains x ∧
    (Obj.feature base ex).intersects x = base.intersects x ∧
    x.within (Obj.feature base ex) = x.within base ∧
    (Obj.feature base ex).empty = base.empty ∧
    (Obj.feature base ex).rect = base.rect ∧
    (Obj.feature base ex).valid = base.valid ∧
    (Obj.feature base ex).numPoints = base.numPoints ∧
    (∀ r, (Obj.feature base ex).withinRect r = base.withinRect r) ∧
    (∀ q, (Obj.feature base ex).withinPoint q = base.withinPoint q) ∧
    (∀ l, (Obj.feature base ex).withinLine l = base.withinLine l) ∧
    (∀ p, (Obj.feature base ex).withinPoly p = base.withinPoly p) ∧
    (∀ r, (Obj.feature base ex).intersectsRect r = base.intersectsRect r) ∧
    (∀ q, (Obj.feature base ex).intersectsPoint q = base.intersectsPoint q) ∧
    (∀ l, (Obj.feature base ex).intersectsLine l = base.intersectsLine l) ∧
    (∀ p, (Obj.feature base ex).intersectsPoly p = base.intersectsPoly p) := by
  refine ⟨by rw [Obj.contains], by rw [Obj.intersects], by rw [Obj.within, Obj.within, Obj.contains],
    by rw [Obj.empty], by rw [Obj.rect], by rw [Obj.valid], by rw [Obj.numPoints],
    fun r => by rw [Obj.withinRect], fun q => by rw [Obj.withinPoint], fun l => by rw [Obj.withinLine],
    fun p => by rw [Obj.withinPoly], fun r => by rw [Obj.intersectsRect],
    fun q => by rw [Obj.intersectsPoint], fun l => by rw [Obj.intersectsLine],
    fun p => by rw [Obj.intersectsPoly]⟩

/-- `Center` too: a Feature answers `Rect().Center()`, which for a Point base is the point -/
theorem feature_center (base : Obj) (ex : Option Extra) : (Obj.feature base ex).center = base.center := by
  have h : ∀ p : Pt, p.box.center = p := by
    intro p
    cases p with
    | mk x y =>
      simp only [Pt.box, Box.center, Pt.mk.injEq]
      constructor <;> linarith
  cases base <;> simp [Obj.center, Obj.rect, h]

/-! ### a Feature as an ARGUMENT -/

/-- transparent for every receiver that is not a collection (nor a feature of one) -/
theorem feature_argument_transparent_leaf (a : Obj) (ha : a.isLeafDeep = true) (base : Obj)
    (ex : Option Extra) :
    a.contains (Obj.feature base ex) = a.contains base ∧
    a.intersects (Obj.feature base ex) = a.intersects base := by
  induction a using Obj.ind' with
  | hatom a hat => exact ⟨atom_contains_feature hat base ex, atom_intersects_feature hat base ex⟩
  | hfeat a e ih =>
    rw [feature_contains, feature_contains, feature_intersects, feature_intersects]
    exact ih (by simpa [Obj.isLeafDeep] using ha)
  | hcoll k cs e idx ih => simp [Obj.isLeafDeep] at ha

section d16
private def p1 : Obj := .spoint ⟨⟨1, 1⟩, true, "1", "1"⟩
private def p2 : Obj := .spoint ⟨⟨2, 2⟩, true, "2", "2"⟩
/-- a GeometryCollection of two single-point children -/
private def gc : Obj := .coll .geometryCollection [p1, p2] none false
/-- the MultiPoint of the same two points -/
private def mp : Obj := .coll .multiPoint [p1, p2] none false

/-- Finding D16: for a collection receiver a Feature argument is NOT transparent when its base
    is a collection: `ForEach` on a Feature yields the Feature itself, so the whole MultiPoint
    must fit in ONE child, whereas the bare MultiPoint is matched point by point. -/
theorem feature_argument_not_transparent_counterexample :
    gc.contains mp = true ∧ gc.contains (Obj.feature mp none) = false ∧
    (Obj.feature mp none).within gc = false ∧ mp.within gc = true := by
  refine ⟨?_, ?_, ?_, ?_⟩ <;> simp only [gc, mp, p1, p2] <;> obj_eval
end d16

/-! ### SimplePoint behaves as Point (everything but the written JSON) -/

/-- as a receiver, and the derived attributes -/
theorem simplepoint_as_point_receiver (pos : Pos) (ex : Option Extra) (x : Obj) :
    (Obj.spoint pos).contains x = (Obj.point pos ex).contains x ∧
    (Obj.spoint pos).intersects x = (Obj.point pos ex).intersects x ∧
    x.within (Obj.spoint pos) = x.within (Obj.point pos ex) ∧
    (Obj.spoint pos).empty = (Obj.point pos ex).empty ∧
    (Obj.spoint pos).rect = (Obj.point pos ex).rect ∧
    (Obj.spoint pos).center = (Obj.point pos ex).center ∧
    (Obj.spoint pos).valid = (Obj.point pos ex).valid ∧
    (Obj.spoint pos).numPoints = (Obj.point pos ex).numPoints ∧
    (∀ r, (Obj.spoint pos).withinRect r = (Obj.point pos ex).withinRect r) ∧
    (∀ q, (Obj.spoint pos).withinPoint q = (Obj.point pos ex).withinPoint q) ∧
    (∀ l, (Obj.spoint pos).withinLine l = (Obj.point pos ex).withinLine l) ∧
    (∀ p, (Obj.spoint pos).withinPoly p = (Obj.point pos ex).withinPoly p) ∧
    (∀ r, (Obj.spoint pos).intersectsRect r = (Obj.point pos ex).intersectsRect r) ∧
    (∀ q, (Obj.spoint pos).intersectsPoint q = (Obj.point pos ex).intersectsPoint q) ∧
    (∀ l, (Obj.spoint pos).intersectsLine l = (Obj.point pos ex).intersectsLine l) ∧
    (∀ p, (Obj.spoint pos).intersectsPoly p = (Obj.point pos ex).intersectsPoly p) := by
  refine ⟨by rw [Obj.contains, Obj.contains], by rw [Obj.intersects, Obj.intersects],
    by rw [Obj.within, Obj.within, Obj.contains, Obj.contains],
    by rw [Obj.empty, Obj.empty], by rw [Obj.rect, Obj.rect], by rw [Obj.center, Obj.center],
    by rw [Obj.valid, Obj.valid], by rw [Obj.numPoints, Obj.numPoints],
    fun r => by rw [Obj.withinRect, Obj.withinRect], fun q => by rw [Obj.withinPoint, Obj.withinPoint],
    fun l => by rw [Obj.withinLine, Obj.withinLine], fun p => by rw [Obj.withinPoly, Obj.withinPoly],
    fun r => by rw [Obj.intersectsRect, Obj.intersectsRect],
    fun q => by rw [Obj.intersectsPoint, Obj.intersectsPoint],
    fun l => by rw [Obj.intersectsLine, Obj.intersectsLine],
    fun p => by rw [Obj.intersectsPoly, Obj.intersectsPoly]⟩

/-- as an argument of any object (also deep inside collections and features) -/
theorem simplepoint_as_point_argument (pos : Pos) (ex : Option Extra) (x : Obj) :
    x.contains (Obj.spoint pos) = x.contains (Obj.point pos ex) ∧
    x.intersects (Obj.spoint pos) = x.intersects (Obj.point pos ex) ∧
    (Obj.spoint pos).within x = (Obj.point pos ex).within x := by
  obtain ⟨_, _, _, he, hr, _, _, _, h1, h2, h3, h4, h5, h6, h7, h8⟩ :=
    simplepoint_as_point_receiver pos ex x
  have := atom_argument_congr (g1 := Obj.spoint pos) (g2 := Obj.point pos ex) rfl rfl
    he hr h1 h2 h3 h4 h5 h6 h7 h8 x
  exact ⟨this.1, this.2, this.1⟩

/-- every observable of `SimplePoint` equals that of `Point` -/
theorem simplepoint_as_point (pos : Pos) (ex : Option Extra) (x : Obj) :
    ((Obj.spoint pos).contains x = (Obj.point pos ex).contains x ∧
     (Obj.spoint pos).intersects x = (Obj.point pos ex).intersects x ∧
     (Obj.spoint pos).within x = (Obj.point pos ex).within x) ∧
    (x.contains (Obj.spoint pos) = x.contains (Obj.point pos ex) ∧
     x.intersects (Obj.spoint pos) = x.intersects (Obj.point pos ex) ∧
     x.within (Obj.spoint pos) = x.within (Obj.point pos ex)) ∧
    ((Obj.spoint pos).empty = (Obj.point pos ex).empty ∧
     (Obj.spoint pos).rect = (Obj.point pos ex).rect ∧
     (Obj.spoint pos).center = (Obj.point pos ex).center ∧
     (Obj.spoint pos).valid = (Obj.point pos ex).valid ∧
     (Obj.spoint pos).numPoints = (Obj.point pos ex).numPoints) ∧
    ((∀ r, (Obj.spoint pos).withinRect r = (Obj.point pos ex).withinRect r) ∧
     (∀ q, (Obj.spoint pos).withinPoint q = (Obj.point pos ex).withinPoint q) ∧
     (∀ l, (Obj.spoint pos).withinLine l = (Obj.point pos ex).withinLine l) ∧
     (∀ p, (Obj.spoint pos).withinPoly p = (Obj.point pos ex).withinPoly p) ∧
     (∀ r, (Obj.spoint pos).intersectsRect r = (Obj.point pos ex).intersectsRect r) ∧
     (∀ q, (Obj.spoint pos).intersectsPoint q = (Obj.point pos ex).intersectsPoint q) ∧
     (∀ l, (Obj.spoint pos).intersectsLine l = (Obj.point pos ex).intersectsLine l) ∧
     (∀ p, (Obj.spoint pos).intersectsPoly p = (Obj.point pos ex).intersectsPoly p)) := by
  obtain ⟨r1, r2, r3, r4, r5, r6, r7, r8, r9⟩ := simplepoint_as_point_receiver pos ex x
  obtain ⟨a1, a2, a3⟩ := simplepoint_as_point_argument pos ex x
  exact ⟨⟨r1, r2, a3⟩, ⟨a1, a2, r3⟩, ⟨r4, r5, r6, r7, r8⟩, r9⟩

/-! ### empty arguments -/

/-- an empty argument (equivalently: every leaf empty) is contained by NOTHING — collections
    because `Contains` wants at least one non-empty part, leaves because each leaf predicate
    starts with the emptiness test -/
theorem contains_empty_false (a b : Obj) (hb : b.empty = true) : a.contains b = false :=
  contains_of_empty_arg a b hb

theorem empty_iff_all_leaves_empty (b : Obj) : b.empty = true ↔ ∀ g ∈ b.leaves, g.empty = true :=
  empty_iff_leaves b

/-- an empty collection contains nothing -/
theorem contains_empty_receiver_false {k : CollKind} {cs : List Obj} {ex : Option Extra} {idx : Bool}
    (x : Obj) (h : (Obj.coll k cs ex idx).empty = true) : (Obj.coll k cs ex idx).contains x = false := by
  rw [Obj.contains, h]; rfl

/-- an empty argument intersects no collection, LineString, Polygon, Rect or Circle (nor a
    feature of these), and an empty collection intersects nothing -/
theorem intersects_empty_false (a b : Obj) (ha : a.isPointDeep = false) (hb : b.empty = true) :
    a.intersects b = false :=
  intersects_of_empty_arg a b ha hb

theorem intersects_empty_receiver_false {k : CollKind} {cs : List Obj} {ex : Option Extra} {idx : Bool}
    (x : Obj) (h : (Obj.coll k cs ex idx).empty = true) : (Obj.coll k cs ex idx).intersects x = false := by
  cases hi : (Obj.coll k cs ex idx).intersects x with
  | false => rfl
  | true =>
    obtain ⟨c, hc, hce, _⟩ := (collR_intersects_iff x).1 hi
    rw [Obj.empty, allEmpty_iff] at h
    rw [h c hc] at hce; cases hce

/-- For a Point receiver the question is handed to the leaf: `Intersects(empty line)` is the
    segment search of `Line.ContainsPoint`, which visits nothing on an empty series without an
    index; with an index the answer is whatever the index bytes say (constructed series are empty
    ⇒ unindexed). -/
theorem intersects_empty_false_point (pos : Pos) (ex : Option Extra) (b : Obj) :
    (Obj.point pos ex).intersects b = b.intersectsPoint pos.p ∧
    (∀ l poss e, l.empty = true → l.index = none →
      (Obj.point pos ex).intersects (.lineString l poss e) = false) ∧
    (∀ s holes rings e, s.empty = true → s.index = none →
      (Obj.point pos ex).intersects (.polygon ⟨some (.ser s), holes⟩ rings e) = false) ∧
    (∀ holes rings e, (Obj.point pos ex).intersects (.polygon ⟨none, holes⟩ rings e) = false) := by
  refine ⟨by rw [Obj.intersects], ?_, ?_, ?_⟩
  · intro l poss e h hi
    rw [Obj.intersects, Obj.intersectsPoint]; exact Line.containsPoint_of_empty l _ h hi
  · intro s holes rings e h hi
    rw [Obj.intersects, Obj.intersectsPoint]
    simp [Poly.containsPoint, ringContainsPoint_of_empty s _ true h hi]
  · intro holes rings e
    rw [Obj.intersects, Obj.intersectsPoint]; rfl

/-! ### object-level laws reduced to the leaf level

`hleaf` ranges over pairs of GEOMETRY LEAVES (Point, SimplePoint, LineString, Polygon, Rect:
`Obj.isLeaf`); the conclusions hold for ALL objects (collections, features, nested, Circle —
whose planar methods answer `false`). -/

/-- Contains ⇒ the receiver's rectangle covers the argument's rectangle -/
theorem contains_implies_rect_covers_partial
    (hleaf : ∀ a b : Obj, a.isLeaf = true → b.isLeaf = true → a.contains b = true →
      a.rect.containsBox b.rect = true) :
    ∀ a b : Obj, a.contains b = true → a.rect.containsBox b.rect = true :=
  contains_rect_covers_lift hleaf

/-- Contains ⇒ Intersects -/
theorem contains_implies_intersects_partial
    (hleaf : ∀ a b : Obj, a.isLeaf = true → b.isLeaf = true → a.contains b = true →
      a.intersects b = true) :
    ∀ a b : Obj, a.contains b = true → a.intersects b = true :=
  contains_intersects_lift hleaf

/-- Intersects ⇒ the rectangles meet -/
theorem intersects_implies_rects_meet_partial
    (hleaf : ∀ a b : Obj, a.isLeaf = true → b.isLeaf = true → a.intersects b = true →
      a.rect.intersects b.rect = true) :
    ∀ a b : Obj, a.intersects b = true → a.rect.intersects b.rect = true :=
  intersects_rects_meet_lift hleaf

/-- an empty object neither intersects nor is intersected, given that for leaf pairs
    (see `intersects_empty_false` for the receivers where no hypothesis is needed) -/
theorem intersects_empty_false_partial
    (hempty : ∀ a b : Obj, a.isLeaf = true → b.isLeaf = true → (a.empty = true ∨ b.empty = true) →
      a.intersects b = false) :
    ∀ a b : Obj, (a.empty = true ∨ b.empty = true) → a.intersects b = false :=
  intersects_of_empty_lift hempty

/-- Under the leaf-level laws the rectangle prefilters of `collection.Search` and the Feature
    boundary are invisible to Intersects: it holds iff some geometry atom of `a` intersects some
    geometry atom of `b` (`Obj.geoLeaves` descends through collections AND features). -/
theorem intersects_iff_atoms
    (hmeet : ∀ a b : Obj, a.isLeaf = true → b.isLeaf = true → a.intersects b = true →
      a.rect.intersects b.rect = true)
    (hempty : ∀ a b : Obj, a.isLeaf = true → b.isLeaf = true → (a.empty = true ∨ b.empty = true) →
      a.intersects b = false) :
    ∀ a b : Obj, a.intersects b = true ↔
      ∃ la ∈ a.geoLeaves, ∃ lb ∈ b.geoLeaves, la.intersects lb = true :=
  intersects_iff_geoLeaves hmeet hempty

/-- hence, for Intersects (unlike Contains, D16) a Feature argument IS transparent for every receiver -/
theorem feature_argument_transparent_intersects
    (hmeet : ∀ a b : Obj, a.isLeaf = true → b.isLeaf = true → a.intersects b = true →
      a.rect.intersects b.rect = true)
    (hempty : ∀ a b : Obj, a.isLeaf = true → b.isLeaf = true → (a.empty = true ∨ b.empty = true) →
      a.intersects b = false)
    (a base : Obj) (ex : Option Extra) :
    a.intersects (Obj.feature base ex) = a.intersects base := by
  rw [Bool.eq_iff_iff, intersects_iff_geoLeaves hmeet hempty, intersects_iff_geoLeaves hmeet hempty,
    Obj.geoLeaves]

/-- The same without the rectangle law: given only that empty leaves intersect nothing,
    `a.intersects b` holds iff some geometry atom of `a` intersects some geometry atom of `b` AND
    their rectangles meet — that condition being waived when neither side involves a collection
    (`isLeafDeep`: then no `Search` ever runs). -/
theorem intersects_iff_atoms_rect
    (hempty : ∀ a b : Obj, a.isLeaf = true → b.isLeaf = true → (a.empty = true ∨ b.empty = true) →
      a.intersects b = false) :
    ∀ a b : Obj, a.intersects b = true ↔
      ∃ la ∈ a.geoLeaves, ∃ lb ∈ b.geoLeaves,
        (la.rect.intersects lb.rect = true ∨ (a.isLeafDeep = true ∧ b.isLeafDeep = true)) ∧
        la.intersects lb = true :=
  fun a b => intersects_iff_geoLeaves_rect_on (C := fun _ => True)
    (fun a b ha hb _ _ => hempty a b ha hb) a b (allLeaves_true a) (allLeaves_true b)

/-- Symmetry of Intersects on ALL objects (collection × feature-of-collection included; checked by
    `#eval` on 242² small objects before proving; Circles included, they answer `false` both ways)
    from symmetry on leaf pairs.  One more leaf-level fact is needed: an empty leaf intersects
    nothing — a collection receiver drops the empty parts of its argument (`ForEach` + `Empty`)
    while a leaf receiver hands an empty argument to the leaf predicate, so without it the two
    directions could differ.  The rectangle law is NOT needed: both directions apply the
    rectangle prefilter to the same pairs of atoms. -/
theorem intersects_symm_partial
    (hempty : ∀ a b : Obj, a.isLeaf = true → b.isLeaf = true → (a.empty = true ∨ b.empty = true) →
      a.intersects b = false)
    (hsym : ∀ a b : Obj, a.isLeaf = true → b.isLeaf = true → a.intersects b = b.intersects a) :
    ∀ a b : Obj, a.intersects b = b.intersects a :=
  intersects_symm_lift hempty hsym

/-! ### the leaf-level facts themselves, for Point / SimplePoint / Rect receivers and arguments -/

theorem leaf_contains_rect_covers_point_rect (a b : Obj) (ha : a.isPointOrRect = true)
    (hb : b.isPointOrRect = true) (h : a.contains b = true) : a.rect.containsBox b.rect = true :=
  pr_contains_rect_covers a b ha hb h

theorem leaf_intersects_rects_meet_point_rect (a b : Obj) (ha : a.isPointOrRect = true)
    (hb : b.isPointOrRect = true) (h : a.intersects b = true) : a.rect.intersects b.rect = true :=
  pr_intersects_rects_meet a b ha hb h

theorem leaf_intersects_symm_point_rect (a b : Obj) (ha : a.isPointOrRect = true)
    (hb : b.isPointOrRect = true) : a.intersects b = b.intersects a :=
  pr_intersects_symm a b ha hb

/-- a Rect argument has to be well-formed (min ≤ max) here -/
theorem leaf_contains_intersects_point_rect (a b : Obj) (ha : a.isPointOrRect = true)
    (hb : b.isPointOrRect = true) (hwf : b.rect.min.x ≤ b.rect.max.x ∧ b.rect.min.y ≤ b.rect.max.y)
    (h : a.contains b = true) : a.intersects b = true :=
  pr_contains_intersects a b ha hb hwf h

section malformed
private def pz : Pos := ⟨⟨0, 0⟩, true, "0", "0"⟩
private def big : Obj := .rectO ⟨⟨0, 0⟩, ⟨10, 10⟩⟩ pz pz
/-- an inside-out rectangle (min > max) -/
private def bad : Obj := .rectO ⟨⟨20, 20⟩, ⟨-5, -5⟩⟩ pz pz

/-- without well-formedness `Rect.ContainsRect` does not imply `Rect.IntersectsRect` -/
theorem leaf_contains_intersects_rect_counterexample :
    big.contains bad = true ∧ big.intersects bad = false := by
  constructor <;> simp only [big, bad, pz] <;> obj_eval
end malformed

/-! ### the laws, unconditionally, for objects made of points and rectangles

The reductions above are not vacuous: for every object whose geometry atoms are Points,
SimplePoints, Rects (and Circles, whose planar methods answer `false`) — under any nesting of
collections and features — the four laws hold outright. -/

theorem pr_not_empty (a : Obj) (ha : a.isPointOrRect = true) : a.empty = false := by
  cases a <;> simp_all [Obj.isPointOrRect, Obj.empty]

/-- every geometry leaf in `x` is a Point, SimplePoint or Rect -/
def Obj.PointRectOnly (x : Obj) : Prop := Obj.AllLeaves (fun g => g.isPointOrRect = true) x

/-- … and the Rects are well-formed (min ≤ max) -/
def Obj.PointWFRectOnly (x : Obj) : Prop :=
  Obj.AllLeaves (fun g => g.isPointOrRect = true ∧
    g.rect.min.x ≤ g.rect.max.x ∧ g.rect.min.y ≤ g.rect.max.y) x

theorem point_rect_contains_implies_rect_covers (a b : Obj) (ha : a.PointRectOnly) (hb : b.PointRectOnly)
    (h : a.contains b = true) : a.rect.containsBox b.rect = true :=
  contains_rect_covers_lift_on (C := fun g => g.isPointOrRect = true)
    (fun a b _ _ ca cb => pr_contains_rect_covers a b ca cb) a b ha hb h

theorem point_rect_intersects_implies_rects_meet (a b : Obj) (ha : a.PointRectOnly)
    (hb : b.PointRectOnly) (h : a.intersects b = true) : a.rect.intersects b.rect = true :=
  intersects_rects_meet_lift_on (C := fun g => g.isPointOrRect = true)
    (fun a b _ _ ca cb => pr_intersects_rects_meet a b ca cb) a b ha hb h

theorem point_rect_intersects_symm (a b : Obj) (ha : a.PointRectOnly) (hb : b.PointRectOnly) :
    a.intersects b = b.intersects a :=
  intersects_symm_lift_on (C := fun g => g.isPointOrRect = true)
    (fun a b _ _ ca cb h => by
      rcases h with h | h
      · rw [pr_not_empty a ca] at h; cases h
      · rw [pr_not_empty b cb] at h; cases h)
    (fun a b _ _ ca cb => pr_intersects_symm a b ca cb) a b ha hb

theorem point_rect_contains_implies_intersects (a b : Obj) (ha : a.PointWFRectOnly)
    (hb : b.PointWFRectOnly) (h : a.contains b = true) : a.intersects b = true :=
  contains_intersects_lift_on
    (C := fun g => g.isPointOrRect = true ∧ g.rect.min.x ≤ g.rect.max.x ∧ g.rect.min.y ≤ g.rect.max.y)
    (fun a b _ _ ca cb => pr_contains_intersects a b ca.1 cb.1 cb.2) a b ha hb h

section examples
private def e1 : Obj := .spoint ⟨⟨1, 1⟩, true, "1", "1"⟩
private def e2 : Obj := .rectO ⟨⟨0, 0⟩, ⟨5, 5⟩⟩ ⟨⟨0, 0⟩, true, "0", "0"⟩ ⟨⟨5, 5⟩, true, "5", "5"⟩
private def e3 : Obj := .coll .geometryCollection [e1, .feature (.coll .multiPoint [e1, e1] none true) none] none false

example : e3.PointWFRectOnly := by
  intro g hg _
  simp only [e3, e1, Obj.geoLeaves, geoLeavesL, List.append_nil, List.cons_append, List.nil_append,
    List.mem_cons, List.not_mem_nil, or_false, or_self] at hg
  subst hg
  exact ⟨rfl, le_refl _, le_refl _⟩
example : e2.contains e3 = true := by simp only [e2, e3, e1]; obj_eval
example : e3.intersects e2 = true := by simp only [e2, e3, e1]; obj_eval
end examples

end Geo

#print axioms Geo.within_is_contains_swapped
#print axioms Geo.feature_transparent
#print axioms Geo.feature_center
#print axioms Geo.feature_argument_transparent_leaf
#print axioms Geo.feature_argument_not_transparent_counterexample
#print axioms Geo.simplepoint_as_point_receiver
#print axioms Geo.simplepoint_as_point_argument
#print axioms Geo.simplepoint_as_point
#print axioms Geo.contains_empty_false
#print axioms Geo.empty_iff_all_leaves_empty
#print axioms Geo.contains_empty_receiver_false
#print axioms Geo.intersects_empty_false
#print axioms Geo.intersects_empty_receiver_false
#print axioms Geo.intersects_empty_false_point
#print axioms Geo.contains_implies_rect_covers_partial
#print axioms Geo.contains_implies_intersects_partial
#print axioms Geo.intersects_implies_rects_meet_partial
#print axioms Geo.intersects_empty_false_partial
#print axioms Geo.intersects_iff_atoms
#print axioms Geo.feature_argument_transparent_intersects
#print axioms Geo.intersects_iff_atoms_rect
#print axioms Geo.intersects_symm_partial
#print axioms Geo.leaf_contains_rect_covers_point_rect
#print axioms Geo.leaf_intersects_rects_meet_point_rect
#print axioms Geo.leaf_intersects_symm_point_rect
#print axioms Geo.leaf_contains_intersects_point_rect
#print axioms Geo.leaf_contains_intersects_rect_counterexample
#print axioms Geo.pr_not_empty
#print axioms Geo.point_rect_contains_implies_rect_covers
#print axioms Geo.point_rect_intersects_implies_rects_meet
#print axioms Geo.point_rect_intersects_symm
#print axioms Geo.point_rect_contains_implies_intersects
