/-
  GeoProofs.Contains.PolyRect — Polygon ⊇ Rect in general position.
-/
import GeoProofs.Contains.BoxRing
import GeoProofs.Contains.PolyLine

namespace Geo
open GL Jordan

theorem NoContact.symm {es fs : List (Pt × Pt)} (h : NoContact es fs) : NoContact fs es :=
  fun f hf e he => Contains.segsMeet_comm_false (h e he f hf)

namespace Contains

theorem strictIn_false_of_outside (pts : Array Pt) (p : Pt)
    (hp : (ringOf pts).rect.containsPt p = false) :
    Spec.strictIn (Spec.edges pts.toList true) p = false := by
  obtain ⟨h1, h2⟩ := outside_rect pts p hp
  unfold Spec.strictIn
  rw [h1, h2]; rfl

theorem strictIn_imp_inRing {es : List (Pt × Pt)} {p : Pt} (h : Spec.strictIn es p = true) :
    Spec.inRing es p = true := by
  unfold Spec.strictIn at h
  unfold Spec.inRing
  simp only [Bool.and_eq_true] at h
  rw [h.2]; simp

/-- all vertices of a ring that avoids a chain have the same strict membership -/
theorem chain_strict (pts : List Pt) (h : Array Pt) (h3 : 3 ≤ h.size)
    (hav : NoContact (Spec.edges pts true) (Spec.edges h.toList true)) :
    ∀ i, i < h.size →
      Spec.onBoundary (Spec.edges pts true) h[i]! = false ∧
      Spec.strictIn (Spec.edges pts true) h[i]! = Spec.strictIn (Spec.edges pts true) h[0]! := by
  have hne : ((true && decide (h.size < 3)) || decide (h.size < 2)) = false := by
    simp; omega
  intro i hi
  have c := chain_const pts h true hne hav i hi
  have c0 := chain_const pts h true hne hav 0 (by omega)
  exact ⟨c.1, by rw [← inRing_eq_strictIn_of_off c.1, ← inRing_eq_strictIn_of_off c0.1]; exact c.2⟩

/-- `ringIntersectsRing hole rect` without contact, in closed form -/
theorem ringIntersectsRing_box (h : Array Pt) (r : Box) (allow : Bool) (h3 : 3 ≤ h.size)
    (hr : BoxOk r) (hav : NoContact (Spec.edges h.toList true) (Er r)) :
    ringIntersectsRing (ringOf h) (.bx r) allow =
      (if r.area > (ringOf h).rect.area then Spec.strictIn (Er r) h[0]!
       else Spec.strictIn (Spec.edges h.toList true) r.min) := by
  have hne : ((true && decide (h.size < 3)) || decide (h.size < 2)) = false := by
    simp; omega
  obtain ⟨hs, hp⟩ := box_sides h.toList r hav
  have hcs := chain_strict (Spec.rectPts r.min r.max) h h3 hav.symm
  obtain ⟨hns, -⟩ := numSegmentsOf_ge h true hne
  have hle := numSegmentsOf_le h true
  have hpos : 0 < numSegmentsOf h true := Nat.lt_of_lt_of_le (by omega : 0 < h.size - 1) hns
  unfold ringIntersectsRing
  have he : (ringOf h).empty = false := by rw [ringOf_empty]; simp; omega
  rw [he]
  simp only [Ring.empty, Bool.or_false, Bool.false_eq_true, if_false]
  by_cases hx : (ringOf h).rect.intersects (Ring.bx r).rect = true
  · rw [hx]
    simp only [Bool.not_true, Bool.false_eq_true, if_false]
    by_cases ha : (Ring.bx r).rect.area > (ringOf h).rect.area
    · have ha' : r.area > (ringOf h).rect.area := ha
      rw [if_pos ha, if_pos ha']
      simp only
      apply any_range_const _ _ _ hpos
      intro i hi
      have hi' : i < numSegmentsOf h true := hi
      show ringIntersectsSegment (.bx r) (segmentAtOf h i) allow = _
      have hmem := segmentAt_mem_edges h true i hi'
      have havs : ∀ e ∈ Er r, Spec.segsMeet e.1 e.2 (segmentAtOf h i).a (segmentAtOf h i).b = false :=
        fun e he' => hav.symm e he' ((segmentAtOf h i).a, (segmentAtOf h i).b) hmem
      obtain ⟨hba, hbb⟩ := onBoundary_false_of_avoids havs
      have hA := bx_hit_off r hr (segmentAtOf h i).a allow hba
      have hB := bx_hit_off r hr (segmentAtOf h i).b allow hbb
      rw [← (inRing_const_of_avoids _ _ _ havs).2] at hB
      have ha0 : Spec.strictIn (Er r) (segmentAtOf h i).a = Spec.strictIn (Er r) h[0]! :=
        (hcs i (Nat.lt_of_lt_of_le hi' hle)).2
      rw [ha0] at hA hB
      apply ris_core (.bx r) (segmentAtOf h i) allow _ trivial hA hB
      intro j hj
      have hj' : j < 4 := hj
      cases hc : (segmentAtOf h i).intersects ((Ring.bx r).segmentAt j) with
      | false => rfl
      | true =>
        rw [segIntersects_iff] at hc
        have hm := hs j hj' ((segmentAtOf h i).a, (segmentAtOf h i).b) hmem
        rw [segsMeet_eq_false_iff] at hm
        exact absurd hc hm
    · have ha' : ¬ r.area > (ringOf h).rect.area := ha
      rw [if_neg ha, if_neg ha']
      simp only
      apply any_range_const 4 _ _ (by omega)
      intro j hj
      show ringIntersectsSegment (ringOf h) (r.segmentAt j) allow = _
      rw [ringIntersectsSegment_of_avoids h _ allow (hs j hj)]
      have hj' : j < 4 := hj
      have key : ∀ k, Spec.strictIn (Spec.edges h.toList true) (r.pointAt k) =
          Spec.strictIn (Spec.edges h.toList true) r.min := by
        intro k
        have e0 : r.pointAt 0 = r.min := rfl
        rw [← inRing_eq_strictIn_of_off (hp k).1, (hp k).2, ← e0,
          inRing_eq_strictIn_of_off (hp 0).1]
      match j, hj' with
      | 0, _ => exact key 0
      | 1, _ => exact key 1
      | 2, _ => exact key 2
      | 3, _ => exact key 3
  · have hx' : (ringOf h).rect.intersects (Ring.bx r).rect = false := by simpa using hx
    rw [hx']
    simp only [Bool.not_false, if_true]
    have hx' : (mkSeries h true .none 0).rect.intersects r = false := hx'
    have h1 : Spec.strictIn (Er r) h[0]! = false := by
      rw [← inRing_eq_strictIn_of_off (hcs 0 (by omega)).1, inRing_Er r hr]
      cases hc : r.containsPt h[0]! with
      | false => rfl
      | true =>
        have hv : (mkSeries h true .none 0).rect.containsPt h[0]! = true := by
          apply GL.mem_rect h true (by simp; omega)
          rw [getElem!_pos h 0 (by omega)]
          exact Array.getElem_mem_toList (by omega)
        rw [intersects_of_common _ _ _ hv hc] at hx'
        cases hx'
    have h2 : Spec.strictIn (Spec.edges h.toList true) r.min = false := by
      apply strictIn_false_of_outside
      cases hc : (ringOf h).rect.containsPt r.min with
      | false => rfl
      | true =>
        have hv : r.containsPt r.min = true := by
          rw [containsPt_iff]; exact ⟨le_refl _, hr.1, le_refl _, hr.2⟩
        have : (mkSeries h true .none 0).rect.intersects r = true :=
          intersects_of_common _ _ _ hc hv
        rw [this] at hx'
        cases hx'
    rw [h1, h2]
    simp

end Contains

/-- the specification's helper `Spec.interiorPoint` does its job on the ring `h`: it returns a
    point strictly inside, lying between two boundary points.  A property of the SPECIFICATION
    alone (decidable on concrete rings); `Spec.covers` relies on it for every hole of `A`. -/
def InteriorOK (h : List Pt) : Prop :=
  ∃ x p0 p1, Spec.interiorPoint h = some x ∧ Spec.strictIn (Spec.edges h true) x = true ∧
    Spec.onBoundary (Spec.edges h true) p0 = true ∧ Spec.onBoundary (Spec.edges h true) p1 = true ∧
    OnSeg p0 p1 x

namespace Contains

theorem box_area_lt {a b c d A B C D : Rat} (h1 : A < a) (h2 : b < B) (h3 : C < c) (h4 : d < D)
    (hab : a ≤ b) (hcd : c ≤ d) : (b - a) * (d - c) < (B - A) * (D - C) := by
  nlinarith [mul_nonneg (sub_nonneg.2 hab) (sub_nonneg.2 hcd),
    mul_pos (sub_pos.2 (lt_of_lt_of_le h1 (le_trans hab h2.le))) (sub_pos.2 (lt_of_lt_of_le h3 (le_trans hcd h4.le)))]

theorem box_area_le {a b c d A B C D : Rat} (h1 : A ≤ a) (h2 : b ≤ B) (h3 : C ≤ c) (h4 : d ≤ D)
    (hab : a ≤ b) (hcd : c ≤ d) : (b - a) * (d - c) ≤ (B - A) * (D - C) := by
  apply mul_le_mul (by linarith) (by linarith) (sub_nonneg.2 hcd) (by linarith)

/-- the three geometric facts relating a hole `h` and a rectangle `r` without contact -/
theorem hole_rect_facts (h : Array Pt) (r : Box) (h3 : 3 ≤ h.size) (hr : BoxOk r)
    (hav : NoContact (Spec.edges h.toList true) (Er r))
    (x p0 p1 : Pt) (hx : Spec.strictIn (Spec.edges h.toList true) x = true)
    (hp0 : Spec.onBoundary (Spec.edges h.toList true) p0 = true)
    (hp1 : Spec.onBoundary (Spec.edges h.toList true) p1 = true) (hseg : OnSeg p0 p1 x) :
    (Spec.strictIn (Er r) h[0]! = true →
      r.containsPt x = true ∧ (r.min.x < r.max.x ∧ r.min.y < r.max.y) ∧ r.area > (ringOf h).rect.area) ∧
    (Spec.strictIn (Spec.edges h.toList true) r.min = true → ¬ r.area > (ringOf h).rect.area) ∧
    (r.containsPt x = true → Spec.strictIn (Spec.edges h.toList true) r.min = false →
      Spec.strictIn (Er r) h[0]! = true) := by
  have hne : ¬ ((true && decide (h.size < 3)) || decide (h.size < 2)) = true := by
    simp; omega
  obtain ⟨hs, hp⟩ := box_sides h.toList r hav
  have hcs := chain_strict (Spec.rectPts r.min r.max) h h3 hav.symm
  have hle := numSegmentsOf_le h true
  -- an edge of `h` through a point of the closed rectangle starts strictly inside it
  have hedge : ∀ e ∈ Spec.edges h.toList true, ∀ z, OnSeg e.1 e.2 z → r.containsPt z = true →
      Spec.strictIn (Er r) h[0]! = true := by
    intro e he z hz hzr
    have havs : ∀ f ∈ Er r, Spec.segsMeet f.1 f.2 e.1 e.2 = false := fun f hf => hav.symm f hf e he
    have hsub := avoids_sub havs hz (K.onSeg_left e.1 e.2)
    have hc := (inRing_const_of_avoids (Spec.rectPts r.min r.max) z e.1 hsub).1
    have hz' : Spec.inRing (Er r) z = true := by rw [inRing_Er r hr]; exact hzr
    rw [show Spec.edges (Spec.rectPts r.min r.max) true = Er r from rfl, hz'] at hc
    obtain ⟨i, hi, rfl⟩ := edges_mem_segmentAt h true e he
    have hi' := Nat.lt_of_lt_of_le hi hle
    have c := hcs i hi'
    rw [← c.2, ← inRing_eq_strictIn_of_off c.1]
    exact hc.symm
  obtain ⟨hall, ⟨q1, m1, e1⟩, ⟨q2, m2, e2⟩, ⟨q3, m3, e3⟩, ⟨q4, m4, e4⟩⟩ :=
    bboxSpec_tight h.toList _ (rect_tight h true hne).symm
  refine ⟨?_, ?_, ?_⟩
  · intro hJ
    -- every vertex is strictly inside the open rectangle
    have hv : ∀ q ∈ h.toList, r.min.x < q.x ∧ q.x < r.max.x ∧ r.min.y < q.y ∧ q.y < r.max.y := by
      intro q hq
      obtain ⟨i, hi, rfl⟩ := List.getElem_of_mem hq
      simp only [Array.length_toList] at hi
      have c := (hcs i hi).2
      rw [hJ, getElem!_pos h i hi] at c
      simp only [Array.getElem_toList]
      exact strictIn_Er r hr _ c
    -- every point of every edge is in the rectangle
    have hpt : ∀ p, Spec.onBoundary (Spec.edges h.toList true) p = true → r.containsPt p = true := by
      intro p hp
      obtain ⟨e, he, hon⟩ := (onBoundary_iff _ _).1 hp
      obtain ⟨i, hi, rfl⟩ := edges_mem_segmentAt h true e he
      obtain ⟨ma, mb⟩ := segmentAt_mem h true i hi
      have va := hv _ ma
      have vb := hv _ mb
      apply onSeg_in_box r _ _ p _ _ hon
      · rw [containsPt_iff]; exact ⟨va.1.le, va.2.1.le, va.2.2.1.le, va.2.2.2.le⟩
      · rw [containsPt_iff]; exact ⟨vb.1.le, vb.2.1.le, vb.2.2.1.le, vb.2.2.2.le⟩
    refine ⟨onSeg_in_box r _ _ x (hpt p0 hp0) (hpt p1 hp1) hseg, ?_, ?_⟩
    · have v := hv q1 m1
      exact ⟨lt_trans v.1 v.2.1, lt_trans v.2.2.1 v.2.2.2⟩
    · have v1 := hv q1 m1
      have v2 := hv q2 m2
      have v3 := hv q3 m3
      have v4 := hv q4 m4
      have a1 := hall q1 m1
      show r.area > (processPoints h true).rect.area
      unfold Box.area
      rw [e1] at v1; rw [e2] at v2; rw [e3] at v3; rw [e4] at v4
      exact box_area_lt v1.1 v2.2.1 v3.2.2.1 v4.2.2.2 (le_trans a1.1 a1.2.1) (le_trans a1.2.2.1 a1.2.2.2)
  · intro hI
    have key : ∀ k, Spec.inRing (Spec.edges h.toList true) (r.pointAt k) = true := by
      intro k
      rw [(hp k).2]
      exact strictIn_imp_inRing hI
    have hin : ∀ k, (ringOf h).rect.containsPt (r.pointAt k) = true := by
      intro k
      cases hc : (ringOf h).rect.containsPt (r.pointAt k) with
      | true => rfl
      | false =>
        have := inRing_false_of_outside h _ hc
        rw [key k] at this
        cases this
    have h0 := (containsPt_iff _ _).1 (hin 0)
    have h2 := (containsPt_iff _ _).1 (hin 2)
    simp only [Box.pointAt] at h0 h2
    show ¬ r.area > (ringOf h).rect.area
    rw [not_lt]
    unfold Box.area
    exact box_area_le h0.1 h2.2.1 h0.2.2.1 h2.2.2.2 hr.1 hr.2
  · intro hxr hI
    have hlo : Spec.inRing (Spec.edges h.toList true) r.min = false := by
      have := (hp 0).1
      rw [show r.pointAt 0 = r.min from rfl] at this
      rw [inRing_eq_strictIn_of_off this]
      exact hI
    have hxin := strictIn_imp_inRing hx
    -- the segment from `x` to the corner meets an edge of `h`
    have hmeet : ∃ e ∈ Spec.edges h.toList true, Spec.segsMeet e.1 e.2 x r.min = true := by
      by_contra hcon
      have havx : ∀ e ∈ Spec.edges h.toList true, Spec.segsMeet e.1 e.2 x r.min = false := by
        intro e he
        cases hc : Spec.segsMeet e.1 e.2 x r.min with
        | false => rfl
        | true => exact absurd ⟨e, he, hc⟩ hcon
      have := (inRing_const_of_avoids h.toList x r.min havx).1
      rw [hxin, hlo] at this
      cases this
    obtain ⟨e, he, hm⟩ := hmeet
    obtain ⟨z, hz1, hz2⟩ := (spec_segsMeet_iff _ _ _ _).1 hm
    have hlor : r.containsPt r.min = true := by
      rw [containsPt_iff]; exact ⟨le_refl _, hr.1, le_refl _, hr.2⟩
    exact hedge e he z hz1 (onSeg_in_box r _ _ z hxr hlor hz2)

/-- per hole: the code's rule "the hole does not intersect the rectangle ring" against the
    specification's "no corner strictly inside the hole, interior point of the hole outside the
    rectangle" -/
theorem hole_rect (h : List Pt) (lo hi : Pt) (h3 : 3 ≤ h.length) (hok : InteriorOK h)
    (hr : lo.x ≤ hi.x ∧ lo.y ≤ hi.y)
    (hav : NoContact (Spec.edges h true) (Er ⟨lo, hi⟩)) :
    (!ringIntersectsRing (ringOf h.toArray) (.bx ⟨lo, hi⟩) false) =
      (!Spec.strictIn (Spec.edges h true) lo &&
        (if Spec.isRegion (.rect lo hi) then
          (match Spec.interiorPoint h with
            | some x => !((Spec.Shape.rect lo hi).member x)
            | none => true)
         else true)) := by
  obtain ⟨x, p0, p1, hip, hx, hp0, hp1, hseg⟩ := hok
  have h3' : 3 ≤ h.toArray.size := by simpa using h3
  rw [ringIntersectsRing_box h.toArray ⟨lo, hi⟩ false h3' hr hav, hip]
  obtain ⟨F1, F2, F3⟩ := hole_rect_facts h.toArray ⟨lo, hi⟩ h3' hr hav x p0 p1 hx hp0 hp1 hseg
  have F1 : Spec.strictIn (Er ⟨lo, hi⟩) h.toArray[0]! = true →
      (⟨lo, hi⟩ : Box).containsPt x = true ∧ (lo.x < hi.x ∧ lo.y < hi.y) ∧
        (⟨lo, hi⟩ : Box).area > (ringOf h.toArray).rect.area := F1
  have F2 : Spec.strictIn (Spec.edges h true) lo = true →
      ¬ (⟨lo, hi⟩ : Box).area > (ringOf h.toArray).rect.area := F2
  have F3 : (⟨lo, hi⟩ : Box).containsPt x = true → Spec.strictIn (Spec.edges h true) lo = false →
      Spec.strictIn (Er ⟨lo, hi⟩) h.toArray[0]! = true := F3
  show (!(if (⟨lo, hi⟩ : Box).area > (ringOf h.toArray).rect.area then
      Spec.strictIn (Er ⟨lo, hi⟩) h.toArray[0]! else Spec.strictIn (Spec.edges h true) lo)) =
    (!Spec.strictIn (Spec.edges h true) lo &&
      (if Spec.isRegion (.rect lo hi) then !((Spec.Shape.rect lo hi).member x) else true))
  have hmem : (Spec.Shape.rect lo hi).member x = (⟨lo, hi⟩ : Box).containsPt x :=
    (rectContainsPoint_spec lo hi x).symm
  have hreg : Spec.isRegion (.rect lo hi) = (decide (lo.x < hi.x) && decide (lo.y < hi.y)) := rfl
  rw [hmem, hreg]
  by_cases ha : (⟨lo, hi⟩ : Box).area > (ringOf h.toArray).rect.area
  · rw [if_pos ha]
    cases hJ : Spec.strictIn (Er ⟨lo, hi⟩) h.toArray[0]! with
    | true =>
      obtain ⟨hX, hR, -⟩ := F1 hJ
      simp [hX, hR.1, hR.2]
    | false =>
      have hI : Spec.strictIn (Spec.edges h true) lo = false := by
        cases hc : Spec.strictIn (Spec.edges h true) lo with
        | false => rfl
        | true => exact absurd ha (F2 hc)
      have hX : (⟨lo, hi⟩ : Box).containsPt x = false := by
        cases hc : (⟨lo, hi⟩ : Box).containsPt x with
        | false => rfl
        | true => rw [F3 hc hI] at hJ; cases hJ
      simp [hI, hX]
  · rw [if_neg ha]
    cases hI : Spec.strictIn (Spec.edges h true) lo with
    | true => simp
    | false =>
      have hX : (⟨lo, hi⟩ : Box).containsPt x = false := by
        cases hc : (⟨lo, hi⟩ : Box).containsPt x with
        | false => rfl
        | true => exact absurd (F1 (F3 hc hI)).2.2 ha
      simp [hX]

/-- `ringContainsRing ring rect` without contact (a `Rect` has 5 points: no shortcut) -/
theorem ringContainsRing_box (pts : Array Pt) (r : Box) (allow : Bool)
    (hav : NoContact (Spec.edges pts.toList true) (Er r)) :
    ringContainsRing (ringOf pts) (.bx r) allow =
      Spec.inRing (Spec.edges pts.toList true) r.min := by
  unfold ringContainsRing
  have hs : (decide ((Ring.bx r).numPoints ≥ complexRingMinPoints)) = false := by
    simp [Ring.numPoints, complexRingMinPoints]
  rw [hs, Bool.false_and]
  simp only [Bool.false_eq_true, if_false, Ring.empty, Bool.or_false]
  by_cases h3 : pts.size < 3
  · have : (mkSeries pts true .none 0).empty = true := by
      have := ringOf_empty pts
      simp only [Ring.empty] at this
      rw [this]; simpa using h3
    rw [this, edges_nil_of_short pts.toList (by simpa using h3), inRing_nil]
    simp
  · have : (mkSeries pts true .none 0).empty = false := by
      have := ringOf_empty pts
      simp only [Ring.empty] at this
      rw [this]; simpa using h3
    rw [this]
    simp only [Bool.false_eq_true, if_false]
    exact body_box pts r allow hav

theorem covers_poly_rect_eq (ext : List Pt) (holes : List (List Pt)) (lo hi : Pt) :
    Spec.covers (.poly ext holes) (.rect lo hi) =
      (decide (ext.length ≥ 3) &&
        ((Er ⟨lo, hi⟩).all (fun e => Spec.segInside (Spec.Shape.poly ext holes).member
            (Spec.Shape.poly ext holes).edges e.1 e.2) &&
          (if Spec.isRegion (.rect lo hi) then
            holes.all (fun h => match Spec.interiorPoint h with
              | some x => !((Spec.Shape.rect lo hi).member x)
              | none => true)
           else true))) := by
  unfold Spec.covers
  simp only [Spec.Shape.nonEmpty, Spec.isRegion, Bool.and_true, Bool.not_true, Bool.and_false,
    Bool.false_eq_true, if_false]
  rfl

/-- membership in a polygon is the same at the four corners of a rectangle whose sides meet no
    edge of the polygon -/
theorem poly_member_corners (ext : List Pt) (holes : List (List Pt)) (r : Box)
    (hgp : NoContact (Spec.Shape.poly ext holes).edges (Er r)) (k : Nat) :
    (Spec.Shape.poly ext holes).member (r.pointAt k) = (Spec.Shape.poly ext holes).member r.min := by
  rw [poly_member_eq, poly_member_eq]
  have hE : NoContact (Spec.edges ext true) (Er r) :=
    fun e he => hgp e ((poly_edges_mem ext holes e).2 (Or.inl he))
  rw [((box_sides ext r hE).2 k).2]
  congr 1
  apply all_congr_mem
  intro g hg
  have hG : NoContact (Spec.edges g true) (Er r) :=
    fun e he => hgp e ((poly_edges_mem ext holes e).2 (Or.inr ⟨g, hg, he⟩))
  have c1 := (box_sides g r hG).2 k
  have c0 := (box_sides g r hG).2 0
  rw [show r.pointAt 0 = r.min from rfl] at c0
  rw [← inRing_eq_strictIn_of_off c1.1, ← inRing_eq_strictIn_of_off c0.1, c1.2]

theorem rect_edges_all_segInside (ext : List Pt) (holes : List (List Pt)) (r : Box)
    (hgp : NoContact (Spec.Shape.poly ext holes).edges (Er r)) :
    (Er r).all (fun e => Spec.segInside (Spec.Shape.poly ext holes).member
        (Spec.Shape.poly ext holes).edges e.1 e.2) = (Spec.Shape.poly ext holes).member r.min := by
  have h1 : (Er r).all (fun e => Spec.segInside
        (Spec.Shape.poly ext holes).member (Spec.Shape.poly ext holes).edges e.1 e.2) =
      (Er r).all (fun e => (Spec.Shape.poly ext holes).member e.1) := by
    apply all_congr_mem
    intro e he
    exact poly_segInside ext holes e.1 e.2 (fun f hf => hgp f hf e he)
  rw [h1]
  unfold Er
  rw [rect_edges]
  have c1 := poly_member_corners ext holes r hgp 1
  have c2 := poly_member_corners ext holes r hgp 2
  have c3 := poly_member_corners ext holes r hgp 3
  simp only [Box.pointAt] at c1 c2 c3
  simp only [List.all_cons, List.all_nil, Bool.and_true, c1, c2, c3, Bool.and_self]

theorem all_and {α : Type} (l : List α) (f g : α → Bool) :
    l.all (fun x => f x && g x) = (l.all f && l.all g) := by
  induction l with
  | nil => rfl
  | cons x xs ih =>
    simp only [List.all_cons, ih]
    cases f x <;> cases g x <;> simp

end Contains

open Contains

/-- **Polygon ⊇ Rect, general position.**  `A` any polygon value whose holes have at least three
    points and on which the specification's `interiorPoint` works (`InteriorOK`, a property of
    the specification alone; it holds for simple rings), `B` a well-formed rectangle (a `Rect`
    has 5 points, the ≥ 16-point shortcut is never taken). -/
theorem poly_contains_rect_of_no_contact (ext : List Pt) (holes : List (List Pt)) (lo hi : Pt)
    (hholes : ∀ h ∈ holes, 3 ≤ h.length ∧ InteriorOK h)
    (hB : (Spec.Shape.rect lo hi).valid = true)
    (hgp : NoContact (Spec.Shape.poly ext holes).edges (Spec.Shape.rect lo hi).edges) :
    (build (.poly ext holes)).contains (build (.rect lo hi)) =
      Spec.covers (.poly ext holes) (.rect lo hi) := by
  have hr : lo.x ≤ hi.x ∧ lo.y ≤ hi.y := by
    simpa [Spec.Shape.valid] using hB
  have hgp' : NoContact (Spec.Shape.poly ext holes).edges (Er ⟨lo, hi⟩) := hgp
  rw [covers_poly_rect_eq, rect_edges_all_segInside ext holes ⟨lo, hi⟩ hgp', poly_member_eq]
  show Poly.containsPoly ⟨some (ringOf ext.toArray), holes.map (fun h => ringOf h.toArray)⟩
    (Box.asPoly ⟨lo, hi⟩) = _
  unfold Poly.containsPoly Box.asPoly
  simp only [List.any_nil]
  have hE : NoContact (Spec.edges ext true) (Er ⟨lo, hi⟩) :=
    fun e he => hgp' e ((poly_edges_mem ext holes e).2 (Or.inl he))
  rw [ringContainsRing_box ext.toArray ⟨lo, hi⟩ true hE, List.all_map]
  have hh : holes.all ((fun polyHole => if ringIntersectsRing polyHole (.bx ⟨lo, hi⟩) false = true
        then false else true) ∘ (fun h => ringOf h.toArray)) =
      holes.all (fun h => !Spec.strictIn (Spec.edges h true) lo &&
        (if Spec.isRegion (.rect lo hi) then
          (match Spec.interiorPoint h with
            | some x => !((Spec.Shape.rect lo hi).member x)
            | none => true)
         else true)) := by
    apply all_congr_mem
    intro g hg
    have := hole_rect g lo hi (hholes g hg).1 (hholes g hg).2 hr
      (fun e he => hgp' e ((poly_edges_mem ext holes e).2 (Or.inr ⟨g, hg, he⟩)))
    rw [← this]
    simp only [Function.comp]
    cases ringIntersectsRing (ringOf g.toArray) (.bx ⟨lo, hi⟩) false <;> rfl
  rw [hh, all_and]
  by_cases h3 : ext.length < 3
  · rw [edges_nil_of_short ext h3]
    simp [inRing_nil]
  · have : decide (ext.length ≥ 3) = true := by simp; omega
    rw [this]
    simp only [Bool.true_and]
    cases Spec.inRing (Spec.edges ext true) lo
    · simp
    · simp only [Bool.not_true, Bool.false_eq_true, if_false, Bool.true_and]
      congr 1
      by_cases hreg : Spec.isRegion (.rect lo hi) = true
      · simp only [hreg, if_true]
      · simp only [hreg, Bool.false_eq_true, if_false]
        simp

end Geo
