/-
  GENERATED FILE — do not edit.  Regenerate with
      cd /verif/translate && go build -o bin/translate . && \
        ./bin/translate geoformulas /repo > /verif/lean/GeoModel/Generated/GeoFormulas.lean

  Syntactic translation (translate/geoformulas.go) of the spherical-geometry formulas of
  geo/geo.go and of the float comparisons of circle.go (containsPoint, NewCircle's radius
  normalisation, the *Circle cases of Contains and Intersects).

  Conventions:
    * float64 ↦ α with [GeoNum α] (Float for execution, ℝ for the proofs); int32 ↦ Int
      (int32(x) ↦ GeoNum.toInt32 x: truncation toward zero, overflow NOT modelled;
      float64(i) ↦ GeoNum.ofInt i);
    * Go function F ↦ def with the first letter in lower case; Greek letters in identifiers are
      spelled out (φ→phi, λ→lam, Δ→D, δ→delta, θ→theta);
    * x = e / x := e / x *= e ↦ let-rebinding; named results start at 0; an if statement rebinds
      the variables it assigns: let (a, b) := if c then (…; (a, b)) else (…; (a, b));
    * a < b, a > b, a <= b, a >= b ↦ GeoNum.lt / gt / le / ge a b : Bool;
    * math.Sin/Cos/Asin/Acos/Sqrt/Atan2/Mod ↦ GeoNum.sin/cos/asin/acos/sqrt/atan2/fmod,
      math.Sincos(x) ↦ (GeoNum.sin x, GeoNum.cos x), math.Pi ↦ GeoNum.pi,
      math.Pow(x, n) (n a natural-number literal) ↦ GeoNum.npow x n;
    * constant expressions are kept symbolic (Go evaluates them exactly and rounds once; at
      α := Float they are evaluated in float64 arithmetic — a difference of at most a few ulps
      in the constants radians/degrees/piR/twoPiR);
    * circle.go: g.haversine ↦ haversineThreshold, g.center.X/Y ↦ cx/cy, p.X/Y ↦ px/py,
      other.Distance(g) ↦ dist, other.meters ↦ otherMeters, g.meters ↦ meters; statements of
      NewCircle that only touch non-float variables/fields are skipped, g := new(Circle) zeroes
      the float fields g_haversine, g_meters.
  Anything outside the recognised subset appears below as  opaque <name>_unrecognised : Unit.
-/
import GeoModel.GeoNum

set_option linter.unusedVariables false

namespace Geo.Gen
open Geo

/-- Go: `const earthRadius` -/
def earthRadius {α : Type} [GeoNum α] : α :=
  (6371e3 : α)

/-- Go: `const radians` -/
def radians {α : Type} [GeoNum α] : α :=
  GeoNum.pi / (180 : α)

/-- Go: `const degrees` -/
def degrees {α : Type} [GeoNum α] : α :=
  (180 : α) / GeoNum.pi

/-- Go: `const piR` -/
def piR {α : Type} [GeoNum α] : α :=
  GeoNum.pi * earthRadius

/-- Go: `const twoPiR` -/
def twoPiR {α : Type} [GeoNum α] : α :=
  (2 : α) * piR

/-- Go: `func Haversine(latA, lonA, latB, lonB float64) float64` -/
def haversine {α : Type} [GeoNum α] (latA : α) (lonA : α) (latB : α) (lonB : α) : α :=
  let phi1 := latA * radians
  let lam1 := lonA * radians
  let phi2 := latB * radians
  let lam2 := lonB * radians
  let Dphi := phi2 - phi1
  let Dlam := lam2 - lam1
  let sDphi2 := (GeoNum.sin (Dphi / (2 : α)))
  let sDlam2 := (GeoNum.sin (Dlam / (2 : α)))
  sDphi2 * sDphi2 + (GeoNum.cos phi1) * (GeoNum.cos phi2) * sDlam2 * sDlam2

/-- Go: `func NormalizeDistance(meters float64) float64` -/
def normalizeDistance {α : Type} [GeoNum α] (meters : α) : α :=
  (GeoNum.fmod meters twoPiR)

/-- Go: `func DistanceToHaversine(meters float64) float64` -/
def distanceToHaversine {α : Type} [GeoNum α] (meters : α) : α :=
  let sin := (GeoNum.sin ((0.5 : α) * meters / earthRadius))
  sin * sin

/-- Go: `func DistanceFromHaversine(haversine float64) float64` -/
def distanceFromHaversine {α : Type} [GeoNum α] (haversine : α) : α :=
  earthRadius * (2 : α) * (GeoNum.asin (GeoNum.sqrt haversine))

/-- Go: `func DistanceTo(latA, lonA, latB, lonB float64) (meters float64)` -/
def distanceTo {α : Type} [GeoNum α] (latA : α) (lonA : α) (latB : α) (lonB : α) : α :=
  let meters : α := 0
  let a := (haversine latA lonA latB lonB)
  (distanceFromHaversine a)

/-- Go: `func DestinationPoint(lat, lon, meters, bearingDegrees float64) ( destLat, destLon float64, )` -/
def destinationPoint {α : Type} [GeoNum α] (lat : α) (lon : α) (meters : α) (bearingDegrees : α) : α × α :=
  let destLat : α := 0
  let destLon : α := 0
  let delta := meters / earthRadius
  let theta := bearingDegrees * radians
  let phi1 := lat * radians
  let lam1 := lon * radians
  let phi2 := (GeoNum.asin ((GeoNum.sin phi1) * (GeoNum.cos delta) + (GeoNum.cos phi1) * (GeoNum.sin delta) * (GeoNum.cos theta)))
  let lam2 := lam1 + (GeoNum.atan2 ((GeoNum.sin theta) * (GeoNum.sin delta) * (GeoNum.cos phi1)) ((GeoNum.cos delta) - (GeoNum.sin phi1) * (GeoNum.sin phi2)))
  let lam2 := (GeoNum.fmod (lam2 + (3 : α) * GeoNum.pi) ((2 : α) * GeoNum.pi)) - GeoNum.pi
  (phi2 * degrees, lam2 * degrees)

/-- Go: `func BearingTo(latA, lonA, latB, lonB float64) float64` -/
def bearingTo {α : Type} [GeoNum α] (latA : α) (lonA : α) (latB : α) (lonB : α) : α :=
  let phi1 := latA * radians
  let phi2 := latB * radians
  let Dlam := (lonB - lonA) * radians
  let y := (GeoNum.sin Dlam) * (GeoNum.cos phi2)
  let x := (GeoNum.cos phi1) * (GeoNum.sin phi2) - (GeoNum.sin phi1) * (GeoNum.cos phi2) * (GeoNum.cos Dlam)
  let theta := (GeoNum.atan2 y x)
  (GeoNum.fmod (theta * degrees + (360 : α)) (360 : α))

/-- Go: `func RectFromCenter(lat, lon, meters float64) ( minLat, minLon, maxLat, maxLon float64, )` -/
def rectFromCenter {α : Type} [GeoNum α] (lat : α) (lon : α) (meters : α) : α × α × α × α :=
  let minLat : α := 0
  let minLon : α := 0
  let maxLat : α := 0
  let maxLon : α := 0
  let lat := lat * radians
  let lon := lon * radians
  let r := meters / earthRadius
  let minLat := lat - r
  let maxLat := lat + r
  let rCos := (GeoNum.cos r)
  let (minLat, minLon, maxLat, maxLon) :=
    if GeoNum.gt rCos (0.999999999999999 : α) then
      let minLat := lat
      let minLon := lon
      let maxLat := lat
      let maxLon := lon
      (minLat, minLon, maxLat, maxLon)
    else
      let latSin := GeoNum.sin lat
      let latCos := GeoNum.cos lat
      let latT := (GeoNum.asin (latSin / rCos))
      let latTSin := GeoNum.sin latT
      let latTCos := GeoNum.cos latT
      let lonD := (GeoNum.acos ((rCos - latTSin * latSin) / (latTCos * latCos)))
      let minLon := lon - lonD
      let maxLon := lon + lonD
      (minLat, minLon, maxLat, maxLon)
  let (minLon, maxLat, maxLon) :=
    if GeoNum.gt maxLat (GeoNum.pi / (2 : α)) then
      let minLon := (-GeoNum.pi)
      let maxLat := GeoNum.pi / (2 : α)
      let maxLon := GeoNum.pi
      (minLon, maxLat, maxLon)
    else
      (minLon, maxLat, maxLon)
  let (minLat, minLon, maxLon) :=
    if GeoNum.lt minLat ((-GeoNum.pi) / (2 : α)) then
      let minLat := (-GeoNum.pi) / (2 : α)
      let minLon := (-GeoNum.pi)
      let maxLon := GeoNum.pi
      (minLat, minLon, maxLon)
    else
      (minLat, minLon, maxLon)
  let (minLon, maxLon) :=
    if (GeoNum.lt minLon (-GeoNum.pi)) || (GeoNum.gt maxLon GeoNum.pi) then
      let minLon := (-GeoNum.pi)
      let maxLon := GeoNum.pi
      (minLon, maxLon)
    else
      (minLon, maxLon)
  let minLat := minLat * degrees
  let minLon := minLon * degrees
  let maxLat := maxLat * degrees
  let maxLon := maxLon * degrees
  (minLat, minLon, maxLat, maxLon)

/-- Go: `func DegsToSemi(degs float64) int32` -/
def degsToSemi {α : Type} [GeoNum α] (degs : α) : Int :=
  (GeoNum.toInt32 (degs * ((GeoNum.npow (2 : α) 31) / (180.0 : α))))

/-- Go: `func SemiToDegs(semi int32) float64` -/
def semiToDegs {α : Type} [GeoNum α] (semi : Int) : α :=
  (GeoNum.ofInt semi) * ((180.0 : α) / (GeoNum.npow (2 : α) 31))

/-- Go: `circle.go: func (g *Circle) containsPoint(p geometry.Point) bool` -/
def circleContainsPoint {α : Type} [GeoNum α] (haversineThreshold cx cy px py : α) : Bool :=
  let h := (haversine py px cy cx)
  GeoNum.le h haversineThreshold

/-- Go: `circle.go: func NewCircle(center geometry.Point, meters float64, steps int) *Circle, field haversine of the result` -/
def newCircleHaversine {α : Type} [GeoNum α] (meters : α) : α :=
  let g_haversine : α := 0
  let g_meters : α := 0
  let g_meters := meters
  let (meters, g_haversine) :=
    if GeoNum.gt meters (0 : α) then
      let meters := (normalizeDistance meters)
      let g_haversine := (distanceToHaversine meters)
      (meters, g_haversine)
    else
      (meters, g_haversine)
  g_haversine

/-- Go: `circle.go: func NewCircle(center geometry.Point, meters float64, steps int) *Circle, field meters of the result` -/
def newCircleMeters {α : Type} [GeoNum α] (meters : α) : α :=
  let g_haversine : α := 0
  let g_meters : α := 0
  let g_meters := meters
  let (meters, g_haversine) :=
    if GeoNum.gt meters (0 : α) then
      let meters := (normalizeDistance meters)
      let g_haversine := (distanceToHaversine meters)
      (meters, g_haversine)
    else
      (meters, g_haversine)
  g_meters

/-- Go: `circle.go: func (g *Circle) Contains(obj Object) bool, case *Circle: return other.Distance(g)+other.meters <= g.meters` -/
def circleContainsCircle {α : Type} [GeoNum α] (dist otherMeters meters : α) : Bool :=
  GeoNum.le (dist + otherMeters) meters

/-- Go: `circle.go: func (g *Circle) Intersects(obj Object) bool, case *Circle: return other.Distance(g) <= (other.meters + g.meters)` -/
def circleIntersectsCircle {α : Type} [GeoNum α] (dist otherMeters meters : α) : Bool :=
  GeoNum.le dist (otherMeters + meters)

end Geo.Gen
