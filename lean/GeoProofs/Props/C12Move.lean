/-
  Property C12 (continued) — `Series.move` (Go: baseSeries.Move) as a translation of the series:
  points are translated, `closed` is kept, the flags computed by `processPoints` are unchanged and
  the rectangle is translated; moves compose additively on the points; segment count unchanged and
  segments translated.
-/
import GeoProofs.Props.C12

namespace Geo.C12Move
open Geo

/-- the fields of a moved series other than `index` are those of the rebuilt series -/
theorem move_fields (s : Series) (dx dy : Rat) :
    (s.move dx dy).pts = (mkSeries (s.pts.map (·.translate ⟨dx, dy⟩)) s.closed .quadtree 64).pts ∧
    (s.move dx dy).closed = (mkSeries (s.pts.map (·.translate ⟨dx, dy⟩)) s.closed .quadtree 64).closed ∧
    (s.move dx dy).convex = (mkSeries (s.pts.map (·.translate ⟨dx, dy⟩)) s.closed .quadtree 64).convex ∧
    (s.move dx dy).clockwise = (mkSeries (s.pts.map (·.translate ⟨dx, dy⟩)) s.closed .quadtree 64).clockwise ∧
    (s.move dx dy).rect = (mkSeries (s.pts.map (·.translate ⟨dx, dy⟩)) s.closed .quadtree 64).rect := by
  unfold Series.move
  dsimp only
  repeat' split
  all_goals exact ⟨rfl, rfl, rfl, rfl, rfl⟩

theorem move_pts (s : Series) (dx dy : Rat) :
    (s.move dx dy).pts = s.pts.map (·.translate ⟨dx, dy⟩) := (move_fields s dx dy).1

theorem move_closed (s : Series) (dx dy : Rat) : (s.move dx dy).closed = s.closed :=
  (move_fields s dx dy).2.1

theorem move_convex_pp (s : Series) (dx dy : Rat) :
    (s.move dx dy).convex = (processPoints (s.pts.map (·.translate ⟨dx, dy⟩)) s.closed).convex :=
  (move_fields s dx dy).2.2.1

theorem move_clockwise_pp (s : Series) (dx dy : Rat) :
    (s.move dx dy).clockwise = (processPoints (s.pts.map (·.translate ⟨dx, dy⟩)) s.closed).clockwise :=
  (move_fields s dx dy).2.2.2.1

theorem move_rect_pp (s : Series) (dx dy : Rat) :
    (s.move dx dy).rect = (processPoints (s.pts.map (·.translate ⟨dx, dy⟩)) s.closed).rect :=
  (move_fields s dx dy).2.2.2.2

/-- flags of the translated point set, degenerate or not -/
theorem processPoints_translate_flags (d : Pt) (pts : Array Pt) (closed : Bool) :
    (processPoints (pts.map (·.translate d)) closed).convex = (processPoints pts closed).convex ∧
    (processPoints (pts.map (·.translate d)) closed).clockwise = (processPoints pts closed).clockwise := by
  by_cases he : ((closed && pts.size < 3) || pts.size < 2) = true
  · rw [processPoints_map_empty _ pts closed he]; exact ⟨rfl, rfl⟩
  · have h := processPoints_translate d pts closed he
    exact ⟨h.1, h.2.1⟩

theorem move_convex (pts : Array Pt) (closed : Bool) (kind : IndexKind) (minPoints : Nat)
    (dx dy : Rat) :
    ((mkSeries pts closed kind minPoints).move dx dy).convex
      = (mkSeries pts closed kind minPoints).convex := by
  rw [move_convex_pp]
  exact (processPoints_translate_flags ⟨dx, dy⟩ pts closed).1

theorem move_clockwise (pts : Array Pt) (closed : Bool) (kind : IndexKind) (minPoints : Nat)
    (dx dy : Rat) :
    ((mkSeries pts closed kind minPoints).move dx dy).clockwise
      = (mkSeries pts closed kind minPoints).clockwise := by
  rw [move_clockwise_pp]
  exact (processPoints_translate_flags ⟨dx, dy⟩ pts closed).2

theorem move_rect (pts : Array Pt) (closed : Bool) (kind : IndexKind) (minPoints : Nat)
    (dx dy : Rat) (hne : ¬ ((closed && pts.size < 3) || pts.size < 2)) :
    ((mkSeries pts closed kind minPoints).move dx dy).rect
      = (mkSeries pts closed kind minPoints).rect.translate ⟨dx, dy⟩ := by
  rw [move_rect_pp]
  exact (processPoints_translate ⟨dx, dy⟩ pts closed hne).2.2

theorem move_rect_degenerate (pts : Array Pt) (closed : Bool) (kind : IndexKind) (minPoints : Nat)
    (dx dy : Rat) (he : ((closed && pts.size < 3) || pts.size < 2) = true) :
    ((mkSeries pts closed kind minPoints).move dx dy).rect
      = (mkSeries pts closed kind minPoints).rect ∧
    (mkSeries pts closed kind minPoints).rect = ⟨⟨0, 0⟩, ⟨0, 0⟩⟩ := by
  rw [move_rect_pp]
  refine ⟨?_, ?_⟩
  · show (processPoints (pts.map (·.translate ⟨dx, dy⟩)) closed).rect = (processPoints pts closed).rect
    rw [processPoints_map_empty _ pts closed he]
  · show (processPoints pts closed).rect = _
    unfold processPoints
    rw [if_pos he]

/-! ### composition -/

theorem translate_translate (p : Pt) (a b c d : Rat) :
    (p.translate ⟨a, b⟩).translate ⟨c, d⟩ = p.translate ⟨a + c, b + d⟩ := by
  simp only [Pt.translate, add_assoc]

theorem translate_zero (p : Pt) : p.translate ⟨0, 0⟩ = p := by
  simp only [Pt.translate, add_zero]

theorem move_move_pts (s : Series) (a b c d : Rat) :
    ((s.move a b).move c d).pts = (s.move (a + c) (b + d)).pts := by
  rw [move_pts, move_pts, move_pts, Array.map_map]
  congr 1
  funext p
  exact translate_translate p a b c d

theorem move_zero_pts (s : Series) : (s.move 0 0).pts = s.pts := by
  rw [move_pts]
  have : (fun p : Pt => p.translate ⟨0, 0⟩) = id := funext translate_zero
  rw [this, Array.map_id]

/-! ### segments -/

theorem translate_inj (d : Pt) {p q : Pt} (h : p.translate d = q.translate d) : p = q := by
  cases p; cases q
  simp only [Pt.translate, Pt.mk.injEq] at h ⊢
  exact ⟨add_right_cancel h.1, add_right_cancel h.2⟩

theorem getElem!_map_translate (pts : Array Pt) (d : Pt) (i : Nat) (h : i < pts.size) :
    (pts.map (·.translate d))[i]! = (pts[i]!).translate d := by
  have h' : i < (pts.map (·.translate d)).size := by simpa using h
  rw [getElem!_pos _ i h', getElem!_pos pts i h, Array.getElem_map]

theorem numSegmentsOf_translate (pts : Array Pt) (closed : Bool) (d : Pt) :
    numSegmentsOf (pts.map (·.translate d)) closed = numSegmentsOf pts closed := by
  unfold numSegmentsOf
  simp only [Array.size_map]
  by_cases h3 : pts.size < 3
  · simp only [h3, if_true]
  · have e1 := getElem!_map_translate pts d (pts.size - 1) (by omega)
    have e0 := getElem!_map_translate pts d 0 (by omega)
    rw [e1, e0]
    have hb : ((pts[pts.size - 1]!).translate d == (pts[0]!).translate d)
        = (pts[pts.size - 1]! == pts[0]!) := by
      rw [Bool.eq_iff_iff]
      simp only [beq_iff_eq]
      exact ⟨translate_inj d, fun h => by rw [h]⟩
    rw [hb]

theorem move_numSegments (s : Series) (dx dy : Rat) :
    (s.move dx dy).numSegments = s.numSegments := by
  unfold Series.numSegments
  rw [move_pts, move_closed]
  exact numSegmentsOf_translate s.pts s.closed ⟨dx, dy⟩

theorem numSegmentsOf_le (pts : Array Pt) (closed : Bool) : numSegmentsOf pts closed ≤ pts.size := by
  unfold numSegmentsOf
  split <;> split <;> try split
  all_goals omega

/-- segments of the moved series, for any index that is a point index -/
theorem move_segmentAt_of_lt_size (s : Series) (dx dy : Rat) (i : Nat) (hi : i < s.pts.size) :
    (s.move dx dy).segmentAt i
      = ⟨(s.segmentAt i).a.translate ⟨dx, dy⟩, (s.segmentAt i).b.translate ⟨dx, dy⟩⟩ := by
  unfold Series.segmentAt segmentAtOf
  rw [move_pts]
  simp only [Array.size_map]
  rw [getElem!_map_translate _ _ i hi]
  by_cases hl : i = s.pts.size - 1
  · have hb : (i == s.pts.size - 1) = true := by simpa using hl
    simp only [hb, if_true]
    rw [getElem!_map_translate _ _ 0 (by omega)]
  · have hb : (i == s.pts.size - 1) = false := by simpa using hl
    simp only [hb, Bool.false_eq_true, if_false]
    rw [getElem!_map_translate _ _ (i + 1) (by omega)]

theorem move_segmentAt (s : Series) (dx dy : Rat) (i : Nat) (hi : i < s.numSegments) :
    (s.move dx dy).segmentAt i
      = ⟨(s.segmentAt i).a.translate ⟨dx, dy⟩, (s.segmentAt i).b.translate ⟨dx, dy⟩⟩ :=
  move_segmentAt_of_lt_size s dx dy i
    (Nat.lt_of_lt_of_le hi (numSegmentsOf_le s.pts s.closed))

/-! ### non-vacuity: the unit square, closed, moved by (1, 2) -/

example :
    let s := mkSeries #[⟨0, 0⟩, ⟨1, 0⟩, ⟨1, 1⟩, ⟨0, 1⟩] true .none 0
    (s.move 1 2).pts = #[⟨1, 2⟩, ⟨2, 2⟩, ⟨2, 3⟩, ⟨1, 3⟩] ∧
    (s.move 1 2).closed = true ∧
    (s.move 1 2).convex = s.convex ∧ s.convex = true ∧
    (s.move 1 2).clockwise = s.clockwise ∧
    (s.move 1 2).rect = ⟨⟨1, 2⟩, ⟨2, 3⟩⟩ ∧ s.rect = ⟨⟨0, 0⟩, ⟨1, 1⟩⟩ ∧
    (s.move 1 2).numSegments = 4 ∧
    (s.move 1 2).segmentAt 3 = ⟨⟨1, 3⟩, ⟨1, 2⟩⟩ := by
  decide +kernel

end Geo.C12Move
