/-
  GeoProofs.CoversSpec.Thin — a valid region (non-degenerate rectangle or valid polygon) contains
  a whole L∞ box, every box contains a point off finitely many segments, hence a region is never
  covered by a curve (line string or degenerate rectangle).
-/
import GeoProofs.CoversSpec.Conn
import GeoProofs.CoversSpec.Shapes
import Mathlib.Tactic.Linarith
import Mathlib.Tactic.Ring
import Mathlib.Tactic.LinearCombination

namespace Geo
namespace CS
open Jordan Cvx

theorem onSeg_of_meet_pt {c a b : Pt} (h : SegsMeet c c a b) : OnSeg a b c := by
  obtain ⟨p, hp, hq⟩ := h
  obtain ⟨-, h1, h2, h3, h4⟩ := hp
  simp only [min_self, max_self] at h1 h2 h3 h4
  have : p = c := (K.pt_eq_iff _ _).2 ⟨le_antisymm h2 h1, le_antisymm h4 h3⟩
  exact this ▸ hq

/-- of three non-collinear points one is off a given segment -/
theorem exists_off_one (f : Pt × Pt) (c : Pt) (r : Rat) (hr : 0 < r) :
    ∃ c' : Pt, Near (r/2) c' c ∧ ¬ OnSeg f.1 f.2 c' := by
  have h0 : 0 ≤ r/2 := by linarith
  by_cases h1 : OnSeg f.1 f.2 c
  swap
  · exact ⟨c, ⟨by simp [h0], by simp [h0]⟩, h1⟩
  by_cases h2 : OnSeg f.1 f.2 ⟨c.x + r/2, c.y⟩
  swap
  · refine ⟨_, ⟨?_, ?_⟩, h2⟩
    · simp only [add_sub_cancel_left]; rw [abs_of_nonneg h0]
    · simp [h0]
  by_cases h3 : OnSeg f.1 f.2 ⟨c.x, c.y + r/2⟩
  swap
  · refine ⟨_, ⟨?_, ?_⟩, h3⟩
    · simp [h0]
    · simp only [add_sub_cancel_left]; rw [abs_of_nonneg h0]
  exfalso
  have e1 := h1.1
  have e2 := h2.1
  have e3 := h3.1
  rw [K.cross_def] at e1 e2 e3
  simp only at e2 e3
  have hy : f.2.y = f.1.y := by
    have : (f.2.y - f.1.y) * (r/2) = 0 := by linear_combination e1 - e2
    rcases mul_eq_zero.1 this with h | h
    · linarith
    · linarith
  have hx : f.2.x = f.1.x := by
    have : (f.2.x - f.1.x) * (r/2) = 0 := by linear_combination e3 - e1
    rcases mul_eq_zero.1 this with h | h
    · linarith
    · linarith
  obtain ⟨-, a1, a2, -, -⟩ := h1
  obtain ⟨-, b1, b2, -, -⟩ := h2
  rw [hx] at a1 a2 b1 b2
  simp only [min_self, max_self] at a1 a2 b1 b2
  linarith

theorem near_tri {r ρ : Rat} {x c' c : Pt} (h1 : Near ρ x c') (h2 : Near (r/2) c' c) (hρ : ρ ≤ r/2) :
    Near r x c := by
  obtain ⟨a1, a2⟩ := h1
  obtain ⟨b1, b2⟩ := h2
  rw [abs_le] at a1 a2 b1 b2
  exact ⟨abs_le.2 ⟨by linarith [a1.1, b1.1], by linarith [a1.2, b1.2]⟩,
    abs_le.2 ⟨by linarith [a2.1, b2.1], by linarith [a2.2, b2.2]⟩⟩

/-- every box contains a point off finitely many segments -/
theorem exists_off_in_box (F : List (Pt × Pt)) (c : Pt) (r : Rat) (hr : 0 < r) :
    ∃ x, Near r x c ∧ ∀ f ∈ F, ¬ OnSeg f.1 f.2 x := by
  induction F generalizing c r with
  | nil => exact ⟨c, near_self r hr.le c, fun _ hf => by cases hf⟩
  | cons g F ih =>
    obtain ⟨c', hn, hoff⟩ := exists_off_one g c r hr
    obtain ⟨ε, hε, htube⟩ := tube c' c' [g] (by
      intro f hf
      rw [List.mem_singleton] at hf
      subst hf
      exact fun h => hoff (onSeg_of_meet_pt h))
    obtain ⟨x, hx, hxF⟩ := ih c' (min ε (r/2)) (lt_min hε (by linarith))
    refine ⟨x, near_tri hx hn (min_le_right _ _), ?_⟩
    intro f hf
    rcases List.mem_cons.1 hf with rfl | hf
    · exact htube c' x (K.onSeg_left _ _) (hx.mono (min_le_left _ _)) _ (List.mem_singleton.2 rfl)
    · exact hxF f hf

open Spec in
theorem rect_has_box (lo hi : Pt) (h : isRegion (.rect lo hi) = true) :
    ∃ c r, 0 < r ∧ ∀ x, Near r x c → (Shape.rect lo hi).member x = true := by
  simp only [isRegion, Bool.and_eq_true, decide_eq_true_eq] at h
  obtain ⟨hx, hy⟩ := h
  refine ⟨⟨(lo.x + hi.x)/2, (lo.y + hi.y)/2⟩, min ((hi.x - lo.x)/2) ((hi.y - lo.y)/2),
    lt_min (by linarith) (by linarith), ?_⟩
  intro x hn
  obtain ⟨n1, n2⟩ := hn
  have m1 := min_le_left ((hi.x - lo.x)/2) ((hi.y - lo.y)/2)
  have m2 := min_le_right ((hi.x - lo.x)/2) ((hi.y - lo.y)/2)
  rw [abs_le] at n1 n2
  simp only at n1 n2
  rw [rect_member_iff]
  exact ⟨by linarith [n1.1], by linarith [n1.2], by linarith [n2.1], by linarith [n2.2]⟩

open Spec in
/-- around a member point off all edges of a polygon, a whole box consists of members -/
theorem poly_box_at (ext : List Pt) (holes : List (List Pt)) (x0 : Pt)
    (hm : (Shape.poly ext holes).member x0 = true)
    (hoff : ∀ f ∈ (Shape.poly ext holes).edges, ¬ OnSeg f.1 f.2 x0) :
    ∃ r, 0 < r ∧ ∀ x, Near r x x0 → (Shape.poly ext holes).member x = true := by
  obtain ⟨ε, hε, htube⟩ := tube x0 x0 (Shape.poly ext holes).edges
    (fun f hf h => hoff f hf (onSeg_of_meet_pt h))
  refine ⟨ε, hε, fun x hn => ?_⟩
  rw [Contains.poly_member_const ext holes x0 x ?_ x (K.onSeg_right _ _), hm]
  intro f hf
  rw [segsMeet_eq_false_iff]
  rintro ⟨u, hu1, hu2⟩
  obtain ⟨y, hy, hny⟩ := near_seg_convex (a := x0) (b := x0) (K.onSeg_left _ _) (K.onSeg_left _ _)
    (near_self ε hε.le x0) hn hu2
  exact htube y u hy hny f hf hu1

open Spec in
/-- a valid polygon has a member point on none of its edges -/
theorem poly_interior_point (ext : List Pt) (holes : List (List Pt))
    (hv : (Shape.poly ext holes).valid = true) :
    ∃ x0, (Shape.poly ext holes).member x0 = true ∧
      ∀ f ∈ (Shape.poly ext holes).edges, ¬ OnSeg f.1 f.2 x0 := by
  have hf := IX.polyFacts_of_valid ext holes hv
  have hs : simpleRing ext = true := by
    simp only [Shape.valid, Bool.and_eq_true] at hv
    exact hv.1.1.1
  obtain ⟨-, -, hE, hS⟩ := ring_data ext hs
  have R : RingD (Spec.edges ext true) (cyc ext) (SeriesL.nptsL ext) := ⟨hS, hE⟩
  set P := cyc ext with hP
  set es := Spec.edges ext true with hes
  set z := lerp (P 0) (P (0+1)) (1/2) with hz
  have hab := R.ne_succ 0
  have hzo : OpenOn (P 0) (P (0+1)) z := openOn_of_lerp hab (by norm_num) (by norm_num)
  have hzb : Spec.onBoundary es z = true :=
    (Geo.onBoundary_iff _ _).2 ⟨_, R.edge_mem 0, hzo.1⟩
  -- hole edges do not contain z
  have hzh : ∀ h ∈ holes, ∀ f ∈ Spec.edges h true, ¬ OnSeg f.1 f.2 z := by
    intro h hh f hf' hon
    have := (IX.inRing_false_iff _ _).1 (hf.hext h hh z hzb)
    rw [(Geo.onBoundary_iff _ _).2 ⟨f, hf', hon⟩] at this
    exact Bool.noConfusion this.1
  set F := (holes.map (fun h => Spec.edges h true)).flatten with hF
  have hFmem : ∀ f ∈ F, ∃ h ∈ holes, f ∈ Spec.edges h true := by
    intro f hf'
    simp only [hF, List.mem_flatten, List.mem_map] at hf'
    obtain ⟨l, ⟨h, hh, rfl⟩, he⟩ := hf'
    exact ⟨h, hh, he⟩
  obtain ⟨ε0, hε0, htube⟩ := tube z z F (by
    intro f hf' hmeet
    obtain ⟨h, hh, hfe⟩ := hFmem f hf'
    exact hzh h hh f hfe (onSeg_of_meet_pt hmeet))
  obtain ⟨rp, rm, -, np, nm, sp, sm, cp, cm, hpar⟩ := R.two_sides_near ext rfl 0 ε0 hε0
  -- the one of parity 1
  have key : ∀ x0, Near ε0 x0 z → Sees es x0 z → Spec.cross (P 0) (P (0+1)) x0 ≠ 0 →
      Spec.parity es x0 = 1 → (Shape.poly ext holes).member x0 = true ∧
      ∀ f ∈ (Shape.poly ext holes).edges, ¬ OnSeg f.1 f.2 x0 := by
    intro x0 hn hsee hc hp1
    have hoffE : ∀ e ∈ es, ¬ OnSeg e.1 e.2 x0 := by
      intro e he hon
      have := hsee e he x0 (K.onSeg_left _ _) hon
      rw [this] at hc
      exact hc hzo.1.1
    have hoffF : ∀ f ∈ F, ¬ OnSeg f.1 f.2 x0 :=
      fun f hf' => htube z x0 (K.onSeg_left _ _) hn f hf'
    refine ⟨?_, ?_⟩
    · show IX.pmem ext holes x0 = true
      rw [IX.pmem_iff]
      refine ⟨?_, ?_⟩
      · unfold Spec.inRing
        rw [hp1]; simp
      · intro h hh
        have hav : ∀ e ∈ Spec.edges h true, Spec.segsMeet e.1 e.2 z x0 = false := by
          intro e he
          rw [segsMeet_eq_false_iff]
          rintro ⟨u, hu1, hu2⟩
          obtain ⟨y, hy, hny⟩ := near_seg_convex (a := z) (b := z) (K.onSeg_left _ _)
            (K.onSeg_left _ _) (near_self ε0 hε0.le z) hn hu2
          refine htube y u hy hny e ?_ hu1
          simp only [hF, List.mem_flatten, List.mem_map]
          exact ⟨_, ⟨h, hh, rfl⟩, he⟩
        rw [← (inRing_const_of_avoids h z x0 hav).2]
        by_contra hne
        rw [Bool.not_eq_false] at hne
        have := IX.strictIn_inRing hne
        rw [hf.hext h hh z hzb] at this
        exact Bool.noConfusion this
    · intro f hf'
      rcases List.mem_append.1 hf' with h | h
      · exact hoffE f h
      · exact hoffF f h
  have hlt : ∀ x, Spec.parity es x < 2 := fun x => by
    unfold Spec.parity; exact Nat.mod_lt _ (by omega)
  by_cases h1 : Spec.parity es rp = 1
  · exact ⟨rp, key rp np sp cp.ne' h1⟩
  · have := hlt rp
    have := hlt rm
    exact ⟨rm, key rm nm sm cm.ne (by omega)⟩

open Spec in
/-- a valid region contains a whole box -/
theorem region_has_box (b : Shape) (hb : b.valid = true) (hrb : isRegion b = true) :
    ∃ c r, 0 < r ∧ ∀ x, Near r x c → b.member x = true := by
  cases b with
  | point p => simp [isRegion] at hrb
  | line pts => simp [isRegion] at hrb
  | rect lo hi => exact rect_has_box lo hi hrb
  | poly ext holes =>
    obtain ⟨x0, hm, hoff⟩ := poly_interior_point ext holes hb
    exact ⟨x0, poly_box_at ext holes x0 hm hoff⟩

set_option linter.unusedVariables false in
open Spec in
/-- a valid region is never covered by a curve -/
theorem not_covers_region_in_curve (a b : Shape) (ha : a.valid = true) (hb : b.valid = true)
    (hrb : isRegion b = true) (hra : isRegion a = false) (hpa : ∀ q, a ≠ .point q) : ¬ Covers a b := by
  rintro ⟨-, hcov⟩
  obtain ⟨c, r, hr, hbox⟩ := region_has_box b hb hrb
  obtain ⟨x, hx, hoff⟩ := exists_off_in_box a.edges c r hr
  obtain ⟨e, he, hon⟩ := member_on_edge a ha hra x (hcov x (hbox x hx))
  exact hoff e he hon
end CS
end Geo

#print axioms Geo.CS.not_covers_region_in_curve
