/-
  GeoProofs.Intersects.Strict — exactness of STRICT containment `ringContainsRing h other false`
  (= `ringContainsLine`), the test "the hole swallows the other shape" of `Poly.intersects*`.

  The allowOnEdge = false branch of `ringContainsSegmentS` returns `true` at the convex shortcut
  (site 5) as soon as both endpoints are strictly inside.  That is correct iff the convex flag
  implies that the strict interior is convex; this is the hypothesis `ConvexOK` (NOT proved here).
  Everything else is proved: the non-convex branch (no ring edge meets the segment — J), the
  vertex-only test of `ringContainsRingBody` on a convex ring, the rectangle pre-check and the
  ≥ 16 points rectangle shortcut (`rect_filled_strict`: if the four sides of a rectangle are
  strictly inside a closed chain, so is the whole rectangle).
-/
import GeoProofs.Intersects.Model

namespace Geo
namespace IX
open GL Jordan

/-- strict membership of the model is `Spec.strictIn` -/
def StrictSpec (r : Ring) (C : List Pt) : Prop :=
  ∀ p, (ringContainsPoint r p false).hit = Spec.strictIn (Spec.edges C true) p

theorem strictSpec_mk (pts : Array Pt) (m : Nat) :
    StrictSpec (.ser (mkSeries pts true .none m)) pts.toList :=
  fun p => ringContainsPoint_exclusive pts .none m (series_search_exact_kind_none pts true m) p

/-- the convex flag is only raised on rings whose strict interior is convex -/
def ConvexOK (r : Ring) (C : List Pt) : Prop :=
  r.convex = true → ∀ p q, Spec.strictIn (Spec.edges C true) p = true →
    Spec.strictIn (Spec.edges C true) q = true →
    ∀ x, OnSeg p q x → Spec.strictIn (Spec.edges C true) x = true

theorem strictIn_iff (es : List (Pt × Pt)) (p : Pt) :
    Spec.strictIn es p = true ↔ Spec.onBoundary es p = false ∧ Spec.parity es p = 1 := by
  unfold Spec.strictIn
  simp

theorem strictIn_inRing {es : List (Pt × Pt)} {p : Pt} (h : Spec.strictIn es p = true) :
    Spec.inRing es p = true := by
  obtain ⟨-, h2⟩ := (strictIn_iff es p).1 h
  unfold Spec.inRing
  simp [h2]

theorem strictIn_off {es : List (Pt × Pt)} {p : Pt} (h : Spec.strictIn es p = true) :
    Spec.onBoundary es p = false := ((strictIn_iff es p).1 h).1

theorem RingSpec.searchAny_iff {r : Ring} {C : List Pt} (h : RingSpec r C) (q : Box)
    (pred : Seg → Nat → Bool) :
    r.searchAny q pred = true ↔
      ∃ i, i < r.numSegments ∧ (r.segmentAt i).box.intersects q = true ∧
        pred (r.segmentAt i) i = true := by
  unfold Ring.searchAny
  obtain ⟨visit, hperm, hv⟩ := h.search q
  rw [hv, GL.foldUntil_any (fun i => pred (r.segmentAt i) i)]
  simp only [Bool.false_or]
  rw [List.any_eq_true]
  constructor
  · rintro ⟨i, hi, hp⟩
    have := hperm.mem_iff.1 hi
    rw [List.mem_filter, List.mem_range] at this
    exact ⟨i, this.1, this.2, hp⟩
  · rintro ⟨i, h1, h2, h3⟩
    exact ⟨i, hperm.mem_iff.2 (List.mem_filter.2 ⟨List.mem_range.2 h1, h2⟩), h3⟩

/-- the cascade of `ringContainsSegmentS` with `allowOnEdge = false` -/
theorem containsSegment_false_eq (r : Ring) (seg : Seg) : ringContainsSegment r seg false =
    if (!r.rect.containsPt seg.a || !r.rect.containsPt seg.b) = true then false
    else if (!(ringContainsPoint r seg.a false).hit) = true then false
    else if seg.b = seg.a then true
    else if (!(ringContainsPoint r seg.b false).hit) = true then false
    else if r.convex = true then true
    else !r.searchAny seg.box (fun seg2 _ => seg.intersects seg2) := by
  unfold ringContainsSegment ringContainsSegmentS
  dsimp only
  by_cases h1 : (!r.rect.containsPt seg.a || !r.rect.containsPt seg.b) = true
  · rw [if_pos h1, if_pos h1]
  rw [if_neg h1, if_neg h1]
  by_cases h2 : (!(ringContainsPoint r seg.a false).hit) = true
  · rw [if_pos h2, if_pos h2]
  rw [if_neg h2, if_neg h2]
  by_cases h3 : seg.b = seg.a
  · rw [if_pos h3, if_pos h3]
  rw [if_neg h3, if_neg h3]
  by_cases h4 : (!(ringContainsPoint r seg.b false).hit) = true
  · rw [if_pos h4, if_pos h4]
  rw [if_neg h4, if_neg h4]
  by_cases h5 : r.convex = true
  · rw [if_pos h5, if_pos h5]
  rw [if_neg h5, if_neg h5, if_neg (by decide)]

/-- strict containment of a segment -/
theorem ringContainsSegment_strict_iff {r : Ring} {C : List Pt} (h : RingSpec r C)
    (hs : StrictSpec r C) (hcv : ConvexOK r C) (seg : Seg) :
    ringContainsSegment r seg false = true ↔
      ∀ x, OnSeg seg.a seg.b x → Spec.strictIn (Spec.edges C true) x = true := by
  rw [containsSegment_false_eq, hs, hs]
  by_cases h1 : (!r.rect.containsPt seg.a || !r.rect.containsPt seg.b) = true
  · rw [if_pos h1]
    refine iff_of_false (by simp) ?_
    intro hall
    have ha := h.inRect _ (strictIn_inRing (hall _ (K.onSeg_left _ _)))
    have hb := h.inRect _ (strictIn_inRing (hall _ (K.onSeg_right _ _)))
    simp [ha, hb] at h1
  rw [if_neg h1]
  by_cases h2 : (!Spec.strictIn (Spec.edges C true) seg.a) = true
  · rw [if_pos h2]
    refine iff_of_false (by simp) ?_
    intro hall
    simp [hall _ (K.onSeg_left _ _)] at h2
  rw [if_neg h2]
  have sa : Spec.strictIn (Spec.edges C true) seg.a = true := by simpa using h2
  by_cases h3 : seg.b = seg.a
  · rw [if_pos h3]
    refine iff_of_true rfl ?_
    intro x hx
    rw [h3] at hx
    rw [K.onSeg_degenerate.1 hx]
    exact sa
  rw [if_neg h3]
  by_cases h4 : (!Spec.strictIn (Spec.edges C true) seg.b) = true
  · rw [if_pos h4]
    refine iff_of_false (by simp) ?_
    intro hall
    simp [hall _ (K.onSeg_right _ _)] at h4
  rw [if_neg h4]
  have sb : Spec.strictIn (Spec.edges C true) seg.b = true := by simpa using h4
  by_cases h5 : r.convex = true
  · rw [if_pos h5]
    exact iff_of_true rfl (hcv h5 _ _ sa sb)
  rw [if_neg h5, Bool.not_eq_true']
  constructor
  · intro hno
    have hav : ∀ e ∈ Spec.edges C true, Spec.segsMeet e.1 e.2 seg.a seg.b = false := by
      intro e he
      rw [segsMeet_eq_false_iff]
      intro hm
      obtain ⟨i, hi, rfl⟩ := h.of_mem he
      have hm' : SegsMeet seg.a seg.b (r.segmentAt i).a (r.segmentAt i).b :=
        (K.segsMeet_symm _ _ _ _).1 hm
      have : r.searchAny seg.box (fun seg2 _ => seg.intersects seg2) = true :=
        (h.searchAny_iff _ _).2 ⟨i, hi, segBoxes_intersect_of_meet hm', (segIntersects_iff _ _).2 hm'⟩
      rw [hno] at this
      cases this
    exact segment_inside_of_avoids C seg.a seg.b hav (strictIn_inRing sa)
  · intro hall
    cases hc : r.searchAny seg.box (fun seg2 _ => seg.intersects seg2) with
    | false => rfl
    | true =>
      exfalso
      obtain ⟨i, hi, -, hm⟩ := (h.searchAny_iff _ _).1 hc
      obtain ⟨z, hz1, hz2⟩ := (segIntersects_iff _ _).1 hm
      have := strictIn_off (hall z hz1)
      rw [onBoundary_of_onSeg (h.edge_mem hi) hz2] at this
      cases this

/-! ### the second argument of `ringContainsRing` -/

/-- `o` (a series used as ring or line string, or a rectangle) has the curve `EO` -/
structure OtherSpec (o : Ring) (EO : List (Pt × Pt)) : Prop where
  segs : ∀ x, Spec.onBoundary EO x = true ↔
    ∃ i, i < o.numSegments ∧ OnSeg (o.segmentAt i).a (o.segmentAt i).b x
  pts_on : ∀ j, j < o.numPoints → Spec.onBoundary EO (o.pointAt j) = true
  ends : ∀ i, i < o.numSegments →
    (∃ j, j < o.numPoints ∧ (o.segmentAt i).a = o.pointAt j) ∧
    (∃ k, k < o.numPoints ∧ (o.segmentAt i).b = o.pointAt k)
  inRect : ∀ x, Spec.onBoundary EO x = true → o.rect.containsPt x = true
  tight :
    (∃ v, Spec.onBoundary EO v = true ∧ v.x = o.rect.min.x) ∧
    (∃ v, Spec.onBoundary EO v = true ∧ v.x = o.rect.max.x) ∧
    (∃ v, Spec.onBoundary EO v = true ∧ v.y = o.rect.min.y) ∧
    (∃ v, Spec.onBoundary EO v = true ∧ v.y = o.rect.max.y)

theorem OtherSpec.wf {o : Ring} {EO : List (Pt × Pt)} (h : OtherSpec o EO) :
    o.rect.min.x ≤ o.rect.max.x ∧ o.rect.min.y ≤ o.rect.max.y := by
  obtain ⟨⟨v, hv, e⟩, -, ⟨w, hw, f⟩, -⟩ := h.tight
  have h1 := (containsPt_iff _ _).1 (h.inRect v hv)
  have h2 := (containsPt_iff _ _).1 (h.inRect w hw)
  exact ⟨by linarith [h1.1, h1.2.1], by linarith [h2.2.2.1, h2.2.2.2]⟩

theorem ser_onBoundary_iff (l : Series) (x : Pt) :
    Spec.onBoundary (Spec.edges l.pts.toList l.closed) x = true ↔
      ∃ i, i < l.numSegments ∧ OnSeg (l.segmentAt i).a (l.segmentAt i).b x := by
  rw [Geo.onBoundary_iff]
  constructor
  · rintro ⟨e, he, hon⟩
    obtain ⟨i, hi, rfl⟩ := edges_mem_segmentAt l.pts l.closed e he
    exact ⟨i, hi, hon⟩
  · rintro ⟨i, hi, hon⟩
    exact ⟨_, segmentAt_mem_edges l.pts l.closed i hi, hon⟩

theorem otherSpec_ser (l : Series) (hrect : l.rect = (processPoints l.pts l.closed).rect)
    (hne : l.empty = false) : OtherSpec (.ser l) (Spec.edges l.pts.toList l.closed) where
  segs := ser_onBoundary_iff l
  pts_on := by
    intro j hj
    exact (ser_onBoundary_iff l _).2 (vertex_on_segment l hne j hj)
  ends := by
    intro i hi
    have hi' : i < numSegmentsOf l.pts l.closed := hi
    have hle := numSegmentsOf_le l.pts l.closed
    refine ⟨⟨i, by show i < l.pts.size; omega, rfl⟩, ?_⟩
    show ∃ k, k < l.pts.size ∧ (segmentAtOf l.pts i).b = l.pts[k]!
    unfold segmentAtOf
    by_cases hc : (i == l.pts.size - 1) = true
    · exact ⟨0, by omega, by simp only [hc, if_true]⟩
    · have : i ≠ l.pts.size - 1 := by simpa using hc
      exact ⟨i + 1, by omega, by simp only [hc]; rfl⟩
  inRect := by
    intro x hx
    obtain ⟨i, hi, hon⟩ := (ser_onBoundary_iff l x).1 hx
    exact onSeg_in_rect' l hrect i hi x hon
  tight := by
    have hne' : ¬ ((l.closed && decide (l.pts.size < 3)) || decide (l.pts.size < 2)) = true := by
      intro hh
      have h2 : l.empty = true := hh
      rw [h2] at hne
      cases hne
    obtain ⟨-, ⟨v1, m1, e1⟩, ⟨v2, m2, e2⟩, ⟨v3, m3, e3⟩, ⟨v4, m4, e4⟩⟩ :=
      bboxSpec_tight l.pts.toList _ (rect_tight l.pts l.closed hne').symm
    have hv : ∀ v ∈ l.pts.toList, Spec.onBoundary (Spec.edges l.pts.toList l.closed) v = true := by
      intro v hv
      obtain ⟨j, hj, rfl⟩ := List.getElem_of_mem hv
      have hj' : j < l.pts.size := by simpa using hj
      have := (ser_onBoundary_iff l _).2 (vertex_on_segment l hne j hj')
      rw [getElem!_pos l.pts j hj'] at this
      simpa using this
    have hr : (Ring.ser l).rect = (processPoints l.pts l.closed).rect := hrect
    rw [hr]
    exact ⟨⟨v1, hv v1 m1, e1⟩, ⟨v2, hv v2 m2, e2⟩, ⟨v3, hv v3 m3, e3⟩, ⟨v4, hv v4 m4, e4⟩⟩

theorem otherSpec_bx (b : Box) (hb : b.min.x ≤ b.max.x ∧ b.min.y ≤ b.max.y) :
    OtherSpec (.bx b) (Spec.edges (Spec.rectPts b.min b.max) true) where
  segs := (ringSpec_bx b hb).onBoundary_iff
  pts_on := by
    intro j hj
    have hj' : j < 5 := hj
    have h0 : Spec.onBoundary (Spec.edges (Spec.rectPts b.min b.max) true) (b.pointAt 0) = true :=
      ((ringSpec_bx b hb).onBoundary_iff _).2 ⟨0, by show 0 < 4; omega, K.onSeg_left _ _⟩
    have h1 : Spec.onBoundary (Spec.edges (Spec.rectPts b.min b.max) true) (b.pointAt 1) = true :=
      ((ringSpec_bx b hb).onBoundary_iff _).2 ⟨1, by show 1 < 4; omega, K.onSeg_left _ _⟩
    have h2 : Spec.onBoundary (Spec.edges (Spec.rectPts b.min b.max) true) (b.pointAt 2) = true :=
      ((ringSpec_bx b hb).onBoundary_iff _).2 ⟨2, by show 2 < 4; omega, K.onSeg_left _ _⟩
    have h3 : Spec.onBoundary (Spec.edges (Spec.rectPts b.min b.max) true) (b.pointAt 3) = true :=
      ((ringSpec_bx b hb).onBoundary_iff _).2 ⟨3, by show 3 < 4; omega, K.onSeg_left _ _⟩
    match j, hj' with
    | 0, _ => exact h0
    | 1, _ => exact h1
    | 2, _ => exact h2
    | 3, _ => exact h3
    | 4, _ => exact h0
  ends := by
    intro i hi
    have hi' : i < 4 := hi
    match i, hi' with
    | 0, _ => exact ⟨⟨0, by show 0 < 5; omega, rfl⟩, ⟨1, by show 1 < 5; omega, rfl⟩⟩
    | 1, _ => exact ⟨⟨1, by show 1 < 5; omega, rfl⟩, ⟨2, by show 2 < 5; omega, rfl⟩⟩
    | 2, _ => exact ⟨⟨2, by show 2 < 5; omega, rfl⟩, ⟨3, by show 3 < 5; omega, rfl⟩⟩
    | 3, _ => exact ⟨⟨3, by show 3 < 5; omega, rfl⟩, ⟨4, by show 4 < 5; omega, rfl⟩⟩
  inRect := fun x hx => (ringSpec_bx b hb).inRect x (inRing_of_onBoundary hx)
  tight := (ringSpec_bx b hb).tight rfl

/-- `ringContainsRingBody`, strict -/
theorem containsRingBody_strict_iff {r : Ring} {C : List Pt} (h : RingSpec r C)
    (hs : StrictSpec r C) (hcv : ConvexOK r C) {o : Ring} {EO : List (Pt × Pt)} (ho : OtherSpec o EO) :
    ringContainsRingBody r o false = true ↔
      ∀ x, Spec.onBoundary EO x = true → Spec.strictIn (Spec.edges C true) x = true := by
  unfold ringContainsRingBody
  by_cases h1 : (!r.rect.containsBox o.rect) = true
  · rw [if_pos h1]
    refine iff_of_false (by simp) ?_
    intro hall
    obtain ⟨⟨v1, b1, e1⟩, ⟨v2, b2, e2⟩, ⟨v3, b3, e3⟩, ⟨v4, b4, e4⟩⟩ := ho.tight
    have c1 := (containsPt_iff _ _).1 (h.inRect v1 (strictIn_inRing (hall v1 b1)))
    have c2 := (containsPt_iff _ _).1 (h.inRect v2 (strictIn_inRing (hall v2 b2)))
    have c3 := (containsPt_iff _ _).1 (h.inRect v3 (strictIn_inRing (hall v3 b3)))
    have c4 := (containsPt_iff _ _).1 (h.inRect v4 (strictIn_inRing (hall v4 b4)))
    have : r.rect.containsBox o.rect = true := by
      rw [containsBox_iff]
      exact ⟨by rw [← e1]; exact c1.1, by rw [← e2]; exact c2.2.1, by rw [← e3]; exact c3.2.2.1,
        by rw [← e4]; exact c4.2.2.2⟩
    simp [this] at h1
  rw [if_neg h1]
  by_cases h5 : r.convex = true
  · rw [if_pos h5, List.all_eq_true]
    constructor
    · intro hall x hx
      obtain ⟨i, hi, hon⟩ := (ho.segs x).1 hx
      obtain ⟨⟨j, hj, ea⟩, ⟨k, hk, eb⟩⟩ := ho.ends i hi
      have sa := hall j (List.mem_range.2 hj)
      have sb := hall k (List.mem_range.2 hk)
      rw [hs] at sa sb
      rw [← ea] at sa
      rw [← eb] at sb
      exact hcv h5 _ _ sa sb x hon
    · intro hall j hj
      rw [hs]
      exact hall _ (ho.pts_on j (List.mem_range.1 hj))
  · rw [if_neg h5, List.all_eq_true]
    constructor
    · intro hall x hx
      obtain ⟨i, hi, hon⟩ := (ho.segs x).1 hx
      exact (ringContainsSegment_strict_iff h hs hcv _).1 (hall i (List.mem_range.2 hi)) x hon
    · intro hall i hi
      rw [ringContainsSegment_strict_iff h hs hcv]
      intro x hon
      exact hall x ((ho.segs x).2 ⟨i, List.mem_range.1 hi, hon⟩)

/-- if the four sides of a rectangle are strictly inside a closed chain, so is the whole
    closed rectangle -/
theorem rect_filled_strict (C : List Pt) (b : Box) (hb : b.min.x ≤ b.max.x ∧ b.min.y ≤ b.max.y)
    (hsides : ∀ x, Spec.onBoundary (Spec.edges (Spec.rectPts b.min b.max) true) x = true →
      Spec.strictIn (Spec.edges C true) x = true) :
    ∀ z, b.containsPt z = true → Spec.strictIn (Spec.edges C true) z = true := by
  have hnomeet : ∀ e ∈ Spec.edges C true, ∀ f ∈ Spec.edges (Spec.rectPts b.min b.max) true,
      ¬ SegsMeet e.1 e.2 f.1 f.2 := by
    rintro e he f hf ⟨z, hz1, hz2⟩
    have := strictIn_off (hsides z (onBoundary_of_onSeg hf hz2))
    rw [onBoundary_of_onSeg he hz1] at this
    cases this
  have hconst := inRing_const_on_boundary C (Spec.rectPts b.min b.max) hnomeet
  -- the corner `max` is strictly inside: the rightward ray from it crosses the chain
  have hmaxb : Spec.onBoundary (Spec.edges (Spec.rectPts b.min b.max) true) b.max = true :=
    ((ringSpec_bx b hb).onBoundary_iff _).2 ⟨1, by show 1 < 4; omega, K.onSeg_right _ _⟩
  have smax := hsides _ hmaxb
  obtain ⟨-, hpar⟩ := (strictIn_iff _ _).1 smax
  have hex : ∃ e ∈ Spec.edges C true, Spec.crosses e.1 e.2 b.max = true := by
    unfold Spec.parity at hpar
    have hne : (Spec.edges C true).filter (fun e => Spec.crosses e.1 e.2 b.max) ≠ [] := by
      intro hnil; rw [hnil] at hpar; simp at hpar
    obtain ⟨e, he⟩ := List.exists_mem_of_ne_nil _ hne
    rw [List.mem_filter] at he
    exact ⟨e, he.1, he.2⟩
  obtain ⟨e, he, hce⟩ := hex
  obtain ⟨hse, hxe⟩ := (crosses_iff_X _ _ _).1 hce
  have hpt : Spec.onBoundary (Spec.edges C true) ⟨Xat e.1 e.2 b.max.y, b.max.y⟩ = true :=
    onBoundary_of_onSeg he (onSeg_X hse)
  have hptout : Spec.inRing (Spec.edges (Spec.rectPts b.min b.max) true) ⟨Xat e.1 e.2 b.max.y, b.max.y⟩ = false := by
    rw [inRing_rect b hb]
    cases hc : b.containsPt ⟨Xat e.1 e.2 b.max.y, b.max.y⟩ with
    | false => rfl
    | true =>
      have := (containsPt_iff _ _).1 hc
      simp only at this
      linarith [this.2.1]
  -- every boundary point of the chain is outside the rectangle
  have hout : ∀ u, Spec.onBoundary (Spec.edges C true) u = true → b.containsPt u = false := by
    intro u hu
    rw [← inRing_rect b hb, hconst u _ hu hpt, hptout]
  intro z hz
  have hmaxin : b.containsPt b.max = true := by
    rw [containsPt_iff]; exact ⟨hb.1, le_refl _, hb.2, le_refl _⟩
  have hav : ∀ f ∈ Spec.edges C true, Spec.segsMeet f.1 f.2 b.max z = false := by
    intro f hf
    rw [segsMeet_eq_false_iff]
    rintro ⟨w, hw1, hw2⟩
    have h1 := hout w (onBoundary_of_onSeg hf hw1)
    rw [onSeg_in_box b _ _ w hmaxin hz hw2] at h1
    cases h1
  rw [← (inRing_const_of_avoids C b.max z hav).2]
  exact smax

/-- EXACTNESS of strict containment, `ringContainsRing ring other false`, under `ConvexOK` -/
theorem ringContainsRing_strict_iff {r : Ring} {C : List Pt} (h : RingSpec r C)
    (hs : StrictSpec r C) (hcv : ConvexOK r C) {o : Ring} {EO : List (Pt × Pt)}
    (ho : o.empty = false → OtherSpec o EO) :
    ringContainsRing r o false = true ↔
      r.empty = false ∧ o.empty = false ∧
        ∀ x, Spec.onBoundary EO x = true → Spec.strictIn (Spec.edges C true) x = true := by
  unfold ringContainsRing
  by_cases h1 : (r.empty || o.empty) = true
  · rw [if_pos h1]
    refine iff_of_false (by simp) ?_
    rintro ⟨e1, e2, -⟩
    simp [e1, e2] at h1
  rw [if_neg h1]
  have hre : r.empty = false := by
    cases hh : r.empty with
    | false => rfl
    | true => simp [hh] at h1
  have hoe : o.empty = false := by
    cases hh : o.empty with
    | false => rfl
    | true => simp [hh] at h1
  have hO := ho hoe
  by_cases h2 : (decide (o.numPoints ≥ complexRingMinPoints) &&
      ringContainsRingBody r (.bx o.rect) false) = true
  · rw [if_pos h2]
    refine iff_of_true rfl ⟨hre, hoe, ?_⟩
    rw [Bool.and_eq_true] at h2
    have hsides := (containsRingBody_strict_iff h hs hcv (otherSpec_bx o.rect hO.wf)).1 h2.2
    intro x hx
    exact rect_filled_strict C o.rect hO.wf hsides x (hO.inRect x hx)
  · rw [if_neg h2, containsRingBody_strict_iff h hs hcv hO]
    exact ⟨fun hh => ⟨hre, hoe, hh⟩, fun hh => hh.2.2⟩

end IX
end Geo
