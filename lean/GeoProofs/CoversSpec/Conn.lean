/-
  GeoProofs.CoversSpec.Conn — THE CONNECTION THEOREM: the complement of a simple closed chain has
  at most two polygonally connected components, told apart by crossing parity.
-/
import GeoProofs.CoversSpec.Reach

namespace Geo
namespace CS
open Jordan Cvx

variable {es : List (Pt × Pt)} {P : Nat → Pt} {n : Nat}

/-- a point that sees an open edge point (and is not that point) is off the line of the edge -/
theorem RingD.cross_ne_of_sees (R : RingD es P n) (i : Nat) {q z : Pt}
    (hz : OpenOn (P i) (P (i+1)) z) (hs : Sees es q z) (hqz : q ≠ z) :
    Spec.cross (P i) (P (i+1)) q ≠ 0 := by
  intro hc
  obtain ⟨t, t0, t1, rfl⟩ := openOn_lerp hz
  have hab := R.ne_succ i
  have key : ∀ c : Pt, c = P i ∨ c = P (i+1) → lerp (P i) (P (i+1)) t ≠ c →
      0 < (q.x - (lerp (P i) (P (i+1)) t).x) * (c.x - (lerp (P i) (P (i+1)) t).x) +
        (q.y - (lerp (P i) (P (i+1)) t).y) * (c.y - (lerp (P i) (P (i+1)) t).y) → False := by
    intro c hcab hzc hd
    have hcz : Spec.cross (lerp (P i) (P (i+1)) t) c q = 0 := by
      rw [K.cross_def] at hc ⊢
      rcases hcab with rfl | rfl
      · simp only [lerp]; linear_combination (-t) * hc
      · simp only [lerp]; linear_combination (1 - t) * hc
    obtain ⟨m, hm, hm1, hm2⟩ := ray_overlap hzc hqz.symm hcz hd
    have hc_on : OnSeg (P i) (P (i+1)) c := by
      rcases hcab with rfl | rfl
      · exact K.onSeg_left _ _
      · exact K.onSeg_right _ _
    have : OnSeg (P i) (P (i+1)) m := K.onSeg_convex hz.1 hc_on hm1
    exact hm (hs _ (R.edge_mem i) m ((K.onSeg_symm _ _ _).1 hm2) this)
  have D := len2_pos hab
  unfold len2 at D
  rw [K.cross_def] at hc
  rcases lt_trichotomy 0 ((q.x - (lerp (P i) (P (i+1)) t).x) * ((P (i+1)).x - (P i).x) +
      (q.y - (lerp (P i) (P (i+1)) t).y) * ((P (i+1)).y - (P i).y)) with g | g | g
  · apply key (P (i+1)) (Or.inr rfl) hz.2.2
    simp only [lerp] at g ⊢
    have : 0 < (1 - t) * ((q.x - ((P i).x + t * ((P (i+1)).x - (P i).x))) * ((P (i+1)).x - (P i).x) +
      (q.y - ((P i).y + t * ((P (i+1)).y - (P i).y))) * ((P (i+1)).y - (P i).y)) :=
      mul_pos (by linarith) g
    linarith
  · apply hqz
    simp only [lerp] at g ⊢
    have ex : (q.x - ((P i).x + t * ((P (i+1)).x - (P i).x))) *
        (((P (i+1)).x - (P i).x) * ((P (i+1)).x - (P i).x) +
          ((P (i+1)).y - (P i).y) * ((P (i+1)).y - (P i).y)) = 0 := by
      linear_combination ((P (i+1)).x - (P i).x) * g.symm - ((P (i+1)).y - (P i).y) * hc
    have ey : (q.y - ((P i).y + t * ((P (i+1)).y - (P i).y))) *
        (((P (i+1)).x - (P i).x) * ((P (i+1)).x - (P i).x) +
          ((P (i+1)).y - (P i).y) * ((P (i+1)).y - (P i).y)) = 0 := by
      linear_combination ((P (i+1)).y - (P i).y) * g.symm + ((P (i+1)).x - (P i).x) * hc
    have x0 := (mul_eq_zero.1 ex).resolve_right D.ne'
    have y0 := (mul_eq_zero.1 ey).resolve_right D.ne'
    exact (K.pt_eq_iff _ _).2 ⟨by simp only; linarith, by simp only; linarith⟩
  · apply key (P i) (Or.inl rfl) hz.2.1
    simp only [lerp] at g ⊢
    have : 0 < (-t) * ((q.x - ((P i).x + t * ((P (i+1)).x - (P i).x))) * ((P (i+1)).x - (P i).x) +
      (q.y - ((P i).y + t * ((P (i+1)).y - (P i).y))) * ((P (i+1)).y - (P i).y)) :=
      mul_pos_of_neg_of_neg (by linarith) g
    linarith

end CS
end Geo

namespace Geo
namespace CS
open Jordan Cvx

variable {es : List (Pt × Pt)} {P : Nat → Pt} {n : Nat}

/-- `q` sees an open point of edge `i` from side `s` -/
def InC (es : List (Pt × Pt)) (P : Nat → Pt) (i : Nat) (s : Rat) (q : Pt) : Prop :=
  ∃ z, OpenOn (P i) (P (i+1)) z ∧ Sees es q z ∧ 0 < s * Spec.cross (P i) (P (i+1)) q

theorem RingD.inC_conn (R : RingD es P n) (i : Nat) {s : Rat} (hs : s = 1 ∨ s = -1) {q q' : Pt}
    (h : InC es P i s q) (h' : InC es P i s q') : Conn es q q' := by
  obtain ⟨z, hz, hsz, hc⟩ := h
  obtain ⟨z', hz', hsz', hc'⟩ := h'
  apply R.slide i hz hz' hsz hsz'
  have hss : s * s = 1 := by rcases hs with rfl | rfl <;> norm_num
  have := mul_pos hc hc'
  nlinarith

theorem RingD.inC_conn_add (R : RingD es P n) {s : Rat} (hs : s = 1 ∨ s = -1) (i k : Nat) :
    ∀ {q q' : Pt}, InC es P i s q → InC es P (i + k) s q' → Conn es q q' := by
  induction k with
  | zero => intro q q' h h'; exact R.inC_conn i hs h h'
  | succ k ih =>
    intro q q' h h'
    obtain ⟨w, z, z', hz, hz', hs1, hs2, hc1, hc2⟩ := R.corner (i + k) s hs
    exact Conn.trans (ih h ⟨z, hz, hs1, hc1⟩)
      (R.inC_conn (i + k + 1) hs ⟨z', hz', hs2, hc2⟩ h')

theorem RingD.inC_conn_any (R : RingD es P n) {s : Rat} (hs : s = 1 ∨ s = -1) (i j : Nat)
    {q q' : Pt} (h : InC es P i s q) (h' : InC es P j s q') : Conn es q q' := by
  rcases Nat.le_total i j with hij | hij
  · obtain ⟨k, rfl⟩ := Nat.exists_eq_add_of_le hij
    exact R.inC_conn_add hs i k h h'
  · obtain ⟨k, rfl⟩ := Nat.exists_eq_add_of_le hij
    exact (R.inC_conn_add hs j k h' h).symm

theorem conn_refl {p : Pt} (hp : Off es p) : Conn es p p := by
  apply Conn.step
  rw [avoid_iff]
  intro e he x hx
  rw [K.onSeg_degenerate.1 hx]
  exact hp e he

/-- every point off the chain is connected to a point in some class `InC i s` -/
theorem RingD.reach_class (R : RingD es P n) {p : Pt} (hp : Off es p) :
    ∃ q i s, (s = 1 ∨ s = -1) ∧ Conn es p q ∧ InC es P i s q := by
  obtain ⟨q, i, z, hpq, hz, hs, hqz⟩ := R.reach hp
  have hc := R.cross_ne_of_sees i hz hs hqz
  have hconn : Conn es p q := by
    rcases hpq with rfl | h
    · exact conn_refl hp
    · exact Conn.step h
  rcases lt_or_gt_of_ne hc with h | h
  · exact ⟨q, i, -1, Or.inr rfl, hconn, z, hz, hs, by linarith⟩
  · exact ⟨q, i, 1, Or.inl rfl, hconn, z, hz, hs, by linarith⟩

/-- crossing parity is constant along connections -/
theorem conn_parity (L : List Pt) {p q : Pt} (h : Conn (Spec.edges L true) p q) :
    Spec.parity (Spec.edges L true) p = Spec.parity (Spec.edges L true) q := by
  have := Conn.carry (es := Spec.edges L true)
    (fun x => Spec.parity (Spec.edges L true) p = Spec.parity (Spec.edges L true) x)
    (fun x y hxy hx => hx.trans (parity_const_of_avoids L x y hxy)) h
  exact this rfl

/-- THE CONNECTION THEOREM (the "only two components" half of the polygonal Jordan curve
    theorem): two points off a simple closed chain with the same crossing parity are joined
    by a polygonal path that avoids the chain. -/
theorem RingD.conn_of_parity_eq (R : RingD es P n) (L : List Pt) (hL : es = Spec.edges L true)
    {p q : Pt} (hp : Off es p) (hq : Off es q) (hpar : Spec.parity es p = Spec.parity es q) :
    Conn es p q := by
  obtain ⟨p', i, s, hs, hpp', hi⟩ := R.reach_class hp
  obtain ⟨q', j, s', hs', hqq', hj⟩ := R.reach_class hq
  by_cases hss : s = s'
  · subst hss
    exact Conn.trans hpp' (Conn.trans (R.inC_conn_any hs i j hi hj) hqq'.symm)
  · exfalso
    obtain ⟨z, rp, rm, hz, hsp, hsm, hcp, hcm, hne⟩ := R.two_sides L hL 0
    have hrp : InC es P 0 1 rp := ⟨z, hz, hsp, by linarith⟩
    have hrm : InC es P 0 (-1) rm := ⟨z, hz, hsm, by linarith⟩
    subst hL
    have e1 := conn_parity L hpp'
    have e2 := conn_parity L hqq'
    rcases hs with rfl | rfl <;> rcases hs' with rfl | rfl
    · exact hss rfl
    · have a := conn_parity L (R.inC_conn_any (Or.inl rfl) i 0 hi hrp)
      have b := conn_parity L (R.inC_conn_any (Or.inr rfl) j 0 hj hrm)
      exact hne (by rw [← a, ← b, ← e1, ← e2, hpar])
    · have a := conn_parity L (R.inC_conn_any (Or.inr rfl) i 0 hi hrm)
      have b := conn_parity L (R.inC_conn_any (Or.inl rfl) j 0 hj hrp)
      exact hne (by rw [← a, ← b, ← e1, ← e2, hpar])
    · exact hss rfl

/-- the connection theorem for the executable notion of a simple ring -/
theorem conn_of_parity_eq (L : List Pt) (hs : Spec.simpleRing L = true) {p q : Pt}
    (hp : Spec.onBoundary (Spec.edges L true) p = false)
    (hq : Spec.onBoundary (Spec.edges L true) q = false)
    (hpar : Spec.parity (Spec.edges L true) p = Spec.parity (Spec.edges L true) q) :
    Conn (Spec.edges L true) p q := by
  obtain ⟨-, -, hE, hS⟩ := ring_data L hs
  have R : RingD (Spec.edges L true) (cyc L) (SeriesL.nptsL L) := ⟨hS, hE⟩
  exact R.conn_of_parity_eq L rfl ((off_iff _ _).2 hp) ((off_iff _ _).2 hq) hpar

end CS
end Geo

#print axioms Geo.CS.conn_of_parity_eq
