/-
  Property C06: Parse → JSON → Parse is a lossless fixpoint, on the AST.

  No text parser is modelled: the text a writer produces is identified with an AST `v` it denotes,
  via `Written x v` (GeoProofs.WriteLemmas) and `render_writeV : Written x v → write x = some v.render`;
  that a JSON decoder inverts `render` on token-well-formed ASTs is the decoder contract
  (`Written x v → v.TokOK` is proved: `written_tokOK`).

  `Written` is a RELATION (not a function `writeV`): `Extra.members`/`Extra.values` are texts, the
  ASTs they denote are chosen existentially; the reparse theorems construct the witness from the
  parsed document (foreign members = `(scanKeys ms).foreign`; number nodes
  `.num true val canon (kf canon) canon`, for ANY interpretation `vf`/`kf` of z/m values and ×1000
  texts — `parse` of a written document does not look at them).

  STATUS: complete.  `reparse_normal_form` / `reparse_ok` hold for EVERY accepted, finite,
  token-well-formed document (all nine types, arbitrary nesting), by induction on the fuel of
  `parse` (GeoProofs.Reparse.Main) over per-type cases (GeoProofs.Reparse.Leaf / .Feature); the
  re-parsed object IS `addProps x` (a Feature without a `properties` member gains
  `"properties":{}`; nothing else changes: GeoProofs.Reparse.AddProps), and `write (addProps x) =
  write x`.  No counterexample to the full statement was found; the known caveats are handled
  explicitly: non-finite numbers are excluded by `AllFin`; a recognised Circle is re-recognised
  from its freshly written Feature document (needs the codec contract in `DocOK` for the radius
  text); Rect / SimplePoint are re-detected under the same options; `requireValid` is decided on
  the same object; children of Multi* keep their z/m tables and have no members.
  `members_preserved` holds for every kind but `.circle` (`circle_drops_members`); children of
  Multi* carry no member text (`multi_children_no_members`).  Non-vacuity: `reparse_example_feature`
  (where `x' ≠ x`), `reparse_example_circle`, and the executable cross-check `exBigCheck` on a
  document exercising every type (GeoProofs.Reparse.Examples).
-/
import GeoProofs.Reparse.Main
import GeoProofs.Reparse.AddProps
import GeoProofs.Reparse.Members
import GeoProofs.Reparse.Examples

namespace Geo

/-- the text is the rendering of that AST -/
theorem render_writeV (x : Obj) (v : JVal) (h : Written x v) : write x = some v.render := h.render.1

/-- and the AST is token-well-formed (so the decoder contract applies to it) -/
theorem written_tokOK (x : Obj) (v : JVal) (h : Written x v) : v.TokOK := h.render.2

/-! ### reparse: Point documents -/

/-- Parse → write → Parse for a document of type Point (`.point` or, under AllowSimplePoints,
    `.spoint`): the written document has the AST `v`; it is accepted again under the same options
    with ANY fuel ≥ 1 (in particular `v.depth + 1`), and the result is EQUAL to `x` (hence same
    kind, byte-identical output). `vf`/`kf`: arbitrary decoder interpretations of z/m values
    and ×1000 texts. -/
theorem reparse_ok_partial (vf : String → Rat) (kf : String → String) (o : POpts) (n : Nat)
    (ms : List Member) (r : String) (x : Obj)
    (hp : parse o (n + 1) (.obj ms) = .ok x) (hty : (scanKeys ms).type = some (.str r "Point"))
    (hfin : AllFin x) (hdoc : (JVal.obj ms).DocOK) :
    ∃ v, Written x v ∧ ∃ x', parse o (v.depth + 1) v = .ok x' ∧ kindEq x x' ∧ write x' = write x ∧
      x' = x := by
  rw [parse_obj_str o n ms r "Point" hty, parseTyped_Point] at hp
  simp only [JVal.DocOK] at hdoc
  have hmem := scanKeys_mem JVal.DocOK ms (fun m hm => (docOKM_iff.mp hdoc m hm).2)
  obtain ⟨v, hw, _, hre⟩ := reparse_point vf kf o n (scanKeys ms) x hp hmem.2.1 hdoc.foreign
    (foreign_nonspecial ms) hfin
  refine ⟨v, hw, x, hre _, ?_, rfl, rfl⟩
  have := kindEq_addProps x
  cases x <;> simp_all [kindEq, addProps]

/-- the same for documents of type LineString (positions, z/m table, foreign members): `x' = x` -/
theorem reparse_ok_partial_lineString (vf : String → Rat) (kf : String → String) (o : POpts) (n : Nat)
    (ms : List Member) (r : String) (x : Obj)
    (hp : parse o (n + 1) (.obj ms) = .ok x) (hty : (scanKeys ms).type = some (.str r "LineString"))
    (hfin : AllFin x) (hdoc : (JVal.obj ms).DocOK) :
    ∃ v, Written x v ∧ ∃ x', parse o (v.depth + 1) v = .ok x' ∧ kindEq x x' ∧ write x' = write x ∧
      x' = x := by
  rw [parse_obj_str o n ms r "LineString" hty, parseTyped_LineString] at hp
  simp only [JVal.DocOK] at hdoc
  have hmem := scanKeys_mem JVal.DocOK ms (fun m hm => (docOKM_iff.mp hdoc m hm).2)
  obtain ⟨v, hw, hre⟩ := reparse_lineString vf kf o n (scanKeys ms) x hp hmem.2.1 hdoc.foreign
    (foreign_nonspecial ms) hfin
  refine ⟨v, hw, x, hre _, ?_, rfl, rfl⟩
  have := kindEq_addProps x
  cases x <;> simp_all [kindEq, addProps]

/-! ### coordinate-level round trips for LineString / Polygon coordinates -/

/-- the positions and the z/m table of a LineString (or a MultiLineString child) survive
    write → parse: the written coordinates `c` are an AST of what `writeSeries` emits
    (for the object's final `extra` = `withMembers ex k`) and parse back to the same
    positions and the same `extra` -/
theorem lineCoords_roundtrip (vf : String → Rat) (kf : String → String) (rc : JVal) (ps : List Pos)
    (ex : Option Extra) (k : Keys) (h : parseLineCoords rc = .ok (ps, ex)) (hd : rc.DocOK)
    (hfin : ∀ p ∈ ps, p.fin = true) (hex : ExFin ex) :
    SeriesV (withMembers ex k) ps 0 (seriesNodes vf kf ex ps 0) ∧
      parseLineCoords (.arr (seriesNodes vf kf ex ps 0)) = .ok (ps, ex) := by
  obtain ⟨hT, htok⟩ := parseLineCoords_fwd h hd hex
  exact ⟨seriesV_nodes vf kf hT (extrasAt_withMembers ex k) ps 0
      (fun p hp => ⟨hfin p hp, htok p hp⟩) (by omega),
    parseLineCoords_nodes vf kf hT hfin⟩

/-- same for the rings of a Polygon (or a MultiPolygon child) with non-empty rings -/
theorem polyCoords_roundtrip (vf : String → Rat) (kf : String → String) (rc : JVal)
    (rings : List (List Pos)) (ex : Option Extra) (k : Keys)
    (h : parsePolyCoords rc = .ok (rings, ex)) (hd : rc.DocOK)
    (hfin : ∀ r ∈ rings, r ≠ [] ∧ ∀ p ∈ r, p.fin = true) (hex : ExFin ex) :
    RingsV (withMembers ex k) rings 0 (ringsNodes vf kf ex rings 0) ∧
      parsePolyCoords (.arr (ringsNodes vf kf ex rings 0)) = .ok (rings, ex) := by
  obtain ⟨hT, htok⟩ := parsePolyCoords_fwd h hd hex
  exact ⟨ringsV_nodes vf kf hT (extrasAt_withMembers ex k) rings 0
      (fun r hr p hp => ⟨(hfin r hr).2 p hp, htok r hr p hp⟩) (by omega),
    parsePolyCoords_nodes vf kf hT hfin⟩

/-! ### Feature: the `properties` member -/

/-- the document written for a parsed Feature contains a `"properties"` member (either from
    the foreign members or the appended `"properties":{}`): the members `fm` written after
    `"geometry"` contain one, for every AST `vb` of the geometry -/
theorem feature_has_properties (o : POpts) (n : Nat) (ms : List Member) (r : String) (b : Obj)
    (ex : Option Extra) (hp : parse o (n + 1) (.obj ms) = .ok (.feature b ex))
    (hty : (scanKeys ms).type = some (.str r "Feature")) (hdoc : (JVal.obj ms).DocOK) :
    ∃ fm, fm.any (fun m => m.2.1 == "properties") = true ∧
      ∀ vb, Written b vb →
        Written (.feature b ex) (mkObj "Feature" "geometry" vb fm) ∧
        write (.feature b ex) = some (mkObj "Feature" "geometry" vb fm).render ∧
        ((mkObj "Feature" "geometry" vb fm).get "properties").isSome = true := by
  rw [parse_obj_str o n ms r "Feature" hty, parseTyped_Feature, parseFeatureK_eq] at hp
  simp only [JVal.DocOK] at hdoc
  cases hg : (scanKeys ms).geometry with
  | none => simp [hg] at hp
  | some g =>
    simp only [hg] at hp
    cases hb : parse o n g with
    | error e => simp [hb] at hp
    | ok base =>
      simp only [hb] at hp
      rcases featureOf_cases hp hdoc.foreign with ⟨hx, _⟩ | ⟨c, m, hx, _⟩
      · simp only [Obj.feature.injEq] at hx
        obtain ⟨rfl, rfl⟩ := hx
        refine ⟨featFm (scanKeys ms), featFm_hasProps _, ?_⟩
        intro vb hvb
        have hW : Written (.feature b (withMembers none (scanKeys ms)))
            (mkObj "Feature" "geometry" vb (featFm (scanKeys ms))) :=
          ⟨vb, _, hvb, membersV_feature hdoc.foreign, rfl⟩
        refine ⟨hW, hW.render.1, ?_⟩
        have hany := featFm_hasProps (scanKeys ms)
        simp only [List.any_eq_true] at hany
        obtain ⟨m, hm, hk⟩ := hany
        simp only [mkObj, JVal.get, Option.isSome_map, List.find?_isSome]
        exact ⟨m, by simp [hm], hk⟩
      · cases hx

/-- for a parsed Feature (not a Circle) the top-level `members` text is the render of the foreign
    members of the document in their original order (`scanKeys`: the members whose key is not
    one of type/coordinates/geometries/geometry/features), minified; "" when there are none -/
theorem members_preserved_partial (o : POpts) (n : Nat) (ms : List Member) (r : String) (b : Obj)
    (ex : Option Extra) (hp : parse o (n + 1) (.obj ms) = .ok (.feature b ex))
    (hty : (scanKeys ms).type = some (.str r "Feature")) (hdoc : (JVal.obj ms).DocOK) :
    exMembers' ex = (scanKeys ms).members ∧
    (scanKeys ms).foreign = ms.filter (fun m => !isSpecialKey m.2.1) ∧
    (scanKeys ms).members = (if (scanKeys ms).foreign.isEmpty then ""
      else (JVal.obj (scanKeys ms).foreign).render) := by
  rw [parse_obj_str o n ms r "Feature" hty, parseTyped_Feature, parseFeatureK_eq] at hp
  simp only [JVal.DocOK] at hdoc
  refine ⟨?_, scanKeys_foreign ms, by simp [Keys.members, JVal.render]⟩
  cases hg : (scanKeys ms).geometry with
  | none => simp [hg] at hp
  | some g =>
    simp only [hg] at hp
    cases hb : parse o n g with
    | error e => simp [hb] at hp
    | ok base =>
      simp only [hb] at hp
      rcases featureOf_cases hp hdoc.foreign with ⟨hx, _⟩ | ⟨c, m, hx, _⟩
      · simp only [Obj.feature.injEq] at hx
        obtain ⟨rfl, rfl⟩ := hx
        exact withMembers_members _ rfl
      · cases hx

/-! ### the full statement -/

/-- Parse → write → Parse, for ANY decoder interpretation `vf`/`kf` of the z/m values and the
    ×1000 texts of the written number nodes: the written document has the AST `v`, and it is
    accepted again under the same options, with the fuel `parseTop` uses, as `addProps x` -/
theorem reparse_normal_form' (vf : String → Rat) (kf : String → String) (o : POpts) (n : Nat) (d : JVal)
    (x : Obj) (hp : parse o n d = .ok x) (hfin : AllFin x) (hdoc : d.DocOK) :
    ∃ v, Written x v ∧ parse o (v.depth + 1) v = .ok (addProps x) := by
  obtain ⟨v, hw, hre⟩ := reparse_main vf kf o n d x hp hfin hdoc
  exact ⟨v, hw, hre _ (Nat.lt_succ_self _)⟩

/-- the stronger, concrete form: every accepted, finite, token-well-formed document is accepted
    again from its written AST, under the same options, and the re-parsed object IS `addProps x` -/
theorem reparse_normal_form (o : POpts) (n : Nat) (d : JVal) (x : Obj) (hp : parse o n d = .ok x)
    (hfin : AllFin x) (hdoc : d.DocOK) :
    ∃ v, Written x v ∧ parse o (v.depth + 1) v = .ok (addProps x) :=
  reparse_normal_form' (fun _ => 0) id o n d x hp hfin hdoc

/-- full statement: every accepted, finite, token-well-formed document is accepted again from its
    written AST, under the same options, as the same object up to the normalisation `addProps`
    (a Feature without a properties member gains `"properties":{}`), and writing is a fixpoint
    after one step -/
theorem reparse_ok (o : POpts) (n : Nat) (d : JVal) (x : Obj) (hp : parse o n d = .ok x) (hfin : AllFin x)
    (hdoc : d.DocOK) :
    ∃ v, Written x v ∧ ∃ x', parse o (v.depth + 1) v = .ok x' ∧ kindEq x x' ∧ write x' = write x := by
  obtain ⟨v, hw, hre⟩ := reparse_normal_form o n d x hp hfin hdoc
  exact ⟨v, hw, addProps x, hre, kindEq_addProps x, write_addProps x⟩

/-- writing the re-parsed object gives byte-identical text: the text written for `x` is the
    rendering of `v`, and so is the text written for the object parsed back from `v` -/
theorem write_fixpoint (o : POpts) (n : Nat) (d : JVal) (x : Obj) (hp : parse o n d = .ok x)
    (hfin : AllFin x) (hdoc : d.DocOK) :
    ∃ v, Written x v ∧ write x = some v.render ∧
      ∃ x', parse o (v.depth + 1) v = .ok x' ∧ write x' = some v.render := by
  obtain ⟨v, hw, hre⟩ := reparse_normal_form o n d x hp hfin hdoc
  exact ⟨v, hw, hw.render.1, addProps x, hre, by rw [write_addProps]; exact hw.render.1⟩

/-- `requireValid`: validity is decided on an object with the same validity -/
theorem reparse_valid (o : POpts) (n : Nat) (d : JVal) (x : Obj) (hp : parse o n d = .ok x)
    (hfin : AllFin x) (hdoc : d.DocOK) :
    ∃ v, Written x v ∧ ∃ x', parse o (v.depth + 1) v = .ok x' ∧ x'.valid = x.valid := by
  obtain ⟨v, hw, hre⟩ := reparse_normal_form o n d x hp hfin hdoc
  exact ⟨v, hw, addProps x, hre, addProps_valid x⟩

/-- for every kind: the re-parsed object is `addProps x`, and `addProps` leaves everything
    untouched except the `extra` of Feature nodes (`dropFeatEx` erases exactly those): all
    positions (exact values and canonical texts), series, rings, boxes, the z/m tables and the
    foreign member text of every geometry and collection node, kinds, child order, index flags,
    circle centre and radius are equal.  The `extra` of each Feature node becomes its
    `addPropsEx` normal form: unchanged if there is a `properties` member
    (`addPropsEx_of_hasProps`), otherwise the same z/m table (`extrasAt_addPropsEx`) and the
    members text extended by `"properties":{}` (`addPropsEx_members`).  Bounding box, validity,
    emptiness and point count agree. -/
theorem geometry_preserved (o : POpts) (n : Nat) (d : JVal) (x : Obj) (hp : parse o n d = .ok x)
    (hfin : AllFin x) (hdoc : d.DocOK) :
    ∃ v, Written x v ∧ ∃ x', parse o (v.depth + 1) v = .ok x' ∧ x' = addProps x ∧
      dropFeatEx x' = dropFeatEx x ∧ featExs x' = (featExs x).map addPropsEx ∧
      ((∀ ex ∈ featExs x, needProps ex true = false) → x' = x) ∧
      x'.rect = x.rect ∧ x'.valid = x.valid ∧ x'.empty = x.empty ∧ x'.numPoints = x.numPoints := by
  obtain ⟨v, hw, hre⟩ := reparse_normal_form o n d x hp hfin hdoc
  exact ⟨v, hw, addProps x, hre, rfl, dropFeatEx_addProps x, featExs_addProps x,
    addProps_eq_self x, addProps_rect x, addProps_valid x, addProps_empty x, addProps_numPoints x⟩

/-! ### a recognised Circle keeps only centre and radius -/

section CircleExample

/-- `{"type":"Feature","id":7,"geometry":{"type":"Point","coordinates":[1,2],"tag":true},
      "properties":{"type":"Circle","radius":5,"name":"x"}}` -/
def exCircleMs : List Member :=
  [mem "type" (strV "Feature"), mem "id" (.num true 7 "7" "7000" "7"),
   mem "geometry" (.obj [mem "type" (strV "Point"),
     mem "coordinates" (.arr [.num true 1 "1" "1000" "1", .num true 2 "2" "2000" "2"]), mem "tag" .tru]),
   mem "properties" (.obj [mem "type" (strV "Circle"), mem "radius" (.num true 5 "5" "5000" "5"),
     mem "name" (strV "x")])]

def exCircleDoc : JVal := .obj exCircleMs

def exCircle : Obj := .circle ⟨⟨1, 2⟩, true, "1", "2"⟩ "5"

/-- the counter-fact to `members_preserved`: the document has foreign members at top level
    (`id`, `properties` with a `name`) and in the geometry (`tag`); it is accepted as a Circle,
    which stores no member text, and the written document has lost `id`, `tag` and `name` -/
theorem circle_drops_members :
    parseTop {} exCircleDoc = .ok exCircle ∧
    (scanKeys exCircleMs).members =
      "{\"id\":7,\"properties\":{\"type\":\"Circle\",\"radius\":5,\"name\":\"x\"}}" ∧
    topMembers exCircle = "" ∧
    write exCircle = some ("{\"type\":\"Feature\",\"geometry\":{\"type\":\"Point\",\"coordinates\":[1,2]}," ++
      "\"properties\":{\"type\":\"Circle\",\"radius\":5,\"radius_units\":\"m\"}}") := by
  refine ⟨?_, by decide, rfl, by decide⟩
  have hpt : parse {} 3 (.obj [mem "type" (strV "Point"),
      mem "coordinates" (.arr [.num true 1 "1" "1000" "1", .num true 2 "2" "2000" "2"]), mem "tag" .tru])
      = .ok (.point ⟨⟨1, 2⟩, true, "1", "2"⟩ (some ⟨0, [], "{\"tag\":true}", false⟩)) := by
    rw [parse_obj_str {} 2 _ "\"Point\"" "Point" rfl, parseTyped_Point]
    rfl
  show parse {} (3 + 1) (.obj exCircleMs) = _
  rw [parse_obj_str {} 3 _ "\"Feature\"" "Feature" rfl, parseTyped_Feature, parseFeatureK_eq]
  have hg : (scanKeys exCircleMs).geometry = some (.obj [mem "type" (strV "Point"),
      mem "coordinates" (.arr [.num true 1 "1" "1000" "1", .num true 2 "2" "2000" "2"]), mem "tag" .tru]) := rfl
  rw [hg]
  simp only [hpt]
  rfl

/-- in general: whatever the document, a Circle has no member text and its written document has
    exactly the members `type`, `geometry` (a bare Point) and `properties` (type, radius,
    radius_units) -/
theorem circle_written_shape (c : Pos) (r : String) (v : JVal) (h : Written (.circle c r) v) :
    topMembers (.circle c r) = "" ∧ ∃ cn rn, v = mkObj "Feature" "geometry" (mkObj "Point" "coordinates" cn [])
      [mem "properties" (.obj [mem "type" (strV "Circle"), mem "radius" rn, mem "radius_units" (strV "m")])] := by
  obtain ⟨cn, rn, _, _, rfl⟩ := h
  exact ⟨rfl, cn, rn, rfl⟩

end CircleExample

/-! ### non-vacuity: a concrete Feature with foreign members -/

section Example

def exNum (v : Rat) (t : String) : JVal := .num true v t t t

/-- `{"id":7,"type":"Feature","geometry":{"type":"Point","coordinates":[1.5,-2,10]},"tags":[true]}` -/
def exDoc : JVal :=
  .obj [mem "id" (exNum 7 "7"), mem "type" (strV "Feature"),
    mem "geometry" (.obj [mem "type" (strV "Point"),
      mem "coordinates" (.arr [exNum (3/2) "1.5", exNum (-2) "-2", exNum 10 "10"])]),
    mem "tags" (.arr [.tru])]

/-- the document written for it: foreign members in document order, `"properties":{}` appended -/
def exWritten : String :=
  "{\"type\":\"Feature\",\"geometry\":{\"type\":\"Point\",\"coordinates\":[1.5,-2,10]},\"id\":7,\"tags\":[true],\"properties\":{}}"

/-- the AST of the written document -/
def exDoc' : JVal :=
  .obj [mem "type" (strV "Feature"),
    mem "geometry" (.obj [mem "type" (strV "Point"),
      mem "coordinates" (.arr [exNum (3/2) "1.5", exNum (-2) "-2", exNum 10 "10"])]),
    mem "id" (exNum 7 "7"), mem "tags" (.arr [.tru]), mem "properties" (.obj [])]

def writeOf (r : Except PErr Obj) : Option String :=
  match r with
  | .ok x => write x
  | .error _ => none

/-- info: true -/
#guard_msgs in
#eval writeOf (parseTop {} exDoc) == some exWritten
/-- info: true -/
#guard_msgs in
#eval exDoc'.render == exWritten
-- fixpoint after one step
/-- info: true -/
#guard_msgs in
#eval writeOf (parseTop {} exDoc') == some exWritten

/-! ### non-vacuity of the full statement on concrete documents
    (the executable cross-check on a document exercising every type is in
    GeoProofs.Reparse.Examples: `exBig`, `exBigCheck`) -/

def exObj : Obj :=
  .feature (.point ⟨⟨3/2, -2⟩, true, "1.5", "-2"⟩ (some ⟨1, ["10"], "", false⟩))
    (some ⟨0, [], "{\"id\":7,\"tags\":[true]}", false⟩)

def exObj' : Obj :=
  .feature (.point ⟨⟨3/2, -2⟩, true, "1.5", "-2"⟩ (some ⟨1, ["10"], "", false⟩))
    (some ⟨0, [], "{\"id\":7,\"tags\":[true],\"properties\":{}}", true⟩)

theorem exDoc_parse : parseTop {} exDoc = .ok exObj := by
  have hpt : parse {} 3 (.obj [mem "type" (strV "Point"),
      mem "coordinates" (.arr [exNum (3/2) "1.5", exNum (-2) "-2", exNum 10 "10"])])
      = .ok (.point ⟨⟨3/2, -2⟩, true, "1.5", "-2"⟩ (some ⟨1, ["10"], "", false⟩)) := by
    rw [parse_obj_str {} 2 _ "\"Point\"" "Point" rfl, parseTyped_Point]
    rfl
  show parse {} (3 + 1) exDoc = _
  unfold exDoc
  rw [parse_obj_str {} 3 _ "\"Feature\"" "Feature" rfl, parseTyped_Feature, parseFeatureK_eq]
  have hg : (scanKeys [mem "id" (exNum 7 "7"), mem "type" (strV "Feature"),
    mem "geometry" (.obj [mem "type" (strV "Point"),
      mem "coordinates" (.arr [exNum (3/2) "1.5", exNum (-2) "-2", exNum 10 "10"])]),
    mem "tags" (.arr [.tru])]).geometry = some (.obj [mem "type" (strV "Point"),
      mem "coordinates" (.arr [exNum (3/2) "1.5", exNum (-2) "-2", exNum 10 "10"])]) := rfl
  rw [hg]
  simp only [hpt]
  rfl

theorem exObj_addProps : addProps exObj = exObj' := by
  have : addPropsEx (some ⟨0, [], "{\"id\":7,\"tags\":[true]}", false⟩) =
      some ⟨0, [], "{\"id\":7,\"tags\":[true],\"properties\":{}}", true⟩ := by decide +kernel
  simp only [exObj, exObj', addProps_feature, addProps_point, this]

theorem exObj_ne : exObj' ≠ exObj := by
  intro h
  simp only [exObj, exObj', Obj.feature.injEq, Option.some.injEq, Extra.mk.injEq] at h
  exact absurd h.2.2.2.2 (by decide)

/-- non-vacuity, the `addProps` case: the concrete Feature document `exDoc` (no `properties`
    member) satisfies the hypotheses of `reparse_normal_form`; the object parsed back from the
    written document is `exObj'` — the same Feature with `"properties":{}` appended to its
    members — which differs from the first object `exObj`: `x' = x` is false, `x' = addProps x`
    is what holds -/
theorem reparse_example_feature :
    parseTop {} exDoc = .ok exObj ∧
    ∃ v, Written exObj v ∧ parse {} (v.depth + 1) v = .ok exObj' ∧ exObj' ≠ exObj ∧
      write exObj' = write exObj := by
  refine ⟨exDoc_parse, ?_⟩
  obtain ⟨v, hw, hre⟩ := reparse_normal_form {} _ exDoc exObj exDoc_parse
    (allFinB_sound _ (by decide +kernel)) (docOKB_sound _ (by decide +kernel))
  rw [exObj_addProps] at hre
  exact ⟨v, hw, hre, exObj_ne, by rw [← exObj_addProps, write_addProps]⟩

/-- non-vacuity, the Circle case: the concrete document `exCircleDoc` satisfies the hypotheses;
    its written document is recognised as the same Circle again -/
theorem reparse_example_circle :
    ∃ v, Written exCircle v ∧ parse {} (v.depth + 1) v = .ok exCircle := by
  obtain ⟨v, hw, hre⟩ := reparse_normal_form {} _ exCircleDoc exCircle circle_drops_members.1
    (allFinB_sound _ (by decide +kernel)) (docOKB_sound _ (by decide +kernel))
  exact ⟨v, hw, hre⟩

end Example

end Geo

#print axioms Geo.render_writeV
#print axioms Geo.written_tokOK
#print axioms Geo.reparse_ok_partial
#print axioms Geo.reparse_ok_partial_lineString
#print axioms Geo.lineCoords_roundtrip
#print axioms Geo.polyCoords_roundtrip
#print axioms Geo.feature_has_properties
#print axioms Geo.members_preserved_partial
#print axioms Geo.isRectRing_rectRing
#print axioms Geo.reparse_main
#print axioms Geo.reparse_normal_form'
#print axioms Geo.reparse_normal_form
#print axioms Geo.reparse_ok
#print axioms Geo.write_addProps
#print axioms Geo.write_fixpoint
#print axioms Geo.reparse_valid
#print axioms Geo.geometry_preserved
#print axioms Geo.members_preserved
#print axioms Geo.multi_children_no_members
#print axioms Geo.circle_drops_members
#print axioms Geo.circle_written_shape
#print axioms Geo.reparse_example_feature
#print axioms Geo.reparse_example_circle
#print axioms Geo.addProps_valid
#print axioms Geo.addProps_idem
#print axioms Geo.dropFeatEx_addProps
#print axioms Geo.featExs_addProps
