/-
  GeoProofs.IndexIndep.Matrix — the 4×4 matrices `Geom.intersects` / `Geom.contains` under a
  change of index, and the concrete "same vertex lists, arbitrary index configuration" form.
-/
import GeoProofs.IndexIndep.Shapes

namespace Geo

/-- the same geometry up to the index of every series involved -/
inductive Geom.Sim : Geom → Geom → Prop
  | point (p : Pt) : Geom.Sim (.point p) (.point p)
  | rect (r : Box) : Geom.Sim (.rect r) (.rect r)
  | line {l l' : Line} (h : Line.Sim l l') : Geom.Sim (.line l) (.line l')
  | poly {p p' : Poly} (h : Poly.Sim p p') : Geom.Sim (.poly p) (.poly p')

/-- the rings of `g` used as CONTAINERS in the inclusive reading when `g` is the left operand of
    `contains` (the polygon's exterior) are index safe -/
def Geom.ExtSafe : Geom → Prop
  | .poly p => p.ExtSafe
  | _ => True

/-- the rings of `g` used as containers in the inclusive reading when `g` is the RIGHT operand of
    `contains` (its holes, in `Poly.containsPoly`) are index safe -/
def Geom.HolesSafe : Geom → Prop
  | .poly p => p.HolesSafe
  | _ => True

/-- **all 16 pairs**: `Geom.intersects` does not depend on the index configuration -/
theorem Geom.Sim.intersects {a a' b b' : Geom} (ha : Geom.Sim a a') (hb : Geom.Sim b b') :
    a.intersects b = a'.intersects b' := by
  cases ha with
  | point p =>
    cases hb with
    | point q => rfl
    | rect r => rfl
    | line h => exact h.containsPoint p
    | poly h => exact h.containsPoint p
  | rect r =>
    cases hb with
    | point q => rfl
    | rect s => rfl
    | line h => exact Box.intersectsLine_congr h.same r
    | poly h => exact h.intersectsRect r
  | line hl =>
    cases hb with
    | point q => exact hl.containsPoint q
    | rect s => exact Box.intersectsLine_congr hl.same s
    | line h => exact hl.intersectsLine h
    | poly h => exact h.intersectsLine hl.same
  | poly hp =>
    cases hb with
    | point q => exact hp.containsPoint q
    | rect s => exact hp.intersectsRect s
    | line h => exact hp.intersectsLine h.same
    | poly h => exact hp.intersectsPoly h

/-- **all 16 pairs**: `Geom.contains` does not depend on the index configuration, provided the
    rings whose reported edge indexes are looked at (exterior of the left polygon; holes of the
    right polygon) are index safe.  Without the proviso the statement is FALSE
    (`Counterexample.lean`; realised by a real R-tree, see `Experiment.lean`). -/
theorem Geom.Sim.contains {a a' b b' : Geom} (ha : Geom.Sim a a') (hb : Geom.Sim b b')
    (hsa : a.ExtSafe) (hsb : b.HolesSafe) : a.contains b = a'.contains b' := by
  cases ha with
  | point p =>
    cases hb with
    | point q => rfl
    | rect r => rfl
    | line h => exact Pt.containsLine_congr h.same p
    | poly h => exact Pt.containsPoly_congr h p
  | rect r =>
    cases hb with
    | point q => rfl
    | rect s => rfl
    | line h => exact Box.containsLine_congr h.same r
    | poly h => exact Box.containsPoly_congr h r
  | line hl =>
    cases hb with
    | point q => exact hl.containsPoint q
    | rect s => exact Line.containsRect_congr hl.same s
    | line h => exact Line.containsLine_congr hl.same h.same
    | poly h => exact Line.containsPoly_congr hl.same h
  | poly hp =>
    cases hb with
    | point q => exact hp.containsPoint q
    | rect s => exact hp.containsRect s hsa
    | line h => exact hp.containsLine h.same hsa
    | poly h => exact hp.containsPoly h hsa hsb

/-! ### the concrete form: vertex lists + index configurations -/

/-- a series to be built: vertex list, index kind, build threshold -/
structure SerCfg where
  pts : Array Pt
  kind : IndexKind
  minPoints : Nat

/-- a geometry to be built -/
inductive GCfg where
  | point (p : Pt)
  | rect (r : Box)
  | line (c : SerCfg)
  | poly (ext : SerCfg) (holes : List SerCfg)

def SerCfg.ring (c : SerCfg) : Series := mkSeries c.pts true c.kind c.minPoints
def SerCfg.line (c : SerCfg) : Series := mkSeries c.pts false c.kind c.minPoints
def SerCfg.ring0 (c : SerCfg) : Series := mkSeries c.pts true .none 0
def SerCfg.line0 (c : SerCfg) : Series := mkSeries c.pts false .none 0

/-- the geometry with the requested indexes -/
def GCfg.build : GCfg → Geom
  | .point p => .point p
  | .rect r => .rect r
  | .line c => .line c.line
  | .poly e hs => .poly ⟨some (.ser e.ring), hs.map (fun h => Ring.ser h.ring)⟩

/-- the same geometry without any index -/
def GCfg.plain : GCfg → Geom
  | .point p => .point p
  | .rect r => .rect r
  | .line c => .line c.line0
  | .poly e hs => .poly ⟨some (.ser e.ring0), hs.map (fun h => Ring.ser h.ring0)⟩

/-- every series of the geometry searches exactly (proved for `.none`, `.quadtree`, and `.rtree`
    on binary64 coordinates: `series_search_exact_dyadic`) -/
def GCfg.Exact : GCfg → Prop
  | .point _ => True
  | .rect _ => True
  | .line c => c.line.SearchExact
  | .poly e hs => e.ring.SearchExact ∧ ∀ h ∈ hs, h.ring.SearchExact

/-- edges of the closed ring meet only in shared end points: a point on two edges is an end of
    both (no self-touching, no self-crossing, no overlapping edges) -/
def RingSimple (pts : Array Pt) : Prop :=
  ∀ (p : Pt) (i j : Nat), i < numSegmentsOf pts true → j < numSegmentsOf pts true →
    ((segmentAtOf pts i).raycast p).on = true → ((segmentAtOf pts j).raycast p).on = true →
    i = j ∨ (((segmentAtOf pts i).a = p ∨ (segmentAtOf pts i).b = p) ∧
             ((segmentAtOf pts j).a = p ∨ (segmentAtOf pts j).b = p))

/-- a ring whose reported edge indexes cannot change an answer: convex, or simple -/
def RingIdxSafe (pts : Array Pt) : Prop :=
  (processPoints pts true).convex = true ∨ RingSimple pts

theorem RingIdxSafe.ring {pts : Array Pt} (h : RingIdxSafe pts) (k : IndexKind) (m : Nat) :
    (Ring.ser (mkSeries pts true k m)).IdxSafe := by
  rcases h with h | h
  · exact Or.inl h
  · exact Or.inr (fun p i j hi hj => h p i j hi hj)

def GCfg.ExtSafe : GCfg → Prop
  | .poly e _ => RingIdxSafe e.pts
  | _ => True

def GCfg.HolesSafe : GCfg → Prop
  | .poly _ hs => ∀ h ∈ hs, RingIdxSafe h.pts
  | _ => True

theorem forall₂_map_same {α β : Type} {R : β → β → Prop} (f g : α → β) (l : List α)
    (h : ∀ a ∈ l, R (f a) (g a)) : List.Forall₂ R (l.map f) (l.map g) := by
  induction l with
  | nil => exact .nil
  | cons x xs ih =>
    exact .cons (h x (by simp)) (ih (fun a ha => h a (by simp [ha])))

theorem GCfg.sim (g : GCfg) (hg : g.Exact) : Geom.Sim g.build g.plain := by
  cases g with
  | point p => exact .point p
  | rect r => exact .rect r
  | line c =>
    exact .line ⟨mkSeries_same _ _ _ _ _ _, hg, series_search_exact_kind_none _ _ _⟩
  | poly e hs =>
    refine .poly ⟨?_, ?_⟩
    · exact (mkSeries_same _ _ _ _ _ _).sim hg.1 (series_search_exact_kind_none _ _ _)
    · exact forall₂_map_same _ _ hs (fun h hh =>
        (mkSeries_same _ _ _ _ _ _).sim (hg.2 h hh) (series_search_exact_kind_none _ _ _))

theorem GCfg.extSafe_build (g : GCfg) (h : g.ExtSafe) : g.build.ExtSafe := by
  cases g with
  | poly e hs =>
    intro r hr
    cases hr
    exact RingIdxSafe.ring h _ _
  | _ => trivial

theorem GCfg.holesSafe_build (g : GCfg) (h : g.HolesSafe) : g.build.HolesSafe := by
  cases g with
  | poly e hs =>
    intro r hr
    obtain ⟨c, hc, rfl⟩ := List.mem_map.1 hr
    exact RingIdxSafe.ring (h c hc) _ _
  | _ => trivial

end Geo
