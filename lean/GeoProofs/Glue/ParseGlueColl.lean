/-
  GeoProofs.Glue.ParseGlueColl — generated (*collection).parseInitRectIndex against the model's
  allEmpty / collRect / indexed flag (mkColl).
-/
import GeoProofs.Glue.ParseGluePoly5

set_option linter.unusedSimpArgs false

namespace Geo.PGlue
open Geo Geo.PGen

def nonEmptyCount (cs : List Obj) : Nat := (cs.filter (fun c => !c.empty)).length

theorem boxOf_rectOfBox (b : Box) : boxOf (rectOfBox b) = b := rfl

/-- the first loop: pempty, prect, count -/
theorem countLoop (rec : RecT) : ∀ (cs : List Obj) (g : GColl) (count : Nat) (acc : Option Box),
    (acc = none ↔ count = 0) → (count ≠ 0 → acc = some (boxOf g.prect)) →
    ∃ g', forRange (PGen.parseInitRectIndex_body2 (mops rec)) cs (g, (count : Int)) =
        Exit.done (g', ((count + nonEmptyCount cs : Nat) : Int)) ∧
      g'.children = g.children ∧ g'.extra = g.extra ∧ g'.tree = g.tree ∧
      g'.pempty = (g.pempty && Obj.allEmpty cs) ∧
      (Obj.collRect cs (g.children.length == 1) acc = none ↔ count + nonEmptyCount cs = 0) ∧
      (count + nonEmptyCount cs ≠ 0 → Obj.collRect cs (g.children.length == 1) acc = some (boxOf g'.prect)) := by
  intro cs
  induction cs with
  | nil =>
    intro g count acc h1 h2
    exact ⟨g, by simp [forRange, nonEmptyCount], rfl, rfl, rfl, by simp [Obj.allEmpty], by simpa [Obj.collRect, nonEmptyCount] using h1,
      by simpa [Obj.collRect, nonEmptyCount] using h2⟩
  | cons c cs ih =>
    intro g count acc h1 h2
    cases hc : c.empty
    · -- non-empty child
      have hstep : PGen.parseInitRectIndex_body2 (mops rec) c (g, (count : Int)) =
          Flow.next ({ g with pempty := false,
                              prect := (if count = 0 then rectOfBox c.rect
                                       else if g.children.length == 1 then rectOfBox c.rect
                                       else rectOfBox (Obj.unionBox (boxOf g.prect) c.rect)) }, ((count + 1 : Nat) : Int)) := by
        unfold PGen.parseInitRectIndex_body2
        simp only [m_objectEmpty, m_objectRect, m_unionRects, hc, Bool.false_eq_true, if_false, Bool.not_false, Bool.and_true]
        by_cases h0 : count = 0
        · subst h0; cases hp : g.pempty <;> simp [hp]
        · have : ¬ (((count : Nat) : Int) == 0) = true := by simp; omega
          simp only [this, h0, if_false]
          by_cases hs : g.children.length = 1
          · cases hp : g.pempty <;> simp [hs, hp]
          · have hs' : ¬ ((Int.ofNat g.children.length == 1) = true) := by simp; omega
            have hsI : ¬ ((g.children.length : Int) = 1) := by omega
            cases hp : g.pempty <;> simp [hs, hs', hsI, hp, boxOf_rectOfBox]
      let pr : GRect := if count = 0 then rectOfBox c.rect else if g.children.length == 1 then rectOfBox c.rect else rectOfBox (Obj.unionBox (boxOf g.prect) c.rect)
      let g1 : GColl := { g with pempty := false, prect := pr }
      let acc1 : Option Box := match acc with
        | none => some c.rect
        | some a => some (if g.children.length == 1 then c.rect else Obj.unionBox a c.rect)
      have hacc1 : acc1 = some (boxOf g1.prect) := by
        by_cases h0 : count = 0
        · have := h1.2 h0; subst this; simp [acc1, g1, pr, h0, boxOf_rectOfBox]
        · have := h2 h0; subst this
          by_cases hs : g.children.length = 1 <;> simp [acc1, g1, pr, h0, hs, boxOf_rectOfBox]
      obtain ⟨g', hf, hch, hex, htr, hpe, hr1, hr2⟩ := ih g1 (count + 1) acc1 (by simp [hacc1]) (fun _ => hacc1)
      refine ⟨g', ?_, hch, hex, htr, ?_, ?_, ?_⟩
      · rw [forRange, hstep]; simp only; rw [hf]
        simp [nonEmptyCount, List.filter_cons, hc]; omega
      · simp [hpe, g1, pr, Obj.allEmpty, hc]
      · have : Obj.collRect (c :: cs) (g.children.length == 1) acc = Obj.collRect cs (g.children.length == 1) acc1 := by
          cases acc <;> simp [Obj.collRect, hc, acc1]
        rw [this]
        have e : count + nonEmptyCount (c :: cs) = count + 1 + nonEmptyCount cs := by simp [nonEmptyCount, List.filter_cons, hc]; omega
        rw [e]; exact hr1
      · have : Obj.collRect (c :: cs) (g.children.length == 1) acc = Obj.collRect cs (g.children.length == 1) acc1 := by
          cases acc <;> simp [Obj.collRect, hc, acc1]
        rw [this]
        have e : count + nonEmptyCount (c :: cs) = count + 1 + nonEmptyCount cs := by simp [nonEmptyCount, List.filter_cons, hc]; omega
        rw [e]; exact hr2
    · -- empty child: skipped
      have hstep : PGen.parseInitRectIndex_body2 (mops rec) c (g, (count : Int)) = Flow.next (g, (count : Int)) := by
        unfold PGen.parseInitRectIndex_body2
        simp [hc]
      obtain ⟨g', hf, hch, hex, htr, hpe, hr1, hr2⟩ := ih g count acc h1 h2
      have e : nonEmptyCount (c :: cs) = nonEmptyCount cs := by simp [nonEmptyCount, List.filter_cons, hc]
      have hcr : Obj.collRect (c :: cs) (g.children.length == 1) acc = Obj.collRect cs (g.children.length == 1) acc := by
        simp [Obj.collRect, hc]
      refine ⟨g', ?_, hch, hex, htr, ?_, ?_, ?_⟩
      · rw [forRange, hstep]; simp only; rw [hf, e]
      · simp [hpe, Obj.allEmpty, hc]
      · rw [hcr, e]; exact hr1
      · rw [hcr, e]; exact hr2

/-- the second loop: the inserts into the child R-tree -/
theorem insertLoop (rec : RecT) : ∀ (cs : List Obj) (g : GColl), g.tree.isSome = true →
    ∃ g', forRange (PGen.parseInitRectIndex_body1 (mops rec)) cs g = Exit.done g' ∧
      g'.children = g.children ∧ g'.extra = g.extra ∧ g'.tree.isSome = true ∧ g'.pempty = g.pempty ∧ g'.prect = g.prect := by
  intro cs
  induction cs with
  | nil => intro g h; exact ⟨g, by simp [forRange], rfl, rfl, h, rfl, rfl⟩
  | cons c cs ih =>
    intro g h
    cases hc : c.empty
    · obtain ⟨t, ht⟩ := Option.isSome_iff_exists.mp h
      have hstep : PGen.parseInitRectIndex_body1 (mops rec) c g = Flow.next { g with tree := some (t ++ [c]) } := by
        unfold PGen.parseInitRectIndex_body1
        simp [hc, ht]
      obtain ⟨g', hf, h1, h2, h3, h4, h5⟩ := ih { g with tree := some (t ++ [c]) } rfl
      exact ⟨g', by rw [forRange, hstep]; exact hf, h1, h2, h3, h4, h5⟩
    · have hstep : PGen.parseInitRectIndex_body1 (mops rec) c g = Flow.next g := by
        unfold PGen.parseInitRectIndex_body1
        simp [hc]
      obtain ⟨g', hf, h1, h2, h3, h4, h5⟩ := ih g h
      exact ⟨g', by rw [forRange, hstep]; exact hf, h1, h2, h3, h4, h5⟩

/-- generated parseInitRectIndex: children / extra untouched; tree, pempty, prect as the model computes them -/
theorem initRect_eq (rec : RecT) (c : GColl) (o : POpts) (ht : c.tree = none) :
    (PGen.parseInitRectIndex (mops rec) c (some (optsG o))).children = c.children ∧
    (PGen.parseInitRectIndex (mops rec) c (some (optsG o))).extra = c.extra ∧
    (PGen.parseInitRectIndex (mops rec) c (some (optsG o))).tree.isSome =
      (decide (nonEmptyCount c.children > 0) && o.indexChildren != 0 && decide (nonEmptyCount c.children ≥ o.indexChildren)) ∧
    (PGen.parseInitRectIndex (mops rec) c (some (optsG o))).pempty = Obj.allEmpty c.children ∧
    (Obj.collRect c.children (c.children.length == 1) none =
      if nonEmptyCount c.children = 0 then none
      else some (boxOf (PGen.parseInitRectIndex (mops rec) c (some (optsG o))).prect)) := by
  obtain ⟨g1, hf, h1, h2, h3, h4, h5, h6⟩ := countLoop rec c.children { c with pempty := true } 0 none (by simp) (by simp)
  simp only [Nat.zero_add] at hf h5 h6
  unfold PGen.parseInitRectIndex
  simp only [m_zeroParseOptions, deref_some, m_zeroRtreeRTree]
  have hf' : forRange (PGen.parseInitRectIndex_body2 (mops rec)) c.children ({ c with pempty := true }, (0 : Int)) =
      Exit.done (g1, (nonEmptyCount c.children : Int)) := by simpa using hf
  rw [hf']
  simp only
  have hic : (optsG o).indexChildren = (o.indexChildren : Int) := rfl
  simp only [hic]
  have hcond : (decide (((nonEmptyCount c.children : Nat) : Int) > 0) && !(((o.indexChildren : Nat) : Int) == 0) &&
      decide (((nonEmptyCount c.children : Nat) : Int) ≥ ((o.indexChildren : Nat) : Int))) =
      (decide (nonEmptyCount c.children > 0) && o.indexChildren != 0 && decide (nonEmptyCount c.children ≥ o.indexChildren)) := by
    have hz : (((o.indexChildren : Nat) : Int) == 0) = (o.indexChildren == 0) := by
      by_cases h : o.indexChildren = 0
      · simp [h]
      · have : ¬ ((o.indexChildren : Int) = 0) := by omega
        rw [beq_eq_false_iff_ne.mpr this, beq_eq_false_iff_ne.mpr h]
    simp [bne, hz]
  simp only [hcond]
  have hcr : Obj.collRect c.children (c.children.length == 1) none =
      if nonEmptyCount c.children = 0 then none else some (boxOf g1.prect) := by
    by_cases h0 : nonEmptyCount c.children = 0
    · simp [h0, h5.2 h0]
    · simp [h0, h6 h0]
  cases hb : (decide (nonEmptyCount c.children > 0) && o.indexChildren != 0 && decide (nonEmptyCount c.children ≥ o.indexChildren))
  · simp only [Bool.false_eq_true, if_false]
    exact ⟨h1, h2, by rw [h3]; simp [ht], by simpa using h4, hcr⟩
  · simp only [if_true]
    obtain ⟨g2, hf2, k1, k2, k3, k4, k5⟩ := insertLoop rec g1.children { g1 with tree := some [] } rfl
    rw [hf2]
    simp only
    exact ⟨by rw [k1]; exact h1, by rw [k2]; exact h2, k3, by rw [k4]; simpa using h4, by rw [k5]; exact hcr⟩

theorem initRect_obj (rec : RecT) (kind : CollKind) (c : GColl) (o : POpts) (ht : c.tree = none) :
    collObj kind (PGen.parseInitRectIndex (mops rec) c (some (optsG o))) = mkColl o kind c.children (c.extra.map exM) := by
  obtain ⟨h1, h2, h3, _, _⟩ := initRect_eq rec c o ht
  simp [collObj, mkColl, h1, h2, h3, nonEmptyCount]

#print axioms initRect_eq
#print axioms initRect_obj

end Geo.PGlue
