/-
  Property C03 (contains), GENERAL POSITION: when no edge of A meets any edge of B
  ("no contact"), polygon containment of the code is EXACT — with one exception found by this
  development, the ≥ 16-point rectangle shortcut of `ringContainsRing` (finding D19).

  Known findings D4, D5, D13 (Props/C03.lean) are wrong answers in CONTACT configurations.
  The theorems here justify attributing a wrong containment answer to those findings only when
  the two boundaries share a point:

  * `ringContainsSegment_of_avoids`      ring × segment, any closed chain, any `allowOnEdge`
  * `ringContainsRing_of_avoids`         ring × ring/line with < 16 points
  * `ringContainsRing_of_avoids_rect`    … any number of points, when the ring also avoids the
                                          sides of the argument's bounding rectangle
  * `ringContainsLine_of_avoids`
  * `ringIntersectsSegment_of_avoids`, `ringIntersectsLine_strict_of_avoids` (hole tests)
  * `ringIntersectsRing_strict_of_avoids` hole × ring: the ring with the smaller box area lies
                                          strictly inside the other
  * `poly_contains_line_of_no_contact`   (build A).contains (build B) = Spec.covers A B,
                                          A any polygon value, B any line string
  * `poly_contains_rect_of_no_contact`   … B a rectangle; needs `InteriorOK` for the holes of A
                                          (the specification's `interiorPoint` works on them)
  * `poly_contains_point_exact`          … B a point (no hypothesis at all, from C01)
  * `poly_contains_poly_noholes_of_no_contact`  … B a polygon, neither side has holes
  * `poly_contains_exact_of_no_contact`  the four cases above in one statement
  * `poly_containsPoly_closed_form`      B a polygon with holes: the CODE's answer in closed form
                                          (parity statements).  NOT PROVED: that this closed form
                                          equals `Spec.covers` when holes are present — it needs
                                          nesting lemmas for simple rings (transitivity of
                                          "inside", no mutual nesting, a hole's interior point
                                          reaches its boundary by a free segment), i.e. a
                                          first-hit construction; brute force on 70 000 polygon
                                          pairs with holes on both sides found no disagreement.
  * `line_contains_of_no_contact`        Line ⊇ Line never holds without contact; code agrees
  * `ringContainsRing_shortcut_counterexample`,
    `poly_contains_general_position_counterexample`  — D19: the shortcut answers `true` for an
    argument that lies entirely OUTSIDE the ring, with no contact between the two shapes (the
    contact is between the ring and the argument's bounding RECTANGLE, whose corners sit on
    vertices of the ring, so that `ringContainsSegment` returns at site 7 for all four sides).
-/
import GeoProofs.Props.C03
import GeoProofs.Contains.LineLine
import GeoProofs.Contains.Interior

namespace Geo
open GL Jordan Contains

/-- `ringContainsLine` without contact -/
theorem ringContainsLine_of_avoids (pts : Array Pt) (line : Series) (allowOnEdge : Bool)
    (hrect : line.rect = (processPoints line.pts line.closed).rect)
    (hav : NoContact (Spec.edges pts.toList true) (Spec.edges line.pts.toList line.closed))
    (hsmall : line.numPoints < 16) :
    ringContainsLine (.ser (mkSeries pts true .none 0)) line allowOnEdge =
      (!line.empty && Spec.inRing (Spec.edges pts.toList true) line.pts[0]!) :=
  ringContainsRing_of_avoids pts line allowOnEdge hrect hav hsmall

/-- … and then every point of every segment of the argument is strictly inside -/
theorem ringContainsRing_of_avoids_all (pts : Array Pt) (o : Series) (allowOnEdge : Bool)
    (hrect : o.rect = (processPoints o.pts o.closed).rect)
    (hav : NoContact (Spec.edges pts.toList true) (Spec.edges o.pts.toList o.closed))
    (hsmall : o.numPoints < 16) :
    ringContainsRing (.ser (mkSeries pts true .none 0)) (.ser o) allowOnEdge = true ↔
      (o.empty = false ∧ ∀ f ∈ Spec.edges o.pts.toList o.closed, ∀ x, OnSeg f.1 f.2 x →
        Spec.strictIn (Spec.edges pts.toList true) x = true) := by
  rw [ringContainsRing_of_avoids pts o allowOnEdge hrect hav hsmall]
  by_cases he : o.empty = true
  · simp [he]
  · have he' : o.empty = false := by simpa using he
    have hne : ((o.closed && o.pts.size < 3) || o.pts.size < 2) = false := he'
    obtain ⟨hns, h2⟩ := numSegmentsOf_ge o.pts o.closed hne
    have hc := chain_const pts.toList o.pts o.closed hne hav
    simp only [he', Bool.not_false, Bool.true_and, true_and]
    constructor
    · intro h f hf x hx
      have hf' : ∀ e ∈ Spec.edges pts.toList true, Spec.segsMeet e.1 e.2 f.1 f.2 = false :=
        fun e he => hav e he f hf
      obtain ⟨i, hi, rfl⟩ := edges_mem_segmentAt o.pts o.closed f hf
      have hi' := Nat.lt_of_lt_of_le hi (numSegmentsOf_le o.pts o.closed)
      refine segment_inside_of_avoids pts.toList _ _ hf' ?_ x hx
      have hci := (hc i hi').2
      rw [h] at hci
      exact hci
    · intro h
      have hpos : 0 < numSegmentsOf o.pts o.closed :=
        Nat.lt_of_lt_of_le (by omega : 0 < o.pts.size - 1) hns
      have := h _ (segmentAt_mem_edges o.pts o.closed 0 hpos) _ (K.onSeg_left _ _)
      have h0 : Spec.strictIn (Spec.edges pts.toList true) o.pts[0]! = true := this
      rw [← inRing_eq_strictIn_of_off (hc 0 (by omega)).1] at h0
      exact h0

/-! ## the property in general position -/

/-- Polygon ∋ Point: exact for all inputs (C01), restated against `Spec.covers` -/
theorem poly_contains_point_exact (ext : List Pt) (holes : List (List Pt)) (p : Pt) :
    (build (.poly ext holes)).contains (build (.point p)) =
      Spec.covers (.poly ext holes) (.point p) := by
  have h := polyContainsPoint_iff ext.toArray .none 0 (holes.map (fun h => (h.toArray, IndexKind.none, 0)))
    (series_search_exact_kind_none _ true 0)
    (fun h hh => by
      obtain ⟨g, -, rfl⟩ := List.mem_map.1 hh
      exact series_search_exact_kind_none _ true 0) p
  simp only [List.map_map, Function.comp_def] at h
  have hc : Spec.covers (.poly ext holes) (.point p) =
      (decide (ext.length ≥ 3) && true && (Spec.Shape.poly ext holes).member p) := rfl
  rw [hc]
  show Poly.containsPoint ⟨some (.ser (mkSeries ext.toArray true .none 0)),
    holes.map (fun h => .ser (mkSeries h.toArray true .none 0))⟩ p = _
  rw [h]
  simp only [List.map_id']
  by_cases h3 : ext.length < 3
  · rw [poly_member_eq, edges_nil_of_short ext h3, inRing_nil]
    simp
  · have : decide (ext.length ≥ 3) = true := by simp; omega
    rw [this]
    simp

/-- Polygon ⊇ Polygon, neither with holes -/
theorem poly_contains_poly_noholes_of_no_contact (ext oext : List Pt) (ho3 : 3 ≤ oext.length)
    (hgp : NoContact (Spec.Shape.poly ext []).edges (Spec.Shape.poly oext []).edges)
    (hsmall : RectClear ext oext true) :
    (build (.poly ext [])).contains (build (.poly oext [])) =
      Spec.covers (.poly ext []) (.poly oext []) := by
  rw [poly_containsPoly_closed_form ext [] oext [] ho3 (fun _ h => by cases h) hgp hsmall
    (fun _ h => by cases h)]
  have hc : Spec.covers (.poly ext []) (.poly oext []) =
      (decide (ext.length ≥ 3) && decide (oext.length ≥ 3) &&
        ((Spec.edges oext true ++ []).all (fun e => Spec.segInside (Spec.Shape.poly ext []).member
          (Spec.Shape.poly ext []).edges e.1 e.2) && true)) := rfl
  rw [hc, List.append_nil]
  have hne : ((true && decide (oext.toArray.size < 3)) || decide (oext.toArray.size < 2)) = false := by
    simp; omega
  have hgp' : NoContact (Spec.Shape.poly ext []).edges (Spec.edges oext.toArray.toList true) := by
    intro e he f hf
    exact hgp e he f (by unfold Spec.Shape.edges; simpa using hf)
  have hall := edges_all_segInside ext [] oext.toArray true hne hgp'
  rw [show oext.toArray.toList = oext from rfl] at hall
  rw [hall, poly_member_eq]
  have : decide (oext.length ≥ 3) = true := by simp; omega
  rw [this]
  by_cases h3 : ext.length < 3
  · rw [edges_nil_of_short ext h3, inRing_nil]
    simp
  · have : decide (ext.length ≥ 3) = true := by simp; omega
    rw [this]
    simp

/-- the arguments covered by `poly_contains_exact_of_no_contact` -/
def Supported (ext : List Pt) (holes : List (List Pt)) : Spec.Shape → Prop
  | .point _ => True
  | .line l => RectClear ext l false
  | .rect _ _ => ∀ h ∈ holes, 3 ≤ h.length ∧ InteriorOK h
  | .poly oext oholes => holes = [] ∧ oholes = [] ∧ 3 ≤ oext.length ∧ RectClear ext oext true

/-- **the property, in general position**: for a polygon receiver and a valid argument whose
    edges meet no edge of the receiver, the code's `contains` is the exact specification.
    `Supported` lists the side conditions: the D19 treatment (`RectClear`: fewer than 16 points,
    or the receiver also avoids the argument's bounding rectangle), `InteriorOK` for the
    receiver's holes when the argument is a rectangle, and — the part not proved — no holes on
    either side when the argument is a polygon. -/
theorem poly_contains_exact_of_no_contact (ext : List Pt) (holes : List (List Pt)) (B : Spec.Shape)
    (hB : B.valid = true)
    (hgp : NoContact (Spec.Shape.poly ext holes).edges B.edges)
    (hsup : Supported ext holes B) :
    (build (.poly ext holes)).contains (build B) = Spec.covers (.poly ext holes) B := by
  cases B with
  | point p => exact poly_contains_point_exact ext holes p
  | line l => exact poly_contains_line_of_no_contact ext holes l hgp hsup
  | rect lo hi => exact poly_contains_rect_of_no_contact ext holes lo hi hsup hB hgp
  | poly oext oholes =>
    obtain ⟨rfl, rfl, h3, hs⟩ := hsup
    exact poly_contains_poly_noholes_of_no_contact ext oext h3 hgp hs

/-! ### non-vacuity: the hypotheses are satisfiable (polygon with a hole; rectangle, line) -/

example : (build (.poly sq10 [hole35])).contains (build (.rect ⟨6,6⟩ ⟨8,8⟩)) =
    Spec.covers (.poly sq10 [hole35]) (.rect ⟨6,6⟩ ⟨8,8⟩) :=
  poly_contains_exact_of_no_contact sq10 [hole35] (.rect ⟨6,6⟩ ⟨8,8⟩) (by decide +kernel)
    (by unfold NoContact; decide +kernel)
    (by
      intro h hh
      simp only [List.mem_singleton] at hh
      subst hh
      exact ⟨by decide, interiorOK_of_check _ (by decide +kernel)⟩)

/-- a rectangle around the hole, in general position: correctly NOT contained -/
example : (build (.poly sq10 [hole35])).contains (build (.rect ⟨2,2⟩ ⟨6,6⟩)) = false ∧
    Spec.covers (.poly sq10 [hole35]) (.rect ⟨2,2⟩ ⟨6,6⟩) = false ∧
    NoContact (Spec.Shape.poly sq10 [hole35]).edges (Spec.Shape.rect ⟨2,2⟩ ⟨6,6⟩).edges := by
  unfold NoContact
  decide +kernel

example : (build (.poly sq10 [hole35])).contains (build (.line [⟨1,1⟩,⟨9,2⟩,⟨6,9⟩])) =
    Spec.covers (.poly sq10 [hole35]) (.line [⟨1,1⟩,⟨9,2⟩,⟨6,9⟩]) :=
  poly_contains_exact_of_no_contact sq10 [hole35] (.line [⟨1,1⟩,⟨9,2⟩,⟨6,9⟩]) (by decide +kernel)
    (by unfold NoContact; decide +kernel) (fun h => absurd h (by decide))

/-! ## finding D19: the ≥ 16-point rectangle shortcut is wrong in general position -/

/-- a simple concave ring: the square `[0,20]²` minus a four-pointed star whose east arm is a
    channel to the outside; the star's inner vertices are the corners of `[8,12]²` -/
def ringStar : List Pt :=
  [⟨0,0⟩,⟨20,0⟩,⟨20,8⟩,⟨12,8⟩,⟨10,2⟩,⟨8,8⟩,⟨2,10⟩,⟨8,12⟩,⟨10,18⟩,⟨12,12⟩,⟨20,12⟩,⟨20,20⟩,⟨0,20⟩,⟨0,0⟩]

/-- a diamond inscribed in `[8,12]²`, 16 vertices (17 points), inside the star, i.e. OUTSIDE the
    ring -/
def diamond16 : List Pt :=
  [⟨10,8⟩,⟨21/2,17/2⟩,⟨11,9⟩,⟨23/2,19/2⟩,⟨12,10⟩,⟨23/2,21/2⟩,⟨11,11⟩,⟨21/2,23/2⟩,⟨10,12⟩,
   ⟨19/2,23/2⟩,⟨9,11⟩,⟨17/2,21/2⟩,⟨8,10⟩,⟨17/2,19/2⟩,⟨9,9⟩,⟨19/2,17/2⟩,⟨10,8⟩]

/-- no contact, all vertices of the argument strictly outside the ring — and the code says
    "contained" (for both values of `allowOnEdge = true` used by `Poly.containsPoly` /
    `Poly.containsLine`) -/
theorem ringContainsRing_shortcut_counterexample :
    ringContainsRing (.ser (mkSeries ringStar.toArray true .none 0))
        (.ser (mkSeries diamond16.toArray true .none 0)) true = true ∧
    ringContainsLine (.ser (mkSeries ringStar.toArray true .none 0))
        (mkSeries diamond16.toArray false .none 0) true = true ∧
    NoContact (Spec.edges ringStar true) (Spec.edges diamond16 true) ∧
    (∀ p ∈ diamond16, Spec.inRing (Spec.edges ringStar true) p = false) ∧
    -- the same argument with one vertex fewer than the threshold is answered correctly
    ringContainsRing (.ser (mkSeries ringStar.toArray true .none 0))
        (.ser (mkSeries (diamond16.eraseIdx 1 |>.eraseIdx 2).toArray true .none 0)) true = false := by
  unfold NoContact
  decide +kernel

theorem poly_contains_general_position_counterexample :
    (build (.poly ringStar [])).contains (build (.poly diamond16 [])) = true ∧
    Spec.covers (.poly ringStar []) (.poly diamond16 []) = false ∧
    (build (.poly ringStar [])).contains (build (.line diamond16)) = true ∧
    Spec.covers (.poly ringStar []) (.line diamond16) = false ∧
    (Spec.Shape.poly ringStar []).valid = true ∧ (Spec.Shape.poly diamond16 []).valid = true ∧
    (Spec.Shape.line diamond16).valid = true ∧
    NoContact (Spec.Shape.poly ringStar []).edges (Spec.Shape.poly diamond16 []).edges ∧
    (build (.poly ringStar [])).intersects (build (.poly diamond16 [])) = false := by
  unfold NoContact
  decide +kernel

end Geo

#print axioms Geo.ringContainsSegment_of_avoids
#print axioms Geo.ringContainsSegment_of_avoids_all
#print axioms Geo.ringContainsSegment_false_of_avoids
#print axioms Geo.ringContainsRing_of_avoids
#print axioms Geo.ringContainsRing_of_avoids_all
#print axioms Geo.ringContainsRing_of_avoids_rect
#print axioms Geo.ringContainsLine_of_avoids
#print axioms Geo.ringIntersectsSegment_of_avoids
#print axioms Geo.ringIntersectsLine_strict_of_avoids
#print axioms Geo.ringIntersectsRing_strict_of_avoids
#print axioms Geo.poly_contains_line_of_no_contact
#print axioms Geo.poly_contains_rect_of_no_contact
#print axioms Geo.poly_contains_point_exact
#print axioms Geo.poly_contains_poly_noholes_of_no_contact
#print axioms Geo.poly_contains_exact_of_no_contact
#print axioms Geo.poly_containsPoly_closed_form
#print axioms Geo.line_contains_of_no_contact
#print axioms Geo.interiorOK_of_check
#print axioms Geo.ringContainsRing_shortcut_counterexample
#print axioms Geo.poly_contains_general_position_counterexample
