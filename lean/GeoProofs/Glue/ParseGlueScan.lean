/-
  GeoProofs.Glue.ParseGlueScan — the member scan of the generated parseJSON (the ForEach literal that
  collects type / coordinates / geometries / geometry / features / foreign members) = the model's scanKeys.
-/
import GeoProofs.Glue.ParseGlueFColl

set_option linter.unusedSimpArgs false

namespace Geo.PGlue
open Geo Geo.PGen

abbrev Mem := String × String × JVal

def entry (m : Mem) : MStr := [Piece.doc (.str m.1 m.2.1), Piece.ch ':', Piece.doc m.2.2]

/-- the text parseJSON has built after the foreign members f (no closing brace yet) -/
def piecesOpen : List Mem → MStr
  | [] => []
  | m :: r => (Piece.ch '{' :: entry m) ++ r.flatMap (fun m => Piece.ch ',' :: entry m)

theorem piecesOpen_snoc (f : List Mem) (m : Mem) :
    piecesOpen (f ++ [m]) = piecesOpen f ++ ((if f.isEmpty then Piece.ch '{' else Piece.ch ',') :: entry m) := by
  cases f with
  | nil => simp [piecesOpen]
  | cons a r => simp [piecesOpen, List.flatMap_append]

theorem flat_lit (s : String) : flat (lit s) = s.toList := by
  unfold lit
  induction s.toList with
  | nil => rfl
  | cons c t ih => simp [flat, ih]

theorem strEq_lit (a b : String) : (flat (lit a) == flat (lit b)) = decide (a = b) := by
  rw [flat_lit, flat_lit]
  by_cases h : a = b
  · simp [h]
  · have : a.toList ≠ b.toList := fun e => h (String.toList_inj.mp e)
    simp [h, this]

theorem flat_piecesOpen_len (f : List Mem) : ((flat (piecesOpen f)).length = 0) ↔ f = [] := by
  cases f with
  | nil => simp [piecesOpen, flat]
  | cons a r => simp [piecesOpen, flat]

/-- one step of the model's scanKeys -/
def scanStep (k : Keys) (m : Mem) : Keys :=
  match m.2.1 with
  | "type" => { k with type := some m.2.2 }
  | "coordinates" => { k with coordinates := some m.2.2 }
  | "geometries" => { k with geometries := some m.2.2 }
  | "geometry" => { k with geometry := some m.2.2 }
  | "features" => { k with features := some m.2.2 }
  | _ => { k with foreign := k.foreign ++ [m] }

theorem scanKeys_eq (ms : List Mem) : scanKeys ms = ms.foldl scanStep {} := rfl

structure ScanRel (gk : GKeys) (fm : MStr) (rT : Option JVal) (k : Keys) : Prop where
  coords : gk.rCoordinates = k.coordinates
  geoms : gk.rGeometries = k.geometries
  geom : gk.rGeometry = k.geometry
  feats : gk.rFeatures = k.features
  ty : rT = k.type
  fm_eq : fm = piecesOpen k.foreign
  mem : gk.members = []

def memPair (m : Mem) : RPair := (some (.str m.1 m.2.1), some m.2.2)

theorem scan_step (rec : RecT) (gk : GKeys) (fm : MStr) (rT : Option JVal) (k : Keys) (m : Mem) (h : ScanRel gk fm rT k) :
    ∃ gk' fm' rT', PGen.parseJSON_lit1 (mops rec) (memPair m) (gk, fm, rT) = ((gk', fm', rT'), true) ∧
      ScanRel gk' fm' rT' (scanStep k m) := by
  obtain ⟨raw, dec, v⟩ := m
  obtain ⟨h1, h2, h3, h4, h5, h6, h7⟩ := h
  unfold PGen.parseJSON_lit1 scanStep memPair
  simp only [m_gjsonResultString, m_strEq, m_strLit, resString, strEq_lit, m_bytesLen, m_bytesPush, m_bytesAppend, m_prettyUgly,
    m_bytesOfStr, m_gjsonResultRaw, id]
  by_cases c1 : dec = "type"
  · subst c1
    refine ⟨gk, fm, some v, by simp, ?_⟩
    constructor <;> simp_all
  by_cases c2 : dec = "coordinates"
  · subst c2
    refine ⟨{ gk with rCoordinates := some v }, fm, rT, by simp, ?_⟩
    constructor <;> simp_all
  by_cases c3 : dec = "geometries"
  · subst c3
    refine ⟨{ gk with rGeometries := some v }, fm, rT, by simp, ?_⟩
    constructor <;> simp_all
  by_cases c4 : dec = "geometry"
  · subst c4
    refine ⟨{ gk with rGeometry := some v }, fm, rT, by simp, ?_⟩
    constructor <;> simp_all
  by_cases c5 : dec = "features"
  · subst c5
    refine ⟨{ gk with rFeatures := some v }, fm, rT, by simp, ?_⟩
    constructor <;> simp_all
  have hm : (match dec with
      | "type" => ({ k with type := some v } : Keys)
      | "coordinates" => { k with coordinates := some v }
      | "geometries" => { k with geometries := some v }
      | "geometry" => { k with geometry := some v }
      | "features" => { k with features := some v }
      | _ => { k with foreign := k.foreign ++ [(raw, dec, v)] }) = { k with foreign := k.foreign ++ [(raw, dec, v)] } := by
    split <;> simp_all
  rw [hm]
  refine ⟨gk, fm ++ ((if k.foreign.isEmpty then Piece.ch '{' else Piece.ch ',') :: entry (raw, dec, v)), rT, ?_, ?_⟩
  · simp only [c1, c2, c3, c4, c5, decide_false, Bool.false_eq_true, if_false]
    have hl : (flat fm = []) ↔ k.foreign = [] := by
      rw [h6, ← List.length_eq_zero_iff]; exact flat_piecesOpen_len _
    have e1 : Char.ofNat 123 = '{' := by decide
    have e2 : Char.ofNat 44 = ',' := by decide
    have e3 : Char.ofNat 58 = ':' := by decide
    by_cases hf : k.foreign = []
    · have := hl.mpr hf
      simp [hf, this, entry, e1, e2, e3]
    · have : ¬ (flat fm = []) := fun x => hf (hl.mp x)
      simp [hf, this, entry, e1, e2, e3]
  · constructor <;> simp_all [piecesOpen_snoc]

#print axioms scan_step

end Geo.PGlue
