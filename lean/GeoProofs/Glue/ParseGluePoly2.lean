/-
  GeoProofs.Glue.ParseGluePoly2 — ring_step / ring_fold: the per-position iterator of the generated
  parseJSONPolygonCoords against the model's parseRingLoop.
-/
import GeoProofs.Glue.ParseGluePoly

set_option linter.unusedSimpArgs false

namespace Geo.PGlue
open Geo Geo.PGen

abbrev PolySt := Option (PGen.Err MStr) × List (List FP) × Option GExtra × Int

theorem ring_step (rec : RecT) (key : Option JVal) (v : JVal) (rings : List (List FP)) (cur : List FP) (ex : Option GExtra)
    (dims : Int) (acc : List Pos) (st : DimSt) (h : RelR cur ex dims acc st) :
    match mRingStep rings.length v acc st with
    | .ok (acc', st') => ∃ c' e' d',
        PGen.parseJSONPolygonCoords_lit3 (mops rec) (rings.length : Int) (key, some v) (none, rings ++ [cur], ex, dims) =
          ((none, rings ++ [c'], e', d'), true) ∧ RelR c' e' d' acc' st'
    | .error e => e = .coordsInvalid ∧
        (PGen.parseJSONPolygonCoords_lit3 (mops rec) (rings.length : Int) (key, some v) (none, rings ++ [cur], ex, dims)).2 = false ∧
        (PGen.parseJSONPolygonCoords_lit3 (mops rec) (rings.length : Int) (key, some v) (none, rings ++ [cur], ex, dims)).1.1 =
          some .errCoordinatesInvalid := by
  have hnum := takeNums_eq false v.elems (forEach (some v)) 0 (forEach_vals v)
  have key := numFoldR false (forEach (some v))
  have hlit : PGen.parseJSONPolygonCoords_lit1 (mops rec) = numStep false := by funext x st; rfl
  have hrep : List.replicate 4 (mfInt 0) = [mfInt 0, mfInt 0, mfInt 0, mfInt 0] := rfl
  obtain ⟨hacc, hex, hdims⟩ := h
  unfold mRingStep PGen.parseJSONPolygonCoords_lit3
  simp only [m_gjsonResultForEach, m_f64OfInt, hlit, hrep, m_mkGeometryPoint, m_zeroExtra, deref_some, polyBody2_eq,
    arrAt_last, arrSet_last, bind, Except.bind, pure, Except.pure]
  rw [hnum]
  cases hr : takeMF false (forEach (some v)) 0 with
  | none =>
    rw [hr] at key
    simp only at key
    simp [key]
  | some os =>
    rw [hr] at key
    obtain ⟨hk, hlen⟩ := key
    simp only [hk]
    rcases os with _ | ⟨a, _ | ⟨b, r⟩⟩
    · simp [throw, throwThe, MonadExceptOf.throw]
    · simp [throw, throwThe, MonadExceptOf.throw]
    · obtain ⟨sex, sdims⟩ := st
      simp only at hex hdims
      subst hex hdims hacc
      have h01 : arrAt (mfInt 0) (pad (a :: b :: r)) 0 = a ∧ arrAt (mfInt 0) (pad (a :: b :: r)) 1 = b := by
        simp [arrAt, pad]
      simp only [h01.1, h01.2, List.map_cons]
      cases ex with
      | some e =>
        have hloop := valuesLoop rec (pad (a :: b :: r)) (List.range sdims) e
        rw [← intRange_zero] at hloop
        have hlt : ¬ ((r.length : Int) + 1 + 1 < 2) := by omega
        simp [dimStep, hloop, pure, Except.pure, bind, Except.bind, hlt]
        refine ⟨_, _, _, ⟨rfl, rfl, rfl⟩, ?_⟩
        refine ⟨by simp [toPos], ?_, rfl⟩
        simp only [exM, List.map_append, List.map_map, Option.map_some]
        congr 3
        apply List.map_congr_left
        intro i _
        have := canon_at (a :: b :: r) hlen i
        simp only [List.map_cons] at this
        simp only [Function.comp]
        have e2 : (2 : Int) + (0 + Int.ofNat i) = 2 + (i : Int) := by simp
        rw [e2] at this
        exact this.symm
      | none =>
        have hz : (Int.repr 0) = "0" := by decide
        rcases r with _ | ⟨c, _ | ⟨d, _ | ⟨x, t⟩⟩⟩
        · simp [dimStep, pure, Except.pure, bind, Except.bind]
          exact ⟨_, _, _, ⟨rfl, rfl, rfl⟩, ⟨by simp [toPos], rfl, rfl⟩⟩
        · cases rings with
          | cons rg rgs =>
            have hps : (1 : Int) < (rgs.length : Int) + 1 + 1 := by omega
            simp [dimStep, pure, Except.pure, bind, Except.bind, hps]
          | nil =>
            cases cur with
            | nil =>
              simp [dimStep, pure, Except.pure, bind, Except.bind, intRange, forRange, PGen.parseJSONLineStringCoords_body2, arrAt, pad]
              exact ⟨_, _, _, ⟨rfl, rfl, rfl⟩, ⟨by simp [toPos], by simp [exM, flat, hasPropsOf, decodeObj, MF.ord], rfl⟩⟩
            | cons p ps =>
              have hps : (1 : Int) < (ps.length : Int) + 1 + 1 := by omega
              simp [dimStep, pure, Except.pure, bind, Except.bind, hps]
        · cases rings with
          | cons rg rgs =>
            have hps : (1 : Int) < (rgs.length : Int) + 1 + 1 := by omega
            simp [dimStep, pure, Except.pure, bind, Except.bind, hps]
          | nil =>
            cases cur with
            | nil =>
              simp [dimStep, pure, Except.pure, bind, Except.bind, intRange, forRange, PGen.parseJSONLineStringCoords_body2, arrAt, pad,
                (by decide : List.range 2 = [0, 1])]
              exact ⟨_, _, _, ⟨rfl, rfl, rfl⟩, ⟨by simp [toPos], by simp [exM, flat, hasPropsOf, decodeObj, MF.ord], rfl⟩⟩
            | cons p ps =>
              have hps : (1 : Int) < (ps.length : Int) + 1 + 1 := by omega
              simp [dimStep, pure, Except.pure, bind, Except.bind, hps]
        · simp at hlen

#print axioms ring_step

end Geo.PGlue
