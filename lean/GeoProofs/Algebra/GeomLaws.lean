/-
  GeoProofs.Algebra.GeomLaws — the 4 × 4 matrix: Intersects ⇒ rectangles meet; Contains ⇒ the
  rectangle covers (every pair but Line × Line, finding D4); empty shapes intersect nothing.
  Hypothesis: structural well-formedness only (`Geom.WF`), no validity.
-/
import GeoProofs.Algebra.RectLaws

namespace Geo
open GL

theorem ptbox_containsPt (p : Pt) : p.box.containsPt p = true := by
  rw [containsPt_iff]; exact ⟨le_refl _, le_refl _, le_refl _, le_refl _⟩

theorem box_meets_ptbox (r : Box) (p : Pt) (h : r.containsPt p = true) :
    r.intersects p.box = true ∧ p.box.intersects r = true :=
  ⟨intersects_of_common _ _ p h (ptbox_containsPt p), intersects_of_common _ _ p (ptbox_containsPt p) h⟩

theorem box_intersects_comm' (r o : Box) (h : r.intersects o = true) : o.intersects r = true := by
  rw [Box.intersects_comm]; exact h

/-- Intersects ⇒ the rectangles meet, all 16 pairs of kinds -/
theorem geom_intersects_rects_meet (A B : Geom) (hA : A.WF) (hB : B.WF)
    (h : A.intersects B = true) : A.bbox.intersects B.bbox = true := by
  cases A with
  | point a =>
    cases B with
    | point b =>
      have : a = b := by simpa [Geom.intersects] using h
      subst this
      exact (box_meets_ptbox _ a (ptbox_containsPt a)).1
    | rect r => exact (box_meets_ptbox r a h).2
    | line l => exact (box_meets_ptbox _ a (Series.WF.containsPoint_rect hB a h)).2
    | poly p => exact (box_meets_ptbox _ a (Poly.containsPoint_rect p a h)).2
  | rect r =>
    cases B with
    | point b => exact (box_meets_ptbox r b h).1
    | rect o => exact h
    | line l => exact ringIntersectsLine_rect (.bx r) l true h
    | poly p => exact Poly.intersectsPoly_rect p r.asPoly h
  | line l =>
    cases B with
    | point b => exact (box_meets_ptbox _ b (Series.WF.containsPoint_rect hA b h)).1
    | rect r => exact box_intersects_comm' _ _ (ringIntersectsLine_rect (.bx r) l true h)
    | line m => exact Line.intersectsLine_rect l m h
    | poly p => exact box_intersects_comm' _ _ (Poly.intersectsLine_rect p l h)
  | poly p =>
    cases B with
    | point b => exact (box_meets_ptbox _ b (Poly.containsPoint_rect p b h)).1
    | rect r => exact box_intersects_comm' _ _ (Poly.intersectsPoly_rect p r.asPoly h)
    | line l => exact Poly.intersectsLine_rect p l h
    | poly q => exact box_intersects_comm' _ _ (Poly.intersectsPoly_rect p q h)

def Geom.isLine : Geom → Bool | .line _ => true | _ => false

/-- Contains ⇒ the receiver's rectangle covers the argument's, every pair but Line × Line -/
theorem geom_contains_rect_covers (A B : Geom) (hA : A.WF)
    (hLL : ¬ (A.isLine = true ∧ B.isLine = true))
    (h : A.contains B = true) : A.bbox.containsBox B.bbox = true := by
  cases A with
  | point a =>
    cases B with
    | point b =>
      have : a = b := by simpa [Geom.contains] using h
      subst this
      exact Box.containsBox_refl _
    | rect r =>
      have : a.box = r := by simpa [Geom.contains, Pt.containsRect] using h
      rw [← this]; exact Box.containsBox_refl _
    | line l =>
      have : l.rect = a.box := by
        have := h; simp only [Geom.contains, Pt.containsLine, Bool.and_eq_true, decide_eq_true_eq] at this
        exact this.2
      show a.box.containsBox l.rect = true
      rw [this]; exact Box.containsBox_refl _
    | poly p =>
      have : p.rect = a.box := by
        have := h; simp only [Geom.contains, Pt.containsPoly, Bool.and_eq_true, decide_eq_true_eq] at this
        exact this.2
      show a.box.containsBox p.rect = true
      rw [this]; exact Box.containsBox_refl _
  | rect r =>
    cases B with
    | point b => show r.containsBox b.box = true; rw [Box.containsBox_ptbox]; exact h
    | rect o => exact h
    | line l =>
      have := h; simp only [Geom.contains, Box.containsLine, Bool.and_eq_true] at this
      exact this.2
    | poly p =>
      have := h; simp only [Geom.contains, Box.containsPoly, Bool.and_eq_true] at this
      exact this.2
  | line l =>
    cases B with
    | point b =>
      show l.rect.containsBox b.box = true
      rw [Box.containsBox_ptbox]; exact Series.WF.containsPoint_rect hA b h
    | rect r => exact Series.WF.containsPoly_rect hA r.asPoly h
    | line m => exact absurd ⟨rfl, rfl⟩ hLL
    | poly p => exact Series.WF.containsPoly_rect hA p h
  | poly p =>
    cases B with
    | point b =>
      show p.rect.containsBox b.box = true
      rw [Box.containsBox_ptbox]; exact Poly.containsPoint_rect p b h
    | rect r => exact Poly.containsPoly_rect p r.asPoly h
    | line l => exact Poly.containsLine_rect p l h
    | poly q => exact Poly.containsPoly_rect p q h

/-! ### empty shapes intersect nothing -/

theorem Poly.intersectsLine_empty (p : Poly) (l : Line) (h : p.empty = true ∨ l.empty = true) :
    p.intersectsLine l = false := by
  unfold Poly.intersectsLine
  unfold Poly.empty at h
  cases he : p.ext with
  | none => rfl
  | some e =>
    rw [he] at h
    simp only at h ⊢
    rw [ringIntersectsLine_of_empty e l true h]; rfl

theorem Poly.intersectsPoly_empty (p o : Poly) (h : p.empty = true ∨ o.empty = true) :
    p.intersectsPoly o = false := by
  unfold Poly.intersectsPoly
  unfold Poly.empty at h
  cases he : p.ext with
  | none => rfl
  | some e =>
    cases ho : o.ext with
    | none => rfl
    | some oe =>
      rw [he, ho] at h
      simp only at h ⊢
      rw [ringIntersectsRing_of_empty oe e true h.symm]; rfl

theorem Line.intersectsLine_empty (l m : Line) (h : l.empty = true ∨ m.empty = true) :
    l.intersectsLine m = false := by
  unfold Line.intersectsLine
  rw [if_pos (by simpa using h)]

theorem geom_intersects_empty (A B : Geom) (hA : A.WF) (hB : B.WF)
    (h : A.isEmpty = true ∨ B.isEmpty = true) : A.intersects B = false := by
  cases A with
  | point a =>
    cases B with
    | point b => simp [Geom.isEmpty] at h
    | rect r => simp [Geom.isEmpty] at h
    | line l => exact Series.WF.containsPoint_empty hB a (by simpa [Geom.isEmpty] using h)
    | poly p => exact Poly.WF.containsPoint_empty hB a (by simpa [Geom.isEmpty] using h)
  | rect r =>
    cases B with
    | point b => simp [Geom.isEmpty] at h
    | rect o => simp [Geom.isEmpty] at h
    | line l => exact ringIntersectsLine_of_empty (.bx r) l true (Or.inr (by simpa [Geom.isEmpty] using h))
    | poly p => exact Poly.intersectsPoly_empty p r.asPoly (Or.inl (by simpa [Geom.isEmpty] using h))
  | line l =>
    cases B with
    | point b => exact Series.WF.containsPoint_empty hA b (by simpa [Geom.isEmpty] using h)
    | rect r => exact ringIntersectsLine_of_empty (.bx r) l true (Or.inr (by simpa [Geom.isEmpty] using h))
    | line m => exact Line.intersectsLine_empty l m h
    | poly p => exact Poly.intersectsLine_empty p l h.symm
  | poly p =>
    cases B with
    | point b => exact Poly.WF.containsPoint_empty hA b (by simpa [Geom.isEmpty] using h)
    | rect r => exact Poly.intersectsPoly_empty p r.asPoly (Or.inl (by simpa [Geom.isEmpty] using h))
    | line l => exact Poly.intersectsLine_empty p l h
    | poly q => exact Poly.intersectsPoly_empty p q h

end Geo
