/-
  GeoProofs.Reparse.Examples — C06: executable checkers for the hypotheses of the reparse theorem
  (`DocOK`, `AllFin`) and a concrete document exercising every case (non-vacuity).
-/
import GeoProofs.Reparse.Main
import GeoProofs.Reparse.AddProps

namespace Geo

/-! ### sound executable checkers -/

mutual
def docOKB : JVal → Bool
  | .num fin _ canon canonK raw =>
    numTokB raw.toList && (!fin || (numTokB canon.toList && numTokB canonK.toList))
  | .str raw _ => strTokB raw.toList
  | .arr items => docOKLB items
  | .obj ms => docOKMB ms
  | _ => true
def docOKLB : List JVal → Bool
  | [] => true
  | v :: vs => docOKB v && docOKLB vs
def docOKMB : List Member → Bool
  | [] => true
  | (k, _, v) :: ms => strTokB k.toList && docOKB v && docOKMB ms
end

mutual
theorem docOKB_sound : ∀ v : JVal, docOKB v = true → v.DocOK
  | .null, _ => trivial
  | .tru, _ => trivial
  | .fls, _ => trivial
  | .num fin _ canon canonK raw, h => by
    simp only [docOKB, Bool.and_eq_true, Bool.or_eq_true, Bool.not_eq_true'] at h
    simp only [JVal.DocOK]
    refine ⟨numTokB_sound h.1, fun hf => ?_⟩
    rcases h.2 with h2 | h2
    · rw [hf] at h2; cases h2
    · exact ⟨numTokB_sound h2.1, numTokB_sound h2.2⟩
  | .str raw _, h => by
    simp only [docOKB] at h
    simp only [JVal.DocOK]
    exact strTokB_sound h
  | .arr items, h => by
    simp only [docOKB] at h
    simp only [JVal.DocOK]
    exact docOKLB_sound items h
  | .obj ms, h => by
    simp only [docOKB] at h
    simp only [JVal.DocOK]
    exact docOKMB_sound ms h
theorem docOKLB_sound : ∀ vs : List JVal, docOKLB vs = true → DocOKL vs
  | [], _ => trivial
  | v :: vs, h => by
    simp only [docOKLB, Bool.and_eq_true] at h
    rw [DocOKL]
    exact ⟨docOKB_sound v h.1, docOKLB_sound vs h.2⟩
theorem docOKMB_sound : ∀ ms : List Member, docOKMB ms = true → DocOKM ms
  | [], _ => trivial
  | (k, d, v) :: ms, h => by
    simp only [docOKMB, Bool.and_eq_true] at h
    rw [DocOKM]
    exact ⟨strTokB_sound h.1.1, docOKB_sound v h.1.2, docOKMB_sound ms h.2⟩
end

def exFinB : Option Extra → Bool
  | none => true
  | some e => e.values.all (fun t => t != "null")

theorem exFinB_sound {ex : Option Extra} (h : exFinB ex = true) : ExFin ex := by
  cases ex with
  | none => trivial
  | some e =>
    simp only [exFinB, List.all_eq_true, bne_iff_ne, ne_eq] at h
    exact h

mutual
def allFinB : Obj → Bool
  | .point pos ex => pos.fin && exFinB ex
  | .spoint pos => pos.fin
  | .lineString _ poss ex => poss.all (·.fin) && exFinB ex
  | .polygon _ rings ex => rings.all (·.all (·.fin)) && exFinB ex
  | .rectO _ lo hi => lo.fin && hi.fin
  | .coll _ cs _ _ => allFinLB cs
  | .feature b _ => allFinB b
  | .circle c r => c.fin && r != "null"
def allFinLB : List Obj → Bool
  | [] => true
  | c :: cs => allFinB c && allFinLB cs
end

mutual
theorem allFinB_sound : ∀ x : Obj, allFinB x = true → AllFin x
  | .point pos ex, h => by
    simp only [allFinB, Bool.and_eq_true] at h
    exact ⟨h.1, exFinB_sound h.2⟩
  | .spoint pos, h => by simpa [allFinB, AllFin] using h
  | .lineString _ poss ex, h => by
    simp only [allFinB, Bool.and_eq_true, List.all_eq_true] at h
    exact ⟨h.1, exFinB_sound h.2⟩
  | .polygon _ rings ex, h => by
    simp only [allFinB, Bool.and_eq_true, List.all_eq_true] at h
    exact ⟨h.1, exFinB_sound h.2⟩
  | .rectO _ lo hi, h => by
    simp only [allFinB, Bool.and_eq_true] at h
    exact h
  | .coll _ cs _ _, h => by
    simp only [allFinB] at h
    simp only [AllFin]
    exact allFinLB_sound cs h
  | .feature b _, h => by
    simp only [allFinB] at h
    simp only [AllFin]
    exact allFinB_sound b h
  | .circle c r, h => by
    simp only [allFinB, Bool.and_eq_true, bne_iff_ne, ne_eq] at h
    exact h
theorem allFinLB_sound : ∀ cs : List Obj, allFinLB cs = true → AllFinL cs
  | [], _ => trivial
  | c :: cs, h => by
    simp only [allFinLB, Bool.and_eq_true] at h
    rw [AllFinL]
    exact ⟨allFinB_sound c h.1, allFinLB_sound cs h.2⟩
end

/-! ### a document exercising every case -/

/-- a number node as a decoder produces it (`canonK` = text of the value × 1000) -/
def jn (v : Rat) (t tk : String) : JVal := .num true v t tk t

def pt2 (x y : Rat) (xs ys xk yk : String) : JVal := .arr [jn x xs xk, jn y ys yk]

/-- options: Rect and SimplePoint recognition on, validity required -/
def exOpts : POpts := { allowRects := true, allowSimplePoints := true, requireValid := true }

/--
```
{"name":"fc","type":"FeatureCollection","features":[
  {"type":"Feature","id":1,"geometry":{"type":"Polygon","coordinates":[[[0,0,5],[4,0,6],[4,4],[0,0,5]]]}},
  {"type":"Feature","geometry":{"type":"Point","coordinates":[1,2]},
     "properties":{"type":"Circle","radius":5,"radius_units":"km"}},
  {"type":"Feature","properties":{"a":1},"geometry":{"type":"MultiLineString",
     "coordinates":[[[0,0],[1,1]],[[2,2,9],[3,3]]]}},
  {"type":"Feature","geometry":{"type":"GeometryCollection","k":null,"geometries":[
     {"type":"Point","coordinates":[1,2,3]},
     {"type":"Point","coordinates":[1,2]},
     {"type":"MultiPoint","coordinates":[[1,2],[3,4,5]]},
     {"type":"Polygon","coordinates":[[[0,0],[2,0],[2,3],[0,3],[0,0]]]},
     {"type":"MultiPolygon","coordinates":[[[[0,0],[2,0],[2,3],[0,0]]]],"m":"x"},
     {"type":"LineString","coordinates":[[0,0,1,2],[1,1]]}]}}]}
```
-/
def exBig : JVal :=
  let n0 := jn 0 "0" "0"; let n1 := jn 1 "1" "1000"; let n2 := jn 2 "2" "2000"
  let n3 := jn 3 "3" "3000"; let n4 := jn 4 "4" "4000"; let n5 := jn 5 "5" "5000"
  let n6 := jn 6 "6" "6000"; let n9 := jn 9 "9" "9000"
  .obj [mem "name" (strV "fc"), mem "type" (strV "FeatureCollection"), mem "features" (.arr [
    .obj [mem "type" (strV "Feature"), mem "id" n1,
      mem "geometry" (.obj [mem "type" (strV "Polygon"),
        mem "coordinates" (.arr [.arr [.arr [n0, n0, n5], .arr [n4, n0, n6], .arr [n4, n4], .arr [n0, n0, n5]]])])],
    .obj [mem "type" (strV "Feature"),
      mem "geometry" (.obj [mem "type" (strV "Point"), mem "coordinates" (.arr [n1, n2])]),
      mem "properties" (.obj [mem "type" (strV "Circle"), mem "radius" n5, mem "radius_units" (strV "km")])],
    .obj [mem "type" (strV "Feature"), mem "properties" (.obj [mem "a" n1]),
      mem "geometry" (.obj [mem "type" (strV "MultiLineString"),
        mem "coordinates" (.arr [.arr [.arr [n0, n0], .arr [n1, n1]], .arr [.arr [n2, n2, n9], .arr [n3, n3]]])])],
    .obj [mem "type" (strV "Feature"),
      mem "geometry" (.obj [mem "type" (strV "GeometryCollection"), mem "k" .null,
        mem "geometries" (.arr [
          .obj [mem "type" (strV "Point"), mem "coordinates" (.arr [n1, n2, n3])],
          .obj [mem "type" (strV "Point"), mem "coordinates" (.arr [n1, n2])],
          .obj [mem "type" (strV "MultiPoint"), mem "coordinates" (.arr [.arr [n1, n2], .arr [n3, n4, n5]])],
          .obj [mem "type" (strV "Polygon"),
            mem "coordinates" (.arr [.arr [.arr [n0, n0], .arr [n2, n0], .arr [n2, n3], .arr [n0, n3], .arr [n0, n0]]])],
          .obj [mem "type" (strV "MultiPolygon"),
            mem "coordinates" (.arr [.arr [.arr [.arr [n0, n0], .arr [n2, n0], .arr [n2, n3], .arr [n0, n0]]]]),
            mem "m" (strV "x")],
          .obj [mem "type" (strV "LineString"), mem "coordinates" (.arr [.arr [n0, n0, n1, n2], .arr [n1, n1]])]])])]])]

def exBigWritten : String :=
  "{\"type\":\"FeatureCollection\",\"features\":[" ++
  "{\"type\":\"Feature\",\"geometry\":{\"type\":\"Polygon\",\"coordinates\":[[[0,0,5],[4,0,6],[4,4,0],[0,0,5]]]},\"id\":1,\"properties\":{}}," ++
  "{\"type\":\"Feature\",\"geometry\":{\"type\":\"Point\",\"coordinates\":[1,2]},\"properties\":{\"type\":\"Circle\",\"radius\":5000,\"radius_units\":\"m\"}}," ++
  "{\"type\":\"Feature\",\"geometry\":{\"type\":\"MultiLineString\",\"coordinates\":[[[0,0],[1,1]],[[2,2,9],[3,3,0]]]},\"properties\":{\"a\":1}}," ++
  "{\"type\":\"Feature\",\"geometry\":{\"type\":\"GeometryCollection\",\"geometries\":[" ++
    "{\"type\":\"Point\",\"coordinates\":[1,2,3]}," ++
    "{\"type\":\"Point\",\"coordinates\":[1,2]}," ++
    "{\"type\":\"MultiPoint\",\"coordinates\":[[1,2],[3,4,5]]}," ++
    "{\"type\":\"Polygon\",\"coordinates\":[[[0,0],[2,0],[2,3],[0,3],[0,0]]]}," ++
    "{\"type\":\"MultiPolygon\",\"coordinates\":[[[[0,0],[2,0],[2,3],[0,0]]]],\"m\":\"x\"}," ++
    "{\"type\":\"LineString\",\"coordinates\":[[0,0,1,2],[1,1,0,0]]}],\"k\":null},\"properties\":{}}" ++
  "],\"name\":\"fc\"}"

def writeOf' (r : Except PErr Obj) : Option String :=
  match r with
  | .ok x => write x
  | .error _ => none

/-- info: true -/
#guard_msgs in
#eval writeOf' (parseTop exOpts exBig) == some exBigWritten

/-- the hypotheses of the reparse theorem, decided on the result of `parseTop` -/
def hypsB (o : POpts) (d : JVal) : Bool :=
  docOKB d && (match parseTop o d with | .ok x => allFinB x | .error _ => false)

/-- info: true -/
#guard_msgs in
#eval hypsB exOpts exBig


/-- the AST of `exBigWritten` (numbers as `.num true val canon canonK canon`) -/
def exBig' : JVal :=
  let n0 := jn 0 "0" "0"; let n1 := jn 1 "1" "1000"; let n2 := jn 2 "2" "2000"
  let n3 := jn 3 "3" "3000"; let n4 := jn 4 "4" "4000"; let n5 := jn 5 "5" "5000"
  let n6 := jn 6 "6" "6000"; let n9 := jn 9 "9" "9000"; let n5k := jn 5000 "5000" "5000000"
  .obj [mem "type" (strV "FeatureCollection"), mem "features" (.arr [
    .obj [mem "type" (strV "Feature"),
      mem "geometry" (.obj [mem "type" (strV "Polygon"),
        mem "coordinates" (.arr [.arr [.arr [n0, n0, n5], .arr [n4, n0, n6], .arr [n4, n4, n0], .arr [n0, n0, n5]]])]),
      mem "id" n1, mem "properties" (.obj [])],
    .obj [mem "type" (strV "Feature"),
      mem "geometry" (.obj [mem "type" (strV "Point"), mem "coordinates" (.arr [n1, n2])]),
      mem "properties" (.obj [mem "type" (strV "Circle"), mem "radius" n5k, mem "radius_units" (strV "m")])],
    .obj [mem "type" (strV "Feature"),
      mem "geometry" (.obj [mem "type" (strV "MultiLineString"),
        mem "coordinates" (.arr [.arr [.arr [n0, n0], .arr [n1, n1]], .arr [.arr [n2, n2, n9], .arr [n3, n3, n0]]])]),
      mem "properties" (.obj [mem "a" n1])],
    .obj [mem "type" (strV "Feature"),
      mem "geometry" (.obj [mem "type" (strV "GeometryCollection"),
        mem "geometries" (.arr [
          .obj [mem "type" (strV "Point"), mem "coordinates" (.arr [n1, n2, n3])],
          .obj [mem "type" (strV "Point"), mem "coordinates" (.arr [n1, n2])],
          .obj [mem "type" (strV "MultiPoint"), mem "coordinates" (.arr [.arr [n1, n2], .arr [n3, n4, n5]])],
          .obj [mem "type" (strV "Polygon"),
            mem "coordinates" (.arr [.arr [.arr [n0, n0], .arr [n2, n0], .arr [n2, n3], .arr [n0, n3], .arr [n0, n0]]])],
          .obj [mem "type" (strV "MultiPolygon"),
            mem "coordinates" (.arr [.arr [.arr [.arr [n0, n0], .arr [n2, n0], .arr [n2, n3], .arr [n0, n0]]]]),
            mem "m" (strV "x")],
          .obj [mem "type" (strV "LineString"),
            mem "coordinates" (.arr [.arr [n0, n0, n1, n2], .arr [n1, n1, n0, n0]])]]),
        mem "k" .null]),
      mem "properties" (.obj [])]]),
    mem "name" (strV "fc")]

/-- info: true -/
#guard_msgs in
#eval exBig'.render == exBigWritten

def reprOf (r : Except PErr Obj) : String :=
  match r with
  | .ok x => reprStr x
  | .error e => "error " ++ reprStr e

/-- the object parsed back from the written document IS `addProps` of the first one … -/
def exBigCheck : Bool :=
  reprOf (parseTop exOpts exBig') == reprOf ((parseTop exOpts exBig).map addProps)

/-- info: true -/
#guard_msgs in
#eval exBigCheck

/-- … it is not the first one itself (two Features gained `"properties":{}`) … -/
def exBigCheckNe : Bool :=
  reprOf (parseTop exOpts exBig') != reprOf (parseTop exOpts exBig)

/-- info: true -/
#guard_msgs in
#eval exBigCheckNe

-- … and writing it gives the same bytes
/-- info: true -/
#guard_msgs in
#eval writeOf' (parseTop exOpts exBig') == some exBigWritten

end Geo
