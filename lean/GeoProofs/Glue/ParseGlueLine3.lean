/-
  GeoProofs.Glue.ParseGlueLine3 — generated parseJSONLineStringCoords / parseJSONLineString = the
  model's parseLineCoords / the "LineString" arm of parse.
-/
import GeoProofs.Glue.ParseGlueLine2

set_option linter.unusedSimpArgs false

namespace Geo.PGlue
open Geo Geo.PGen

theorem lineCoords_some (rec : RecT) (keys : Option GKeys) (opts : Option GOpts) (rc : JVal) :
    match parseLineCoords rc with
    | .ok (ps, ex) =>
      (PGen.parseJSONLineStringCoords (mops rec) keys (some rc) opts).1.map toPos = ps ∧
      (PGen.parseJSONLineStringCoords (mops rec) keys (some rc) opts).2.1.map exM = ex ∧
      (PGen.parseJSONLineStringCoords (mops rec) keys (some rc) opts).2.2 = none
    | .error e => e = .coordsInvalid ∧
      (PGen.parseJSONLineStringCoords (mops rec) keys (some rc) opts).2.2 = some .errCoordinatesInvalid := by
  have hf := line_fold rec rc.elems (forEach (some rc)) (forEach_vals rc) [] none 0 [] {} ⟨rfl, rfl, rfl⟩
  unfold parseLineCoords
  unfold PGen.parseJSONLineStringCoords
  simp only [m_gjsonResultExists, m_gjsonResultForEach, Option.isSome_some, Bool.not_true, Bool.false_eq_true, if_false]
  cases hl : parseLineCoordsLoop rc.elems [] {} with
  | error e =>
    rw [hl] at hf
    obtain ⟨he, h1⟩ := hf
    simp [bind, Except.bind, he, h1]
  | ok r =>
    obtain ⟨ps, st⟩ := r
    rw [hl] at hf
    obtain ⟨c', e', d', hs, hrel⟩ := hf
    simp [bind, Except.bind, pure, Except.pure, hs, hrel.acc_eq, hrel.ex_eq]

theorem lineCoords_none (rec : RecT) (gk : GKeys) (opts : Option GOpts) :
    PGen.parseJSONLineStringCoords (mops rec) (some gk) none opts =
      match gk.rCoordinates with
      | none => ([], none, some .errCoordinatesMissing)
      | some rc => if !rc.isArray then ([], none, some .errCoordinatesInvalid)
                   else PGen.parseJSONLineStringCoords (mops rec) (some gk) (some rc) opts := by
  cases h : gk.rCoordinates with
  | none => unfold PGen.parseJSONLineStringCoords; simp [h]
  | some rc =>
    cases hb : rc.isArray with
    | false => unfold PGen.parseJSONLineStringCoords; simp [h, hb]
    | true => simp only [Bool.not_true, Bool.false_eq_true, if_false]; unfold PGen.parseJSONLineStringCoords; simp [h, hb]

#print axioms lineCoords_some

theorem toGeometryOpts_eq (rec : RecT) (o : POpts) :
    PGen.toGeometryOpts (mops rec) (some (optsG o)) = (o.indexKind, (o.indexGeometry : Int)) := by
  unfold PGen.toGeometryOpts
  simp [optsG]

/-- the "LineString" arm of the model's parse -/
def mLineString (o : POpts) (k : Keys) : Except PErr Obj :=
  match reqArray k.coordinates .coordsMissing .coordsInvalid with
  | .error e => .error e
  | .ok rc =>
    match parseLineCoords rc with
    | .error e => .error e
    | .ok (ps, ex) =>
      if ps.length < 2 then .error .coordsInvalid
      else
        let ob : Obj := .lineString (mkLine o ps) ps (withMembers ex k)
        if o.requireValid && !ob.valid then .error .dataInvalid else .ok ob

theorem lineString_eq (rec : RecT) (gk : GKeys) (o : POpts) (k : Keys) (hk : KeysRel gk k) :
    Agree (PGen.parseJSONLineString (mops rec) (some gk) (some (optsG o))) (mLineString o k) := by
  unfold PGen.parseJSONLineString mLineString reqArray
  simp only [m_zeroGjsonResult, m_nilObject, m_lineStringValid, m_objectOfLineString, m_zeroParseOptions, deref_some,
    lineCoords_none, hk.coords, toGeometryOpts_eq, m_geometryNewLine, m_zeroGeometryLine]
  cases hc : k.coordinates with
  | none => simp [Agree, errG]
  | some rc =>
    cases hb : rc.isArray with
    | false => simp [Agree, errG, hb]
    | true =>
      simp only [hb, Bool.not_true, Bool.false_eq_true, if_false, if_true]
      have h := lineCoords_some rec (some gk) (some (optsG o)) rc
      generalize PGen.parseJSONLineStringCoords (mops rec) (some gk) (some rc) (some (optsG o)) = G at h ⊢
      cases hp : parseLineCoords rc with
      | error e =>
        rw [hp] at h; obtain ⟨he, hg⟩ := h
        simp [Agree, errG, hg, he]
      | ok pe =>
        obtain ⟨ps, ex⟩ := pe
        rw [hp] at h; obtain ⟨h1, h2, h3⟩ := h
        have hb := bbox_eq rec G.2.1 gk (some (optsG o)) k hk
        generalize PGen.parseBBoxAndExtras (mops rec) G.2.1 (some gk) (some (optsG o)) = B at hb ⊢
        obtain ⟨hb1, hb2⟩ := hb
        rw [h2] at hb2
        have hlen : ps.length = G.1.length := by rw [← h1]; simp
        have hnl : newLine G.1 (some (o.indexKind, (o.indexGeometry : Int))) = (mkLine o ps, ps) := by
          simp [newLine, mkLine, h1]
        have ho : (optsG o).requireValid = o.requireValid := rfl
        simp only [h3, hb1, hb2, hnl, ho, Option.isNone_none, Bool.not_true, Bool.false_eq_true, if_false, Int.ofNat_eq_natCast]
        by_cases h2' : ps.length < 2
        · have : ((G.1.length : Nat) : Int) < 2 := by rw [← hlen]; omega
          simp [Agree, errG, h2', this]
        · have : ¬ (((G.1.length : Nat) : Int) < 2) := by rw [← hlen]; omega
          simp only [h2', this, decide_false, Bool.false_eq_true, if_false]
          generalize Obj.lineString (mkLine o ps) ps (withMembers ex k) = ob
          cases o.requireValid <;> cases ob.valid <;> simp [Agree, errG]

#print axioms lineString_eq

end Geo.PGlue
