/-
  GeoProofs.Glue.ParseGlueOK2 — what scanKeys collects are values of members of the object; finiteness of
  the positions the polygon reader delivers on a document without overflowing literals.
-/
import GeoProofs.Glue.ParseGlueFeature

set_option linter.unusedSimpArgs false

namespace Geo.PGlue
open Geo Geo.PGen

/-- what scanKeys collects are values of members -/
theorem scan_mem (ms : List Mem) : ∀ (k0 : Keys),
    (∀ x, (ms.foldl scanStep k0).coordinates = some x → k0.coordinates = some x ∨ ∃ m ∈ ms, m.2.2 = x) ∧
    (∀ x, (ms.foldl scanStep k0).geometries = some x → k0.geometries = some x ∨ ∃ m ∈ ms, m.2.2 = x) ∧
    (∀ x, (ms.foldl scanStep k0).geometry = some x → k0.geometry = some x ∨ ∃ m ∈ ms, m.2.2 = x) ∧
    (∀ x, (ms.foldl scanStep k0).features = some x → k0.features = some x ∨ ∃ m ∈ ms, m.2.2 = x) ∧
    (∀ f ∈ (ms.foldl scanStep k0).foreign, f ∈ k0.foreign ∨ f ∈ ms) := by
  induction ms with
  | nil => intro k0; simp
  | cons m t ih =>
    intro k0
    obtain ⟨h1, h2, h3, h4, h5⟩ := ih (scanStep k0 m)
    have hs : ∀ x, ((scanStep k0 m).coordinates = some x → k0.coordinates = some x ∨ m.2.2 = x) ∧
        ((scanStep k0 m).geometries = some x → k0.geometries = some x ∨ m.2.2 = x) ∧
        ((scanStep k0 m).geometry = some x → k0.geometry = some x ∨ m.2.2 = x) ∧
        ((scanStep k0 m).features = some x → k0.features = some x ∨ m.2.2 = x) := by
      intro x; unfold scanStep; split <;> simp_all
    have hfo : ∀ f ∈ (scanStep k0 m).foreign, f ∈ k0.foreign ∨ f = m := by
      intro f; unfold scanStep; split <;> simp_all
    simp only [List.foldl_cons, List.mem_cons]
    refine ⟨?_, ?_, ?_, ?_, ?_⟩
    · intro x hx; rcases h1 x hx with h | ⟨m', hm', e⟩
      · rcases (hs x).1 h with h | h
        · exact Or.inl h
        · exact Or.inr ⟨m, Or.inl rfl, h⟩
      · exact Or.inr ⟨m', Or.inr hm', e⟩
    · intro x hx; rcases h2 x hx with h | ⟨m', hm', e⟩
      · rcases (hs x).2.1 h with h | h
        · exact Or.inl h
        · exact Or.inr ⟨m, Or.inl rfl, h⟩
      · exact Or.inr ⟨m', Or.inr hm', e⟩
    · intro x hx; rcases h3 x hx with h | ⟨m', hm', e⟩
      · rcases (hs x).2.2.1 h with h | h
        · exact Or.inl h
        · exact Or.inr ⟨m, Or.inl rfl, h⟩
      · exact Or.inr ⟨m', Or.inr hm', e⟩
    · intro x hx; rcases h4 x hx with h | ⟨m', hm', e⟩
      · rcases (hs x).2.2.2 h with h | h
        · exact Or.inl h
        · exact Or.inr ⟨m, Or.inl rfl, h⟩
      · exact Or.inr ⟨m', Or.inr hm', e⟩
    · intro f hf; rcases h5 f hf with h | h
      · rcases hfo f h with h | h
        · exact Or.inl h
        · exact Or.inr (Or.inl h)
      · exact Or.inr (Or.inr h)

theorem takeNums_fin : ∀ (vs : List JVal) (c : Nat) (nums : List Ord), (∀ v ∈ vs, JOK v = true) →
    takeNums false vs c = .ok nums → ∀ n ∈ nums, n.fin = true := by
  intro vs
  induction vs with
  | nil => intro c nums _ h; simp [takeNums] at h; subst h; simp
  | cons v vs ih =>
    intro c nums hJ h
    have hv := hJ v (by simp)
    by_cases h4 : c = 4
    · cases v <;> simp [takeNums, h4] at h <;> subst h <;> simp
    · have hne : (c == 4) = false := by simpa using h4
      cases v with
      | num fin val canon canonK raw =>
        simp only [takeNums, hne, Bool.false_eq_true, if_false, bind, Except.bind] at h
        cases hr : takeNums false vs (c + 1) with
        | error e => rw [hr] at h; simp at h
        | ok rest =>
          rw [hr] at h
          simp [pure, Except.pure] at h
          subst h
          have hf : fin = true := by simp [JOK] at hv; exact hv.1
          intro n hn
          rcases List.mem_cons.mp hn with rfl | h'
          · exact hf
          · exact ih (c + 1) rest (fun x hx => hJ x (by simp [hx])) hr n h'
      | null => simp [takeNums, hne] at h
      | tru => simp [takeNums, hne] at h
      | fls => simp [takeNums, hne] at h
      | str _ _ => simp [takeNums, hne] at h
      | arr _ => simp [takeNums, hne] at h
      | obj _ => simp [takeNums, hne] at h

theorem ringLoop_fin (ri : Nat) : ∀ (vs : List JVal) (acc : List Pos) (st : DimSt) (acc' : List Pos) (st' : DimSt),
    (∀ v ∈ vs, JOK v = true) → (∀ p ∈ acc, p.fin = true) → parseRingLoop ri vs acc st = .ok (acc', st') → ∀ p ∈ acc', p.fin = true := by
  intro vs
  induction vs with
  | nil => intro acc st acc' st' _ ha h; simp [parseRingLoop] at h; obtain ⟨rfl, _⟩ := h; exact ha
  | cons v vs ih =>
    intro acc st acc' st' hJ ha h
    rw [ringLoop_cons] at h
    cases hm : mRingStep ri v acc st with
    | error e => rw [hm] at h; simp at h
    | ok r =>
      obtain ⟨a1, s1⟩ := r
      rw [hm] at h
      simp only at h
      refine ih a1 s1 acc' st' (fun x hx => hJ x (by simp [hx])) ?_ h
      unfold mRingStep at hm
      simp only [bind, Except.bind] at hm
      cases hn : takeNums false v.elems 0 with
      | error e => rw [hn] at hm; simp at hm
      | ok nums =>
        rw [hn] at hm
        have hfin := takeNums_fin v.elems 0 nums (JOK_elems v (hJ v (by simp))) hn
        rcases nums with _ | ⟨x, _ | ⟨y, r⟩⟩
        · simp [throw, throwThe, MonadExceptOf.throw] at hm
        · simp [throw, throwThe, MonadExceptOf.throw] at hm
        · simp only at hm
          cases hd : dimStep st (x :: y :: r) (ri == 0 && (acc ++ [mkPos x y]).length == 1) with
          | error e => rw [hd] at hm; simp at hm
          | ok s2 =>
            rw [hd] at hm
            simp [pure, Except.pure] at hm
            obtain ⟨rfl, _⟩ := hm
            intro p hp
            rcases List.mem_append.mp hp with h' | h'
            · exact ha p h'
            · simp at h'; subst h'
              simp [mkPos, hfin x (by simp), hfin y (by simp)]

theorem polyLoop_fin : ∀ (vs : List JVal) (acc : List (List Pos)) (st : DimSt) (acc' : List (List Pos)) (st' : DimSt),
    (∀ v ∈ vs, JOK v = true) → (∀ r ∈ acc, ∀ p ∈ r, p.fin = true) → parsePolyCoordsLoop vs acc st = .ok (acc', st') →
    ∀ r ∈ acc', ∀ p ∈ r, p.fin = true := by
  intro vs
  induction vs with
  | nil => intro acc st acc' st' _ ha h; simp [parsePolyCoordsLoop] at h; obtain ⟨rfl, _⟩ := h; exact ha
  | cons v vs ih =>
    intro acc st acc' st' hJ ha h
    rw [parsePolyCoordsLoop] at h
    cases hv : v.isArray
    · simp [hv, bind, Except.bind, throw, throwThe, MonadExceptOf.throw] at h
    · simp only [hv, Bool.not_true, Bool.false_eq_true, if_false, bind, Except.bind] at h
      cases hr : parseRingLoop acc.length v.elems [] st with
      | error e => rw [hr] at h; simp at h
      | ok r =>
        obtain ⟨ring, s1⟩ := r
        rw [hr] at h
        simp only at h
        have hring := ringLoop_fin acc.length v.elems [] st ring s1 (JOK_elems v (hJ v (by simp))) (by simp) hr
        refine ih (acc ++ [ring]) s1 acc' st' (fun x hx => hJ x (by simp [hx])) ?_ h
        intro r' hr'
        rcases List.mem_append.mp hr' with h' | h'
        · exact ha r' h'
        · simp at h'; subst h'; exact hring

/-- (2): the positions the polygon reader delivers are finite on a value without overflowing literals -/
theorem polyFinV_of_JOK (v : JVal) (h : JOK v = true) : PolyFinV v := by
  intro rings ex hp
  unfold parsePolyCoords at hp
  simp only [bind, Except.bind] at hp
  cases hl : parsePolyCoordsLoop v.elems [] {} with
  | error e => rw [hl] at hp; simp at hp
  | ok r =>
    obtain ⟨rs, st⟩ := r
    rw [hl] at hp
    simp [pure, Except.pure] at hp
    obtain ⟨rfl, _⟩ := hp
    exact polyLoop_fin v.elems [] {} rs st (JOK_elems v h) (by simp) hl

#print axioms polyFinV_of_JOK

end Geo.PGlue
