/-
  GeoProofs.CoversSpec.FirstHit — walking from a point off an edge list towards a point on it,
  there is a first point of the edge list.
-/
import GeoProofs.CoversSpec.Sep
namespace Geo
namespace CS
open Jordan

/-- the parameter along a non-degenerate segment is determined by the point -/
theorem param_inj {p t : Pt} (hpt : p ≠ t) {s s' : Rat}
    (hx : p.x + s * (t.x - p.x) = p.x + s' * (t.x - p.x))
    (hy : p.y + s * (t.y - p.y) = p.y + s' * (t.y - p.y)) : s = s' := by
  by_contra hne
  have hd : s - s' ≠ 0 := sub_ne_zero.2 hne
  have h1 : (s - s') * (t.x - p.x) = 0 := by linear_combination hx
  have h2 : (s - s') * (t.y - p.y) = 0 := by linear_combination hy
  have e1 := (mul_eq_zero.1 h1).resolve_left hd
  have e2 := (mul_eq_zero.1 h2).resolve_left hd
  exact hpt ((K.pt_eq_iff _ _).2 ⟨by linarith, by linarith⟩)

theorem onSeg_antisymm {p t x : Pt} (h1 : OnSeg p t x) (h2 : OnSeg p x t) : x = t := by
  obtain ⟨-, a1, a2, a3, a4⟩ := h1
  obtain ⟨-, b1, b2, b3, b4⟩ := h2
  refine (K.pt_eq_iff _ _).2 ⟨?_, ?_⟩
  · rcases le_total p.x t.x with h | h
    · rw [min_eq_left h] at a1; rw [max_eq_right a1] at b2; rw [max_eq_right h] at a2
      exact le_antisymm a2 b2
    · rw [max_eq_left h] at a2; rw [min_eq_right a2] at b1; rw [min_eq_right h] at a1
      exact le_antisymm b1 a1
  · rcases le_total p.y t.y with h | h
    · rw [min_eq_left h] at a3; rw [max_eq_right a3] at b4; rw [max_eq_right h] at a4
      exact le_antisymm a4 b4
    · rw [max_eq_left h] at a4; rw [min_eq_right a4] at b3; rw [min_eq_right h] at a3
      exact le_antisymm b3 a3

/-- `cd` on the line `pt`, parameters `g ≤ g'`: the end `c` is the nearest common point -/
theorem nearest_collinear {p t c d : Pt} {g g' : Rat} (hpt : p ≠ t)
    (hcx : c.x = p.x + g * (t.x - p.x)) (hcy : c.y = p.y + g * (t.y - p.y))
    (hdx : d.x = p.x + g' * (t.x - p.x)) (hdy : d.y = p.y + g' * (t.y - p.y)) (hgg : g ≤ g')
    (hp : ¬ OnSeg c d p) (hm : ∃ x, OnSeg p t x ∧ OnSeg c d x) :
    ∃ xs, OnSeg p t xs ∧ OnSeg c d xs ∧ ∀ x, OnSeg p xs x → OnSeg c d x → x = xs := by
  obtain ⟨x, hx1, hx2⟩ := hm
  obtain ⟨s, hs0, hs1, sx, sy⟩ := (onSeg_iff_param p t x).1 hx1
  obtain ⟨u, hu0, hu1, ux, uy⟩ := (onSeg_iff_param c d x).1 hx2
  have hs : s = g + u * (g' - g) :=
    param_inj hpt (by rw [← sx, ux, hcx, hdx]; ring) (by rw [← sy, uy, hcy, hdy]; ring)
  have hsg' : s ≤ g' := by rw [hs]; nlinarith [mul_nonneg (sub_nonneg.2 hu1) (sub_nonneg.2 hgg)]
  have hg0 : 0 < g := by
    by_contra hcon
    push Not at hcon
    apply hp
    by_cases hlt : g < g'
    · have hpos : 0 < g' - g := sub_pos.2 hlt
      refine K.onSeg_of_param (t := -g / (g' - g)) (div_nonneg (by linarith) hpos.le)
        ((div_le_one hpos).2 (by linarith)) ?_ ?_
      · rw [hcx, hdx]; field_simp; ring
      · rw [hcy, hdy]; field_simp; ring
    · have e : g = 0 := by linarith
      have hpc : p = c := (K.pt_eq_iff _ _).2 ⟨by rw [hcx, e]; ring, by rw [hcy, e]; ring⟩
      rw [hpc]; exact K.onSeg_left _ _
  have hgs : g ≤ s := by rw [hs]; nlinarith [mul_nonneg hu0 (sub_nonneg.2 hgg)]
  refine ⟨c, K.onSeg_of_param hg0.le (le_trans hgs hs1) hcx hcy, K.onSeg_left _ _, ?_⟩
  intro x' h1 h2
  obtain ⟨v, hv0, hv1, vx, vy⟩ := (onSeg_iff_param p c x').1 h1
  obtain ⟨w, hw0, hw1, wx, wy⟩ := (onSeg_iff_param c d x').1 h2
  have e : v * g = g + w * (g' - g) :=
    param_inj hpt (by rw [← sub_eq_zero]; rw [vx, hcx, hdx] at wx; linear_combination wx)
      (by rw [← sub_eq_zero]; rw [vy, hcy, hdy] at wy; linear_combination wy)
  have hv : v = 1 := by
    have : (1 - v) * g ≤ 0 := by nlinarith [mul_nonneg hw0 (sub_nonneg.2 hgg)]
    have : 1 - v ≤ 0 := by
      by_contra hcon; push Not at hcon
      nlinarith [mul_pos hcon hg0]
    linarith
  exact (K.pt_eq_iff _ _).2 ⟨by rw [vx, hv]; ring, by rw [vy, hv]; ring⟩
/-- nearest point: if the segment pt meets the segment e (p not on e) there is a common point x* such that pt[p,x*] meets e only in x* -/
theorem nearest_on_edge {p t : Pt} {e : Pt × Pt} (hp : ¬ OnSeg e.1 e.2 p) (hm : ∃ x, OnSeg p t x ∧ OnSeg e.1 e.2 x) :
    ∃ xs, OnSeg p t xs ∧ OnSeg e.1 e.2 xs ∧ ∀ x, OnSeg p xs x → OnSeg e.1 e.2 x → x = xs := by
  obtain ⟨c, d⟩ := e
  simp only at hp hm ⊢
  by_cases hcol : Spec.cross p t c = 0 ∧ Spec.cross p t d = 0
  · obtain ⟨h1, h2⟩ := hcol
    have hpt : p ≠ t := by
      rintro rfl
      obtain ⟨x, hx1, hx2⟩ := hm
      rw [K.onSeg_degenerate.1 hx1] at hx2
      exact hp hx2
    obtain ⟨g, hcx, hcy⟩ := K.line_param hpt h1
    obtain ⟨g', hdx, hdy⟩ := K.line_param hpt h2
    rcases le_total g g' with hgg | hgg
    · exact nearest_collinear hpt hcx hcy hdx hdy hgg hp hm
    · obtain ⟨xs, a1, a2, a3⟩ := nearest_collinear hpt hdx hdy hcx hcy hgg
        (fun h => hp ((K.onSeg_symm _ _ _).1 h))
        (by obtain ⟨x, hx1, hx2⟩ := hm; exact ⟨x, hx1, (K.onSeg_symm _ _ _).1 hx2⟩)
      exact ⟨xs, a1, (K.onSeg_symm _ _ _).1 a2, fun x h1 h2 => a3 x h1 ((K.onSeg_symm _ _ _).1 h2)⟩
  · obtain ⟨x, hx1, hx2⟩ := hm
    refine ⟨x, hx1, hx2, ?_⟩
    intro x' h1 h2
    have h1' : OnSeg p t x' := K.onSeg_convex (K.onSeg_left p t) hx1 h1
    obtain ⟨u, hu0, hu1, ux, uy⟩ := (onSeg_iff_param c d x).1 hx2
    obtain ⟨w, hw0, hw1, wx, wy⟩ := (onSeg_iff_param c d x').1 h2
    have ex : Spec.cross p t x = (1 - u) * Spec.cross p t c + u * Spec.cross p t d := by
      simp only [K.cross_def]; rw [ux, uy]; ring
    have ex' : Spec.cross p t x' = (1 - w) * Spec.cross p t c + w * Spec.cross p t d := by
      simp only [K.cross_def]; rw [wx, wy]; ring
    rw [hx1.1] at ex
    rw [h1'.1] at ex'
    have huw : (u - w) * (Spec.cross p t d - Spec.cross p t c) = 0 := by linear_combination ex' - ex
    rcases mul_eq_zero.1 huw with h0 | h0
    · have : w = u := by linarith
      exact (K.pt_eq_iff _ _).2 ⟨by rw [wx, ux, this], by rw [wy, uy, this]⟩
    · exfalso
      have hd : Spec.cross p t d = Spec.cross p t c := by linarith
      rw [hd] at ex
      have hc0 : Spec.cross p t c = 0 := by linarith
      exact hcol ⟨hc0, hd ▸ hc0⟩
theorem first_hit_aux (es : List (Pt × Pt)) (p : Pt) (hp : Off es p) :
    ∀ (k : Nat) (L : List (Pt × Pt)) (t : Pt), L.length ≤ k → ¬ Off es t →
      (∀ e ∈ es, e ∉ L → ∀ x, OnSeg p t x → OnSeg e.1 e.2 x → x = t) →
      ∃ z, OnSeg p t z ∧ ¬ Off es z ∧ Sees es p z := by
  intro k
  induction k with
  | zero =>
    intro L t hL ht hL'
    have : L = [] := List.length_eq_zero_iff.1 (Nat.le_zero.1 hL)
    subst this
    exact ⟨t, K.onSeg_right _ _, ht, fun e he x h1 h2 => hL' e he (by simp) x h1 h2⟩
  | succ k ih =>
    intro L t hL ht hL'
    by_cases hs : Sees es p t
    · exact ⟨t, K.onSeg_right _ _, ht, hs⟩
    unfold Sees at hs
    push Not at hs
    obtain ⟨e, he, x, hx1, hx2, hxt⟩ := hs
    have heL : e ∈ L := by
      by_contra hcon
      exact hxt (hL' e he hcon x hx1 hx2)
    obtain ⟨xs, a1, a2, a3⟩ := nearest_on_edge (hp e he) ⟨x, hx1, hx2⟩
    have hlen : (L.filter (fun e' => decide (e' ≠ e))).length ≤ k := by
      have : (L.filter (fun e' => decide (e' ≠ e))).length < L.length :=
        List.length_filter_lt_length_iff_exists.2 ⟨e, heL, by simp⟩
      omega
    obtain ⟨z, z1, z2, z3⟩ := ih (L.filter (fun e' => decide (e' ≠ e))) xs hlen
      (fun hoff => hoff e he a2) (by
        intro e' he' hnot y hy1 hy2
        by_cases hee : e' = e
        · subst hee; exact a3 y hy1 hy2
        · have hnL : e' ∉ L := fun hin => hnot (List.mem_filter.2 ⟨hin, by simpa using hee⟩)
          have hyt : y = t := hL' e' he' hnL y (K.onSeg_convex (K.onSeg_left p t) a1 hy1) hy2
          rw [hyt] at hy1 ⊢
          exact (onSeg_antisymm a1 hy1).symm)
    exact ⟨z, K.onSeg_convex (K.onSeg_left p t) a1 z1, z2, z3⟩

/-- first hit: from a point p off the edge list towards a point t on it, there is a first point of the edge list -/
theorem first_hit (es : List (Pt × Pt)) (p t : Pt) (hp : Off es p) (ht : ¬ Off es t) :
    ∃ z, OnSeg p t z ∧ ¬ Off es z ∧ Sees es p z :=
  first_hit_aux es p hp es.length es t le_rfl ht (fun _ he hne => absurd he hne)

end CS
end Geo
