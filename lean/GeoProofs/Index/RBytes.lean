/-
  GeoProofs.Index.RBytes — byte level of the R-tree: `RTree.compress` produces an encoding
  (`REnc`) of the tree, and `rSearchBytes` on any array holding such an encoding returns
  `some` of what the tree-level search returns (so it never reads out of range).

  Remark on "entry counts ≤ 255": in the model the count cell is a `Nat` array element and is
  not truncated, so no bound on the node fan-out is needed for exactness here.  The bound
  itself (1 ≤ count ≤ 16 for every node of a built tree, so the Go `byte(count)` cell and the
  fixed `[17]` arrays are faithful) is `rBuild_small`/`rBuild_tight` in RTreeSub.lean; it needs
  `SignExactSub` (for an arbitrary `sub` it is false: see the finding in RTree.lean).  What the
  byte level needs: item numbers < 2^32, total size < 2^32 (child addresses are 4 bytes),
  `dec ∘ enc = id`, `|enc x| = 8`, and all leaves at depth `height`.
-/
import GeoProofs.Index.RTree
import GeoProofs.Index.RTreeSub
import GeoProofs.Index.Codec

namespace Geo
set_option linter.unusedSectionVars false

section
variable {α : Type} [Carrier α]
variable (enc : α → List Nat) (dec : List Nat → α)

/-! ## the encoding relation -/

def boxBytes (b : GBox α) : List Nat := enc b.minx ++ enc b.miny ++ enc b.maxx ++ enc b.maxy

/-- item width of a leaf: `max 1 (numBytes item)` over its items -/
def leafWidth (es : List (GBox α × Nat)) : Nat := es.foldl (fun w e => max w (numBytes e.2)) 1

mutual
/-- `data` holds at `addr` an encoding of node `n` with rect `nb` (children anywhere at
    addresses `≥` their mark, `< 2^32`). -/
def REnc (data : Array Nat) : Nat → GBox α → RNode α → Prop
  | addr, nb, .leaf es =>
    HasBytes data addr
      (boxBytes enc nb ++ [es.length, leafWidth es] ++ encItems (es.map (·.2)) (leafWidth es))
  | addr, nb, .inner es =>
    HasBytes data addr (boxBytes enc nb ++ [es.length]) ∧
      REncL data (addr + (boxBytes enc nb).length + 1) es
def REncL (data : Array Nat) : Nat → List (GBox α × RNode α) → Prop
  | _, [] => True
  | maddr, (cb, cn) :: rest =>
    (∃ a, a < 2 ^ 32 ∧ maddr + 4 ≤ a ∧ HasBytes data maddr (leBytes a 4) ∧ REnc data a cb cn) ∧
      REncL data (maddr + 4) rest
end

theorem readBytes_of_hasBytes {data : Array Nat} {addr : Nat} {bs : List Nat}
    (h : HasBytes data addr bs) : readBytes data addr bs.length = some bs := by
  induction bs generalizing addr with
  | nil => rfl
  | cons b bs ih =>
    rw [hasBytes_cons] at h
    simp only [List.length_cons, readBytes, h.1, ih h.2]
    rfl

theorem leafWidth_spec_aux (es : List (GBox α × Nat)) (w0 : Nat) (hw0 : w0 = 1 ∨ w0 = 2 ∨ w0 = 4) :
    (es.foldl (fun w e => max w (numBytes e.2)) w0 = 1 ∨
      es.foldl (fun w e => max w (numBytes e.2)) w0 = 2 ∨
      es.foldl (fun w e => max w (numBytes e.2)) w0 = 4) ∧
    w0 ≤ es.foldl (fun w e => max w (numBytes e.2)) w0 ∧
    ∀ e ∈ es, numBytes e.2 ≤ es.foldl (fun w e => max w (numBytes e.2)) w0 := by
  induction es generalizing w0 with
  | nil => simp [hw0]
  | cons e rest ih =>
    have hm : max w0 (numBytes e.2) = 1 ∨ max w0 (numBytes e.2) = 2 ∨ max w0 (numBytes e.2) = 4 := by
      rcases hw0 with h | h | h <;> rcases numBytes_cases e.2 with h' | h' | h' <;> rw [h, h'] <;> simp
    obtain ⟨h1, h2, h3⟩ := ih _ hm
    simp only [List.foldl_cons]
    refine ⟨h1, by omega, ?_⟩
    intro x hx
    rcases List.mem_cons.1 hx with rfl | hx
    · omega
    · exact h3 x hx

theorem leafWidth_cases (es : List (GBox α × Nat)) :
    leafWidth es = 1 ∨ leafWidth es = 2 ∨ leafWidth es = 4 :=
  (leafWidth_spec_aux es 1 (Or.inl rfl)).1

theorem numBytes_le_leafWidth (es : List (GBox α × Nat)) :
    ∀ e ∈ es, numBytes e.2 ≤ leafWidth es :=
  (leafWidth_spec_aux es 1 (Or.inl rfl)).2.2

theorem REncL_nil (data : Array Nat) (maddr : Nat) : REncL enc data maddr [] := by
  rw [REncL]; trivial

theorem REncL_cons (data : Array Nat) (maddr : Nat) (cb : GBox α) (cn : RNode α)
    (rest : List (GBox α × RNode α)) :
    REncL enc data maddr ((cb, cn) :: rest) ↔
      (∃ a, a < 2 ^ 32 ∧ maddr + 4 ≤ a ∧ HasBytes data maddr (leBytes a 4) ∧ REnc enc data a cb cn) ∧
        REncL enc data (maddr + 4) rest := by
  rw [REncL]

theorem boxBytes_length (hlen : ∀ x, (enc x).length = 8) (b : GBox α) :
    (boxBytes enc b).length = 32 := by
  simp [boxBytes, hlen]

/-- reading the node rect -/
theorem readBox_of_hasBytes (hlen : ∀ x, (enc x).length = 8) {data : Array Nat} {addr : Nat}
    {b : GBox α} (h : HasBytes data addr (boxBytes enc b)) :
    readBytes data addr 8 = some (enc b.minx) ∧ readBytes data (addr + 8) 8 = some (enc b.miny) ∧
    readBytes data (addr + 16) 8 = some (enc b.maxx) ∧ readBytes data (addr + 24) 8 = some (enc b.maxy) := by
  unfold boxBytes at h
  simp only [hasBytes_append, List.length_append, hlen] at h
  obtain ⟨⟨⟨h1, h2⟩, h3⟩, h4⟩ := h
  have r1 := readBytes_of_hasBytes h1
  have r2 := readBytes_of_hasBytes h2
  have r3 := readBytes_of_hasBytes h3
  have r4 := readBytes_of_hasBytes h4
  rw [hlen] at r1 r2 r3 r4
  exact ⟨r1, r2, r3, r4⟩

theorem rnSearchBytes_go_of_REncL (boxOf : Nat → GBox α) (q : GBox α) {σ : Type}
    (f : σ → Nat → σ × Bool) (data : Array Nat) (h : Nat) (es : List (GBox α × RNode α))
    (ih : ∀ e ∈ es, ∀ addr s, REnc enc data addr e.1 e.2 →
      rnSearchBytes dec boxOf q f data h addr s = some (rSearchTree boxOf q f e.1 e.2 s)) :
    ∀ maddr s, REncL enc data maddr es →
      rnSearchBytes.go dec boxOf q f data h es.length maddr s =
        some (rSearchTree.go boxOf q f es s) := by
  induction es with
  | nil => intro maddr s _; rw [rSearchTree.go, List.length_nil, rnSearchBytes.go]
  | cons e rest ihr =>
    intro maddr s he
    obtain ⟨cb, cn⟩ := e
    rw [REncL_cons] at he
    obtain ⟨⟨a, ha, _, hm, hc⟩, hrest⟩ := he
    have hread : readLE data maddr 4 = some a := readLE_of_hasBytes hm (by simpa using ha)
    have hchild := ih (cb, cn) (by simp) a s hc
    have hgo := ihr (fun e he => ih e (by simp [he]))
    rw [List.length_cons, rnSearchBytes.go, rSearchTree.go]
    simp only [hread, hchild, Option.bind_eq_bind, Option.bind_some]
    rcases rSearchTree boxOf q f cb cn s with ⟨s', c⟩
    cases c
    · simp
    · simp only [↓reduceIte]
      exact hgo (maddr + 4) s' hrest

/-- searching an encoded node never reads out of range and returns what the tree search returns. -/
theorem rnSearchBytes_of_REnc (henc : ∀ x, dec (enc x) = x) (hlen : ∀ x, (enc x).length = 8)
    (boxOf : Nat → GBox α) (q : GBox α) {σ : Type} (f : σ → Nat → σ × Bool) (data : Array Nat)
    (n : RNode α) :
    ∀ (nb : GBox α) (h : Nat) (addr : Nat) (s : σ), REnc enc data addr nb n → n.HasHeight h →
      (∀ i ∈ n.allItems, i < 2 ^ 32) →
      rnSearchBytes dec boxOf q f data h addr s = some (rSearchTree boxOf q f nb n s) := by
  induction n using RNode.ind with
  | leaf es =>
    intro nb h addr s he hh hit
    rw [HasHeight_leaf] at hh
    subst hh
    rw [REnc] at he
    simp only [hasBytes_append, boxBytes_length enc hlen, List.length_append, List.length_cons,
      List.length_nil, hasBytes_cons, hasBytes_nil, and_true] at he
    obtain ⟨⟨hb, hcnt, hw⟩, hitems⟩ := he
    obtain ⟨r1, r2, r3, r4⟩ := readBox_of_hasBytes enc hlen hb
    rw [rnSearchBytes, rSearchTree]
    simp only [r1, r2, r3, r4, henc, Option.bind_eq_bind, Option.bind_some]
    cases hq : q.meets nb
    · simp
    · simp only [Bool.not_true, Bool.false_eq_true, ↓reduceIte, hcnt, hw, Option.bind_some]
      have := visitItemsBytes_of_hasBytes boxOf q f (leafWidth_cases es) (es.map (·.2))
        (addr + 32 + 1 + 1) s ?_ hitems
      · rw [List.length_map] at this
        exact this
      · intro it hmem
        obtain ⟨e, he, rfl⟩ := List.mem_map.1 hmem
        exact lt_pow_of_numBytes_le (leafWidth_cases es) (numBytes_le_leafWidth es e he)
          (hit e.2 (by rw [RNode.allItems]; exact List.mem_map.2 ⟨e, he, rfl⟩))
  | inner es ih =>
    intro nb h addr s he hh hit
    rw [HasHeight_inner] at hh
    obtain ⟨hh0, hhc⟩ := hh
    obtain ⟨h', rfl⟩ : ∃ h', h = h' + 1 := ⟨h - 1, by omega⟩
    rw [REnc] at he
    simp only [hasBytes_append, boxBytes_length enc hlen, hasBytes_cons, hasBytes_nil,
      and_true] at he
    obtain ⟨⟨hb, hcnt⟩, hL⟩ := he
    obtain ⟨r1, r2, r3, r4⟩ := readBox_of_hasBytes enc hlen hb
    rw [rnSearchBytes, rSearchTree]
    simp only [r1, r2, r3, r4, henc, Option.bind_eq_bind, Option.bind_some]
    cases hq : q.meets nb
    · simp
    · simp only [Bool.not_true, Bool.false_eq_true, ↓reduceIte, hcnt, Option.bind_some]
      refine rnSearchBytes_go_of_REncL enc dec boxOf q f data h' es ?_ _ s hL
      intro e he addr' s' henc'
      refine ih e he e.1 h' addr' s' henc' (hhc e he) ?_
      intro i hi
      exact hit i (by rw [RNode.allItems, mem_allItemsL]; exact ⟨e, he, hi⟩)

/-! ## `rCompressNode` produces an encoding -/

theorem getElem?_lt_size {d : Array Nat} {i v : Nat} (h : d[i]? = some v) : i < d.size := by
  apply Classical.byContradiction
  intro hc
  rw [Array.getElem?_eq_none (by omega)] at h
  cases h

/-- `HasBytes` survives any change of the array that keeps the old in-range cells from `addr` on. -/
theorem HasBytes.congr_ge {d d' : Array Nat} {addr : Nat} {bs : List Nat} (h : HasBytes d addr bs)
    (hag : ∀ i, addr ≤ i → i < d.size → d'[i]? = d[i]?) : HasBytes d' addr bs := by
  intro i hi
  have := h i hi
  rw [hag (addr + i) (by omega) (getElem?_lt_size this)]
  exact this

theorem REnc.congr_ge (n : RNode α) :
    ∀ (nb : GBox α) (addr : Nat) (d d' : Array Nat), REnc enc d addr nb n →
      (∀ i, addr ≤ i → i < d.size → d'[i]? = d[i]?) → REnc enc d' addr nb n := by
  induction n using RNode.ind with
  | leaf es =>
    intro nb addr d d' h hag
    rw [REnc] at h ⊢
    exact h.congr_ge hag
  | inner es ih =>
    intro nb addr d d' h hag
    rw [REnc] at h ⊢
    refine ⟨h.1.congr_ge hag, ?_⟩
    -- list induction, the mark address only has to stay ≥ addr
    have key : ∀ (l : List (GBox α × RNode α)), (∀ e ∈ l, e ∈ es) → ∀ maddr, addr ≤ maddr →
        REncL enc d maddr l → REncL enc d' maddr l := by
      intro l
      induction l with
      | nil => intro _ maddr _ _; exact REncL_nil enc d' maddr
      | cons e rest ihr =>
        intro hsub maddr hle hl
        obtain ⟨cb, cn⟩ := e
        rw [REncL_cons] at hl ⊢
        obtain ⟨⟨a, ha, hma, hm, hc⟩, hrest⟩ := hl
        refine ⟨⟨a, ha, hma, hm.congr_ge (fun i h1 h2 => hag i (by omega) h2), ?_⟩, ?_⟩
        · exact ih (cb, cn) (hsub _ (by simp)) cb a d d' hc (fun i h1 h2 => hag i (by omega) h2)
        · exact ihr (fun e he => hsub e (by simp [he])) (maddr + 4) (by omega) hrest
    exact key es (fun e he => he) _ (by omega) h.2

theorem appendBox_eq (dst : Array Nat) (b : GBox α) :
    appendBox enc dst b = dst ++ (boxBytes enc b).toArray := by
  simp [appendBox, boxBytes, Array.append_assoc]

theorem foldl_zeros {β : Type} (es : List β) (d : Array Nat) :
    ∃ z : Array Nat, es.foldl (fun d _ => d ++ #[0, 0, 0, 0]) d = d ++ z ∧ z.size = 4 * es.length := by
  induction es generalizing d with
  | nil => exact ⟨#[], by simp, by simp⟩
  | cons e rest ih =>
    obtain ⟨z, h1, h2⟩ := ih (d ++ #[0, 0, 0, 0])
    refine ⟨#[0, 0, 0, 0] ++ z, ?_, ?_⟩
    · rw [List.foldl_cons, h1, Array.append_assoc]
    · simp [h2]; omega

theorem getElem?_prefix (dst a z : Array Nat) (x i : Nat) (hi : i < dst.size) :
    ((dst ++ a).push x ++ z)[i]? = dst[i]? := by
  have : (dst ++ a).push x ++ z = dst ++ (a.push x ++ z) := by
    simp
  rw [this, Array.getElem?_append_left hi]

theorem rCompressNode_leaf_eq (nb : GBox α) (es : List (GBox α × Nat)) (dst : Array Nat) :
    rCompressNode enc nb (.leaf es) dst =
      dst ++ (boxBytes enc nb ++ [es.length, leafWidth es] ++
        encItems (es.map (·.2)) (leafWidth es)).toArray := by
  rw [rCompressNode]
  have : ∀ d : Array Nat, es.foldl (fun d e => appendNum d e.2 (leafWidth es)) d =
      (es.map (·.2)).foldl (fun d it => appendNum d it (leafWidth es)) d := by
    intro d; rw [List.foldl_map]
  show es.foldl (fun d e => appendNum d e.2 (leafWidth es)) _ = _
  rw [this, foldl_appendNum _ _ _ (leafWidth_cases es), appendBox_eq]
  simp [Array.append_assoc, leafWidth]

/-- the node-level statement proved by induction -/
def CompressSpec (n : RNode α) : Prop :=
  ∀ (nb : GBox α) (dst : Array Nat),
    dst.size ≤ (rCompressNode enc nb n dst).size ∧
    (∀ i, i < dst.size → (rCompressNode enc nb n dst)[i]? = dst[i]?) ∧
    ((rCompressNode enc nb n dst).size < 2 ^ 32 → REnc enc (rCompressNode enc nb n dst) dst.size nb n)

theorem rCompress_go_spec (markBase : Nat) (es : List (GBox α × RNode α))
    (ih : ∀ e ∈ es, CompressSpec enc e.2) :
    ∀ (i : Nat) (D : Array Nat), markBase + 4 * (i + es.length) ≤ D.size →
      D.size ≤ (rCompressNode.go enc markBase es i D).size ∧
      (∀ j, j < D.size → (j < markBase + 4 * i ∨ markBase + 4 * (i + es.length) ≤ j) →
        (rCompressNode.go enc markBase es i D)[j]? = D[j]?) ∧
      ((rCompressNode.go enc markBase es i D).size < 2 ^ 32 →
        REncL enc (rCompressNode.go enc markBase es i D) (markBase + 4 * i) es) := by
  induction es with
  | nil =>
    intro i D _
    rw [rCompressNode.go]
    exact ⟨Nat.le_refl _, fun _ _ _ => rfl, fun _ => REncL_nil enc _ _⟩
  | cons e rest ihr =>
    intro i D hD
    obtain ⟨cb, cn⟩ := e
    rw [rCompressNode.go]
    simp only [List.length_cons] at hD
    obtain ⟨n1, n2, n3⟩ := ih (cb, cn) (by simp) cb (putU32 D (markBase + 4 * i) D.size)
    simp only [size_putU32] at n1 n2 n3
    generalize hD2 : rCompressNode enc cb cn (putU32 D (markBase + 4 * i) D.size) = D2 at n1 n2 n3
    obtain ⟨g1, g2, g3⟩ := ihr (fun e he => ih e (by simp [he])) (i + 1) D2 (by omega)
    generalize hR : rCompressNode.go enc markBase rest (i + 1) D2 = R at g1 g2 g3
    refine ⟨by omega, ?_, ?_⟩
    · intro j hj hout
      rw [g2 j (by omega) (by simp only [List.length_cons] at hout; omega), n2 j hj]
      exact getElem?_putU32_of_outside D _ _ j (by simp only [List.length_cons] at hout; omega)
    · intro hsz
      rw [REncL_cons]
      refine ⟨⟨D.size, by omega, by omega, ?_, ?_⟩, ?_⟩
      · have h1 := hasBytes_putU32_self D (markBase + 4 * i) D.size (by omega)
        have h2 : HasBytes D2 (markBase + 4 * i) (leBytes D.size 4) :=
          h1.congr (fun j a b => n2 j (by simp only [leBytes_length] at b; omega))
        exact h2.congr (fun j a b => g2 j (by simp only [leBytes_length] at b; omega)
          (by simp only [leBytes_length] at b; omega))
      · have h1 := n3 (by omega)
        exact REnc.congr_ge enc cn cb D.size D2 R h1 (fun j a b => g2 j b (by omega))
      · have := g3 hsz
        rw [show markBase + 4 * (i + 1) = markBase + 4 * i + 4 by omega] at this
        exact this

theorem rCompressNode_spec (n : RNode α) : CompressSpec enc n := by
  induction n using RNode.ind with
  | leaf es =>
    intro nb dst
    rw [rCompressNode_leaf_eq]
    refine ⟨by simp, ?_, fun _ => ?_⟩
    · intro i hi
      rw [Array.getElem?_append_left hi]
    · rw [REnc]
      exact hasBytes_append_self dst _
  | inner es ih =>
    intro nb dst
    rw [rCompressNode]
    obtain ⟨z, hz1, hz2⟩ := foldl_zeros es ((appendBox enc dst nb).push es.length)
    rw [hz1, appendBox_eq]
    have hmb : ((dst ++ (boxBytes enc nb).toArray).push es.length).size =
        dst.size + (boxBytes enc nb).length + 1 := by simp; omega
    rw [hmb]
    obtain ⟨g1, g2, g3⟩ := rCompress_go_spec enc (dst.size + (boxBytes enc nb).length + 1) es ih 0
      ((dst ++ (boxBytes enc nb).toArray).push es.length ++ z) (by simp [hz2]; omega)
    generalize hR : rCompressNode.go enc (dst.size + (boxBytes enc nb).length + 1) es 0
      ((dst ++ (boxBytes enc nb).toArray).push es.length ++ z) = R at g1 g2 g3
    have hsz : ((dst ++ (boxBytes enc nb).toArray).push es.length ++ z).size =
        dst.size + (boxBytes enc nb).length + 1 + 4 * es.length := by simp [hz2]; omega
    rw [hsz] at g1 g2
    refine ⟨by omega, ?_, ?_⟩
    · intro i hi
      rw [g2 i (by omega) (Or.inl (by omega))]
      exact getElem?_prefix dst _ z _ i hi
    · intro hlt
      rw [REnc]
      refine ⟨?_, by simpa using g3 hlt⟩
      have h0 : HasBytes ((dst ++ (boxBytes enc nb).toArray).push es.length ++ z) dst.size
          (boxBytes enc nb ++ [es.length]) := by
        have : (dst ++ (boxBytes enc nb).toArray).push es.length =
            dst ++ (boxBytes enc nb ++ [es.length]).toArray := by simp
        rw [this]
        exact hasBytes_mid dst _ z
      exact h0.congr (fun j a b => g2 j (by simp at b; omega) (Or.inl (by simp at b; omega)))

/-! ## the compressed tree -/

/-- Searching the compressed bytes = searching the tree; in particular no out-of-range read.
    (`post` must be empty for an empty tree: `rSearchBytes` recognises the empty tree by
    `addr == len(data)`.) -/
theorem rSearchBytes_compress (henc : ∀ x, dec (enc x) = x) (hlen : ∀ x, (enc x).length = 8)
    (boxOf : Nat → GBox α) (q : GBox α) {σ : Type} (f : σ → Nat → σ × Bool)
    (tr : RTree α) (pre post : Array Nat) (s : σ)
    (hinv : tr.Inv boxOf) (hit : ∀ i ∈ tr.items, i < 2 ^ 32)
    (hsz : (tr.compress enc pre).size < 2 ^ 32) (hpost : tr.root = none → post = #[]) :
    rSearchBytes dec boxOf q f (tr.compress enc pre ++ post) pre.size s =
      some (tr.search boxOf q f s) := by
  unfold RTree.compress at hsz ⊢
  unfold RTree.search
  unfold RTree.Inv at hinv
  unfold RTree.items at hit
  cases htr : tr.root with
  | none =>
    rw [hpost htr]
    simp [rSearchBytes]
  | some r =>
    obtain ⟨rb, rn⟩ := r
    rw [htr] at hinv hit hsz
    simp only at hinv hit hsz ⊢
    obtain ⟨c1, c2, c3⟩ := rCompressNode_spec enc rn rb (pre.push tr.height)
    generalize hR : rCompressNode enc rb rn (pre.push tr.height) = R at c1 c2 c3 hsz
    simp only [Array.size_push] at c1 c2 c3
    have hne : (pre.size == (R ++ post).size) = false := by
      simp only [Array.size_append, beq_eq_false_iff_ne]; omega
    have hhd : (R ++ post)[pre.size]? = some tr.height := by
      rw [Array.getElem?_append_left (by omega), c2 pre.size (by omega)]
      simp
    have henc' : REnc enc (R ++ post) (pre.size + 1) rb rn :=
      REnc.congr_ge enc rn rb _ R _ (c3 hsz)
        (fun i _ h2 => Array.getElem?_append_left h2)
    rw [rSearchBytes, hne]
    simp only [Bool.false_eq_true, ↓reduceIte, hhd, Option.bind_eq_bind, Option.bind_some]
    exact rnSearchBytes_of_REnc enc dec henc hlen boxOf q f _ rn rb tr.height _ s henc' hinv.2 hit

/-- the compressed form of a BUILT tree: byte search = tree search (no `NE` hypothesis, nothing
    about `sub`/`mul`; the order laws are only used through `rBuild_inv`). -/
theorem rSearchBytes_rBuild (henc : ∀ x, dec (enc x) = x) (hlen : ∀ x, (enc x).length = 8)
    [LawfulCarrier α] (boxOf : Nat → GBox α) (q : GBox α) {σ : Type} (f : σ → Nat → σ × Bool)
    (nsegs : Nat) (hn : nsegs < 2 ^ 32) (s : σ)
    (hsz : ((rBuild boxOf nsegs).compress enc #[1, 0, 0, 0, 0]).size < 2 ^ 32) :
    rSearchBytes dec boxOf q f ((rBuild boxOf nsegs).compress enc #[1, 0, 0, 0, 0]) 5 s =
      some ((rBuild boxOf nsegs).search boxOf q f s) := by
  have := rSearchBytes_compress enc dec henc hlen boxOf q f (rBuild boxOf nsegs)
    #[1, 0, 0, 0, 0] #[] s (rBuild_inv boxOf nsegs)
    (fun i hi => Nat.lt_trans (rBuild_items_lt boxOf nsegs i hi) hn) hsz (fun _ => rfl)
  simpa using this

/-- C04 (R-tree half), conditional form: if the built tree has no empty inner node
    (`RTree.NE`, decidable on the tree; cannot be dropped — `rBuild_items_counterexample`),
    the byte-level search reports exactly the segments whose box meets the query, each once,
    honouring early stop, never reading out of range. -/
theorem rtree_search_exact_of_NE [LawfulCarrier α] (boxOf : Nat → GBox α) (q : GBox α)
    (nsegs : Nat) (hn : nsegs < 2 ^ 32)
    (henc : ∀ x, dec (enc x) = x) (hlen : ∀ x, (enc x).length = 8)
    (hsz : ((rBuild boxOf nsegs).compress enc #[1, 0, 0, 0, 0]).size < 2 ^ 32)
    (hne : (rBuild boxOf nsegs).NE) :
    ∃ visit : List Nat,
      List.Perm visit ((List.range nsegs).filter (fun i => (boxOf i).meets q)) ∧
      ∀ (σ : Type) (f : σ → Nat → σ × Bool) (s : σ),
        rSearchBytes dec boxOf q f ((rBuild boxOf nsegs).compress enc #[1, 0, 0, 0, 0]) 5 s =
          some (foldUntil f s visit) := by
  obtain ⟨visit, hp, hv⟩ := rtree_tree_search_exact boxOf q nsegs hne
  refine ⟨visit, hp, fun σ f s => ?_⟩
  rw [rSearchBytes_rBuild enc dec henc hlen boxOf q f nsegs hn s hsz, hv]

/-- **C04, R-tree half.**  For every carrier whose `lt` is a strict weak order and whose `sub`
    has an exact sign (nothing else about `sub`, nothing about `mul`/`mid`): searching the
    compressed R-tree of `nsegs` segments reports exactly the segments whose box meets the
    query — each once (`Perm`), honouring early stop (`foldUntil`), never reading out of range
    (`some`).  Whatever `chooseLeast`/`splitEntries` decide only affects the tree's shape. -/
theorem rtree_search_exact [LawfulCarrier α] [SignExactSub α] (boxOf : Nat → GBox α) (q : GBox α)
    (nsegs : Nat) (hn : nsegs < 2 ^ 32)
    (henc : ∀ x, dec (enc x) = x) (hlen : ∀ x, (enc x).length = 8)
    (hsz : ((rBuild boxOf nsegs).compress enc #[1, 0, 0, 0, 0]).size < 2 ^ 32) :
    ∃ visit : List Nat,
      List.Perm visit ((List.range nsegs).filter (fun i => (boxOf i).meets q)) ∧
      ∀ (σ : Type) (f : σ → Nat → σ × Bool) (s : σ),
        rSearchBytes dec boxOf q f ((rBuild boxOf nsegs).compress enc #[1, 0, 0, 0, 0]) 5 s =
          some (foldUntil f s visit) :=
  rtree_search_exact_of_NE enc dec boxOf q nsegs hn henc hlen hsz (rBuild_NE boxOf nsegs)

end

#print axioms rnSearchBytes_of_REnc
#print axioms rCompressNode_spec
#print axioms rSearchBytes_compress
#print axioms rSearchBytes_rBuild
#print axioms rtree_search_exact_of_NE
#print axioms rtree_search_exact

end Geo
