/-
  Property C02 (intersects) — COMPLETENESS of the `false` answers, hence EXACTNESS against the
  specification, for un-indexed shapes (and for indexed rings whose search is exact).

  PROVED (developments in `GeoProofs/Intersects/{Core,Rings,Regions,Model,Shapes}.lean`)
  * `ringIntersectsSegment_exact`: the counting search of `ringIntersectsSegment` (allowOnEdge =
    true) answers `true` iff the closed segment shares a point with the closed crossing-parity
    region of the ring.  The simplicity hypothesis of the target statement is NOT needed
    (`ringIntersectsSegment_exact_all`: every vertex list; `ringIntersectsSegment_exact_indexed`:
    every index kind for which `Series.SearchExact` holds): with both endpoints outside, a
    segment that meets the region meets the chain at two distinct edge positions — the two
    edges at a vertex on the segment, or else every contact is a proper crossing and a single
    one would flip the crossing parity (J').
  * `rectRingIntersectsSegment_exact`: the same for a well-formed `Rect` used as a ring
    (degenerate rectangles included); `rectRing_illformed`: for an inverted rectangle the
    answer can be `true` although the rectangle contains no point.
  * `ringIntersectsLine_exact`, `rectRingIntersectsLine_exact`.
  * `ringIntersectsRing_exact` (every pair of vertex lists, simplicity not needed): the code
    tests only the segments of the ring with the smaller rectangle area against the region of
    the other ring; this is complete because a ring whose boundary lies strictly inside another
    closed chain has a strictly smaller rectangle (`IX.strict_nesting_rect`), and two regions
    neither of whose boundaries enters the other are disjoint
    (`IX.regions_disjoint_of_boundaries_out`).  No counterexample exists (equal areas included).
  * `geom_intersects_exact_noholes`: `(build A).intersects (build B) = Spec.meets A B` for valid
    shapes whose polygons have no holes, all 16 pairs of kinds; `geom_intersects_symm_noholes`.
  * `geom_intersects_exact_holes_of_convexOK`: the same for polygons WITH holes, under the
    hypothesis `IX.HolesConvexOK` (every hole ring satisfies `IX.ConvexOK`: if its convex flag is
    raised, its strict interior is convex — the convex shortcut, site 5 of
    `ringContainsSegmentS`, is the only unproved ingredient).  Everything else of the "the hole
    swallows the other shape" test is proved (`IX.ringContainsRing_strict_iff`: non-convex
    branch, vertex-only test, rectangle pre-check, ≥ 16 points rectangle shortcut).
    `geom_intersects_exact_holes_of_nonconvex`: unconditional when no hole has the convex flag;
    `IX.convexOK_rect`: rectangular holes satisfy the hypothesis.
-/
import GeoProofs.Props.C02
import GeoProofs.Intersects.Shapes
import GeoProofs.Intersects.HolesModel

namespace Geo
open GL IX

/-! ## ring × segment -/

/-- every vertex list, un-indexed -/
theorem ringIntersectsSegment_exact_all (pts : Array Pt) (seg : Seg) :
    ringIntersectsSegment (.ser (mkSeries pts true .none 0)) seg true = true ↔
      ∃ x, OnSeg seg.a seg.b x ∧ Spec.inRing (Spec.edges pts.toList true) x = true :=
  ringIntersectsSegment_exact_of_spec (ringSpec_mk pts 0) seg

/-- every vertex list, every index for which the search is exact -/
theorem ringIntersectsSegment_exact_indexed (pts : Array Pt) (kind : IndexKind) (m : Nat)
    (hvis : (mkSeries pts true kind m).SearchExact) (seg : Seg) :
    ringIntersectsSegment (.ser (mkSeries pts true kind m)) seg true = true ↔
      ∃ x, OnSeg seg.a seg.b x ∧ Spec.inRing (Spec.edges pts.toList true) x = true :=
  ringIntersectsSegment_exact_of_spec (ringSpec_ser pts kind m hvis) seg

/-- the counting search is exact on a simple ring (target statement; `hs` is not used) -/
theorem ringIntersectsSegment_exact (pts : Array Pt) (_hs : Spec.simpleRing pts.toList = true) (seg : Seg) :
    ringIntersectsSegment (.ser (mkSeries pts true .none 0)) seg true = true ↔
      ∃ x, OnSeg seg.a seg.b x ∧ Spec.inRing (Spec.edges pts.toList true) x = true :=
  ringIntersectsSegment_exact_all pts seg

/-- with both endpoints outside: the segment meets the region iff it meets two ring edges -/
theorem ringIntersectsSegment_two_edges (pts : Array Pt) (seg : Seg)
    (ha : Spec.inRing (Spec.edges pts.toList true) seg.a = false)
    (hb : Spec.inRing (Spec.edges pts.toList true) seg.b = false) :
    (∃ x, OnSeg seg.a seg.b x ∧ Spec.inRing (Spec.edges pts.toList true) x = true) ↔
      ∃ i j, i < numSegmentsOf pts true ∧ j < numSegmentsOf pts true ∧ i ≠ j ∧
        SegsMeet seg.a seg.b (segmentAtOf pts i).a (segmentAtOf pts i).b ∧
        SegsMeet seg.a seg.b (segmentAtOf pts j).a (segmentAtOf pts j).b := by
  rw [← ringIntersectsSegment_exact_all, ris_true_iff (ringSpec_mk pts 0)]
  constructor
  · rintro ⟨-, (h | h | h)⟩
    · rw [ha] at h; cases h
    · rw [hb] at h; cases h
    · exact h
  · rintro ⟨i, j, hi, hj, hij, mi, mj⟩
    obtain ⟨x, hx1, hx2⟩ := mi
    refine ⟨intersects_of_common _ _ x (onSeg_in_segBox seg x hx1) ?_, Or.inr (Or.inr ⟨i, j, hi, hj, hij, ⟨x, hx1, hx2⟩, mj⟩)⟩
    exact (ringSpec_mk pts 0).inRect x
      (inRing_of_onBoundary (onBoundary_of_onSeg ((ringSpec_mk pts 0).edge_mem hi) hx2))

/-- a well-formed rectangle (degenerate allowed) used as a ring -/
theorem rectRingIntersectsSegment_exact (b : Box) (hb : b.min.x ≤ b.max.x ∧ b.min.y ≤ b.max.y) (seg : Seg) :
    ringIntersectsSegment (.bx b) seg true = true ↔
      ∃ x, OnSeg seg.a seg.b x ∧ b.containsPt x = true := by
  rw [ringIntersectsSegment_exact_of_spec (ringSpec_bx b hb)]
  simp only [inRing_rect b hb]

/-- the closed region of the rectangle chain is the closed rectangle -/
theorem rectRing_region (b : Box) (hb : b.min.x ≤ b.max.x ∧ b.min.y ≤ b.max.y) (p : Pt) :
    Spec.inRing (Spec.edges (Spec.rectPts b.min b.max) true) p = b.containsPt p :=
  inRing_rect b hb p

/-- for an inverted rectangle the answer can be `true` although the rectangle contains no
    point (its four "sides" still bound the square between the swapped corners) -/
theorem rectRing_illformed :
    ringIntersectsSegment (.bx ⟨⟨2, 2⟩, ⟨1, 1⟩⟩) ⟨⟨0, 0⟩, ⟨3, 3⟩⟩ true = true ∧
    ¬ ∃ x : Pt, (Box.mk ⟨2, 2⟩ ⟨1, 1⟩).containsPt x = true := by
  refine ⟨by decide +kernel, ?_⟩
  rintro ⟨x, h⟩
  rw [containsPt_iff] at h
  obtain ⟨a1, a2, -, -⟩ := h
  simp only at a1 a2
  linarith

/-! ## ring × line string -/

theorem ringIntersectsLine_exact_all (pts : Array Pt) (l : Line)
    (hrect : l.rect = (processPoints l.pts l.closed).rect) :
    ringIntersectsLine (.ser (mkSeries pts true .none 0)) l true = true ↔
      ∃ i, i < l.numSegments ∧ ∃ x, OnSeg (l.segmentAt i).a (l.segmentAt i).b x ∧
        Spec.inRing (Spec.edges pts.toList true) x = true :=
  ringIntersectsLine_exact_of_spec (ringSpec_mk pts 0) l hrect

/-- target statement (`hs` is not used; of `Plain l` only the rectangle is used) -/
theorem ringIntersectsLine_exact (pts : Array Pt) (_hs : Spec.simpleRing pts.toList = true)
    (l : Line) (hl : Plain l) :
    ringIntersectsLine (.ser (mkSeries pts true .none 0)) l true = true ↔
      ∃ i, i < l.numSegments ∧ ∃ x, OnSeg (l.segmentAt i).a (l.segmentAt i).b x ∧
        Spec.inRing (Spec.edges pts.toList true) x = true :=
  ringIntersectsLine_exact_all pts l hl.2

theorem rectRingIntersectsLine_exact (b : Box) (hb : b.min.x ≤ b.max.x ∧ b.min.y ≤ b.max.y)
    (l : Line) (hl : Plain l) :
    ringIntersectsLine (.bx b) l true = true ↔
      ∃ i, i < l.numSegments ∧ ∃ x, OnSeg (l.segmentAt i).a (l.segmentAt i).b x ∧
        b.containsPt x = true := by
  rw [ringIntersectsLine_exact_of_spec (ringSpec_bx b hb) l hl.2]
  simp only [inRing_rect b hb]

/-! ## ring × ring -/

theorem ringIntersectsRing_exact_all (p q : Array Pt) :
    ringIntersectsRing (.ser (mkSeries p true .none 0)) (.ser (mkSeries q true .none 0)) true = true ↔
      ∃ x, Spec.inRing (Spec.edges p.toList true) x = true ∧
        Spec.inRing (Spec.edges q.toList true) x = true :=
  ringIntersectsRing_exact_of_spec (ringSpec_mk p 0) (ringSpec_mk q 0)

/-- target statement (the simplicity hypotheses are not used) -/
theorem ringIntersectsRing_exact (p q : Array Pt) (_hp : Spec.simpleRing p.toList = true)
    (_hq : Spec.simpleRing q.toList = true) :
    ringIntersectsRing (.ser (mkSeries p true .none 0)) (.ser (mkSeries q true .none 0)) true = true ↔
      ∃ x, Spec.inRing (Spec.edges p.toList true) x = true ∧
        Spec.inRing (Spec.edges q.toList true) x = true :=
  ringIntersectsRing_exact_all p q

/-- a well-formed rectangle against a ring, either order -/
theorem rectRingIntersectsRing_exact (b : Box) (hb : b.min.x ≤ b.max.x ∧ b.min.y ≤ b.max.y)
    (p : Array Pt) :
    (ringIntersectsRing (.bx b) (.ser (mkSeries p true .none 0)) true = true ↔
      ∃ x, b.containsPt x = true ∧ Spec.inRing (Spec.edges p.toList true) x = true) ∧
    (ringIntersectsRing (.ser (mkSeries p true .none 0)) (.bx b) true = true ↔
      ∃ x, Spec.inRing (Spec.edges p.toList true) x = true ∧ b.containsPt x = true) := by
  rw [ringIntersectsRing_exact_of_spec (ringSpec_bx b hb) (ringSpec_mk p 0),
    ringIntersectsRing_exact_of_spec (ringSpec_mk p 0) (ringSpec_bx b hb)]
  simp [inRing_rect b hb]

/-- the symmetric form of the specification side: the regions share a point iff a boundary
    point of one lies in the closed region of the other -/
theorem regions_share_iff (p q : List Pt) :
    (∃ x, Spec.inRing (Spec.edges p true) x = true ∧ Spec.inRing (Spec.edges q true) x = true) ↔
      ((∃ v, Spec.onBoundary (Spec.edges p true) v = true ∧ Spec.inRing (Spec.edges q true) v = true) ∨
       (∃ v, Spec.onBoundary (Spec.edges q true) v = true ∧ Spec.inRing (Spec.edges p true) v = true)) :=
  regions_meet_iff _ _

/-! ## the 4 × 4 matrix, polygons without holes -/

/-- `Spec.meets` is "the two point sets share a point" -/
theorem spec_meets_iff (A B : Spec.Shape) (hA : A.valid = true) (hB : B.valid = true)
    (hnA : A.noHoles) (hnB : B.noHoles) :
    Spec.meets A B = true ↔ ∃ x, A.member x = true ∧ B.member x = true :=
  meets_iff (facts_of_valid A hA hnA) (facts_of_valid B hB hnB)

theorem geom_intersects_iff_noholes (A B : Spec.Shape) (hA : A.valid = true) (hB : B.valid = true)
    (hnA : A.noHoles) (hnB : B.noHoles) :
    (build A).intersects (build B) = true ↔ ∃ x, A.member x = true ∧ B.member x = true :=
  intersects_iff A B hA hB hnA hnB

theorem geom_intersects_exact_noholes (A B : Spec.Shape) (hA : A.valid = true) (hB : B.valid = true)
    (hnA : A.noHoles) (hnB : B.noHoles) :
    (build A).intersects (build B) = Spec.meets A B := by
  rw [Bool.eq_iff_iff, intersects_iff A B hA hB hnA hnB, spec_meets_iff A B hA hB hnA hnB]

theorem geom_intersects_symm_noholes (A B : Spec.Shape) (hA : A.valid = true) (hB : B.valid = true)
    (hnA : A.noHoles) (hnB : B.noHoles) :
    (build A).intersects (build B) = (build B).intersects (build A) := by
  rw [Bool.eq_iff_iff, intersects_iff A B hA hB hnA hnB, intersects_iff B A hB hA hnB hnA]
  constructor <;> rintro ⟨x, h1, h2⟩ <;> exact ⟨x, h2, h1⟩

/-! ## non-vacuity -/

/-- a segment through a concave ring's notch: endpoints outside, four edges met -/
example :
    Spec.simpleRing [⟨0,0⟩, ⟨4,0⟩, ⟨4,4⟩, ⟨2,1⟩, ⟨0,4⟩, ⟨0,0⟩] = true ∧
    ringIntersectsSegment (.ser (mkSeries #[⟨0,0⟩, ⟨4,0⟩, ⟨4,4⟩, ⟨2,1⟩, ⟨0,4⟩, ⟨0,0⟩] true .none 0))
      ⟨⟨-1, 3⟩, ⟨5, 3⟩⟩ true = true ∧
    ringIntersectsSegment (.ser (mkSeries #[⟨0,0⟩, ⟨4,0⟩, ⟨4,4⟩, ⟨2,1⟩, ⟨0,4⟩, ⟨0,0⟩] true .none 0))
      ⟨⟨1, 5⟩, ⟨3, 5⟩⟩ true = false := by decide +kernel

/-- nested squares with equal rectangle areas cannot avoid each other's boundary; nested with
    different areas: the inner one is tested against the outer region -/
example :
    ringIntersectsRing (.ser (mkSeries #[⟨0,0⟩, ⟨4,0⟩, ⟨4,4⟩, ⟨0,4⟩] true .none 0))
      (.ser (mkSeries #[⟨1,1⟩, ⟨2,1⟩, ⟨2,2⟩, ⟨1,2⟩] true .none 0)) true = true ∧
    ringIntersectsRing (.ser (mkSeries #[⟨1,1⟩, ⟨2,1⟩, ⟨2,2⟩, ⟨1,2⟩] true .none 0))
      (.ser (mkSeries #[⟨0,0⟩, ⟨4,0⟩, ⟨4,4⟩, ⟨0,4⟩] true .none 0)) true = true ∧
    ringIntersectsRing (.ser (mkSeries #[⟨0,0⟩, ⟨1,0⟩, ⟨1,1⟩, ⟨0,1⟩] true .none 0))
      (.ser (mkSeries #[⟨2,2⟩, ⟨3,2⟩, ⟨3,3⟩, ⟨2,3⟩] true .none 0)) true = false := by decide +kernel

example :
    (Spec.Shape.poly [⟨0,0⟩, ⟨4,0⟩, ⟨4,4⟩, ⟨0,4⟩] []).valid = true ∧
    (Spec.Shape.line [⟨-1,2⟩, ⟨5,2⟩]).valid = true ∧
    Spec.meets (.poly [⟨0,0⟩, ⟨4,0⟩, ⟨4,4⟩, ⟨0,4⟩] []) (.line [⟨-1,2⟩, ⟨5,2⟩]) = true ∧
    Spec.meets (.poly [⟨0,0⟩, ⟨4,0⟩, ⟨4,4⟩, ⟨0,4⟩] []) (.line [⟨-1,5⟩, ⟨5,5⟩]) = false := by
  decide +kernel

/-! ## polygons with holes, under `ConvexOK` -/

/-- strict containment ("the hole swallows the other ring / line string") is exact under
    `ConvexOK`: restated from `IX.ringContainsRing_strict_iff` for an un-indexed hole ring and a
    series `l` (line string or ring) whose rectangle is the one of `processPoints` -/
theorem ringContainsRing_strict_exact (h : Array Pt) (hcv : ConvexOK (.ser (mkSeries h true .none 0)) h.toList)
    (l : Series) (hrect : l.rect = (processPoints l.pts l.closed).rect) :
    ringContainsRing (.ser (mkSeries h true .none 0)) (.ser l) false = true ↔
      (Ring.ser (mkSeries h true .none 0)).empty = false ∧ l.empty = false ∧
        ∀ x, Spec.onBoundary (Spec.edges l.pts.toList l.closed) x = true →
          Spec.strictIn (Spec.edges h.toList true) x = true :=
  ringContainsRing_strict_iff (ringSpec_mk h 0) (strictSpec_mk h 0) hcv
    (fun he => otherSpec_ser l hrect he)

theorem spec_meets_iff_holes (A B : Spec.Shape) (hA : A.valid = true) (hB : B.valid = true) :
    Spec.meets A B = true ↔ ∃ x, A.member x = true ∧ B.member x = true :=
  meets_iff_holes (factsH_of_valid A hA) (factsH_of_valid B hB)

theorem geom_intersects_exact_holes_of_convexOK (A B : Spec.Shape) (hA : A.valid = true)
    (hB : B.valid = true) (hcA : HolesConvexOK A) (hcB : HolesConvexOK B) :
    (build A).intersects (build B) = Spec.meets A B := by
  rw [Bool.eq_iff_iff, intersects_iff_holes A B hA hB hcA hcB, spec_meets_iff_holes A B hA hB]

theorem geom_intersects_symm_holes_of_convexOK (A B : Spec.Shape) (hA : A.valid = true)
    (hB : B.valid = true) (hcA : HolesConvexOK A) (hcB : HolesConvexOK B) :
    (build A).intersects (build B) = (build B).intersects (build A) := by
  rw [Bool.eq_iff_iff, intersects_iff_holes A B hA hB hcA hcB, intersects_iff_holes B A hB hA hcB hcA]
  constructor <;> rintro ⟨x, h1, h2⟩ <;> exact ⟨x, h2, h1⟩

/-- no hole ring has the convex flag: the hypothesis holds vacuously -/
theorem holesConvexOK_of_nonconvex (S : Spec.Shape)
    (h : ∀ hl ∈ S.holes, (mkSeries hl.toArray true .none 0).convex = false) : HolesConvexOK S := by
  intro hl hh hc
  have : (mkSeries hl.toArray true .none 0).convex = true := hc
  rw [h hl hh] at this
  cases this

theorem geom_intersects_exact_holes_of_nonconvex (A B : Spec.Shape) (hA : A.valid = true)
    (hB : B.valid = true)
    (hcA : ∀ hl ∈ A.holes, (mkSeries hl.toArray true .none 0).convex = false)
    (hcB : ∀ hl ∈ B.holes, (mkSeries hl.toArray true .none 0).convex = false) :
    (build A).intersects (build B) = Spec.meets A B :=
  geom_intersects_exact_holes_of_convexOK A B hA hB (holesConvexOK_of_nonconvex A hcA)
    (holesConvexOK_of_nonconvex B hcB)

/-- the hypotheses are inhabited: a square with a square hole (convex flag raised, `ConvexOK`
    by `convexOK_rect`), against a line string inside the hole and one crossing it -/
example :
    (Spec.Shape.poly [⟨0,0⟩, ⟨8,0⟩, ⟨8,8⟩, ⟨0,8⟩] [Spec.rectPts ⟨2,2⟩ ⟨6,6⟩]).valid = true ∧
    HolesConvexOK (.poly [⟨0,0⟩, ⟨8,0⟩, ⟨8,8⟩, ⟨0,8⟩] [Spec.rectPts ⟨2,2⟩ ⟨6,6⟩]) ∧
    (mkSeries (Spec.rectPts ⟨2,2⟩ ⟨6,6⟩).toArray true .none 0).convex = true ∧
    Spec.meets (.poly [⟨0,0⟩, ⟨8,0⟩, ⟨8,8⟩, ⟨0,8⟩] [Spec.rectPts ⟨2,2⟩ ⟨6,6⟩]) (.line [⟨3,3⟩, ⟨5,5⟩]) = false ∧
    Spec.meets (.poly [⟨0,0⟩, ⟨8,0⟩, ⟨8,8⟩, ⟨0,8⟩] [Spec.rectPts ⟨2,2⟩ ⟨6,6⟩]) (.line [⟨3,3⟩, ⟨7,7⟩]) = true := by
  refine ⟨by decide +kernel, ?_, by decide +kernel, by decide +kernel, by decide +kernel⟩
  intro h hh
  simp only [Spec.Shape.holes, List.mem_cons, List.not_mem_nil, or_false] at hh
  subst hh
  exact convexOK_rect _ ⟨2,2⟩ ⟨6,6⟩ (by constructor <;> norm_num)

end Geo

#print axioms Geo.ringIntersectsSegment_exact_all
#print axioms Geo.ringIntersectsSegment_exact_indexed
#print axioms Geo.ringIntersectsSegment_exact
#print axioms Geo.ringIntersectsSegment_two_edges
#print axioms Geo.rectRingIntersectsSegment_exact
#print axioms Geo.rectRing_region
#print axioms Geo.rectRing_illformed
#print axioms Geo.ringIntersectsLine_exact_all
#print axioms Geo.ringIntersectsLine_exact
#print axioms Geo.rectRingIntersectsLine_exact
#print axioms Geo.ringIntersectsRing_exact_all
#print axioms Geo.ringIntersectsRing_exact
#print axioms Geo.rectRingIntersectsRing_exact
#print axioms Geo.regions_share_iff
#print axioms Geo.spec_meets_iff
#print axioms Geo.geom_intersects_iff_noholes
#print axioms Geo.geom_intersects_exact_noholes
#print axioms Geo.geom_intersects_symm_noholes
#print axioms Geo.ringContainsRing_strict_exact
#print axioms Geo.spec_meets_iff_holes
#print axioms Geo.geom_intersects_exact_holes_of_convexOK
#print axioms Geo.geom_intersects_symm_holes_of_convexOK
#print axioms Geo.holesConvexOK_of_nonconvex
#print axioms Geo.geom_intersects_exact_holes_of_nonconvex
#print axioms Geo.IX.convexOK_rect
#print axioms Geo.IX.two_edges_of_meets
#print axioms Geo.IX.regions_disjoint_of_boundaries_out
#print axioms Geo.IX.strict_nesting_rect
#print axioms Geo.IX.rect_filled_strict
#print axioms Geo.IX.region_inside_of_boundary_inside
