/-
  GeoProofs.Glue.IndexGlueRInsert3 — the generated `(*rTree).insert`, `(*rTree).Insert`
  (geometry/rtree.go:46, :40) compute the model's `RTree.insert` on the abstraction of a well-formed
  generated tree; building a tree by repeated `Insert` gives the model's `rBuild`.
-/
import GeoProofs.Glue.IndexGlueRInsert2

set_option linter.unusedVariables false
set_option linter.unusedSectionVars false
set_option linter.unusedSimpArgs false

namespace Geo.IGlue
open Geo Geo.IGen
open scoped Geo.KNum

variable {F : Type}

/-- the model tree a generated tree stands for (`root.data == nil` ↦ no root) -/
def absRTree (tr : IGen.RTree F) : Geo.RTree F := ⟨tr.height.toNat, absNode tr.height.toNat tr.root⟩

/-- a well-formed generated tree: the height is not negative; the root is nil (empty tree) or a
    well-formed node of that height -/
def RTreeWFI (tr : IGen.RTree F) : Prop :=
  0 ≤ tr.height ∧ (tr.root.data = .nil ∨ RWFI tr.height.toNat tr.root)

end Geo.IGlue

namespace Geo.IGlue.RIns
open Geo Geo.IGen Geo.IGlue.RSplit
open scoped Geo.KNum

section Tail
variable {F S SR D : Type} [KNum F] (ops : Ops F S SR D)

/-- the tail of the generated `rTree_insert` after the root has been grown: the overflow test, the
    root split, the count (a verbatim copy of the generated text; `rtree_insert_unfold` checks by
    `rfl` that it is the term in the generated definition) -/
def treeTail (fuel : Nat) (tr_height : Int) (tr_count : Int) (tr_reinsert : List (IGen.RRect F))
    (tr_root : IGen.RRect F) : Option (IGen.RTree F) :=
        do
          let dn5 ← Dyn.asRNode tr_root.data
          let (tr_root, tr_height) ← (
              do
                if (dn5.count == (IGen.rMaxEntries + 1)) then
                  do
                    let newRoot := (IGen.RNode.mk 0 (List.replicate 17 (RRect.mk Dyn.nil (KNum.ofNat 0 : F) (KNum.ofNat 0 : F) (KNum.ofNat 0 : F) (KNum.ofNat 0 : F) : IGen.RRect F)) : IGen.RNode F)
                    let el6 ← listAt newRoot.rects 1
                    let (nw7, out8) ← rRect_splitLargestAxisEdgeSnap ops fuel tr_root el6
                    let tr_root := nw7
                    let ls9 ← listSet newRoot.rects 1 out8
                    let newRoot := (IGen.RNode.mk newRoot.count ls9)
                    let ls10 ← listSet newRoot.rects 0 tr_root
                    let newRoot := (IGen.RNode.mk newRoot.count ls10)
                    let newRoot := (IGen.RNode.mk 2 newRoot.rects)
                    let tr_root := (RRect.mk (Dyn.rNode newRoot) tr_root.min0 tr_root.min1 tr_root.max0 tr_root.max1)
                    let nw11 ← rRect_recalc ops tr_root
                    let tr_root := nw11
                    let tr_height := (tr_height + 1)
                    some (tr_root, tr_height)
                else
                  some (tr_root, tr_height)
            )
          let tr_count := (tr_count + 1)
          some (IGen.RTree.mk tr_height tr_root tr_count tr_reinsert)

theorem rtree_insert_unfold (fuel : Nat) (H : Int) (root : IGen.RRect F) (cnt : Int)
    (re : List (IGen.RRect F)) (item : IGen.RRect F) :
    rTree_insert ops fuel (IGen.RTree.mk H root cnt re) item =
      (if Dyn.isNil root.data then
          (fit ops [item.min0, item.min1] [item.max0, item.max1]
            (Dyn.rNode (IGen.RNode.mk 0 (List.replicate 17 (zeroRect : IGen.RRect F)))) root).bind some
        else some root).bind fun root0 =>
      (rRect_insert ops fuel root0 item H).bind fun p =>
        treeTail ops fuel H cnt re (grownChild ops p.1 item p.2) := by
  rfl

theorem fit_eq (x0 y0 x1 y1 : F) (value : Dyn F) (target : IGen.RRect F)
    (hnil : ops.floatsIsNil [x1, y1] = false) :
    fit ops [x0, y0] [x1, y1] value target = some (RRect.mk value x0 y0 x1 y1) := by
  simp [fit, hnil, listAt, IGen.rDims]

end Tail

section TailEq
variable {F S SR D : Type} [KNum F] [Carrier F] [Compat F] [CompatEq F] [LawfulCarrier F] [SignExactSub F]
  (ops : Ops F S SR D)

/-- the model's `RTree.insert` after the node-level insertion (the right-hand side of
    `RTree.insert_eq`) -/
def tailModel (H : Nat) (rb : GBox F) (rn : Geo.RNode F) : Geo.RTree F :=
  if rn.count == rMaxEntries + 1 then
    ⟨H + 1, some (recalcBoxes [(splitPair rb rn).1.1, (splitPair rb rn).2.1] rb,
      .inner [(splitPair rb rn).1, (splitPair rb rn).2])⟩
  else ⟨H, some (rb, rn)⟩

theorem ofNat_add_one_toNat (H : Nat) : (Int.ofNat H + 1).toNat = H + 1 := by
  show ((H : Int) + 1).toNat = H + 1
  omega

theorem treeTail_eq (boxOf : Nat → GBox F) (fuel H : Nat) (cnt : Int) (re : List (IGen.RRect F))
    (X : IGen.RRect F) (hf : 18 ≤ fuel) (hw : RWFI H X) (hinv : RInv boxOf (rbox X) (absT H X).2)
    (hrt : RT (rbox X) (absT H X).2) :
    ∃ tr', treeTail ops fuel (Int.ofNat H) cnt re X = some tr' ∧ RTreeWFI tr' ∧ tr'.count = cnt + 1 ∧
      tr'.reinsert = re ∧ absRTree tr' = tailModel H (rbox X) (absT H X).2 := by
  obtain ⟨nd, hd, hs⟩ := RWFI_node H X hw
  have hcntM : (absT H X).2.count = nd.count.toNat := by
    rw [count_entryBoxes, entryBoxes_absT, hd]
    simp only [nodeOf, List.length_map, usedSlots_length _ hs]
  by_cases hc : nd.count = 17
  · have hcM : (absT H X).2.count = 17 := by rw [hcntM, hc]; rfl
    obtain ⟨L, R, hsplit, hLw, hRw, hsp⟩ := split_child ops boxOf H fuel X (zeroRect : IGen.RRect F) hf hw hinv hrt hcM
    have hc' : (nd.count == IGen.rMaxEntries + 1) = true := by
      simp only [IGen.rMaxEntries, hc]; rfl
    have hat : listAt (List.replicate 17 (zeroRect : IGen.RRect F)) 1 = some zeroRect := rfl
    have hset1 : ∀ R : IGen.RRect F, listSet (List.replicate 17 (zeroRect : IGen.RRect F)) 1 R
        = some ((List.replicate 17 (zeroRect : IGen.RRect F)).set 1 R) := fun _ => rfl
    have hset0 : ∀ L R : IGen.RRect F, listSet ((List.replicate 17 (zeroRect : IGen.RRect F)).set 1 R) 0 L
        = some (((List.replicate 17 (zeroRect : IGen.RRect F)).set 1 R).set 0 L) := fun _ _ => rfl
    have hsl : SlotsOK (IGen.RNode.mk 2 (((List.replicate 17 (zeroRect : IGen.RRect F)).set 1 R).set 0 L)) := by
      refine ⟨?_, ?_, ?_⟩
      · simp only [rects_mk, List.length_set, List.length_replicate]
      · simp only [count_mk]; omega
      · simp only [count_mk]; omega
    have hused : usedSlots (IGen.RNode.mk 2 (((List.replicate 17 (zeroRect : IGen.RRect F)).set 1 R).set 0 L))
        = [L, R] := rfl
    obtain ⟨r', hr, hdata, hbx, _⟩ := recalc_eq' ops
      (RRect.mk (Dyn.rNode (IGen.RNode.mk 2 (((List.replicate 17 (zeroRect : IGen.RRect F)).set 1 R).set 0 L)))
        L.min0 L.min1 L.max0 L.max1) _ rfl hsl
    have hbx' := hbx (by simp only [count_mk]; omega) (rbox X)
    rw [hused] at hbx'
    simp only [data_mk] at hdata
    refine ⟨IGen.RTree.mk (Int.ofNat H + 1) r' (cnt + 1) re, ?_, ?_, rfl, rfl, ?_⟩
    · unfold treeTail
      simp only [bind, hd, asRNode_rNode, Option.bind_some, hc', if_true, rects_mk, count_mk]
      rw [show (RRect.mk Dyn.nil (KNum.ofNat 0 : F) (KNum.ofNat 0 : F) (KNum.ofNat 0 : F) (KNum.ofNat 0 : F)
        : IGen.RRect F) = zeroRect from rfl]
      simp only [hat, Option.bind_some, hsplit, hset1, hset0, hr]
    · refine ⟨?_, Or.inr ?_⟩
      · show (0 : Int) ≤ (H : Int) + 1
        omega
      · show RWFI (Int.ofNat H + 1).toNat r'
        rw [ofNat_add_one_toNat]
        refine ⟨_, hdata, hsl, ?_⟩
        intro e he
        rw [hused] at he
        simp only [List.mem_cons, List.not_mem_nil, or_false] at he
        rcases he with rfl | rfl
        · exact hLw
        · exact hRw
    · have hwf' : RWFI (H + 1) r' := by
        refine ⟨_, hdata, hsl, ?_⟩
        intro e he
        rw [hused] at he
        simp only [List.mem_cons, List.not_mem_nil, or_false] at he
        rcases he with rfl | rfl
        · exact hLw
        · exact hRw
      have hc2 : ((absT H X).2.count == rMaxEntries + 1) = true := by
        rw [hcM]; rfl
      simp only [absRTree, tailModel, hc2, if_true, ofNat_add_one_toNat, hsp]
      rw [absNode_eq_absT (H + 1) r' hwf']
      simp only [absT, hdata, nodeOf, hused, List.map_cons, List.map_nil, hbx', absT_fst]
  · have hcM : (absT H X).2.count ≠ 17 := by rw [hcntM]; have := hs.2.1; omega
    have hc' : (nd.count == IGen.rMaxEntries + 1) = false := by
      simp only [IGen.rMaxEntries]; simpa using hc
    have hc2 : ((absT H X).2.count == rMaxEntries + 1) = false := by
      simp only [rMaxEntries]; simpa using hcM
    refine ⟨IGen.RTree.mk (Int.ofNat H) X (cnt + 1) re, ?_, ?_, rfl, rfl, ?_⟩
    · unfold treeTail
      simp only [bind, hd, asRNode_rNode, Option.bind_some, hc', if_false, Bool.false_eq_true]
    · exact ⟨by show (0 : Int) ≤ (H : Int); omega, Or.inr hw⟩
    · simp only [absRTree, tailModel, hc2, if_false, Bool.false_eq_true, toNat_ofNat']
      rw [absNode_eq_absT H X hw, absT_eq]

/-- tightness of the root after the node-level insertion (the step `g3` of `RTree.insert_tight`) -/
theorem root_insert_tight (boxOf : Nat → GBox F) (mt : Geo.RTree F) (i : Nat) (hinv : mt.Inv boxOf)
    (ht : mt.Tight) :
    RT (if (rInsertNode (mt.rootOrNew (boxOf i, i)).1 (boxOf i, i) (mt.rootOrNew (boxOf i, i)).2).2
          then (mt.rootOrNew (boxOf i, i)).1.expand (boxOf i) else (mt.rootOrNew (boxOf i, i)).1)
      (rInsertNode (mt.rootOrNew (boxOf i, i)).1 (boxOf i, i) (mt.rootOrNew (boxOf i, i)).2).1 := by
  obtain ⟨h1, h2⟩ := RTree.rootOrNew_inv boxOf mt i hinv
  unfold RTree.Tight at ht
  unfold RTree.rootOrNew at h1 h2 ⊢
  cases htr : mt.root with
  | none =>
    simp only
    rw [rInsertNode]
    have : (boxOf i).contains (boxOf i) = true := (GBox.contains_iff _ _).2 (GBox.subset_refl _)
    simp only [this, Bool.not_true, Bool.false_eq_true, ↓reduceIte, List.nil_append]
    rw [RT_leaf]
    exact Tight.of_mem (by simp)
  | some r =>
    rw [htr] at h1 h2 ht
    simp only at h1 h2 ht ⊢
    exact rInsertNode_tight boxOf i _ _ mt.height h1 h2 ht

theorem tree_common (boxOf : Nat → GBox F) (fuel H : Nat) (mt : Geo.RTree F) (hmtH : mt.height = H)
    (cnt : Int) (re : List (IGen.RRect F)) (item : IGen.RRect F) (v : Int)
    (hbox : rbox item = boxOf v.toNat) (root0 nw : IGen.RRect F) (g : Bool)
    (hinvM : mt.Inv boxOf) (htM : mt.Tight)
    (hrb : rbox root0 = (mt.rootOrNew (boxOf v.toNat, v.toNat)).1)
    (hrec : rRect_insert ops fuel root0 item (Int.ofNat H) = some (nw, g)) (hwf : RWFI H nw)
    (hb : rbox nw = rbox root0)
    (hmod : ((absT H nw).2, g) = rInsertNode (mt.rootOrNew (boxOf v.toNat, v.toNat)).1
      (boxOf v.toNat, v.toNat) (mt.rootOrNew (boxOf v.toNat, v.toNat)).2) (hf : 18 ≤ fuel) :
    ∃ tr', ((rRect_insert ops fuel root0 item (Int.ofNat H)).bind fun p =>
        treeTail ops fuel (Int.ofNat H) cnt re (grownChild ops p.1 item p.2)) = some tr' ∧
      RTreeWFI tr' ∧ tr'.count = cnt + 1 ∧ tr'.reinsert = re ∧
      absRTree tr' = mt.insert (boxOf v.toNat, v.toNat) := by
  have hgt := root_insert_tight boxOf mt v.toNat hinvM htM
  obtain ⟨h1, h2⟩ := RTree.rootOrNew_inv boxOf mt v.toNat hinvM
  have hgi := (rInsertNode_inv boxOf v.toNat _ _ mt.height h1 h2).1
  rcases hr : mt.rootOrNew (boxOf v.toNat, v.toNat) with ⟨rb, rn⟩
  rw [hr] at hgt hgi hmod hrb
  simp only at hgt hgi hmod hrb
  have hins := RTree.insert_eq mt (boxOf v.toNat, v.toNat) rb rn hr (absT H nw).2 g hmod.symm
  rw [← hmod] at hgt hgi
  simp only at hgt hgi
  have hX2 : (absT H (grownChild ops nw item g)).2 = (absT H nw).2 :=
    absT_snd_data H nw _ (grownChild_data ops nw item g)
  have hXb : rbox (grownChild ops nw item g) = if g then rb.expand (boxOf v.toNat) else rb := by
    rw [grownChild_rbox, hb, hrb, hbox]
  have hXw : RWFI H (grownChild ops nw item g) := RWFI_data H nw _ (grownChild_data ops nw item g) hwf
  rw [← hXb, ← hX2] at hgt hgi
  obtain ⟨tr', e1, e2, e3, e4, e5⟩ := treeTail_eq ops boxOf fuel H cnt re (grownChild ops nw item g) hf hXw hgi hgt
  refine ⟨tr', ?_, e2, e3, e4, ?_⟩
  · rw [hrec]; exact e1
  · rw [e5, hins, hXb, hX2, hmtH]
    rfl

theorem absNode_nil' (h : Nat) (r : IGen.RRect F) (hn : r.data = .nil) : absNode h r = none := by
  cases h <;> simp [absNode, hn]

theorem toNat_eq_ofNat (H0 : Int) (h : 0 ≤ H0) : H0 = Int.ofNat H0.toNat := by
  show H0 = ((H0.toNat : Nat) : Int)
  omega

end TailEq

end Geo.IGlue.RIns

namespace Geo.IGlue
open Geo Geo.IGen Geo.IGlue.RIns Geo.IGlue.RSplit
open scoped Geo.KNum

variable {F S SR D : Type} [KNum F] [Carrier F] [Compat F] [CompatEq F] [LawfulCarrier F] [SignExactSub F]
  (ops : Ops F S SR D)

/-- **The generated `(*rTree).insert` is the model's `RTree.insert`.**  `tr` is a well-formed
    generated tree (`RTreeWFI`) whose abstraction satisfies the model invariants `Inv boxOf` (cover,
    uniform height; height 0 when empty), `Tight`, `Small`; the item is `(boxOf v, v)`.
    `hnil`: Go's `max == nil` test in `fit` is false for the two-element slice literal passed by
    `insert` (it is an abstract operation of `Ops`). -/
theorem rtree_insert_eq (boxOf : Nat → GBox F) (fuel : Nat) (tr : IGen.RTree F) (hwf : RTreeWFI tr)
    (hf : tr.height.toNat + 42 ≤ fuel) (hinv : (absRTree tr).Inv boxOf) (ht : (absRTree tr).Tight)
    (hs : (absRTree tr).Small) (item : IGen.RRect F) (v : Int) (hv : item.data = .int v) (hv0 : 0 ≤ v)
    (hbox : rbox item = boxOf v.toNat) (hnil : ops.floatsIsNil [item.max0, item.max1] = false) :
    ∃ tr', IGen.rTree_insert ops fuel tr item = some tr' ∧ RTreeWFI tr' ∧ tr'.count = tr.count + 1 ∧
      tr'.reinsert = tr.reinsert ∧ absRTree tr' = (absRTree tr).insert (rbox item, v.toNat) := by
  obtain ⟨H0, root, cnt, re⟩ := tr
  obtain ⟨hH, hroot⟩ := hwf
  simp only at hH hroot hf
  obtain ⟨H, rfl⟩ : ∃ H : Nat, H0 = Int.ofNat H := ⟨H0.toNat, toNat_eq_ofNat H0 hH⟩
  simp only [toNat_ofNat'] at hroot hf
  rw [rtree_insert_unfold, hbox]
  rcases hroot with hn | hwr
  · -- the empty tree: a fresh root fitted to the item
    have habs : absRTree (IGen.RTree.mk (Int.ofNat H) root cnt re) = ⟨H, none⟩ := by
      simp only [absRTree, toNat_ofNat', absNode_nil' H root hn]
    rw [habs] at hinv ht hs ⊢
    have hH0 : H = 0 := hinv
    subst hH0
    simp only [hn, Dyn.isNil, if_true, fit_eq ops _ _ _ _ _ _ hnil, Option.bind_some]
    have hw0 : RWFI 0 (RRect.mk (Dyn.rNode (IGen.RNode.mk 0 (List.replicate 17 (zeroRect : IGen.RRect F))))
        item.min0 item.min1 item.max0 item.max1) := by
      refine ⟨_, rfl, ⟨?_, ?_, ?_⟩, ?_⟩
      · simp only [rects_mk, List.length_replicate]
      · simp only [count_mk]; omega
      · simp only [count_mk]; omega
      · intro e he
        simp [usedSlots] at he
    have hsm0 : RSmall (absT 0 (RRect.mk (Dyn.rNode (IGen.RNode.mk 0 (List.replicate 17 (zeroRect : IGen.RRect F))))
        item.min0 item.min1 item.max0 item.max1)).2 := by
      simp [absT, nodeOf, usedSlots, RSmall]
    obtain ⟨nw, g, hrec, hwf', hb, hmod⟩ := rinsert_leaf ops boxOf item v hv hv0 hbox fuel _ (by omega) hw0 hsm0
    exact tree_common ops boxOf fuel 0 ⟨0, none⟩ rfl cnt re item v hbox _ nw g hinv ht
      (by rw [← hbox]; rfl) hrec hwf' hb (by rw [← hbox] at hmod ⊢; exact hmod) (by omega)
  · -- a non-empty tree
    obtain ⟨nd, hd, _⟩ := RWFI_node H root hwr
    have habs : absRTree (IGen.RTree.mk (Int.ofNat H) root cnt re) = ⟨H, some (rbox root, (absT H root).2)⟩ := by
      simp only [absRTree, toNat_ofNat']
      rw [absNode_eq_absT H root hwr, absT_eq]
    rw [habs] at hinv ht hs ⊢
    simp only [hd, Dyn.isNil, Bool.false_eq_true, if_false, Option.bind_some]
    obtain ⟨nw, g, hrec, hwf', hb, hmod⟩ := rinsert_core ops boxOf item v hv hv0 hbox H fuel root (by omega)
      hwr hinv.1 ht hs
    exact tree_common ops boxOf fuel H ⟨H, some (rbox root, (absT H root).2)⟩ rfl cnt re item v hbox root nw g
      hinv ht rfl hrec hwf' hb hmod (by omega)

/-- **The public `(*rTree).Insert`**: fitting the item rect and inserting. -/
theorem rtree_Insert_eq (boxOf : Nat → GBox F) (fuel : Nat) (tr : IGen.RTree F) (hwf : RTreeWFI tr)
    (hf : tr.height.toNat + 42 ≤ fuel) (hinv : (absRTree tr).Inv boxOf) (ht : (absRTree tr).Tight)
    (hs : (absRTree tr).Small) (x0 y0 x1 y1 : F) (v : Int) (hv0 : 0 ≤ v)
    (hbox : (⟨x0, y0, x1, y1⟩ : GBox F) = boxOf v.toNat) (hnil : ops.floatsIsNil [x1, y1] = false) :
    ∃ tr', IGen.rTree_Insert ops fuel tr [x0, y0] [x1, y1] (Dyn.int v) = some tr' ∧ RTreeWFI tr' ∧
      tr'.count = tr.count + 1 ∧ tr'.reinsert = tr.reinsert ∧
      absRTree tr' = (absRTree tr).insert (⟨x0, y0, x1, y1⟩, v.toNat) := by
  obtain ⟨tr', e1, e2, e3, e4, e5⟩ := rtree_insert_eq ops boxOf fuel tr hwf hf hinv ht hs
    (RRect.mk (Dyn.int v) x0 y0 x1 y1) v rfl hv0 hbox hnil
  refine ⟨tr', ?_, e2, e3, e4, e5⟩
  obtain ⟨H0, root, cnt, re⟩ := tr
  unfold IGen.rTree_Insert
  simp only [bind, fit_eq ops _ _ _ _ _ _ hnil, Option.bind_some, e1]

/-! ## building a tree -/

omit [KNum F] [Compat F] [CompatEq F] [LawfulCarrier F] [SignExactSub F] in
theorem insert_height_le (mt : Geo.RTree F) (item : GBox F × Nat) :
    (mt.insert item).height ≤ mt.height + 1 := by
  rcases hr : mt.rootOrNew item with ⟨rb, rn⟩
  rcases hi : rInsertNode rb item rn with ⟨rn', g⟩
  rw [RTree.insert_eq mt item rb rn hr rn' g hi]
  split
  · exact Nat.le_refl _
  · exact Nat.le_succ _

omit [KNum F] [Compat F] [CompatEq F] [LawfulCarrier F] [SignExactSub F] in
theorem rBuild_height_le (boxOf : Nat → GBox F) (n : Nat) : (rBuild boxOf n).height ≤ n := by
  induction n with
  | zero => simp [rBuild, RTree.empty]
  | succ n ih =>
    rw [rBuild_succ]
    have := insert_height_le (rBuild boxOf n) (boxOf n, n)
    omega

/-- one step of the index build in `geometry/series.go`: `tr.Insert(min, max, i)` with the rect of
    segment `i` -/
def buildStep (fuel : Nat) (boxOf : Nat → GBox F) (tr : IGen.RTree F) (i : Nat) : Option (IGen.RTree F) :=
  IGen.rTree_Insert ops fuel tr [(boxOf i).minx, (boxOf i).miny] [(boxOf i).maxx, (boxOf i).maxy]
    (Dyn.int (Int.ofNat i))

/-- **Building the R-tree.**  Inserting the segments `0 … n-1` in order into the empty generated
    tree never panics and yields a well-formed tree whose abstraction is the model's `rBuild boxOf n`
    (fuel `n + 42` always suffices: the height grows by at most one per insertion). -/
theorem rbuild_eq (boxOf : Nat → GBox F) (n fuel : Nat) (hf : n + 42 ≤ fuel)
    (hnil : ∀ i, i < n → ops.floatsIsNil [(boxOf i).maxx, (boxOf i).maxy] = false) :
    ∃ tr, (List.range n).foldlM (buildStep ops fuel boxOf) (IGen.RTree.mk 0 (zeroRect : IGen.RRect F) 0 [])
        = some tr ∧ RTreeWFI tr ∧ tr.count = Int.ofNat n ∧ tr.reinsert = [] ∧
      absRTree tr = rBuild boxOf n := by
  induction n with
  | zero =>
    refine ⟨_, rfl, ⟨Int.le_refl 0, Or.inl rfl⟩, rfl, rfl, ?_⟩
    simp [rBuild, RTree.empty, absRTree, absNode_nil' 0 (zeroRect : IGen.RRect F) rfl]
  | succ n ih =>
    obtain ⟨tr, e1, e2, e3, e4, e5⟩ := ih (by omega) (fun i hi => hnil i (by omega))
    have hh : tr.height.toNat ≤ n := by
      have := rBuild_height_le boxOf n
      rw [← e5] at this
      exact this
    obtain ⟨tr', g1, g2, g3, g4, g5⟩ := rtree_Insert_eq ops boxOf fuel tr e2 (by omega)
      (by rw [e5]; exact rBuild_inv boxOf n) (by rw [e5]; exact rBuild_tight boxOf n)
      (by rw [e5]; exact rBuild_small boxOf n)
      (boxOf n).minx (boxOf n).miny (boxOf n).maxx (boxOf n).maxy (Int.ofNat n)
      (by show (0 : Int) ≤ (n : Int); omega) rfl (hnil n (by omega))
    refine ⟨tr', ?_, g2, ?_, by rw [g4, e4], ?_⟩
    · rw [List.range_succ, List.foldlM_append, e1]
      simp only [bind, Option.bind_some, List.foldlM_cons, List.foldlM_nil, buildStep, g1]
      rfl
    · rw [g3, e3]; rfl
    · rw [g5, e5, rBuild_succ]; rfl

#print axioms Geo.IGlue.rtree_insert_eq
#print axioms Geo.IGlue.rtree_Insert_eq
#print axioms Geo.IGlue.rbuild_eq

end Geo.IGlue
