/-
  GeoProofs.ContainsConvex.Closed — the CLOSED region of a simple ring with the convex flag is
  the intersection of the closed inner half-planes of its edges; hence it is convex.
-/
import GeoProofs.ContainsConvex.Turn

namespace Geo
namespace CC
open Cvx Jordan

/-- data of a simple closed chain all of whose turns have orientation `σ` -/
structure CvxRing (L : List Pt) (P : Nat → Pt) (n : Nat) (σ : Rat) : Prop where
  simple : Simple0 P n
  edges : Spec.edges L true = (List.range n).map (fun i => (P i, P (i+1)))
  verts : ∀ v ∈ L, ∃ j, v = P j
  sig : σ = 1 ∨ σ = -1
  sup : ∀ i j, 0 ≤ σ * Spec.cross (P i) (P (i+1)) (P j)
  strict : ∃ i, Spec.cross (P i) (P (i+1)) (P (i+2)) ≠ 0

theorem cvxRing_of_simple (L : List Pt) (hs : Spec.simpleRing L = true)
    (hc : (processPoints L.toArray true).convex = true) :
    ∃ σ, CvxRing L (cyc L) (SeriesL.nptsL L) σ := by
  obtain ⟨hlen, -, hE, hS⟩ := ring_data L hs
  rcases flag_turns L hlen hc with ht | ht
  · refine ⟨1, hS, hE, mem_cyc L hlen, Or.inl rfl, fun i j => ?_, ?_⟩
    · rw [one_mul]; exact support_of_left hS ht i j
    · obtain ⟨i, hi⟩ := exists_strict_left hS ht
      exact ⟨i, ne_of_gt hi⟩
  · refine ⟨-1, hS, hE, mem_cyc L hlen, Or.inr rfl, fun i j => ?_, ?_⟩
    · have := support_of_right hS ht i j; linarith
    · obtain ⟨i, hi⟩ := exists_strict_right hS ht
      exact ⟨i, ne_of_lt hi⟩

theorem parity_zero_out (L : List Pt) (a b : Pt) (hab : a ≠ b) (σ : Rat) (sig : σ = 1 ∨ σ = -1)
    (hall : ∀ v ∈ L, 0 ≤ σ * Spec.cross a b v) (x : Pt) (hx : σ * Spec.cross a b x ≤ 0)
    (hb : Spec.onBoundary (Spec.edges L true) x = false) :
    Spec.parity (Spec.edges L true) x = 0 := by
  rcases sig with rfl | rfl
  · exact parity_zero_of_halfplane L a b hab (fun v hv => by have := hall v hv; linarith) x
      (by linarith) hb
  · refine parity_zero_of_halfplane L b a (Ne.symm hab) (fun v hv => ?_) x ?_ hb
    · rw [K.cross_swap]; have := hall v hv; linarith
    · rw [K.cross_swap]; linarith

theorem scross_pos_of_strictIn (L : List Pt) (a b : Pt) (hab : a ≠ b) (σ : Rat)
    (sig : σ = 1 ∨ σ = -1) (hall : ∀ v ∈ L, 0 ≤ σ * Spec.cross a b v) (x : Pt)
    (hs : Spec.strictIn (Spec.edges L true) x = true) : 0 < σ * Spec.cross a b x := by
  rcases sig with rfl | rfl
  · have := cross_pos_of_strictIn L a b hab (fun v hv => by have := hall v hv; linarith) x hs
    linarith
  · have := cross_pos_of_strictIn L b a (Ne.symm hab) (fun v hv => by
      rw [K.cross_swap]; have := hall v hv; linarith) x hs
    rw [K.cross_swap] at this
    linarith

/-- on the closed inner side of every edge line -/
def InAll (L : List Pt) (σ : Rat) (x : Pt) : Prop :=
  ∀ e ∈ Spec.edges L true, 0 ≤ σ * Spec.cross e.1 e.2 x

section
variable {L : List Pt} {P : Nat → Pt} {n : Nat} {σ : Rat} (R : CvxRing L P n σ)
include R

theorem CvxRing.npos : 0 < n := by have := R.simple.n3; omega

theorem CvxRing.edge_mem (i : Nat) : (P i, P (i+1)) ∈ Spec.edges L true := by
  obtain ⟨e1, e2⟩ := R.simple.congr (x := i) (x' := i % n) (Nat.mod_mod _ _)
  rw [R.edges, List.mem_map]
  exact ⟨i % n, List.mem_range.2 (Nat.mod_lt _ R.npos), by rw [e1, e2]⟩

theorem CvxRing.mem_edge (e : Pt × Pt) (he : e ∈ Spec.edges L true) :
    ∃ i, i < n ∧ e = (P i, P (i+1)) := by
  rw [R.edges, List.mem_map] at he
  obtain ⟨i, hi, rfl⟩ := he
  exact ⟨i, List.mem_range.1 hi, rfl⟩

theorem CvxRing.getElem? (j : Nat) (f : Pt × Pt) (h : (Spec.edges L true)[j]? = some f) :
    j < n ∧ f = (P j, P (j+1)) := by
  rw [R.edges] at h
  by_cases hj : j < n
  · simp only [List.getElem?_map, List.getElem?_range hj, Option.map_some, Option.some.injEq] at h
    exact ⟨hj, h.symm⟩
  · rw [List.getElem?_eq_none (by simp; omega)] at h
    cases h

theorem CvxRing.hall (i : Nat) : ∀ v ∈ L, 0 ≤ σ * Spec.cross (P i) (P (i+1)) v := by
  intro v hv
  obtain ⟨j, rfl⟩ := R.verts v hv
  exact R.sup i j

theorem CvxRing.vertex_inAll (j : Nat) : InAll L σ (P j) := by
  intro e he
  obtain ⟨i, -, rfl⟩ := R.mem_edge e he
  exact R.sup i j

/-- every point of an edge is on the closed inner side of every edge line -/
theorem CvxRing.boundary_inAll (x : Pt) (hb : Spec.onBoundary (Spec.edges L true) x = true) :
    InAll L σ x := by
  unfold Spec.onBoundary at hb
  rw [List.any_eq_true] at hb
  obtain ⟨f, hf, hon⟩ := hb
  obtain ⟨j, -, rfl⟩ := R.mem_edge f hf
  intro e he
  obtain ⟨i, -, rfl⟩ := R.mem_edge e he
  exact scross_nonneg_onSeg σ ((spec_onSeg_iff _ _ _).1 hon) (R.sup i j) (R.sup i (j+1))

/-- (⇒) a point of the closed region is on the closed inner side of every edge line -/
theorem CvxRing.inRing_inAll (x : Pt) (h : Spec.inRing (Spec.edges L true) x = true) :
    InAll L σ x := by
  by_cases hb : Spec.onBoundary (Spec.edges L true) x = true
  · exact R.boundary_inAll x hb
  · have hb' : Spec.onBoundary (Spec.edges L true) x = false := by simpa using hb
    have hs : Spec.strictIn (Spec.edges L true) x = true := by
      unfold Spec.inRing at h
      unfold Spec.strictIn
      rw [hb'] at h ⊢
      simpa using h
    intro e he
    obtain ⟨i, -, rfl⟩ := R.mem_edge e he
    exact (scross_pos_of_strictIn L _ _ (R.simple.ne i) σ R.sig (R.hall i) x hs).le

theorem CvxRing.sig_ne : σ ≠ 0 := by
  rcases R.sig with h | h <;> rw [h] <;> norm_num

/-- a point off the boundary is off the line of some edge -/
theorem CvxRing.exists_off_line (x : Pt) (hb : Spec.onBoundary (Spec.edges L true) x = false) :
    ∃ k, k < n ∧ Spec.cross (P k) (P (k+1)) x ≠ 0 := by
  obtain ⟨i, hi⟩ := R.strict
  by_contra hcon
  have hall : ∀ k, Spec.cross (P k) (P (k+1)) x = 0 := by
    intro k
    obtain ⟨e1, e2⟩ := R.simple.congr (x := k) (x' := k % n) (Nat.mod_mod _ _)
    rw [← e1, ← e2]
    by_contra hk
    exact hcon ⟨k % n, Nat.mod_lt _ R.npos, hk⟩
  have hx : x = P (i+1) := lines_meet (hall i) (hall (i+1)) hi
  have : Spec.onBoundary (Spec.edges L true) x = true := by
    unfold Spec.onBoundary
    rw [List.any_eq_true]
    exact ⟨_, R.edge_mem i, (spec_onSeg_iff _ _ _).2 (by rw [hx]; exact K.onSeg_right _ _)⟩
  rw [hb] at this
  cases this

theorem CvxRing.onBoundary_of_onEdge (j : Nat) (x : Pt) (h : OnSeg (P j) (P (j+1)) x) :
    Spec.onBoundary (Spec.edges L true) x = true := by
  unfold Spec.onBoundary
  rw [List.any_eq_true]
  exact ⟨_, R.edge_mem j, (spec_onSeg_iff _ _ _).2 h⟩

end

end CC
end Geo
