/-
  GeoProofs.Reparse.Feature — C06, the recursive cases of the reparse theorem: Feature (incl. the
  Circle recognition), GeometryCollection, FeatureCollection; each relative to an induction
  hypothesis on the fuel of `parse`.
-/
import GeoProofs.Reparse.Leaf

namespace Geo

/-! ### which kinds the per-type parsers produce (no hypotheses on the document) -/

theorem parsePointCoords_posTok {rc : JVal} {pos : Pos} {ex : Option Extra}
    (h : parsePointCoords rc = .ok (pos, ex)) (hd : rc.DocOK) : PosTok pos := by
  unfold parsePointCoords at h
  cases hn : takeNums true rc.elems 0 with
  | error e => simp [hn, bind, Except.bind] at h
  | ok nums =>
    have hno := takeNums_ok true rc.elems 0 nums hn (by omega) (docOKL_iff.mpr hd.elems)
    simp only [hn, bind, Except.bind] at h
    match nums, hno, h with
    | [], _, h => simp at h
    | [_], _, h => simp at h
    | x :: y :: rest, hno, h =>
      simp only [pure, Except.pure, Except.ok.injEq, Prod.mk.injEq] at h
      obtain ⟨rfl, rfl⟩ := h
      exact posTok_mkPos (hno.1 x (by simp)) (hno.1 y (by simp))

/-- the centre of a parsed Point document: token texts and the validity check -/
theorem parsePointK_centre {o : POpts} {f : Nat} {k : Keys} {x : Obj} {c : Pos}
    (h : parsePointK o f k = .ok x) (hc : ∀ v, k.coordinates = some v → v.DocOK)
    (hcen : centreOf x = some c) (hfin : c.fin = true) :
    IsNumTok c.xs.toList ∧ IsNumTok c.ys.toList ∧ (o.requireValid && !(c.fin && c.p.valid)) = false := by
  unfold parsePointK at h
  cases hco : k.coordinates with
  | none => simp [hco] at h
  | some rc =>
    simp only [hco] at h
    by_cases ha : rc.isArray = true
    · simp only [ha, Bool.not_true, Bool.false_eq_true, if_false] at h
      cases hp : parsePointCoords rc with
      | error e => simp [hp] at h
      | ok res =>
        obtain ⟨pos, ex0⟩ := res
        simp only [hp] at h
        have htok := parsePointCoords_posTok hp (hc rc hco)
        generalize hob : (if ((withMembers ex0 k).isNone && o.allowSimplePoints) = true then Obj.spoint pos
                else Obj.point pos (withMembers ex0 k)) = ob at h
        by_cases hvalid : (o.requireValid && !ob.valid) = true
        · rw [if_pos hvalid] at h; cases h
        · rw [if_neg hvalid, Except.ok.injEq] at h
          subst h
          have hob' : centreOf ob = some pos ∧ ob.valid = (pos.fin && pos.p.valid) := by
            rw [← hob]; split <;> exact ⟨rfl, rfl⟩
          rw [hob'.1, Option.some.injEq] at hcen
          subst hcen
          rw [hob'.2] at hvalid
          exact ⟨(htok hfin).1, (htok hfin).2, by simpa using hvalid⟩
    · simp [ha] at h

theorem parseLineStringK_centre {o : POpts} {f : Nat} {k : Keys} {x : Obj}
    (h : parseLineStringK o f k = .ok x) : centreOf x = none := by
  unfold parseLineStringK at h
  repeat' (first | (cases h <;> rfl) | split at h | dsimp only at h)

theorem parsePolygonK_centre {o : POpts} {f : Nat} {k : Keys} {x : Obj}
    (h : parsePolygonK o f k = .ok x) : centreOf x = none := by
  rw [parsePolygonK_eq] at h
  split at h
  · cases h
  · split at h
    · cases h
    · split at h
      · cases h
      · split at h
        · cases h
        · cases h
          rename_i rings ex _ _ _
          rcases polyOb_cases o rings (withMembers ex k) with hpo | ⟨_, _, _, _, _, _, _, _, _, hpo⟩ <;>
            rw [hpo] <;> rfl

theorem parseMultiPointK_centre {o : POpts} {f : Nat} {k : Keys} {x : Obj}
    (h : parseMultiPointK o f k = .ok x) : centreOf x = none := by
  unfold parseMultiPointK at h
  repeat' (first | (cases h <;> rfl) | split at h | dsimp only at h)

theorem parseMultiLineStringK_centre {o : POpts} {f : Nat} {k : Keys} {x : Obj}
    (h : parseMultiLineStringK o f k = .ok x) : centreOf x = none := by
  rw [parseMultiLineStringK_eq] at h
  repeat' (first | (cases h <;> rfl) | split at h | dsimp only at h)

theorem parseMultiPolygonK_centre {o : POpts} {f : Nat} {k : Keys} {x : Obj}
    (h : parseMultiPolygonK o f k = .ok x) : centreOf x = none := by
  rw [parseMultiPolygonK_eq] at h
  repeat' (first | (cases h <;> rfl) | split at h | dsimp only at h)

theorem parseGeometryCollectionK_centre {o : POpts} {f : Nat} {k : Keys} {x : Obj}
    (h : parseGeometryCollectionK o f k = .ok x) : centreOf x = none := by
  unfold parseGeometryCollectionK at h
  repeat' (first | (cases h <;> rfl) | split at h | dsimp only at h)

theorem parseFeatureCollectionK_centre {o : POpts} {f : Nat} {k : Keys} {x : Obj}
    (h : parseFeatureCollectionK o f k = .ok x) : centreOf x = none := by
  unfold parseFeatureCollectionK at h
  repeat' (first | (cases h <;> rfl) | split at h | dsimp only at h)

theorem parseFeatureK_centre {o : POpts} {f : Nat} {k : Keys} {x : Obj}
    (h : parseFeatureK o f k = .ok x) (hd : DocOKM k.foreign) : centreOf x = none := by
  rw [parseFeatureK_eq] at h
  split at h
  · cases h
  · split at h
    · cases h
    · rcases featureOf_cases h hd with ⟨rfl, _⟩ | ⟨_, _, rfl, _⟩ <;> rfl

/-- inversion of `parse`: the document is an object with a string-valued `type` -/
theorem parse_inv {o : POpts} {n : Nat} {d : JVal} {x : Obj} (h : parse o n d = .ok x) :
    ∃ f ms r ty, n = f + 1 ∧ d = .obj ms ∧ (scanKeys ms).type = some (.str r ty) ∧
      parseTyped o f (scanKeys ms) ty = .ok x := by
  cases n with
  | zero => simp [parse] at h
  | succ f =>
    cases d with
    | obj ms =>
      have h' := h
      rw [parse] at h
      split at h
      · cases h
      · rename_i r ty hk
        exact ⟨f, ms, r, ty, rfl, rfl, hk, by rw [← parse_obj_str o f ms r ty hk]; exact h'⟩
      · cases h
    | _ => simp [parse] at h

/-- facts about a well-formed object document that the per-type lemmas need -/
theorem doc_facts {ms : List Member} (hdoc : (JVal.obj ms).DocOK) :
    ((∀ v, (scanKeys ms).type = some v → v.DocOK) ∧ (∀ v, (scanKeys ms).coordinates = some v → v.DocOK) ∧
      (∀ v, (scanKeys ms).geometries = some v → v.DocOK) ∧ (∀ v, (scanKeys ms).geometry = some v → v.DocOK) ∧
      (∀ v, (scanKeys ms).features = some v → v.DocOK)) ∧ DocOKM (scanKeys ms).foreign := by
  simp only [JVal.DocOK] at hdoc
  exact ⟨scanKeys_mem JVal.DocOK ms (fun m hm => (docOKM_iff.mp hdoc m hm).2), hdoc.foreign⟩

/-- the centre of a parsed point-like object (needed when a Feature is recognised as a Circle:
    the base geometry is dropped, only its position survives) -/
theorem parse_centre {o : POpts} {n : Nat} {d : JVal} {x : Obj} {c : Pos} (h : parse o n d = .ok x)
    (hd : d.DocOK) (hcen : centreOf x = some c) (hfin : c.fin = true) :
    IsNumTok c.xs.toList ∧ IsNumTok c.ys.toList ∧ (o.requireValid && !(c.fin && c.p.valid)) = false := by
  obtain ⟨f, ms, r, ty, rfl, rfl, hty, ht⟩ := parse_inv h
  obtain ⟨hmem, hfd⟩ := doc_facts hd
  have no : centreOf x = none → False := fun h0 => by rw [h0] at hcen; cases hcen
  unfold parseTyped at ht
  split at ht
  · exact parsePointK_centre ht hmem.2.1 hcen hfin
  · exact (no (parseLineStringK_centre ht)).elim
  · exact (no (parsePolygonK_centre ht)).elim
  · exact (no (parseMultiPointK_centre ht)).elim
  · exact (no (parseMultiLineStringK_centre ht)).elim
  · exact (no (parseMultiPolygonK_centre ht)).elim
  · exact (no (parseGeometryCollectionK_centre ht)).elim
  · exact (no (parseFeatureCollectionK_centre ht)).elim
  · exact (no (parseFeatureK_centre ht hfd)).elim
  · cases ht


/-! ### Feature: the foreign members after one round -/

theorem centreOf_addProps (b : Obj) : centreOf (addProps b) = centreOf b := by
  cases b <;> simp [addProps, centreOf]

theorem propsM_text : cjTail [memText propsM] = ",\"properties\":{}" := by decide

theorem featFm_nonspecial {k : Keys} (hns : ∀ m ∈ k.foreign, isSpecialKey m.2.1 = false) :
    ∀ m ∈ featFm k, isSpecialKey m.2.1 = false := by
  intro m hm
  unfold featFm at hm
  rcases List.mem_append.mp hm with hm | hm
  · exact hns m hm
  · split at hm
    · simp only [List.mem_singleton] at hm; subst hm; decide
    · cases hm

theorem featFm_of_hasProps {k : Keys} (h : k.hasProps = true) : featFm k = k.foreign := by
  simp [featFm, needProps_feature, h]

theorem featFm_of_not_hasProps {k : Keys} (h : k.hasProps = false) : featFm k = k.foreign ++ [propsM] := by
  simp [featFm, needProps_feature, h]

theorem hasProps_foreign_ne {k : Keys} (h : k.hasProps = true) : k.foreign ≠ [] := by
  intro h0
  simp [Keys.hasProps, h0] at h

/-- after the writer appended `"properties":{}` there is no Circle to recognise unless there was
    one before -/
theorem isCircleProps_featFm {k : Keys} (h : isCircleProps (featFm k) = true) :
    isCircleProps k.foreign = true ∧ k.foreign ≠ [] := by
  cases hp : k.hasProps with
  | true =>
    rw [featFm_of_hasProps hp] at h
    exact ⟨h, hasProps_foreign_ne hp⟩
  | false =>
    rw [featFm_of_not_hasProps hp] at h
    have hnone : k.foreign.find? (fun m => m.2.1 == "properties") = none := by
      rw [List.find?_eq_none]
      intro m hm
      simp only [Keys.hasProps, List.any_eq_false] at hp
      simpa using hp m hm
    have : (JVal.obj (k.foreign ++ [propsM])).get "properties" = some (.obj []) := by
      simp only [JVal.get, List.find?_append, hnone, Option.none_or]
      rfl
    simp only [isCircleProps, this] at h
    simp [JVal.get] at h

theorem renderMembers_snoc_props (m : Member) (fm : List Member) :
    JVal.renderMembers (m :: fm ++ [propsM]) = JVal.renderMembers (m :: fm) ++ ",\"properties\":{}" := by
  rw [renderMembers_eq_cj, renderMembers_eq_cj, List.map_append, List.map_cons, cj_cons]
  rw [List.cons_append, cj_cons, cjTail_append, List.map_cons, List.map_nil, propsM_text,
    String.append_assoc]

/-- the `extra` of the re-parsed Feature is the `addPropsEx` normal form of the original one -/
theorem withMembers_featFm (k k' : Keys) (hk : k'.foreign = featFm k) :
    withMembers none k' = addPropsEx (withMembers none k) := by
  have hany : k'.hasProps = true := by rw [Keys.hasProps, hk]; exact featFm_hasProps k
  have hne : k'.foreign ≠ [] := hasProps_foreign_ne hany
  have hm := keys_members_ne hne
  have hb : (k'.members == "") = false := by simpa using hm
  have hL : withMembers none k' = some ⟨0, [], k'.members, true⟩ := by
    simp only [withMembers, hb, Bool.false_eq_true, if_false, hany]
  rw [hL]
  unfold addPropsEx
  rw [needProps_feature]
  cases hp : k.hasProps with
  | true =>
    have hf := hasProps_foreign_ne hp
    have hmk := keys_members_ne hf
    have hbk : (k.members == "") = false := by simpa using hmk
    have : k'.members = k.members := by
      simp only [Keys.members, hk, featFm_of_hasProps hp]
    simp only [Bool.not_true, Bool.false_eq_true, if_false, withMembers, hbk, hp, this]
  | false =>
    simp only [Bool.not_false, if_true]
    by_cases hf : k.foreign = []
    · have hmk := keys_members_eq hf
      have : k'.members = "{\"properties\":{}}" := by
        simp only [Keys.members, hk, featFm_of_not_hasProps hp, hf, List.nil_append]
        decide
      simp only [withMembers, hmk, beq_self_eq_true, if_true, this]
    · have hmk := keys_members_ne hf
      have hbk : (k.members == "") = false := by simpa using hmk
      obtain ⟨m, fm, hmf⟩ := List.exists_cons_of_ne_nil hf
      have hkm : k.members = "{" ++ JVal.renderMembers (m :: fm) ++ "}" := by
        simp [Keys.members, hmf]
      have : k'.members = "{" ++ ((k.members.drop 1).dropEnd 1).toString ++ ",\"properties\":{}}" := by
        rw [hkm, strip_braces]
        simp only [Keys.members, hk, featFm_of_not_hasProps hp, hmf]
        rw [renderMembers_snoc_props]
        simp [String.append_assoc]
      simp only [withMembers, hbk, Bool.false_eq_true, if_false, hmk, this, hp]


/-! ### the recursive cases -/

/-- the induction hypothesis on fuel: what the reparse theorem says about documents accepted with
    fuel `f` -/
def ReparseIH (o : POpts) (f : Nat) : Prop :=
  ∀ d b, parse o f d = .ok b → AllFin b → d.DocOK →
    ∃ v, Written b v ∧ ∀ g, v.depth < g → parse o g v = .ok (addProps b)

/-- the same for lists of documents (children of a GeometryCollection / FeatureCollection) -/
def ReparseIHL (o : POpts) (f : Nat) : Prop :=
  ∀ ds bs, parseList o f ds = .ok bs → AllFinL bs → DocOKL ds →
    ∃ vs, WrittenL bs vs ∧ ∀ g, (∀ v ∈ vs, v.depth < g) → parseList o g vs = .ok (addPropsL bs)

theorem reparseIHL_of_IH {o : POpts} {f : Nat} (IH : ReparseIH o f) : ReparseIHL o f := by
  intro ds
  induction ds with
  | nil =>
    intro bs h _ _
    simp only [parseList, Except.ok.injEq] at h
    subst h
    exact ⟨[], rfl, fun g _ => by simp [parseList, addPropsL]⟩
  | cons d ds ih =>
    intro bs h hfin hdoc
    rw [parseList] at h
    cases hp : parse o f d with
    | error e => simp [hp] at h
    | ok c =>
      cases hl : parseList o f ds with
      | error e => simp [hp, hl] at h
      | ok cs =>
        simp only [hp, hl, Except.ok.injEq] at h
        subst h
        rw [AllFinL] at hfin
        rw [DocOKL] at hdoc
        obtain ⟨v, hw, hre⟩ := IH d c hp hfin.1 hdoc.1
        obtain ⟨vs, hws, hres⟩ := ih cs hl hfin.2 hdoc.2
        refine ⟨v :: vs, ⟨v, vs, rfl, hw, hws⟩, ?_⟩
        intro g hg
        rw [parseList, hre g (hg v (by simp)), hres g (fun w hw' => hg w (by simp [hw']))]
        rfl

def circleProps (rn : JVal) : Member :=
  mem "properties" (.obj [mem "type" (strV "Circle"), mem "radius" rn, mem "radius_units" (strV "m")])

section
variable (vf : String → Rat) (kf : String → String)
include vf kf

/-- re-parsing the document written for a recognised Circle -/
theorem reparse_circleDoc (o : POpts) (c : Pos) (m : String) (g : Nat) (hdc : o.disableCircle = false)
    (hf : c.fin = true) (hv : (o.requireValid && !(c.fin && c.p.valid)) = false) :
    parse o (g + 2) (mkObj "Feature" "geometry" (mkObj "Point" "coordinates" (posNode vf kf c []) [])
      [circleProps (extraN vf kf m)]) = .ok (.circle c m) := by
  rw [parse_mkObj_geometry o (g + 1) "Feature" _ _ (by
    intro m' hm'; simp only [List.mem_singleton] at hm'; subst hm'
    show isSpecialKey "properties" = false; decide)]
  rw [parseTyped_Feature, parseFeatureK_eq]
  simp only
  rw [parse_mkObj_coords o g "Point" _ _ (by simp), parseTyped_Point]
  have hpt : parsePointK o g { type := some (strV "Point"), coordinates := some (posNode vf kf c []), foreign := [] }
      = .ok (if o.allowSimplePoints then .spoint c else .point c none) := by
    unfold parsePointK
    simp only [posNode, JVal.isArray, Bool.not_true, Bool.false_eq_true, if_false]
    have := parsePointCoords_nodes vf kf c [] (by simp) hf
    simp only [posNode] at this
    rw [this]
    have hpe : pointEx [] = none := rfl
    simp only [hpe, withMembers_none_nil, Option.isNone_none, Bool.true_and]
    cases o.allowSimplePoints <;> simpa [Obj.valid] using hv
  rw [hpt]
  simp only
  cases o.allowSimplePoints <;>
    simp [featureOf, withMembers, Keys.members, hdc, circleProps, JVal.get, mem, strV, strOf, extraN, numN]

theorem reparse_feature (o : POpts) (f : Nat) (k : Keys) (x : Obj) (h : parseFeatureK o f k = .ok x)
    (hg : ∀ v, k.geometry = some v → v.DocOK) (hfd : DocOKM k.foreign)
    (hns : ∀ m ∈ k.foreign, isSpecialKey m.2.1 = false) (hfin : AllFin x) (IH : ReparseIH o f) :
    ∃ v, Written x v ∧ ∀ g, v.depth < g → parse o g v = .ok (addProps x) := by
  rw [parseFeatureK_eq] at h
  cases hgeo : k.geometry with
  | none => simp [hgeo] at h
  | some gd =>
    simp only [hgeo] at h
    cases hb : parse o f gd with
    | error e => simp [hb] at h
    | ok base =>
      simp only [hb] at h
      rcases featureOf_cases h hfd with ⟨rfl, hcond⟩ | ⟨c, m, rfl, hcen, hdc, hm⟩
      · -- an ordinary Feature
        obtain ⟨vb, hwb, hreb⟩ := IH gd base hb hfin (hg gd hgeo)
        refine ⟨mkObj "Feature" "geometry" vb (featFm k), ⟨vb, featFm k, hwb, membersV_feature hfd, rfl⟩, ?_⟩
        intro g hgd
        have hlt := mkObj_depth_lt "Feature" "geometry" vb (featFm k)
        obtain ⟨g', rfl⟩ : ∃ g', g = g' + 1 := ⟨g - 1, by omega⟩
        rw [parse_mkObj_geometry o g' "Feature" _ _ (featFm_nonspecial hns), parseTyped_Feature,
          parseFeatureK_eq]
        simp only
        rw [hreb g' (by omega)]
        simp only
        have hex := withMembers_featFm k
          { type := some (strV "Feature"), geometry := some vb, foreign := featFm k } rfl
        rw [featureOf_feature, hex]
        · rfl
        · rw [centreOf_addProps, hex]
          rcases hcond with hc0 | hc0 | hc0
          · exact .inl hc0
          · right; right
            cases hcp : isCircleProps (featFm k) with
            | false => simp
            | true =>
              have := (isCircleProps_featFm hcp).2
              have hm0 : (withMembers none k) ≠ none := by
                have hmk := keys_members_ne this
                have hbk : (k.members == "") = false := by simpa using hmk
                simp [withMembers, hbk]
              exact absurd hc0 hm0
          · right; right
            cases hcp : isCircleProps (featFm k) with
            | false => simp
            | true =>
              rw [(isCircleProps_featFm hcp).1] at hc0
              simpa using hc0
      · -- a Feature recognised as a Circle
        obtain ⟨hcf, hmn⟩ := hfin
        have hmt : IsNumTok m.toList := hm.resolve_left hmn
        obtain ⟨hx, hy, hv⟩ := parse_centre hb (hg gd hgeo) hcen hcf
        refine ⟨mkObj "Feature" "geometry" (mkObj "Point" "coordinates" (posNode vf kf c []) [])
          [circleProps (extraN vf kf m)], ?_, ?_⟩
        · exact ⟨posNode vf kf c [], extraN vf kf m,
            posV_posNode vf kf hx hy (rfl : extrasAt none 0 = some []) (by simp),
            .inr ⟨hmt, _, _, rfl⟩, rfl⟩
        · intro g hgd
          have h1 := mkObj_depth_lt "Feature" "geometry"
            (mkObj "Point" "coordinates" (posNode vf kf c []) []) [circleProps (extraN vf kf m)]
          have h2 := mkObj_depth_lt "Point" "coordinates" (posNode vf kf c []) []
          obtain ⟨g', rfl⟩ : ∃ g', g = g' + 2 := ⟨g - 2, by omega⟩
          exact reparse_circleDoc vf kf o c m g' hdc hcf hv

omit vf kf in
theorem reparse_geometryCollection (o : POpts) (f : Nat) (k : Keys) (x : Obj)
    (h : parseGeometryCollectionK o f k = .ok x)
    (hg : ∀ v, k.geometries = some v → v.DocOK) (hfd : DocOKM k.foreign)
    (hns : ∀ m ∈ k.foreign, isSpecialKey m.2.1 = false) (hfin : AllFin x) (IH : ReparseIHL o f) :
    ∃ v, Written x v ∧ ∀ g, v.depth < g → parse o g v = .ok (addProps x) := by
  unfold parseGeometryCollectionK at h
  cases hgs : k.geometries with
  | none => simp [hgs, reqArray] at h
  | some rc =>
    cases rc with
    | arr items =>
      simp only [hgs, reqArray, JVal.isArray, if_true] at h
      cases hl : parseList o f items with
      | error e => simp [hl] at h
      | ok children =>
        simp only [hl, Except.ok.injEq] at h
        subst h
        simp only [mkColl, AllFin] at hfin
        have hdi : DocOKL items := by simpa [JVal.DocOK] using hg _ hgs
        obtain ⟨vs, hws, hres⟩ := IH items children hl hfin hdi
        refine ⟨mkObj "GeometryCollection" "geometries" (.arr vs) k.foreign,
          ⟨vs, k.foreign, hws, membersV_withMembers rfl hfd, rfl⟩, ?_⟩
        intro g hgd
        have h1 := mkObj_depth_lt "GeometryCollection" "geometries" (.arr vs) k.foreign
        obtain ⟨g', rfl⟩ : ∃ g', g = g' + 1 := ⟨g - 1, by omega⟩
        rw [parse_mkObj_geometries o g' "GeometryCollection" _ _ hns, parseTyped_GeometryCollection]
        unfold parseGeometryCollectionK
        simp only [reqArray, JVal.isArray, if_true]
        rw [hres g' (fun v hv => by have := depth_lt_arr vs v hv; omega)]
        simp only [withMembers_mk, mkColl_addProps]
    | _ => simp [hgs, reqArray, JVal.isArray] at h

omit vf kf in
theorem reparse_featureCollection (o : POpts) (f : Nat) (k : Keys) (x : Obj)
    (h : parseFeatureCollectionK o f k = .ok x)
    (hg : ∀ v, k.features = some v → v.DocOK) (hfd : DocOKM k.foreign)
    (hns : ∀ m ∈ k.foreign, isSpecialKey m.2.1 = false) (hfin : AllFin x) (IH : ReparseIHL o f) :
    ∃ v, Written x v ∧ ∀ g, v.depth < g → parse o g v = .ok (addProps x) := by
  unfold parseFeatureCollectionK at h
  cases hgs : k.features with
  | none => simp [hgs, reqArray] at h
  | some rc =>
    cases rc with
    | arr items =>
      simp only [hgs, reqArray, JVal.isArray, if_true] at h
      cases hl : parseList o f items with
      | error e => simp [hl] at h
      | ok children =>
        simp only [hl, Except.ok.injEq] at h
        subst h
        simp only [mkColl, AllFin] at hfin
        have hdi : DocOKL items := by simpa [JVal.DocOK] using hg _ hgs
        obtain ⟨vs, hws, hres⟩ := IH items children hl hfin hdi
        refine ⟨mkObj "FeatureCollection" "features" (.arr vs) k.foreign,
          ⟨vs, k.foreign, hws, membersV_withMembers rfl hfd, rfl⟩, ?_⟩
        intro g hgd
        have h1 := mkObj_depth_lt "FeatureCollection" "features" (.arr vs) k.foreign
        obtain ⟨g', rfl⟩ : ∃ g', g = g' + 1 := ⟨g - 1, by omega⟩
        rw [parse_mkObj_features o g' "FeatureCollection" _ _ hns, parseTyped_FeatureCollection]
        unfold parseFeatureCollectionK
        simp only [reqArray, JVal.isArray, if_true]
        rw [hres g' (fun v hv => by have := depth_lt_arr vs v hv; omega)]
        simp only [withMembers_mk, mkColl_addProps]
    | _ => simp [hgs, reqArray, JVal.isArray] at h
end

end Geo
