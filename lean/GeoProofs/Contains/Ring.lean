/-
  GeoProofs.Contains.Ring — `ringContainsRing` / `ringContainsLine` are exact when no edge of
  the argument meets any edge of the ring, for arguments with fewer than 16 points (for which
  the rectangle shortcut is not taken), and for ≥ 16 points when in addition the ring's edges
  avoid the sides of the argument's bounding rectangle.  The shortcut on its own is NOT sound in
  general position: `ringContainsRing_shortcut_counterexample` (Props/C03General.lean).
-/
import GeoProofs.Contains.Segment

namespace Geo
open GL Jordan

/-- no edge of `es` meets any edge of `fs` -/
def NoContact (es fs : List (Pt × Pt)) : Prop :=
  ∀ e ∈ es, ∀ f ∈ fs, Spec.segsMeet e.1 e.2 f.1 f.2 = false

namespace Contains

theorem all_range_const (n : Nat) (f : Nat → Bool) (I : Bool) (hn : 0 < n)
    (h : ∀ i, i < n → f i = I) : (List.range n).all f = I := by
  cases I with
  | true =>
    rw [List.all_eq_true]
    intro i hi
    exact h i (List.mem_range.1 hi)
  | false =>
    rw [List.all_eq_false]
    exact ⟨0, List.mem_range.2 hn, by rw [h 0 hn]; exact Bool.false_ne_true⟩

theorem inRing_false_of_outside (pts : Array Pt) (p : Pt)
    (hp : (ringOf pts).rect.containsPt p = false) :
    Spec.inRing (Spec.edges pts.toList true) p = false := by
  obtain ⟨h1, h2⟩ := outside_rect pts p hp
  unfold Spec.inRing
  rw [h1, h2]; rfl

/-- the body of `ringContainsRing` on an argument all of whose points have the same membership
    `I`, none on the boundary, and all of whose segments avoid the ring -/
theorem body_core (pts : Array Pt) (other : Ring) (allow : Bool) (I : Bool)
    (hn : 0 < other.numPoints) (hm : 0 < other.numSegments)
    (hP : ∀ i, i < other.numPoints →
      Spec.onBoundary (Spec.edges pts.toList true) (other.pointAt i) = false ∧
      Spec.inRing (Spec.edges pts.toList true) (other.pointAt i) = I)
    (hS : ∀ j, j < other.numSegments → Avoids pts.toList (other.segmentAt j) ∧
      Spec.inRing (Spec.edges pts.toList true) (other.segmentAt j).a = I)
    (hR : (ringOf pts).rect.containsBox other.rect = false → I = false) :
    ringContainsRingBody (ringOf pts) other allow = I := by
  unfold ringContainsRingBody
  by_cases hr : (ringOf pts).rect.containsBox other.rect = true
  · rw [hr]
    simp only [Bool.not_true, Bool.false_eq_true, if_false]
    split_ifs
    · apply all_range_const _ _ _ hn
      intro i hi
      rw [(hit_of_offBoundary pts _ allow (hP i hi).1).1]
      exact (hP i hi).2
    · apply all_range_const _ _ _ hm
      intro j hj
      rw [Bool.eq_iff_iff, ringContainsSegment_of_avoids pts _ allow (hS j hj).1, (hS j hj).2]
  · have hr' : (ringOf pts).rect.containsBox other.rect = false := by simpa using hr
    rw [hr', hR hr']
    rfl

/-! ### a series as argument: its vertices are connected by its own segments -/

theorem numSegmentsOf_ge (pts : Array Pt) (closed : Bool)
    (hne : ((closed && pts.size < 3) || pts.size < 2) = false) :
    pts.size - 1 ≤ numSegmentsOf pts closed ∧ 2 ≤ pts.size := by
  unfold numSegmentsOf
  cases closed
  · simp only [Bool.false_and, Bool.false_or, decide_eq_false_iff_not, not_lt] at hne
    simp only [Bool.false_eq_true, if_false]
    rw [if_neg (by omega)]
    omega
  · simp only [Bool.true_and, Bool.or_eq_false_iff, decide_eq_false_iff_not, not_lt] at hne
    simp only [if_true]
    rw [if_neg (by omega)]
    split_ifs <;> omega

theorem segmentAtOf_a (pts : Array Pt) (i : Nat) : (segmentAtOf pts i).a = pts[i]! := rfl

theorem segmentAtOf_b (pts : Array Pt) (i : Nat) (h : i + 1 < pts.size) :
    (segmentAtOf pts i).b = pts[i+1]! := by
  unfold segmentAtOf
  simp only
  rw [if_neg (by simp; omega)]

/-- all vertices of a non-empty series whose edges avoid the chain have the same membership, and
    none lies on the chain -/
theorem chain_const (pts : List Pt) (opts : Array Pt) (closed : Bool)
    (hne : ((closed && opts.size < 3) || opts.size < 2) = false)
    (hav : NoContact (Spec.edges pts true) (Spec.edges opts.toList closed)) :
    ∀ i, i < opts.size →
      Spec.onBoundary (Spec.edges pts true) opts[i]! = false ∧
      Spec.inRing (Spec.edges pts true) opts[i]! = Spec.inRing (Spec.edges pts true) opts[0]! := by
  obtain ⟨hns, h2⟩ := numSegmentsOf_ge opts closed hne
  have hstep : ∀ i, i + 1 < opts.size →
      Spec.onBoundary (Spec.edges pts true) opts[i]! = false ∧
      Spec.onBoundary (Spec.edges pts true) opts[i+1]! = false ∧
      Spec.inRing (Spec.edges pts true) opts[i]! = Spec.inRing (Spec.edges pts true) opts[i+1]! := by
    intro i hi
    have hlt : i < numSegmentsOf opts closed :=
      Nat.lt_of_lt_of_le (by omega : i < opts.size - 1) hns
    have hmem := segmentAt_mem_edges opts closed i hlt
    rw [segmentAtOf_a, segmentAtOf_b opts i hi] at hmem
    have hav' : ∀ e ∈ Spec.edges pts true, Spec.segsMeet e.1 e.2 opts[i]! opts[i+1]! = false :=
      fun e he => hav e he (opts[i]!, opts[i+1]!) hmem
    obtain ⟨h1, h2⟩ := onBoundary_false_of_avoids hav'
    exact ⟨h1, h2, (inRing_const_of_avoids pts _ _ hav').1⟩
  intro i
  induction i with
  | zero => intro _; exact ⟨(hstep 0 (by omega)).1, rfl⟩
  | succ i ih =>
    intro hi
    obtain ⟨-, hb, he⟩ := hstep i hi
    exact ⟨hb, by rw [← he]; exact (ih (by omega)).2⟩

/-- membership of the argument as a whole: that of its first vertex -/
theorem body_series (pts : Array Pt) (o : Series) (allow : Bool)
    (hrect : o.rect = (processPoints o.pts o.closed).rect) (hne : o.empty = false)
    (hav : NoContact (Spec.edges pts.toList true) (Spec.edges o.pts.toList o.closed)) :
    ringContainsRingBody (ringOf pts) (.ser o) allow =
      Spec.inRing (Spec.edges pts.toList true) o.pts[0]! := by
  have hne' : ((o.closed && o.pts.size < 3) || o.pts.size < 2) = false := hne
  obtain ⟨hns, h2⟩ := numSegmentsOf_ge o.pts o.closed hne'
  have hc := chain_const pts.toList o.pts o.closed hne' hav
  have hle := numSegmentsOf_le o.pts o.closed
  have hpos : 0 < numSegmentsOf o.pts o.closed :=
    Nat.lt_of_lt_of_le (by omega : 0 < o.pts.size - 1) hns
  have hpos2 : 0 < o.pts.size := by omega
  apply body_core pts (.ser o) allow _ hpos2 hpos
  · intro i hi
    exact hc i hi
  · intro j hj
    have hj' : j < numSegmentsOf o.pts o.closed := hj
    refine ⟨fun e he => hav e he ((segmentAtOf o.pts j).a, (segmentAtOf o.pts j).b)
      (segmentAt_mem_edges o.pts o.closed j hj'), ?_⟩
    exact (hc j (Nat.lt_of_lt_of_le hj' hle)).2
  · intro hr
    have hr' : (ringOf pts).rect.containsBox (processPoints o.pts o.closed).rect = false := by
      rw [← hrect]; exact hr
    have hnot : ¬ ∀ q ∈ o.pts.toList, (ringOf pts).rect.containsPt q = true := by
      intro hall
      rw [(box_contains_seriesRect_iff _ o.pts o.closed (by simp [hne'])).2 hall] at hr'
      cases hr'
    push Not at hnot
    obtain ⟨q, hq, hqc⟩ := hnot
    obtain ⟨i, hi, rfl⟩ := List.getElem_of_mem hq
    simp only [Array.length_toList] at hi
    have := (hc i hi).2
    rw [getElem!_pos o.pts i hi] at this
    simp only [Array.getElem_toList] at hqc
    rw [← this]
    exact inRing_false_of_outside pts _ (by simpa using hqc)

end Contains
end Geo
