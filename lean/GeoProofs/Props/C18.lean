/-
  Property C18 (and the series part of C11): `processPoints` (bounding rectangle, convex
  flag, clockwise flag) and the NumSegments/SegmentAt rule of GeoModel.Series equal the
  executable specification of GeoModel.Driver / GeoModel.Spec for ALL vertex sequences,
  and the specification does not depend on the start vertex or on the repeated closing
  vertex.
-/
import GeoProofs.SeriesLemmas

namespace Geo
open SeriesL

/-! ### the rectangle is the tight bounding box -/

theorem rect_tight (pts : Array Pt) (closed : Bool)
    (h : ¬ ((closed && pts.size < 3) || pts.size < 2)) :
    some (processPoints pts closed).rect = Driver.bboxSpec pts.toList := by
  unfold processPoints
  rw [if_neg h]
  obtain ⟨L⟩ := pts
  have hsz : 2 ≤ L.length ∧ (closed = true → 3 ≤ L.length) := by
    cases closed <;> simp at h <;> simp <;> omega
  match L, hsz with
  | p :: rest, hsz =>
    simp only [List.size_toArray, List.length_cons] at *
    apply rect_of_fold
    · split_ifs with hc
      · simp only [Bool.and_eq_true, beq_iff_eq] at hc
        have := hsz.2 hc.1
        omega
      · omega
    · split_ifs with hc
      · right
        simp only [Bool.and_eq_true, beq_iff_eq] at hc
        have := hsz.2 hc.1
        refine ⟨by omega, ?_⟩
        simpa using hc.2
      · left; rfl

theorem bboxSpec_tight (pts : List Pt) (b : Box) (h : Driver.bboxSpec pts = some b) :
    (∀ p ∈ pts, b.min.x ≤ p.x ∧ p.x ≤ b.max.x ∧ b.min.y ≤ p.y ∧ p.y ≤ b.max.y) ∧
    (∃ p ∈ pts, p.x = b.min.x) ∧ (∃ p ∈ pts, p.x = b.max.x) ∧
    (∃ p ∈ pts, p.y = b.min.y) ∧ (∃ p ∈ pts, p.y = b.max.y) := by
  match pts, h with
  | p :: rest, h =>
    rw [bboxSpec_cons] at h
    injection h with h
    subst h
    obtain ⟨⟨h1, h2, h3, h4⟩, hall, a1, a2, a3, a4⟩ := bfold_spec rest ⟨p, p⟩
    refine ⟨?_, ?_, ?_, ?_, ?_⟩
    · intro q hq
      rcases List.mem_cons.1 hq with rfl | hq
      · exact ⟨h1, h2, h3, h4⟩
      · exact hall q hq
    · rcases a1 with a | ⟨q, hq, e⟩
      · exact ⟨p, by simp, a.symm⟩
      · exact ⟨q, by simp [hq], e⟩
    · rcases a2 with a | ⟨q, hq, e⟩
      · exact ⟨p, by simp, a.symm⟩
      · exact ⟨q, by simp [hq], e⟩
    · rcases a3 with a | ⟨q, hq, e⟩
      · exact ⟨p, by simp, a.symm⟩
      · exact ⟨q, by simp [hq], e⟩
    · rcases a4 with a | ⟨q, hq, e⟩
      · exact ⟨p, by simp, a.symm⟩
      · exact ⟨q, by simp [hq], e⟩

/-! ### convex flag = no two turns of opposite orientation -/

theorem convex_iff (pts : Array Pt) (h : 3 ≤ pts.size) :
    (processPoints pts true).convex = Driver.convexSpec pts.toList := by
  obtain ⟨L⟩ := pts
  simp only [List.size_toArray] at h
  rw [processPoints_convex L h, convexSpec_cyc L (by omega), convFold _ 0 false (Or.inl rfl)]
  simp

/-! ### clockwise flag = sign of the signed area -/

theorem clockwiseSpec_iff_area (pts : List Pt) :
    Driver.clockwiseSpec pts = decide (Spec.area2 pts < 0) := rfl

theorem clockwise_iff (pts : Array Pt) (h : 3 ≤ pts.size) :
    (processPoints pts true).clockwise = Driver.clockwiseSpec pts.toList := by
  obtain ⟨L⟩ := pts
  simp only [List.size_toArray] at h
  rw [processPoints_clockwise L h, clockwiseSpec_iff_area, area2_cyc L h]
  have := cyc_sum_zero (fun j => L[j]!) (nptsL L)
  congr 1
  apply propext
  constructor <;> intro <;> linarith

/-! ### the specification is a property of the cyclic polygon, not of its encoding

`v` is an open vertex cycle; `v ++ [v.head!]` is its closed encoding (closing vertex
repeated); `v.rotate k` starts the same cycle at vertex `k`. -/

theorem convexSpec_rotate (v : List Pt) (k : Nat) (hv : v ≠ []) :
    Driver.convexSpec ((v.rotate k) ++ [(v.rotate k).head!]) = Driver.convexSpec (v ++ [v.head!]) := by
  have hv' : v.rotate k ≠ [] := by simpa using hv
  simp only [Driver.convexSpec]
  rw [turnsOf_closed _ hv', turnsOf_closed _ hv, cycTurns_rotate,
    (List.rotate_perm _ k).any_eq, (List.rotate_perm _ k).any_eq]

theorem clockwiseSpec_rotate (v : List Pt) (k : Nat) (hv : v ≠ []) :
    Driver.clockwiseSpec ((v.rotate k) ++ [(v.rotate k).head!])
      = Driver.clockwiseSpec (v ++ [v.head!]) := by
  by_cases h : 2 ≤ v.length
  · rw [clockwiseSpec_iff_area, clockwiseSpec_iff_area, area2_closed _ (by simpa using h),
      area2_closed _ h, cycCross_rotate, (List.rotate_perm _ k).sum_eq]
  · have h1 : v.length = 1 := by
      have := List.length_pos_iff.2 hv
      omega
    obtain ⟨a, rfl⟩ := List.length_eq_one_iff.1 h1
    simp

theorem convexSpec_closing (v : List Pt) (h : 3 ≤ v.length) (hne : v.getLast? ≠ v.head?) :
    Driver.convexSpec (v ++ [v.head!]) = Driver.convexSpec v := by
  have hv : v ≠ [] := by intro e; simp [e] at h
  simp only [Driver.convexSpec]
  rw [turnsOf_closed _ hv, turnsOf_open _ (by omega) hne]

theorem clockwiseSpec_closing (v : List Pt) (h : 3 ≤ v.length) (hne : v.getLast? ≠ v.head?) :
    Driver.clockwiseSpec (v ++ [v.head!]) = Driver.clockwiseSpec v := by
  rw [clockwiseSpec_iff_area, clockwiseSpec_iff_area, area2_closed _ (by omega),
    area2_open _ h hne]

/-! ### hence the flags computed by `processPoints` do not depend on the encoding -/

theorem processPoints_rotate_convex (v : List Pt) (k : Nat) (h : 2 ≤ v.length) :
    (processPoints ((v.rotate k) ++ [(v.rotate k).head!]).toArray true).convex
      = (processPoints (v ++ [v.head!]).toArray true).convex := by
  have hv : v ≠ [] := by intro e; simp [e] at h
  rw [convex_iff _ (by simp; omega), convex_iff _ (by simp; omega)]
  exact convexSpec_rotate v k hv

theorem processPoints_rotate_clockwise (v : List Pt) (k : Nat) (h : 2 ≤ v.length) :
    (processPoints ((v.rotate k) ++ [(v.rotate k).head!]).toArray true).clockwise
      = (processPoints (v ++ [v.head!]).toArray true).clockwise := by
  have hv : v ≠ [] := by intro e; simp [e] at h
  rw [clockwise_iff _ (by simp; omega), clockwise_iff _ (by simp; omega)]
  exact clockwiseSpec_rotate v k hv

theorem processPoints_closing_convex (v : List Pt) (h : 3 ≤ v.length)
    (hne : v.getLast? ≠ v.head?) :
    (processPoints (v ++ [v.head!]).toArray true).convex
      = (processPoints v.toArray true).convex := by
  rw [convex_iff _ (by simp; omega), convex_iff _ (by simpa using h)]
  exact convexSpec_closing v h hne

theorem processPoints_closing_clockwise (v : List Pt) (h : 3 ≤ v.length)
    (hne : v.getLast? ≠ v.head?) :
    (processPoints (v ++ [v.head!]).toArray true).clockwise
      = (processPoints v.toArray true).clockwise := by
  rw [clockwise_iff _ (by simp; omega), clockwise_iff _ (by simpa using h)]
  exact clockwiseSpec_closing v h hne

/-- start-vertex independence for the encoding WITHOUT the closing vertex -/
theorem processPoints_rotate_convex_open (v : List Pt) (k : Nat) (h : 3 ≤ v.length)
    (hne : v.getLast? ≠ v.head?) (hne' : (v.rotate k).getLast? ≠ (v.rotate k).head?) :
    (processPoints (v.rotate k).toArray true).convex = (processPoints v.toArray true).convex := by
  rw [← processPoints_closing_convex v h hne,
    ← processPoints_closing_convex (v.rotate k) (by simpa using h) hne',
    processPoints_rotate_convex v k (by omega)]

theorem processPoints_rotate_clockwise_open (v : List Pt) (k : Nat) (h : 3 ≤ v.length)
    (hne : v.getLast? ≠ v.head?) (hne' : (v.rotate k).getLast? ≠ (v.rotate k).head?) :
    (processPoints (v.rotate k).toArray true).clockwise
      = (processPoints v.toArray true).clockwise := by
  rw [← processPoints_closing_clockwise v h hne,
    ← processPoints_closing_clockwise (v.rotate k) (by simpa using h) hne',
    processPoints_rotate_clockwise v k (by omega)]

/-! ### non-vacuity: concrete rings (kernel evaluation, no `native_decide`) -/

/-- a concave ring (the vertex (2,1) is a reflex vertex), counter-clockwise -/
def exConcave : Array Pt := #[⟨0,0⟩, ⟨4,0⟩, ⟨4,4⟩, ⟨2,1⟩, ⟨0,4⟩, ⟨0,0⟩]
/-- a convex ring traversed clockwise -/
def exClockwise : Array Pt := #[⟨0,0⟩, ⟨0,4⟩, ⟨4,4⟩, ⟨4,0⟩, ⟨0,0⟩]

example : (processPoints exConcave true).convex = false := by decide +kernel
example : (processPoints exConcave true).clockwise = false := by decide +kernel
example : Driver.convexSpec exConcave.toList = false := by decide +kernel
example : (processPoints exClockwise true).convex = true := by decide +kernel
example : (processPoints exClockwise true).clockwise = true := by decide +kernel
example : Driver.clockwiseSpec exClockwise.toList = true := by decide +kernel
example : Spec.area2 exClockwise.toList = -32 := by decide +kernel
example : (processPoints exConcave true).rect = ⟨⟨0,0⟩,⟨4,4⟩⟩ := by decide +kernel
-- same cycle, open encoding, started at another vertex: same flags
example : (processPoints #[⟨4,4⟩, ⟨2,1⟩, ⟨0,4⟩, ⟨0,0⟩, ⟨4,0⟩] true).convex = false := by
  decide +kernel
-- collinear and duplicate vertices do not make a ring concave
example : (processPoints #[⟨0,0⟩, ⟨2,0⟩, ⟨2,0⟩, ⟨4,0⟩, ⟨4,4⟩, ⟨0,0⟩] true).convex = true := by
  decide +kernel

/-! ### segment rule -/

theorem numSegments_spec (pts : Array Pt) (closed : Bool) :
    numSegmentsOf pts closed = (Spec.edges pts.toList closed).length := by
  obtain ⟨L⟩ := pts
  cases closed
  · simp only [numSegmentsOf, Spec.edges, List.size_toArray, Bool.false_eq_true, if_false,
      List.length_zip, List.length_tail]
    split_ifs <;> omega
  · simp only [numSegmentsOf, if_true, List.size_toArray]
    split_ifs with h1 h2
    · simp [Spec.edges, h1]
    · rw [edges_cyc L (by omega), List.length_map, List.length_range, nptsL]
      simp only [List.getElem!_toArray, beq_iff_eq] at h2
      rw [if_pos h2]
    · rw [edges_cyc L (by omega), List.length_map, List.length_range, nptsL]
      simp only [List.getElem!_toArray, beq_iff_eq] at h2
      rw [if_neg h2]

theorem segmentAt_spec (pts : Array Pt) (closed : Bool) (i : Nat)
    (h : i < numSegmentsOf pts closed) :
    (Spec.edges pts.toList closed)[i]? = some ((segmentAtOf pts i).a, (segmentAtOf pts i).b) := by
  obtain ⟨L⟩ := pts
  cases closed
  · simp only [numSegmentsOf, Bool.false_eq_true, if_false, List.size_toArray] at h
    have h2 : i + 1 < L.length := by split_ifs at h <;> omega
    simp only [Spec.edges, Bool.false_eq_true, if_false, segmentAtOf, List.getElem!_toArray,
      List.size_toArray]
    rw [zip_tail_getElem? L i h2, if_neg (by simp; omega)]
  · simp only [numSegmentsOf, if_true, List.size_toArray, List.getElem!_toArray, beq_iff_eq] at h
    have h3 : 3 ≤ L.length := by split_ifs at h <;> omega
    have hn : i < nptsL L := by
      unfold nptsL; split_ifs at h ⊢ <;> omega
    rw [edges_cyc L h3]
    simp only [List.getElem?_map, List.getElem?_range hn, Option.map_some, segmentAtOf,
      List.getElem!_toArray, List.size_toArray, beq_iff_eq]
    congr 2
    unfold nptsL at hn ⊢
    split_ifs at hn ⊢ with hc h4 h4
    · omega
    · by_cases h5 : i + 1 < L.length - 1
      · rw [Nat.mod_eq_of_lt h5]
      · have : i + 1 = L.length - 1 := by omega
        rw [this, Nat.mod_self, hc]
    · have : i + 1 = L.length := by omega
      rw [this, Nat.mod_self]
    · rw [Nat.mod_eq_of_lt (by omega)]
end Geo

#print axioms Geo.rect_tight
#print axioms Geo.bboxSpec_tight
#print axioms Geo.numSegments_spec
#print axioms Geo.segmentAt_spec
#print axioms Geo.clockwiseSpec_iff_area
#print axioms Geo.clockwise_iff
#print axioms Geo.convex_iff
#print axioms Geo.convexSpec_rotate
#print axioms Geo.clockwiseSpec_rotate
#print axioms Geo.convexSpec_closing
#print axioms Geo.clockwiseSpec_closing
#print axioms Geo.processPoints_rotate_convex
#print axioms Geo.processPoints_rotate_clockwise
#print axioms Geo.processPoints_closing_convex
#print axioms Geo.processPoints_closing_clockwise
#print axioms Geo.processPoints_rotate_convex_open
#print axioms Geo.processPoints_rotate_clockwise_open
