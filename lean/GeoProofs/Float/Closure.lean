/-
  GeoProofs.Float.Closure — `rn` lands in the binary64 values: below the overflow threshold
  (`InRange x`: |x| < 2^1024 - 2^970) the rounded value is a finite double.
-/
import GeoProofs.Float.RoundMono

namespace Geo.F

theorem rne_abs_lt {y : ℚ} {N : ℤ} (h : |y| < (N : ℚ) - 1 / 2) : |rne y| < N := by
  have h1 := abs_le.mp (abs_rne_sub_le y)
  obtain ⟨h2, h3⟩ := abs_lt.mp h
  have ha : ((rne y : ℤ) : ℚ) < N := by linarith
  have hb : -(N : ℚ) < ((rne y : ℤ) : ℚ) := by linarith
  rw [abs_lt]
  constructor
  · have : ((-N : ℤ) : ℚ) < ((rne y : ℤ) : ℚ) := by push_cast; exact hb
    exact_mod_cast this
  · exact_mod_cast ha

theorem rne_abs_le {y : ℚ} {N : ℤ} (h : |y| ≤ (N : ℚ)) : |rne y| ≤ N := by
  obtain ⟨h2, h3⟩ := abs_le.mp h
  rw [abs_le]
  exact ⟨le_rne (by push_cast; exact h2), rne_le h3⟩

/-- the quotient by the ulp has less than 54 bits -/
theorem abs_div_ulp_lt (x : ℚ) : |x / ulp x| < 2 ^ 53 := by
  have hu := ulp_pos x
  rw [abs_div, abs_of_pos hu, div_lt_iff₀ hu]
  have h1 := lt_zpow_ilog x
  have h2 : (2 : ℚ) ^ (ilog x + 1) ≤ 2 ^ 53 * ulp x := by
    unfold ulp
    have : (2 : ℚ) ^ (53 : ℕ) = 2 ^ (53 : ℤ) := by norm_cast
    rw [this, ← zpow_add₀ (by norm_num)]
    apply two_zpow_le
    unfold expo; omega
  exact h1.trans_le h2

theorem F64_rn {x : ℚ} (h : InRange x) : F64 (rn x) := by
  unfold InRange at h
  have hu := ulp_pos x
  have hlow : -1074 ≤ expo x := by unfold expo; omega
  -- the exponent is at most 971
  have hhigh : expo x ≤ 971 := by
    by_cases h0 : x = 0
    · subst h0; simp [expo, ilog]
    · have : |x| < (2 : ℚ) ^ (1024 : ℤ) := by
        have := two_zpow_pos 970
        generalize (2 : ℚ) ^ (1024 : ℤ) = A at *
        generalize (2 : ℚ) ^ (970 : ℤ) = B at *
        linarith
      have := ilog_lt_of_lt h0 this
      unfold expo; omega
  have hm := rne_abs_le (N := 2 ^ 53) (by push_cast; exact (abs_div_ulp_lt x).le)
  rcases hm.lt_or_eq with hlt | heq
  · exact ⟨rne (x / ulp x), expo x, hlt, hlow, hhigh, rfl⟩
  · -- |m| = 2^53: renormalise to 2^52 · 2^(u+1); impossible at the top exponent
    have hne : expo x ≠ 971 := by
      intro he
      have hux : ulp x = 2 ^ (971 : ℤ) := by unfold ulp; rw [he]
      have : |x / ulp x| < ((2 ^ 53 : ℤ) : ℚ) - 1 / 2 := by
        rw [abs_div, abs_of_pos hu, div_lt_iff₀ hu, hux]
        have e1 : (2 : ℚ) ^ (1024 : ℤ) = 2 ^ (53 : ℤ) * 2 ^ (971 : ℤ) := by
          rw [← zpow_add₀ (by norm_num)]; norm_num
        have e2 : (2 : ℚ) ^ (970 : ℤ) = 1 / 2 * 2 ^ (971 : ℤ) := by
          have : (2 : ℚ) ^ (971 : ℤ) = 2 ^ (970 : ℤ) * 2 := by
            rw [show (971 : ℤ) = 970 + 1 by norm_num, zpow_add₀ (by norm_num), zpow_one]
          rw [this]; ring
        rw [e1, e2] at h
        have e3 : ((2 ^ 53 : ℤ) : ℚ) = 2 ^ (53 : ℤ) := by norm_cast
        rw [e3]
        calc |x| < 2 ^ (53 : ℤ) * 2 ^ (971 : ℤ) - 1 / 2 * 2 ^ (971 : ℤ) := h
          _ = (2 ^ (53 : ℤ) - 1 / 2) * 2 ^ (971 : ℤ) := by ring
      have := rne_abs_lt this
      omega
    have hrn : rn x = (rne (x / ulp x) / 2 : ℚ) * 2 ^ (expo x + 1) := by
      unfold rn ulp
      rw [zpow_add₀ (by norm_num), zpow_one]; ring
    rcases abs_eq (by positivity : (0 : ℤ) ≤ 2 ^ 53) |>.mp heq with hp | hn
    · refine ⟨2 ^ 52, expo x + 1, by norm_num, by omega, by omega, ?_⟩
      rw [hrn, hp]; norm_num
    · refine ⟨-2 ^ 52, expo x + 1, by norm_num, by omega, by omega, ?_⟩
      rw [hrn, hn]; norm_num

/-- `rn` is idempotent (below overflow) -/
theorem rn_rn {x : ℚ} (h : InRange x) : rn (rn x) = rn x := rn_of_F64 (F64_rn h)

end Geo.F
