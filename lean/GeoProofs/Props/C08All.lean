/-
  C08, everything: Props/C08.lean (options change neither acceptance, JSON nor attributes) and
  Props/C08Pred.lean (index options change no predicate answer: object level and Parse level,
  with the side condition for contains and its counterexamples, D20).
-/
import GeoProofs.Props.C08
import GeoProofs.Props.C08Pred
