"""per-property configuration of bin/check"""

TRUSTED_BASE = [
    "Lean 4.33.0 kernel (thorough tier: re-checked with leanchecker)",
    "axioms reported by #print axioms: at most propext, Classical.choice, Quot.sound; no sorry/admit/axiom/native_decide/bv_decide (grep of the import closure)",
    "Mathlib v4.33.0 lemmas (single modules, proof files only)",
    "the translators of /verif/translate (go/ast, go/types, x/tools SSA) that regenerate Lean definitions from /repo on every run; what they do not recognise becomes `opaque` and breaks the bridge proofs",
    "hand-written Lean model of the Go code: tied to the regenerated definitions by bridge theorems where the property lists translators, and to /repo's behaviour by the correspondence run of this check",
    "IEEE-754: hardware and Go compute correctly rounded binary64 operations without FMA contraction changing a decision; the exact binary64 model over Q and the float bridge on regime E are proved (DESIGN.md section 3)",
    "external libraries by contract: gjson, pretty, strconv float formatting, tidwall/rtree for collection children (DESIGN.md section 7)",
    "bin/check (this driver), the Go harness and its generators",
]

RAY_TRIVIAL = {"ray1", "ray2", "ray4", "ray10"}
SI_TRIVIAL = {"si1", "si2"}

PROPS = {
    "C19": {
        "suites": ["c19"],
        "level": "proof",
        "translators": [{"name": "kernel", "out": "KernelGen.lean"}],
        "proof_module": "GeoProofs.Props.C19All",
        "theorems": ["Geo.onSeg_iff_param", "Geo.raycast_on_iff", "Geo.raycast_in_iff", "Geo.raycast_on_not_in", "Geo.raycast_symm", "Geo.segIntersects_iff", "Geo.segIntersects_symm", "Geo.segContainsSeg_iff", "Geo.segContainsSeg_iff_subset", "Geo.collinearPt_iff", "Geo.segBox_tight", "Geo.spec_onSeg_iff", "Geo.spec_crosses_iff", "Geo.spec_segsMeet_iff", "Geo.raycast_float_exact", "Geo.raycast_float_exact_fuel", "Geo.segIntersects_float_exact", "Geo.segIntersects_float_exact_val", "Geo.segIntersects_float_exact_partial", "Geo.containsSegment_float_exact", "Geo.collinearPoint_float_exact", "Geo.F.rn_of_F64", "Geo.F.rn_mono", "Geo.F.rn_neg", "Geo.F.rn_rel_error", "Geo.F.rn_eq_zero_iff", "Geo.F.cross_exact", "Geo.F.rn_quot_lt", "Geo.F.rn_quot_eq_iff", "Geo.F.fdiv_eq_iff", "Geo.F.fdiv_le_iff", "Geo.F.tcmp", "Geo.F.nudge_E", "Geo.F.F64_rn", "Geo.F.nextUp_least", "Geo.F.Grid_nextUp", "Geo.F.rn_quot_le_iff", "Geo.F.nextUp_E", "Geo.kgen_raycast_float_exact", "Geo.kgen_intersectsSegment_float_exact", "Geo.kgen_containsSegment_float_exact", "Geo.kgen_collinearPoint_float_exact", "Geo.F.kgen_raycast_handF", "Geo.F.kgen_intersects_handF", "Geo.kgen_segmentRect_float_exact", "Geo.kgen_segmentRect_float_minmax", "Geo.kgen_rectContainsPoint_float_exact", "Geo.kgen_rectIntersectsPoint_float_exact", "Geo.kgen_rectContainsRect_float_exact", "Geo.kgen_rectIntersectsRect_float_exact", "Geo.kgen_rectRect_float_exact", "Geo.kgen_pointValid_float_exact", "Geo.kgen_rectValid_float_exact", "Geo.kgen_pointRect_float_exact", "Geo.kgen_pointContainsPoint_float_exact", "Geo.kgen_pointIntersectsPoint_float_exact", "Geo.kgen_pointContainsRect_float_exact", "Geo.kgen_pointIntersectsRect_float_exact", "Geo.kgen_rectCenter_float_exact", "Geo.kgen_rectCenter_float_exact_E", "Geo.kgen_rectArea_float_exact", "Geo.kgen_rectArea_float_exact_E", "Geo.kgen_pointMove_float_exact", "Geo.kgen_pointMove_float_exact_E", "Geo.kgen_rectMove_float_exact", "Geo.kgen_rectMove_float_exact_E", "Geo.kgen_segmentMove_float_exact", "Geo.kgen_segmentMove_float_exact_E", "Geo.F.ofRat_F64", "Geo.F.kofNat_small"],
        "trivial_sigs": RAY_TRIVIAL | SI_TRIVIAL,
        "claim": "Proof (Lean 4): raycast on/in, segment-intersects (symmetric), segment-contains, collinear-point and segment box are exact for all rational points incl. degenerate segments, with the IEEE division corner cases handled explicitly. Float bridge (Props/FloatBridge.lean): the kernels RE-TRANSLATED from geometry/raycast.go and segment.go on every run (translate kernel -> Generated/KernelGen.lean), evaluated in an exact model of IEEE-754 binary64 (round-to-nearest-even over Q, Nextafter, NaN/Inf), equal the exact model on the whole regime E, return sites included (kgen_raycast_float_exact, kgen_intersects_float_exact, kgen_containsSegment_float_exact, kgen_collinearPoint_float_exact). Tie: exhaustive small lattices and adversarial random cases over E against the hand model, and the generated kernels at Float against the Go code on arbitrary doubles (NaN, Inf, denormals, huge magnitudes).",
        "rule": "exhaustive (segment,point) triples on the 5x5 lattice and segment pairs on the 4x4 lattice (6x6/5x5 thorough) "
                "plus random and adversarial cases over the regime E; a case is distinct by its op text and non-trivial when "
                "the model's return site is not a bounding-box / range early reject",
        "exhaustive_part": "all (segment,point) triples on the 5x5 integer lattice; all segment pairs on the 4x4 lattice",
    },
    "C18": {
        "suites": ["c18"],
        "level": "proof",
        "translators": [{"name": "seriesmeth", "out": "SeriesMethGen.lean"}, {"name": "series", "out": "SeriesGen.lean"}],
        "extra_modules": [{"module": "GeoProofs.Props.SeriesBridge", "theorems": ["Geo.SeriesBridge.numSegments", "Geo.SeriesBridge.segmentAt", "Geo.SeriesBridge.numPoints", "Geo.SeriesBridge.pointAt", "Geo.SeriesBridge.fields", "Geo.SeriesBridge.makeSeries_opts", "Geo.SeriesBridge.makeSeries_nil"]}],
        "proof_module": "GeoProofs.Props.C18All",
        "theorems": ["Geo.convex_iff", "Geo.clockwise_iff", "Geo.rect_tight", "Geo.bboxSpec_tight", "Geo.clockwiseSpec_iff_area", "Geo.numSegments_spec", "Geo.segmentAt_spec", "Geo.convexSpec_rotate", "Geo.clockwiseSpec_rotate", "Geo.convexSpec_closing", "Geo.clockwiseSpec_closing", "Geo.processPoints_rotate_convex", "Geo.processPoints_rotate_clockwise", "Geo.processPoints_closing_convex", "Geo.processPoints_closing_clockwise", "Geo.sgen_processPoints_noPanic", "Geo.sgen_processPoints_rect", "Geo.sgen_processPoints_convex", "Geo.sgen_processPoints_exact", "Geo.sgen_processPoints_exact_of_bound", "Geo.ringR1_sum", "Geo.ringR2_sum", "Geo.ringR1_partial", "Geo.ringR2_partial"],
        "trivial_sigs": {"at--"},
        "claim": "Proof (Lean 4): convex flag = no two opposite turns on the cyclic vertex sequence, clockwise flag = negative signed area, rectangle tight, both flags independent of start vertex and closing vertex, segment count/i-th segment rule - for every vertex sequence. Tie: all sequences of length <= 5 on the 3x3 lattice plus random long ones.",
        "rule": "every vertex sequence of length 1..5 on the 3x3 lattice as a closed ring (and short ones as open series), plus random "
                "sequences up to 300 points with duplicate and collinear vertices; non-trivial = a non-empty closed ring (convex/clockwise judged)",
        "exhaustive_part": "all 66429 vertex sequences of length 1..5 on the 3x3 lattice",
    },
    "C01": {
        "suites": ["c01"],
        "level": "proof",
        "extra_modules": [{"module": "GeoProofs.Props.LineBridge", "theorems": ["Geo.line_bridge_containsPoint", "Geo.line_bridge_containsPoint_noindex"]}, {"module": "GeoProofs.Props.RingBridge", "theorems": ["Geo.RingBridge.ringContainsPoint_hit_bridge", "Geo.RingBridge.ringContainsPoint_idx_bridge", "Geo.RingBridge.ringIntersectsPoint_bridge", "Geo.RingBridge.exact_rect", "Geo.RingBridge.exact_series", "Geo.RingBridge.exact_unindexed"]}, {"module": "GeoProofs.Props.GlueBridge", "theorems": ["Geo.glue_polyEmpty", "Geo.glue_polyRect", "Geo.glue_polyContainsPoint", "Geo.glue_polyIntersectsPoint", "Geo.glue_lineIntersectsPoint", "Geo.glue_nil"]}],
        "translators": [{"name": "linewalk", "out": "LineGen.lean"}, {"name": "ring", "out": "RingGen.lean"}, {"name": "glue", "out": "GlueGen.lean"}],
        "proof_module": "GeoProofs.Props.C01All",
        "theorems": ["Geo.containsPoint_fold_perm", "Geo.ringContainsPoint_hit_iff", "Geo.ringContainsPoint_hit_iff_none", "Geo.ringContainsPoint_hit_iff_quadtree", "Geo.ringContainsPoint_idx_on", "Geo.rectRing_containsPoint_iff", "Geo.polyContainsPoint_iff", "Geo.lineContainsPoint_iff", "Geo.rectContainsPoint_iff", "Geo.ringContainsPoint_index_indep", "Geo.ringContainsPoint_hit_iff_rtree", "Geo.polyContainsPoint_iff_rtree", "Geo.lineContainsPoint_iff_rtree", "Geo.c01_leaf_point_relations", "Geo.c01_obj_point_exact", "Geo.c01_obj_point_exact_shape", "Geo.Geom.C01Cfg.member_eq", "Geo.c01Cfg_poly_none", "Geo.c01Cfg_line_none", "Geo.c01Cfg_line_dyadic", "Geo.c01Cfg_poly_dyadic", "Geo.c01_point_relations_agree", "Geo.c01_intersects_point_all", "Geo.c01_contains_point_all", "Geo.c01_point_intersects_all"],
        "trivial_sigs": set(),
        "claim": "Proof (Lean 4): for every vertex list, every query point and every index kind/threshold the model's ring/polygon/line/rect membership equals the crossing-parity specification (ringContainsPoint_hit_iff, polyContainsPoint_iff, lineContainsPoint_iff; index independence via the C04 search-exactness theorems, which hold for all finite doubles); at object level all eight relations of every leaf kind with a Point / SimplePoint equal that specification, and collections / features answer iff some geometry leaf has the position as a member (Props/C01Obj*.lean); membership is index independent for every shape kind with no ring condition, and a moved shape contains the translated point iff the shape contains the point (Props/C01Move.lean). The membership code itself (ringContainsPoint, Poly.ContainsPoint hole loop, Line.ContainsPoint) is regenerated from ring.go / poly.go / line.go and proved equal to the model (RingBridge, GlueBridge, LineBridge). Tie: exhaustive small-lattice and random correspondence at geometry and object level under 8 index configurations, and under the representation options at object level.",
        "rule": "every ring of 3..4 vertices (5 thorough) on the 3x3 lattice against all 49 half-step query points, rotating through "
                "index configurations; random lines, rects, arbitrary and valid polygons (with holes, >=64 vertices) under 8 index "
                "configurations whose answers must agree; non-trivial = distinct (shape, query) case",
        "exhaustive_part": "all vertex sequences of length 3..4 on the 3x3 lattice x 49 query points",
    },
    "C04": {
        "suites": ["c04"],
        "level": "proof",
        "extra_modules": [{"module": "GeoProofs.Props.IndexBridge", "theorems": ["Geo.IndexBridge.rect_expand", "Geo.IndexBridge.rect_contains", "Geo.IndexBridge.rect_intersects", "Geo.IndexBridge.rect_largestAxis", "Geo.IndexBridge.rect_recalc", "Geo.IndexBridge.rect_chooseLeast", "Geo.IndexBridge.rect_split", "Geo.IndexBridge.rtree_tie_nan", "Geo.IndexBridge.rect_insert", "Geo.IndexBridge.rtree_Insert", "Geo.IndexBridge.rtree_build_eq", "Geo.IndexBridge.appendFloat", "Geo.IndexBridge.rect_compress", "Geo.IndexBridge.rtree_compress", "Geo.IndexBridge.rnCompressSearch", "Geo.IndexBridge.rCompressSearch", "Geo.IGlue.split_right_empty", "Geo.IndexBridge.numBytes", "Geo.IndexBridge.chooseQuad", "Geo.IndexBridge.quadBounds", "Geo.IndexBridge.appendNum", "Geo.IndexBridge.readNum", "Geo.IndexBridge.compress", "Geo.IndexBridge.compressSearch", "Geo.IndexBridge.insert", "Geo.IndexBridge.quadtree_build_eq", "Geo.IGlue.compress_differs_2pow32"]}, {"module": "GeoProofs.Props.SeriesBridge", "theorems": ["Geo.SeriesBridge.search", "Geo.SeriesBridge.buildIndex", "Geo.SeriesBridge.buildIndex_built", "Geo.SeriesBridge.makeSeries_opts", "Geo.SeriesBridge.makeSeries_nil", "Geo.SeriesBridge.move", "Geo.SeriesBridge.header_buildIndexBytes", "Geo.SeriesBridge.inv_makeSeries", "Geo.SeriesBridge.inv_move"]}, {"module": "GeoProofs.Props.C04Move", "theorems": ["Geo.Series.move_pts", "Geo.Series.move_closed", "Geo.Series.move_cases", "Geo.mkSeries_index_some_size", "Geo.Series.move_eq_mkSeries", "Geo.Series.move_search_exact_dyadic", "Geo.buildIndexBytes_rtree_header", "Geo.Series.move_rtree_eq"]}],
        "translators": [{"name": "index", "out": "IndexGen.lean"}, {"name": "seriesmeth", "out": "SeriesMethGen.lean"}],
        "proof_module": "GeoProofs.Props.C04All",
        "theorems": ["Geo.qtree_search_exact", "Geo.rtree_search_exact", "Geo.rtree_search_exact_of_NE", "Geo.rBuild_items_counterexample", "Geo.readNum_appendNum", "Geo.qSearchTree_eq_foldUntil", "Geo.qVisit_perm_filter", "Geo.qInsert_inv", "Geo.qInsert_items", "Geo.qBuild_spec", "Geo.rSearchTree_eq_foldUntil", "Geo.rVisit_eq_filter", "Geo.splitEntries_perm", "Geo.rBuild_spec'", "Geo.series_search_exact_none", "Geo.series_search_exact_quadtree", "Geo.series_search_exact_rtree", "Geo.segBox_inside_rect", "Geo.series_search_exact_rtree_dyadic", "Geo.series_search_exact_dyadic", "Geo.decF64_encF64", "Geo.rtree_search_exact_patched", "Geo.rBuild_good", "Geo.searchAny_perm", "Geo.searchAny_index_indep", "Geo.intersectsSegment_fold_perm", "Geo.ringIntersectsSegment_index_indep", "Geo.ringIntersectsSegmentS_index_indep", "Geo.ringIntersectsLine_index_indep", "Geo.ringIntersectsRing_index_indep", "Geo.lineIntersectsLine_index_indep", "Geo.lineContainsLine_index_indep", "Geo.lineContainsPoint_index_indep", "Geo.polyContainsPoint_index_indep", "Geo.polyIntersectsLine_index_indep", "Geo.polyIntersectsPoly_index_indep", "Geo.polyIntersectsRect_index_indep", "Geo.ringContainsSegment_index_indep", "Geo.ringContainsSegment_index_indep_simple", "Geo.ringContainsSegmentS_false_index_indep", "Geo.ringContainsRing_index_indep", "Geo.ringContainsLine_index_indep", "Geo.Geom.Sim.intersects", "Geo.Geom.Sim.contains", "Geo.geom_intersects_index_indep", "Geo.geom_intersects_index_indep₂", "Geo.geom_contains_index_indep", "Geo.geom_contains_index_indep₂", "Geo.geom_intersects_index_indep_sized", "Geo.geom_contains_index_indep_sized", "Geo.ringContainsSegmentS_eq_V", "Geo.ringContainsSegmentS_eq_L", "Geo.ringContainsSegment_order_dependent_counterexample", "Geo.pinched_unindexed", "Geo.ringContainsSegment_not_sim_invariant", "Geo.rtree_series_foldOn", "Geo.ring17_rOrder", "Geo.ringContainsSegment_rtree_vs_none", "Geo.ringContainsSegment_not_index_indep", "Geo.geom_contains_rtree_vs_none", "Geo.qtree_series_foldOn", "Geo.ring37_strip_order", "Geo.ringContainsSegment_quadtree_vs_none", "Geo.DF.instLawfulCarrierDbl", "Geo.DF.instSignExactSubDbl", "Geo.DF.ieee_sub_neg", "Geo.DF.ieee_sub_pos", "Geo.DF.decD_encD", "Geo.DF.qtree_search_exact_dbl", "Geo.DF.rtree_search_exact_dbl", "Geo.DF.rtree_search_exact_patched_dbl", "Geo.DF.gseries_search_exact", "Geo.DF.series_search_exact_dbl", "Geo.DF.C04_series_dbl", "Geo.DF.toFQ_sub", "Geo.DF.toFQ_mul", "Geo.DF.toFQ_mid"],
        "trivial_sigs": {"se0"},
        "claim": "Proof (Lean 4), any carrier whose comparison is a strict weak order (nothing assumed about midpoints; R-tree: subtraction with exact sign), any size, any query: searching the compressed quadtree / R-tree bytes is the early-exit fold over a visit list that is a permutation of the brute-force filter, never an out-of-range read; codec round trip; series-level corollaries for all three index kinds; a moved series IS a freshly built series on the translated points and searches exactly (Props/C04Move.lean: Series.move_eq_mkSeries, Series.move_search_exact_dyadic). Tie: index BYTES and callback sequences compared with the implementation. Index independence of the predicates (Props/C04Indep.lean): Geom.intersects has the same answer under every index configuration for all 16 kind pairs; Geom.contains likewise when the left polygon's exterior and the right polygon's holes are convex or edge-simple; for self-touching rings the clause is false (kernel-checked counterexamples on the model's real R-tree and quadtree = known finding D20).",
        "rule": "series of sizes 0..1000 (..70000 thorough) in 7 layouts, open and closed, under no index / R-tree / quadtree: index bytes "
                "compared with the model's, searches with strip, infinite, degenerate and empty queries at 4 stop positions; plus "
                "implementation-only checks on arbitrary doubles; non-trivial = a search that visits at least one segment",
    },
    "C02": {
        "suites": ["c02"],
        "level": "proof",
        "extra_modules": [{"module": "GeoProofs.Props.LineBridge", "theorems": ["Geo.line_bridge_intersectsLine", "Geo.line_bridge_intersectsLine_noindex"]}, {"module": "GeoProofs.Props.RingBridge", "theorems": ["Geo.RingBridge.ringIntersectsSegment_bridge", "Geo.RingBridge.ringIntersectsRing_bridge", "Geo.RingBridge.ringIntersectsLine_bridge", "Geo.RingBridge.exact_rect", "Geo.RingBridge.exact_series", "Geo.RingBridge.exact_unindexed"]}, {"module": "GeoProofs.Props.GlueBridge", "theorems": ["Geo.glue_polyIntersectsRect", "Geo.glue_polyIntersectsLine", "Geo.glue_polyIntersectsPoly", "Geo.glue_rectIntersectsLine", "Geo.glue_rectIntersectsPoly", "Geo.glue_lineIntersectsRect", "Geo.glue_lineIntersectsPoly"]}],
        "translators": [{"name": "linewalk", "out": "LineGen.lean"}, {"name": "ring", "out": "RingGen.lean"}, {"name": "glue", "out": "GlueGen.lean"}],
        "proof_module": "GeoProofs.Props.C02All",
        "theorems": ["Geo.rect_intersects_rect_iff", "Geo.rect_intersects_rect_illformed", "Geo.rect_intersects_symm", "Geo.lineIntersectsLine_iff", "Geo.lineIntersectsLine_symm", "Geo.lineIntersectsLine_iff_mk", "Geo.point_intersects_iff", "Geo.point_intersects_line_iff", "Geo.point_intersects_rect_spec", "Geo.geom_intersects_symm_pointrect", "Geo.geom_intersects_dispatch_symm", "Geo.geom_intersects_symm_partial", "Geo.ringIntersectsSegment_sound", "Geo.ringIntersectsSegment_sound_mk", "Geo.vertex_on_segment", "Geo.ringIntersectsLine_sound", "Geo.ringIntersectsRing_sound", "Geo.edge_identity", "Geo.edge_flip", "Geo.parity_add_eq_crossings", "Geo.parity_const_of_avoids", "Geo.parity_flips_of_one_proper_crossing_idx", "Geo.parity_flips_of_one_proper_crossing", "Geo.inRing_const_of_avoids", "Geo.segment_outside_of_avoids", "Geo.segment_inside_of_avoids", "Geo.region_meets_segment_iff", "Geo.ringIntersectsSegment_exact_all", "Geo.ringIntersectsSegment_exact_indexed", "Geo.ringIntersectsSegment_exact", "Geo.ringIntersectsSegment_two_edges", "Geo.rectRingIntersectsSegment_exact", "Geo.rectRing_region", "Geo.rectRing_illformed", "Geo.ringIntersectsLine_exact_all", "Geo.ringIntersectsLine_exact", "Geo.rectRingIntersectsLine_exact", "Geo.ringIntersectsRing_exact_all", "Geo.ringIntersectsRing_exact", "Geo.rectRingIntersectsRing_exact", "Geo.regions_share_iff", "Geo.spec_meets_iff", "Geo.geom_intersects_iff_noholes", "Geo.geom_intersects_exact_noholes", "Geo.geom_intersects_symm_noholes", "Geo.ringContainsRing_strict_exact", "Geo.spec_meets_iff_holes", "Geo.geom_intersects_exact_holes_of_convexOK", "Geo.geom_intersects_symm_holes_of_convexOK", "Geo.holesConvexOK_of_nonconvex", "Geo.geom_intersects_exact_holes_of_nonconvex", "Geo.IX.convexOK_rect", "Geo.IX.two_edges_of_meets", "Geo.IX.regions_disjoint_of_boundaries_out", "Geo.IX.strict_nesting_rect", "Geo.IX.rect_filled_strict", "Geo.IX.region_inside_of_boundary_inside", "Geo.convexOK_of_support", "Geo.supportOK_of_simple", "Geo.convexOK_of_simple", "Geo.holesConvexOK_of_valid", "Geo.geom_intersects_exact_holes", "Geo.geom_intersects_symm_holes", "Geo.pentagram_not_convex"],
        "trivial_sigs": set(),
        "claim": "Proof (Lean 4): for un-indexed shapes, intersects equals the exact point-set specification (share a point) for ALL 16 kind pairs of VALID shapes, holes included, with no further hypothesis (geom_intersects_exact_holes, symmetry as corollary geom_intersects_symm_holes): discrete Jordan lemma (GeoProofs/Jordan) + the convexity theorem for simple rings (GeoProofs/Convex: a simple ring whose turns all have one sign bounds a convex region; false without simplicity: pentagram_not_convex). Soundness of true for arbitrary (invalid) shapes; rect x rect, point x X, line x line exact for arbitrary inputs. Indexed shapes: via C04 index independence (unconditional for intersects), stated outright in Props/C02Indexed.lean (geom_intersects_exact_indexed, geom_intersects_symm_indexed: any index configuration on either side). Tie: correspondence on generated pairs in contact configurations judged against the executable specification.",
        "rule": "sampled (thorough: all) ordered pairs of small shapes on the 3x3 lattice; generated polygons (rectangles, notched, "
                "star-shaped, with holes) against probes built from their vertices, edge midpoints and nearby lattice points, both operand "
                "orders, 5 index configurations; non-trivial = distinct pair judged by the exact oracle (both shapes valid)",
    },
    "C03": {
        "suites": ["c03"],
        "level": "proof",
        "extra_modules": [{"module": "GeoProofs.Props.LineBridge", "theorems": ["Geo.line_bridge_containsLine_O", "Geo.line_bridge_containsLine", "Geo.line_bridge_containsLine_nil", "Geo.line_bridge_containsPoly", "Geo.line_bridge_containsPoly_nil", "Geo.line_bridge_built", "Geo.line_bridge_nil", "Geo.LineGlue.lineContainsLine_eq_F", "Geo.LineGlue.lineContainsPoly_eq_F"]}, {"module": "GeoProofs.Props.RingBridge", "theorems": ["Geo.RingBridge.ringContainsSegment_bridge", "Geo.RingBridge.ringContainsRing_bridge", "Geo.RingBridge.ringContainsRing_unique", "Geo.RingBridge.ringContainsLine_bridge", "Geo.RingBridge.exact_rect", "Geo.RingBridge.exact_series", "Geo.RingBridge.exact_unindexed"]}, {"module": "GeoProofs.Props.GlueBridge", "theorems": ["Geo.glue_polyContainsRect", "Geo.glue_polyContainsLine", "Geo.glue_polyContainsPoly", "Geo.glue_rectContainsLine", "Geo.glue_rectContainsPoly", "Geo.glue_lineContainsRect"]}, {"module": "GeoProofs.Props.C03Convex", "theorems": ["Geo.closedRegion_convex", "Geo.closedRegion_iff_halfplanes", "Geo.ringContainsSegment_convex_flag", "Geo.ringContainsSegment_convex_exact", "Geo.ringContainsRing_convex_exact", "Geo.ringContainsLine_convex_exact", "Geo.poly_contains_exact_convex", "Geo.simpleRing_imp_ringSimple", "Geo.geom_contains_index_indep_valid", "Geo.geom_contains_index_indep_valid_sized", "Geo.plain_eq_build", "Geo.geom_contains_exact_convex_indexed", "Geo.rect_contains_exact_valid", "Geo.contains_exact_convex_receivers", "Geo.geom_contains_reflX_convex", "Geo.geom_contains_reflY_convex", "Geo.geom_contains_transpose_convex", "Geo.ringContainsRing_vertices_sound", "Geo.convex_flag_nonsimple_counterexample"]}, {"module": "GeoProofs.Props.C03Spec", "theorems": ["Geo.spec_covers_iff", "Geo.jordan_two_components", "Geo.spec_interiorPoint_strict", "Geo.spec_covers_refl", "Geo.spec_covers_trans", "Geo.spec_covers_imp_meets", "Geo.spec_covers_antisymm"]}],
        "translators": [{"name": "linewalk", "out": "LineGen.lean"}, {"name": "ring", "out": "RingGen.lean"}, {"name": "glue", "out": "GlueGen.lean"}],
        "proof_module": "GeoProofs.Props.C03All",
        "theorems": ["Geo.line_walk_terminates", "Geo.line_containsLine_eq", "Geo.rect_contains_rect_iff", "Geo.rect_contains_rect_illformed", "Geo.rect_contains_point_iff", "Geo.rect_contains_point_spec", "Geo.point_contains_point_iff", "Geo.point_contains_rect_iff", "Geo.box_contains_seriesRect_iff", "Geo.rect_contains_line_iff", "Geo.rect_contains_line_empty", "Geo.rect_contains_line_iff_onSeg", "Geo.rect_contains_poly_iff", "Geo.rect_contains_rectpoly", "Geo.seriesRect_eq_ptbox_iff", "Geo.point_contains_line_iff", "Geo.point_contains_poly_iff", "Geo.line_contains_point_iff", "Geo.line_contains_point_spec", "Geo.D4_wrong_true", "Geo.D4_wrong_false", "Geo.D5_wrong_true", "Geo.D5_wrong_false", "Geo.D13_wrong_true", "Geo.ringContainsSegment_of_avoids", "Geo.ringContainsSegment_of_avoids_all", "Geo.ringContainsSegment_false_of_avoids", "Geo.ringContainsRing_of_avoids", "Geo.ringContainsRing_of_avoids_all", "Geo.ringContainsRing_of_avoids_rect", "Geo.ringContainsLine_of_avoids", "Geo.ringIntersectsSegment_of_avoids", "Geo.ringIntersectsLine_strict_of_avoids", "Geo.ringIntersectsRing_strict_of_avoids", "Geo.poly_contains_line_of_no_contact", "Geo.poly_contains_rect_of_no_contact", "Geo.poly_contains_point_exact", "Geo.poly_contains_poly_noholes_of_no_contact", "Geo.poly_contains_exact_of_no_contact", "Geo.poly_containsPoly_closed_form", "Geo.line_contains_of_no_contact", "Geo.interiorOK_of_check", "Geo.ringContainsRing_shortcut_counterexample", "Geo.poly_contains_general_position_counterexample"],
        "trivial_sigs": set(),
        "claim": "Partial proof (Lean 4): point and rect receivers exact; Line.ContainsLine terminates (fuel never exhausted); in general position (the boundaries of the two shapes avoid one another, the >=16-point rectangle shortcut excluded) contains of polygon x line/rect/polygon equals the specification (poly_contains_exact_of_no_contact and companions, via the discrete Jordan lemma); machine-checked witnesses of the recorded defects D4/D5/D13/D19. Exactness in contact configurations is NOT proved (and is false: known findings). Decided there by correspondence plus the exact cut-and-sample specification (Spec.covers); pinned wrong answers are attributed to known findings only when implementation == model on that input and the contact signature matches.",
        "rule": "as C02, plus ring-level contains/intersects-segment exports; non-trivial = distinct pair judged by the exact oracle",
    },
    "C05": {
        "suites": ["c05docs", "c05obj"],
        "level": "proof", "extra_modules": [{"module": "GeoProofs.Props.ParseBridge", "theorems": ["Geo.ParseBridge.parse_bridge", "Geo.ParseBridge.parse_bridge_nil"]}, {"module": "GeoProofs.Props.LineBridge", "theorems": ["Geo.line_bridge_containsLine", "Geo.line_bridge_containsPoly"]}],
        "translators": [{"name": "parsers", "out": "ParseGen.lean"}, {"name": "linewalk", "out": "LineGen.lean"}],
        "proof_module": "GeoProofs.Props.C05", "theorems": ["Geo.parse_fuel_sufficient", "Geo.parseTop_total", "Geo.parseTop_unmodelled_only_string_radius", "Geo.parse_extraOK", "Geo.write_some_of_extraOK", "Geo.parse_then_write_no_panic"],
        "trivial_sigs": set(),
        "claim": "Proof on the model (Lean 4): Parse is total and its fuel is never exhausted, every parsed object has a complete extras table so the writers never index out of range, the repaired Line.ContainsLine walk terminates (and the walk regenerated from line.go equals the model's for every fuel above (n+2)(m+2): LineBridge); the Parse functions regenerated from the source agree with the model (parse_bridge). Tie: outcome correspondence (value/error/panic/timeout) under a watchdog on documents, mutations, arbitrary bytes, index-stressing layouts, overflowing literals (xinf) and every method on all kind pairs. Stack depth and wall-clock are not modelled.",
        "rule": "outcomes (value / error enum / panic / timeout) of Parse on grammar-generated documents, structured mutations, arbitrary bytes, "
                "truncations and splices, and of every query method on ordered pairs of objects of all kinds (empty collections, zero-length "
                "segments, repeated vertices, nested features), each in a worker process under a per-op watchdog; non-trivial = distinct op",
    },
    "C06": {
        "suites": ["c06"],
        "level": "proof", "extra_modules": [{"module": "GeoProofs.Props.WriteBridge", "theorems": ["Geo.WriteBridge.write_unique", "Geo.WriteBridge.appendJSONPoint_bridge", "Geo.WriteBridge.appendJSONExtra_bridge", "Geo.WriteBridge.appendJSONSeries_bridge", "Geo.WriteBridge.appendJSON_bridge"]}],
        "translators": [{"name": "writers", "out": "WriteGen.lean"}],
        "proof_module": "GeoProofs.Props.C06", "theorems": ["Geo.render_writeV", "Geo.written_tokOK", "Geo.reparse_ok_partial", "Geo.reparse_ok_partial_lineString", "Geo.lineCoords_roundtrip", "Geo.polyCoords_roundtrip", "Geo.feature_has_properties", "Geo.members_preserved_partial", "Geo.isRectRing_rectRing", "Geo.reparse_main", "Geo.reparse_normal_form'", "Geo.reparse_normal_form", "Geo.reparse_ok", "Geo.write_addProps", "Geo.write_fixpoint", "Geo.reparse_valid", "Geo.geometry_preserved", "Geo.members_preserved", "Geo.multi_children_no_members", "Geo.circle_drops_members", "Geo.circle_written_shape", "Geo.reparse_example_feature", "Geo.reparse_example_circle", "Geo.addProps_valid", "Geo.addProps_idem", "Geo.dropFeatEx_addProps", "Geo.featExs_addProps"],
        "trivial_sigs": set(),
        "claim": "Proof on the AST model (Lean 4): every accepted finite document is accepted again from its written AST under the same options as the same object up to the normal form addProps (a Feature without properties gains an empty one), writing is a fixpoint after one step (reparse_ok, reparse_normal_form, write_addProps, write_fixpoint), positions/extras/child order/foreign members are preserved (geometry_preserved, members_preserved; a recognised Circle keeps only centre and radius: circle_drops_members); the text is the rendering of that AST (render_writeV). Trusted: text<->AST decoding and the number codec (DocOK). Tie: byte-exact correspondence of the writers and an implementation-side round-trip oracle built on encoding/json; known finding D18 (negative zero under AllowRects).",
        "rule": "grammar-generated accepted documents (9 types + Circle convention, nesting, 2-4-D and mixed positions, duplicate/escaped keys, "
                "foreign members, whitespace) under random options: implementation JSON compared byte-for-byte with the model's writer, and the "
                "round-trip clauses (re-parse accepted, same kind, fixpoint, information preserved, same answers) judged on the implementation "
                "with encoding/json as the reference decoder; non-trivial = distinct document",
    },
    "C07": {
        "suites": ["c07"],
        "level": "proof", "extra_modules": [{"module": "GeoProofs.Props.ParseBridgeFinding", "theorems": ["Geo.ParseBridgeFinding.model_rejects", "Geo.ParseBridgeFinding.generated_accepts"]}, {"module": "GeoProofs.Props.ParseBridge", "theorems": ["Geo.ParseBridge.kinds_bridge", "Geo.ParseBridge.parseJSONMultiPoint_bridge", "Geo.ParseBridge.parseJSONMultiLineString_bridge", "Geo.ParseBridge.parseJSONMultiPolygon_bridge", "Geo.ParseBridge.parseJSONFeature_bridge", "Geo.ParseBridge.polyFin_bridge", "Geo.ParseBridge.parseJSON_bridge", "Geo.ParseBridge.parse_bridge", "Geo.ParseBridge.parse_bridge_nil", "Geo.ParseBridge.parseJSONPolygonCoords_bridge", "Geo.ParseBridge.parseJSONPolygon_bridge", "Geo.ParseBridge.parseInitRectIndex_bridge", "Geo.ParseBridge.parseJSONGeometryCollection_bridge", "Geo.ParseBridge.parseJSONFeatureCollection_bridge", "Geo.ParseBridge.scan_bridge", "Geo.ParseBridge.defaultOptions_bridge", "Geo.ParseBridge.parseJSONPoint_bridge", "Geo.ParseBridge.parseJSONLineString_bridge", "Geo.ParseBridge.parseJSONPointCoords_bridge", "Geo.ParseBridge.parseJSONLineStringCoords_bridge", "Geo.ParseBridge.parseBBoxAndExtras_bridge", "Geo.ParseBridge.toGeometryOpts_bridge"]}],
        "translators": [{"name": "parsers", "out": "ParseGen.lean"}],
        "proof_module": "GeoProofs.Props.C07", "theorems": ["Geo.defect_rejected", "Geo.wf_accepted_partial", "Geo.wf_accepted_counterexample", "Geo.wf_decoded"],
        "trivial_sigs": set(),
        "claim": "Proof on the AST model (Lean 4): every document with a listed defect is rejected (defect_rejected), every well-formed document without a dimension increase is accepted and decodes to the reference reading (wf_accepted_partial, wf_decoded); the dimension-increase case is a proved counterexample = known finding D11. Tie: the harness decodes each text with encoding/json into the AST and compares accept/reject, error kind and output bytes.",
        "rule": "well-formed documents must be accepted (and decode as the reference reader says), documents with one of the listed structural "
                "defects must be rejected; plus arbitrary bytes; non-trivial = distinct document",
    },
    "C08": {
        "suites": ["c08"],
        "level": "proof", "proof_module": "GeoProofs.Props.C08All", "theorems": ["Geo.index_opts_accept_same", "Geo.index_opts_error_same", "Geo.index_opts_obsEq", "Geo.obsEq_write", "Geo.obsEq_attrs", "Geo.allowSimplePoints_write", "Geo.requireValid_filter", "Geo.allowRects_write_partial", "Geo.allowRects_write_counterexample", "Geo.obsEq_sim", "Geo.obsEq_intersects", "Geo.obsEq_contains", "Geo.obsEq_within", "Geo.obsEq_contains_ringsSafe", "Geo.obsEq_spatial", "Geo.dyadic_searchOK", "Geo.obsEq_intersects_dyadic", "Geo.obsEq_contains_dyadic", "Geo.parse_built", "Geo.parseTop_index_opts", "Geo.parse_index_opts_intersects", "Geo.parse_index_opts_contains", "Geo.parse_index_opts_intersects'", "Geo.parse_index_opts_contains'", "Geo.parse_contains_rtree_vs_none", "Geo.parse_index_opts_contains_counterexample", "Geo.parse_contains_holes_rtree_vs_none", "Geo.parse_index_opts_contains_holes_counterexample"],
        "trivial_sigs": set(),
        "claim": "Proof on the AST model (Lean 4): index options change neither acceptance nor the object up to index bytes nor its JSON/attributes (index_opts_obsEq, obsEq_write, obsEq_attrs) NOR any Intersects answer against any object (obsEq_intersects, parse_index_opts_intersects: object level and Parse level, all kinds, for dyadic coordinates within the size bounds), nor Contains/Within when polygon rings are convex or edge-simple (obsEq_contains, parse_index_opts_contains; the side condition cannot be dropped: parse_index_opts_contains_counterexample = known finding D20); AllowSimplePoints changes only the constructor; RequireValid is exactly a filter; AllowRects preserves the JSON except for a negative-zero corner (proved counterexample = known finding D18). Tie: the same text under a matrix of options, groups of JSON / attributes / predicate answers must be identical.",
        "rule": "each document parsed under a matrix of option sets (index thresholds 0,1,n,n+1,64 x both kinds; simple points; rects): JSON, "
                "attributes and predicate answers against probe objects must be identical across the matrix; require-valid judged as a filter",
    },
    "C09": {
        "suites": ["c09"],
        "level": "proof", "extra_modules": [{"module": "GeoProofs.Props.ObjBridge", "theorems": ["Geo.ObjBridge.point_forEach", "Geo.ObjBridge.point_empty", "Geo.ObjBridge.point_valid", "Geo.ObjBridge.point_rect", "Geo.ObjBridge.point_spatial", "Geo.ObjBridge.point_center", "Geo.ObjBridge.point_base", "Geo.ObjBridge.point_within", "Geo.ObjBridge.point_contains", "Geo.ObjBridge.point_intersects", "Geo.ObjBridge.point_intersects_circle", "Geo.ObjBridge.point_withinRect", "Geo.ObjBridge.point_withinPoint", "Geo.ObjBridge.point_withinLine", "Geo.ObjBridge.point_withinPoly", "Geo.ObjBridge.point_intersectsPoint", "Geo.ObjBridge.point_intersectsRect", "Geo.ObjBridge.point_intersectsLine", "Geo.ObjBridge.point_intersectsPoly", "Geo.ObjBridge.point_numPoints", "Geo.ObjBridge.point_isSimple", "Geo.ObjBridge.point_members", "Geo.ObjBridge.point_distance", "Geo.ObjBridge.spoint_forEach", "Geo.ObjBridge.spoint_empty", "Geo.ObjBridge.spoint_valid", "Geo.ObjBridge.spoint_rect", "Geo.ObjBridge.spoint_spatial", "Geo.ObjBridge.spoint_center", "Geo.ObjBridge.spoint_base", "Geo.ObjBridge.spoint_within", "Geo.ObjBridge.spoint_contains", "Geo.ObjBridge.spoint_intersects", "Geo.ObjBridge.spoint_intersects_circle", "Geo.ObjBridge.spoint_withinRect", "Geo.ObjBridge.spoint_withinPoint", "Geo.ObjBridge.spoint_withinLine", "Geo.ObjBridge.spoint_withinPoly", "Geo.ObjBridge.spoint_intersectsPoint", "Geo.ObjBridge.spoint_intersectsRect", "Geo.ObjBridge.spoint_intersectsLine", "Geo.ObjBridge.spoint_intersectsPoly", "Geo.ObjBridge.spoint_numPoints", "Geo.ObjBridge.spoint_members", "Geo.ObjBridge.spoint_distance", "Geo.ObjBridge.line_forEach", "Geo.ObjBridge.line_empty", "Geo.ObjBridge.line_valid", "Geo.ObjBridge.line_rect", "Geo.ObjBridge.line_spatial", "Geo.ObjBridge.line_center", "Geo.ObjBridge.line_base", "Geo.ObjBridge.line_within", "Geo.ObjBridge.line_contains", "Geo.ObjBridge.line_intersects", "Geo.ObjBridge.line_withinRect", "Geo.ObjBridge.line_withinPoint", "Geo.ObjBridge.line_withinLine", "Geo.ObjBridge.line_withinPoly", "Geo.ObjBridge.line_intersectsPoint", "Geo.ObjBridge.line_intersectsRect", "Geo.ObjBridge.line_intersectsLine", "Geo.ObjBridge.line_intersectsPoly", "Geo.ObjBridge.line_numPoints", "Geo.ObjBridge.line_members", "Geo.ObjBridge.line_distance", "Geo.ObjBridge.poly_forEach", "Geo.ObjBridge.poly_empty", "Geo.ObjBridge.poly_valid", "Geo.ObjBridge.poly_rect", "Geo.ObjBridge.poly_spatial", "Geo.ObjBridge.poly_center", "Geo.ObjBridge.poly_base", "Geo.ObjBridge.poly_within", "Geo.ObjBridge.poly_contains", "Geo.ObjBridge.poly_intersects", "Geo.ObjBridge.poly_withinRect", "Geo.ObjBridge.poly_withinPoint", "Geo.ObjBridge.poly_withinLine", "Geo.ObjBridge.poly_withinPoly", "Geo.ObjBridge.poly_intersectsPoint", "Geo.ObjBridge.poly_intersectsRect", "Geo.ObjBridge.poly_intersectsLine", "Geo.ObjBridge.poly_intersectsPoly", "Geo.ObjBridge.poly_numPoints", "Geo.ObjBridge.poly_hasExtra", "Geo.ObjBridge.poly_members", "Geo.ObjBridge.poly_distance", "Geo.ObjBridge.rect_forEach", "Geo.ObjBridge.rect_empty", "Geo.ObjBridge.rect_valid", "Geo.ObjBridge.rect_rect", "Geo.ObjBridge.rect_spatial", "Geo.ObjBridge.rect_center", "Geo.ObjBridge.rect_base", "Geo.ObjBridge.rect_within", "Geo.ObjBridge.rect_contains", "Geo.ObjBridge.rect_intersects", "Geo.ObjBridge.rect_withinRect", "Geo.ObjBridge.rect_withinPoint", "Geo.ObjBridge.rect_withinLine", "Geo.ObjBridge.rect_withinPoly", "Geo.ObjBridge.rect_intersectsPoint", "Geo.ObjBridge.rect_intersectsRect", "Geo.ObjBridge.rect_intersectsLine", "Geo.ObjBridge.rect_intersectsPoly", "Geo.ObjBridge.rect_numPoints", "Geo.ObjBridge.rect_members", "Geo.ObjBridge.rect_distance", "Geo.ObjBridge.feature_forEach", "Geo.ObjBridge.feature_empty", "Geo.ObjBridge.feature_valid", "Geo.ObjBridge.feature_rect", "Geo.ObjBridge.feature_spatial", "Geo.ObjBridge.feature_center", "Geo.ObjBridge.feature_base", "Geo.ObjBridge.feature_within", "Geo.ObjBridge.feature_contains", "Geo.ObjBridge.feature_intersects", "Geo.ObjBridge.feature_withinRect", "Geo.ObjBridge.feature_withinPoint", "Geo.ObjBridge.feature_withinLine", "Geo.ObjBridge.feature_withinPoly", "Geo.ObjBridge.feature_intersectsPoint", "Geo.ObjBridge.feature_intersectsRect", "Geo.ObjBridge.feature_intersectsLine", "Geo.ObjBridge.feature_intersectsPoly", "Geo.ObjBridge.feature_numPoints", "Geo.ObjBridge.feature_members", "Geo.ObjBridge.feature_distance", "Geo.ObjBridge.circle_forEach", "Geo.ObjBridge.circle_empty", "Geo.ObjBridge.circle_numPoints", "Geo.ObjBridge.circle_center", "Geo.ObjBridge.circle_within", "Geo.ObjBridge.circle_members", "Geo.ObjBridge.circle_meters", "Geo.ObjBridge.circle_haversine", "Geo.ObjBridge.circle_getObject", "Geo.ObjBridge.circle_polygon", "Geo.ObjBridge.circle_viaObject", "Geo.ObjBridge.circle_containsPoint", "Geo.ObjBridge.circle_haversineTo", "Geo.ObjBridge.circle_contains_point", "Geo.ObjBridge.circle_contains_spoint", "Geo.ObjBridge.circle_contains_circle", "Geo.ObjBridge.circle_contains_coll", "Geo.ObjBridge.circle_contains_line", "Geo.ObjBridge.circle_contains_poly", "Geo.ObjBridge.circle_contains_rect", "Geo.ObjBridge.circle_contains_feature", "Geo.ObjBridge.circle_intersects_point", "Geo.ObjBridge.circle_intersects_spoint", "Geo.ObjBridge.circle_intersects_circle", "Geo.ObjBridge.circle_intersects_coll", "Geo.ObjBridge.circle_intersects_feature", "Geo.ObjBridge.circle_intersects_line", "Geo.ObjBridge.circle_intersects_poly", "Geo.ObjBridge.circle_intersects_rect", "Geo.ObjBridge.multiLineString_valid", "Geo.ObjBridge.multiPolygon_valid", "Geo.ObjBridge.wrapper_members", "Geo.ObjBridge.model_solves_all", "Geo.ObjBridge.collOf_obj", "Geo.ObjBridge.solves_all_forEach", "Geo.ObjBridge.solves_all_numPoints", "Geo.ObjBridge.solves_all_withinRect", "Geo.ObjBridge.solves_all_withinPoint", "Geo.ObjBridge.solves_all_withinLine", "Geo.ObjBridge.solves_all_withinPoly", "Geo.ObjBridge.solves_all_intersectsRect", "Geo.ObjBridge.solves_all_intersectsPoint", "Geo.ObjBridge.solves_all_intersectsLine", "Geo.ObjBridge.solves_all_intersectsPoly", "Geo.ObjBridge.solves_all_contains", "Geo.ObjBridge.solves_all_intersects", "Geo.ObjBridge.solves_all_unique", "Geo.ObjBridge.model_is_the_solution", "Geo.ObjBridge.solves_all_to_coll"]}, {"module": "GeoProofs.Props.CollBridge", "theorems": ["Geo.CollBridge.forEach_bridge", "Geo.CollBridge.within_bridge", "Geo.CollBridge.contains_bridge", "Geo.CollBridge.intersects_bridge", "Geo.CollBridge.indexed_invisible", "Geo.CollBridge.model_solves", "Geo.CollBridge.solves_unique"]}],
        "translators": [{"name": "objmeth", "out": "ObjMethGen.lean"}, {"name": "collection", "out": "CollGen.lean"}],
        "proof_module": "GeoProofs.Props.C09All", "theorems": ["Geo.within_is_contains_swapped", "Geo.feature_transparent", "Geo.feature_center", "Geo.feature_argument_transparent_leaf", "Geo.feature_argument_not_transparent_counterexample", "Geo.simplepoint_as_point_receiver", "Geo.simplepoint_as_point_argument", "Geo.simplepoint_as_point", "Geo.contains_empty_false", "Geo.empty_iff_all_leaves_empty", "Geo.contains_empty_receiver_false", "Geo.intersects_empty_false", "Geo.intersects_empty_receiver_false", "Geo.intersects_empty_false_point", "Geo.contains_implies_rect_covers_partial", "Geo.contains_implies_intersects_partial", "Geo.intersects_implies_rects_meet_partial", "Geo.intersects_empty_false_partial", "Geo.intersects_iff_atoms", "Geo.feature_argument_transparent_intersects", "Geo.intersects_iff_atoms_rect", "Geo.intersects_symm_partial", "Geo.leaf_contains_rect_covers_point_rect", "Geo.leaf_intersects_rects_meet_point_rect", "Geo.leaf_intersects_symm_point_rect", "Geo.leaf_contains_intersects_point_rect", "Geo.leaf_contains_intersects_rect_counterexample", "Geo.pr_not_empty", "Geo.point_rect_contains_implies_rect_covers", "Geo.point_rect_intersects_implies_rects_meet", "Geo.point_rect_intersects_symm", "Geo.point_rect_contains_implies_intersects", "Geo.DispatchFacts.dispatch_table_pinned", "Geo.DispatchFacts.within_forwards_to_contains", "Geo.DispatchFacts.json_wrappers", "Geo.DispatchFacts.feature_forwards", "Geo.leaf_intersects_rects_meet", "Geo.intersects_implies_rects_meet", "Geo.leaf_rects_meet_rawseries_counterexample", "Geo.leaf_contains_rect_covers", "Geo.leaf_contains_rect_covers_line_line_counterexample", "Geo.contains_implies_rect_covers", "Geo.leaf_empty_intersects_false", "Geo.intersects_empty_false_all", "Geo.intersects_iff_atoms_all", "Geo.feature_argument_transparent_intersects_all", "Geo.leaf_intersects_symm", "Geo.intersects_symm_made", "Geo.intersects_symm_valid", "Geo.leaf_intersects_exact", "Geo.intersects_exact", "Geo.leaf_contains_intersects", "Geo.leaf_contains_intersects_shortcut_counterexample", "Geo.contains_implies_intersects_valid", "Geo.mkSeries_eq_plain", "Geo.leafWF_lineString", "Geo.leafWF_polygon", "Geo.leafSymOK_polygon", "Geo.leafOK_point", "Geo.leafOK_rect", "Geo.leafOK_lineString", "Geo.leafOK_polygon", "Geo.leaf_intersects_exact_indexed", "Geo.intersects_exact_indexed"],
        "translators": [{"name": "dispatch", "out": "Dispatch.lean"}],
        "trivial_sigs": set(),
        "claim": "Proof (Lean 4) of the object-level algebra on the model: within = contains swapped, Feature/SimplePoint transparency, reduction of the algebra laws to leaf-level facts AND the leaf facts for all five leaf kinds (Props/C09Leaf.lean): Intersects implies the rectangles meet and an empty object intersects nothing (all objects), Intersects is symmetric (all objects built by the constructors, holes and invalid rings included), Contains implies the rectangle covers (every pair except LineString in LineString: D4 counterexample), Contains implies Intersects for valid leaves with arguments below 16 points (D19 counterexample above), Intersects = some pair of atoms shares a point (intersects_exact). Counterexample for Feature-of-collection as argument (D16). The dispatch bodies of all 13 types are re-extracted from the source on every run and pinned (dispatch_table_pinned). Tie: correspondence on object pairs of all kinds incl. contact configurations + implementation-side algebra oracle.",
        "rule": "ordered pairs of objects of all kinds built by the constructors (collections nested, features, empties): six predicate answers "
                "compared with the model, the algebra laws judged on the implementation (xalgebra), wrapper transparency by answer groups "
                "(Feature vs geometry, Rect vs 5-point polygon, SimplePoint vs Point), circles by implementation-only laws",
    },
    "C10": {
        "suites": ["c10"],
        "level": "proof", "extra_modules": [{"module": "GeoProofs.Props.CollBridge", "theorems": ["Geo.CollBridge.indexed_bridge", "Geo.CollBridge.children_bridge", "Geo.CollBridge.base_bridge", "Geo.CollBridge.empty_bridge", "Geo.CollBridge.rect_bridge", "Geo.CollBridge.center_bridge", "Geo.CollBridge.spatial_bridge", "Geo.CollBridge.members_bridge", "Geo.CollBridge.valid_bridge", "Geo.CollBridge.forEach_bridge", "Geo.CollBridge.search_bridge", "Geo.CollBridge.numPoints_bridge", "Geo.CollBridge.within_bridge", "Geo.CollBridge.contains_bridge", "Geo.CollBridge.intersects_bridge", "Geo.CollBridge.withinRect_bridge", "Geo.CollBridge.withinPoint_bridge", "Geo.CollBridge.withinLine_bridge", "Geo.CollBridge.withinPoly_bridge", "Geo.CollBridge.intersectsRect_bridge", "Geo.CollBridge.intersectsPoint_bridge", "Geo.CollBridge.intersectsLine_bridge", "Geo.CollBridge.intersectsPoly_bridge", "Geo.CollBridge.distance_bridge", "Geo.CollBridge.indexed_invisible", "Geo.CollBridge.collOf_ok", "Geo.CollBridge.model_solves", "Geo.CollBridge.iterate_collect", "Geo.CollBridge.eq_of_iterate_eq", "Geo.CollBridge.unique_gen", "Geo.CollBridge.solves_forEach", "Geo.CollBridge.solves_numPoints", "Geo.CollBridge.solves_unique"]}],
        "translators": [{"name": "collection", "out": "CollGen.lean"}],
        "proof_module": "GeoProofs.Props.C10", "theorems": ["Geo.coll_empty_iff", "Geo.coll_numPoints_sum", "Geo.coll_rect_union", "Geo.coll_leaves", "Geo.searchChildren_spec", "Geo.mem_searchChildren", "Geo.searchChildren_sublist", "Geo.searchChildren_length", "Geo.searchChildren_nodup", "Geo.coll_methods_via_search", "Geo.coll_intersects_iff", "Geo.coll_contains_iff", "Geo.coll_withinRect_iff", "Geo.coll_withinPoint_iff", "Geo.coll_withinLine_iff", "Geo.coll_withinPoly_iff", "Geo.coll_intersectsRect_iff", "Geo.coll_intersectsPoint_iff", "Geo.coll_intersectsLine_iff", "Geo.coll_intersectsPoly_iff", "Geo.indexed_irrelevant_receiver", "Geo.indexed_irrelevant_argument", "Geo.indexed_irrelevant"],
        "trivial_sigs": set(),
        "claim": "Proof (Lean 4): all composition laws of collections (intersects/contains/within*/intersects*/empty/rect/numPoints/leaves, child search as an exact filter, the child index unobservable) for arbitrary children, leaf predicates as they are. Tie: correspondence on collections of all five kinds incl. the same text under five child-index thresholds; tidwall/rtree is modelled by its contract.",
        "rule": "collections of all five kinds (0..70 children, nested, empty children) against probe objects, child searches with early stop, "
                "the composition laws judged by brute force over the children, and the same text parsed under thresholds 0,1,n-1,n,64 with "
                "identical answers required",
    },
    "C11": {
        "suites": ["c11"],
        "level": "proof", "extra_modules": [{"module": "GeoProofs.Props.SeriesBridge", "theorems": ["Geo.SeriesBridge.empty", "Geo.SeriesBridge.empty_nil", "Geo.SeriesBridge.valid", "Geo.SeriesBridge.fields"]}],
        "translators": [{"name": "seriesmeth", "out": "SeriesMethGen.lean"}],
        "proof_module": "GeoProofs.Props.C11", "theorems": ["Geo.unionBox_spec", "Geo.Box.TightOver.unique", "Geo.foldRects_tight", "Geo.coll_rect_tight", "Geo.coll_rect_tight_children", "Geo.center_spec", "Geo.Series.empty_iff", "Geo.atom_empty_iff", "Geo.empty_iff", "Geo.empty_line_iff", "Geo.empty_polygon_iff", "Geo.Pt.valid_iff", "Geo.Series.valid_iff", "Geo.Ring.valid_iff", "Geo.boxValid_iff", "Geo.valid_point_iff", "Geo.valid_point_fin", "Geo.valid_line_iff", "Geo.valid_line_iff_positions", "Geo.valid_polygon_iff", "Geo.valid_rect_iff", "Geo.coll_valid_bbox_iff", "Geo.zeroBox_inRange", "Geo.coll_valid_bbox_positions"],
        "trivial_sigs": set(),
        "claim": "Proof (Lean 4): series rectangle = tight box (rect_tight, bboxSpec_tight), union/collection rectangles tight over non-empty children, centre, emptiness and validity characterisations for all kinds. Known finding D15 (Polygon.Rect ignores holes outside the exterior). Tie: attribute correspondence judged against a direct min/max specification.",
        "rule": "objects of all kinds from constructors and from parsed documents on regime E: Empty/Valid/Rect/Center/NumPoints compared with the "
                "model and judged against the direct min/max specification over the positions of the non-empty parts",
    },
    "C16": {
        "suites": ["c16"],
        "level": "proof", "proof_module": "GeoProofs.Props.C16",
        "translators": [{"name": "effects", "out": "Effects.lean"}],
        "theorems": ["Geo.Effects.cert_sound", "Geo.Effects.table_cert_ok", "Geo.Effects.table_roots_ok", "Geo.Effects.roots_write_nothing_shared",
                     "Geo.Interleave.shared_unchanged", "Geo.Interleave.schedule_independent", "Geo.Interleave.permuted_schedules_agree",
                     "Geo.Interleave.race_free", "Geo.Interleave.readonly_interleaving"],
        "trivial_sigs": set(),
        "claim": "Proof (Lean 4): a kernel-checked certificate over the effect table extracted from /repo's SSA on every run shows that no function reachable from any exported method writes through anything but activation-local memory and AppendJSON's destination buffer (roots_write_nothing_shared, with a proved-sound checker), and a generic theorem shows that such programs are schedule-independent and race-free. The extractor and the contracts of 28 external functions are trusted.",
        "rule": "effect table regenerated from the SSA of /repo (RTA call graph from every exported method of every exported type and every "
                "exported geo function); certificate re-checked by the kernel; supporting search: 8 goroutines x 400 random method calls over a "
                "shared pool of objects of all kinds (indexed and not) compared with solo answers, and the same under the race detector",
        "technique": "Lean 4: kernel-checked certificate over an effect table translated from the code's SSA + generic interleaving theorem; race detector as failing-input search",
        "trusted_extra": ["the effect extractor /verif/translate/effects.go (provenance rules, RTA call graph over-approximation)",
                          "contracts of the external functions listed in GeoModel/Generated/Effects.lean (`externals`)",
                          "the Go memory model: a data race needs a write to shared memory"],
    },
    "C17": {
        "suites": ["c17"],
        "level": "proof", "extra_modules": [{"module": "GeoProofs.Props.WriteBridge", "theorems": ["Geo.WriteBridge.write_unique", "Geo.WriteBridge.appendJSONFloat_bridge", "Geo.WriteBridge.appendJSONPoint_bridge", "Geo.WriteBridge.appendJSONExtra_bridge", "Geo.WriteBridge.appendJSONExtra_panic_bridge", "Geo.WriteBridge.appendJSONSeries_bridge", "Geo.WriteBridge.Point_bridge", "Geo.WriteBridge.SimplePoint_bridge", "Geo.WriteBridge.LineString_bridge", "Geo.WriteBridge.Polygon_bridge", "Geo.WriteBridge.Rect_bridge", "Geo.WriteBridge.MultiPoint_bridge", "Geo.WriteBridge.MultiLineString_bridge", "Geo.WriteBridge.MultiPolygon_bridge", "Geo.WriteBridge.GeometryCollection_bridge", "Geo.WriteBridge.FeatureCollection_bridge", "Geo.WriteBridge.Feature_bridge", "Geo.WriteBridge.Circle_bridge", "Geo.WriteBridge.collection_bridge", "Geo.WriteBridge.appendJSON_bridge"]}],
        "translators": [{"name": "writers", "out": "WriteGen.lean"}],
        "proof_module": "GeoProofs.Props.C17", "theorems": ["Geo.render_is_json", "Geo.write_is_json", "Geo.write_type", "Geo.write_coords_depth", "Geo.nonfinite_written_as_null", "Geo.append_prefix", "Geo.featureExtra_ok", "Geo.featureExtra_writeOK", "Geo.exFeature_writeOK"],
        "translators": [],
        "trivial_sigs": set(),
        "claim": "Proof on the model (Lean 4): every object satisfying WriteOK is written as text of the RFC 8259 object grammar with the right type name and coordinate depth, non-finite ordinates as null, NewFeature's member sanitising keeps that invariant; every AppendJSON writer and helper is regenerated from the source and proved equal to the model's writer (WriteBridge); the JSON/String/MarshalJSON wrappers are checked dynamically (same bytes from all entry points, also after other objects were serialised). Tie: byte-exact correspondence on constructor-built objects with special floats and member texts; aliasing of AppendJSON(prefix) checked on the implementation.",
        "rule": "objects from every public constructor with special floats (NaN, +-Inf, -0, extremes, denormals), feature member texts (objects, "
                "blank objects, non-objects, reserved key 'feature'), nested collections: JSON()/String()/MarshalJSON()/AppendJSON(nil) equal, "
                "AppendJSON(prefix) with three spare capacities, encoding/json.Valid, type and coordinate depth; bytes compared with the model's writer",
    },
    "C13": {
        "suites": ["c13"],
        "level": "other", "proof_module": "GeoProofs.Props.C13", "theorems": ["Geo.C13.newCircle_normalises", "Geo.C13.newCircle_normalises_nonpos", "Geo.C13.newCircle_haversine", "Geo.C13.newCircle_meters", "Geo.C13.haversine_le_iff_distance_le", "Geo.C13.circle_contains_point_iff", "Geo.C13.circle_contains_point_zero", "Geo.C13.circle_contains_monotone", "Geo.C13.circle_contains_point_wraps", "Geo.C13.circle_contains_circle_sound", "Geo.C13.circle_intersects_circle_iff"],
        "translators": [{"name": "geoformulas", "out": "GeoFormulas.lean"}],
        "trivial_sigs": set(),
        "claim": "Theorems over the reals about formulas re-translated from geo.go/circle.go on every run (contains-point iff distance <= radius, monotone, circle-circle comparisons, normalisation) + numeric correspondence of the same formulas at Float + implementation-side numeric oracle with the property's tolerances. Float rounding itself cannot be proved.",
        "rule": "numeric validation on the implementation against an independent 3-D vector distance: probes at r(1+-10^-k) along random bearings, "
                "point kinds and operand orders, monotonicity, circle-circle relations, JSON round trip, polygon ring for every step count",
        "explanation": "theorems over the reals about the translated formulas (when discharged) plus numeric validation of the float code; tolerances cannot be proved (Lean has no float theory)",
    },
    "C14": {
        "suites": ["c14"],
        "level": "other", "proof_module": "GeoProofs.Props.C14All", "theorems": ["Geo.C14.rect_lat_bounds", "Geo.C14.rect_lon_bounds", "Geo.C14.rect_pole_widens", "Geo.C14.rect_wrap_widens_general", "Geo.C14.rect_wrap_widens", "Geo.C14.rect_tiny_radius_degenerate", "Geo.C14.lat_diff_le_distance", "Geo.C14.rect_lat_cover_partial", "Geo.C14.rect_lat_cover_counterexample", "Geo.C14.rectLonDelta_eq", "Geo.C14.rectLonDelta_eq_arcsin", "Geo.C14.rectLonDelta_attained", "Geo.C14.lon_cover_rad", "Geo.C14.cos_le_of_distance_le", "Geo.C14.rect_lon_cover_full", "Geo.C14.rect_lon_cover", "Geo.C14.rect_lon_cover_interior", "Geo.C14.rect_lon_cover_nontouch", "Geo.C14.rect_cover", "Geo.C14.rect_cover_interior", "Geo.C14.rect_lon_of_nowiden", "Geo.C14.rect_lon_cover_pole_counterexample", "Geo.C14.rect_lon_cover_antimeridian_counterexample"],
        "translators": [{"name": "geoformulas", "out": "GeoFormulas.lean"}],
        "trivial_sigs": set(),
        "claim": "Partial: theorems over the reals about the re-translated RectFromCenter (world bounds, pole and wrap widening, tiny-radius degenerate case, latitude coverage outside the tiny-radius branch); longitude coverage and NaN-freedom are validated numerically only.",
        "rule": "numeric validation: for random centres (poles, antimeridian) and radii, disc samples at 64 bearings x 4 distances lie inside RectFromCenter within 1 cm; world bounds; widening; no NaN",
        "explanation": "partial theorems over the reals about the translated RectFromCenter plus numeric validation of longitude coverage and NaN-freedom",
    },
    "C15": {
        "suites": ["c15"],
        "level": "other", "proof_module": "GeoProofs.Props.C15", "theorems": ["Geo.C15.haversine_symm", "Geo.C15.haversine_self", "Geo.C15.haversine_nonneg", "Geo.C15.haversine_le_one", "Geo.C15.distanceTo_nonneg", "Geo.C15.distanceTo_le_half_circumference", "Geo.C15.distanceTo_symm", "Geo.C15.distanceTo_self", "Geo.C15.distanceToHaversine_strictMono", "Geo.C15.distanceFrom_to_id", "Geo.C15.distanceTo_from_id", "Geo.C15.normalize_idem", "Geo.C15.normalize_haversine", "Geo.C15.normalize_of_lt", "Geo.C15.destination_lat_range", "Geo.C15.destination_lon_range_partial", "Geo.C15.destination_lon_range", "Geo.C15.destination_lon_range_counterexample", "Geo.C15.semi_roundtrip", "Geo.C15.destination_distance"],
        "translators": [{"name": "geoformulas", "out": "GeoFormulas.lean"}],
        "trivial_sigs": set(),
        "claim": "Theorems over the reals about the re-translated formulas (symmetry, ranges, strict monotonicity, inverses, normalisation, destination ranges, destination distance = d, semicircle round trip) + numeric validation of the tolerance clauses; known finding D17 near the poles.",
        "rule": "numeric validation of symmetry, range, destination/distance/bearing round trips, monotone haversine, conversions, normalisation, semicircles",
        "explanation": "theorems over the reals about the translated formulas plus numeric validation of the tolerance clauses",
    },
    "C12": {
        "suites": ["c12"],
        "level": "proof",
        "extra_modules": [{"module": "GeoProofs.Props.C12ReencContains", "theorems": ["Geo.convex_flag_reenc", "Geo.convexReceiver_reenc", "Geo.spec_covers_reenc", "Geo.geom_contains_reenc_convex", "Geo.geom_contains_reenc_counterexample", "Geo.geom_contains_reenc_counterexample_poly", "Geo.geom_contains_hole_order"]}, {"module": "GeoProofs.Props.C12Reenc", "theorems": ["Geo.ring_parity_reenc", "Geo.ring_inRing_reenc", "Geo.simpleRing_reenc", "Geo.member_reenc", "Geo.valid_reenc", "Geo.spec_meets_reenc", "Geo.geom_intersects_reenc", "Geo.geom_intersects_hole_order"]}, {"module": "GeoProofs.Props.C12Move", "theorems": ["Geo.C12Move.move_fields", "Geo.C12Move.move_pts", "Geo.C12Move.move_closed", "Geo.C12Move.move_convex_pp", "Geo.C12Move.move_clockwise_pp", "Geo.C12Move.move_rect_pp", "Geo.C12Move.processPoints_translate_flags", "Geo.C12Move.move_convex", "Geo.C12Move.move_clockwise", "Geo.C12Move.move_rect", "Geo.C12Move.move_rect_degenerate", "Geo.C12Move.translate_translate", "Geo.C12Move.translate_zero", "Geo.C12Move.move_move_pts", "Geo.C12Move.move_zero_pts", "Geo.C12Move.translate_inj", "Geo.C12Move.getElem!_map_translate", "Geo.C12Move.numSegmentsOf_translate", "Geo.C12Move.move_numSegments", "Geo.C12Move.numSegmentsOf_le", "Geo.C12Move.move_segmentAt_of_lt_size", "Geo.C12Move.move_segmentAt"]}, {"module": "GeoProofs.Props.C12MoveGeom", "theorems": ["Geo.C12MoveGeom.mv_eq_translate", "Geo.C12MoveGeom.SerCfg.moved_pts", "Geo.C12MoveGeom.SerCfg.moved_spec", "Geo.C12MoveGeom.moveGeom_build_eq", "Geo.C12MoveGeom.moved_plain", "Geo.C12MoveGeom.plain_built", "Geo.C12MoveGeom.moveGeom_build", "Geo.C12MoveGeom.MovedExact.exact", "Geo.C12MoveGeom.SerMovedSized.exact", "Geo.C12MoveGeom.movedExact_of_sized", "Geo.C12MoveGeom.geom_intersects_move", "Geo.C12MoveGeom.geom_intersects_move_sized", "Geo.C12MoveGeom.MovedExtSafe.extSafe", "Geo.C12MoveGeom.MovedHolesSafe.holesSafe", "Geo.C12MoveGeom.geom_contains_move", "Geo.C12MoveGeom.geom_contains_move_nonpoly"]}, {"module": "GeoProofs.Props.C12AffIndexed", "theorems": ["Geo.C12AffIndexed.plain_built", "Geo.C12AffIndexed.plain_mapPts", "Geo.C12AffIndexed.geom_intersects_aff_indexed", "Geo.C12AffIndexed.geom_contains_aff_indexed", "Geo.C12AffIndexed.geom_intersects_aff_mapPts", "Geo.C12AffIndexed.geom_intersects_translate_indexed", "Geo.C12AffIndexed.geom_intersects_scale_indexed", "Geo.C12AffIndexed.geom_contains_translate_indexed", "Geo.C12AffIndexed.geom_contains_scale_indexed"]}],
        "proof_module": "GeoProofs.Props.C12All",
        "theorems": ["Geo.raycast_translate", "Geo.raycast_scale", "Geo.raycast_translate_eq", "Geo.raycast_scale_eq", "Geo.segIntersectsS_translate", "Geo.segIntersectsS_scale", "Geo.segIntersects_translate", "Geo.segIntersects_scale", "Geo.collinearPt_translate", "Geo.collinearPt_scale", "Geo.segContainsSeg_translate", "Geo.segContainsSeg_scale", "Geo.onSeg_reflX", "Geo.onSeg_reflY", "Geo.onSeg_transpose", "Geo.segsMeet_reflX", "Geo.segsMeet_reflY", "Geo.segsMeet_transpose", "Geo.raycast_on_reflX", "Geo.raycast_on_reflY", "Geo.raycast_on_transpose", "Geo.segIntersects_reflX", "Geo.segIntersects_reflY", "Geo.segIntersects_transpose", "Geo.segContainsSeg_reflX", "Geo.segContainsSeg_reflY", "Geo.segContainsSeg_transpose", "Geo.lineIntersectsLine_of_symm", "Geo.lineIntersectsLine_reflX", "Geo.lineIntersectsLine_reflY", "Geo.lineIntersectsLine_transpose", "Geo.lineContainsPoint_of_symm", "Geo.lineContainsPoint_reflX", "Geo.lineContainsPoint_reflY", "Geo.lineContainsPoint_transpose", "Geo.raycast_inn_reflX_counterexample", "Geo.processPoints_translate", "Geo.processPoints_scale", "Geo.processPoints_map_empty", "Geo.convexSpec_reflX", "Geo.convexSpec_reflY", "Geo.convexSpec_transpose", "Geo.clockwiseSpec_reflX", "Geo.clockwiseSpec_reflY", "Geo.clockwiseSpec_transpose", "Geo.processPoints_reflX", "Geo.processPoints_reflY", "Geo.processPoints_transpose", "Geo.ringContainsPoint_translate", "Geo.ringContainsPoint_scale", "Geo.ringContainsPoint_translate_hit", "Geo.ringContainsPoint_scale_hit", "Geo.ringContainsSegment_aff", "Geo.ringIntersectsSegment_aff", "Geo.ringContainsRing_aff", "Geo.ringIntersectsRing_aff", "Geo.ringIntersectsLine_aff", "Geo.line_containsLineO_aff", "Geo.geom_contains_aff", "Geo.geom_intersects_aff", "Geo.geom_contains_translate", "Geo.geom_intersects_translate", "Geo.geom_contains_scale", "Geo.geom_intersects_scale", "Geo.raycast_inn_neg_scale_counterexample", "Geo.parity_left_eq_right", "Geo.parity_reflX", "Geo.parity_reflY", "Geo.parity_transpose", "Geo.parityUp_eq_parity", "Geo.parity_reflX_onBoundary_counterexample", "Geo.onBoundary_reflX", "Geo.onBoundary_reflY", "Geo.onBoundary_transpose", "Geo.inRing_reflX", "Geo.inRing_reflY", "Geo.inRing_transpose", "Geo.strictIn_reflX", "Geo.strictIn_reflY", "Geo.strictIn_transpose", "Geo.member_reflX", "Geo.member_reflY", "Geo.member_transpose", "Geo.member_reflX_illformed_rect", "Geo.valid_reflX", "Geo.valid_reflY", "Geo.valid_transpose", "Geo.holesConvexOK_reflX", "Geo.holesConvexOK_reflY", "Geo.holesConvexOK_transpose", "Geo.meets_reflX", "Geo.meets_reflY", "Geo.meets_transpose", "Geo.geom_intersects_reflX", "Geo.geom_intersects_reflY", "Geo.geom_intersects_transpose", "Geo.geom_intersects_reflX_noholes", "Geo.geom_intersects_reflY_noholes", "Geo.geom_intersects_transpose_noholes", "Geo.Sym.parity_map", "Geo.meets_reflX_of_valid", "Geo.geom_intersects_reflX_mapPts", "Geo.geom_intersects_reflY_mapPts", "Geo.geom_intersects_transpose_mapPts", "Geo.geom_mapPts_reflX_rect_wrong", "Geo.parity_rot90", "Geo.parity_neg", "Geo.geom_intersects_rot90", "Geo.geom_intersects_neg"],
        "trivial_sigs": set(),
        "claim": "Partial proof (Lean 4): every kernel, membership, ring-level heuristic and the whole contains/intersects matrix are equivariant under translation and positive scaling (un-indexed shapes; lifted to ANY index configuration on both sides of the equation in Props/C12AffIndexed.lean; via Move, whatever index the moved series rebuilds: Props/C12Move.lean, Props/C12MoveGeom.lean geom_intersects_move / geom_contains_move); crossing parity, ring and shape membership, validity, the meets specification and Geom.intersects are invariant under reflection in x, in y, transposition, quarter turn and point reflection (Props/C12Sym.lean; for indexed shapes Props/C12SymIndexed.lean); on-segment, segment intersection, line x line and line-contains-point likewise; convex/clockwise transform as expected. NOT proved: contains under reflections and start-vertex rotation (false in contact configurations: D4/D5/D13). Tie: metamorphic answer groups on the implementation.",
        "rule": "generated pairs under translation (also via Move), scaling by 2,4,1024, reflection in x, in y, transposition, every "
                "rotation of the start vertex, reversal, dropped closing vertex: answers within a group must be identical",
    },
}

# late additions (Move at series / geometry level, see DESIGN.md section 0 "Move")
PROPS["C03"].setdefault("extra_modules", []).append({"module": "GeoProofs.Props.C03Indexed", "theorems": [
    "Geo.C03Indexed.geom_contains_indexed_any_valid", "Geo.C03Indexed.geom_contains_exact_rect_indexed",
    "Geo.C03Indexed.geom_contains_indexed_any_valid_sized", "Geo.C03Indexed.geom_contains_exact_rect_indexed_sized"]})
PROPS["C12"].setdefault("extra_modules", []).append({"module": "GeoProofs.Props.C12SymIndexed", "theorems": [
    "Geo.C12SymIndexed.ofShape_plain", "Geo.C12SymIndexed.geom_intersects_sym_indexed", "Geo.C12SymIndexed.geom_intersects_sym_ofShape",
    "Geo.C12SymIndexed.geom_intersects_reflX_indexed", "Geo.C12SymIndexed.geom_intersects_reflY_indexed",
    "Geo.C12SymIndexed.geom_intersects_transpose_indexed", "Geo.C12SymIndexed.geom_intersects_rot90_indexed",
    "Geo.C12SymIndexed.geom_intersects_neg_indexed", "Geo.C12SymIndexed.geom_intersects_rot90_indexed'",
    "Geo.C12SymIndexed.geom_intersects_neg_indexed'", "Geo.C12SymIndexed.mapPts_rot90_eq", "Geo.C12SymIndexed.mapPts_neg_eq",
    "Geo.C12SymIndexed.ofShape_exact_none"]})
PROPS["C02"].setdefault("extra_modules", []).append({"module": "GeoProofs.Props.C02Indexed", "theorems": [
    "Geo.C02Indexed.geom_intersects_exact_indexed", "Geo.C02Indexed.geom_intersects_symm_indexed",
    "Geo.C02Indexed.geom_intersects_exact_indexed_sized", "Geo.C02Indexed.geom_intersects_symm_indexed_sized",
    "Geo.C02Indexed.geom_intersects_indexed_any", "Geo.C02Indexed.geom_intersects_indexed_any_sized"]})
PROPS["C01"].setdefault("extra_modules", []).append({"module": "GeoProofs.Props.C01Move", "theorems": [
    "Geo.C01Move.geom_contains_point_index_indep", "Geo.C01Move.geom_contains_point_move",
    "Geo.C01Move.geom_intersects_point_move", "Geo.buildIndexBytes_quadtree_header", "Geo.Series.move_quadtree_eq"]})


def _def_of(ops, i, ident):
    for j in range(i - 1, -1, -1):
        t = ops[j].split()
        if len(t) > 2 and t[0] == "def" and t[1] == ident:
            return t
        if len(t) > 4 and t[0] == "move" and t[4] == ident:
            return _def_of(ops, j, t[1])
        if t and t[0] == "reset":
            break
    return None


def _kind_of(ops, i, ident):
    t = _def_of(ops, i, ident)
    if t is None:
        return "?"
    if t[2] == "poly":
        return "polyH" if t[5] != "1" else "poly"
    return t[2]


def mask_spec(pid, optoks, spec, sig=""):
    """each property judges only its own part of a combined op"""
    if optoks and optoks[0].startswith("oparse"):
        if optoks[0] == "oparserv":
            return spec if pid == "C08" else "-"
        return spec if pid in ("C07", "C10", "C11", "C08") else "-"
    if optoks and optoks[0] == "oattrs":
        if pid == "C10":
            t = spec.split(" ")
            # collections compose: emptiness (first flag; validity is C11's), the rectangle (union of the
            # non-empty children's) and the point count (sum) -- seed W18-2 was caught by C10 only as a broken
            # correspondence while the rectangle clause is part of C10's own statement
            # (not for objects the model flags "holeout": there the executable specification is the tight box of
            # ALL positions (C11's reading, finding D15) while C10's clause is relative to the children's Rect())
            if len(t) >= 4 and len(t[0]) == 2 and ":holeout" not in sig:
                return t[0][:1] + "- " + t[1] + " - " + t[3]
            return "-- - - " + t[3] if len(t) >= 4 else "-"
        return spec if pid == "C11" else "-"
    if optoks and optoks[0] == "opred":
        return spec if pid == "C10" else "-"
    if optoks and optoks[0] == "pred":
        if pid == "C02":
            return "-" + spec[1:]
        if pid == "C03":
            return spec[:1] + "--"
        if pid in ("C12", "C04", "C08", "C05"):
            return "---"
    return spec


def _match(k, what, ka, kb, direction, contact):
    return (k.get("predicate") == what and ka in k.get("receiver", []) and kb in k.get("argument", [])
            and direction in k.get("directions", []) and (not k.get("requires_contact") or contact))


def classify_finding(pid, ops, i, impl, spec, sig, known):
    """match a pinned-behaviour spec failure (impl == model != spec) against known_findings.json.
    Returns the finding id or None."""
    toks = ops[i].split()
    if toks[0] == "same":
        toks = toks[2:]
    if toks[0] == "oparsewfmix" and impl == "err coordsInvalid":
        for kf in known:
            if kf.get("op") == "oparsewfmix":
                return kf["id"]
        return None
    if toks[0] == "oattrs":
        # fields: "<empty><valid> <rect> <centre> <numPoints>"; every differing field must be
        # accounted for by a listed finding whose signature flag the model printed for this object
        flags = sig.split(":")[2:]
        it, st = impl.split(), spec.split()
        if len(it) < 3 or len(st) < 3 or len(it[0]) != 2 or len(st[0]) != 2:
            return None
        ids = []
        def finding(signature):
            for kf in known:
                if kf.get("op") == "oattrs" and kf.get("signature") == signature:
                    return kf["id"]
            return None
        if it[0][0] != st[0][0]:
            return None                       # emptiness is never a listed finding
        if it[0][1] != st[0][1]:
            # a collection's validity is the validity of its cached rectangle: it misses out-of-range
            # positions of parts that occupy no space (D21) and of holes outside the exterior's box (D15)
            f = None
            if it[0][1] == "1":
                if "emptyinvalid" in flags:
                    f = finding("emptyinvalid")
                elif "holeout" in flags:
                    f = finding("holeout")
            if not f:
                return None
            ids.append(f)
        if it[1] != st[1] or it[2] != st[2]:
            f = finding("holeout") if "holeout" in flags else None
            if not f:
                return None
            ids.append(f)
        return ids[0] if ids else None
    if toks[0] != "pred":
        return None
    ka, kb = _kind_of(ops, i, toks[1]), _kind_of(ops, i, toks[2])
    contact = sig.endswith("k1")
    rect_contact = sig.endswith("k2")
    names = ["contains", "intersects", "intersects"]
    matched = None
    for k in range(3):
        if k < len(spec) and spec[k] != "-" and k < len(impl) and impl[k] != spec[k]:
            direction = "wrong_true" if impl[k] == "1" else "wrong_false"
            m = None
            for kf in known:
                if kf.get("requires_rect_contact"):
                    if rect_contact and _match(dict(kf, requires_contact=False), names[k], ka, kb, direction, True):
                        m = kf["id"]
                        break
                    continue
                if _match(kf, names[k], ka, kb, direction, contact):
                    m = kf["id"]
                    break
            if m is None:
                return None
            matched = m
    return matched


COLL_CTORS = ("mp", "mls", "mpg", "gc", "fc")


def _onew_of(ops, i, ident):
    for j in range(i - 1, -1, -1):
        t = ops[j].split()
        if len(t) > 2 and t[0] == "onew" and t[1] == ident:
            return j, t
        if t and t[0] == "oreset":
            break
    return None, None


def _is_coll(ops, i, ident, through_feature=True):
    j, t = _onew_of(ops, i, ident)
    if t is None:
        return False
    if t[2] in COLL_CTORS:
        return True
    if through_feature and t[2] == "feature":
        return _is_coll(ops, j, t[3])
    return False


def _is_feature_of_coll(ops, i, ident):
    j, t = _onew_of(ops, i, ident)
    return t is not None and t[2] == "feature" and _is_coll(ops, j, t[3])


def classify_group_c09(ops, members, impl, model, known_all):
    known = [k for k in known_all["open"] if k["property"] == "C09" and k.get("op") == "group-feature-of-collection"]
    if not known:
        return None
    for (i, _) in members:
        if impl[i] != model[i].split(" | ")[0]:
            return None
    feat = False
    other_coll = True
    for (i, _) in members:
        toks = ops[i].split()[2:]
        if toks[0] != "opred":
            return None
        a, b = toks[1], toks[2]
        if _is_feature_of_coll(ops, i, a):
            feat = True
            other_coll = other_coll and _is_coll(ops, i, b)
        elif _is_feature_of_coll(ops, i, b):
            feat = True
            other_coll = other_coll and _is_coll(ops, i, a)
    if feat and other_coll:
        return known[0]["id"]
    return None


def classify_group_c08_d20(ops, members, impl, model, known_all):
    """D20 at Parse level: the same document with a self-touching ring under different index options;
    only contains/within answers differ, every member is pinned behaviour"""
    import binascii, json
    known = [k for k in known_all["open"] if k["property"] == "C08" and k.get("op") == "group-opred-selftouching"]
    if not known:
        return None
    vals = set(m[1] for m in members)
    if len(set(v[2:4] for v in vals)) != 1:
        return None   # an intersects answer varies
    for (i, _) in members:
        if impl[i] != model[i].split(" | ")[0]:
            return None
    touching = False
    for (i, _) in members:
        toks = ops[i].split()[2:]
        if toks[0] != "opred":
            return None
        for ident in toks[1:3]:
            for j in range(i - 1, -1, -1):
                t = ops[j].split()
                if t and t[0] == "oreset":
                    break
                if len(t) > 3 and t[0].startswith("oparse") and t[1] == ident:
                    try:
                        doc = json.loads(binascii.unhexlify(t[3]).decode("utf8"))
                    except Exception:
                        return None
                    rings = []
                    _json_rings(doc, rings)
                    if _rings_self_touching(rings):
                        touching = True
                    break
    return known[0]["id"] if touching else None


def classify_group_c08(ops, members, impl, model, known_all):
    """D18: JSON outputs of an option group that differ only by -0 versus 0"""
    import re, binascii
    if members and ops[members[0][0]].split()[2:3] == ["opred"]:
        return classify_group_c08_d20(ops, members, impl, model, known_all)
    known = [k for k in known_all["open"] if k["property"] == "C08" and k.get("op") == "group-ojson-negzero"]
    if not known:
        return None
    texts = set()
    for (i, _) in members:
        if impl[i] != model[i].split(" | ")[0]:
            return None
        toks = ops[i].split()[2:]
        if toks[0] != "ojson":
            return None
        h = impl[i].split(" ")[0]
        try:
            t = binascii.unhexlify(h).decode("utf8")
        except Exception:
            return None
        texts.add(re.sub(r"(?<![\w.])-0(?![\d.eE])", "0", t))
    return known[0]["id"] if len(texts) == 1 else None


def _ring_self_touching(t):
    """t: tokens of a `def X poly k m nrings n x y ...`: does some ring have two edges that meet
    other than at an end point shared by consecutive edges (a pinched / self-crossing ring)?"""
    from fractions import Fraction as F
    try:
        nr = int(t[5]); pos = 6; rings = []
        for _ in range(nr):
            n = int(t[pos]); pos += 1
            rings.append([(F(t[pos + 2 * k]), F(t[pos + 2 * k + 1])) for k in range(n)]); pos += 2 * n
    except Exception:
        return False
    return _rings_self_touching(rings)


def _json_rings(v, out):
    """every list of >= 4 positions inside a JSON value (candidate rings)"""
    from fractions import Fraction as F
    if isinstance(v, dict):
        for x in v.values():
            _json_rings(x, out)
    elif isinstance(v, list):
        if len(v) >= 4 and all(isinstance(p, list) and len(p) >= 2 and all(isinstance(c, (int, float)) and not isinstance(c, bool) for c in p[:2]) for p in v):
            out.append([(F(p[0]), F(p[1])) for p in v])
        else:
            for x in v:
                _json_rings(x, out)


def _rings_self_touching(rings):
    def cross(a, b, c):
        return (b[0] - a[0]) * (c[1] - a[1]) - (b[1] - a[1]) * (c[0] - a[0])
    def on(a, b, p):
        return cross(a, b, p) == 0 and min(a[0], b[0]) <= p[0] <= max(a[0], b[0]) and min(a[1], b[1]) <= p[1] <= max(a[1], b[1])
    def meet(a, b, c, d):
        d1, d2, d3, d4 = cross(a, b, c), cross(a, b, d), cross(c, d, a), cross(c, d, b)
        if ((d1 > 0 and d2 < 0) or (d1 < 0 and d2 > 0)) and ((d3 > 0 and d4 < 0) or (d3 < 0 and d4 > 0)):
            return True
        return on(a, b, c) or on(a, b, d) or on(c, d, a) or on(c, d, b)
    for r in rings:
        if r and r[0] != r[-1]:
            r = r + [r[0]]
        es = [(r[k], r[k + 1]) for k in range(len(r) - 1)]
        n = len(es)
        for x in range(n):
            for y in range(x + 1, n):
                adjacent = (y == x + 1) or (x == 0 and y == n - 1)
                if not adjacent:
                    if meet(*es[x], *es[y]):
                        return True
                else:
                    # consecutive edges may share only the common vertex
                    (a, b), (c, d) = es[x], es[y]
                    shared = b if y == x + 1 else a
                    other1 = a if y == x + 1 else b
                    other2 = d if y == x + 1 else c
                    if on(c, d, other1) or on(a, b, other2):
                        return True
    return False


def classify_group_c04(ops, members, impl, model, known_all):
    """D20: inclusive contains of a polygon with a self-touching ring differs between index kinds"""
    known = [k for k in known_all["open"] if k["property"] == "C04" and k.get("op") == "group-index-selftouching"]
    if not known:
        return None
    vals = set(m[1] for m in members)
    if len(set(v[1:] for v in vals)) != 1:
        return None   # an intersects answer varies: never a listed finding
    for (i, _) in members:
        if impl[i] != model[i].split(" | ")[0]:
            return None
    for (i, _) in members:
        toks = ops[i].split()[2:]
        if toks[0] != "pred":
            return None
        t = _def_of(ops, i, toks[1])
        if t is None or t[2] != "poly" or not _ring_self_touching(t):
            return None
    return known[0]["id"]


def classify_group(pid, ops, members, impl, model, known_all):
    if pid == "C04":
        return classify_group_c04(ops, members, impl, model, known_all)
    if pid == "C08":
        return classify_group_c08(ops, members, impl, model, known_all)
    if pid == "C09":
        return classify_group_c09(ops, members, impl, model, known_all)
    """C12: answers differ inside a transformation group. Attributed to a listed finding only if
    every member is pinned behaviour (impl == model) and only the contains answer varies, for a
    receiver/argument class listed for this property."""
    known = [k for k in known_all["open"] if k["property"] == pid]
    vals = set(m[1] for m in members)
    if len(set(v[1:] for v in vals)) != 1:
        return None   # an intersects answer varies: never a listed finding
    for (i, _) in members:
        if impl[i] != model[i].split(" | ")[0]:
            return None
    i = members[0][0]
    toks = ops[i].split()[2:]
    if toks[0] != "pred":
        return None
    ka, kb = _kind_of(ops, i, toks[1]), _kind_of(ops, i, toks[2])
    sigs = [model[j].split(" | ")[2] if len(model[j].split(" | ")) > 2 else "" for (j, _) in members]
    contact = any(s.endswith("k1") for s in sigs)
    for kf in known:
        if kf.get("predicate") == "contains" and ka in kf.get("receiver", []) and kb in kf.get("argument", []) and (not kf.get("requires_contact") or contact):
            return kf["id"]
    return None

def classify_float_break(pid, ops, i, impl, model_left, known):
    """D23: the clockwise flag computed by float accumulation differs from the exact model on a ring
    whose partial shoelace sums leave the range where the accumulation is exact (the hypothesis of
    sgen_processPoints_exact fails: some |partial sum| >= 2^53 in units of 1/256)"""
    kf = [k for k in known if k.get("op") == "attrs-clockwise-accumulation"]
    if not kf:
        return None
    toks = ops[i].split()
    if toks[0] == "same":
        toks = toks[2:]
    if toks[0] != "attrs":
        return None
    it, mt = impl.split(" "), model_left.split(" ")
    if len(it) != len(mt) or it[1:] != mt[1:] or len(it[0]) != 4 or len(mt[0]) != 4:
        return None
    if it[0][0] != mt[0][0] or it[0][2:] != mt[0][2:] or it[0][1] == mt[0][1]:
        return None                                  # only the clockwise flag may differ
    t = _def_of(ops, i, toks[1])
    if t is None or t[2] != "poly":
        return None
    try:
        n = int(t[6])
        pts = [(int(t[7 + 2 * k]), int(t[8 + 2 * k])) for k in range(n)]
    except Exception:
        return None
    if len(pts) >= 2 and pts[0] == pts[-1]:
        pts = pts[:-1]
    s, worst = 0, 0
    for k in range(len(pts)):
        a, b = pts[k], pts[(k + 1) % len(pts)]
        s += (b[0] - a[0]) * (b[1] + a[1])
        worst = max(worst, abs(s))
    return kf[0]["id"] if worst >= 2 ** 53 else None


HOOK_COMMITS = ["f06195a"]
NOT_YET = {}


def xop_relevant(pid, opname, impl):
    """an implementation-only oracle op shared by several suites speaks for the property it checks;
    for the others only the outcome class (panic / timeout / crash) of the call is judged"""
    if impl.startswith(("panic", "timeout", "crash", "not-run")):
        return True
    if opname == "xroundtrip":
        return pid in ("C06", "C17")
    return True


def classify_xfail(pid, ops, i, impl, known):
    """failures of implementation-only oracle ops, matched by their message signature"""
    for kf in known:
        rx = kf.get("xfail_regex")
        if rx:
            import re
            if re.search(rx, impl):
                return kf["id"]
            continue
        pat = kf.get("xfail_prefix")
        if pat and impl.startswith(pat):
            need = kf.get("xfail_any_of", [])
            if not need or any(n in impl for n in need):
                return kf["id"]
    return None


def extra_checks(pid, tier, seed, log):
    """additional searches run by bin/check; each returns a dict with name/violation/has_input"""
    import os, subprocess
    out = []
    if pid == "C16":
        verif = os.path.dirname(os.path.dirname(os.path.abspath(__file__)))
        harn = os.path.join(verif, "harness")
        env = dict(os.environ, GOFLAGS="-mod=mod", GOPROXY="off", GOSUMDB="off", GOTOOLCHAIN="local", CGO_ENABLED="1")
        p = subprocess.run(["go", "build", "-race", "-tags", "verif", "-o", "bin/verifharness-race", "."], cwd=harn, env=env,  # only C16 builds this one
                           stdout=subprocess.PIPE, stderr=subprocess.STDOUT, text=True)
        log.append(("go build -race (harness)", p.returncode, p.stdout[-800:]))
        if p.returncode != 0:
            out.append({"name": "race-build", "violation": False, "note": "race-enabled harness could not be built: " + p.stdout[-300:]})
            return out
        n = 12 if tier == "quick" else 300
        ops = "".join("xconc %d\n" % ((seed * 1000003 + 7919 * i) % (1 << 62)) for i in range(n))
        env2 = dict(os.environ, GORACE="halt_on_error=1 exitcode=66")
        q = subprocess.run([os.path.join(harn, "bin", "verifharness-race"), "worker"], input=ops, env=env2,
                           stdout=subprocess.PIPE, stderr=subprocess.PIPE, text=True, timeout=3000)
        raced = "DATA RACE" in q.stderr or q.returncode == 66
        bad = [l for l in q.stdout.splitlines() if l != "ok"]
        log.append(("race detector run (%d xconc ops)" % n, q.returncode, (q.stderr[-1500:] if raced else "no race reported")))
        done = len(q.stdout.splitlines())
        if raced:
            out.append({"name": "data-race", "violation": True, "has_input": True, "ops": ops.splitlines()[max(0, done - 1):done + 1] or ops.splitlines()[:1],
                        "what": "the race detector reports a data race between concurrent query calls", "race_report": q.stderr[-4000:]})
        elif bad:
            out.append({"name": "nondeterministic", "violation": True, "has_input": True, "ops": ops.splitlines()[:done], "what": bad[0]})
        else:
            out.append({"name": "race-detector", "violation": False, "xconc_ops": n, "note": "no race, all concurrent answers equal the solo answers"})
    return out
