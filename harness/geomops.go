package main

import (
	"encoding/hex"
	"fmt"
	"math"
	"math/big"
	"strconv"
	"strings"

	"github.com/tidwall/geojson/geometry"
)

// geometry-level worker ops (planar model). Coordinates are integers = sixteenths.

type gEntry struct {
	g geometry.Geometry
}

var genv = map[string]gEntry{}

func q16(s string) (float64, bool) {
	n, err := strconv.ParseInt(s, 10, 64)
	if err != nil {
		return 0, false
	}
	return float64(n) / 16, true
}

func b2s(b bool) string {
	if b {
		return "1"
	}
	return "0"
}

func ratS(f float64) string {
	if math.IsNaN(f) || math.IsInf(f, 0) {
		return fmt.Sprint(f)
	}
	r := new(big.Rat).SetFloat64(f)
	return r.Num().String() + "/" + r.Denom().String()
}
func ptS(p geometry.Point) string { return ratS(p.X) + "," + ratS(p.Y) }
func boxS(r geometry.Rect) string { return ptS(r.Min) + "," + ptS(r.Max) }

func parsePts(toks []string) ([]geometry.Point, bool) {
	if len(toks)%2 != 0 {
		return nil, false
	}
	pts := make([]geometry.Point, 0, len(toks)/2)
	for i := 0; i < len(toks); i += 2 {
		x, ok1 := q16(toks[i])
		y, ok2 := q16(toks[i+1])
		if !ok1 || !ok2 {
			return nil, false
		}
		pts = append(pts, geometry.Point{X: x, Y: y})
	}
	return pts, true
}

func idxOpts(k, m string) (*geometry.IndexOptions, bool) {
	ki, err1 := strconv.Atoi(k)
	mi, err2 := strconv.Atoi(m)
	if err1 != nil || err2 != nil {
		return nil, false
	}
	return &geometry.IndexOptions{Kind: geometry.IndexKind(ki), MinPoints: mi}, true
}

func parseShape(toks []string) (geometry.Geometry, bool) {
	if len(toks) == 0 {
		return nil, false
	}
	switch toks[0] {
	case "pt":
		pts, ok := parsePts(toks[1:])
		if !ok || len(pts) != 1 {
			return nil, false
		}
		return pts[0], true
	case "rect":
		pts, ok := parsePts(toks[1:])
		if !ok || len(pts) != 2 {
			return nil, false
		}
		return geometry.Rect{Min: pts[0], Max: pts[1]}, true
	case "line":
		if len(toks) < 4 {
			return nil, false
		}
		opts, ok := idxOpts(toks[1], toks[2])
		n, err := strconv.Atoi(toks[3])
		pts, ok2 := parsePts(toks[4:])
		if !ok || err != nil || !ok2 || len(pts) != n {
			return nil, false
		}
		return geometry.NewLine(pts, opts), true
	case "poly":
		if len(toks) < 4 {
			return nil, false
		}
		opts, ok := idxOpts(toks[1], toks[2])
		nr, err := strconv.Atoi(toks[3])
		if !ok || err != nil {
			return nil, false
		}
		rest := toks[4:]
		var rings [][]geometry.Point
		for i := 0; i < nr; i++ {
			if len(rest) < 1 {
				return nil, false
			}
			n, err := strconv.Atoi(rest[0])
			if err != nil || len(rest) < 1+2*n {
				return nil, false
			}
			pts, ok := parsePts(rest[1 : 1+2*n])
			if !ok {
				return nil, false
			}
			rings = append(rings, pts)
			rest = rest[1+2*n:]
		}
		if len(rings) == 0 {
			return new(geometry.Poly), true
		}
		return geometry.NewPoly(rings[0], rings[1:], opts), true
	}
	return nil, false
}

func ringOf(g geometry.Geometry, r int) (geometry.Series, bool) {
	switch v := g.(type) {
	case *geometry.Line:
		if r == 0 {
			return geometry.VerifLineSeries(v), true
		}
	case *geometry.Poly:
		if r == 0 {
			if v.Exterior == nil {
				return nil, false
			}
			return v.Exterior, true
		}
		if r-1 < len(v.Holes) {
			return v.Holes[r-1], true
		}
	case geometry.Rect:
		if r == 0 {
			return v, true
		}
	}
	return nil, false
}

func queryBox(toks []string) (geometry.Rect, bool) {
	var v [4]float64
	for i := 0; i < 4; i++ {
		switch toks[i] {
		case "ninf":
			v[i] = math.Inf(-1)
		case "pinf":
			v[i] = math.Inf(1)
		default:
			f, ok := q16(toks[i])
			if !ok {
				return geometry.Rect{}, false
			}
			v[i] = f
		}
	}
	return geometry.Rect{Min: geometry.Point{X: v[0], Y: v[1]}, Max: geometry.Point{X: v[2], Y: v[3]}}, true
}

func containsG(a, b geometry.Geometry) bool {
	switch v := b.(type) {
	case geometry.Point:
		return a.ContainsPoint(v)
	case geometry.Rect:
		return a.ContainsRect(v)
	case *geometry.Line:
		return a.ContainsLine(v)
	case *geometry.Poly:
		return a.ContainsPoly(v)
	}
	panic("kind")
}

func intersectsG(a, b geometry.Geometry) bool {
	switch v := b.(type) {
	case geometry.Point:
		return a.IntersectsPoint(v)
	case geometry.Rect:
		return a.IntersectsRect(v)
	case *geometry.Line:
		return a.IntersectsLine(v)
	case *geometry.Poly:
		return a.IntersectsPoly(v)
	}
	panic("kind")
}

func moveG(g geometry.Geometry, dx, dy float64) geometry.Geometry {
	switch v := g.(type) {
	case geometry.Point:
		return v.Move(dx, dy)
	case geometry.Rect:
		return v.Move(dx, dy)
	case *geometry.Line:
		return v.Move(dx, dy)
	case *geometry.Poly:
		return v.Move(dx, dy)
	}
	panic("kind")
}

func geomOp(toks []string) (string, bool) {
	switch toks[0] {
	case "reset":
		genv = map[string]gEntry{}
		return "ok", true
	case "def":
		if len(toks) < 3 {
			return "bad-op", true
		}
		g, ok := parseShape(toks[2:])
		if !ok {
			return "bad-op", true
		}
		genv[toks[1]] = gEntry{g}
		return "ok", true
	case "ray":
		pts, ok := parsePts(toks[1:])
		if !ok || len(pts) != 3 {
			return "bad-op", true
		}
		r := geometry.Segment{A: pts[0], B: pts[1]}.Raycast(pts[2])
		r2 := geometry.Segment{A: pts[1], B: pts[0]}.Raycast(pts[2])
		return b2s(r.In) + b2s(r.On) + b2s(r2.In) + b2s(r2.On), true
	case "segint":
		pts, ok := parsePts(toks[1:])
		if !ok || len(pts) != 4 {
			return "bad-op", true
		}
		s := geometry.Segment{A: pts[0], B: pts[1]}
		t := geometry.Segment{A: pts[2], B: pts[3]}
		return b2s(s.IntersectsSegment(t)) + b2s(t.IntersectsSegment(s)) +
			b2s(s.ContainsSegment(t)) + b2s(s.CollinearPoint(t.A)) + " " + boxS(s.Rect()), true
	case "attrs":
		if len(toks) != 3 {
			return "bad-op", true
		}
		e, ok := genv[toks[1]]
		r, err := strconv.Atoi(toks[2])
		if !ok || err != nil {
			return "bad-op", true
		}
		ring, ok := ringOf(e.g, r)
		if !ok {
			return "bad-op", true
		}
		n := ring.NumSegments()
		var which []int
		if n <= 8 {
			for i := 0; i < n; i++ {
				which = append(which, i)
			}
		} else {
			which = []int{0, 1, n - 2, n - 1}
		}
		var segs []string
		for _, i := range which {
			s := ring.SegmentAt(i)
			segs = append(segs, ptS(s.A)+","+ptS(s.B))
		}
		return fmt.Sprintf("%s%s%s%s %d %d %s %s", b2s(ring.Convex()), b2s(ring.Clockwise()),
			b2s(ring.Empty()), b2s(ring.Valid()), n, ring.NumPoints(), boxS(ring.Rect()),
			strings.Join(segs, ";")), true
	case "index":
		if len(toks) != 3 {
			return "bad-op", true
		}
		e, ok := genv[toks[1]]
		r, err := strconv.Atoi(toks[2])
		if !ok || err != nil {
			return "bad-op", true
		}
		ring, ok := ringOf(e.g, r)
		if !ok {
			return "nil", true
		}
		b := geometry.VerifIndexBytes(ring)
		if b == nil {
			return "nil", true
		}
		return hex.EncodeToString(b), true
	case "search":
		if len(toks) != 8 {
			return "bad-op", true
		}
		e, ok := genv[toks[1]]
		r, err := strconv.Atoi(toks[2])
		if !ok || err != nil {
			return "bad-op", true
		}
		ring, ok := ringOf(e.g, r)
		q, ok2 := queryBox(toks[3:7])
		stop, err := strconv.Atoi(toks[7])
		if !ok || !ok2 || err != nil {
			return "bad-op", true
		}
		var visited []string
		ring.Search(q, func(seg geometry.Segment, idx int) bool {
			if seg != ring.SegmentAt(idx) {
				visited = append(visited, "badseg")
			}
			visited = append(visited, strconv.Itoa(idx))
			return !(stop != 0 && len(visited) == stop)
		})
		return strings.Join(visited, ","), true
	case "ringcp":
		if len(toks) != 6 {
			return "bad-op", true
		}
		e, ok := genv[toks[1]]
		r, err := strconv.Atoi(toks[2])
		pts, ok2 := parsePts(toks[3:5])
		if !ok || err != nil || !ok2 {
			return "bad-op", true
		}
		ring, ok := ringOf(e.g, r)
		if !ok {
			return "bad-op", true
		}
		hit, idx := geometry.VerifRingContainsPoint(ring, pts[0], toks[5] == "1")
		return fmt.Sprintf("%s %d", b2s(hit), idx), true
	case "member":
		if len(toks) != 4 {
			return "bad-op", true
		}
		e, ok := genv[toks[1]]
		pts, ok2 := parsePts(toks[2:4])
		if !ok || !ok2 {
			return "bad-op", true
		}
		return b2s(e.g.ContainsPoint(pts[0])) + b2s(e.g.IntersectsPoint(pts[0])) + b2s(intersectsG(pts[0], e.g)), true
	case "pred":
		if len(toks) != 3 {
			return "bad-op", true
		}
		a, ok := genv[toks[1]]
		b, ok2 := genv[toks[2]]
		if !ok || !ok2 {
			return "bad-op", true
		}
		return b2s(containsG(a.g, b.g)) + b2s(intersectsG(a.g, b.g)) + b2s(intersectsG(b.g, a.g)), true
	case "ringseg":
		if len(toks) != 8 {
			return "bad-op", true
		}
		e, ok := genv[toks[1]]
		r, err := strconv.Atoi(toks[2])
		pts, ok2 := parsePts(toks[3:7])
		if !ok || err != nil || !ok2 {
			return "bad-op", true
		}
		ring, ok := ringOf(e.g, r)
		if !ok {
			return "bad-op", true
		}
		seg := geometry.Segment{A: pts[0], B: pts[1]}
		al := toks[7] == "1"
		return b2s(geometry.VerifRingContainsSegment(ring, seg, al)) + b2s(geometry.VerifRingIntersectsSegment(ring, seg, al)), true
	case "move":
		if len(toks) != 5 {
			return "bad-op", true
		}
		e, ok := genv[toks[1]]
		dx, ok1 := q16(toks[2])
		dy, ok2 := q16(toks[3])
		if !ok || !ok1 || !ok2 {
			return "bad-op", true
		}
		genv[toks[4]] = gEntry{moveG(e.g, dx, dy)}
		return "ok", true
	}
	return "", false
}
