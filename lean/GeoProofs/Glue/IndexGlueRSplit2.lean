/-
  GeoProofs.Glue.IndexGlueRSplit2 — the groundwork for `IndexGlueRSplit.lean` (which imports this
  file): the model's `splitLoop` one pass at a time, the generic simulations `loopW` ~ `splitLoop`
  and `loopM` ~ `distributeEquals`, counted loops as folds, and the generated `expand`,
  `largestAxis`, `recalc` against the model.
-/
import GeoProofs.Glue.IndexGlueR

/- everything here lives in `Geo.IGlue.RSplit`, so that the helper names cannot collide with the
   sibling bridge files -/
namespace Geo.IGlue.RSplit
open Geo Geo.IGen
open scoped Geo.KNum

/-! ## the model's loop, one step at a time -/

section Model
variable {β : Type}

/-- one pass of `splitLoop` (for `i < left.length`) on the tuple (left, i, right, equals) -/
def splitStep (cls : β → Nat) (st : List β × Nat × List β × List β) : List β × Nat × List β × List β :=
  match st with
  | (left, i, right, equals) =>
    match left[i]? with
    | none => st
    | some e =>
      match cls e with
      | 0 => (left, i + 1, right, equals)
      | c => ((left.set i (left.getLast?.getD e)).dropLast, i,
              (if c == 1 then right ++ [e] else right), (if c == 1 then equals else equals ++ [e]))

theorem splitLoop_succ (cls : β → Nat) (m : Nat) (left : List β) (i : Nat) (right equals : List β)
    (h : i < left.length) :
    splitLoop cls (m + 1) left i right equals =
      (match splitStep cls (left, i, right, equals) with
       | (l, j, r, e) => splitLoop cls m l j r e) := by
  rw [splitLoop]
  simp only [h, ↓reduceDIte, splitStep, List.getElem?_eq_getElem]
  split <;> simp_all

theorem splitLoop_done (cls : β → Nat) (m : Nat) (left : List β) (i : Nat) (right equals : List β)
    (h : ¬ i < left.length) :
    splitLoop cls m left i right equals = (left, right, equals) := by
  cases m with
  | zero => rfl
  | succ m => rw [splitLoop]; simp [h]

/-- the measure `left.length - i` drops by one in each pass -/
theorem splitStep_measure (cls : β → Nat) (left : List β) (i : Nat) (right equals : List β)
    (h : i < left.length) :
    (splitStep cls (left, i, right, equals)).1.length - (splitStep cls (left, i, right, equals)).2.1
      = left.length - i - 1 := by
  simp only [splitStep, List.getElem?_eq_getElem h]
  split
  · simp; omega
  · simp; omega

end Model

/-! ## generic simulation of `loopW` by `splitLoop`, of `loopM` by `distributeEquals` -/

section Sim
variable {β σ ρ : Type}

theorem loopW_splitLoop (cls : β → Nat) (cond : σ → Option Bool) (body : σ → Option (Flow σ ρ))
    (abs : σ → List β × Nat × List β × List β) (Inv : σ → Prop)
    (hcond : ∀ s, Inv s → cond s = some (decide ((abs s).2.1 < (abs s).1.length)))
    (hbody : ∀ s, Inv s → (abs s).2.1 < (abs s).1.length →
      ∃ s', body s = some (Flow.next s') ∧ Inv s' ∧ abs s' = splitStep cls (abs s)) :
    ∀ (n g m : Nat) (s : σ), Inv s → (abs s).1.length - (abs s).2.1 = n → n < g → n ≤ m →
      ∃ s', loopW g s cond body = some (Exit.done s') ∧ Inv s' ∧
        ((abs s').1, (abs s').2.2.1, (abs s').2.2.2)
          = splitLoop cls m (abs s).1 (abs s).2.1 (abs s).2.2.1 (abs s).2.2.2 := by
  intro n
  induction n with
  | zero =>
    intro g m s hI hn hg _
    obtain ⟨g, rfl⟩ : ∃ g', g = g' + 1 := ⟨g - 1, by omega⟩
    have hlt : ¬ (abs s).2.1 < (abs s).1.length := by omega
    refine ⟨s, ?_, hI, ?_⟩
    · rw [loopW, hcond s hI]; simp [hlt]
    · rw [splitLoop_done _ _ _ _ _ _ hlt]
  | succ n ih =>
    intro g m s hI hn hg hm
    obtain ⟨g, rfl⟩ : ∃ g', g = g' + 1 := ⟨g - 1, by omega⟩
    obtain ⟨m, rfl⟩ : ∃ m', m = m' + 1 := ⟨m - 1, by omega⟩
    have hlt : (abs s).2.1 < (abs s).1.length := by omega
    obtain ⟨s1, hb, hI1, ha1⟩ := hbody s hI hlt
    have hmeas := splitStep_measure cls (abs s).1 (abs s).2.1 (abs s).2.2.1 (abs s).2.2.2 hlt
    have hmeas' : (abs s1).1.length - (abs s1).2.1 = n := by
      rw [ha1]; rw [show abs s = ((abs s).1, (abs s).2.1, (abs s).2.2.1, (abs s).2.2.2) from rfl]
      omega
    obtain ⟨s', hl, hI', he⟩ := ih g m s1 hI1 hmeas' (by omega) (by omega)
    refine ⟨s', ?_, hI', ?_⟩
    · rw [loopW, hcond s hI]; simp only [hlt, decide_true, hb]; exact hl
    · rw [he, splitLoop_succ _ _ _ _ _ _ hlt, ha1]

theorem loopM_distribute {ε : Type} (body : ε → σ → Option σ) (emb : ε → β)
    (abs : σ → List β × List β) (Inv : Nat → σ → Prop)
    (hbody : ∀ k s b, Inv (k + 1) s → ∃ s', body b s = some s' ∧ Inv k s' ∧
      abs s' = (if (abs s).1.length < (abs s).2.length then ((abs s).1 ++ [emb b], (abs s).2)
                else ((abs s).1, (abs s).2 ++ [emb b]))) :
    ∀ (eqs : List ε) (s : σ), Inv eqs.length s →
      ∃ s', loopM eqs s body = some s' ∧ Inv 0 s' ∧
        abs s' = distributeEquals (abs s).1 (abs s).2 (eqs.map emb) := by
  intro eqs
  induction eqs with
  | nil => intro s hI; exact ⟨s, rfl, hI, rfl⟩
  | cons b rest ih =>
    intro s hI
    obtain ⟨s1, hb, hI1, ha1⟩ := hbody rest.length s b hI
    obtain ⟨s', hl, hI', he⟩ := ih s1 hI1
    refine ⟨s', ?_, hI', ?_⟩
    · rw [loopM, hb]; exact hl
    · rw [he, ha1, List.map_cons, distributeEquals]
      split <;> rfl

end Sim

/-! ## counted loops are folds -/

theorem intRange_nil (lo hi : Int) (h : hi ≤ lo) : intRange lo hi = [] := by
  have : (hi - lo).toNat = 0 := by omega
  simp [intRange, this]

theorem intRange_cons (lo hi : Int) (h : lo < hi) : intRange lo hi = lo :: intRange (lo + 1) hi := by
  obtain ⟨n, hn⟩ : ∃ n : Nat, (hi - lo).toNat = n + 1 := ⟨(hi - lo).toNat - 1, by omega⟩
  have hn' : (hi - (lo + 1)).toNat = n := by omega
  simp only [intRange, hn, hn', List.range_succ_eq_map, List.map_cons, List.map_map]
  simp only [Int.ofNat_eq_natCast, Int.natCast_zero, Int.add_zero, List.cons.injEq, true_and]
  apply List.map_congr_left
  intro k _
  simp only [Function.comp, Nat.succ_eq_add_one]
  omega

theorem loopM_intRange_fold {σ α : Type} (body : Int → σ → Option σ) (f : σ → α → σ) (xs : List α)
    (Inv : σ → Prop)
    (hb : ∀ (k : Nat) (s : σ) (h : k < xs.length), Inv s →
      body (Int.ofNat k) s = some (f s xs[k]) ∧ Inv (f s xs[k])) :
    ∀ (n lo : Nat) (s : σ), Inv s → lo + n ≤ xs.length →
      loopM (intRange (Int.ofNat lo) (Int.ofNat (lo + n))) s body
        = some (((xs.take (lo + n)).drop lo).foldl f s) := by
  intro n
  induction n with
  | zero =>
    intro lo s _ _
    rw [intRange_nil _ _ (by simp)]
    simp [loopM]
  | succ n ih =>
    intro lo s hI hle
    have hlo : lo < xs.length := by omega
    rw [intRange_cons _ _ (by simp only [Int.ofNat_eq_natCast]; omega)]
    obtain ⟨h1, h2⟩ := hb lo s hlo hI
    rw [loopM, h1]
    have := ih (lo + 1) (f s xs[lo]) h2 (by omega)
    rw [show Int.ofNat lo + 1 = Int.ofNat (lo + 1) from rfl,
        show lo + (n + 1) = lo + 1 + n by omega]
    show loopM _ (f s xs[lo]) body = _
    rw [this]
    congr 1
    rw [List.drop_eq_getElem_cons (by simp; omega : lo < (List.take (lo + 1 + n) xs).length)]
    simp [List.getElem_take]

/-! ## slots: `listAt` / `listSet` at Int indices, and the used prefix under the two updates -/

section Slots
variable {α : Type}

theorem listAt_nat (xs : List α) (i : Int) (h0 : 0 ≤ i) (h1 : i.toNat < xs.length) :
    listAt xs i = some xs[i.toNat] := by
  have : ¬ i < 0 := by omega
  simp [listAt, this, List.getElem?_eq_getElem h1]

theorem listSet_nat (xs : List α) (i : Int) (v : α) (h0 : 0 ≤ i) (h1 : i.toNat < xs.length) :
    listSet xs i v = some (xs.set i.toNat v) := by
  have : ¬ i < 0 := by omega
  simp [listSet, this, h1]

/-- writing slot `k` and counting it in: the used prefix grows by the written entry -/
theorem take_set_append (l : List α) (k : Nat) (v : α) (h : k < l.length) :
    (l.set k v).take (k + 1) = l.take k ++ [v] := by
  rw [List.take_add_one, List.take_set_of_le (Nat.le_refl k)]
  simp [h]

/-- `rects[k] = rects[c]; rects[c].data = nil; count--` on the used prefix `take (c+1)` is the
    model's `(left.set k last).dropLast` -/
theorem swap_remove_take (l : List α) (c k : Nat) (z e last : α) (hc : c + 1 ≤ l.length)
    (hlast : l[c]? = some last) :
    ((l.set k last).set c z).take c
      = ((l.take (c + 1)).set k ((l.take (c + 1)).getLast?.getD e)).dropLast := by
  have hg : (l.take (c + 1)).getLast? = some last := by
    rw [List.getLast?_eq_getElem?, List.length_take, Nat.min_eq_left hc, List.getElem?_take]
    simp [hlast]
  rw [hg, Option.getD_some, List.take_set_of_le (Nat.le_refl c), List.dropLast_eq_take,
    List.length_set, List.length_take, Nat.min_eq_left hc, ← List.take_set, List.take_take]
  simp

end Slots

/-! ## projections of the generated inductive types -/

section Proj
variable {F : Type}

@[simp] theorem count_mk (c : Int) (rs : List (IGen.RRect F)) : (IGen.RNode.mk c rs).count = c := rfl
@[simp] theorem rects_mk (c : Int) (rs : List (IGen.RRect F)) : (IGen.RNode.mk c rs).rects = rs := rfl
@[simp] theorem data_mk (d : Dyn F) (a b c e : F) : (IGen.RRect.mk d a b c e).data = d := rfl
@[simp] theorem min0_mk (d : Dyn F) (a b c e : F) : (IGen.RRect.mk d a b c e).min0 = a := rfl
@[simp] theorem min1_mk (d : Dyn F) (a b c e : F) : (IGen.RRect.mk d a b c e).min1 = b := rfl
@[simp] theorem max0_mk (d : Dyn F) (a b c e : F) : (IGen.RRect.mk d a b c e).max0 = c := rfl
@[simp] theorem max1_mk (d : Dyn F) (a b c e : F) : (IGen.RRect.mk d a b c e).max1 = e := rfl
@[simp] theorem asRNode_rNode (v : IGen.RNode F) : Dyn.asRNode (Dyn.rNode v) = some v := rfl

@[simp] theorem toNat_ofNat' (k : Nat) : (Int.ofNat k).toNat = k := rfl

end Proj

/-! ## expand, recalc, largestAxis -/

section R
variable {F S SR D : Type} [KNum F] [Carrier F] [Compat F] (ops : Ops F S SR D)

theorem expand_eq (r b : RRect F) :
    (rRect_expand ops r b).data = r.data ∧ rbox (rRect_expand ops r b) = (rbox r).expand (rbox b) := by
  cases r with
  | mk d a0 a1 c0 c1 =>
    cases b with
    | mk d' b0 b1 e0 e1 =>
      simp only [rRect_expand, rbox, GBox.expand, Compat.lt, KNum.gt, RRect.data, RRect.min0,
        RRect.min1, RRect.max0, RRect.max1]
      by_cases h1 : (b0 <ₖ a0) = true <;> by_cases h2 : (c0 <ₖ e0) = true <;>
        by_cases h3 : (b1 <ₖ a1) = true <;> by_cases h4 : (c1 <ₖ e1) = true <;>
        simp [h1, h2, h3, h4]

theorem largestAxis_eq' (r : RRect F) :
    (rRect_largestAxis ops r).1
      = if Carrier.lt (Carrier.sub r.max0 r.min0) (Carrier.sub r.max1 r.min1) then 1 else 0 := by
  cases r with
  | mk d a0 a1 c0 c1 =>
    simp only [rRect_largestAxis, Compat.lt, Compat.sub, KNum.gt, RRect.min0,
      RRect.min1, RRect.max0, RRect.max1]
    by_cases h : (c0 -ₖ a0 <ₖ c1 -ₖ a1) = true <;> simp [h]

/-- the state of the loop in `recalc`: the receiver's fields -/
def recalcStep (s : Dyn F × F × F × F × F) (x : RRect F) : Dyn F × F × F × F × F :=
  match rRect_expand ops (RRect.mk s.1 s.2.1 s.2.2.1 s.2.2.2.1 s.2.2.2.2) x with
  | .mk d a b c e => (d, a, b, c, e)

theorem recalcStep_fold (xs : List (RRect F)) : ∀ (s : Dyn F × F × F × F × F),
    (xs.foldl (recalcStep ops) s).1 = s.1 ∧
    (⟨(xs.foldl (recalcStep ops) s).2.1, (xs.foldl (recalcStep ops) s).2.2.1,
      (xs.foldl (recalcStep ops) s).2.2.2.1, (xs.foldl (recalcStep ops) s).2.2.2.2⟩ : GBox F)
      = (xs.map rbox).foldl GBox.expand ⟨s.2.1, s.2.2.1, s.2.2.2.1, s.2.2.2.2⟩ := by
  induction xs with
  | nil => intro s; exact ⟨rfl, rfl⟩
  | cons x xs ih =>
    intro s
    obtain ⟨h1, h2⟩ := ih (recalcStep ops s x)
    obtain ⟨e1, e2⟩ := expand_eq ops (RRect.mk s.1 s.2.1 s.2.2.1 s.2.2.2.1 s.2.2.2.2) x
    have hs1 : (recalcStep ops s x).1 = s.1 := by
      unfold recalcStep
      cases hx : rRect_expand ops (RRect.mk s.1 s.2.1 s.2.2.1 s.2.2.2.1 s.2.2.2.2) x
      rw [hx] at e1; exact e1
    have hs2 : (⟨(recalcStep ops s x).2.1, (recalcStep ops s x).2.2.1, (recalcStep ops s x).2.2.2.1,
        (recalcStep ops s x).2.2.2.2⟩ : GBox F)
        = GBox.expand ⟨s.2.1, s.2.2.1, s.2.2.2.1, s.2.2.2.2⟩ (rbox x) := by
      unfold recalcStep
      cases hx : rRect_expand ops (RRect.mk s.1 s.2.1 s.2.2.1 s.2.2.2.1 s.2.2.2.2) x
      rw [hx] at e2; exact e2
    simp only [List.foldl_cons, List.map_cons]
    exact ⟨h1.trans hs1, by rw [h2, hs2]⟩

theorem recalc_eq' (r : IGen.RRect F) (nd : IGen.RNode F) (h : r.data = .rNode nd) (hs : SlotsOK nd) :
    ∃ r', rRect_recalc ops r = some r' ∧ r'.data = r.data ∧
      (1 ≤ nd.count → ∀ dflt, rbox r' = recalcBoxes ((usedSlots nd).map rbox) dflt) ∧
      (nd.count = 0 → ∀ e, nd.rects[0]? = some e → rbox r' = rbox e) := by
  cases r with
  | mk d a0 a1 c0 c1 =>
    cases nd with
    | mk cnt rects =>
      simp only [data_mk] at h
      subst h
      obtain ⟨hlen, h0, h17⟩ := hs
      simp only [rects_mk, count_mk] at hlen h0 h17
      obtain ⟨e0, rest, rfl⟩ : ∃ e0 rest, rects = e0 :: rest := by
        cases rects with
        | nil => simp at hlen
        | cons e0 rest => exact ⟨e0, rest, rfl⟩
      unfold rRect_recalc
      simp only [bind, asRNode_rNode, Option.bind_some, rects_mk, count_mk, listAt, data_mk]
      simp only [Int.lt_irrefl, ↓reduceIte, Int.toNat_zero, List.getElem?_cons_zero, Option.bind_some]
      by_cases hc0 : cnt = 0
      · subst hc0
        rw [intRange_nil _ _ (by omega)]
        simp only [loopM, Option.bind_some]
        refine ⟨_, rfl, rfl, fun h => absurd h (by omega), ?_⟩
        intro _ e he
        cases he; rfl
      · obtain ⟨n, rfl⟩ : ∃ n : Nat, cnt = Int.ofNat (1 + n) := ⟨cnt.toNat - 1, by
          simp only [Int.ofNat_eq_natCast]; omega⟩
        have hle : 1 + n ≤ (e0 :: rest).length := by
          simp only [Int.ofNat_eq_natCast] at h17; omega
        rw [show (1 : Int) = Int.ofNat 1 from rfl]
        rw [loopM_intRange_fold _ (recalcStep ops) (e0 :: rest)
          (fun s => s.1 = Dyn.rNode (RNode.mk (Int.ofNat (1 + n)) (e0 :: rest))) ?_ n 1 _ rfl hle]
        · simp only [Option.bind_some]
          obtain ⟨f1, f2⟩ := recalcStep_fold ops (List.drop 1 (List.take (1 + n) (e0 :: rest)))
            (Dyn.rNode (RNode.mk (Int.ofNat (1 + n)) (e0 :: rest)), e0.min0, e0.min1, e0.max0, e0.max1)
          refine ⟨_, rfl, f1, ?_, fun h => absurd h (by simp only [Int.ofNat_eq_natCast]; omega)⟩
          intro _ dflt
          simp only [rbox, min0_mk, min1_mk, max0_mk, max1_mk]
          rw [f2]
          simp only [usedSlots, rects_mk, count_mk, toNat_ofNat', Nat.add_comm 1 n,
            List.take_succ_cons, List.map_cons, recalcBoxes, List.drop_succ_cons, List.drop_zero]
          rfl
        · intro k s hk hI
          obtain ⟨d, a, b, c, e⟩ := s
          simp only at hI
          subst hI
          have hk' : ¬ (Int.ofNat k < 0) := by simp only [Int.ofNat_eq_natCast]; omega
          simp only [asRNode_rNode, Option.bind_some, rects_mk, hk', ↓reduceIte, toNat_ofNat',
            List.getElem?_eq_getElem hk, recalcStep]
          cases hx : rRect_expand ops (RRect.mk (Dyn.rNode (RNode.mk (Int.ofNat (1 + n)) (e0 :: rest))) a b c e)
            (e0 :: rest)[k] with
          | mk d' a' b' c' e' =>
            refine ⟨rfl, ?_⟩
            have := (expand_eq ops (RRect.mk (Dyn.rNode (RNode.mk (Int.ofNat (1 + n)) (e0 :: rest))) a b c e)
              (e0 :: rest)[k]).1
            rw [hx] at this
            exact this

end R

end Geo.IGlue.RSplit
