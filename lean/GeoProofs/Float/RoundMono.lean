/-
  GeoProofs.Float.RoundMono — representable values are fixed points of `rn`; `rn` is monotone;
  sign and relative-error lemmas.
-/
import GeoProofs.Float.Round

namespace Geo.F

/-- grid values with a 53-bit significand (no upper exponent bound) are fixed by `rn` -/
theorem rn_of_grid {x : ℚ} (m e : ℤ) (hm : |m| < 2 ^ 53) (he : -1074 ≤ e)
    (hx : x = m * (2 : ℚ) ^ e) : rn x = x := by
  by_cases h0 : x = 0
  · rw [h0]; exact rn_zero
  -- expo x ≤ e
  have hlt : |x| < (2 : ℚ) ^ (53 + e) := by
    rw [hx, abs_mul, abs_of_pos (two_zpow_pos e), zpow_add₀ (by norm_num)]
    apply mul_lt_mul_of_pos_right _ (two_zpow_pos e)
    exact_mod_cast hm
  have hl := ilog_lt_of_lt h0 hlt
  have hexp : expo x ≤ e := by unfold expo; omega
  have hq : x / ulp x = ((m * 2 ^ (e - expo x).toNat : ℤ) : ℚ) := by
    have hu := ulp_pos x
    rw [div_eq_iff hu.ne']
    unfold ulp
    generalize expo x = u at hexp ⊢
    rw [hx, zpow_eq_int_mul hexp]
    push_cast; ring
  unfold rn
  rw [hq, rne_intCast, ← hq]
  exact div_mul_cancel₀ _ (ulp_pos x).ne'

theorem rn_of_F64 {x : ℚ} (h : F64 x) : rn x = x := by
  obtain ⟨m, e, hm, he, _, hx⟩ := h
  exact rn_of_grid m e hm he hx

theorem rn_two_zpow {k : ℤ} (hk : -1074 ≤ k) : rn ((2 : ℚ) ^ k) = 2 ^ k :=
  rn_of_grid 1 k (by norm_num) hk (by simp)

theorem rn_mono_pos {x y : ℚ} (hx : 0 < x) (h : x ≤ y) : rn x ≤ rn y := by
  have hy : 0 < y := lt_of_lt_of_le hx h
  have hx0 : x ≠ 0 := hx.ne'
  have hy0 : y ≠ 0 := hy.ne'
  have habs : |x| ≤ |y| := by rwa [abs_of_pos hx, abs_of_pos hy]
  have hil := ilog_mono hx0 habs
  by_cases he : expo x = expo y
  · have hu : ulp x = ulp y := by unfold ulp; rw [he]
    unfold rn
    rw [hu]
    have hup := ulp_pos y
    apply mul_le_mul_of_nonneg_right _ hup.le
    have : rne (x / ulp y) ≤ rne (y / ulp y) :=
      rne_mono (div_le_div_of_nonneg_right h hup.le)
    exact_mod_cast this
  · have hlt : expo x < expo y := lt_of_le_of_ne (expo_mono hx0 habs) he
    -- the power of two c = 2^(ilog y) separates x and y and lies on both grids
    have h1 : expo x ≤ ilog y := by unfold expo at hlt ⊢; omega
    have h2 : expo y ≤ ilog y := by unfold expo at hlt ⊢; omega
    have h3 : ilog x + 1 ≤ ilog y := by unfold expo at hlt; omega
    have hxc : x ≤ (2 : ℚ) ^ ilog y := by
      have := lt_zpow_ilog x
      rw [abs_of_pos hx] at this
      exact (this.trans_le (two_zpow_le h3)).le
    have hcy : (2 : ℚ) ^ ilog y ≤ y := by
      have := zpow_ilog_le hy0
      rwa [abs_of_pos hy] at this
    exact (rn_le_of_le_grid _ (zpow_eq_int_mul h1) hxc).trans
      (le_rn_of_grid_le _ (zpow_eq_int_mul h2) hcy)

theorem rn_mono {x y : ℚ} (h : x ≤ y) : rn x ≤ rn y := by
  rcases lt_trichotomy 0 x with hx | hx | hx
  · exact rn_mono_pos hx h
  · subst hx; rw [rn_zero]; exact rn_nonneg h
  · rcases le_or_gt y 0 with hy | hy
    · rcases hy.lt_or_eq with hy | hy
      · have := rn_mono_pos (x := -y) (y := -x) (by linarith) (by linarith)
        rw [rn_neg, rn_neg] at this; linarith
      · subst hy; rw [rn_zero]; exact rn_nonpos hx.le
    · exact (rn_nonpos hx.le).trans (rn_nonneg hy.le)

/-- powers of two (≥ 2^-1074) are preserved as lower bounds -/
theorem zpow_le_rn {x : ℚ} {k : ℤ} (hk : -1074 ≤ k) (h : (2 : ℚ) ^ k ≤ x) : (2 : ℚ) ^ k ≤ rn x := by
  have := rn_mono h; rwa [rn_two_zpow hk] at this

theorem rn_le_zpow {x : ℚ} {k : ℤ} (hk : -1074 ≤ k) (h : x ≤ (2 : ℚ) ^ k) : rn x ≤ (2 : ℚ) ^ k := by
  have := rn_mono h; rwa [rn_two_zpow hk] at this

/-- `rn` keeps the sign, provided |x| does not underflow to zero (|x| ≥ 2^-1074). -/
theorem rn_pos {x : ℚ} (h : (2 : ℚ) ^ (-1074 : ℤ) ≤ x) : 0 < rn x :=
  lt_of_lt_of_le (two_zpow_pos _) (zpow_le_rn le_rfl h)

theorem rn_neg_of_neg {x : ℚ} (h : x ≤ -(2 : ℚ) ^ (-1074 : ℤ)) : rn x < 0 := by
  have := rn_pos (x := -x) (by linarith)
  rw [rn_neg] at this; linarith

theorem rn_eq_zero_iff {x : ℚ} (h : x = 0 ∨ (2 : ℚ) ^ (-1074 : ℤ) ≤ |x|) : rn x = 0 ↔ x = 0 := by
  constructor
  · intro hr
    rcases h with h | h
    · exact h
    · by_contra hx
      rcases lt_or_gt_of_ne hx with hneg | hpos
      · rw [abs_of_neg hneg] at h
        have := rn_neg_of_neg (x := x) (by linarith); linarith
      · rw [abs_of_pos hpos] at h
        have := rn_pos h; linarith
  · rintro rfl; exact rn_zero

/-- relative error 2^-53 in the normal range -/
theorem rn_rel_error {x : ℚ} (h : x = 0 ∨ (2 : ℚ) ^ (-1022 : ℤ) ≤ |x|) :
    |rn x - x| ≤ |x| * 2 ^ (-53 : ℤ) := by
  rcases h with rfl | h
  · simp
  have hx0 : x ≠ 0 := by
    intro h0; rw [h0, abs_zero] at h
    exact absurd h (not_le.mpr (two_zpow_pos _))
  have hl := le_ilog_of_le hx0 h
  have he : expo x = ilog x - 52 := by unfold expo; omega
  have h1 := abs_rn_sub_le x
  have h2 := zpow_ilog_le hx0
  calc |rn x - x| ≤ ulp x / 2 := h1
    _ = 2 ^ ilog x * 2 ^ (-53 : ℤ) := by
        unfold ulp; rw [he, ← zpow_add₀ (by norm_num)]
        rw [show ilog x + -53 = (ilog x - 52) + (-1) by ring, zpow_add₀ (by norm_num)]
        norm_num; ring
    _ ≤ |x| * 2 ^ (-53 : ℤ) := mul_le_mul_of_nonneg_right h2 (two_zpow_pos _).le

end Geo.F
