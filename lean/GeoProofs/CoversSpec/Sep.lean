/-
  GeoProofs.CoversSpec.Sep — elementary facts about closed segments in the rational plane:
  disjoint segments are strictly separated by an affine functional, L∞ tubes, convexity.
-/
import GeoProofs.CoversSpec.Defs
import Mathlib.Tactic.NormNum

namespace Geo
namespace CS
open Jordan

/-- the closed intervals spanned by `a,b` and by `c,d` are disjoint -/
def Disj1 (a b c d : Rat) : Prop := max a b < min c d ∨ max c d < min a b

theorem Disj1.symm {a b c d : Rat} (h : Disj1 a b c d) : Disj1 c d a b := Or.symm h

theorem sep1 {a b c d : Rat} (h : Disj1 a b c d) :
    ∃ α γ : Rat, 0 < α * a + γ ∧ 0 < α * b + γ ∧ α * c + γ < 0 ∧ α * d + γ < 0 := by
  rcases h with h | h
  · refine ⟨-1, (max a b + min c d) / 2, ?_, ?_, ?_, ?_⟩ <;>
      linarith [le_max_left a b, le_max_right a b, min_le_left c d, min_le_right c d]
  · refine ⟨1, -(max c d + min a b) / 2, ?_, ?_, ?_, ?_⟩ <;>
      linarith [le_max_left c d, le_max_right c d, min_le_left a b, min_le_right a b]

/-- the affine functional `s * cross u v · + k` in coefficient form -/
theorem cross_affine (u v : Pt) (s k : Rat) :
    ∃ α β γ : Rat, ∀ p : Pt, α * p.x + β * p.y + γ = s * Spec.cross u v p + k :=
  ⟨-(s * (v.y - u.y)), s * (v.x - u.x), s * ((v.y - u.y) * u.x - (v.x - u.x) * u.y) + k, by
    intro p; rw [K.cross_def]; ring⟩

theorem cross_self_left (a b : Pt) : Spec.cross a b a = 0 := by rw [K.cross_def]; ring
theorem cross_self_right (a b : Pt) : Spec.cross a b b = 0 := by rw [K.cross_def]; ring

/-- both ends of `cd` strictly on one side of the line `ab` -/
theorem sep_of_side {a b c d : Pt} (h : 0 < Spec.cross a b c * Spec.cross a b d) :
    ∃ α β γ : Rat, 0 < α * a.x + β * a.y + γ ∧ 0 < α * b.x + β * b.y + γ ∧
      α * c.x + β * c.y + γ < 0 ∧ α * d.x + β * d.y + γ < 0 := by
  rcases lt_trichotomy (Spec.cross a b c) 0 with h1 | h1 | h1
  · have h2 : Spec.cross a b d < 0 := by
      by_contra hc; nlinarith [mul_nonneg (neg_nonneg.2 h1.le) (not_lt.1 hc)]
    obtain ⟨α, β, γ, hl⟩ := cross_affine a b 1 (-(max (Spec.cross a b c) (Spec.cross a b d)) / 2)
    have hm : max (Spec.cross a b c) (Spec.cross a b d) < 0 := max_lt h1 h2
    refine ⟨α, β, γ, ?_, ?_, ?_, ?_⟩ <;> rw [hl]
    · rw [cross_self_left]; linarith
    · rw [cross_self_right]; linarith
    · linarith [le_max_left (Spec.cross a b c) (Spec.cross a b d)]
    · linarith [le_max_right (Spec.cross a b c) (Spec.cross a b d)]
  · rw [h1] at h; simp at h
  · have h2 : 0 < Spec.cross a b d := by
      by_contra hc; nlinarith [mul_nonneg h1.le (neg_nonneg.2 (not_lt.1 hc))]
    obtain ⟨α, β, γ, hl⟩ := cross_affine a b (-1) (min (Spec.cross a b c) (Spec.cross a b d) / 2)
    have hm : 0 < min (Spec.cross a b c) (Spec.cross a b d) := lt_min h1 h2
    refine ⟨α, β, γ, ?_, ?_, ?_, ?_⟩ <;> rw [hl]
    · rw [cross_self_left]; linarith
    · rw [cross_self_right]; linarith
    · linarith [min_le_left (Spec.cross a b c) (Spec.cross a b d)]
    · linarith [min_le_right (Spec.cross a b c) (Spec.cross a b d)]

/-- `c` on the line `ab` but off the segment, and `a,b` not strictly on opposite sides of `cd`:
    all four points are collinear -/
theorem collinear_of_on_line {a b c d : Pt} (h1 : Spec.cross a b c = 0) (hc : ¬ OnSeg a b c)
    (h34 : Spec.cross c d a * Spec.cross c d b ≤ 0) :
    Spec.cross a b d = 0 ∧ Spec.cross c d a = 0 ∧ Spec.cross c d b = 0 := by
  by_cases hab : a = b
  · subst hab
    have e : Spec.cross c d a * Spec.cross c d a ≤ 0 := h34
    have : Spec.cross c d a = 0 := by nlinarith [mul_self_nonneg (Spec.cross c d a)]
    exact ⟨by rw [K.cross_def]; ring, this, this⟩
  · obtain ⟨g, hx, hy⟩ := K.line_param hab h1
    have hg : g < 0 ∨ 1 < g := by
      by_contra hcon
      push Not at hcon
      exact hc (K.onSeg_of_param hcon.1 hcon.2 hx hy)
    have hgg : g * (1 - g) < 0 := by
      rcases hg with hg | hg
      · exact mul_neg_of_neg_of_pos hg (by linarith)
      · exact mul_neg_of_pos_of_neg (by linarith) (by linarith)
    generalize hR : (d.x - c.x) * (b.y - a.y) - (d.y - c.y) * (b.x - a.x) = R
    have e3 : Spec.cross c d a = -(g * R) := by rw [K.cross_def, ← hR, hx, hy]; ring
    have e4 : Spec.cross c d b = (1 - g) * R := by rw [K.cross_def, ← hR, hx, hy]; ring
    have e2 : Spec.cross a b d = -R := by
      rw [K.cross_def] at h1 ⊢
      rw [← hR]; linear_combination h1
    have hR0 : R = 0 := by
      rw [e3, e4] at h34
      have : 0 ≤ (-(g * (1 - g))) * (R * R) := by nlinarith
      have h5 : R * R ≤ 0 := by
        by_contra hcon
        push Not at hcon
        nlinarith [mul_pos (neg_pos.2 hgg) hcon]
      nlinarith [mul_self_nonneg R]
    rw [e2, e3, e4, hR0]; simp
theorem disj_x_of_collinear {a b c d : Pt} (hne : c.x ≠ d.x)
    (h3 : Spec.cross c d a = 0) (h4 : Spec.cross c d b = 0) (h1 : Spec.cross a b c = 0)
    (ha : ¬ OnSeg c d a) (hb : ¬ OnSeg c d b) (hc : ¬ OnSeg a b c) :
    Disj1 a.x b.x c.x d.x := by
  have ha' : a.x < min c.x d.x ∨ max c.x d.x < a.x := by
    by_contra hcon; push Not at hcon
    exact ha (K.onSeg_of_cross_xrange hne h3 hcon.1 hcon.2)
  have hb' : b.x < min c.x d.x ∨ max c.x d.x < b.x := by
    by_contra hcon; push Not at hcon
    exact hb (K.onSeg_of_cross_xrange hne h4 hcon.1 hcon.2)
  have hcl := min_le_left c.x d.x
  have hcr := le_max_left c.x d.x
  rcases ha' with ha' | ha' <;> rcases hb' with hb' | hb'
  · exact Or.inl (max_lt ha' hb')
  · exfalso
    refine hc (K.onSeg_of_cross_xrange (by intro h; linarith) h1 ?_ ?_)
    · rw [min_eq_left (by linarith)]; linarith
    · rw [max_eq_right (by linarith)]; linarith
  · exfalso
    refine hc (K.onSeg_of_cross_xrange (by intro h; linarith) h1 ?_ ?_)
    · rw [min_eq_right (by linarith)]; linarith
    · rw [max_eq_left (by linarith)]; linarith
  · exact Or.inr (lt_min ha' hb')

theorem disj_y_of_collinear {a b c d : Pt} (hne : c.y ≠ d.y)
    (h3 : Spec.cross c d a = 0) (h4 : Spec.cross c d b = 0) (h1 : Spec.cross a b c = 0)
    (ha : ¬ OnSeg c d a) (hb : ¬ OnSeg c d b) (hc : ¬ OnSeg a b c) :
    Disj1 a.y b.y c.y d.y := by
  have ha' : a.y < min c.y d.y ∨ max c.y d.y < a.y := by
    by_contra hcon; push Not at hcon
    exact ha (K.onSeg_of_cross_yrange hne h3 hcon.1 hcon.2)
  have hb' : b.y < min c.y d.y ∨ max c.y d.y < b.y := by
    by_contra hcon; push Not at hcon
    exact hb (K.onSeg_of_cross_yrange hne h4 hcon.1 hcon.2)
  have hcl := min_le_left c.y d.y
  have hcr := le_max_left c.y d.y
  rcases ha' with ha' | ha' <;> rcases hb' with hb' | hb'
  · exact Or.inl (max_lt ha' hb')
  · exfalso
    refine hc (K.onSeg_of_cross_yrange (by intro h; linarith) h1 ?_ ?_)
    · rw [min_eq_left (by linarith)]; linarith
    · rw [max_eq_right (by linarith)]; linarith
  · exfalso
    refine hc (K.onSeg_of_cross_yrange (by intro h; linarith) h1 ?_ ?_)
    · rw [min_eq_right (by linarith)]; linarith
    · rw [max_eq_left (by linarith)]; linarith
  · exact Or.inr (lt_min ha' hb')

/-- four collinear points, no end of one segment on the other: the coordinate ranges are
    separated in `x` or in `y` -/
theorem disj_of_collinear {a b c d : Pt}
    (h1 : Spec.cross a b c = 0) (h2 : Spec.cross a b d = 0)
    (h3 : Spec.cross c d a = 0) (h4 : Spec.cross c d b = 0)
    (hc : ¬ OnSeg a b c) (hd : ¬ OnSeg a b d) (ha : ¬ OnSeg c d a) (hb : ¬ OnSeg c d b) :
    Disj1 a.x b.x c.x d.x ∨ Disj1 a.y b.y c.y d.y := by
  by_cases hx : c.x = d.x
  swap
  · exact Or.inl (disj_x_of_collinear hx h3 h4 h1 ha hb hc)
  by_cases hy : c.y = d.y
  swap
  · exact Or.inr (disj_y_of_collinear hy h3 h4 h1 ha hb hc)
  by_cases hx' : a.x = b.x
  swap
  · exact Or.inl (disj_x_of_collinear hx' h1 h2 h3 hc hd ha).symm
  by_cases hy' : a.y = b.y
  swap
  · exact Or.inr (disj_y_of_collinear hy' h1 h2 h3 hc hd ha).symm
  have hab : b = a := (K.pt_eq_iff _ _).2 ⟨hx'.symm, hy'.symm⟩
  have hcd : d = c := (K.pt_eq_iff _ _).2 ⟨hx.symm, hy.symm⟩
  subst hab hcd
  have hne : ¬ (d.x = b.x ∧ d.y = b.y) := fun h => hc (K.onSeg_degenerate.2 ((K.pt_eq_iff _ _).2 h))
  unfold Disj1
  simp only [max_self, min_self]
  by_cases h : d.x = b.x
  · right
    have : d.y ≠ b.y := fun h' => hne ⟨h, h'⟩
    rcases lt_or_gt_of_ne this with h' | h'
    · exact Or.inr h'
    · exact Or.inl h'
  · left
    rcases lt_or_gt_of_ne h with h' | h'
    · exact Or.inr h'
    · exact Or.inl h'
/-- strict separation by an affine functional -/
def Sepd (a b c d : Pt) : Prop :=
  ∃ α β γ : Rat, 0 < α * a.x + β * a.y + γ ∧ 0 < α * b.x + β * b.y + γ ∧
    α * c.x + β * c.y + γ < 0 ∧ α * d.x + β * d.y + γ < 0

theorem Sepd.symm {a b c d : Pt} (h : Sepd a b c d) : Sepd c d a b := by
  obtain ⟨α, β, γ, h1, h2, h3, h4⟩ := h
  exact ⟨-α, -β, -γ, by linarith, by linarith, by linarith, by linarith⟩

theorem Sepd.swap_right {a b c d : Pt} (h : Sepd a b c d) : Sepd a b d c := by
  obtain ⟨α, β, γ, h1, h2, h3, h4⟩ := h
  exact ⟨α, β, γ, h1, h2, h4, h3⟩

theorem sepd_of_disj {a b c d : Pt} (h : Disj1 a.x b.x c.x d.x ∨ Disj1 a.y b.y c.y d.y) :
    Sepd a b c d := by
  rcases h with h | h
  · obtain ⟨α, γ, h1, h2, h3, h4⟩ := sep1 h
    exact ⟨α, 0, γ, by linarith, by linarith, by linarith, by linarith⟩
  · obtain ⟨β, γ, h1, h2, h3, h4⟩ := sep1 h
    exact ⟨0, β, γ, by linarith, by linarith, by linarith, by linarith⟩

/-- disjoint closed segments are strictly separated by an affine functional -/
theorem sep_of_not_meet {a b c d : Pt} (h : ¬ SegsMeet a b c d) :
    ∃ α β γ : Rat, 0 < α * a.x + β * a.y + γ ∧ 0 < α * b.x + β * b.y + γ ∧
      α * c.x + β * c.y + γ < 0 ∧ α * d.x + β * d.y + γ < 0 := by
  have hc : ¬ OnSeg a b c := fun hh => h (K.segsMeet_of_onSeg_left hh)
  have hd : ¬ OnSeg a b d := fun hh => h (K.segsMeet_of_onSeg_right hh)
  have ha : ¬ OnSeg c d a := fun hh => h ((K.segsMeet_symm _ _ _ _).1 (K.segsMeet_of_onSeg_left hh))
  have hb : ¬ OnSeg c d b := fun hh => h ((K.segsMeet_symm _ _ _ _).1 (K.segsMeet_of_onSeg_right hh))
  have hdc : Spec.cross d c a * Spec.cross d c b = Spec.cross c d a * Spec.cross c d b := by
    rw [K.cross_swap c d a, K.cross_swap c d b]; ring
  have hba : Spec.cross b a c * Spec.cross b a d = Spec.cross a b c * Spec.cross a b d := by
    rw [K.cross_swap a b c, K.cross_swap a b d]; ring
  by_cases hA : 0 < Spec.cross a b c * Spec.cross a b d
  · exact sep_of_side hA
  by_cases hB : 0 < Spec.cross c d a * Spec.cross c d b
  · exact (Sepd.symm (sep_of_side hB))
  push Not at hA hB
  have hall : Spec.cross a b c = 0 ∧ Spec.cross a b d = 0 ∧ Spec.cross c d a = 0 ∧
      Spec.cross c d b = 0 := by
    by_cases h12 : Spec.cross a b c * Spec.cross a b d = 0
    · rcases mul_eq_zero.1 h12 with h0 | h0
      · obtain ⟨e2, e3, e4⟩ := collinear_of_on_line h0 hc hB
        exact ⟨h0, e2, e3, e4⟩
      · obtain ⟨e1, e3, e4⟩ := collinear_of_on_line (c := d) (d := c) h0 hd (hdc ▸ hB)
        refine ⟨e1, h0, ?_, ?_⟩
        · rw [K.cross_swap, e3]; simp
        · rw [K.cross_swap, e4]; simp
    · have h34 : Spec.cross c d a * Spec.cross c d b = 0 := by
        by_contra hne
        exact h (K.proper_cross_meet (lt_of_le_of_ne hA h12) (lt_of_le_of_ne hB hne))
      rcases mul_eq_zero.1 h34 with h0 | h0
      · obtain ⟨e4, e1, e2⟩ := collinear_of_on_line h0 ha hA
        exact ⟨e1, e2, h0, e4⟩
      · obtain ⟨e3, e1, e2⟩ := collinear_of_on_line (c := b) (d := a) h0 hb (hba ▸ hA)
        refine ⟨?_, ?_, e3, h0⟩
        · rw [K.cross_swap, e1]; simp
        · rw [K.cross_swap, e2]; simp
  obtain ⟨e1, e2, e3, e4⟩ := hall
  exact sepd_of_disj (disj_of_collinear e1 e2 e3 e4 hc hd ha hb)
theorem Near.mono {ε ε' : Rat} {x y : Pt} (h : Near ε' x y) (hle : ε' ≤ ε) : Near ε x y :=
  ⟨le_trans h.1 hle, le_trans h.2 hle⟩

/-- an L∞ tube around `ab` misses one segment disjoint from `ab` -/
theorem tube1 {a b c d : Pt} (h : ¬ SegsMeet a b c d) :
    ∃ ε : Rat, 0 < ε ∧ ∀ y x, OnSeg a b y → Near ε x y → ¬ OnSeg c d x := by
  obtain ⟨α, β, γ, ha, hb, hc, hd⟩ := sep_of_not_meet h
  set m := min (α * a.x + β * a.y + γ) (α * b.x + β * b.y + γ) with hm
  have hm0 : 0 < m := lt_min ha hb
  have hK : 0 < |α| + |β| + 1 := by positivity
  refine ⟨m / (2 * (|α| + |β| + 1)), by positivity, ?_⟩
  intro y x hy hn hx
  generalize hε : m / (2 * (|α| + |β| + 1)) = ε at hn
  have hεK : ε * (|α| + |β| + 1) = m / 2 := by rw [← hε]; field_simp
  have hε0 : 0 < ε := by rw [← hε]; positivity
  obtain ⟨t, ht0, ht1, hyx, hyy⟩ := (onSeg_iff_param a b y).1 hy
  obtain ⟨u, hu0, hu1, hxx, hxy⟩ := (onSeg_iff_param c d x).1 hx
  have ly : m ≤ α * y.x + β * y.y + γ := by
    have e : α * y.x + β * y.y + γ
        = (1 - t) * (α * a.x + β * a.y + γ) + t * (α * b.x + β * b.y + γ) := by
      rw [hyx, hyy]; ring
    have h1 : m ≤ α * a.x + β * a.y + γ := min_le_left _ _
    have h2 : m ≤ α * b.x + β * b.y + γ := min_le_right _ _
    rw [e]
    nlinarith [mul_le_mul_of_nonneg_left h1 (sub_nonneg.2 ht1), mul_le_mul_of_nonneg_left h2 ht0]
  have lx : α * x.x + β * x.y + γ ≤ 0 := by
    have e : α * x.x + β * x.y + γ
        = (1 - u) * (α * c.x + β * c.y + γ) + u * (α * d.x + β * d.y + γ) := by
      rw [hxx, hxy]; ring
    rw [e]
    nlinarith [mul_nonneg (sub_nonneg.2 hu1) (neg_nonneg.2 hc.le), mul_nonneg hu0 (neg_nonneg.2 hd.le)]
  have b1 : |α * (x.x - y.x)| ≤ |α| * ε := by
    rw [abs_mul]; exact mul_le_mul_of_nonneg_left hn.1 (abs_nonneg _)
  have b2 : |β * (x.y - y.y)| ≤ |β| * ε := by
    rw [abs_mul]; exact mul_le_mul_of_nonneg_left hn.2 (abs_nonneg _)
  have c1 := (abs_le.1 b1).1
  have c2 := (abs_le.1 b2).1
  nlinarith

/-- an L∞ tube around the segment ab misses finitely many segments disjoint from ab (a = b allowed) -/
theorem tube (a b : Pt) (F : List (Pt × Pt)) (h : ∀ f ∈ F, ¬ SegsMeet a b f.1 f.2) :
    ∃ ε : Rat, 0 < ε ∧ ∀ y x, OnSeg a b y → Near ε x y → ∀ f ∈ F, ¬ OnSeg f.1 f.2 x := by
  induction F with
  | nil => exact ⟨1, one_pos, fun _ _ _ _ f hf => by cases hf⟩
  | cons g F ih =>
    obtain ⟨ε1, h1, H1⟩ := ih (fun f hf => h f (List.mem_cons_of_mem _ hf))
    obtain ⟨ε2, h2, H2⟩ := tube1 (h g List.mem_cons_self)
    refine ⟨min ε1 ε2, lt_min h1 h2, ?_⟩
    intro y x hy hn f hf
    rcases List.mem_cons.1 hf with rfl | hf
    · exact H2 y x hy (hn.mono (min_le_right _ _))
    · exact H1 y x hy (hn.mono (min_le_left _ _)) f hf

/-- the tube is convex -/
theorem near_seg_convex {a b y1 y2 x1 x2 x : Pt} {ε : Rat} (h1 : OnSeg a b y1) (h2 : OnSeg a b y2)
    (n1 : Near ε x1 y1) (n2 : Near ε x2 y2) (hx : OnSeg x1 x2 x) : ∃ y, OnSeg a b y ∧ Near ε x y := by
  obtain ⟨u, hu0, hu1, hxx, hxy⟩ := (onSeg_iff_param x1 x2 x).1 hx
  refine ⟨⟨y1.x + u * (y2.x - y1.x), y1.y + u * (y2.y - y1.y)⟩,
    K.onSeg_convex h1 h2 (K.onSeg_of_param hu0 hu1 rfl rfl), ?_, ?_⟩
  · obtain ⟨p1, p2⟩ := abs_le.1 n1.1
    obtain ⟨q1, q2⟩ := abs_le.1 n2.1
    have hu1' := sub_nonneg.2 hu1
    rw [hxx]; simp only
    exact abs_le.2 ⟨by nlinarith, by nlinarith⟩
  · obtain ⟨p1, p2⟩ := abs_le.1 n1.2
    obtain ⟨q1, q2⟩ := abs_le.1 n2.2
    have hu1' := sub_nonneg.2 hu1
    rw [hxy]; simp only
    exact abs_le.2 ⟨by nlinarith, by nlinarith⟩

/-- points of the segment qz arbitrarily close to z -/
theorem exists_near_on_seg (q z : Pt) (ε : Rat) (hε : 0 < ε) :
    ∃ τ : Rat, 0 < τ ∧ τ ≤ 1 ∧ Near ε ⟨z.x + τ * (q.x - z.x), z.y + τ * (q.y - z.y)⟩ z := by
  have hD : 0 < ε + |q.x - z.x| + |q.y - z.y| := by positivity
  refine ⟨ε / (ε + |q.x - z.x| + |q.y - z.y|), by positivity, ?_, ?_, ?_⟩
  · rw [div_le_one hD]; linarith [abs_nonneg (q.x - z.x), abs_nonneg (q.y - z.y)]
  · simp only [add_sub_cancel_left]
    rw [abs_mul, abs_of_pos (div_pos hε hD), div_mul_eq_mul_div, div_le_iff₀ hD]
    nlinarith [abs_nonneg (q.x - z.x), abs_nonneg (q.y - z.y)]
  · simp only [add_sub_cancel_left]
    rw [abs_mul, abs_of_pos (div_pos hε hD), div_mul_eq_mul_div, div_le_iff₀ hD]
    nlinarith [abs_nonneg (q.x - z.x), abs_nonneg (q.y - z.y)]
end CS
end Geo
