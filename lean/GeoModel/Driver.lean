/-
  GeoModel.Driver — line protocol for the planar model.  One op per line in, one result
  line out: `<model fields> | <spec fields> | <signature>`.  The harness compares the part
  before the first " | " with the implementation's line, byte for byte.
  Coordinates are integers meaning sixteenths (n ↦ n/16), so every value is in regime E.
-/
import GeoModel.Spec
import Std.Data.HashMap
namespace Geo
namespace Driver

structure Entry where
  g : Geom
  sh : Spec.Shape
deriving Inhabited

abbrev Env := Std.HashMap String Entry

def q16 (n : Int) : Rat := (n : Rat) / 16

def parseInts (toks : List String) : Option (List Int) := toks.mapM String.toInt?

def b2s (b : Bool) : String := if b then "1" else "0"

def ratS (q : Rat) : String := s!"{q.num}/{q.den}"
def ptS (p : Pt) : String := s!"{ratS p.x},{ratS p.y}"
def boxS (b : Box) : String := s!"{ptS b.min},{ptS b.max}"

def mkPts : List Int → List Pt
  | x :: y :: rest => ⟨q16 x, q16 y⟩ :: mkPts rest
  | _ => []

def kindOf (k : Int) : IndexKind := if k == 1 then .rtree else if k == 2 then .quadtree else .none

def hexByte (n : Nat) : String :=
  let d (k : Nat) : Char := "0123456789abcdef".toList.getD k '0'
  String.ofList [d (n / 16), d (n % 16)]

def hexS (a : Array Nat) : String := String.join (a.toList.map hexByte)

/-- split `n x y …` groups: returns the rings -/
partial def takeRings : Nat → List Int → Option (List (List Pt))
  | 0, _ => some []
  | k+1, n :: rest =>
    let cnt := n.toNat
    let coords := rest.take (2 * cnt)
    if coords.length != 2 * cnt then none
    else do
      let more ← takeRings k (rest.drop (2 * cnt))
      pure (mkPts coords :: more)
  | _, _ => none

def parseShape (toks : List String) : Option Entry := do
  match toks with
  | "pt" :: rest =>
    let [x, y] ← parseInts rest | none
    let p : Pt := ⟨q16 x, q16 y⟩
    pure ⟨.point p, .point p⟩
  | "rect" :: rest =>
    let [a, b, c, d] ← parseInts rest | none
    let lo : Pt := ⟨q16 a, q16 b⟩
    let hi : Pt := ⟨q16 c, q16 d⟩
    pure ⟨.rect ⟨lo, hi⟩, .rect lo hi⟩
  | "line" :: rest =>
    let (k :: m :: n :: coords) ← parseInts rest | none
    let pts := mkPts coords
    if pts.length != n.toNat then none
    else pure ⟨.line (mkSeries pts.toArray false (kindOf k) m.toNat), .line pts⟩
  | "poly" :: rest =>
    let (k :: m :: nr :: more) ← parseInts rest | none
    let rings ← takeRings nr.toNat more
    match rings with
    | [] => pure ⟨.poly ⟨none, []⟩, .poly [] []⟩
    | ext :: holes =>
      let mk (pts : List Pt) : Ring := .ser (mkSeries pts.toArray true (kindOf k) m.toNat)
      pure ⟨.poly ⟨some (mk ext), holes.map mk⟩, .poly ext holes⟩
  | _ => none

/-- ring `r` of an entry as (Ring, point list, closed) -/
def ringOf (e : Entry) (r : Nat) : Option (Ring × List Pt × Bool) :=
  match e.g, e.sh with
  | .line l, .line pts => if r == 0 then some (.ser l, pts, false) else none
  | .poly p, .poly ext holes =>
    if r == 0 then p.ext.map (fun x => (x, ext, true))
    else match p.holes[r-1]?, holes[r-1]? with
      | some x, some h => some (x, h, true)
      | _, _ => none
  | .rect b, _ => if r == 0 then some (.bx b, Spec.rectPts b.min b.max, true) else none
  | _, _ => none

/-! spec side of the ring attributes (C18, C11) -/

/-- vertex cycle with the repeated closing vertex removed -/
def dropClosing (pts : List Pt) : List Pt :=
  match pts.head?, pts.getLast? with
  | some f, some l => if pts.length ≥ 2 && l = f then pts.dropLast else pts
  | _, _ => pts

def turnsOf (pts : List Pt) : List Rat :=
  let v := (dropClosing pts).toArray
  let n := v.size
  (List.range n).map (fun i =>
    let a := v[i]!; let b := v[(i+1) % n]!; let c := v[(i+2) % n]!
    (b.x - a.x) * (c.y - b.y) - (b.y - a.y) * (c.x - b.x))

def convexSpec (pts : List Pt) : Bool :=
  let ts := turnsOf pts
  !(ts.any (· > 0) && ts.any (· < 0))

def clockwiseSpec (pts : List Pt) : Bool := Spec.area2 pts < 0

def bboxSpec (pts : List Pt) : Option Box :=
  match pts with
  | [] => none
  | p :: rest => some (rest.foldl (fun (b : Box) q =>
      ⟨⟨min b.min.x q.x, min b.min.y q.y⟩, ⟨max b.max.x q.x, max b.max.y q.y⟩⟩) ⟨p, p⟩)

def queryBox (ring : Ring) (toks : List String) : Option Box := do
  -- "ninf"/"pinf" stand for ∓∞: any value beyond the ring's rect behaves identically
  let r := ring.rect
  let one (t : String) (lo hi : Rat) : Option Rat :=
    if t == "ninf" then some (lo - 1) else if t == "pinf" then some (hi + 1) else (t.toInt?).map q16
  let [a, b, c, d] := toks | none
  let a ← one a r.min.x r.max.x
  let b ← one b r.min.y r.max.y
  let c ← one c r.min.x r.max.x
  let d ← one d r.min.y r.max.y
  pure ⟨⟨a, b⟩, ⟨c, d⟩⟩

def natList (l : List Nat) : String := ",".intercalate (l.map toString)

def insertSortedNat (x : Nat) : List Nat → List Nat
  | [] => [x]
  | y :: ys => if x ≤ y then x :: y :: ys else y :: insertSortedNat x ys

def step (env : Env) (line : String) : Env × String :=
  let toks0 := (line.trimAscii.toString.splitOn " ").filter (· ≠ "")
  let toks := match toks0 with
    | "same" :: _ :: rest => rest
    | t => t
  match toks with
  | "xsearch" :: _ => (env, "ok | - | x")
  | "xnumcodec" :: _ => (env, "ok | - | x")
  | "def" :: id :: rest =>
    match parseShape rest with
    | some e => (env.insert id e, "ok")
    | none => (env, "bad-op")
  | "ray" :: rest =>
    match parseInts rest with
    | some [ax, ay, bx, by_, px, py] =>
      let a : Pt := ⟨q16 ax, q16 ay⟩; let b : Pt := ⟨q16 bx, q16 by_⟩; let p : Pt := ⟨q16 px, q16 py⟩
      let r := raycast a b p
      let r2 := raycast b a p
      let on := Spec.onSeg a b p
      let inn := !on && Spec.crosses a b p
      (env, s!"{b2s r.inn}{b2s r.on}{b2s r2.inn}{b2s r2.on} | {b2s inn}{b2s on}{b2s inn}{b2s on} | ray{r.site}")
    | _ => (env, "bad-op")
  | "segint" :: rest =>
    match parseInts rest with
    | some [ax, ay, bx, by_, cx, cy, dx, dy] =>
      let s : Seg := ⟨⟨q16 ax, q16 ay⟩, ⟨q16 bx, q16 by_⟩⟩
      let t : Seg := ⟨⟨q16 cx, q16 cy⟩, ⟨q16 dx, q16 dy⟩⟩
      let r := segIntersectsS s t
      let r2 := segIntersectsS t s
      let sp := Spec.segsMeet s.a s.b t.a t.b
      let cs := s.containsSeg t
      let csp := Spec.onSeg s.a s.b t.a && Spec.onSeg s.a s.b t.b
      let cl := s.collinearPt t.a
      let clsp := decide (Spec.cross s.a s.b t.a = 0)
      (env, s!"{b2s r.val}{b2s r2.val}{b2s cs}{b2s cl} {boxS s.box} | {b2s sp}{b2s sp}{b2s csp}{b2s clsp} | si{r.site}")
    | _ => (env, "bad-op")
  | ["attrs", id, r] =>
    match env[id]?, r.toNat? with
    | some e, some r =>
      match ringOf e r with
      | some (ring, pts, closed) =>
        let m := s!"{b2s ring.convex}{b2s ring.clockwise}{b2s ring.empty}{b2s ring.valid} {ring.numSegments} {ring.numPoints} {boxS ring.rect}"
        let n := ring.numSegments
        let which := if n ≤ 8 then List.range n else [0, 1, n-2, n-1]
        let segs := ";".intercalate (which.map (fun i =>
          let s := ring.segmentAt i
          s!"{ptS s.a},{ptS s.b}"))
        let nonEmpty := if closed then pts.length ≥ 3 else pts.length ≥ 2
        let bb := if nonEmpty then (bboxSpec pts).map boxS |>.getD "-" else boxS ⟨⟨0,0⟩,⟨0,0⟩⟩
        let cv := if closed && nonEmpty then b2s (convexSpec pts) else "-"
        let cw := if closed && nonEmpty then b2s (clockwiseSpec pts) else "-"
        let ns := (Spec.edges pts closed).length
        (env, s!"{m} {segs} | {cv}{cw}-- {ns} - {bb} | at{cv}{cw}")
      | none => (env, "bad-op")
    | _, _ => (env, "bad-op")
  | ["index", id, r] =>
    match env[id]?, r.toNat? with
    | some e, some r =>
      match ringOf e r with
      | some (.ser s, _, _) =>
        (env, match s.index with | some d => hexS d | none => "nil")
      | _ => (env, "nil")
    | _, _ => (env, "bad-op")
  | "search" :: id :: r :: rest =>
    match env[id]?, r.toNat? with
    | some e, some r =>
      match ringOf e r with
      | some (ring, _, _) =>
        match queryBox ring (rest.take 4), (rest.drop 4).head?.bind String.toNat? with
        | some q, some stop =>
          -- callback returns false on its `stop`-th call (stop = 0: never)
          let visited := ring.search q (fun (st : List Nat) _ i =>
            let st' := st ++ [i]
            (st', !(stop != 0 && st'.length == stop))) []
          -- spec: brute-force filter (sorted) – exact set when not stopped
          let want := (List.range ring.numSegments).filter (fun i => (ring.segmentAt i).box.intersects q)
          let sortedV := visited.foldl (fun acc x => insertSortedNat x acc) []
          let ok := if stop == 0 then decide (sortedV = want)
                    else visited.all (fun i => want.contains i) && decide (sortedV.eraseDups.length = visited.length) &&
                         (visited.length == stop || decide (sortedV = want))
          let _ := ok
          -- the judge evaluates the implementation's own visit list against the brute-force filter
          (env, s!"{natList visited} | want={natList want};stop={stop} | se{min visited.length 3}")
        | _, _ => (env, "bad-op")
      | none => (env, "bad-op")
    | _, _ => (env, "bad-op")
  | ["ringcp", id, r, px, py, allow] =>
    match env[id]?, r.toNat?, px.toInt?, py.toInt? with
    | some e, some r, some px, some py =>
      match ringOf e r with
      | some (ring, pts, closed) =>
        let p : Pt := ⟨q16 px, q16 py⟩
        let al := allow == "1"
        let res := ringContainsPoint ring p al
        let es := Spec.edges pts closed
        let onb := Spec.onBoundary es p
        let sp := if onb then al else Spec.parity es p == 1
        let idx : Int := match res.idx with | some i => i | none => -1
        -- the reported edge index must be an edge the point is on
        let idxOk := match res.idx with
          | some i => Spec.onSeg (ring.segmentAt i).a (ring.segmentAt i).b p
          | none => !onb || !(ring.rect.containsPt p)
        (env, s!"{b2s res.hit} {idx} | {b2s sp} ok={b2s idxOk} | cp{b2s onb}{b2s sp}")
      | none => (env, "bad-op")
    | _, _, _, _ => (env, "bad-op")
  | ["member", id, px, py] =>
    match env[id]?, px.toInt?, py.toInt? with
    | some e, some px, some py =>
      let p : Pt := ⟨q16 px, q16 py⟩
      let m := e.g.contains (.point p)
      let m2 := e.g.intersects (.point p)
      let m3 := (Geom.point p).intersects e.g
      let sp := e.sh.nonEmpty && e.sh.member p
      (env, s!"{b2s m}{b2s m2}{b2s m3} | {b2s sp}{b2s sp}{b2s sp} | me{b2s sp}")
    | _, _, _ => (env, "bad-op")
  | ["pred", ida, idb] =>
    match env[ida]?, env[idb]? with
    | some a, some b =>
      let c := a.g.contains b.g
      let i := a.g.intersects b.g
      let i2 := b.g.intersects a.g
      let valid := a.sh.valid && b.sh.valid
      let sc := if valid then b2s (Spec.covers a.sh b.sh) else "-"
      let si := if valid then b2s (Spec.meets a.sh b.sh) else "-"
      -- contact signature: do the curves / boundaries of the two shapes share a point?
      let contact := a.sh.edges.any (fun e => b.sh.edges.any (fun f => Spec.segsMeet e.1 e.2 f.1 f.2))
      -- a ring or line of >= 16 points is first replaced by its bounding rectangle (the shortcut of
      -- ringContainsRing): contact between the receiver and that RECTANGLE (finding D19)
      let bigRects : List (List (Pt × Pt)) := match b.sh with
        | .line pts => if pts.length ≥ 16 then (match bboxSpec pts with | some r => [Spec.edges (Spec.rectPts r.min r.max) true] | none => []) else []
        | .poly ext holes => (ext :: holes).filterMap (fun ring => if ring.length ≥ 16 then (bboxSpec ring).map (fun r => Spec.edges (Spec.rectPts r.min r.max) true) else none)
        | _ => []
      let contactRect := bigRects.any (fun es => a.sh.edges.any (fun e => es.any (fun f => Spec.segsMeet e.1 e.2 f.1 f.2)))
      let k := if contact then "1" else if contactRect then "2" else "0"
      (env, s!"{b2s c}{b2s i}{b2s i2} | {sc}{si}{si} | pr{b2s c}{b2s i}k{k}")
    | _, _ => (env, "bad-op")
  | ["ringseg", id, r, ax, ay, bx, by_, allow] =>
    match env[id]?, r.toNat?, parseInts [ax, ay, bx, by_] with
    | some e, some r, some [ax, ay, bx, by_] =>
      match ringOf e r with
      | some (ring, _, _) =>
        let seg : Seg := ⟨⟨q16 ax, q16 ay⟩, ⟨q16 bx, q16 by_⟩⟩
        let al := allow == "1"
        let c := ringContainsSegmentS ring seg al
        let i := ringIntersectsSegmentS ring seg al
        (env, s!"{b2s c.val}{b2s i.val} | - | rs{c.site}.{i.site}")
      | none => (env, "bad-op")
    | _, _, _ => (env, "bad-op")
  | ["move", id, dx, dy, nid] =>
    match env[id]?, dx.toInt?, dy.toInt? with
    | some e, some dx, some dy =>
      let ddx := q16 dx; let ddy := q16 dy
      let mv (p : Pt) : Pt := ⟨p.x + ddx, p.y + ddy⟩
      let mvRing : Ring → Ring
        | .ser s => .ser (s.move ddx ddy)
        | .bx b => .bx ⟨mv b.min, mv b.max⟩
      let g : Geom := match e.g with
        | .point p => .point (mv p)
        | .rect b => .rect ⟨mv b.min, mv b.max⟩
        | .line l => .line (l.move ddx ddy)
        | .poly p => .poly ⟨p.ext.map mvRing, p.holes.map mvRing⟩
      let sh : Spec.Shape := match e.sh with
        | .point p => .point (mv p)
        | .rect lo hi => .rect (mv lo) (mv hi)
        | .line pts => .line (pts.map mv)
        | .poly ext hs => .poly (ext.map mv) (hs.map (·.map mv))
      (env.insert nid ⟨g, sh⟩, "ok")
    | _, _, _ => (env, "bad-op")
  | ["reset"] => (({} : Env), "ok")
  | _ => (env, "bad-op")

end Driver
end Geo
