/-
  GeoProofs.Props.C12MoveGeom — the driver's `move` op on whole geometries (`Geom`): moving two
  indexed geometries by the same offset does not change `intersects` / `contains`.
  Route: moved build = build of a moved configuration → index independence → plain moved =
  plain mapped by the translation → translation invariance → index independence backwards.
-/
import GeoProofs.Props.C04Indep
import GeoProofs.Props.C04Move
import GeoProofs.Props.C12

namespace Geo.C12MoveGeom
open Geo

/-- the driver's `mv` -/
def mv (dx dy : Rat) (p : Pt) : Pt := ⟨p.x + dx, p.y + dy⟩

/-- the driver's `mvRing` (Driver.lean, op `move`) -/
def moveRing (dx dy : Rat) : Ring → Ring
  | .ser s => .ser (s.move dx dy)
  | .bx b => .bx ⟨mv dx dy b.min, mv dx dy b.max⟩

/-- the driver's moved geometry (Driver.lean, op `move`) -/
def moveGeom (dx dy : Rat) : Geom → Geom
  | .point p => .point (mv dx dy p)
  | .rect b => .rect ⟨mv dx dy b.min, mv dx dy b.max⟩
  | .line l => .line (l.move dx dy)
  | .poly p => .poly ⟨p.ext.map (moveRing dx dy), p.holes.map (moveRing dx dy)⟩

theorem mv_eq_translate (dx dy : Rat) : mv dx dy = (·.translate ⟨dx, dy⟩) := rfl

/-- the configuration of a moved series: translated points, and the (kind, threshold) witnesses
    of `Series.move_eq_mkSeries` -/
noncomputable def SerCfg.moved (c : SerCfg) (closed : Bool) (dx dy : Rat) : SerCfg :=
  ⟨c.pts.map (mv dx dy),
   Classical.choose (Series.move_eq_mkSeries c.pts closed c.kind c.minPoints dx dy),
   Classical.choose (Classical.choose_spec
     (Series.move_eq_mkSeries c.pts closed c.kind c.minPoints dx dy))⟩

theorem SerCfg.moved_pts (c : SerCfg) (closed : Bool) (dx dy : Rat) :
    (SerCfg.moved c closed dx dy).pts = c.pts.map (mv dx dy) := rfl

theorem SerCfg.moved_spec (c : SerCfg) (closed : Bool) (dx dy : Rat) :
    (mkSeries c.pts closed c.kind c.minPoints).move dx dy =
      mkSeries (SerCfg.moved c closed dx dy).pts closed (SerCfg.moved c closed dx dy).kind
        (SerCfg.moved c closed dx dy).minPoints :=
  Classical.choose_spec (Classical.choose_spec
    (Series.move_eq_mkSeries c.pts closed c.kind c.minPoints dx dy))

/-- the configuration of the moved geometry -/
noncomputable def GCfg.moved (dx dy : Rat) : GCfg → GCfg
  | .point p => .point (mv dx dy p)
  | .rect r => .rect ⟨mv dx dy r.min, mv dx dy r.max⟩
  | .line c => .line (SerCfg.moved c false dx dy)
  | .poly e hs => .poly (SerCfg.moved e true dx dy) (hs.map (fun h => SerCfg.moved h true dx dy))

/-- **the moved built geometry is the build of the moved configuration** -/
theorem moveGeom_build_eq (a : GCfg) (dx dy : Rat) :
    moveGeom dx dy a.build = (GCfg.moved dx dy a).build := by
  cases a with
  | point p => rfl
  | rect r => rfl
  | line c =>
    show Geom.line _ = Geom.line _
    exact congrArg Geom.line (SerCfg.moved_spec c false dx dy)
  | poly e hs =>
    simp only [GCfg.build, GCfg.moved, moveGeom, Option.map_some, List.map_map, moveRing]
    have he : (SerCfg.ring e).move dx dy = SerCfg.ring (SerCfg.moved e true dx dy) :=
      SerCfg.moved_spec e true dx dy
    rw [he]
    congr 2
    apply List.map_congr_left
    intro h _
    simp only [Function.comp, moveRing]
    exact congrArg Ring.ser (SerCfg.moved_spec h true dx dy)

/-- the un-indexed moved configuration is the un-indexed original, rebuilt from translated
    points -/
theorem moved_plain (a : GCfg) (dx dy : Rat) :
    (GCfg.moved dx dy a).plain = a.plain.mapPts (·.translate ⟨dx, dy⟩) := by
  cases a with
  | point p => rfl
  | rect r => rfl
  | line c => rfl
  | poly e hs =>
    simp only [GCfg.plain, GCfg.moved, Geom.mapPts, Poly.mapPts, Option.map_some, List.map_map]
    congr 2

theorem plain_built (a : GCfg) : a.plain.Built := by
  cases a with
  | point p => trivial
  | rect r => trivial
  | line c => exact mkSeries_built _ _
  | poly e hs =>
    refine ⟨?_, ?_⟩
    · intro r hr
      cases hr
      exact mkSeries_built _ _
    · intro r hr
      obtain ⟨c, -, rfl⟩ := List.mem_map.1 hr
      exact mkSeries_built _ _

/-- (c) existential form, with the points of the new configuration exposed through `plain` -/
theorem moveGeom_build (a : GCfg) (dx dy : Rat) :
    ∃ a' : GCfg, moveGeom dx dy a.build = a'.build ∧
      a'.plain = a.plain.mapPts (·.translate ⟨dx, dy⟩) :=
  ⟨GCfg.moved dx dy a, moveGeom_build_eq a dx dy, moved_plain a dx dy⟩

/-- every series of the MOVED geometry `moveGeom dx dy a.build` searches exactly -/
def MovedExact (dx dy : Rat) : GCfg → Prop
  | .point _ => True
  | .rect _ => True
  | .line c => (c.line.move dx dy).SearchExact
  | .poly e hs => (e.ring.move dx dy).SearchExact ∧ ∀ h ∈ hs, (h.ring.move dx dy).SearchExact

theorem MovedExact.exact {a : GCfg} {dx dy : Rat} (h : MovedExact dx dy a) :
    (GCfg.moved dx dy a).Exact := by
  cases a with
  | point p => trivial
  | rect r => trivial
  | line c =>
    show (SerCfg.line _).SearchExact
    have := SerCfg.moved_spec c false dx dy
    unfold SerCfg.line
    rw [← this]; exact h
  | poly e hs =>
    refine ⟨?_, ?_⟩
    · have := SerCfg.moved_spec e true dx dy
      unfold SerCfg.ring
      rw [← this]; exact h.1
    · intro c hc
      obtain ⟨c0, hc0, rfl⟩ := List.mem_map.1 hc
      have := SerCfg.moved_spec c0 true dx dy
      unfold SerCfg.ring
      rw [← this]; exact h.2 c0 hc0

/-- size / binary64 hypotheses on the TRANSLATED points of one series -/
def SerMovedSized (c : SerCfg) (closed : Bool) (dx dy : Rat) : Prop :=
  (c.pts.map (mv dx dy)).size < 2 ^ 32 ∧
  (qBytesOf (c.pts.map (mv dx dy)) closed).size < 2 ^ 32 ∧
  (rBytesOf (c.pts.map (mv dx dy)) closed).size < 2 ^ 32 ∧
  ∀ p ∈ (c.pts.map (mv dx dy)).toList, Dyadic53 p.x ∧ Dyadic53 p.y

def MovedSized (dx dy : Rat) : GCfg → Prop
  | .point _ => True
  | .rect _ => True
  | .line c => SerMovedSized c false dx dy
  | .poly e hs => SerMovedSized e true dx dy ∧ ∀ h ∈ hs, SerMovedSized h true dx dy

theorem SerMovedSized.exact {c : SerCfg} {closed : Bool} {dx dy : Rat}
    (h : SerMovedSized c closed dx dy) :
    ((mkSeries c.pts closed c.kind c.minPoints).move dx dy).SearchExact :=
  Series.move_search_exact_dyadic c.pts closed c.kind c.minPoints dx dy h.1 h.2.1 h.2.2.1 h.2.2.2

theorem movedExact_of_sized {a : GCfg} {dx dy : Rat} (h : MovedSized dx dy a) :
    MovedExact dx dy a := by
  cases a with
  | point p => trivial
  | rect r => trivial
  | line c => exact SerMovedSized.exact h
  | poly e hs => exact ⟨SerMovedSized.exact h.1, fun c hc => SerMovedSized.exact (h.2 c hc)⟩

/-- **MAIN: moving two (indexed) geometries by the same offset keeps `intersects`**, all 16
    pairs, any index configuration, given exact searches before and after the move. -/
theorem geom_intersects_move (a b : GCfg) (dx dy : Rat) (ha : a.Exact) (hb : b.Exact)
    (ha' : MovedExact dx dy a) (hb' : MovedExact dx dy b) :
    (moveGeom dx dy a.build).intersects (moveGeom dx dy b.build) = a.build.intersects b.build := by
  rw [moveGeom_build_eq, moveGeom_build_eq,
    geom_intersects_index_indep _ _ ha'.exact hb'.exact, moved_plain, moved_plain,
    geom_intersects_translate ⟨dx, dy⟩ _ _ (plain_built a) (plain_built b),
    geom_intersects_index_indep a b ha hb]

/-- hypothesis-free on the searches: sizes / binary64 coordinates before and after the move -/
theorem geom_intersects_move_sized (a b : GCfg) (dx dy : Rat) (ha : a.Sized) (hb : b.Sized)
    (ha' : MovedSized dx dy a) (hb' : MovedSized dx dy b) :
    (moveGeom dx dy a.build).intersects (moveGeom dx dy b.build) = a.build.intersects b.build :=
  geom_intersects_move a b dx dy ha.exact hb.exact (movedExact_of_sized ha') (movedExact_of_sized hb')

/-- the container-ring condition of `geom_contains_index_indep`, on the translated points -/
def MovedExtSafe (dx dy : Rat) : GCfg → Prop
  | .poly e _ => RingIdxSafe (e.pts.map (mv dx dy))
  | _ => True

def MovedHolesSafe (dx dy : Rat) : GCfg → Prop
  | .poly _ hs => ∀ h ∈ hs, RingIdxSafe (h.pts.map (mv dx dy))
  | _ => True

theorem MovedExtSafe.extSafe {a : GCfg} {dx dy : Rat} (h : MovedExtSafe dx dy a) :
    (GCfg.moved dx dy a).ExtSafe := by
  cases a with
  | point p => trivial
  | rect r => trivial
  | line c => trivial
  | poly e hs => exact h

theorem MovedHolesSafe.holesSafe {a : GCfg} {dx dy : Rat} (h : MovedHolesSafe dx dy a) :
    (GCfg.moved dx dy a).HolesSafe := by
  cases a with
  | point p => trivial
  | rect r => trivial
  | line c => trivial
  | poly e hs =>
    intro c hc
    obtain ⟨c0, hc0, rfl⟩ := List.mem_map.1 hc
    exact h c0 hc0

/-- **moving keeps `contains`**, all 16 pairs, under the container-ring condition of
    `geom_contains_index_indep` for the original and the translated vertex lists. -/
theorem geom_contains_move (a b : GCfg) (dx dy : Rat) (ha : a.Exact) (hb : b.Exact)
    (ha' : MovedExact dx dy a) (hb' : MovedExact dx dy b)
    (hsa : a.ExtSafe) (hsb : b.HolesSafe)
    (hsa' : MovedExtSafe dx dy a) (hsb' : MovedHolesSafe dx dy b) :
    (moveGeom dx dy a.build).contains (moveGeom dx dy b.build) = a.build.contains b.build := by
  rw [moveGeom_build_eq, moveGeom_build_eq,
    geom_contains_index_indep _ _ ha'.exact hb'.exact hsa'.extSafe hsb'.holesSafe,
    moved_plain, moved_plain,
    geom_contains_translate ⟨dx, dy⟩ _ _ (plain_built a) (plain_built b),
    geom_contains_index_indep a b ha hb hsa hsb]

/-- the 12 pairs whose left operand is not a polygon and whose right operand has no holes need
    no ring condition -/
theorem geom_contains_move_nonpoly (a b : GCfg) (dx dy : Rat) (ha : a.Exact) (hb : b.Exact)
    (ha' : MovedExact dx dy a) (hb' : MovedExact dx dy b)
    (hna : ∀ e hs, a ≠ .poly e hs) (hnb : ∀ e h hs, b ≠ .poly e (h :: hs)) :
    (moveGeom dx dy a.build).contains (moveGeom dx dy b.build) = a.build.contains b.build := by
  have hsa : a.ExtSafe ∧ MovedExtSafe dx dy a := by
    cases a with
    | poly e hs => exact absurd rfl (hna e hs)
    | _ => exact ⟨trivial, trivial⟩
  have hsb : b.HolesSafe ∧ MovedHolesSafe dx dy b := by
    cases b with
    | poly e hs =>
      cases hs with
      | nil => exact ⟨fun _ h => by simp at h, fun _ h => by simp at h⟩
      | cons h hs => exact absurd rfl (hnb e h hs)
    | _ => exact ⟨trivial, trivial⟩
  exact geom_contains_move a b dx dy ha hb ha' hb' hsa.1 hsb.1 hsa.2 hsb.2

/-! ### non-vacuity -/

/-- a rectangle and an un-indexed 4-point polygon moved by (1, 2): all hypotheses of
    `geom_intersects_move` hold (the moved ring is the default rebuild, quadtree threshold 64,
    which builds no index for 4 points). -/
example :
    let a : GCfg := .rect ⟨⟨0, 0⟩, ⟨1, 1⟩⟩
    let b : GCfg := .poly ⟨#[⟨0, 0⟩, ⟨2, 0⟩, ⟨2, 2⟩, ⟨0, 2⟩], .none, 0⟩ []
    (moveGeom 1 2 a.build).intersects (moveGeom 1 2 b.build) = a.build.intersects b.build := by
  intro a b
  refine geom_intersects_move a b 1 2 trivial ⟨series_search_exact_kind_none _ _ _, ?_⟩ trivial ⟨?_, ?_⟩
  · intro h hh; simp at hh
  · show ((mkSeries _ true .none 0).move 1 2).SearchExact
    have hm : (mkSeries #[(⟨0, 0⟩ : Pt), ⟨2, 0⟩, ⟨2, 2⟩, ⟨0, 2⟩] true .none 0).move 1 2 =
        mkSeries (mvPts #[⟨0, 0⟩, ⟨2, 0⟩, ⟨2, 2⟩, ⟨0, 2⟩] 1 2) true .quadtree 64 := rfl
    rw [hm]
    have hn : (mkSeries (mvPts #[(⟨0, 0⟩ : Pt), ⟨2, 0⟩, ⟨2, 2⟩, ⟨0, 2⟩] 1 2) true .quadtree 64) =
        mkSeries (mvPts #[⟨0, 0⟩, ⟨2, 0⟩, ⟨2, 2⟩, ⟨0, 2⟩] 1 2) true .none 64 := by
      simp [mkSeries, mvPts]
    rw [hn]
    exact series_search_exact_kind_none _ _ _
  · intro h hh; simp at hh

end Geo.C12MoveGeom
