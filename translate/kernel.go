package main

// kernel: translates the planar kernels of <repo>/geometry (raycast.go, segment.go and the
// purely numeric methods of rect.go / point.go) into a Lean file (namespace Geo.KGen) whose
// definitions are polymorphic over the class Geo.KNum (lean/GeoModel/KNum.lean).
//
// The translation is purely syntactic (go/parser + go/ast, no type checker; a small local type
// inference over float64 / bool / Point / Segment / Rect / RaycastResult) and deterministic.
// Recognised subset:
//   * `:=` / `=` / `op=` assignments, tuple form included, field assignment `p.Y = e`,
//     `var x T`;
//   * if / else-if / else chains with early `return` (statement lists become nested
//     `if … then … else …` / `let` expressions, continuation style; an `if` that may fall
//     through on both sides is joined through an `Option` (early return) or a tuple of the
//     variables it assigns);
//   * `for cond { body }` ↦ `iterate 4 cond body` (fuel 4, see the generated header);
//   * boolean operators, float arithmetic and comparisons, struct equality, struct literals,
//     calls of other functions/methods of the package (translated on demand),
//     `math.Inf(±1)`, `math.Nextafter(x, math.Inf(1))`.
// Whatever is not recognised is emitted as `opaque <name>_unrecognised : Unit` preceded by a
// comment giving the reason; functions that call an unrecognised function become unrecognised
// themselves.  The Lean driver and proofs refer to the recognised names, so an unrecognised
// rewrite breaks their compilation instead of passing silently.

import (
	"fmt"
	"go/ast"
	"go/parser"
	"go/token"
	"os"
	"path/filepath"
	"sort"
	"strings"
	"unicode"
)

func init() { translators["kernel"] = translateKernel }

// ---------------------------------------------------------------------------------------------
// types of the subset

type knType int

const (
	knInvalid    knType = iota
	knFloat             // float64          -> α
	knUntypedInt        // integer constant -> α (an operation between two of them is refused)
	knBool              // bool             -> Bool
	knPoint             // Point            -> KPoint α
	knSegment           // Segment          -> KSegment α
	knRect              // Rect             -> KRect α
	knRay               // RaycastResult    -> KRaycastResult
	knInt               // int              -> Int            (series.go only)
	knPoints            // []Point          -> Array (KPoint α) (series.go only)
)

type knField struct {
	goName, leanName, goType string
	ty                       knType
}

type knStruct struct {
	goName   string
	ty       knType
	leanType string
	eqFn     string
	fields   []knField
}

// the layouts GeoModel/KNum.lean was written for; the source is checked against them
var knStructs = []*knStruct{
	{"Point", knPoint, "KPoint α", "KPoint.eq", []knField{
		{"X", "x", "float64", knFloat}, {"Y", "y", "float64", knFloat}}},
	{"Segment", knSegment, "KSegment α", "KSegment.eq", []knField{
		{"A", "a", "Point", knPoint}, {"B", "b", "Point", knPoint}}},
	{"Rect", knRect, "KRect α", "KRect.eq", []knField{
		{"Min", "min", "Point", knPoint}, {"Max", "max", "Point", knPoint}}},
	{"RaycastResult", knRay, "KRaycastResult", "KRaycastResult.eq", []knField{
		{"In", "inn", "bool", knBool}, {"On", "on", "bool", knBool}}},
}

func knStructByName(name string) *knStruct {
	for _, s := range knStructs {
		if s.goName == name {
			return s
		}
	}
	return nil
}

func knStructByType(t knType) *knStruct {
	for _, s := range knStructs {
		if s.ty == t {
			return s
		}
	}
	return nil
}

func (t knType) lean() string {
	switch t {
	case knFloat, knUntypedInt:
		return "α"
	case knBool:
		return "Bool"
	case knInt:
		return "Int"
	case knPoints:
		return "Array (KPoint α)"
	}
	if s := knStructByType(t); s != nil {
		return s.leanType
	}
	return "?"
}

func (t knType) String() string {
	switch t {
	case knFloat:
		return "float64"
	case knUntypedInt:
		return "untyped integer constant"
	case knBool:
		return "bool"
	case knInt:
		return "int"
	case knPoints:
		return "[]Point"
	}
	if s := knStructByType(t); s != nil {
		return s.goName
	}
	return "invalid"
}

// knTypeAtom prints a Lean type as an argument (parenthesised when it is an application).
func knTypeAtom(t knType) string {
	if s := t.lean(); strings.Contains(s, " ") {
		return "(" + s + ")"
	}
	return t.lean()
}

func knIsNum(t knType) bool { return t == knFloat || t == knUntypedInt }

// the functions the driver and the proofs rely on, in output order (callees are translated on
// demand and printed before their callers)
var knTargets = []string{
	"Segment.Raycast",
	"Segment.Move", "Segment.Rect", "Segment.CollinearPoint", "Segment.ContainsPoint",
	"Segment.IntersectsSegment", "Segment.ContainsSegment",
	"Rect.Move", "Rect.Center", "Rect.Area", "Rect.Valid", "Rect.Rect", "Rect.ContainsPoint",
	"Rect.IntersectsPoint", "Rect.ContainsRect", "Rect.IntersectsRect",
	"Point.Move", "Point.Valid", "Point.Rect", "Point.ContainsPoint", "Point.IntersectsPoint",
	"Point.ContainsRect", "Point.IntersectsRect",
}

// ---------------------------------------------------------------------------------------------
// the parsed package

type knFunc struct {
	key      string // "Recv.Name" or "Name"
	leanName string
	decl     *ast.FuncDecl
	file     string // base name
	src      []byte
	mathName string // local name of the import "math" in the file ("" if not imported)
	state    int    // 0 not visited, 1 in progress, 2 done
	recvTy   knType
	params   []knType
	result   knType
	err      error
	lines    []string // header + body (when err == nil)
	comment  string
}

type knPackage struct {
	fset      *token.FileSet
	funcs     map[string]*knFunc
	badStruct map[string]string // Go struct name -> why its declaration is not the expected one
	order     []*knFunc         // completed functions, callees first
	usesLoop  bool
}

func knLeanName(key string) string {
	if i := strings.IndexByte(key, '.'); i >= 0 {
		return knLowerFirst(key[:i]) + key[i+1:]
	}
	return knLowerFirst(key)
}

func knLowerFirst(s string) string {
	if s == "" {
		return s
	}
	r := []rune(s)
	r[0] = unicode.ToLower(r[0])
	return string(r)
}

func knLoad(repo string) (*knPackage, error) {
	dir := filepath.Join(repo, "geometry")
	ents, err := os.ReadDir(dir)
	if err != nil {
		return nil, err
	}
	var names []string
	for _, e := range ents {
		n := e.Name()
		if !e.IsDir() && strings.HasSuffix(n, ".go") && !strings.HasSuffix(n, "_test.go") {
			names = append(names, n)
		}
	}
	sort.Strings(names)
	pkg := &knPackage{fset: token.NewFileSet(), funcs: map[string]*knFunc{}, badStruct: map[string]string{}}
	seen := map[string]bool{}
	for _, n := range names {
		src, err := os.ReadFile(filepath.Join(dir, n))
		if err != nil {
			return nil, err
		}
		f, err := parser.ParseFile(pkg.fset, n, src, parser.SkipObjectResolution)
		if err != nil {
			return nil, err
		}
		mathName := ""
		for _, im := range f.Imports {
			if im.Path.Value == `"math"` {
				mathName = "math"
				if im.Name != nil {
					mathName = im.Name.Name
				}
			}
		}
		for _, d := range f.Decls {
			switch d := d.(type) {
			case *ast.FuncDecl:
				key := d.Name.Name
				if d.Recv != nil && len(d.Recv.List) == 1 {
					key = knTypeString(d.Recv.List[0].Type) + "." + key
				}
				if _, dup := pkg.funcs[key]; !dup {
					pkg.funcs[key] = &knFunc{key: key, leanName: knLeanName(key), decl: d, file: n,
						src: src, mathName: mathName}
				}
			case *ast.GenDecl:
				if d.Tok == token.TYPE {
					for _, sp := range d.Specs {
						ts := sp.(*ast.TypeSpec)
						if s := knStructByName(ts.Name.Name); s != nil {
							seen[s.goName] = true
							if why := knCheckStruct(s, ts); why != "" {
								pkg.badStruct[s.goName] = why
							}
						}
					}
				}
			}
		}
	}
	for _, s := range knStructs {
		if !seen[s.goName] {
			pkg.badStruct[s.goName] = "type " + s.goName + " not found in package geometry"
		}
	}
	return pkg, nil
}

// knTypeString prints the few type expressions of the subset ("" for anything else).
func knTypeString(e ast.Expr) string {
	switch e := e.(type) {
	case *ast.Ident:
		return e.Name
	case *ast.StarExpr:
		if s := knTypeString(e.X); s != "" {
			return "*" + s
		}
	}
	return ""
}

func knParseType(e ast.Expr) (knType, bool) {
	switch knTypeString(e) {
	case "float64":
		return knFloat, true
	case "bool":
		return knBool, true
	}
	if s := knStructByName(knTypeString(e)); s != nil {
		return s.ty, true
	}
	return knInvalid, false
}

// knCheckStruct compares a type declaration of the source with the expected layout.
func knCheckStruct(s *knStruct, ts *ast.TypeSpec) string {
	st, ok := ts.Type.(*ast.StructType)
	if !ok || ts.TypeParams != nil || ts.Assign.IsValid() {
		return "type " + s.goName + " is no longer a plain struct"
	}
	var got []string
	for _, f := range st.Fields.List {
		if len(f.Names) == 0 {
			got = append(got, "(embedded) "+knTypeString(f.Type))
		}
		for _, n := range f.Names {
			got = append(got, n.Name+" "+knTypeString(f.Type))
		}
	}
	var want []string
	for _, f := range s.fields {
		want = append(want, f.goName+" "+f.goType)
	}
	if strings.Join(got, "; ") != strings.Join(want, "; ") {
		return fmt.Sprintf("struct %s has fields {%s}, expected {%s}", s.goName,
			strings.Join(got, "; "), strings.Join(want, "; "))
	}
	return ""
}

// ---------------------------------------------------------------------------------------------
// identifiers

var knReserved = map[string]bool{
	"at": true, "from": true, "end": true, "then": true, "else": true, "fun": true, "show": true,
	"have": true, "let": true, "in": true, "do": true, "if": true, "by": true, "with": true,
	"match": true, "open": true, "def": true, "theorem": true, "where": true, "using": true,
	"Type": true, "Prop": true, "Sort": true, "instance": true, "class": true, "structure": true,
	"namespace": true, "section": true, "variable": true, "universe": true, "import": true,
	"deriving": true, "extends": true, "mutual": true, "export": true, "local": true, "private": true,
	"protected": true, "macro": true, "syntax": true, "notation": true, "infix": true, "prefix": true,
	"postfix": true, "example": true, "lemma": true, "axiom": true, "opaque": true, "abbrev": true,
	"inductive": true, "calc": true, "suffices": true, "obtain": true, "return": true, "for": true,
	"unless": true, "try": true, "catch": true, "finally": true, "nomatch": true, "nofun": true,
	"true": true, "false": true, "some": true, "none": true, "iterate": true, "not": true,
	"Geo": true, "KNum": true, "KGen": true, "Bool": true, "Option": true, "Nat": true,
	"KPoint": true, "KSegment": true, "KRect": true, "KRaycastResult": true,
}

// knIdent maps a Go variable name to a Lean identifier (ASCII only; reserved words and the names
// of generated functions get a trailing underscore).
func (p *knPackage) knIdent(name string) (string, error) {
	for _, r := range name {
		if !(r < 128 && (unicode.IsLetter(r) || unicode.IsDigit(r) || r == '_')) {
			return "", fmt.Errorf("identifier %q: unsupported character %q", name, r)
		}
	}
	if name == "_" {
		return "", fmt.Errorf("blank identifier used as a value")
	}
	if knReserved[name] {
		return name + "_", nil
	}
	for _, f := range p.funcs {
		if f.leanName == name {
			return name + "_", nil
		}
	}
	return name, nil
}

// ---------------------------------------------------------------------------------------------
// per-function environment

type knEnv struct {
	vars map[string]knType // Go name -> type
}

func (e *knEnv) copy() *knEnv {
	m := make(map[string]knType, len(e.vars))
	for k, v := range e.vars {
		m[k] = v
	}
	return &knEnv{vars: m}
}

// translation of one function
type knTr struct {
	pkg *knPackage
	fn  *knFunc
	tmp int
	// ext, when set (series.go), is asked first about every expression: it returns ok = false
	// for the forms it leaves to expr
	ext func(e ast.Expr, env *knEnv) (x knExpr, ok bool, err error)
}

func (t *knTr) pos(n ast.Node) string {
	p := t.pkg.fset.Position(n.Pos())
	return fmt.Sprintf("%s:%d", p.Filename, p.Line)
}

func (t *knTr) errf(n ast.Node, format string, args ...interface{}) error {
	return fmt.Errorf("%s: %s", t.pos(n), fmt.Sprintf(format, args...))
}

// Lean precedences of what is printed
const (
	knPrecOr   = 30
	knPrecAnd  = 35
	knPrecCmp  = 50
	knPrecAdd  = 65
	knPrecMul  = 70
	knPrecApp  = 1023 // function application: needs parentheses as an argument
	knPrecAtom = 1024
)

type knExpr struct {
	s     string
	prec  int
	ty    knType
	konst bool // built from literals only: Go evaluates such an expression exactly, so an
	// operation between two of them is refused
}

func (e knExpr) at(prec int) string {
	if e.prec < prec {
		return "(" + e.s + ")"
	}
	return e.s
}

func (e knExpr) atom() string { return e.at(knPrecAtom) }

func knLit(n string) knExpr {
	return knExpr{"(KNum.ofNat " + n + " : α)", knPrecAtom, knUntypedInt, true}
}

// knZero is the zero value of a type.
func knZero(ty knType) string {
	switch ty {
	case knFloat:
		return "(KNum.ofNat 0 : α)"
	case knBool:
		return "false"
	}
	s := knStructByType(ty)
	var parts []string
	for _, f := range s.fields {
		parts = append(parts, f.leanName+" := "+knZero(f.ty))
	}
	return "{ " + strings.Join(parts, ", ") + " : " + s.leanType + " }"
}

// ---------------------------------------------------------------------------------------------
// expressions

func (t *knTr) isMath(e ast.Expr, env *knEnv) bool {
	id, ok := e.(*ast.Ident)
	if !ok || t.fn.mathName == "" || id.Name != t.fn.mathName {
		return false
	}
	_, shadowed := env.vars[id.Name]
	return !shadowed
}

func (t *knTr) structOf(n ast.Node, ty knType) (*knStruct, error) {
	s := knStructByType(ty)
	if s == nil {
		return nil, t.errf(n, "%v is not a struct of the subset", ty)
	}
	if why, bad := t.pkg.badStruct[s.goName]; bad {
		return nil, t.errf(n, "%s", why)
	}
	return s, nil
}

// assignable: may a value of type `from` be used where `to` is expected?
func knAssignable(from, to knType) bool {
	return from == to || (from == knUntypedInt && to == knFloat)
}

func (t *knTr) expr(e ast.Expr, env *knEnv) (knExpr, error) {
	if t.ext != nil {
		if x, ok, err := t.ext(e, env); ok || err != nil {
			return x, err
		}
	}
	switch e := e.(type) {
	case *ast.ParenExpr:
		return t.expr(e.X, env)
	case *ast.Ident:
		if ty, ok := env.vars[e.Name]; ok {
			id, err := t.pkg.knIdent(e.Name)
			if err != nil {
				return knExpr{}, t.errf(e, "%v", err)
			}
			return knExpr{s: id, prec: knPrecAtom, ty: ty}, nil
		}
		if e.Name == "true" || e.Name == "false" {
			return knExpr{s: e.Name, prec: knPrecAtom, ty: knBool}, nil
		}
		return knExpr{}, t.errf(e, "identifier %s is not a local variable of the subset", e.Name)
	case *ast.BasicLit:
		if e.Kind == token.INT {
			for _, r := range e.Value {
				if r < '0' || r > '9' {
					return knExpr{}, t.errf(e, "integer literal %s: only plain decimal literals", e.Value)
				}
			}
			v := strings.TrimLeft(e.Value, "0")
			if v == "" {
				v = "0"
			} else if len(v) != len(e.Value) {
				return knExpr{}, t.errf(e, "octal literal %s", e.Value)
			}
			return knLit(v), nil
		}
		return knExpr{}, t.errf(e, "literal %s: only integer literals have a meaning in KNum", e.Value)
	case *ast.SelectorExpr:
		if t.isMath(e.X, env) {
			return knExpr{}, t.errf(e, "math.%s is not in KNum", e.Sel.Name)
		}
		x, err := t.expr(e.X, env)
		if err != nil {
			return knExpr{}, err
		}
		s, err := t.structOf(e, x.ty)
		if err != nil {
			return knExpr{}, err
		}
		for _, f := range s.fields {
			if f.goName == e.Sel.Name {
				return knExpr{s: x.atom() + "." + f.leanName, prec: knPrecAtom, ty: f.ty}, nil
			}
		}
		return knExpr{}, t.errf(e, "%s has no field %s (method values are not in the subset)", s.goName, e.Sel.Name)
	case *ast.UnaryExpr:
		x, err := t.expr(e.X, env)
		if err != nil {
			return knExpr{}, err
		}
		switch {
		case e.Op == token.SUB && knIsNum(x.ty):
			return knExpr{"KNum.neg " + x.atom(), knPrecApp, x.ty, x.konst}, nil
		case e.Op == token.NOT && x.ty == knBool:
			return knExpr{s: "!" + x.atom(), prec: 40, ty: knBool}, nil
		}
		return knExpr{}, t.errf(e, "unary %s on %v", e.Op, x.ty)
	case *ast.BinaryExpr:
		return t.binary(e, env)
	case *ast.CallExpr:
		return t.call(e, env)
	case *ast.CompositeLit:
		return t.composite(e, env)
	}
	return knExpr{}, t.errf(e, "expression form %T is not in the subset", e)
}

func (t *knTr) binary(e *ast.BinaryExpr, env *knEnv) (knExpr, error) {
	l, err := t.expr(e.X, env)
	if err != nil {
		return knExpr{}, err
	}
	r, err := t.expr(e.Y, env)
	if err != nil {
		return knExpr{}, err
	}
	bothNum := knIsNum(l.ty) && knIsNum(r.ty)
	if bothNum && l.konst && r.konst {
		return knExpr{}, t.errf(e, "constant expression: %s between two literals (Go evaluates it exactly)", e.Op)
	}
	infixl := func(op string, prec int, ty knType) (knExpr, error) {
		return knExpr{s: l.at(prec) + " " + op + " " + r.at(prec+1), prec: prec, ty: ty}, nil
	}
	infix := func(op string, prec int) (knExpr, error) {
		return knExpr{s: l.at(prec+1) + " " + op + " " + r.at(prec+1), prec: prec, ty: knBool}, nil
	}
	switch e.Op {
	case token.ADD, token.SUB, token.MUL, token.QUO:
		if !bothNum {
			break
		}
		switch e.Op {
		case token.ADD:
			return infixl("+ₖ", knPrecAdd, knFloat)
		case token.SUB:
			return infixl("-ₖ", knPrecAdd, knFloat)
		case token.MUL:
			return infixl("*ₖ", knPrecMul, knFloat)
		}
		return infixl("/ₖ", knPrecMul, knFloat)
	case token.LSS, token.LEQ, token.GTR, token.GEQ:
		if !bothNum {
			break
		}
		return infix(map[token.Token]string{token.LSS: "<ₖ", token.LEQ: "≤ₖ", token.GTR: ">ₖ", token.GEQ: "≥ₖ"}[e.Op], knPrecCmp)
	case token.EQL, token.NEQ:
		switch {
		case bothNum:
			if e.Op == token.EQL {
				return infix("==ₖ", knPrecCmp)
			}
			return infix("!=ₖ", knPrecCmp)
		case l.ty == knBool && r.ty == knBool:
			if e.Op == token.EQL {
				return infix("==", knPrecCmp)
			}
			return infix("!=", knPrecCmp)
		case l.ty == r.ty:
			s, err := t.structOf(e, l.ty)
			if err != nil {
				return knExpr{}, err
			}
			app := s.eqFn + " " + l.atom() + " " + r.atom()
			if e.Op == token.EQL {
				return knExpr{s: app, prec: knPrecApp, ty: knBool}, nil
			}
			return knExpr{s: "!(" + app + ")", prec: 40, ty: knBool}, nil
		}
	case token.LAND:
		if l.ty == knBool && r.ty == knBool {
			return infixl("&&", knPrecAnd, knBool)
		}
	case token.LOR:
		if l.ty == knBool && r.ty == knBool {
			return infixl("||", knPrecOr, knBool)
		}
	}
	return knExpr{}, t.errf(e, "operator %s on %v and %v", e.Op, l.ty, r.ty)
}

// infSign recognises math.Inf(k) for an integer literal k (optionally negated): +1 / -1, 0 if
// the expression is something else.
func (t *knTr) infSign(e ast.Expr, env *knEnv) int {
	c, ok := e.(*ast.CallExpr)
	if !ok || len(c.Args) != 1 || c.Ellipsis.IsValid() {
		return 0
	}
	sel, ok := c.Fun.(*ast.SelectorExpr)
	if !ok || !t.isMath(sel.X, env) || sel.Sel.Name != "Inf" {
		return 0
	}
	arg, neg := c.Args[0], false
	if p, ok := arg.(*ast.ParenExpr); ok {
		arg = p.X
	}
	if u, ok := arg.(*ast.UnaryExpr); ok && u.Op == token.SUB {
		arg, neg = u.X, true
	}
	lit, ok := arg.(*ast.BasicLit)
	if !ok || lit.Kind != token.INT {
		return 0
	}
	if neg && strings.Trim(lit.Value, "0") != "" {
		for _, r := range lit.Value {
			if r < '0' || r > '9' {
				return 0
			}
		}
		return -1
	}
	for _, r := range lit.Value {
		if r < '0' || r > '9' {
			return 0
		}
	}
	return 1
}

func (t *knTr) call(e *ast.CallExpr, env *knEnv) (knExpr, error) {
	if e.Ellipsis.IsValid() {
		return knExpr{}, t.errf(e, "variadic call")
	}
	if sel, ok := e.Fun.(*ast.SelectorExpr); ok && t.isMath(sel.X, env) {
		switch sel.Sel.Name {
		case "Inf":
			switch t.infSign(e, env) {
			case 1:
				return knExpr{s: "(KNum.posInf : α)", prec: knPrecAtom, ty: knFloat}, nil
			case -1:
				return knExpr{s: "(KNum.negInf : α)", prec: knPrecAtom, ty: knFloat}, nil
			}
			return knExpr{}, t.errf(e, "math.Inf with an argument that is not an integer literal")
		case "Nextafter":
			if len(e.Args) != 2 || t.infSign(e.Args[1], env) != 1 {
				return knExpr{}, t.errf(e, "math.Nextafter is recognised only in the form math.Nextafter(x, math.Inf(1))")
			}
			x, err := t.expr(e.Args[0], env)
			if err != nil {
				return knExpr{}, err
			}
			if !knIsNum(x.ty) {
				return knExpr{}, t.errf(e, "math.Nextafter on %v", x.ty)
			}
			return knExpr{s: "KNum.nextUp " + x.atom(), prec: knPrecApp, ty: knFloat}, nil
		}
		return knExpr{}, t.errf(e, "math.%s is not in KNum", sel.Sel.Name)
	}
	var key string
	var args []knExpr
	switch fun := e.Fun.(type) {
	case *ast.SelectorExpr:
		recv, err := t.expr(fun.X, env)
		if err != nil {
			return knExpr{}, err
		}
		s, err := t.structOf(fun, recv.ty)
		if err != nil {
			return knExpr{}, err
		}
		key = s.goName + "." + fun.Sel.Name
		args = append(args, recv)
	case *ast.Ident:
		if _, isVar := env.vars[fun.Name]; isVar {
			return knExpr{}, t.errf(e, "call of the function value %s", fun.Name)
		}
		if fun.Name == "float64" && len(e.Args) == 1 {
			x, err := t.expr(e.Args[0], env)
			if err != nil {
				return knExpr{}, err
			}
			if knIsNum(x.ty) {
				return knExpr{x.s, x.prec, knFloat, x.konst}, nil
			}
			return knExpr{}, t.errf(e, "conversion float64(%v)", x.ty)
		}
		key = fun.Name
	default:
		return knExpr{}, t.errf(e, "call of %T", e.Fun)
	}
	callee := t.pkg.request(key)
	if callee == nil {
		return knExpr{}, t.errf(e, "call of %s, which is not a function of package geometry", key)
	}
	if callee.err != nil {
		return knExpr{}, t.errf(e, "calls %s, which is unrecognised", key)
	}
	if len(e.Args) != len(callee.params) {
		return knExpr{}, t.errf(e, "call of %s with %d arguments", key, len(e.Args))
	}
	for i, a := range e.Args {
		x, err := t.expr(a, env)
		if err != nil {
			return knExpr{}, err
		}
		if !knAssignable(x.ty, callee.params[i]) {
			return knExpr{}, t.errf(a, "argument %d of %s: %v where %v is expected", i+1, key, x.ty, callee.params[i])
		}
		args = append(args, x)
	}
	s := callee.leanName
	for _, a := range args {
		s += " " + a.atom()
	}
	prec := knPrecApp
	if len(args) == 0 {
		s = "(" + s + " (α := α))"
		prec = knPrecAtom
	}
	return knExpr{s: s, prec: prec, ty: callee.result}, nil
}

func (t *knTr) composite(e *ast.CompositeLit, env *knEnv) (knExpr, error) {
	tn := ""
	if e.Type != nil {
		tn = knTypeString(e.Type)
	}
	s := knStructByName(tn)
	if s == nil {
		return knExpr{}, t.errf(e, "composite literal of a type outside the subset")
	}
	if _, err := t.structOf(e, s.ty); err != nil {
		return knExpr{}, err
	}
	vals := make([]string, len(s.fields))
	set := func(i int, v ast.Expr) error {
		x, err := t.expr(v, env)
		if err != nil {
			return err
		}
		if !knAssignable(x.ty, s.fields[i].ty) {
			return t.errf(v, "field %s.%s: %v where %v is expected", s.goName, s.fields[i].goName, x.ty, s.fields[i].ty)
		}
		if vals[i] != "" {
			return t.errf(v, "field %s.%s given twice", s.goName, s.fields[i].goName)
		}
		vals[i] = x.s
		return nil
	}
	keyed := len(e.Elts) > 0
	for _, el := range e.Elts {
		if _, ok := el.(*ast.KeyValueExpr); !ok {
			keyed = false
		}
	}
	switch {
	case keyed:
		for _, el := range e.Elts {
			kv := el.(*ast.KeyValueExpr)
			id, ok := kv.Key.(*ast.Ident)
			idx := -1
			for i, f := range s.fields {
				if ok && f.goName == id.Name {
					idx = i
				}
			}
			if idx < 0 {
				return knExpr{}, t.errf(kv, "unknown field key in %s literal", s.goName)
			}
			if err := set(idx, kv.Value); err != nil {
				return knExpr{}, err
			}
		}
	case len(e.Elts) == len(s.fields):
		for i, el := range e.Elts {
			if _, ok := el.(*ast.KeyValueExpr); ok {
				return knExpr{}, t.errf(el, "mixed keyed and positional fields")
			}
			if err := set(i, el); err != nil {
				return knExpr{}, err
			}
		}
	case len(e.Elts) != 0:
		return knExpr{}, t.errf(e, "%s literal with %d positional fields", s.goName, len(e.Elts))
	}
	var parts []string
	for i, f := range s.fields {
		if vals[i] == "" {
			vals[i] = knZero(f.ty)
		}
		parts = append(parts, f.leanName+" := "+vals[i])
	}
	return knExpr{s: "{ " + strings.Join(parts, ", ") + " : " + s.leanType + " }", prec: knPrecAtom, ty: s.ty}, nil
}

// ---------------------------------------------------------------------------------------------
// statements

// knMode says how a statement list ends: at the top level of the function (`return e` ↦ e),
// inside an early-return join (`return e` ↦ some e, falling through ↦ none), or inside a variable
// update (no return allowed, falling through ↦ the tuple of the updated variables).
type knMode struct {
	kind int      // knTop, knOpt, knTuple
	vars []string // Go names of the updated variables (knTuple)
}

const (
	knTop = iota
	knOpt
	knTuple
)

func knIndent(lines []string) []string {
	out := make([]string, len(lines))
	for i, l := range lines {
		out[i] = "  " + l
	}
	return out
}

func knIfLines(cond string, th, el []string) []string {
	out := append([]string{"if " + cond + " then"}, knIndent(th)...)
	if len(el) > 0 && strings.HasPrefix(el[0], "if ") {
		out = append(out, "else "+el[0])
		return append(out, el[1:]...)
	}
	out = append(out, "else")
	return append(out, knIndent(el)...)
}

func knElse(s *ast.IfStmt) []ast.Stmt {
	switch e := s.Else.(type) {
	case *ast.BlockStmt:
		return e.List
	case *ast.IfStmt:
		return []ast.Stmt{e}
	}
	return nil
}

// knTerminates: does every path through the list end in a return?
func knTerminates(list []ast.Stmt) bool {
	if len(list) == 0 {
		return false
	}
	switch s := list[len(list)-1].(type) {
	case *ast.ReturnStmt:
		return true
	case *ast.IfStmt:
		return s.Else != nil && knTerminates(s.Body.List) && knTerminates(knElse(s))
	}
	return false
}

// knDeclares: does the list declare a variable at its own level?
func knDeclares(list []ast.Stmt) bool {
	for _, s := range list {
		switch s := s.(type) {
		case *ast.AssignStmt:
			if s.Tok == token.DEFINE {
				return true
			}
		case *ast.DeclStmt:
			return true
		}
	}
	return false
}

func knRoot(e ast.Expr) *ast.Ident {
	for {
		switch x := e.(type) {
		case *ast.Ident:
			return x
		case *ast.SelectorExpr:
			e = x.X
		case *ast.ParenExpr:
			e = x.X
		default:
			return nil
		}
	}
}

// knAssigned collects the variables declared outside the list that the list assigns, and whether
// it contains a return.
func knAssigned(list []ast.Stmt, local map[string]bool, out map[string]bool, hasRet *bool) {
	loc := map[string]bool{}
	for k := range local {
		loc[k] = true
	}
	for _, s := range list {
		switch s := s.(type) {
		case *ast.AssignStmt:
			for _, l := range s.Lhs {
				id := knRoot(l)
				if id == nil || id.Name == "_" {
					continue
				}
				if _, plain := l.(*ast.Ident); plain && s.Tok == token.DEFINE {
					loc[id.Name] = true
				} else if !loc[id.Name] {
					out[id.Name] = true
				}
			}
		case *ast.DeclStmt:
			if gd, ok := s.Decl.(*ast.GenDecl); ok {
				for _, sp := range gd.Specs {
					if vs, ok := sp.(*ast.ValueSpec); ok {
						for _, n := range vs.Names {
							loc[n.Name] = true
						}
					}
				}
			}
		case *ast.IfStmt:
			knAssigned(s.Body.List, loc, out, hasRet)
			knAssigned(knElse(s), loc, out, hasRet)
		case *ast.ForStmt:
			knAssigned(s.Body.List, loc, out, hasRet)
		case *ast.BlockStmt:
			knAssigned(s.List, loc, out, hasRet)
		case *ast.ReturnStmt:
			*hasRet = true
		}
	}
}

func (t *knTr) pattern(goNames []string, env *knEnv) (string, error) {
	var ids []string
	for _, n := range goNames {
		if _, ok := env.vars[n]; !ok {
			return "", fmt.Errorf("%s: assignment to %s, which is not a local variable of the subset", t.fn.key, n)
		}
		id, err := t.pkg.knIdent(n)
		if err != nil {
			return "", err
		}
		ids = append(ids, id)
	}
	if len(ids) == 1 {
		return ids[0], nil
	}
	return "(" + strings.Join(ids, ", ") + ")", nil
}

func (t *knTr) fall(m knMode, env *knEnv) ([]string, error) {
	switch m.kind {
	case knOpt:
		return []string{"none"}, nil
	case knTuple:
		p, err := t.pattern(m.vars, env)
		return []string{p}, err
	}
	return nil, fmt.Errorf("%s: control reaches the end of the function without a return", t.fn.key)
}

func (t *knTr) block(list []ast.Stmt, env *knEnv, m knMode) ([]string, error) {
	if len(list) == 0 {
		return t.fall(m, env)
	}
	rest := list[1:]
	var head []string
	var err error
	switch s := list[0].(type) {
	case *ast.EmptyStmt:
	case *ast.ReturnStmt:
		if len(rest) > 0 {
			return nil, t.errf(rest[0], "statement after a return")
		}
		if m.kind == knTuple || len(s.Results) != 1 {
			return nil, t.errf(s, "return statement of an unsupported shape")
		}
		x, err := t.expr(s.Results[0], env)
		if err != nil {
			return nil, err
		}
		if !knAssignable(x.ty, t.fn.result) {
			return nil, t.errf(s, "returns %v where %v is expected", x.ty, t.fn.result)
		}
		if m.kind == knOpt {
			return []string{"some " + x.atom()}, nil
		}
		return []string{x.s}, nil
	case *ast.AssignStmt:
		head, err = t.assign(s, env)
	case *ast.DeclStmt:
		head, err = t.declStmt(s, env)
	case *ast.ForStmt:
		head, err = t.forStmt(s, env)
	case *ast.IfStmt:
		return t.ifStmt(s, rest, env, m)
	default:
		return nil, t.errf(s, "statement form %T is not in the subset", s)
	}
	if err != nil {
		return nil, err
	}
	tail, err := t.block(rest, env, m)
	if err != nil {
		return nil, err
	}
	return append(head, tail...), nil
}

func (t *knTr) ifStmt(s *ast.IfStmt, rest []ast.Stmt, env *knEnv, m knMode) ([]string, error) {
	if s.Init != nil {
		return nil, t.errf(s, "if statement with an init clause")
	}
	c, err := t.expr(s.Cond, env)
	if err != nil {
		return nil, err
	}
	if c.ty != knBool {
		return nil, t.errf(s, "condition of type %v", c.ty)
	}
	th, el := s.Body.List, knElse(s)
	two := func(a, b []ast.Stmt, ma, mb knMode, ea, eb *knEnv) ([]string, error) {
		la, err := t.block(a, ea, ma)
		if err != nil {
			return nil, err
		}
		lb, err := t.block(b, eb, mb)
		if err != nil {
			return nil, err
		}
		return knIfLines(c.s, la, lb), nil
	}
	if len(rest) == 0 {
		return two(th, el, m, m, env.copy(), env.copy())
	}
	tT, tE := knTerminates(th), knTerminates(el)
	switch {
	case tT && tE:
		return nil, t.errf(rest[0], "statement after an if statement that always returns")
	case tT && !knDeclares(el):
		// if c { …; return } [else { B }]; rest   ↦   if c then … else (B; rest)
		return two(th, append(append([]ast.Stmt{}, el...), rest...), m, m, env.copy(), env)
	case tE && !knDeclares(th):
		return two(append(append([]ast.Stmt{}, th...), rest...), el, m, m, env, env.copy())
	}
	// both sides may fall through: join
	assigned, hasRet := map[string]bool{}, false
	knAssigned([]ast.Stmt{s}, nil, assigned, &hasRet)
	var vars []string
	for v := range assigned {
		vars = append(vars, v)
	}
	sort.Strings(vars)
	switch {
	case len(vars) == 0 && hasRet:
		if m.kind == knTuple {
			return nil, t.errf(s, "return inside a loop body or variable update")
		}
		inner := knMode{kind: knOpt}
		lines, err := two(th, el, inner, inner, env.copy(), env.copy())
		if err != nil {
			return nil, err
		}
		tail, err := t.block(rest, env, m)
		if err != nil {
			return nil, err
		}
		back := "r'"
		if m.kind == knOpt {
			back = "some r'"
		}
		out := []string{"let ret' : Option " + knTypeAtom(t.fn.result) + " :="}
		out = append(out, knIndent(lines)...)
		out = append(out, "match ret' with", "| some r' => "+back, "| none =>")
		return append(out, knIndent(tail)...), nil
	case len(vars) > 0 && !hasRet:
		inner := knMode{kind: knTuple, vars: vars}
		pat, err := t.pattern(vars, env)
		if err != nil {
			return nil, err
		}
		lines, err := two(th, el, inner, inner, env.copy(), env.copy())
		if err != nil {
			return nil, err
		}
		tail, err := t.block(rest, env, m)
		if err != nil {
			return nil, err
		}
		out := append([]string{"let " + pat + " :="}, knIndent(lines)...)
		return append(out, tail...), nil
	case len(vars) == 0:
		return nil, t.errf(s, "if statement without effect")
	}
	return nil, t.errf(s, "if statement that both assigns outer variables (%s) and returns, followed by more statements", strings.Join(vars, ", "))
}

const knFuel = 4

func (t *knTr) forStmt(s *ast.ForStmt, env *knEnv) ([]string, error) {
	if s.Init != nil || s.Post != nil || s.Cond == nil {
		return nil, t.errf(s, "only loops of the form `for cond { … }` are in the subset")
	}
	assigned, hasRet := map[string]bool{}, false
	knAssigned(s.Body.List, nil, assigned, &hasRet)
	if hasRet || len(assigned) == 0 {
		return nil, t.errf(s, "loop body must assign outer variables and must not return")
	}
	var vars []string
	for v := range assigned {
		vars = append(vars, v)
	}
	sort.Strings(vars)
	pat, err := t.pattern(vars, env)
	if err != nil {
		return nil, err
	}
	c, err := t.expr(s.Cond, env)
	if err != nil {
		return nil, err
	}
	if c.ty != knBool {
		return nil, t.errf(s, "loop condition of type %v", c.ty)
	}
	body, err := t.block(s.Body.List, env.copy(), knMode{kind: knTuple, vars: vars})
	if err != nil {
		return nil, err
	}
	t.pkg.usesLoop = true
	out := []string{
		fmt.Sprintf("-- Go loop `for %s { … }` at %s, run with fuel %d (see `iterate`)", knSrc(t.fn.src, t.pkg.fset, s.Cond), t.pos(s), knFuel),
		fmt.Sprintf("let %s := iterate %d (fun %s => %s) (fun %s =>", pat, knFuel, pat, c.s, pat),
	}
	out = append(out, knIndent(knIndent(body))...)
	out[len(out)-1] += ") " + pat
	return out, nil
}

func knSrc(src []byte, fset *token.FileSet, n ast.Node) string {
	a, b := fset.Position(n.Pos()).Offset, fset.Position(n.End()).Offset
	if a < 0 || b > len(src) || a > b {
		return "?"
	}
	return strings.Join(strings.Fields(string(src[a:b])), " ")
}

func (t *knTr) declStmt(s *ast.DeclStmt, env *knEnv) ([]string, error) {
	gd, ok := s.Decl.(*ast.GenDecl)
	if !ok || gd.Tok != token.VAR {
		return nil, t.errf(s, "only var declarations are in the subset")
	}
	var out []string
	for _, sp := range gd.Specs {
		vs := sp.(*ast.ValueSpec)
		if vs.Type == nil || len(vs.Values) != 0 {
			return nil, t.errf(s, "only `var x T` is in the subset")
		}
		ty, ok := knParseType(vs.Type)
		if !ok {
			return nil, t.errf(s, "variable of a type outside the subset")
		}
		if st := knStructByType(ty); st != nil {
			if _, err := t.structOf(s, ty); err != nil {
				return nil, err
			}
		}
		for _, n := range vs.Names {
			if n.Name == "_" {
				continue
			}
			env.vars[n.Name] = ty
			id, err := t.pkg.knIdent(n.Name)
			if err != nil {
				return nil, t.errf(n, "%v", err)
			}
			out = append(out, "let "+id+" : "+ty.lean()+" := "+knZero(ty))
		}
	}
	return out, nil
}

func knMentions(e ast.Expr, name string) bool {
	found := false
	ast.Inspect(e, func(n ast.Node) bool {
		if id, ok := n.(*ast.Ident); ok && id.Name == name {
			found = true
		}
		return !found
	})
	return found
}

var knAssignOps = map[token.Token]token.Token{
	token.ADD_ASSIGN: token.ADD, token.SUB_ASSIGN: token.SUB,
	token.MUL_ASSIGN: token.MUL, token.QUO_ASSIGN: token.QUO,
}

func (t *knTr) assign(s *ast.AssignStmt, env *knEnv) ([]string, error) {
	lhs, rhs := s.Lhs, s.Rhs
	if op, ok := knAssignOps[s.Tok]; ok && len(lhs) == 1 && len(rhs) == 1 {
		rhs = []ast.Expr{&ast.BinaryExpr{X: lhs[0], OpPos: s.TokPos, Op: op, Y: &ast.ParenExpr{Lparen: rhs[0].Pos(), X: rhs[0]}}}
	} else if s.Tok != token.DEFINE && s.Tok != token.ASSIGN {
		return nil, t.errf(s, "assignment operator %s", s.Tok)
	}
	if len(lhs) != len(rhs) {
		return nil, t.errf(s, "assignment of a multi-valued expression")
	}
	vals := make([]knExpr, len(rhs))
	for i, r := range rhs {
		x, err := t.expr(r, env)
		if err != nil {
			return nil, err
		}
		vals[i] = x
	}
	// Go evaluates every right-hand side before assigning; binding one at a time is the same
	// thing unless a later right-hand side mentions an earlier target
	sequential := true
	for i := range lhs {
		if id := knRoot(lhs[i]); id != nil {
			for j := i + 1; j < len(rhs); j++ {
				if knMentions(rhs[j], id.Name) {
					sequential = false
				}
			}
		}
	}
	var out []string
	if !sequential {
		for i := range vals {
			name := fmt.Sprintf("tmp%d'", t.tmp)
			t.tmp++
			out = append(out, "let "+name+" := "+vals[i].s)
			vals[i] = knExpr{s: name, prec: knPrecAtom, ty: vals[i].ty}
		}
	}
	for i, l := range lhs {
		line, err := t.bind(l, vals[i], s.Tok == token.DEFINE, env)
		if err != nil {
			return nil, err
		}
		if line != "" {
			out = append(out, line)
		}
	}
	return out, nil
}

// bind emits the let that performs `l = v` (or `l := v`).
func (t *knTr) bind(l ast.Expr, v knExpr, define bool, env *knEnv) (string, error) {
	if p, ok := l.(*ast.ParenExpr); ok {
		return t.bind(p.X, v, define, env)
	}
	root := knRoot(l)
	if root == nil {
		return "", t.errf(l, "assignment target outside the subset")
	}
	if id, plain := l.(*ast.Ident); plain {
		if id.Name == "_" {
			return "", nil
		}
		old, exists := env.vars[id.Name]
		switch {
		case define:
			if v.ty == knUntypedInt {
				return "", t.errf(l, "%s would be an integer variable", id.Name)
			}
			env.vars[id.Name] = v.ty
		case !exists:
			return "", t.errf(l, "assignment to %s, which is not a local variable of the subset", id.Name)
		case !knAssignable(v.ty, old):
			return "", t.errf(l, "assignment of %v to %s of type %v", v.ty, id.Name, old)
		}
		name, err := t.pkg.knIdent(id.Name)
		if err != nil {
			return "", t.errf(l, "%v", err)
		}
		return "let " + name + " := " + v.s, nil
	}
	if define {
		return "", t.errf(l, "`:=` with a field on the left")
	}
	// field path root.f1.f2… = v   ↦   let root := { root with f1 := { root.f1 with f2 := v } }
	var path []string
	for e := l; ; {
		if p, ok := e.(*ast.ParenExpr); ok {
			e = p.X
			continue
		}
		sel, ok := e.(*ast.SelectorExpr)
		if !ok {
			break
		}
		path = append([]string{sel.Sel.Name}, path...)
		e = sel.X
	}
	ty, ok := env.vars[root.Name]
	if !ok {
		return "", t.errf(l, "assignment to a field of %s, which is not a local variable of the subset", root.Name)
	}
	name, err := t.pkg.knIdent(root.Name)
	if err != nil {
		return "", t.errf(l, "%v", err)
	}
	var build func(cur string, ty knType, path []string) (string, error)
	build = func(cur string, ty knType, path []string) (string, error) {
		if len(path) == 0 {
			if !knAssignable(v.ty, ty) {
				return "", t.errf(l, "assignment of %v to a field of type %v", v.ty, ty)
			}
			return v.s, nil
		}
		st, err := t.structOf(l, ty)
		if err != nil {
			return "", err
		}
		for _, f := range st.fields {
			if f.goName == path[0] {
				inner, err := build(cur+"."+f.leanName, f.ty, path[1:])
				if err != nil {
					return "", err
				}
				return "{ " + cur + " with " + f.leanName + " := " + inner + " }", nil
			}
		}
		return "", t.errf(l, "%s has no field %s", st.goName, path[0])
	}
	val, err := build(name, ty, path)
	if err != nil {
		return "", err
	}
	return "let " + name + " := " + val, nil
}

// ---------------------------------------------------------------------------------------------
// functions

// request translates the function `key` (once) and returns it; nil if the package has no such
// function.
func (p *knPackage) request(key string) *knFunc {
	f := p.funcs[key]
	if f == nil {
		return nil
	}
	switch f.state {
	case 1:
		f.err = fmt.Errorf("%s is recursive", key)
		return f
	case 2:
		return f
	}
	f.state = 1
	t := &knTr{pkg: p, fn: f}
	lines, err := t.function()
	if f.err == nil {
		f.err = err
	}
	f.lines = lines
	f.state = 2
	p.order = append(p.order, f)
	return f
}

func (t *knTr) function() ([]string, error) {
	f, d := t.fn, t.fn.decl
	sig := "?"
	if d.Body != nil {
		a, b := t.pkg.fset.Position(d.Pos()).Offset, t.pkg.fset.Position(d.Body.Lbrace).Offset
		sig = strings.Join(strings.Fields(string(f.src[a:b])), " ")
	}
	f.comment = fmt.Sprintf("/-- Go: `%s` — geometry/%s -/", sig, t.pos(d))
	if d.Body == nil {
		return nil, t.errf(d, "function without a body")
	}
	if d.Type.TypeParams != nil {
		return nil, t.errf(d, "generic function")
	}
	env := &knEnv{vars: map[string]knType{}}
	var binders []string
	addParam := func(n *ast.Ident, ty knType) error {
		if st := knStructByType(ty); st != nil {
			if _, err := t.structOf(n, ty); err != nil {
				return err
			}
		}
		if n == nil || n.Name == "_" {
			binders = append(binders, "(_ : "+ty.lean()+")")
			return nil
		}
		id, err := t.pkg.knIdent(n.Name)
		if err != nil {
			return t.errf(n, "%v", err)
		}
		env.vars[n.Name] = ty
		binders = append(binders, "("+id+" : "+ty.lean()+")")
		return nil
	}
	if d.Recv != nil {
		if len(d.Recv.List) != 1 {
			return nil, t.errf(d, "receiver list")
		}
		r := d.Recv.List[0]
		ty, ok := knParseType(r.Type)
		if !ok || knStructByType(ty) == nil {
			return nil, t.errf(d, "receiver type outside the subset (pointer receivers are not supported)")
		}
		f.recvTy = ty
		var n *ast.Ident
		if len(r.Names) == 1 {
			n = r.Names[0]
		}
		if err := addParam(n, ty); err != nil {
			return nil, err
		}
	}
	for _, fld := range d.Type.Params.List {
		ty, ok := knParseType(fld.Type)
		if !ok {
			return nil, t.errf(fld, "parameter type outside the subset")
		}
		if len(fld.Names) == 0 {
			f.params = append(f.params, ty)
			if err := addParam(nil, ty); err != nil {
				return nil, err
			}
		}
		for _, n := range fld.Names {
			f.params = append(f.params, ty)
			if err := addParam(n, ty); err != nil {
				return nil, err
			}
		}
	}
	if d.Type.Results == nil || len(d.Type.Results.List) != 1 || len(d.Type.Results.List[0].Names) != 0 {
		return nil, t.errf(d, "exactly one unnamed result is required")
	}
	res, ok := knParseType(d.Type.Results.List[0].Type)
	if !ok {
		return nil, t.errf(d, "result type outside the subset")
	}
	if st := knStructByType(res); st != nil {
		if _, err := t.structOf(d, res); err != nil {
			return nil, err
		}
	}
	f.result = res
	body, err := t.block(d.Body.List, env, knMode{kind: knTop})
	if err != nil {
		return nil, err
	}
	head := "def " + f.leanName + " {α : Type} [KNum α] " + strings.Join(binders, " ") + " : " + res.lean() + " :="
	return append([]string{head}, knIndent(body)...), nil
}

const knHeader = `/-
  GENERATED FILE — do not edit.  Regenerate with
      cd /verif/translate && go build -o bin/translate . && \
        ./bin/translate kernel /repo > /verif/lean/GeoModel/Generated/KernelGen.lean

  Syntactic translation (translate/kernel.go) of the planar kernels of package geometry:
  raycast.go, segment.go and the purely numeric methods of rect.go and point.go.

  Conventions:
    * float64 ↦ α with [KNum α] (GeoModel/KNum.lean: Float for execution, an exact model of
      binary64 rounding for the proofs); Point/Segment/Rect/RaycastResult ↦ KPoint α/KSegment α/
      KRect α/KRaycastResult (fields in lower case, In ↦ inn);
    * method T.M ↦ def tM (receiver first), function f ↦ def f;
    * a +ₖ b, a <ₖ b, a ==ₖ b, … are notation for KNum.add a b, KNum.lt a b, KNum.eq a b, …
      (IEEE comparisons, Bool-valued); integer literal n ↦ (KNum.ofNat n : α); == on structs ↦
      KPoint.eq / KSegment.eq / KRect.eq (field by field);
    * x := e, x = e, p.Y = e ↦ let-rebinding (let p := { p with y := e }); a tuple assignment
      whose right-hand sides mention an earlier target goes through temporaries tmpN';
    * a statement list becomes one expression, continuation style: ` + "`if c { …; return e }; rest`" + ` ↦
      if c then … e else rest.  An if statement that may fall through on both sides and is
      followed by more statements is joined: through let ret' : Option R (early return: some,
      fall through: none) when it assigns nothing, through a tuple of the variables it assigns
      when it does not return;
    * ` + "`for cond { body }`" + ` ↦ iterate 4 (fun vars => cond) (fun vars => body) vars — FUEL 4.  The
      only loop of the source (Raycast: p.Y = math.Nextafter(p.Y, +Inf) while p.Y equals a.Y or
      b.Y) runs at most twice on finite input; when the fuel runs out the value is returned as
      is (in Go the loop does not terminate when p.Y = a.Y = +Inf or p.Y = b.Y = +Inf);
    * math.Inf(1)/math.Inf(-1) ↦ KNum.posInf/KNum.negInf, math.Nextafter(x, math.Inf(1)) ↦
      KNum.nextUp x.
  Anything outside the recognised subset appears below as  opaque <name>_unrecognised : Unit.
-/
import GeoModel.KNum

set_option linter.unusedVariables false

namespace Geo.KGen
open Geo
open scoped Geo.KNum

/-- ` + "`for cond { step }`" + ` with explicit fuel: at most ` + "`fuel`" + ` iterations; when the fuel runs out the
    current value is returned as is. -/
def iterate {σ : Type} (fuel : Nat) (cond : σ → Bool) (step : σ → σ) (s : σ) : σ :=
  match fuel with
  | 0 => s
  | n + 1 => if cond s then iterate n cond step (step s) else s
`

func translateKernel(repo string) (string, error) {
	pkg, err := knLoad(repo)
	if err != nil {
		return "", err
	}
	var b strings.Builder
	b.WriteString(knHeader)
	var missing []string
	for _, key := range knTargets {
		if pkg.request(key) == nil {
			missing = append(missing, key)
		}
	}
	for _, f := range pkg.order {
		b.WriteString("\n")
		if f.err != nil {
			fmt.Fprintf(&b, "-- %s: NOT RECOGNISED: %s\n", f.key, strings.ReplaceAll(f.err.Error(), "\n", " "))
			if f.comment != "" {
				b.WriteString(f.comment + "\n")
			}
			fmt.Fprintf(&b, "opaque %s_unrecognised : Unit\n", f.leanName)
			continue
		}
		b.WriteString(f.comment + "\n")
		b.WriteString(strings.Join(f.lines, "\n") + "\n")
	}
	for _, key := range missing {
		fmt.Fprintf(&b, "\n-- %s: NOT RECOGNISED: no such function in package geometry\n", key)
		fmt.Fprintf(&b, "opaque %s_unrecognised : Unit\n", knLeanName(key))
	}
	b.WriteString("\nend Geo.KGen\n")
	return b.String(), nil
}
