/-
  GeoProofs.Float.Ops — the binary64 operations (correctly rounded), `nextUp`, and the dyadic
  classes `Dy s B` = { k / 2^s : |k| ≤ B } used for the exactness argument on the regime E.
-/
import GeoProofs.Float.RoundMono

namespace Geo.F

/-! ### IEEE operations on finite values (no overflow, see `Round.lean`) -/

def fadd (x y : ℚ) : ℚ := rn (x + y)
def fsub (x y : ℚ) : ℚ := rn (x - y)
def fmul (x y : ℚ) : ℚ := rn (x * y)
/-- division by a non-zero double; division by zero is `fdivF` in `KernelF.lean` -/
def fdiv (x y : ℚ) : ℚ := rn (x / y)

/-- the next larger double (`math.Nextafter(x, +Inf)`) of a finite double `x` -/
def nextUp (x : ℚ) : ℚ :=
  if x = 0 then 2 ^ (-1074 : ℤ)
  else if 0 < x then x + ulp x
  else if -x = 2 ^ ilog x ∧ -1074 < ilog x - 52 then x + ulp x / 2
  else x + ulp x

/-! ### validation against known doubles -/

#eval decide (rn (1 / 3) = 6004799503160661 / 2 ^ 54)          -- 0x3FD5555555555555
#eval decide (rn (1 / 10) = 3602879701896397 / 2 ^ 55)         -- 0x3FB999999999999A
#eval decide (rn (2 / 3) = 6004799503160661 / 2 ^ 53)
#eval decide (nextUp 1 = 1 + 1 / 2 ^ 52)
#eval decide (nextUp (-1) = -1 + 1 / 2 ^ 53)
#eval decide (nextUp (-3) = -3 + 1 / 2 ^ 51)
#eval decide (nextUp 0 = 1 / 2 ^ 1074)
#eval decide (nextUp (1048576) = 1048576 + 1 / 2 ^ 32)
#eval decide (rn (1 + 1 / 2 ^ 53) = 1)                          -- tie, to even
#eval decide (rn (1 + 3 / 2 ^ 53) = 1 + 2 / 2 ^ 52)             -- tie, to even (up)
#eval decide (rn (1 + 1 / 2 ^ 53 + 1 / 2 ^ 80) = 1 + 1 / 2 ^ 52)
#eval decide (rn (1 / 2 ^ 1075) = 0)                            -- underflow tie → 0
#eval decide (rn (3 / 2 ^ 1075) = 2 / 2 ^ 1074)
#eval decide (fmul 49 (fdiv 1 49) = 1 - 1 / 2 ^ 53)            -- the classic 49·(1/49) ≠ 1
#eval decide (fadd (1 / 10 |> rn) (2 / 10 |> rn) = 5404319552844596 / 2 ^ 54) -- 0.30000000000000004

/-! ### dyadic classes -/

/-- `x = k / 2^s` with `|k| ≤ B` -/
def Dy (s : ℕ) (B : ℤ) (x : ℚ) : Prop := ∃ k : ℤ, |k| ≤ B ∧ x = k / 2 ^ s

/-- the regime E of DESIGN §3 -/
def InE (x : ℚ) : Prop := Dy 4 (2 ^ 24) x

theorem Dy.mono {s : ℕ} {B B' : ℤ} {x : ℚ} (h : Dy s B x) (hB : B ≤ B') : Dy s B' x := by
  obtain ⟨k, hk, rfl⟩ := h; exact ⟨k, hk.trans hB, rfl⟩

theorem Dy.neg {s : ℕ} {B : ℤ} {x : ℚ} (h : Dy s B x) : Dy s B (-x) := by
  obtain ⟨k, hk, rfl⟩ := h
  exact ⟨-k, by rwa [abs_neg], by push_cast; ring⟩

theorem Dy.add {s : ℕ} {B B' : ℤ} {x y : ℚ} (hx : Dy s B x) (hy : Dy s B' y) :
    Dy s (B + B') (x + y) := by
  obtain ⟨k, hk, rfl⟩ := hx; obtain ⟨l, hl, rfl⟩ := hy
  exact ⟨k + l, (abs_add_le k l).trans (add_le_add hk hl), by push_cast; ring⟩

theorem Dy.sub {s : ℕ} {B B' : ℤ} {x y : ℚ} (hx : Dy s B x) (hy : Dy s B' y) :
    Dy s (B + B') (x - y) := by
  rw [sub_eq_add_neg]; exact hx.add hy.neg

theorem Dy.mul {s s' : ℕ} {B B' : ℤ} {x y : ℚ} (hx : Dy s B x) (hy : Dy s' B' y) :
    Dy (s + s') (B * B') (x * y) := by
  obtain ⟨k, hk, rfl⟩ := hx; obtain ⟨l, hl, rfl⟩ := hy
  refine ⟨k * l, ?_, by push_cast; ring⟩
  rw [abs_mul]; exact mul_le_mul hk hl (abs_nonneg l) ((abs_nonneg k).trans hk)

theorem Dy.F64 {s : ℕ} {B : ℤ} {x : ℚ} (h : Dy s B x) (hB : B < 2 ^ 53) (hs : s ≤ 1074) :
    F64 x := by
  obtain ⟨k, hk, rfl⟩ := h
  refine ⟨k, -(s : ℤ), lt_of_le_of_lt hk hB, by omega, by omega, ?_⟩
  rw [zpow_neg, zpow_natCast]; ring

theorem F64_int (n : ℤ) (h : |n| < 2 ^ 53) : F64 (n : ℚ) :=
  ⟨n, 0, h, by norm_num, by norm_num, by simp⟩

theorem InE.F64 {x : ℚ} (h : InE x) : F64 x := Dy.F64 h (by norm_num) (by norm_num)

theorem F64_zero : F64 0 := by simpa using F64_int 0 (by norm_num)

theorem F64_neg {x : ℚ} (h : F64 x) : F64 (-x) := by
  obtain ⟨m, e, hm, h1, h2, rfl⟩ := h
  exact ⟨-m, e, by rwa [abs_neg], h1, h2, by push_cast; ring⟩

end Geo.F
