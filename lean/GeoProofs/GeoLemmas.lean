/-
  GeoProofs.GeoLemmas — helper lemmas for the property files Props/C13, C14, C15:
    * the generated definitions `Geo.Gen.*` at `α := ℝ` as ordinary real expressions (`*_eq`);
    * facts about `rmod` (Go's math.Mod over ℝ);
    * facts about the haversine formula.
  `R` is the earth radius 6371000 (= 6371e3 = `Gen.earthRadius`), `rad` = π/180, `deg` = 180/π.
-/
import GeoProofs.GeoReal
import Mathlib.Analysis.SpecialFunctions.Trigonometric.Bounds

namespace Geo
open GeoReal Real

local notation "R" => (6371000 : ℝ)
local notation "rad" => (π / 180)
local notation "deg" => (180 / π)

/-! ### the generated constants and functions over ℝ -/

theorem earthRadius_eq : (Gen.earthRadius : ℝ) = R := by
  simp [Gen.earthRadius]; norm_num
theorem radians_eq : (Gen.radians : ℝ) = rad := by simp [Gen.radians]
theorem degrees_eq : (Gen.degrees : ℝ) = deg := by simp [Gen.degrees]
theorem piR_eq : (Gen.piR : ℝ) = π * R := by simp [Gen.piR, earthRadius_eq]
theorem twoPiR_eq : (Gen.twoPiR : ℝ) = 2 * (π * R) := by simp [Gen.twoPiR, piR_eq]

theorem haversine_eq (a b c d : ℝ) : Gen.haversine a b c d =
    sin ((c * rad - a * rad) / 2) ^ 2
      + cos (a * rad) * cos (c * rad) * sin ((d * rad - b * rad) / 2) ^ 2 := by
  simp only [Gen.haversine, radians_eq, mul_def, sub_def, div_def, add_def, sin_def, cos_def,
    ofNat_def]
  ring

theorem normalizeDistance_eq (m : ℝ) : Gen.normalizeDistance m = rmod m (2 * (π * R)) := by
  simp [Gen.normalizeDistance, twoPiR_eq]

theorem distanceToHaversine_eq (m : ℝ) : Gen.distanceToHaversine m = sin (m / (2 * R)) ^ 2 := by
  simp only [Gen.distanceToHaversine, earthRadius_eq, mul_def, div_def, sin_def, ofScientific_def]
  rw [show (0.5 : ℝ) * m / 6371000 = m / (2 * R) by norm_num; ring]
  ring

theorem distanceFromHaversine_eq (h : ℝ) :
    Gen.distanceFromHaversine h = R * 2 * arcsin (√h) := by
  simp [Gen.distanceFromHaversine, earthRadius_eq]

theorem distanceTo_eq (a b c d : ℝ) :
    Gen.distanceTo a b c d = Gen.distanceFromHaversine (Gen.haversine a b c d) := by
  simp [Gen.distanceTo]

/-- latitude (radians) of the destination point -/
noncomputable def destPhi (lat m brg : ℝ) : ℝ :=
  arcsin (sin (lat * rad) * cos (m / R) + cos (lat * rad) * sin (m / R) * cos (brg * rad))

/-- longitude (radians) of the destination point before normalisation -/
noncomputable def destLam (lat lon m brg : ℝ) : ℝ :=
  lon * rad + ratan2 (sin (brg * rad) * sin (m / R) * cos (lat * rad))
    (cos (m / R) - sin (lat * rad) * sin (destPhi lat m brg))

theorem destinationPoint_eq (lat lon m brg : ℝ) : Gen.destinationPoint lat lon m brg =
    (destPhi lat m brg * deg, (rmod (destLam lat lon m brg + 3 * π) (2 * π) - π) * deg) := by
  simp [Gen.destinationPoint, earthRadius_eq, radians_eq, degrees_eq, destPhi, destLam]

theorem degsToSemi_eq (d : ℝ) : Gen.degsToSemi d = truncZ (d * (2 ^ 31 / 180)) := by
  simp only [Gen.degsToSemi, toInt32_def, mul_def, div_def, npow_def, ofNat_def, ofScientific_def]
  norm_num

theorem semiToDegs_eq (s : ℤ) : (Gen.semiToDegs s : ℝ) = (s : ℝ) * (180 / 2 ^ 31) := by
  simp only [Gen.semiToDegs, ofInt_def, mul_def, div_def, npow_def, ofNat_def, ofScientific_def]
  norm_num

/-! #### RectFromCenter in stages (radians) -/

/-- the tiny-radius threshold of RectFromCenter -/
noncomputable def rectThr : ℝ := 0.999999999999999

/-- the tangent-longitude half-width of RectFromCenter (radians) -/
noncomputable def rectLonDelta (φ r : ℝ) : ℝ :=
  let latT := arcsin (sin φ / cos r)
  arccos ((cos r - sin latT * sin φ) / (cos latT * cos φ))

open Classical in
/-- stage 1: (minLat, minLon, maxLat, maxLon) in radians after the tiny-radius test -/
noncomputable def rectS1 (φ l r : ℝ) : ℝ × ℝ × ℝ × ℝ :=
  if rectThr < cos r then (φ, l, φ, l)
  else (φ - r, l - rectLonDelta φ r, φ + r, l + rectLonDelta φ r)
open Classical in
/-- stage 2: north-pole adjustment -/
noncomputable def rectS2 (p : ℝ × ℝ × ℝ × ℝ) : ℝ × ℝ × ℝ × ℝ :=
  if π / 2 < p.2.2.1 then (p.1, -π, π / 2, π) else p
open Classical in
/-- stage 3: south-pole adjustment -/
noncomputable def rectS3 (p : ℝ × ℝ × ℝ × ℝ) : ℝ × ℝ × ℝ × ℝ :=
  if p.1 < -π / 2 then (-π / 2, -π, p.2.2.1, π) else p
open Classical in
/-- stage 4: wrap-around adjustment -/
noncomputable def rectS4 (p : ℝ × ℝ × ℝ × ℝ) : ℝ × ℝ × ℝ × ℝ :=
  if p.2.1 < -π ∨ π < p.2.2.2 then (p.1, -π, p.2.2.1, π) else p

/-- the result of RectFromCenter in radians -/
noncomputable def rectRad (lat lon m : ℝ) : ℝ × ℝ × ℝ × ℝ :=
  rectS4 (rectS3 (rectS2 (rectS1 (lat * rad) (lon * rad) (m / R))))

theorem rectFromCenter_eq (lat lon m : ℝ) : Gen.rectFromCenter lat lon m =
    ((rectRad lat lon m).1 * deg, (rectRad lat lon m).2.1 * deg,
     (rectRad lat lon m).2.2.1 * deg, (rectRad lat lon m).2.2.2 * deg) := by
  unfold rectRad
  by_cases h1 : (0.999999999999999 : ℝ) < cos (m / 6371000)
  · by_cases h2 : π / 2 < lat * (π / 180) <;> by_cases h3 : lat * (π / 180) < -π / 2 <;>
      by_cases h4 : lon * (π / 180) < -π <;> by_cases h5 : π < lon * (π / 180) <;>
      simp [Gen.rectFromCenter, earthRadius_eq, radians_eq, degrees_eq, rectS1, rectS2, rectS3,
        rectS4, rectThr, h1, h2, h3, h4, h5]
  · by_cases h2 : π / 2 < lat * (π / 180) + m / 6371000 <;>
      by_cases h3 : lat * (π / 180) - m / 6371000 < -π / 2 <;>
      by_cases h4 : lon * (π / 180) - rectLonDelta (lat * (π / 180)) (m / 6371000) < -π <;>
      by_cases h5 : π < lon * (π / 180) + rectLonDelta (lat * (π / 180)) (m / 6371000) <;>
      simp only [rectLonDelta] at h4 h5 <;>
      simp [Gen.rectFromCenter, earthRadius_eq, radians_eq, degrees_eq, rectS1, rectS2, rectS3,
        rectS4, rectThr, rectLonDelta, h1, h2, h3, h4, h5]

theorem circleContainsPoint_iff (t cx cy px py : ℝ) :
    Gen.circleContainsPoint t cx cy px py = true ↔ Gen.haversine py px cy cx ≤ t := by
  simp [Gen.circleContainsPoint]

open Classical in
theorem newCircleHaversine_eq (m : ℝ) : Gen.newCircleHaversine m =
    if 0 < m then Gen.distanceToHaversine (Gen.normalizeDistance m) else 0 := by
  by_cases h : 0 < m <;> simp [Gen.newCircleHaversine, h]

theorem newCircleMeters_eq (m : ℝ) : Gen.newCircleMeters m = m := by
  simp [Gen.newCircleMeters]

/-! ### degrees ↔ radians -/

theorem R_pos : (0 : ℝ) < R := by norm_num

theorem mul_deg_le {x c : ℝ} (h : x ≤ c * rad) : x * deg ≤ c := by
  have hp := pi_pos
  rw [mul_div_assoc', div_le_iff₀ hp]
  have : c * rad * 180 = c * π := by field_simp
  nlinarith

theorem le_mul_deg {x c : ℝ} (h : c * rad ≤ x) : c ≤ x * deg := by
  have hp := pi_pos
  rw [mul_div_assoc', le_div_iff₀ hp]
  have : c * rad * 180 = c * π := by field_simp
  nlinarith

theorem mul_rad_mul_deg (x : ℝ) : x * rad * deg = x := by
  have := pi_ne_zero
  field_simp

theorem mul_rad_le {x c : ℝ} (h : x ≤ c) : x * rad ≤ c * rad :=
  mul_le_mul_of_nonneg_right h (by positivity)

/-- a latitude in [-90, 90] has a non-negative cosine -/
theorem cos_lat_nonneg {a : ℝ} (h : -90 ≤ a ∧ a ≤ 90) : 0 ≤ cos (a * rad) := by
  apply cos_nonneg_of_neg_pi_div_two_le_of_le
  · have := mul_rad_le h.1; linarith
  · have := mul_rad_le h.2; linarith

/-! ### `rmod` (Go's math.Mod over ℝ) -/

theorem truncZ_of_nonneg {x : ℝ} (h : 0 ≤ x) : truncZ x = ⌊x⌋ := by simp [truncZ, h]
theorem truncZ_of_neg {x : ℝ} (h : x < 0) : truncZ x = ⌈x⌉ := by simp [truncZ, not_le.2 h]

theorem truncZ_intCast (k : ℤ) : truncZ (k : ℝ) = k := by
  unfold truncZ; split_ifs <;> simp

theorem rmod_eq_sub_int_mul (x y : ℝ) : ∃ k : ℤ, rmod x y = x - y * k := ⟨_, rfl⟩

theorem rmod_of_nonneg {x y : ℝ} (hy : 0 < y) (hx : 0 ≤ x) : 0 ≤ rmod x y ∧ rmod x y < y := by
  unfold rmod
  rw [truncZ_of_nonneg (div_nonneg hx hy.le)]
  have h1 := Int.floor_le (x / y)
  have h2 := Int.lt_floor_add_one (x / y)
  have e : x - y * (⌊x / y⌋ : ℝ) = y * (x / y - ⌊x / y⌋) := by field_simp
  rw [e]
  constructor
  · exact mul_nonneg hy.le (by linarith)
  · nlinarith

theorem rmod_of_neg {x y : ℝ} (hy : 0 < y) (hx : x < 0) : -y < rmod x y ∧ rmod x y ≤ 0 := by
  unfold rmod
  rw [truncZ_of_neg (div_neg_of_neg_of_pos hx hy)]
  have h1 := Int.le_ceil (x / y)
  have h2 := Int.ceil_lt_add_one (x / y)
  have e : x - y * (⌈x / y⌉ : ℝ) = y * (x / y - ⌈x / y⌉) := by field_simp
  rw [e]
  constructor
  · nlinarith
  · exact mul_nonpos_of_nonneg_of_nonpos hy.le (by linarith)

theorem rmod_abs_lt {x y : ℝ} (hy : 0 < y) : |rmod x y| < y := by
  rw [abs_lt]
  rcases le_or_gt 0 x with hx | hx
  · have := rmod_of_nonneg hy hx; constructor <;> linarith
  · have := rmod_of_neg hy hx; constructor <;> linarith

theorem rmod_of_abs_lt {x y : ℝ} (hy : 0 < y) (h : |x| < y) : rmod x y = x := by
  rw [abs_lt] at h
  unfold rmod
  have h1 : -1 < x / y := by rw [lt_div_iff₀ hy]; linarith
  have h2 : x / y < 1 := by rw [div_lt_iff₀ hy]; linarith
  have : truncZ (x / y) = 0 := by
    unfold truncZ
    split_ifs with h0
    · exact Int.floor_eq_zero_iff.2 ⟨h0, h2⟩
    · exact Int.ceil_eq_zero_iff.2 ⟨h1, (not_le.1 h0).le⟩
  simp [this]

theorem rmod_idem {x y : ℝ} (hy : 0 < y) : rmod (rmod x y) y = rmod x y :=
  rmod_of_abs_lt hy (rmod_abs_lt hy)

/-! ### the haversine formula -/

theorem hav_nonneg {φ1 φ2 x y : ℝ} (h1 : 0 ≤ cos φ1) (h2 : 0 ≤ cos φ2) :
    0 ≤ sin y ^ 2 + cos φ1 * cos φ2 * sin x ^ 2 :=
  add_nonneg (sq_nonneg _) (mul_nonneg (mul_nonneg h1 h2) (sq_nonneg _))

theorem hav_le_one {φ1 φ2 x : ℝ} (h1 : 0 ≤ cos φ1) (h2 : 0 ≤ cos φ2) :
    sin ((φ2 - φ1) / 2) ^ 2 + cos φ1 * cos φ2 * sin x ^ 2 ≤ 1 := by
  have e1 : sin ((φ2 - φ1) / 2) ^ 2 = 1 / 2 - cos (φ2 - φ1) / 2 := by
    rw [sin_sq_eq_half_sub]; congr 2; ring_nf
  have e2 := cos_sub φ2 φ1
  have e3 := cos_add φ2 φ1
  have e4 := cos_le_one (φ2 + φ1)
  have e5 : sin x ^ 2 ≤ 1 := sin_sq_le_one x
  have e6 : cos φ1 * cos φ2 * sin x ^ 2 ≤ cos φ1 * cos φ2 := by
    have := mul_nonneg h1 h2; nlinarith
  nlinarith

/-- half the angular distance lies in [0, π/2] when the distance lies in [0, πR] -/
theorem half_angle_mem {m : ℝ} (h : 0 ≤ m ∧ m ≤ π * R) : 0 ≤ m / (2 * R) ∧ m / (2 * R) ≤ π / 2 := by
  constructor
  · exact div_nonneg h.1 (by norm_num)
  · rw [div_le_iff₀ (by norm_num)]; linarith [h.2]

/-! ### the adjustment stages of RectFromCenter -/

theorem rectS2_fst (p : ℝ × ℝ × ℝ × ℝ) : (rectS2 p).1 = p.1 := by
  unfold rectS2; split_ifs <;> rfl
theorem rectS2_maxLat_le (p : ℝ × ℝ × ℝ × ℝ) : (rectS2 p).2.2.1 ≤ π / 2 := by
  unfold rectS2; split_ifs with h
  · exact le_refl _
  · exact not_lt.1 h
theorem rectS2_maxLat_eq (p : ℝ × ℝ × ℝ × ℝ) : (rectS2 p).2.2.1 = min p.2.2.1 (π / 2) := by
  unfold rectS2; split_ifs with h
  · exact (min_eq_right h.le).symm
  · exact (min_eq_left (not_lt.1 h)).symm
theorem rectS3_maxLat (p : ℝ × ℝ × ℝ × ℝ) : (rectS3 p).2.2.1 = p.2.2.1 := by
  unfold rectS3; split_ifs <;> rfl
theorem rectS3_fst_ge (p : ℝ × ℝ × ℝ × ℝ) : -π / 2 ≤ (rectS3 p).1 := by
  unfold rectS3; split_ifs with h
  · exact le_refl _
  · exact not_lt.1 h
theorem rectS3_fst_eq (p : ℝ × ℝ × ℝ × ℝ) : (rectS3 p).1 = max p.1 (-π / 2) := by
  unfold rectS3; split_ifs with h
  · exact (max_eq_right h.le).symm
  · exact (max_eq_left (not_lt.1 h)).symm
theorem rectS4_fst (p : ℝ × ℝ × ℝ × ℝ) : (rectS4 p).1 = p.1 := by
  unfold rectS4; split_ifs <;> rfl
theorem rectS4_maxLat (p : ℝ × ℝ × ℝ × ℝ) : (rectS4 p).2.2.1 = p.2.2.1 := by
  unfold rectS4; split_ifs <;> rfl
theorem rectS4_lon (p : ℝ × ℝ × ℝ × ℝ) : -π ≤ (rectS4 p).2.1 ∧ (rectS4 p).2.2.2 ≤ π := by
  unfold rectS4; split_ifs with h
  · exact ⟨le_refl _, le_refl _⟩
  · rw [not_or, not_lt, not_lt] at h; exact h

/-- minLat / maxLat of the result, in radians: the raw values clamped at the poles -/
theorem rectAdj_fst (p : ℝ × ℝ × ℝ × ℝ) : (rectS4 (rectS3 (rectS2 p))).1 = max p.1 (-π / 2) := by
  rw [rectS4_fst, rectS3_fst_eq, rectS2_fst]
theorem rectAdj_maxLat (p : ℝ × ℝ × ℝ × ℝ) :
    (rectS4 (rectS3 (rectS2 p))).2.2.1 = min p.2.2.1 (π / 2) := by
  rw [rectS4_maxLat, rectS3_maxLat, rectS2_maxLat_eq]

set_option linter.unnecessarySeqFocus false in
/-- a pole adjustment widens the longitudes to the full range -/
theorem rectAdj_full_of_pole (p : ℝ × ℝ × ℝ × ℝ) (h : π / 2 < p.2.2.1 ∨ p.1 < -π / 2) :
    (rectS4 (rectS3 (rectS2 p))).2.1 = -π ∧ (rectS4 (rectS3 (rectS2 p))).2.2.2 = π := by
  obtain ⟨a, b, c, d⟩ := p
  simp only at h
  by_cases h2 : π / 2 < c <;> by_cases h3 : a < -π / 2 <;>
    simp [rectS2, rectS3, rectS4, h2, h3] <;> simp_all

/-- a longitude interval leaving [-π, π] is widened to the full range -/
theorem rectAdj_full_of_wrap (p : ℝ × ℝ × ℝ × ℝ) (h : p.2.1 < -π ∨ π < p.2.2.2) :
    (rectS4 (rectS3 (rectS2 p))).2.1 = -π ∧ (rectS4 (rectS3 (rectS2 p))).2.2.2 = π := by
  obtain ⟨a, b, c, d⟩ := p
  simp only at h
  by_cases h2 : π / 2 < c <;> by_cases h3 : a < -π / 2 <;>
    simp [rectS2, rectS3, rectS4, h2, h3, h]

/-- no adjustment applies to a rectangle inside the valid ranges -/
theorem rectAdj_id (p : ℝ × ℝ × ℝ × ℝ) (h1 : p.2.2.1 ≤ π / 2) (h2 : -π / 2 ≤ p.1)
    (h3 : -π ≤ p.2.1) (h4 : p.2.2.2 ≤ π) : rectS4 (rectS3 (rectS2 p)) = p := by
  obtain ⟨a, b, c, d⟩ := p
  simp only at h1 h2 h3 h4
  simp [rectS2, rectS3, rectS4, not_lt.2 h1, not_lt.2 h2, not_lt.2 h3, not_lt.2 h4]

/-! ### distance dominates the latitude difference -/

theorem arcsin_abs_sin {x : ℝ} (h : |x| ≤ π / 2) : arcsin |sin x| = |x| := by
  rw [abs_le] at h
  rcases le_total 0 x with hx | hx
  · rw [abs_of_nonneg hx, abs_of_nonneg (sin_nonneg_of_nonneg_of_le_pi hx (by linarith [pi_pos])),
      arcsin_sin (by linarith) h.2]
  · rw [abs_of_nonpos hx, abs_of_nonpos (sin_nonpos_of_nonpos_of_neg_pi_le hx (by linarith [pi_pos])),
      ← sin_neg, arcsin_sin (by linarith) (by linarith)]

/-- `2 · arcsin √h ≥ |Δφ|` when `h ≥ sin²(Δφ/2)` and `|Δφ| ≤ π` -/
theorem abs_le_two_arcsin_sqrt {x h : ℝ} (hx : |x| ≤ π / 2) (hh : sin x ^ 2 ≤ h) :
    |x| ≤ arcsin (√h) := by
  rw [← arcsin_abs_sin hx, ← sqrt_sq_eq_abs]
  exact monotone_arcsin (sqrt_le_sqrt hh)

theorem mul_deg_mul_rad (x : ℝ) : x * deg * rad = x := by
  have := pi_ne_zero
  field_simp

/-! ### DestinationPoint: the destination is at the requested angular distance -/

/-- Spherical law of cosines for the destination formulas: with `φ2 = arcsin (…)` and
    `Δλ = atan2 (…) (…) + 2πk`, the haversine of (φ1, ·) → (φ2, · + Δλ) is `sin²(δ/2)`.
    Needs `cos φ1 ≥ 0` (a latitude). -/
theorem dest_haversine (φ1 δ θ : ℝ) (hc : 0 ≤ cos φ1) (k : ℤ) :
    sin ((arcsin (sin φ1 * cos δ + cos φ1 * sin δ * cos θ) - φ1) / 2) ^ 2
      + cos φ1 * cos (arcsin (sin φ1 * cos δ + cos φ1 * sin δ * cos θ))
        * sin ((ratan2 (sin θ * sin δ * cos φ1)
            (cos δ - sin φ1 * sin (arcsin (sin φ1 * cos δ + cos φ1 * sin δ * cos θ)))
              + (k : ℝ) * (2 * π)) / 2) ^ 2
      = sin (δ / 2) ^ 2 := by
  set S := sin φ1 * cos δ + cos φ1 * sin δ * cos θ with hS
  have h1 := sin_sq_add_cos_sq φ1
  have hδ := sin_sq_add_cos_sq δ
  have hθ := sin_sq_add_cos_sq θ
  have hid : 1 - S ^ 2 = (cos δ * cos φ1 - sin φ1 * sin δ * cos θ) ^ 2 + (sin δ * sin θ) ^ 2 := by
    rw [hS]
    linear_combination (-1 : ℝ) * hδ - sin δ ^ 2 * hθ - (cos δ ^ 2 + sin δ ^ 2 * cos θ ^ 2) * h1
  have hS2 : S ^ 2 ≤ 1 := by nlinarith [sq_nonneg (cos δ * cos φ1 - sin φ1 * sin δ * cos θ), sq_nonneg (sin δ * sin θ)]
  have hSabs : -1 ≤ S ∧ S ≤ 1 := by
    have := abs_le.1 ((sq_le_one_iff_abs_le_one S).1 hS2); exact this
  have hsin : sin (arcsin S) = S := sin_arcsin hSabs.1 hSabs.2
  have hc2 : 0 ≤ cos (arcsin S) := cos_arcsin_nonneg S
  have hc2sq : cos (arcsin S) ^ 2 = 1 - S ^ 2 := by
    rw [cos_arcsin, sq_sqrt (by linarith)]
  rw [hsin]
  set x := cos δ - sin φ1 * S with hx
  set y := sin θ * sin δ * cos φ1 with hy
  -- norm of x + iy
  have hnorm : ‖(⟨x, y⟩ : ℂ)‖ = cos φ1 * cos (arcsin S) := by
    rw [← sq_eq_sq₀ (norm_nonneg _) (mul_nonneg hc hc2), Complex.sq_norm, Complex.normSq_mk, mul_pow, hc2sq, hid,
      hx, hy, hS]
    linear_combination (-(cos δ) * (cos δ - sin φ1 * (sin φ1 * cos δ + cos φ1 * sin δ * cos θ) + cos φ1 * (cos δ * cos φ1 - sin φ1 * sin δ * cos θ))) * h1
  have hcos : cos φ1 * cos (arcsin S) * cos (ratan2 y x) = x := by
    rw [← hnorm, ratan2]; exact Complex.norm_mul_cos_arg _
  rw [sin_sq_eq_half_sub, sin_sq_eq_half_sub, sin_sq_eq_half_sub]
  rw [show 2 * ((arcsin S - φ1) / 2) = arcsin S - φ1 by ring,
    show 2 * ((ratan2 y x + (k : ℝ) * (2 * π)) / 2) = ratan2 y x + (k : ℝ) * (2 * π) by ring,
    show 2 * (δ / 2) = δ by ring, cos_add_int_mul_two_pi, cos_sub, hsin]
  linear_combination (-1 / 2 : ℝ) * hcos

end Geo
