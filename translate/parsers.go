package main

// translate parsers <repo>: syntactic translation of the JSON parsers of the root package
// (Parse, parseJSON, parseJSON<Kind>…, parseBBoxAndExtras, toGeometryOpts,
// (*collection).parseInitRectIndex) into Lean (GeoModel/Generated/ParseGen.lean, namespace
// Geo.PGen).  The source is type-checked (go/packages), so every choice below is made from the
// static type of the expression at hand, never from the text of a particular function.
// What is not recognised becomes `opaque <name>_unrecognised : Unit` plus the reason.

import (
	"fmt"
	"go/ast"
	"go/constant"
	"go/token"
	"go/types"
	"os"
	"regexp"
	"sort"
	"strings"

	"golang.org/x/tools/go/packages"
)

func init() { translators["parsers"] = translateParsers }

// the functions translated: by name, everything else they call becomes a field of Ops
var pjTargetRe = regexp.MustCompile(`^(Parse|parse[A-Z][A-Za-z0-9]*|toGeometryOpts)$`)

type pjOp struct {
	name, ty, doc string
}

type pjStruct struct {
	goName, lean string
	named        *types.Named
	fields       []string // lean field names
	ftys         []string // lean field types
	gtys         []types.Type
	params       []string // abstract type parameters it mentions, sorted
	pos          string
}

type pjFunc struct {
	obj       *types.Func
	decl      *ast.FuncDecl
	name      string
	inout     []*types.Var // pointer parameters (receiver first) written through
	fuel      bool         // has a loop without condition: takes `fuel : Nat`, result is an Option
	inClosure int
	aux       [][]string // lifted function literals / loop bodies, in order of completion
	resTy     string
	lines     []string
	comment   string
	err       error
	done      bool
}

type pjPkg struct {
	repo            string
	pkg             *packages.Package
	info            *types.Info
	fset            *token.FileSet
	ops             map[string]*pjOp
	tparams         map[string]string // abstract type parameter ↦ doc
	structs         map[string]*pjStruct
	sorder          []string
	structural      map[*types.Named]bool
	errs            map[string]string // Err constructor ↦ doc
	errArgs         map[string]int
	funcs           map[*types.Func]*pjFunc
	order           []*pjFunc
	stack           []*pjFunc
	pvars           map[string][]string // generated package-variable defs: name ↦ lines
	pvorder         []string
	decls           map[*types.Func]*ast.FuncDecl
	assignedPkgVars map[types.Object]bool
	cur             *pjFunc
	tmp             int
	srcs            map[string][]byte
}

func pjLower(s string) string {
	if s == "" {
		return s
	}
	return strings.ToLower(s[:1]) + s[1:]
}

func pjUpper(s string) string {
	if s == "" {
		return s
	}
	return strings.ToUpper(s[:1]) + s[1:]
}

var pjReserved = map[string]bool{"in": true, "at": true, "end": true, "type": true, "from": true, "to": true, "fun": true,
	"let": true, "if": true, "then": true, "else": true, "match": true, "with": true, "do": true, "open": true, "def": true,
	"ops": true, "Ops": true, "fuel": true, "some": true, "none": true, "deref": true, "Flow": true, "Exit": true, "Err": true,
	"at_": true, "instance": true, "structure": true, "where": true, "show": true, "have": true, "by": true, "import": true,
	"namespace": true, "section": true, "variable": true, "theorem": true, "example": true, "return": true, "for": true,
	"mut": true, "prefix": true, "infix": true, "notation": true, "macro": true, "syntax": true, "opaque": true, "axiom": true}

func pjIdent(s string) string {
	if pjReserved[s] {
		return s + "_"
	}
	return s
}

func (p *pjPkg) pos(n ast.Node) string { return p.posP(n.Pos()) }

func (p *pjPkg) posP(q token.Pos) string {
	pp := p.fset.Position(q)
	f := pp.Filename
	if i := strings.Index(f, "/pkg/mod/"); i >= 0 {
		f = f[i+9:]
	}
	if strings.HasPrefix(f, strings.TrimSuffix(p.repo, "/")+"/") {
		f = strings.TrimPrefix(f, strings.TrimSuffix(p.repo, "/")+"/")
	} else if i := strings.LastIndex(f, "/src/"); i >= 0 && !strings.Contains(f, "@") {
		f = f[i+5:]
	}
	return fmt.Sprintf("%s:%d", f, pp.Line)
}

func (p *pjPkg) errf(n ast.Node, format string, args ...interface{}) error {
	return fmt.Errorf("%s: %s", p.pos(n), fmt.Sprintf(format, args...))
}

func (p *pjPkg) srcText(a, b token.Pos) string {
	pa, pb := p.fset.Position(a), p.fset.Position(b)
	src, ok := p.srcs[pa.Filename]
	if !ok {
		src, _ = os.ReadFile(pa.Filename)
		p.srcs[pa.Filename] = src
	}
	if pa.Offset < 0 || pb.Offset > len(src) || pa.Offset >= pb.Offset {
		return "?"
	}
	return strings.Join(strings.Fields(string(src[pa.Offset:pb.Offset])), " ")
}

func (p *pjPkg) useOp(name, ty, doc string) string {
	if o, ok := p.ops[name]; ok {
		if o.ty != ty {
			// the same callee used at two different types: keep both, the second under a suffixed name
			for i := 2; ; i++ {
				n2 := fmt.Sprintf("%s_%d", name, i)
				if o2, ok := p.ops[n2]; !ok {
					p.ops[n2] = &pjOp{n2, ty, doc}
					return "ops." + n2
				} else if o2.ty == ty {
					return "ops." + n2
				}
			}
		}
		return "ops." + name
	}
	p.ops[name] = &pjOp{name, ty, doc}
	return "ops." + name
}

func (p *pjPkg) useTParam(name, doc string) string {
	if _, ok := p.tparams[name]; !ok {
		p.tparams[name] = doc
	}
	return name
}

func (p *pjPkg) local(pk *types.Package) bool { return pk != nil && pk == p.pkg.Types }

// name of an abstract type parameter for a named type
func (p *pjPkg) absName(n *types.Named) string {
	o := n.Obj()
	if p.local(o.Pkg()) || o.Pkg() == nil {
		return pjUpper(o.Name())
	}
	return pjUpper(o.Pkg().Name()) + pjUpper(o.Name())
}

func pjAtomTy(s string) string {
	if strings.ContainsAny(s, " ×") && !(strings.HasPrefix(s, "(") && pjBalanced(s[1:len(s)-1])) {
		return "(" + s + ")"
	}
	return s
}

func pjBalanced(s string) bool {
	d := 0
	for _, c := range s {
		switch c {
		case '(':
			d++
		case ')':
			d--
			if d < 0 {
				return false
			}
		}
	}
	return d == 0
}

func pjAtom(s string) string {
	if s == "" {
		return s
	}
	if strings.HasPrefix(s, "(") && strings.HasSuffix(s, ")") && pjBalanced(s[1:len(s)-1]) {
		return s
	}
	if strings.HasPrefix(s, "[") && strings.HasSuffix(s, "]") {
		return s
	}
	if strings.ContainsAny(s, " -") {
		return "(" + s + ")"
	}
	return s
}

// ---------------------------------------------------------------- types

func pjIsByteSlice(t types.Type) bool {
	if s, ok := t.Underlying().(*types.Slice); ok {
		if b, ok := s.Elem().Underlying().(*types.Basic); ok && b.Kind() == types.Uint8 {
			return true
		}
	}
	return false
}

func pjIsError(t types.Type) bool {
	n, ok := t.(*types.Named)
	return ok && n.Obj().Pkg() == nil && n.Obj().Name() == "error"
}

func pjIsEmptyIface(t types.Type) bool {
	i, ok := t.Underlying().(*types.Interface)
	return ok && i.NumMethods() == 0 && !pjIsError(t)
}

// leanType: the Lean type of a Go type.
func (p *pjPkg) leanType(t types.Type) (string, error) {
	switch u := t.(type) {
	case *types.Basic:
		switch u.Kind() {
		case types.Bool, types.UntypedBool:
			return "Bool", nil
		case types.Int, types.UntypedInt:
			return "Int", nil
		case types.Uint8, types.UntypedRune:
			return "UInt8", nil
		case types.Float64, types.UntypedFloat:
			return p.useTParam("F", "float64"), nil
		case types.String, types.UntypedString:
			return p.useTParam("Str", "string"), nil
		}
		return "", fmt.Errorf("basic type %s", u)
	case *types.Alias:
		return p.leanType(types.Unalias(u))
	case *types.Named:
		if pjIsError(u) {
			p.useTParam("Str", "string")
			return "(Option (Err Str))", nil
		}
		if p.local(u.Obj().Pkg()) && p.structural[u] {
			s, err := p.structOf(u)
			if err != nil {
				return "", err
			}
			return s.ref(), nil
		}
		doc := "the type " + u.Obj().Name()
		if u.Obj().Pkg() != nil {
			doc = fmt.Sprintf("Go: `type %s.%s` — %s", u.Obj().Pkg().Name(), u.Obj().Name(), p.posP(u.Obj().Pos()))
		}
		if _, ok := u.Underlying().(*types.Interface); ok {
			doc += " (an interface: nil ↦ the Ops field nil" + p.absName(u) + ")"
		}
		return p.useTParam(p.absName(u), doc), nil
	case *types.Pointer:
		e, err := p.leanType(u.Elem())
		if err != nil {
			return "", err
		}
		return "(Option " + pjAtomTy(e) + ")", nil
	case *types.Slice:
		if pjIsByteSlice(u) {
			return p.useTParam("Bytes", "[]byte"), nil
		}
		e, err := p.leanType(u.Elem())
		if err != nil {
			return "", err
		}
		return "(List " + pjAtomTy(e) + ")", nil
	case *types.Array:
		e, err := p.leanType(u.Elem())
		if err != nil {
			return "", err
		}
		return "(List " + pjAtomTy(e) + ")", nil
	case *types.Tuple:
		var parts []string
		for i := 0; i < u.Len(); i++ {
			e, err := p.leanType(u.At(i).Type())
			if err != nil {
				return "", err
			}
			parts = append(parts, e)
		}
		return pjProdTy(parts), nil
	}
	return "", fmt.Errorf("type %s", t)
}

func pjProdTy(parts []string) string {
	if len(parts) == 0 {
		return "Unit"
	}
	if len(parts) == 1 {
		return parts[0]
	}
	return "(" + strings.Join(parts, " × ") + ")"
}

func (s *pjStruct) ref() string {
	if len(s.params) == 0 {
		return s.lean
	}
	return "(" + s.lean + " " + strings.Join(s.params, " ") + ")"
}

var pjTyWord = regexp.MustCompile(`[A-Za-z_][A-Za-z0-9_]*`)

// structOf: a struct type of the package, regenerated as a Lean structure with the same fields
func (p *pjPkg) structOf(n *types.Named) (*pjStruct, error) {
	name := pjUpper(n.Obj().Name())
	if s, ok := p.structs[name]; ok {
		if s.named != n {
			return nil, fmt.Errorf("two struct types named %s", name)
		}
		return s, nil
	}
	st, ok := n.Underlying().(*types.Struct)
	if !ok {
		return nil, fmt.Errorf("%s is not a struct", name)
	}
	s := &pjStruct{goName: n.Obj().Name(), lean: name, named: n, pos: p.posP(n.Obj().Pos())}
	p.structs[name] = s
	set := map[string]bool{}
	for i := 0; i < st.NumFields(); i++ {
		f := st.Field(i)
		ty, err := p.leanType(f.Type())
		if err != nil {
			return nil, fmt.Errorf("field %s.%s: %v", name, f.Name(), err)
		}
		s.fields = append(s.fields, pjIdent(pjLower(f.Name())))
		s.ftys = append(s.ftys, ty)
		s.gtys = append(s.gtys, f.Type())
		for _, w := range pjTyWord.FindAllString(ty, -1) {
			if _, ok := p.tparams[w]; ok {
				set[w] = true
			}
		}
		// parameters of nested structures are already spelled out in ty
	}
	for w := range set {
		s.params = append(s.params, w)
	}
	sort.Strings(s.params)
	p.sorder = append(p.sorder, name)
	return s, nil
}

// zeroOf: the zero value of a Go type
func (p *pjPkg) zeroOf(t types.Type) (string, error) {
	lt, err := p.leanType(t)
	if err != nil {
		return "", err
	}
	switch u := t.(type) {
	case *types.Basic:
		switch u.Kind() {
		case types.Bool:
			return "false", nil
		case types.Int:
			return "(0 : Int)", nil
		case types.Uint8:
			return "(0 : UInt8)", nil
		case types.Float64:
			return "(" + p.useOp("f64OfInt", "Int → F", "the conversion of an integer constant to float64 (also the zero value 0)") + " 0)", nil
		case types.String:
			return "(" + p.useOp("strLit", "String → Str", "a string constant") + " \"\")", nil
		}
	case *types.Alias:
		return p.zeroOf(types.Unalias(u))
	case *types.Named:
		if pjIsError(u) {
			return "(none : " + lt + ")", nil
		}
		if p.local(u.Obj().Pkg()) && p.structural[u] {
			s, err := p.structOf(u)
			if err != nil {
				return "", err
			}
			return "(zero" + s.lean + " ops)", nil
		}
		if _, ok := u.Underlying().(*types.Interface); ok {
			return p.useOp("nil"+p.absName(u), lt, "the nil value of interface type "+u.Obj().Name()), nil
		}
		return p.useOp("zero"+p.absName(u), lt, "the zero value of "+u.String()), nil
	case *types.Pointer:
		return "(none : " + lt + ")", nil
	case *types.Slice:
		if pjIsByteSlice(u) {
			return p.useOp("nilBytes", "Bytes", "the nil []byte"), nil
		}
		return "([] : " + lt + ")", nil
	case *types.Array:
		z, err := p.zeroOf(u.Elem())
		if err != nil {
			return "", err
		}
		return fmt.Sprintf("(List.replicate %d %s)", u.Len(), z), nil
	}
	return "", fmt.Errorf("zero value of %s", t)
}

// ---------------------------------------------------------------- environment

type pjEnv struct {
	names map[types.Object]string
	inout map[types.Object]bool // pointer parameters modelled by their pointee (written through)
}

func (e *pjEnv) copy() *pjEnv {
	n := &pjEnv{names: map[types.Object]string{}, inout: e.inout}
	for k, v := range e.names {
		n.names[k] = v
	}
	return n
}

// declare: a Lean name for a new variable: the Go name, suffixed when another live variable has it
func (e *pjEnv) declare(o types.Object) string {
	base := pjIdent(o.Name())
	if base == "_" {
		return "_"
	}
	name := base
	for i := 1; ; i++ {
		clash := false
		for k, v := range e.names {
			if v == name && k != o {
				clash = true
			}
		}
		if !clash {
			break
		}
		name = fmt.Sprintf("%s_%d", base, i)
	}
	e.names[o] = name
	return name
}

// dropScope: forget the variables declared inside node n (their Go scope has ended)
func (e *pjEnv) dropScope(n ast.Node) {
	for k := range e.names {
		if k.Pos() >= n.Pos() && k.Pos() < n.End() {
			delete(e.names, k)
		}
	}
}

func (p *pjPkg) fresh(base string) string {
	p.tmp++
	return fmt.Sprintf("%s%d'", base, p.tmp)
}

// ---------------------------------------------------------------- expressions

func (p *pjPkg) typeOf(e ast.Expr) types.Type { return p.info.TypeOf(e) }

func pjDeref(t types.Type) (types.Type, bool) {
	if q, ok := t.Underlying().(*types.Pointer); ok {
		return q.Elem(), true
	}
	return t, false
}

func (p *pjPkg) derefExpr(v string, elem types.Type) (string, error) {
	z, err := p.zeroOf(elem)
	if err != nil {
		return "", err
	}
	return "(deref " + z + " " + pjAtom(v) + ")", nil
}

// constant: a Go constant expression (go/types has folded it) at its final type
func (p *pjPkg) constant(e ast.Expr, tv types.TypeAndValue) (string, error) {
	t := tv.Type
	b, ok := t.Underlying().(*types.Basic)
	if !ok {
		return "", p.errf(e, "constant of type %s", t)
	}
	if _, named := t.(*types.Named); named {
		// a constant of a named type (gjson.Number, geometry.QuadTree): an Ops field
		return "", nil
	}
	switch b.Kind() {
	case types.Bool, types.UntypedBool:
		if constant.BoolVal(tv.Value) {
			return "true", nil
		}
		return "false", nil
	case types.Int, types.UntypedInt:
		s := tv.Value.ExactString()
		if strings.HasPrefix(s, "-") {
			return "(" + s + " : Int)", nil
		}
		return "(" + s + " : Int)", nil
	case types.Uint8, types.UntypedRune:
		return "(" + tv.Value.ExactString() + " : UInt8)", nil
	case types.Float64, types.UntypedFloat:
		if v := constant.ToInt(tv.Value); v.Kind() == constant.Int {
			return "(" + p.useOp("f64OfInt", "Int → F", "the conversion of an integer constant to float64 (also the zero value 0)") + " (" + v.ExactString() + "))", nil
		}
		return "(" + p.useOp("f64Lit", "String → F", "a float64 constant, by its exact value") + " \"" + tv.Value.ExactString() + "\")", nil
	case types.String, types.UntypedString:
		return "(" + p.useOp("strLit", "String → Str", "a string constant") + " " + pjLeanString(constant.StringVal(tv.Value)) + ")", nil
	}
	return "", p.errf(e, "constant of type %s", t)
}

func pjLeanString(s string) string {
	var b strings.Builder
	b.WriteByte('"')
	for _, c := range s {
		switch {
		case c == '"':
			b.WriteString("\\\"")
		case c == '\\':
			b.WriteString("\\\\")
		case c == '\n':
			b.WriteString("\\n")
		case c == '\t':
			b.WriteString("\\t")
		case c == '\r':
			b.WriteString("\\r")
		case c < 32 || c == 127:
			fmt.Fprintf(&b, "\\x%02x", c)
		default:
			b.WriteRune(c)
		}
	}
	b.WriteByte('"')
	return b.String()
}

// coerce: the implicit conversions of assignment (concrete pointer ↦ interface)
func (p *pjPkg) coerce(n ast.Node, v string, from, to types.Type) (string, error) {
	if from == nil || to == nil || types.Identical(from, to) {
		return v, nil
	}
	if b, ok := from.(*types.Basic); ok && (b.Info()&types.IsUntyped != 0) {
		if b.Kind() == types.UntypedNil {
			z, err := p.zeroOf(to)
			if err != nil {
				return "", p.errf(n, "%v", err)
			}
			return z, nil
		}
		return v, nil
	}
	if _, ok := to.Underlying().(*types.Interface); ok && !pjIsError(to) {
		if _, ok := from.Underlying().(*types.Interface); ok {
			if pjIsEmptyIface(to) {
				return v, nil
			}
			return "", p.errf(n, "conversion between interfaces %s → %s", from, to)
		}
		toN, ok := to.(*types.Named)
		if !ok {
			return "", p.errf(n, "conversion to %s", to)
		}
		el, isPtr := pjDeref(from)
		elN, ok := el.(*types.Named)
		if !ok {
			return "", p.errf(n, "conversion %s → %s", from, to)
		}
		lt, err := p.leanType(el)
		if err != nil {
			return "", err
		}
		to_, err := p.leanType(to)
		if err != nil {
			return "", err
		}
		op := p.useOp(pjLower(p.absName(toN))+"Of"+p.absName(elN), lt+" → "+to_,
			fmt.Sprintf("the conversion of a %s to the interface %s (its dynamic type is %s)", from, toN.Obj().Name(), from))
		if isPtr {
			if strings.HasPrefix(v, "(some ") {
				v = strings.TrimSuffix(strings.TrimPrefix(v, "(some "), ")")
			} else if v, err = p.derefExpr(v, el); err != nil {
				return "", err
			}
		}
		return "(" + op + " " + pjAtom(v) + ")", nil
	}
	return v, nil
}

// fieldStep: field number idx of the struct value v : t (a pointer is dereferenced first)
func (p *pjPkg) fieldStep(n ast.Node, v string, t types.Type, idx int) (string, types.Type, error) {
	if el, isPtr := pjDeref(t); isPtr {
		d, err := p.derefExpr(v, el)
		if err != nil {
			return "", nil, err
		}
		v, t = d, el
	}
	st, ok := t.Underlying().(*types.Struct)
	if !ok {
		return "", nil, p.errf(n, "field of non-struct %s", t)
	}
	f := st.Field(idx)
	named, _ := t.(*types.Named)
	if named == nil {
		return "", nil, p.errf(n, "field of unnamed struct")
	}
	if p.local(named.Obj().Pkg()) && p.structural[named] {
		s, err := p.structOf(named)
		if err != nil {
			return "", nil, err
		}
		return pjAtom(v) + "." + s.fields[idx], f.Type(), nil
	}
	lt, err := p.leanType(t)
	if err != nil {
		return "", nil, err
	}
	ft, err := p.leanType(f.Type())
	if err != nil {
		return "", nil, err
	}
	op := p.useOp(pjLower(p.absName(named))+pjUpper(f.Name()), lt+" → "+ft,
		fmt.Sprintf("field %s of %s — %s", f.Name(), named.Obj().Name(), p.posP(f.Pos())))
	return "(" + op + " " + pjAtom(v) + ")", f.Type(), nil
}

// base of a selector / star: an in-out pointer parameter stands for its pointee
func (p *pjPkg) baseValue(e ast.Expr, env *pjEnv) (string, types.Type, error) {
	e = ast.Unparen(e)
	if id, ok := e.(*ast.Ident); ok {
		if o := p.info.Uses[id]; o != nil && env.inout[o] {
			el, _ := pjDeref(o.Type())
			return env.names[o], el, nil
		}
	}
	if st, ok := e.(*ast.StarExpr); ok {
		if id, ok := ast.Unparen(st.X).(*ast.Ident); ok {
			if o := p.info.Uses[id]; o != nil && env.inout[o] {
				el, _ := pjDeref(o.Type())
				return env.names[o], el, nil
			}
		}
	}
	v, err := p.expr(e, env)
	return v, p.typeOf(e), err
}

func (p *pjPkg) selector(e *ast.SelectorExpr, env *pjEnv) (string, error) {
	if sel, ok := p.info.Selections[e]; ok {
		if sel.Kind() != types.FieldVal {
			return "", p.errf(e, "method value %s", e.Sel.Name)
		}
		v, t, err := p.baseValue(e.X, env)
		if err != nil {
			return "", err
		}
		for _, idx := range sel.Index() {
			if v, t, err = p.fieldStep(e, v, t, idx); err != nil {
				return "", err
			}
		}
		return v, nil
	}
	// qualified identifier
	o := p.info.Uses[e.Sel]
	switch o := o.(type) {
	case *types.Const, *types.Var:
		lt, err := p.leanType(o.Type())
		if err != nil {
			return "", p.errf(e, "%v", err)
		}
		kind := "var"
		if _, ok := o.(*types.Const); ok {
			kind = "const"
			if _, named := o.Type().(*types.Named); !named {
				return p.constant(e, p.info.Types[e])
			}
		}
		return p.useOp(pjLower(o.Pkg().Name())+pjUpper(o.Name()), lt,
			fmt.Sprintf("Go: `%s %s.%s` — %s", kind, o.Pkg().Name(), o.Name(), p.posP(o.Pos()))), nil
	}
	return "", p.errf(e, "selector %s", e.Sel.Name)
}

func (p *pjPkg) ident(e *ast.Ident, env *pjEnv) (string, error) {
	o := p.info.Uses[e]
	if o == nil {
		o = p.info.Defs[e]
	}
	switch o := o.(type) {
	case *types.Nil:
		t := p.typeOf(e)
		if b, ok := t.(*types.Basic); ok && b.Kind() == types.UntypedNil {
			return "none", nil
		}
		return p.zeroOf(t)
	case *types.Const:
		if _, named := o.Type().(*types.Named); named {
			lt, err := p.leanType(o.Type())
			if err != nil {
				return "", p.errf(e, "%v", err)
			}
			return p.useOp(pjLower(o.Name()), lt, fmt.Sprintf("Go: `const %s` — %s", o.Name(), p.posP(o.Pos()))), nil
		}
		return p.constant(e, p.info.Types[e])
	case *types.Var:
		if n, ok := env.names[o]; ok {
			if env.inout[o] {
				return "", p.errf(e, "the pointer %s itself is used (it is written through, so it stands for its pointee)", o.Name())
			}
			return n, nil
		}
		if o.Parent() == p.pkg.Types.Scope() {
			return p.pkgVar(e, o)
		}
		return "", p.errf(e, "variable %s out of scope", o.Name())
	}
	return "", p.errf(e, "identifier %s", e.Name)
}

func (p *pjPkg) pkgVarInit(o *types.Var) ast.Expr {
	var init ast.Expr
	for _, f := range p.pkg.Syntax {
		for _, d := range f.Decls {
			g, ok := d.(*ast.GenDecl)
			if !ok || g.Tok != token.VAR {
				continue
			}
			for _, s := range g.Specs {
				vs := s.(*ast.ValueSpec)
				for i, n := range vs.Names {
					if p.info.Defs[n] == o && i < len(vs.Values) && len(vs.Values) == len(vs.Names) {
						init = vs.Values[i]
					}
				}
			}
		}
	}
	return init
}

// pkgVar: a package-level variable: an error value ↦ a constructor of Err; otherwise its
// initialiser is translated (it must never be assigned anywhere in the package)
func (p *pjPkg) pkgVar(e ast.Node, o *types.Var) (string, error) {
	if p.assignedPkgVars[o] {
		return "", p.errf(e, "package variable %s is assigned somewhere in the package", o.Name())
	}
	init := p.pkgVarInit(o)
	if init == nil {
		return "", p.errf(e, "package variable %s has no initialiser", o.Name())
	}
	if pjIsError(o.Type()) {
		c, ok := init.(*ast.CallExpr)
		if ok {
			if s, ok := c.Fun.(*ast.SelectorExpr); ok && len(c.Args) == 1 {
				if f, ok := p.info.Uses[s.Sel].(*types.Func); ok && f.Pkg().Path() == "errors" && f.Name() == "New" {
					if tv := p.info.Types[c.Args[0]]; tv.Value != nil {
						p.errs[o.Name()] = fmt.Sprintf("Go: `%s = errors.New(%s)` — %s", o.Name(), tv.Value.ExactString(), p.posP(o.Pos()))
						p.errArgs[o.Name()] = 0
						return "(some Err." + o.Name() + ")", nil
					}
				}
			}
		}
		return "", p.errf(e, "error variable %s is not errors.New(constant)", o.Name())
	}
	name := o.Name()
	if _, ok := p.pvars[name]; !ok {
		p.pvars[name] = nil
		lt, err := p.leanType(o.Type())
		if err != nil {
			return "", p.errf(e, "%v", err)
		}
		v, err := p.expr(init, &pjEnv{names: map[types.Object]string{}, inout: map[types.Object]bool{}})
		if err != nil {
			return "", err
		}
		p.pvars[name] = []string{
			fmt.Sprintf("/-- Go: `var %s = %s` — %s (never assigned in the package: checked) -/", name, p.srcText(init.Pos(), init.End()), p.posP(o.Pos())),
			fmt.Sprintf("def %s%s : %s :=", name, "{{SIG}}", lt), "  " + v}
		p.pvorder = append(p.pvorder, name)
	}
	return "(" + name + " ops)", nil
}

func (p *pjPkg) expr(e ast.Expr, env *pjEnv) (string, error) {
	if tv, ok := p.info.Types[e]; ok && tv.Value != nil {
		if _, isIdent := ast.Unparen(e).(*ast.Ident); !isIdent {
			if _, isSel := ast.Unparen(e).(*ast.SelectorExpr); !isSel {
				if s, err := p.constant(e, tv); err != nil || s != "" {
					return s, err
				}
			}
		}
	}
	switch e := e.(type) {
	case *ast.ParenExpr:
		return p.expr(e.X, env)
	case *ast.Ident:
		return p.ident(e, env)
	case *ast.BasicLit:
		return p.constant(e, p.info.Types[e])
	case *ast.SelectorExpr:
		return p.selector(e, env)
	case *ast.StarExpr:
		if id, ok := ast.Unparen(e.X).(*ast.Ident); ok {
			if o := p.info.Uses[id]; o != nil && env.inout[o] { // it already stands for its pointee
				return env.names[o], nil
			}
		}
		v, err := p.expr(e.X, env)
		if err != nil {
			return "", err
		}
		return p.derefExpr(v, p.typeOf(e))
	case *ast.UnaryExpr:
		return p.unary(e, env)
	case *ast.BinaryExpr:
		return p.binary(e, env)
	case *ast.IndexExpr:
		return p.index(e, env)
	case *ast.SliceExpr:
		return p.slice(e, env)
	case *ast.CompositeLit:
		return p.composite(e, env)
	case *ast.CallExpr:
		v, lv, err := p.call(e, env)
		if err != nil {
			return "", err
		}
		if len(lv) > 0 {
			return "", p.errf(e, "a call that writes through a pointer argument inside an expression")
		}
		return v, nil
	}
	return "", p.errf(e, "expression %T", e)
}

func (p *pjPkg) unary(e *ast.UnaryExpr, env *pjEnv) (string, error) {
	switch e.Op {
	case token.NOT:
		v, err := p.expr(e.X, env)
		if err != nil {
			return "", err
		}
		return "(!" + pjAtom(v) + ")", nil
	case token.AND:
		// &x read-only: the pointer ↦ some (value)
		v, err := p.expr(e.X, env)
		if err != nil {
			return "", err
		}
		return "(some " + pjAtom(v) + ")", nil
	case token.SUB:
		v, err := p.expr(e.X, env)
		if err != nil {
			return "", err
		}
		switch b := p.typeOf(e.X).Underlying().(*types.Basic); {
		case b != nil && b.Kind() == types.Int:
			return "(-" + pjAtom(v) + ")", nil
		case b != nil && b.Kind() == types.Float64:
			return "(" + p.useOp("f64Neg", "F → F", "float64 unary `-`") + " " + pjAtom(v) + ")", nil
		}
	}
	return "", p.errf(e, "unary operator %s on %s", e.Op, p.typeOf(e.X))
}

var pjF64Ops = map[token.Token][2]string{token.ADD: {"f64Add", "F"}, token.SUB: {"f64Sub", "F"}, token.MUL: {"f64Mul", "F"},
	token.QUO: {"f64Div", "F"}, token.LSS: {"f64Lt", "Bool"}, token.GTR: {"f64Gt", "Bool"}, token.LEQ: {"f64Le", "Bool"},
	token.GEQ: {"f64Ge", "Bool"}, token.EQL: {"f64Eq", "Bool"}, token.NEQ: {"f64Ne", "Bool"}}

var pjIntRel = map[token.Token]string{token.LSS: "<", token.GTR: ">", token.LEQ: "≤", token.GEQ: "≥"}
var pjIntArith = map[token.Token]string{token.ADD: "+", token.SUB: "-", token.MUL: "*"}

func pjIsNil(p *pjPkg, e ast.Expr) bool {
	id, ok := ast.Unparen(e).(*ast.Ident)
	if !ok {
		return false
	}
	_, isNil := p.info.Uses[id].(*types.Nil)
	return isNil
}

func (p *pjPkg) binary(e *ast.BinaryExpr, env *pjEnv) (string, error) {
	neg := func(s string, ne bool) string {
		if ne {
			return "(!" + s + ")"
		}
		return s
	}
	if e.Op == token.EQL || e.Op == token.NEQ {
		x, y := e.X, e.Y
		if pjIsNil(p, x) {
			x, y = y, x
		}
		if pjIsNil(p, y) {
			t := p.typeOf(x)
			v, err := p.expr(x, env)
			if err != nil {
				return "", err
			}
			switch u := t.Underlying().(type) {
			case *types.Pointer:
				return neg("(Option.isNone "+pjAtom(v)+")", e.Op == token.NEQ), nil
			case *types.Interface:
				if pjIsError(t) {
					return neg("(Option.isNone "+pjAtom(v)+")", e.Op == token.NEQ), nil
				}
				if n, ok := t.(*types.Named); ok {
					lt, _ := p.leanType(t)
					return neg("("+p.useOp(pjLower(p.absName(n))+"IsNil", lt+" → Bool", "comparison of a "+n.Obj().Name()+" with nil")+" "+pjAtom(v)+")", e.Op == token.NEQ), nil
				}
			case *types.Slice:
				_ = u
				return "", p.errf(e, "comparison of a slice with nil")
			}
			return "", p.errf(e, "comparison of %s with nil", t)
		}
	}
	x, err := p.expr(e.X, env)
	if err != nil {
		return "", err
	}
	y, err := p.expr(e.Y, env)
	if err != nil {
		return "", err
	}
	switch e.Op {
	case token.LAND:
		return "(" + x + " && " + y + ")", nil
	case token.LOR:
		return "(" + x + " || " + y + ")", nil
	}
	t := p.typeOf(e.X)
	if b, ok := t.(*types.Basic); ok && b.Info()&types.IsUntyped != 0 {
		t = p.typeOf(e.Y)
	}
	lt, err := p.leanType(t)
	if err != nil {
		return "", p.errf(e, "%v", err)
	}
	isEq := e.Op == token.EQL || e.Op == token.NEQ
	if named, ok := t.(*types.Named); ok && isEq && !(p.local(named.Obj().Pkg()) && p.structural[named]) {
		op := p.useOp(pjLower(p.absName(named))+"Eq", lt+" → "+lt+" → Bool", "Go's `==` on "+named.String())
		return neg("("+op+" "+pjAtom(x)+" "+pjAtom(y)+")", e.Op == token.NEQ), nil
	}
	if b, ok := t.Underlying().(*types.Basic); ok {
		switch b.Kind() {
		case types.Int, types.Uint8, types.Bool:
			if _, ok := t.(*types.Named); ok {
				break
			}
			if isEq {
				return neg("("+x+" == "+y+")", e.Op == token.NEQ), nil
			}
			if r, ok := pjIntRel[e.Op]; ok && b.Kind() != types.Bool {
				return "(decide (" + x + " " + r + " " + y + "))", nil
			}
			if a, ok := pjIntArith[e.Op]; ok && b.Kind() == types.Int {
				return "(" + x + " " + a + " " + y + ")", nil
			}
		case types.Float64:
			if o, ok := pjF64Ops[e.Op]; ok {
				return "(" + p.useOp(o[0], "F → F → "+o[1], "float64 operator `"+e.Op.String()+"`") + " " + pjAtom(x) + " " + pjAtom(y) + ")", nil
			}
		case types.String:
			if isEq {
				return neg("("+p.useOp("strEq", "Str → Str → Bool", "Go's `==` on strings")+" "+pjAtom(x)+" "+pjAtom(y)+")", e.Op == token.NEQ), nil
			}
		}
	}
	return "", p.errf(e, "operator %s on %s", e.Op, t)
}

func (p *pjPkg) index(e *ast.IndexExpr, env *pjEnv) (string, error) {
	x, err := p.expr(e.X, env)
	if err != nil {
		return "", err
	}
	i, err := p.expr(e.Index, env)
	if err != nil {
		return "", err
	}
	t := p.typeOf(e.X)
	if pjIsByteSlice(t) {
		return "", p.errf(e, "index into a []byte")
	}
	switch u := t.Underlying().(type) {
	case *types.Slice, *types.Array:
		z, err := p.zeroOf(p.typeOf(e))
		if err != nil {
			return "", p.errf(e, "%v", err)
		}
		return "(arrAt " + z + " " + pjAtom(x) + " " + pjAtom(i) + ")", nil
	case *types.Basic:
		if u.Kind() == types.String {
			return "(" + p.useOp("strAt", "Str → Int → UInt8", "s[i] on a string (a byte)") + " " + pjAtom(x) + " " + pjAtom(i) + ")", nil
		}
	}
	return "", p.errf(e, "index into %s", t)
}

func (p *pjPkg) slice(e *ast.SliceExpr, env *pjEnv) (string, error) {
	if e.Slice3 || e.High != nil || e.Low == nil {
		return "", p.errf(e, "slice expression other than x[lo:]")
	}
	x, err := p.expr(e.X, env)
	if err != nil {
		return "", err
	}
	lo, err := p.expr(e.Low, env)
	if err != nil {
		return "", err
	}
	t := p.typeOf(e.X)
	if b, ok := t.Underlying().(*types.Basic); ok && b.Kind() == types.String {
		return "(" + p.useOp("strSliceFrom", "Str → Int → Str", "s[lo:] on a string") + " " + pjAtom(x) + " " + pjAtom(lo) + ")", nil
	}
	if _, ok := t.Underlying().(*types.Slice); ok && !pjIsByteSlice(t) {
		return "(sliceFrom " + pjAtom(x) + " " + pjAtom(lo) + ")", nil
	}
	return "", p.errf(e, "slice of %s", t)
}

func (p *pjPkg) composite(c *ast.CompositeLit, env *pjEnv) (string, error) {
	t := p.typeOf(c)
	lt, err := p.leanType(t)
	if err != nil {
		return "", p.errf(c, "%v", err)
	}
	switch u := t.Underlying().(type) {
	case *types.Slice, *types.Array:
		var elT types.Type
		if s, ok := u.(*types.Slice); ok {
			elT = s.Elem()
		} else {
			elT = u.(*types.Array).Elem()
			if int64(len(c.Elts)) != u.(*types.Array).Len() {
				return "", p.errf(c, "array literal with missing elements")
			}
		}
		if pjIsByteSlice(t) {
			return "", p.errf(c, "[]byte literal")
		}
		var parts []string
		for _, el := range c.Elts {
			if _, ok := el.(*ast.KeyValueExpr); ok {
				return "", p.errf(c, "keyed slice literal")
			}
			v, err := p.expr(el, env)
			if err != nil {
				return "", err
			}
			if v, err = p.coerce(el, v, p.typeOf(el), elT); err != nil {
				return "", err
			}
			parts = append(parts, v)
		}
		return "([" + strings.Join(parts, ", ") + "] : " + lt + ")", nil
	case *types.Struct:
		named, ok := t.(*types.Named)
		if !ok {
			return "", p.errf(c, "literal of an unnamed struct")
		}
		vals := make([]string, u.NumFields())
		given := make([]bool, u.NumFields())
		for i, el := range c.Elts {
			idx := i
			var ve ast.Expr = el
			if kv, ok := el.(*ast.KeyValueExpr); ok {
				idx = -1
				for j := 0; j < u.NumFields(); j++ {
					if u.Field(j).Name() == kv.Key.(*ast.Ident).Name {
						idx = j
					}
				}
				ve = kv.Value
			}
			if idx < 0 || idx >= u.NumFields() {
				return "", p.errf(c, "unknown field")
			}
			v, err := p.expr(ve, env)
			if err != nil {
				return "", err
			}
			if v, err = p.coerce(ve, v, p.typeOf(ve), u.Field(idx).Type()); err != nil {
				return "", err
			}
			vals[idx], given[idx] = v, true
		}
		generated := p.local(named.Obj().Pkg()) && p.structural[named]
		if len(c.Elts) == 0 && !generated {
			return p.zeroOf(t)
		}
		var names []string
		for i := range vals {
			names = append(names, u.Field(i).Name())
			if !given[i] {
				if vals[i], err = p.zeroOf(u.Field(i).Type()); err != nil {
					return "", p.errf(c, "%v", err)
				}
			}
		}
		if generated {
			s, err := p.structOf(named)
			if err != nil {
				return "", p.errf(c, "%v", err)
			}
			var parts []string
			for i := range vals {
				parts = append(parts, s.fields[i]+" := "+vals[i])
			}
			return "({ " + strings.Join(parts, ", ") + " } : " + lt + ")", nil
		}
		var ptys []string
		for i := range vals {
			ft, err := p.leanType(u.Field(i).Type())
			if err != nil {
				return "", p.errf(c, "%v", err)
			}
			ptys = append(ptys, ft)
			vals[i] = pjAtom(vals[i])
		}
		op := p.useOp("mk"+p.absName(named), strings.Join(append(ptys, lt), " → "),
			fmt.Sprintf("the literal `%s{%s}` (all fields, declaration order; absent ↦ zero value) — %s", named.Obj().Name(), strings.Join(names, ", "), p.posP(named.Obj().Pos())))
		return "(" + op + " " + strings.Join(vals, " ") + ")", nil
	}
	return "", p.errf(c, "literal of type %s", t)
}

// opSig: Lean type of an Ops field for a callee with the given signature
func (p *pjPkg) opSig(n ast.Node, recv string, sig *types.Signature, args []ast.Expr) (string, string, error) {
	var parts []string
	if recv != "" {
		parts = append(parts, recv)
	}
	if sig.Variadic() {
		return "", "", p.errf(n, "variadic callee")
	}
	for i := 0; i < sig.Params().Len(); i++ {
		pt := sig.Params().At(i).Type()
		if pjIsEmptyIface(pt) && i < len(args) {
			pt = p.typeOf(args[i])
		}
		lt, err := p.leanType(pt)
		if err != nil {
			return "", "", p.errf(n, "%v", err)
		}
		parts = append(parts, lt)
	}
	res, err := p.leanType(sig.Results())
	if err != nil {
		return "", "", p.errf(n, "%v", err)
	}
	return strings.Join(append(parts, res), " → "), res, nil
}

func (p *pjPkg) args(c *ast.CallExpr, sig *types.Signature, env *pjEnv) ([]string, error) {
	var out []string
	if len(c.Args) != sig.Params().Len() {
		return nil, p.errf(c, "argument count")
	}
	for i, a := range c.Args {
		v, err := p.expr(a, env)
		if err != nil {
			return nil, err
		}
		pt := sig.Params().At(i).Type()
		if !pjIsEmptyIface(pt) {
			if v, err = p.coerce(a, v, p.typeOf(a), pt); err != nil {
				return nil, err
			}
		}
		out = append(out, pjAtom(v))
	}
	return out, nil
}

func (p *pjPkg) funcDoc(f *types.Func) string {
	if d, ok := p.decls[f]; ok {
		return fmt.Sprintf("Go: `%s` — %s", p.srcText(d.Pos(), d.Body.Lbrace), p.pos(d))
	}
	return fmt.Sprintf("Go: `%s` — %s", strings.TrimPrefix(types.ObjectString(f, func(q *types.Package) string { return q.Name() }), ""), p.posP(f.Pos()))
}

// ---------------------------------------------------------------- locations (assignable expressions)

type pjLval struct {
	kind  int // 0 variable, 1 field, 2 element, 3 pointee
	obj   types.Object
	x     *pjLval
	idx   int
	index string
	t     types.Type
}

func (p *pjPkg) lvalOf(e ast.Expr, env *pjEnv) (*pjLval, error) {
	switch e := e.(type) {
	case *ast.ParenExpr:
		return p.lvalOf(e.X, env)
	case *ast.Ident:
		o := p.info.Uses[e]
		if o == nil {
			o = p.info.Defs[e]
		}
		if _, ok := env.names[o]; !ok {
			return nil, p.errf(e, "assignment to %s, which is not a local variable", e.Name)
		}
		if env.inout[o] {
			return nil, p.errf(e, "assignment to the pointer %s itself", e.Name)
		}
		return &pjLval{kind: 0, obj: o, t: o.Type()}, nil
	case *ast.StarExpr:
		if id, ok := ast.Unparen(e.X).(*ast.Ident); ok {
			if o := p.info.Uses[id]; o != nil && env.inout[o] {
				el, _ := pjDeref(o.Type())
				return &pjLval{kind: 0, obj: o, t: el}, nil
			}
		}
		x, err := p.lvalOf(e.X, env)
		if err != nil {
			return nil, err
		}
		return &pjLval{kind: 3, x: x, t: p.typeOf(e)}, nil
	case *ast.SelectorExpr:
		sel, ok := p.info.Selections[e]
		if !ok || sel.Kind() != types.FieldVal {
			return nil, p.errf(e, "assignment to %s", e.Sel.Name)
		}
		var x *pjLval
		if id, ok := ast.Unparen(e.X).(*ast.Ident); ok {
			if o := p.info.Uses[id]; o != nil && env.inout[o] {
				el, _ := pjDeref(o.Type())
				x = &pjLval{kind: 0, obj: o, t: el}
			}
		}
		if x == nil {
			var err error
			if x, err = p.lvalOf(e.X, env); err != nil {
				return nil, err
			}
		}
		return p.lvalPath(e, x, sel.Index())
	case *ast.IndexExpr:
		x, err := p.lvalOf(e.X, env)
		if err != nil {
			return nil, err
		}
		i, err := p.expr(e.Index, env)
		if err != nil {
			return nil, err
		}
		if pjIsByteSlice(x.t) {
			return nil, p.errf(e, "assignment into a []byte")
		}
		switch x.t.Underlying().(type) {
		case *types.Slice, *types.Array:
			return &pjLval{kind: 2, x: x, index: i, t: p.typeOf(e)}, nil
		}
		return nil, p.errf(e, "assignment into %s", x.t)
	}
	return nil, p.errf(e, "assignment to %T", e)
}

func (p *pjPkg) lvalPath(n ast.Node, x *pjLval, path []int) (*pjLval, error) {
	for _, idx := range path {
		el, _ := pjDeref(x.t)
		st, ok := el.Underlying().(*types.Struct)
		if !ok {
			return nil, p.errf(n, "field of %s", x.t)
		}
		x = &pjLval{kind: 1, x: x, idx: idx, t: st.Field(idx).Type()}
	}
	return x, nil
}

func (p *pjPkg) lvalGet(n ast.Node, lv *pjLval, env *pjEnv) (string, error) {
	switch lv.kind {
	case 0:
		return env.names[lv.obj], nil
	case 1:
		pv, err := p.lvalGet(n, lv.x, env)
		if err != nil {
			return "", err
		}
		v, _, err := p.fieldStep(n, pv, lv.x.t, lv.idx)
		return v, err
	case 2:
		pv, err := p.lvalGet(n, lv.x, env)
		if err != nil {
			return "", err
		}
		z, err := p.zeroOf(lv.t)
		if err != nil {
			return "", p.errf(n, "%v", err)
		}
		return "(arrAt " + z + " " + pjAtom(pv) + " " + pjAtom(lv.index) + ")", nil
	}
	pv, err := p.lvalGet(n, lv.x, env)
	if err != nil {
		return "", err
	}
	return p.derefExpr(pv, lv.t)
}

// lvalSet: the let-lines that store v at the location (the root variable is rebound)
func (p *pjPkg) lvalSet(n ast.Node, lv *pjLval, v string, env *pjEnv) ([]string, error) {
	switch lv.kind {
	case 0:
		lt, err := p.leanType(lv.t)
		if err != nil {
			return nil, p.errf(n, "%v", err)
		}
		return []string{"let " + env.names[lv.obj] + " : " + lt + " := " + v}, nil
	case 1:
		pv, err := p.lvalGet(n, lv.x, env)
		if err != nil {
			return nil, err
		}
		el, isPtr := pjDeref(lv.x.t)
		if isPtr {
			if pv, err = p.derefExpr(pv, el); err != nil {
				return nil, p.errf(n, "%v", err)
			}
		}
		named, _ := el.(*types.Named)
		if named == nil {
			return nil, p.errf(n, "field of an unnamed struct")
		}
		var nv string
		if p.local(named.Obj().Pkg()) && p.structural[named] {
			s, err := p.structOf(named)
			if err != nil {
				return nil, p.errf(n, "%v", err)
			}
			nv = "{ " + pv + " with " + s.fields[lv.idx] + " := " + v + " }"
		} else {
			f := el.Underlying().(*types.Struct).Field(lv.idx)
			lt, err1 := p.leanType(el)
			ft, err2 := p.leanType(f.Type())
			if err1 != nil || err2 != nil {
				return nil, p.errf(n, "field type")
			}
			op := p.useOp(pjLower(p.absName(named))+"Set"+pjUpper(f.Name()), lt+" → "+ft+" → "+lt,
				fmt.Sprintf("assignment to field %s of a %s — %s", f.Name(), named.Obj().Name(), p.posP(f.Pos())))
			nv = "(" + op + " " + pjAtom(pv) + " " + pjAtom(v) + ")"
		}
		if isPtr {
			nv = "(some " + pjAtom(nv) + ")"
		}
		return p.lvalSet(n, lv.x, nv, env)
	case 2:
		pv, err := p.lvalGet(n, lv.x, env)
		if err != nil {
			return nil, err
		}
		return p.lvalSet(n, lv.x, "(arrSet "+pjAtom(pv)+" "+pjAtom(lv.index)+" "+pjAtom(v)+")", env)
	}
	return p.lvalSet(n, lv.x, "(some "+pjAtom(v)+")", env)
}

// ---------------------------------------------------------------- calls

func (p *pjPkg) calleeFunc(c *ast.CallExpr) *types.Func {
	switch f := ast.Unparen(c.Fun).(type) {
	case *ast.Ident:
		fn, _ := p.info.Uses[f].(*types.Func)
		return fn
	case *ast.SelectorExpr:
		fn, _ := p.info.Uses[f.Sel].(*types.Func)
		return fn
	}
	return nil
}

func (p *pjPkg) isTarget(f *types.Func) bool {
	if f == nil || !p.local(f.Pkg()) || !pjTargetRe.MatchString(f.Name()) {
		return false
	}
	_, ok := p.decls[f]
	return ok
}

// receiver of a method call: value (pointers dereferenced, embedded fields followed) and its type
func (p *pjPkg) receiver(c *ast.CallExpr, f *ast.SelectorExpr, env *pjEnv) (string, types.Type, error) {
	sel := p.info.Selections[f]
	v, t, err := p.baseValue(f.X, env)
	if err != nil {
		return "", nil, err
	}
	path := sel.Index()
	for _, idx := range path[:len(path)-1] {
		if v, t, err = p.fieldStep(c, v, t, idx); err != nil {
			return "", nil, err
		}
	}
	if el, isPtr := pjDeref(t); isPtr {
		if v, err = p.derefExpr(v, el); err != nil {
			return "", nil, p.errf(c, "%v", err)
		}
		t = el
	}
	return v, t, nil
}

// call: value of a call; when the callee writes through pointer arguments the value is the
// tuple (results…, new pointees…) and the locations to store the latter are returned
func (p *pjPkg) call(c *ast.CallExpr, env *pjEnv) (string, []*pjLval, error) {
	if tv, ok := p.info.Types[c.Fun]; ok && tv.IsType() {
		v, err := p.conversion(c, tv.Type, env)
		return v, nil, err
	}
	if id, ok := ast.Unparen(c.Fun).(*ast.Ident); ok {
		if b, ok := p.info.Uses[id].(*types.Builtin); ok {
			v, err := p.builtin(c, b.Name(), env)
			return v, nil, err
		}
	}
	fn := p.calleeFunc(c)
	if fn == nil {
		return "", nil, p.errf(c, "call of a function value")
	}
	sig := fn.Type().(*types.Signature)
	if fn.Pkg() != nil && fn.Pkg().Path() == "fmt" && fn.Name() == "Errorf" {
		v, err := p.errorf(c, env)
		return v, nil, err
	}
	for _, a := range c.Args {
		if _, ok := a.(*ast.FuncLit); ok {
			return "", nil, p.errf(c, "a call with a function literal is only recognised as a statement")
		}
	}
	fsel, isMethod := ast.Unparen(c.Fun).(*ast.SelectorExpr)
	if isMethod {
		_, isMethod = p.info.Selections[fsel]
	}
	if p.isTarget(fn) {
		return p.callTarget(c, fn, fsel, isMethod, env)
	}
	var recvV, recvT string
	name := pjLower(fn.Name())
	if isMethod {
		v, t, err := p.receiver(c, fsel, env)
		if err != nil {
			return "", nil, err
		}
		named, ok := t.(*types.Named)
		if !ok {
			return "", nil, p.errf(c, "method of an unnamed type")
		}
		if recvT, err = p.leanType(t); err != nil {
			return "", nil, p.errf(c, "%v", err)
		}
		recvV, name = pjAtom(v), pjLower(p.absName(named))+pjUpper(fn.Name())
	} else if !p.local(fn.Pkg()) {
		name = pjLower(fn.Pkg().Name()) + pjUpper(fn.Name())
	}
	ty, _, err := p.opSig(c, recvT, sig, c.Args)
	if err != nil {
		return "", nil, err
	}
	args, err := p.args(c, sig, env)
	if err != nil {
		return "", nil, err
	}
	if recvV != "" {
		args = append([]string{recvV}, args...)
	}
	op := p.useOp(name, ty, p.funcDoc(fn))
	if len(args) == 0 {
		return op, nil, nil
	}
	return "(" + op + " " + strings.Join(args, " ") + ")", nil, nil
}

func (p *pjPkg) callTarget(c *ast.CallExpr, fn *types.Func, fsel *ast.SelectorExpr, isMethod bool, env *pjEnv) (string, []*pjLval, error) {
	g := p.request(fn)
	sig := fn.Type().(*types.Signature)
	var args []string
	var lvs []*pjLval
	isIO := func(v *types.Var) bool {
		for _, w := range g.inout {
			if w == v {
				return true
			}
		}
		return false
	}
	if isMethod {
		if isIO(sig.Recv()) {
			x, err := p.lvalOf(fsel.X, env)
			if err != nil {
				return "", nil, err
			}
			sel := p.info.Selections[fsel]
			path := sel.Index()
			lv, err := p.lvalPath(c, x, path[:len(path)-1])
			if err != nil {
				return "", nil, err
			}
			if _, isPtr := pjDeref(lv.t); isPtr {
				lv = &pjLval{kind: 3, x: lv, t: lv.t.Underlying().(*types.Pointer).Elem()}
			}
			v, err := p.lvalGet(c, lv, env)
			if err != nil {
				return "", nil, err
			}
			args, lvs = append(args, pjAtom(v)), append(lvs, lv)
		} else {
			v, _, err := p.receiver(c, fsel, env)
			if err != nil {
				return "", nil, err
			}
			if _, isPtr := pjDeref(sig.Recv().Type()); isPtr {
				v = "(some " + pjAtom(v) + ")"
			}
			args = append(args, pjAtom(v))
		}
	}
	if len(c.Args) != sig.Params().Len() || sig.Variadic() {
		return "", nil, p.errf(c, "argument count")
	}
	for i, a := range c.Args {
		pv := sig.Params().At(i)
		if isIO(pv) {
			u, ok := ast.Unparen(a).(*ast.UnaryExpr)
			if !ok || u.Op != token.AND {
				return "", nil, p.errf(a, "argument for the written-through parameter %s is not of the form &x", pv.Name())
			}
			lv, err := p.lvalOf(u.X, env)
			if err != nil {
				return "", nil, err
			}
			v, err := p.lvalGet(a, lv, env)
			if err != nil {
				return "", nil, err
			}
			args, lvs = append(args, pjAtom(v)), append(lvs, lv)
			continue
		}
		v, err := p.expr(a, env)
		if err != nil {
			return "", nil, err
		}
		if v, err = p.coerce(a, v, p.typeOf(a), pv.Type()); err != nil {
			return "", nil, err
		}
		args = append(args, pjAtom(v))
	}
	onStack := false
	for _, h := range p.stack {
		if h == g {
			onStack = true
		}
	}
	if g.err != nil && !onStack {
		return "", nil, p.errf(c, "callee %s is not recognised", g.name)
	}
	head := "(" + g.name + " ops"
	if onStack || !g.done {
		ty, err := p.funcType(g, false)
		if err != nil {
			return "", nil, p.errf(c, "%v", err)
		}
		head = "(" + p.useOp("rec_"+g.name, ty, fmt.Sprintf("RECURSION: the Go function %s itself, as called (directly or indirectly) from its own body — %s", g.name, p.pos(g.decl)))
	} else if g.fuel {
		return "", nil, p.errf(c, "call of %s, which has an unbounded loop", g.name)
	}
	return head + " " + strings.Join(args, " ") + ")", lvs, nil
}

func (p *pjPkg) conversion(c *ast.CallExpr, to types.Type, env *pjEnv) (string, error) {
	if len(c.Args) != 1 {
		return "", p.errf(c, "conversion")
	}
	from := p.typeOf(c.Args[0])
	v, err := p.expr(c.Args[0], env)
	if err != nil {
		return "", err
	}
	fb, _ := from.Underlying().(*types.Basic)
	tb, _ := to.Underlying().(*types.Basic)
	_, toNamed := to.(*types.Named)
	switch {
	case types.Identical(from, to):
		return v, nil
	case pjIsByteSlice(to) && fb != nil && fb.Kind() == types.String:
		return "(" + p.useOp("bytesOfStr", "Str → Bytes", "the conversion []byte(s)") + " " + pjAtom(v) + ")", nil
	case pjIsByteSlice(from) && tb != nil && tb.Kind() == types.String && !toNamed:
		return "(" + p.useOp("strOfBytes", "Bytes → Str", "the conversion string(b)") + " " + pjAtom(v) + ")", nil
	case fb != nil && tb != nil && fb.Kind() == types.Uint8 && tb.Kind() == types.Int && !toNamed:
		return "(Int.ofNat (UInt8.toNat " + pjAtom(v) + "))", nil
	}
	return "", p.errf(c, "conversion %s → %s", from, to)
}

func (p *pjPkg) builtin(c *ast.CallExpr, name string, env *pjEnv) (string, error) {
	switch name {
	case "len":
		t := p.typeOf(c.Args[0])
		v, err := p.expr(c.Args[0], env)
		if err != nil {
			return "", err
		}
		if pjIsByteSlice(t) {
			return "(" + p.useOp("bytesLen", "Bytes → Int", "len of a []byte") + " " + pjAtom(v) + ")", nil
		}
		switch u := t.Underlying().(type) {
		case *types.Slice:
			return "(Int.ofNat (List.length " + pjAtom(v) + "))", nil
		case *types.Basic:
			if u.Kind() == types.String {
				return "(" + p.useOp("strLen", "Str → Int", "len of a string (bytes)") + " " + pjAtom(v) + ")", nil
			}
		}
		return "", p.errf(c, "len of %s", t)
	case "new":
		z, err := p.zeroOf(p.typeOf(c.Args[0]))
		if err != nil {
			return "", p.errf(c, "%v", err)
		}
		return "(some " + pjAtom(z) + ")", nil
	case "make":
		t := p.typeOf(c.Args[0])
		s, ok := t.Underlying().(*types.Slice)
		if !ok || len(c.Args) != 2 || pjIsByteSlice(t) {
			return "", p.errf(c, "make other than make([]T, n)")
		}
		z, err := p.zeroOf(s.Elem())
		if err != nil {
			return "", p.errf(c, "%v", err)
		}
		n, err := p.expr(c.Args[1], env)
		if err != nil {
			return "", err
		}
		return "(List.replicate (Int.toNat " + pjAtom(n) + ") " + pjAtom(z) + ")", nil
	case "append":
		t := p.typeOf(c.Args[0])
		x, err := p.expr(c.Args[0], env)
		if err != nil {
			return "", err
		}
		if len(c.Args) < 2 {
			return x, nil
		}
		if c.Ellipsis.IsValid() {
			y, err := p.expr(c.Args[1], env)
			if err != nil {
				return "", err
			}
			yt := p.typeOf(c.Args[1])
			switch {
			case pjIsByteSlice(t) && pjIsByteSlice(yt):
				return "(" + p.useOp("bytesAppend", "Bytes → Bytes → Bytes", "append(b, c...) on []byte") + " " + pjAtom(x) + " " + pjAtom(y) + ")", nil
			case pjIsByteSlice(t):
				return "(" + p.useOp("bytesAppendStr", "Bytes → Str → Bytes", "append(b, s...) with a string s") + " " + pjAtom(x) + " " + pjAtom(y) + ")", nil
			}
			return "(" + x + " ++ " + y + ")", nil
		}
		if pjIsByteSlice(t) {
			for _, a := range c.Args[1:] {
				y, err := p.expr(a, env)
				if err != nil {
					return "", err
				}
				x = "(" + p.useOp("bytesPush", "Bytes → UInt8 → Bytes", "append(b, c) on []byte with one byte c") + " " + pjAtom(x) + " " + pjAtom(y) + ")"
			}
			return x, nil
		}
		el := t.Underlying().(*types.Slice).Elem()
		var parts []string
		for _, a := range c.Args[1:] {
			y, err := p.expr(a, env)
			if err != nil {
				return "", err
			}
			if y, err = p.coerce(a, y, p.typeOf(a), el); err != nil {
				return "", err
			}
			parts = append(parts, y)
		}
		return "(" + x + " ++ [" + strings.Join(parts, ", ") + "])", nil
	}
	return "", p.errf(c, "builtin %s", name)
}

// fmt.Errorf(CONST, strings…) ↦ a constructor of Err named after the constant
func (p *pjPkg) errorf(c *ast.CallExpr, env *pjEnv) (string, error) {
	if len(c.Args) == 0 {
		return "", p.errf(c, "fmt.Errorf without a format")
	}
	id, ok := ast.Unparen(c.Args[0]).(*ast.Ident)
	tv := p.info.Types[c.Args[0]]
	if ok && tv.Value == nil {
		// a package variable with a constant initialiser that is never assigned
		if o, isVar := p.info.Uses[id].(*types.Var); isVar && o.Parent() == p.pkg.Types.Scope() && !p.assignedPkgVars[o] {
			if init := p.pkgVarInit(o); init != nil {
				tv = p.info.Types[init]
			}
		}
	}
	if !ok || tv.Value == nil {
		return "", p.errf(c, "fmt.Errorf whose format is not a named constant")
	}
	var args []string
	for _, a := range c.Args[1:] {
		if b, ok := p.typeOf(a).Underlying().(*types.Basic); !ok || b.Kind() != types.String {
			return "", p.errf(a, "fmt.Errorf argument of type %s", p.typeOf(a))
		}
		v, err := p.expr(a, env)
		if err != nil {
			return "", err
		}
		args = append(args, pjAtom(v))
	}
	if n, ok := p.errArgs[id.Name]; ok && n != len(args) {
		return "", p.errf(c, "format %s used with different numbers of arguments", id.Name)
	}
	p.errs[id.Name] = fmt.Sprintf("Go: `fmt.Errorf(%s, …)` with `%s = %s` — %s", id.Name, id.Name, tv.Value.ExactString(), p.pos(c))
	p.errArgs[id.Name] = len(args)
	p.useTParam("Str", "string")
	if len(args) == 0 {
		return "(some Err." + id.Name + ")", nil
	}
	return "(some (Err." + id.Name + " " + strings.Join(args, " ") + "))", nil
}

// ---------------------------------------------------------------- what a piece of code assigns

func (p *pjPkg) rootObj(e ast.Expr) (types.Object, int) {
	steps := 0
	for {
		switch x := e.(type) {
		case *ast.ParenExpr:
			e = x.X
		case *ast.StarExpr:
			e, steps = x.X, steps+1
		case *ast.IndexExpr:
			e, steps = x.X, steps+1
		case *ast.SelectorExpr:
			if _, ok := p.info.Selections[x]; !ok {
				return nil, 0
			}
			e, steps = x.X, steps+1
		case *ast.Ident:
			o := p.info.Uses[x]
			if o == nil {
				o = p.info.Defs[x]
			}
			return o, steps
		default:
			return nil, 0
		}
	}
}

// isMutatorCall: a statement `x.M(args)` on a pointer receiver, without results, of a method that is
// not translated here: taken to update its receiver (rtree.Insert)
func (p *pjPkg) isMutatorCall(c *ast.CallExpr) (*ast.SelectorExpr, bool) {
	f, ok := ast.Unparen(c.Fun).(*ast.SelectorExpr)
	if !ok {
		return nil, false
	}
	sel, ok := p.info.Selections[f]
	if !ok || sel.Kind() != types.MethodVal {
		return nil, false
	}
	fn := sel.Obj().(*types.Func)
	sig := fn.Type().(*types.Signature)
	if _, isPtr := pjDeref(sig.Recv().Type()); !isPtr || sig.Results().Len() != 0 || p.isTarget(fn) {
		return nil, false
	}
	for _, a := range c.Args {
		if _, ok := a.(*ast.FuncLit); ok {
			return nil, false
		}
	}
	return f, true
}

// writes: the (object, steps) pairs written by node n
func (p *pjPkg) writes(n ast.Node, f func(o types.Object, steps int, at token.Pos)) {
	ast.Inspect(n, func(m ast.Node) bool {
		switch s := m.(type) {
		case *ast.AssignStmt:
			for _, l := range s.Lhs {
				if o, k := p.rootObj(l); o != nil {
					f(o, k, m.Pos())
				}
			}
		case *ast.IncDecStmt:
			if o, k := p.rootObj(s.X); o != nil {
				f(o, k, m.Pos())
			}
		case *ast.RangeStmt:
			if s.Tok == token.ASSIGN {
				for _, l := range []ast.Expr{s.Key, s.Value} {
					if l != nil {
						if o, k := p.rootObj(l); o != nil {
							f(o, k, m.Pos())
						}
					}
				}
			}
		case *ast.CallExpr:
			if fs, ok := p.isMutatorCall(s); ok {
				if o, k := p.rootObj(fs.X); o != nil {
					f(o, k+1, m.Pos())
				}
			}
			fn := p.calleeFunc(s)
			if !p.isTarget(fn) {
				return true
			}
			io := p.inoutOf(fn)
			sig := fn.Type().(*types.Signature)
			for _, v := range io {
				if v == sig.Recv() {
					if fs, ok := ast.Unparen(s.Fun).(*ast.SelectorExpr); ok {
						if o, k := p.rootObj(fs.X); o != nil {
							f(o, k+1, m.Pos())
						}
					}
					continue
				}
				for i := 0; i < sig.Params().Len() && i < len(s.Args); i++ {
					if sig.Params().At(i) == v {
						if u, ok := ast.Unparen(s.Args[i]).(*ast.UnaryExpr); ok && u.Op == token.AND {
							if o, k := p.rootObj(u.X); o != nil {
								f(o, k, m.Pos())
							}
						}
					}
				}
			}
		}
		return true
	})
}

var pjInoutBusy = map[*types.Func]bool{}

// inoutOf: the pointer parameters (receiver first) that the function writes through
func (p *pjPkg) inoutOf(fn *types.Func) []*types.Var {
	d := p.decls[fn]
	if d == nil || pjInoutBusy[fn] {
		return nil
	}
	pjInoutBusy[fn] = true
	defer delete(pjInoutBusy, fn)
	sig := fn.Type().(*types.Signature)
	var cands []*types.Var
	if sig.Recv() != nil {
		cands = append(cands, sig.Recv())
	}
	for i := 0; i < sig.Params().Len(); i++ {
		cands = append(cands, sig.Params().At(i))
	}
	hit := map[types.Object]bool{}
	p.writes(d.Body, func(o types.Object, steps int, _ token.Pos) {
		if steps > 0 {
			hit[o] = true
		}
	})
	var out []*types.Var
	for _, v := range cands {
		if _, isPtr := pjDeref(v.Type()); isPtr && hit[v] {
			out = append(out, v)
		}
	}
	return out
}

// assignedIn: the live variables declared outside the nodes that the nodes assign, by declaration order
func (p *pjPkg) assignedIn(env *pjEnv, nodes ...ast.Node) []types.Object {
	set := map[types.Object]bool{}
	for _, n := range nodes {
		if n == nil {
			continue
		}
		p.writes(n, func(o types.Object, _ int, _ token.Pos) {
			if _, live := env.names[o]; !live {
				return
			}
			for _, m := range nodes {
				if m != nil && o.Pos() >= m.Pos() && o.Pos() < m.End() {
					return
				}
			}
			set[o] = true
		})
	}
	var out []types.Object
	for o := range set {
		out = append(out, o)
	}
	sort.Slice(out, func(i, j int) bool { return out[i].Pos() < out[j].Pos() })
	return out
}

func (p *pjPkg) varType(o types.Object, env *pjEnv) (string, error) {
	t := o.Type()
	if env.inout[o] {
		t, _ = pjDeref(t)
	}
	return p.leanType(t)
}

func (p *pjPkg) stateTuple(vars []types.Object, env *pjEnv) string {
	if len(vars) == 0 {
		return "()"
	}
	var parts []string
	for _, o := range vars {
		parts = append(parts, env.names[o])
	}
	if len(parts) == 1 {
		return parts[0]
	}
	return "(" + strings.Join(parts, ", ") + ")"
}

func (p *pjPkg) stateType(vars []types.Object, env *pjEnv) (string, error) {
	var parts []string
	for _, o := range vars {
		lt, err := p.varType(o, env)
		if err != nil {
			return "", err
		}
		parts = append(parts, lt)
	}
	return pjProdTy(parts), nil
}

func pjProj(v string, i, n int) string {
	if n == 1 {
		return v
	}
	s := v
	for k := 0; k < i; k++ {
		s += ".2"
	}
	if i < n-1 {
		s += ".1"
	}
	return s
}

// bindState: let-lines that rebind the variables from the tuple v
func (p *pjPkg) bindState(vars []types.Object, env *pjEnv, v string) ([]string, error) {
	var out []string
	for i, o := range vars {
		lt, err := p.varType(o, env)
		if err != nil {
			return nil, err
		}
		out = append(out, fmt.Sprintf("let %s : %s := %s", env.names[o], lt, pjProj(v, i, len(vars))))
	}
	return out, nil
}

// ---------------------------------------------------------------- statements

type pjCtx struct {
	retBase   func(vals []string, env *pjEnv) (string, error) // value of `return vals` at function / closure level
	retRaw    func(v string, env *pjEnv) (string, error)      // the same for a forwarded multi-value call
	wrap      func(string) string                             // … carried out of the enclosing loops / joins
	brk, cont func(env *pjEnv) (string, error)
	end       func(env *pjEnv) ([]string, error) // falling off the end of the statement list
	resTy     string                             // type of the expression being built
	results   []types.Type
	cheap     bool // end is a one-liner: it may be copied into several arms
}

func pjIndent(lines []string) []string {
	out := make([]string, len(lines))
	for i, l := range lines {
		out[i] = "  " + l
	}
	return out
}

func pjElse(s *ast.IfStmt) []ast.Stmt {
	switch e := s.Else.(type) {
	case *ast.BlockStmt:
		return e.List
	case *ast.IfStmt:
		return []ast.Stmt{e}
	}
	return nil
}

// terminates: control never falls off the end of the list
func (p *pjPkg) terminates(list []ast.Stmt) bool {
	if len(list) == 0 {
		return false
	}
	switch s := list[len(list)-1].(type) {
	case *ast.ReturnStmt:
		return true
	case *ast.BranchStmt:
		return s.Tok == token.CONTINUE || s.Tok == token.BREAK
	case *ast.BlockStmt:
		return p.terminates(s.List)
	case *ast.IfStmt:
		return s.Else != nil && p.terminates(s.Body.List) && p.terminates(pjElse(s))
	case *ast.ForStmt:
		return s.Cond == nil && !pjLeaves(s.Body, false, false, true)
	case *ast.SwitchStmt:
		hasDefault := false
		for _, c := range s.Body.List {
			cc := c.(*ast.CaseClause)
			if cc.List == nil {
				hasDefault = true
			}
			if !p.terminates(cc.Body) || pjEndsWithBreak(cc.Body) {
				return false
			}
		}
		return hasDefault
	}
	return false
}

func pjEndsWithBreak(list []ast.Stmt) bool {
	if len(list) == 0 {
		return false
	}
	b, ok := list[len(list)-1].(*ast.BranchStmt)
	return ok && b.Tok == token.BREAK
}

// pjLeaves: n contains a return (unless onlyBreak), or a break / continue that concerns a statement around n
func pjLeaves(n ast.Node, inLoop, inSwitch, onlyBreak bool) bool {
	found := false
	var walk func(m ast.Node, inLoop, inSwitch bool)
	walk = func(m ast.Node, inLoop, inSwitch bool) {
		ast.Inspect(m, func(k ast.Node) bool {
			if found || k == nil {
				return false
			}
			switch s := k.(type) {
			case *ast.FuncLit:
				return false
			case *ast.ReturnStmt:
				if !onlyBreak {
					found = true
				}
			case *ast.BranchStmt:
				if s.Tok == token.BREAK && !inLoop && !inSwitch {
					found = true
				}
				if s.Tok == token.CONTINUE && !inLoop && !onlyBreak {
					found = true
				}
				if s.Tok == token.GOTO || s.Label != nil {
					found = true
				}
			case *ast.ForStmt:
				if k != m {
					walk(s.Body, true, false)
					return false
				}
			case *ast.RangeStmt:
				if k != m {
					walk(s.Body, true, false)
					return false
				}
			case *ast.SwitchStmt:
				if k != m {
					walk(s.Body, inLoop, true)
					return false
				}
			case *ast.TypeSwitchStmt:
				if k != m {
					walk(s.Body, inLoop, true)
					return false
				}
			}
			return true
		})
	}
	walk(n, inLoop, inSwitch)
	return found
}

func (p *pjPkg) block(list []ast.Stmt, env *pjEnv, ctx *pjCtx) ([]string, error) {
	if len(list) == 0 {
		return ctx.end(env)
	}
	s, rest := list[0], list[1:]
	k := func(e *pjEnv) ([]string, error) {
		e.dropScope(s)
		return p.block(rest, e, ctx)
	}
	cheapK := len(rest) == 0 && ctx.cheap
	then := func(lines []string, err error) ([]string, error) {
		if err != nil {
			return nil, err
		}
		more, err := p.block(rest, env, ctx)
		if err != nil {
			return nil, err
		}
		return append(lines, more...), nil
	}
	switch s := s.(type) {
	case *ast.EmptyStmt:
		return p.block(rest, env, ctx)
	case *ast.ReturnStmt:
		return p.returnStmt(s, env, ctx)
	case *ast.BranchStmt:
		if s.Label != nil {
			return nil, p.errf(s, "labelled %s", s.Tok)
		}
		f := ctx.cont
		if s.Tok == token.BREAK {
			f = ctx.brk
		} else if s.Tok != token.CONTINUE {
			return nil, p.errf(s, "%s", s.Tok)
		}
		if f == nil {
			return nil, p.errf(s, "%s outside a recognised loop", s.Tok)
		}
		v, err := f(env)
		return []string{v}, err
	case *ast.DeclStmt:
		return then(p.declStmt(s, env))
	case *ast.AssignStmt:
		return then(p.assign(s, env))
	case *ast.IncDecStmt:
		op := token.ADD_ASSIGN
		if s.Tok == token.DEC {
			op = token.SUB_ASSIGN
		}
		one := &ast.BasicLit{Kind: token.INT, Value: "1"}
		return then(p.assignOp(s, s.X, op, "(1 : Int)", one, env))
	case *ast.ExprStmt:
		return then(p.exprStmt(s, env))
	case *ast.BlockStmt:
		sub := *ctx
		sub.end, sub.cheap = k, cheapK
		return p.block(s.List, env, &sub)
	case *ast.IfStmt:
		return p.ifStmt(s, env, ctx, k, cheapK)
	case *ast.SwitchStmt:
		return p.switchStmt(s, env, ctx, k, cheapK)
	case *ast.TypeSwitchStmt:
		return p.typeSwitch(s, env, ctx, k, cheapK)
	case *ast.ForStmt:
		return p.forStmt(s, env, ctx, k)
	case *ast.RangeStmt:
		return p.rangeStmt(s, env, ctx, k)
	}
	return nil, p.errf(s, "statement %T", s)
}

func (p *pjPkg) returnStmt(s *ast.ReturnStmt, env *pjEnv, ctx *pjCtx) ([]string, error) {
	if ctx.retBase == nil {
		return nil, p.errf(s, "return in a position where it is not recognised")
	}
	if len(s.Results) == 1 && len(ctx.results) > 1 {
		c, ok := s.Results[0].(*ast.CallExpr)
		if !ok {
			return nil, p.errf(s, "return of a tuple")
		}
		v, lvs, err := p.call(c, env)
		if err != nil {
			return nil, err
		}
		if len(lvs) > 0 {
			return nil, p.errf(s, "return of a call that writes through pointer arguments")
		}
		tup := p.typeOf(c).(*types.Tuple)
		for i := range ctx.results {
			if !types.Identical(tup.At(i).Type(), ctx.results[i]) {
				return nil, p.errf(s, "return of a call with different result types")
			}
		}
		r, err := ctx.retRaw(v, env)
		if err != nil {
			return nil, p.errf(s, "%v", err)
		}
		return []string{ctx.wrap(r)}, nil
	}
	if len(s.Results) != len(ctx.results) {
		return nil, p.errf(s, "return with %d values, %d expected (named results are not recognised)", len(s.Results), len(ctx.results))
	}
	var vals []string
	for i, r := range s.Results {
		v, err := p.expr(r, env)
		if err != nil {
			return nil, err
		}
		if v, err = p.coerce(r, v, p.typeOf(r), ctx.results[i]); err != nil {
			return nil, err
		}
		vals = append(vals, v)
	}
	r, err := ctx.retBase(vals, env)
	if err != nil {
		return nil, p.errf(s, "%v", err)
	}
	return []string{ctx.wrap(r)}, nil
}

func (p *pjPkg) declStmt(s *ast.DeclStmt, env *pjEnv) ([]string, error) {
	g, ok := s.Decl.(*ast.GenDecl)
	if !ok || g.Tok != token.VAR {
		return nil, p.errf(s, "declaration other than var")
	}
	var out []string
	for _, sp := range g.Specs {
		vs := sp.(*ast.ValueSpec)
		if len(vs.Values) != 0 && len(vs.Values) != len(vs.Names) {
			return nil, p.errf(s, "var with a multi-value initialiser")
		}
		for i, n := range vs.Names {
			o := p.info.Defs[n]
			var v string
			var err error
			if len(vs.Values) > 0 {
				if v, err = p.expr(vs.Values[i], env); err != nil {
					return nil, err
				}
				if v, err = p.coerce(vs.Values[i], v, p.typeOf(vs.Values[i]), o.Type()); err != nil {
					return nil, err
				}
			} else if v, err = p.zeroOf(o.Type()); err != nil {
				return nil, p.errf(s, "%v", err)
			}
			lt, err := p.leanType(o.Type())
			if err != nil {
				return nil, p.errf(s, "%v", err)
			}
			if n.Name == "_" {
				continue
			}
			out = append(out, "let "+env.declare(o)+" : "+lt+" := "+v)
		}
	}
	return out, nil
}

// store: let-lines for `lhs = v` (or `lhs := v`), v already coerced
func (p *pjPkg) store(lhs ast.Expr, v string, env *pjEnv) ([]string, error) {
	if id, ok := lhs.(*ast.Ident); ok {
		if id.Name == "_" {
			return nil, nil
		}
		if o := p.info.Defs[id]; o != nil {
			lt, err := p.leanType(o.Type())
			if err != nil {
				return nil, p.errf(lhs, "%v", err)
			}
			return []string{"let " + env.declare(o) + " : " + lt + " := " + v}, nil
		}
	}
	lv, err := p.lvalOf(lhs, env)
	if err != nil {
		return nil, err
	}
	return p.lvalSet(lhs, lv, v, env)
}

var pjAssignOps = map[token.Token]token.Token{token.ADD_ASSIGN: token.ADD, token.SUB_ASSIGN: token.SUB, token.MUL_ASSIGN: token.MUL, token.QUO_ASSIGN: token.QUO}

// assignOp: `x op= y`
func (p *pjPkg) assignOp(n ast.Node, lhs ast.Expr, op token.Token, y string, yExpr ast.Expr, env *pjEnv) ([]string, error) {
	bop, ok := pjAssignOps[op]
	if !ok {
		return nil, p.errf(n, "assignment operator %s", op)
	}
	x, err := p.expr(lhs, env)
	if err != nil {
		return nil, err
	}
	t := p.typeOf(lhs)
	b, ok := t.(*types.Basic)
	var v string
	switch {
	case ok && b.Kind() == types.Int && pjIntArith[bop] != "":
		v = "(" + x + " " + pjIntArith[bop] + " " + y + ")"
	case ok && b.Kind() == types.Float64:
		o := pjF64Ops[bop]
		v = "(" + p.useOp(o[0], "F → F → "+o[1], "float64 operator `"+bop.String()+"`") + " " + pjAtom(x) + " " + pjAtom(y) + ")"
	default:
		return nil, p.errf(n, "%s on %s", op, t)
	}
	return p.store(lhs, v, env)
}

func (p *pjPkg) assign(s *ast.AssignStmt, env *pjEnv) ([]string, error) {
	if s.Tok != token.ASSIGN && s.Tok != token.DEFINE {
		if len(s.Lhs) != 1 || len(s.Rhs) != 1 {
			return nil, p.errf(s, "assignment")
		}
		y, err := p.expr(s.Rhs[0], env)
		if err != nil {
			return nil, err
		}
		return p.assignOp(s, s.Lhs[0], s.Tok, y, s.Rhs[0], env)
	}
	if len(s.Rhs) == 1 {
		if c, ok := ast.Unparen(s.Rhs[0]).(*ast.CallExpr); ok {
			v, lvs, err := p.call(c, env)
			if err != nil {
				return nil, err
			}
			if len(s.Lhs) > 1 || len(lvs) > 0 {
				return p.storeCall(s, c, v, lvs, s.Lhs, env)
			}
		}
	}
	if len(s.Lhs) != len(s.Rhs) {
		return nil, p.errf(s, "assignment of %d values to %d", len(s.Rhs), len(s.Lhs))
	}
	var vals []string
	for i, r := range s.Rhs {
		v, err := p.expr(r, env)
		if err != nil {
			return nil, err
		}
		if v, err = p.coerce(r, v, p.typeOf(r), p.typeOf(s.Lhs[i])); err != nil {
			return nil, err
		}
		vals = append(vals, v)
	}
	var out []string
	if len(vals) > 1 { // parallel assignment: right-hand sides first
		for i := range vals {
			t := p.fresh("t")
			out = append(out, "let "+t+" := "+vals[i])
			vals[i] = t
		}
	}
	for i, l := range s.Lhs {
		ls, err := p.store(l, vals[i], env)
		if err != nil {
			return nil, err
		}
		out = append(out, ls...)
	}
	return out, nil
}

// storeCall: c' := call; the results go to lhs (may be nil: results dropped), the new pointees to lvs
func (p *pjPkg) storeCall(n ast.Node, c *ast.CallExpr, v string, lvs []*pjLval, lhs []ast.Expr, env *pjEnv) ([]string, error) {
	var rts []types.Type
	switch t := p.typeOf(c).(type) {
	case *types.Tuple:
		for i := 0; i < t.Len(); i++ {
			rts = append(rts, t.At(i).Type())
		}
	default:
		if t != nil {
			rts = append(rts, t)
		}
	}
	if lhs != nil && len(lhs) != len(rts) {
		return nil, p.errf(n, "assignment of %d values to %d", len(rts), len(lhs))
	}
	total := len(rts) + len(lvs)
	tmp := p.fresh("c")
	out := []string{"let " + tmp + " := " + v}
	for i, l := range lhs {
		pv, err := p.coerce(l, pjProj(tmp, i, total), rts[i], p.typeOf(l))
		if err != nil {
			return nil, err
		}
		ls, err := p.store(l, pv, env)
		if err != nil {
			return nil, err
		}
		out = append(out, ls...)
	}
	for j, lv := range lvs {
		ls, err := p.lvalSet(n, lv, pjProj(tmp, len(rts)+j, total), env)
		if err != nil {
			return nil, err
		}
		out = append(out, ls...)
	}
	return out, nil
}

func (p *pjPkg) exprStmt(s *ast.ExprStmt, env *pjEnv) ([]string, error) {
	c, ok := ast.Unparen(s.X).(*ast.CallExpr)
	if !ok {
		return nil, p.errf(s, "expression statement")
	}
	if n := len(c.Args); n > 0 {
		if lit, ok := c.Args[n-1].(*ast.FuncLit); ok {
			return p.iterStmt(c, lit, env)
		}
	}
	if fs, ok := p.isMutatorCall(c); ok {
		// x.M(args) ↦ x := ops.tM x args
		sel := p.info.Selections[fs]
		fn := sel.Obj().(*types.Func)
		x, err := p.lvalOf(fs.X, env)
		if err != nil {
			return nil, err
		}
		path := sel.Index()
		lv, err := p.lvalPath(c, x, path[:len(path)-1])
		if err != nil {
			return nil, err
		}
		if el, isPtr := pjDeref(lv.t); isPtr {
			lv = &pjLval{kind: 3, x: lv, t: el}
		}
		named, ok := lv.t.(*types.Named)
		if !ok {
			return nil, p.errf(c, "method of an unnamed type")
		}
		rv, err := p.lvalGet(c, lv, env)
		if err != nil {
			return nil, err
		}
		lt, err := p.leanType(lv.t)
		if err != nil {
			return nil, p.errf(c, "%v", err)
		}
		sig := fn.Type().(*types.Signature)
		ty, _, err := p.opSig(c, lt, sig, c.Args)
		if err != nil {
			return nil, err
		}
		ty = strings.TrimSuffix(ty, "Unit") + lt
		args, err := p.args(c, sig, env)
		if err != nil {
			return nil, err
		}
		op := p.useOp(pjLower(p.absName(named))+pjUpper(fn.Name()), ty, p.funcDoc(fn)+"; a method without results on a pointer receiver: the field gives the receiver after the call")
		return p.lvalSet(c, lv, "("+op+" "+strings.Join(append([]string{pjAtom(rv)}, args...), " ")+")", env)
	}
	v, lvs, err := p.call(c, env)
	if err != nil {
		return nil, err
	}
	if len(lvs) == 0 {
		return nil, p.errf(s, "a call whose results are dropped and that writes nothing (callees are taken to be pure)")
	}
	return p.storeCall(s, c, v, lvs, nil, env)
}

// iterStmt: x.ForEach(func(a, b T) bool {…}) ↦ searchFold over the list of what the iterator is offered
func (p *pjPkg) iterStmt(c *ast.CallExpr, lit *ast.FuncLit, env *pjEnv) ([]string, error) {
	fn := p.calleeFunc(c)
	if fn == nil || p.isTarget(fn) {
		return nil, p.errf(c, "call with a function literal")
	}
	sig := fn.Type().(*types.Signature)
	if sig.Results().Len() != 0 {
		return nil, p.errf(c, "iteration callee %s has results", fn.Name())
	}
	lsig := p.typeOf(lit).(*types.Signature)
	if lsig.Results().Len() != 1 || !types.Identical(lsig.Results().At(0).Type(), types.Typ[types.Bool]) {
		return nil, p.errf(c, "iterator function does not return bool")
	}
	var elTys []string
	for i := 0; i < lsig.Params().Len(); i++ {
		lt, err := p.leanType(lsig.Params().At(i).Type())
		if err != nil {
			return nil, p.errf(c, "%v", err)
		}
		elTys = append(elTys, lt)
	}
	elTy := pjProdTy(elTys)
	var parts, args []string
	name := pjLower(fn.Name())
	if fs, ok := ast.Unparen(c.Fun).(*ast.SelectorExpr); ok {
		if _, isM := p.info.Selections[fs]; isM {
			v, t, err := p.receiver(c, fs, env)
			if err != nil {
				return nil, err
			}
			named, ok := t.(*types.Named)
			if !ok {
				return nil, p.errf(c, "method of an unnamed type")
			}
			lt, err := p.leanType(t)
			if err != nil {
				return nil, p.errf(c, "%v", err)
			}
			parts, args, name = append(parts, lt), append(args, pjAtom(v)), pjLower(p.absName(named))+pjUpper(fn.Name())
		} else if !p.local(fn.Pkg()) {
			name = pjLower(fn.Pkg().Name()) + pjUpper(fn.Name())
		}
	}
	for i, a := range c.Args[:len(c.Args)-1] {
		v, err := p.expr(a, env)
		if err != nil {
			return nil, err
		}
		lt, err := p.leanType(sig.Params().At(i).Type())
		if err != nil {
			return nil, p.errf(c, "%v", err)
		}
		parts, args = append(parts, lt), append(args, pjAtom(v))
	}
	op := p.useOp(name, strings.Join(append(parts, "(List "+pjAtomTy(elTy)+")"), " → "),
		p.funcDoc(fn)+"; the list of what the iterator is offered, in order (searchFold cuts it where the iterator answers false)")
	state := p.assignedIn(env, lit.Body)
	stTy, err := p.stateType(state, env)
	if err != nil {
		return nil, p.errf(c, "%v", err)
	}
	inner := env.copy()
	x, st := p.fresh("x"), p.fresh("st")
	var body []string
	i := 0
	for _, f := range lit.Type.Params.List {
		for _, n := range f.Names {
			if n.Name != "_" {
				body = append(body, "let "+inner.declare(p.info.Defs[n])+" : "+elTys[i]+" := "+pjProj(x, i, len(elTys)))
			}
			i++
		}
	}
	bs, err := p.bindState(state, inner, st)
	if err != nil {
		return nil, p.errf(c, "%v", err)
	}
	body = append(body, bs...)
	ctx := &pjCtx{
		retBase: func(vals []string, e *pjEnv) (string, error) {
			return "(" + p.stateTuple(state, e) + ", " + vals[0] + ")", nil
		},
		retRaw:  func(string, *pjEnv) (string, error) { return "", fmt.Errorf("tuple return in a function literal") },
		wrap:    func(s string) string { return s },
		end:     func(*pjEnv) ([]string, error) { return nil, p.errf(lit, "function literal may end without return") },
		resTy:   "(" + stTy + " × Bool)",
		results: []types.Type{types.Typ[types.Bool]},
	}
	if p.cur != nil {
		p.cur.inClosure++
	}
	ls, err := p.block(lit.Body.List, inner, ctx)
	if p.cur != nil {
		p.cur.inClosure--
	}
	if err != nil {
		return nil, err
	}
	body = append(body, ls...)
	res := p.fresh("r")
	fterm, err := p.lift(lit, "lit", env, state, "("+x+" : "+pjAtomTy(elTy)+") ("+st+" : "+pjAtomTy(stTy)+")", ctx.resTy, body)
	if err != nil {
		return nil, err
	}
	out := []string{"let " + res + " : " + stTy + " := searchFold " + fterm + " (" + op + " " + strings.Join(args, " ") + ") " + p.stateTuple(state, env)}
	bs, err = p.bindState(state, env, res)
	if err != nil {
		return nil, p.errf(c, "%v", err)
	}
	return append(out, bs...), nil
}

// ---------------------------------------------------------------- branching

type pjArm struct {
	cond    string // Bool expression; "" (and optExpr "") for the final else
	optExpr string // when set: the arm is taken when optExpr is `some v`; v is bound by pre
	optVar  string
	pre     func(e *pjEnv) ([]string, error)
	body    []ast.Stmt
	node    ast.Node
}

func pjChain(arms []pjArm, bodies [][]string) []string {
	a := arms[0]
	if a.cond == "" && a.optExpr == "" {
		return bodies[0]
	}
	rest := pjChain(arms[1:], bodies[1:])
	if a.optExpr != "" {
		out := []string{"match " + a.optExpr + " with", "| some " + a.optVar + " =>"}
		out = append(out, pjIndent(bodies[0])...)
		out = append(out, "| none =>")
		return append(out, pjIndent(rest)...)
	}
	out := []string{"if " + a.cond + " then"}
	out = append(out, pjIndent(bodies[0])...)
	if len(arms) > 1 && arms[1].cond != "" && arms[1].optExpr == "" && strings.HasPrefix(rest[0], "if ") {
		rest[0] = "else " + rest[0]
		return append(out, rest...)
	}
	out = append(out, "else")
	return append(out, pjIndent(rest)...)
}

// branch: a statement with several arms, followed by the continuation k
func (p *pjPkg) branch(n ast.Node, arms []pjArm, leaves bool, env *pjEnv, ctx *pjCtx, k func(*pjEnv) ([]string, error), cheapK bool) ([]string, error) {
	if last := arms[len(arms)-1]; last.cond != "" || last.optExpr != "" {
		arms = append(arms, pjArm{})
	}
	nFall := 0
	var nodes []ast.Node
	for _, a := range arms {
		if !p.terminates(a.body) {
			nFall++
		}
		for _, s := range a.body {
			nodes = append(nodes, s)
		}
	}
	render := func(sub *pjCtx) ([]string, error) {
		var bodies [][]string
		for _, a := range arms {
			e := env.copy()
			var pre []string
			if a.pre != nil {
				var err error
				if pre, err = a.pre(e); err != nil {
					return nil, err
				}
			}
			ls, err := p.block(a.body, e, sub)
			if err != nil {
				return nil, err
			}
			bodies = append(bodies, append(pre, ls...))
		}
		return pjChain(arms, bodies), nil
	}
	if nFall <= 1 || cheapK {
		sub := *ctx
		sub.cheap = cheapK
		sub.end = func(e *pjEnv) ([]string, error) {
			if a := n; a != nil {
				e.dropScope(a)
			}
			return k(e)
		}
		return render(&sub)
	}
	join := p.assignedIn(env, nodes...)
	jTy, err := p.stateType(join, env)
	if err != nil {
		return nil, p.errf(n, "%v", err)
	}
	if !leaves {
		if len(join) == 0 {
			return k(env) // no effect
		}
		sub := &pjCtx{wrap: ctx.wrap, resTy: jTy, cheap: true,
			end: func(e *pjEnv) ([]string, error) { return []string{p.stateTuple(join, e)}, nil }}
		chain, err := render(sub)
		if err != nil {
			return nil, err
		}
		j := p.fresh("j")
		out := append([]string{"let " + j + " : " + jTy + " :="}, pjIndent(chain)...)
		bs, err := p.bindState(join, env, j)
		if err != nil {
			return nil, p.errf(n, "%v", err)
		}
		out = append(out, bs...)
		more, err := k(env)
		return append(out, more...), err
	}
	sub := *ctx
	sub.resTy = "(Exit " + pjAtomTy(jTy) + " " + pjAtomTy(ctx.resTy) + ")"
	sub.wrap = func(s string) string { return "(Exit.ret " + pjAtom(ctx.wrap(s)) + ")" }
	if ctx.brk != nil {
		sub.brk = func(e *pjEnv) (string, error) {
			v, err := ctx.brk(e)
			return "(Exit.ret " + pjAtom(v) + ")", err
		}
		sub.cont = func(e *pjEnv) (string, error) {
			v, err := ctx.cont(e)
			return "(Exit.ret " + pjAtom(v) + ")", err
		}
	}
	sub.cheap = true
	sub.end = func(e *pjEnv) ([]string, error) { return []string{"Exit.done " + pjAtom(p.stateTuple(join, e))}, nil }
	chain, err := render(&sub)
	if err != nil {
		return nil, err
	}
	ex, j, r := p.fresh("e"), p.fresh("j"), p.fresh("r")
	out := append([]string{"let " + ex + " : " + sub.resTy + " :="}, pjIndent(chain)...)
	out = append(out, "match "+ex+" with", "| Exit.ret "+r+" => "+r, "| Exit.done "+j+" =>")
	bs, err := p.bindState(join, env, j)
	if err != nil {
		return nil, p.errf(n, "%v", err)
	}
	more, err := k(env)
	if err != nil {
		return nil, err
	}
	return append(out, pjIndent(append(bs, more...))...), nil
}

func (p *pjPkg) initLines(init ast.Stmt, env *pjEnv) ([]string, error) {
	switch s := init.(type) {
	case nil:
		return nil, nil
	case *ast.AssignStmt:
		return p.assign(s, env)
	}
	return nil, p.errf(init, "init statement %T", init)
}

func (p *pjPkg) ifStmt(s *ast.IfStmt, env *pjEnv, ctx *pjCtx, k func(*pjEnv) ([]string, error), cheapK bool) ([]string, error) {
	pre, err := p.initLines(s.Init, env)
	if err != nil {
		return nil, err
	}
	var arms []pjArm
	cur := s
	for {
		if cur != s && cur.Init != nil {
			return nil, p.errf(cur, "else-if with an init statement")
		}
		c, err := p.expr(cur.Cond, env)
		if err != nil {
			return nil, err
		}
		arms = append(arms, pjArm{cond: c, body: cur.Body.List})
		if next, ok := cur.Else.(*ast.IfStmt); ok {
			cur = next
			continue
		}
		if cur.Else != nil {
			arms = append(arms, pjArm{body: cur.Else.(*ast.BlockStmt).List})
		}
		break
	}
	ls, err := p.branch(s, arms, pjLeaves(s, false, false, false), env, ctx, k, cheapK)
	return append(pre, ls...), err
}

// equal: Go's == on two values of type t
func (p *pjPkg) equal(n ast.Node, x, y string, t types.Type) (string, error) {
	lt, err := p.leanType(t)
	if err != nil {
		return "", p.errf(n, "%v", err)
	}
	if named, ok := t.(*types.Named); ok {
		if p.local(named.Obj().Pkg()) && p.structural[named] {
			return "", p.errf(n, "== on %s", t)
		}
		op := p.useOp(pjLower(p.absName(named))+"Eq", lt+" → "+lt+" → Bool", "Go's `==` on "+named.String())
		return "(" + op + " " + pjAtom(x) + " " + pjAtom(y) + ")", nil
	}
	if b, ok := t.Underlying().(*types.Basic); ok {
		switch b.Kind() {
		case types.Int, types.Uint8, types.Bool:
			return "(" + x + " == " + y + ")", nil
		case types.Float64:
			return "(" + p.useOp("f64Eq", "F → F → Bool", "float64 operator `==`") + " " + pjAtom(x) + " " + pjAtom(y) + ")", nil
		case types.String:
			return "(" + p.useOp("strEq", "Str → Str → Bool", "Go's `==` on strings") + " " + pjAtom(x) + " " + pjAtom(y) + ")", nil
		}
	}
	return "", p.errf(n, "== on %s", t)
}

// caseBody: the statements of a switch clause; a final `break` is the end of the clause
func (p *pjPkg) caseBody(cc ast.Node, body []ast.Stmt) ([]ast.Stmt, error) {
	if pjEndsWithBreak(body) {
		body = body[:len(body)-1]
	}
	for _, s := range body {
		if pjLeaves(s, false, false, true) {
			return nil, p.errf(s, "break inside a switch clause other than as its last statement")
		}
		if b, ok := s.(*ast.BranchStmt); ok && b.Tok == token.FALLTHROUGH {
			return nil, p.errf(s, "fallthrough")
		}
	}
	return body, nil
}

func (p *pjPkg) switchStmt(s *ast.SwitchStmt, env *pjEnv, ctx *pjCtx, k func(*pjEnv) ([]string, error), cheapK bool) ([]string, error) {
	pre, err := p.initLines(s.Init, env)
	if err != nil {
		return nil, err
	}
	tag := ""
	var tagT types.Type
	if s.Tag != nil {
		v, err := p.expr(s.Tag, env)
		if err != nil {
			return nil, err
		}
		tagT = p.typeOf(s.Tag)
		if _, isIdent := ast.Unparen(s.Tag).(*ast.Ident); isIdent {
			tag = v
		} else {
			tag = p.fresh("t")
			pre = append(pre, "let "+tag+" := "+v)
		}
	}
	var arms []pjArm
	var def *pjArm
	for _, c := range s.Body.List {
		cc := c.(*ast.CaseClause)
		body, err := p.caseBody(cc, cc.Body)
		if err != nil {
			return nil, err
		}
		if cc.List == nil {
			def = &pjArm{body: body}
			continue
		}
		var conds []string
		for _, e := range cc.List {
			v, err := p.expr(e, env)
			if err != nil {
				return nil, err
			}
			if tag != "" {
				if v, err = p.equal(e, tag, v, tagT); err != nil {
					return nil, err
				}
			}
			conds = append(conds, v)
		}
		cond := conds[0]
		if len(conds) > 1 {
			cond = "(" + strings.Join(conds, " || ") + ")"
		}
		arms = append(arms, pjArm{cond: cond, body: body})
	}
	if def != nil {
		arms = append(arms, *def)
	}
	if len(arms) == 0 {
		ls, err := k(env)
		return append(pre, ls...), err
	}
	leaves := false
	for _, a := range arms {
		for _, st := range a.body {
			leaves = leaves || pjLeaves(st, false, false, false)
		}
	}
	ls, err := p.branch(s, arms, leaves, env, ctx, k, cheapK)
	return append(pre, ls...), err
}

// typeSwitch: switch v := x.(type) { case *T: … } ↦ match ops.<iface>As<T> x with | some v' => … | none => …
func (p *pjPkg) typeSwitch(s *ast.TypeSwitchStmt, env *pjEnv, ctx *pjCtx, k func(*pjEnv) ([]string, error), cheapK bool) ([]string, error) {
	if s.Init != nil {
		return nil, p.errf(s, "type switch with an init statement")
	}
	var ta *ast.TypeAssertExpr
	switch a := s.Assign.(type) {
	case *ast.AssignStmt:
		ta, _ = a.Rhs[0].(*ast.TypeAssertExpr)
	case *ast.ExprStmt:
		ta, _ = a.X.(*ast.TypeAssertExpr)
	}
	if ta == nil {
		return nil, p.errf(s, "type switch")
	}
	x, err := p.expr(ta.X, env)
	if err != nil {
		return nil, err
	}
	xt := p.typeOf(ta.X)
	xn, ok := xt.(*types.Named)
	if !ok {
		return nil, p.errf(s, "type switch on %s", xt)
	}
	xlt, err := p.leanType(xt)
	if err != nil {
		return nil, p.errf(s, "%v", err)
	}
	var arms []pjArm
	var def *pjArm
	for _, c := range s.Body.List {
		cc := c.(*ast.CaseClause)
		body, err := p.caseBody(cc, cc.Body)
		if err != nil {
			return nil, err
		}
		if cc.List == nil {
			def = &pjArm{body: body}
			continue
		}
		if len(cc.List) != 1 {
			return nil, p.errf(cc, "type switch clause with several types")
		}
		ct := p.typeOf(cc.List[0])
		el, isPtr := pjDeref(ct)
		en, ok := el.(*types.Named)
		if !ok {
			return nil, p.errf(cc, "type switch clause %s", ct)
		}
		elt, err := p.leanType(el)
		if err != nil {
			return nil, p.errf(cc, "%v", err)
		}
		op := p.useOp(pjLower(p.absName(xn))+"As"+p.absName(en), xlt+" → (Option "+pjAtomTy(elt)+")",
			fmt.Sprintf("the dynamic type test `.(%s)` on a %s: the value when it has that dynamic type", ct, xn.Obj().Name()))
		v := p.fresh("v")
		obj := p.info.Implicits[cc]
		arm := pjArm{optExpr: op + " " + pjAtom(x), optVar: v, body: body}
		if obj != nil {
			clt, err := p.leanType(ct)
			if err != nil {
				return nil, p.errf(cc, "%v", err)
			}
			val := v
			if isPtr {
				val = "(some " + v + ")"
			}
			arm.pre = func(e *pjEnv) ([]string, error) {
				return []string{"let " + e.declare(obj) + " : " + clt + " := " + val}, nil
			}
		}
		arms = append(arms, arm)
	}
	if def != nil {
		arms = append(arms, *def)
	}
	if len(arms) == 0 {
		return k(env)
	}
	leaves := false
	for _, a := range arms {
		for _, st := range a.body {
			leaves = leaves || pjLeaves(st, false, false, false)
		}
	}
	return p.branch(s, arms, leaves, env, ctx, k, cheapK)
}

// ---------------------------------------------------------------- loops

func (p *pjPkg) usesAny(e ast.Expr, objs []types.Object) bool {
	found := false
	ast.Inspect(e, func(n ast.Node) bool {
		if id, ok := n.(*ast.Ident); ok {
			for _, o := range objs {
				if p.info.Uses[id] == o {
					found = true
				}
			}
		}
		return !found
	})
	return found
}

// loop: forRange / loopFuel over `list` (empty: unbounded) with element variable el
func (p *pjPkg) loop(n ast.Node, body *ast.BlockStmt, post ast.Stmt, el types.Object, elTy, list string, extra []types.Object,
	env *pjEnv, ctx *pjCtx, k func(*pjEnv) ([]string, error)) ([]string, error) {
	state := p.assignedIn(env, body, post)
	for _, o := range extra {
		dup := false
		for _, q := range state {
			dup = dup || q == o
		}
		if !dup {
			state = append(state, o)
		}
	}
	sort.Slice(state, func(i, j int) bool { return state[i].Pos() < state[j].Pos() })
	stTy, err := p.stateType(state, env)
	if err != nil {
		return nil, p.errf(n, "%v", err)
	}
	inner := env.copy()
	x, st := p.fresh("x"), p.fresh("st")
	var lines []string
	if el != nil && el.Name() != "_" {
		lines = append(lines, "let "+inner.declare(el)+" : "+elTy+" := "+x)
	}
	bs, err := p.bindState(state, inner, st)
	if err != nil {
		return nil, p.errf(n, "%v", err)
	}
	lines = append(lines, bs...)
	next := func(e *pjEnv) (string, error) {
		if post == nil {
			return "Flow.next " + pjAtom(p.stateTuple(state, e)), nil
		}
		e2 := e.copy()
		var ls []string
		var err error
		switch q := post.(type) {
		case *ast.IncDecStmt:
			op := token.ADD_ASSIGN
			if q.Tok == token.DEC {
				op = token.SUB_ASSIGN
			}
			ls, err = p.assignOp(q, q.X, op, "(1 : Int)", nil, e2)
		case *ast.AssignStmt:
			ls, err = p.assign(q, e2)
		default:
			err = p.errf(post, "post statement")
		}
		if err != nil {
			return "", err
		}
		return "(" + strings.Join(append(ls, "Flow.next "+pjAtom(p.stateTuple(state, e2))), "; ") + ")", nil
	}
	sub := *ctx
	sub.resTy = "(Flow " + pjAtomTy(stTy) + " " + pjAtomTy(ctx.resTy) + ")"
	sub.wrap = func(s string) string { return "(Flow.ret " + pjAtom(ctx.wrap(s)) + ")" }
	sub.brk = func(e *pjEnv) (string, error) { return "Flow.brk " + pjAtom(p.stateTuple(state, e)), nil }
	sub.cont = next
	sub.cheap = true
	sub.end = func(e *pjEnv) ([]string, error) {
		v, err := next(e)
		return []string{v}, err
	}
	ls, err := p.block(body.List, inner, &sub)
	if err != nil {
		return nil, err
	}
	lines = append(lines, ls...)
	l, r, d := p.fresh("l"), p.fresh("r"), p.fresh("st")
	exitTy := "(Exit " + pjAtomTy(stTy) + " " + pjAtomTy(ctx.resTy) + ")"
	var out []string
	bs, err = p.bindState(state, env, d)
	if err != nil {
		return nil, p.errf(n, "%v", err)
	}
	var more []string
	if list == "" && !pjLeaves(body, false, false, true) {
		// no break: the loop is left by return only
		bs, more = nil, []string{ctx.wrap("none") + " -- not reached: the loop has no break"}
	} else if more, err = k(env); err != nil {
		return nil, err
	}
	if list != "" {
		fterm, err := p.lift(body, "body", env, state, "("+x+" : "+pjAtomTy(elTy)+") ("+st+" : "+pjAtomTy(stTy)+")", sub.resTy, lines)
		if err != nil {
			return nil, err
		}
		out = append(out, "let "+l+" : "+exitTy+" := forRange "+fterm+" "+list+" "+p.stateTuple(state, env))
		out = append(out, "match "+l+" with", "| Exit.ret "+r+" => "+r, "| Exit.done "+d+" =>")
		return append(out, pjIndent(append(bs, more...))...), nil
	}
	if p.cur == nil || !p.cur.fuel || ctx.retBase == nil || ctx.results == nil || p.cur.inClosure > 0 {
		return nil, p.errf(n, "a loop without condition inside a function literal")
	}
	fterm, err := p.lift(body, "body", env, state, "("+st+" : "+pjAtomTy(stTy)+")", sub.resTy, lines)
	if err != nil {
		return nil, err
	}
	out = append(out, "let "+l+" : Option "+exitTy+" := loopFuel "+fterm+" fuel "+p.stateTuple(state, env))
	out = append(out, "match "+l+" with", "| none => "+ctx.wrap("none"), "| some (Exit.ret "+r+") => "+r, "| some (Exit.done "+d+") =>")
	return append(out, pjIndent(append(bs, more...))...), nil
}

func (p *pjPkg) forStmt(s *ast.ForStmt, env *pjEnv, ctx *pjCtx, k func(*pjEnv) ([]string, error)) ([]string, error) {
	var iv types.Object
	var pre []string
	if s.Init != nil {
		a, ok := s.Init.(*ast.AssignStmt)
		if !ok || a.Tok != token.DEFINE || len(a.Lhs) != 1 || len(a.Rhs) != 1 {
			return nil, p.errf(s, "for: init is not `i := e`")
		}
		iv = p.info.Defs[a.Lhs[0].(*ast.Ident)]
	}
	if s.Cond == nil {
		// unbounded: the loop variable is part of the state
		var err error
		if pre, err = p.initLines(s.Init, env); err != nil {
			return nil, err
		}
		var extra []types.Object
		if iv != nil {
			extra = append(extra, iv)
		}
		ls, err := p.loop(s, s.Body, s.Post, nil, "", "", extra, env, ctx, k)
		return append(pre, ls...), err
	}
	c, ok := s.Cond.(*ast.BinaryExpr)
	post, ok2 := s.Post.(*ast.IncDecStmt)
	if iv == nil || !ok || !ok2 || c.Op != token.LSS || post.Tok != token.INC {
		return nil, p.errf(s, "for: not of the form `for i := lo; i < hi; i++`")
	}
	ci, _ := ast.Unparen(c.X).(*ast.Ident)
	pi, _ := ast.Unparen(post.X).(*ast.Ident)
	if ci == nil || pi == nil || p.info.Uses[ci] != iv || p.info.Uses[pi] != iv {
		return nil, p.errf(s, "for: not of the form `for i := lo; i < hi; i++`")
	}
	if b, ok := iv.Type().(*types.Basic); !ok || b.Kind() != types.Int {
		return nil, p.errf(s, "for: loop variable of type %s", iv.Type())
	}
	lo, err := p.expr(s.Init.(*ast.AssignStmt).Rhs[0], env)
	if err != nil {
		return nil, err
	}
	hi, err := p.expr(c.Y, env)
	if err != nil {
		return nil, err
	}
	tmpEnv := env.copy()
	tmpEnv.names[iv] = "i"
	assigned := p.assignedIn(tmpEnv, s.Body)
	if p.usesAny(c.Y, assigned) || p.usesAny(c.Y, []types.Object{iv}) {
		return nil, p.errf(s, "for: the bound is assigned in the body")
	}
	for _, o := range assigned {
		if o == iv {
			return nil, p.errf(s, "for: the loop variable is assigned in the body")
		}
	}
	return p.loop(s, s.Body, nil, iv, "Int", "(intRange "+pjAtom(lo)+" "+pjAtom(hi)+")", nil, env, ctx, k)
}

func (p *pjPkg) rangeStmt(s *ast.RangeStmt, env *pjEnv, ctx *pjCtx, k func(*pjEnv) ([]string, error)) ([]string, error) {
	if s.Tok != token.DEFINE && !(s.Key == nil && s.Value == nil) {
		return nil, p.errf(s, "range with =")
	}
	if id, ok := s.Key.(*ast.Ident); s.Key != nil && (!ok || id.Name != "_") {
		return nil, p.errf(s, "range with an index variable")
	}
	t := p.typeOf(s.X)
	sl, ok := t.Underlying().(*types.Slice)
	if !ok || pjIsByteSlice(t) {
		return nil, p.errf(s, "range over %s", t)
	}
	x, err := p.expr(s.X, env)
	if err != nil {
		return nil, err
	}
	elTy, err := p.leanType(sl.Elem())
	if err != nil {
		return nil, p.errf(s, "%v", err)
	}
	var el types.Object
	if id, ok := s.Value.(*ast.Ident); ok && id.Name != "_" {
		el = p.info.Defs[id]
	}
	return p.loop(s, s.Body, nil, el, elTy, pjAtom(x), nil, env, ctx, k)
}

// ---------------------------------------------------------------- functions

func (p *pjPkg) isInout(g *pjFunc, v *types.Var) bool {
	for _, w := range g.inout {
		if w == v {
			return true
		}
	}
	return false
}

func (p *pjPkg) sigVars(g *pjFunc) []*types.Var {
	sig := g.obj.Type().(*types.Signature)
	var vs []*types.Var
	if sig.Recv() != nil {
		vs = append(vs, sig.Recv())
	}
	for i := 0; i < sig.Params().Len(); i++ {
		vs = append(vs, sig.Params().At(i))
	}
	return vs
}

func (p *pjPkg) paramType(g *pjFunc, v *types.Var) (string, error) {
	t := v.Type()
	if p.isInout(g, v) {
		t, _ = pjDeref(t)
	}
	return p.leanType(t)
}

// result type: the Go results, then the new pointees of the written-through pointer parameters
func (p *pjPkg) resultType(g *pjFunc) (string, error) {
	sig := g.obj.Type().(*types.Signature)
	var parts []string
	for i := 0; i < sig.Results().Len(); i++ {
		lt, err := p.leanType(sig.Results().At(i).Type())
		if err != nil {
			return "", err
		}
		parts = append(parts, lt)
	}
	for _, v := range g.inout {
		lt, err := p.paramType(g, v)
		if err != nil {
			return "", err
		}
		parts = append(parts, lt)
	}
	return pjProdTy(parts), nil
}

func (p *pjPkg) funcType(g *pjFunc, _ bool) (string, error) {
	var parts []string
	for _, v := range p.sigVars(g) {
		lt, err := p.paramType(g, v)
		if err != nil {
			return "", err
		}
		parts = append(parts, lt)
	}
	r, err := p.resultType(g)
	if err != nil {
		return "", err
	}
	return strings.Join(append(parts, r), " → "), nil
}

func (p *pjPkg) request(fn *types.Func) *pjFunc {
	if g, ok := p.funcs[fn]; ok {
		return g
	}
	d := p.decls[fn]
	g := &pjFunc{obj: fn, decl: d, name: pjIdent(fn.Name())}
	p.funcs[fn] = g
	g.inout = p.inoutOf(fn)
	ast.Inspect(d.Body, func(n ast.Node) bool {
		if f, ok := n.(*ast.ForStmt); ok && f.Cond == nil {
			g.fuel = true
		}
		return true
	})
	g.comment = fmt.Sprintf("/-- Go: `%s` — %s -/", p.srcText(d.Pos(), d.Body.Lbrace), p.pos(d))
	saved, savedTmp := p.cur, p.tmp
	p.cur, p.tmp = g, 0
	p.stack = append(p.stack, g)
	g.lines, g.err = p.function(g)
	p.stack = p.stack[:len(p.stack)-1]
	p.cur, p.tmp = saved, savedTmp
	g.done = true
	p.order = append(p.order, g)
	return g
}

func (p *pjPkg) function(g *pjFunc) ([]string, error) {
	d := g.decl
	sig := g.obj.Type().(*types.Signature)
	for i := 0; i < sig.Results().Len(); i++ {
		if sig.Results().At(i).Name() != "" {
			return nil, p.errf(d, "named results")
		}
	}
	if err := p.aliasCheck(d); err != nil {
		return nil, err
	}
	if err := p.copyCheck(d); err != nil {
		return nil, err
	}
	env := &pjEnv{names: map[types.Object]string{}, inout: map[types.Object]bool{}}
	head := "def " + g.name + "{{SIG}}"
	if g.fuel {
		head += " (fuel : Nat)"
	}
	for _, v := range p.sigVars(g) {
		lt, err := p.paramType(g, v)
		if err != nil {
			return nil, p.errf(d, "%v", err)
		}
		if p.isInout(g, v) {
			env.inout[v] = true
		}
		n := "_"
		if v.Name() != "" && v.Name() != "_" {
			n = env.declare(v)
		} else {
			n = p.fresh("a")
		}
		head += " (" + n + " : " + lt + ")"
	}
	resTy, err := p.resultType(g)
	if err != nil {
		return nil, p.errf(d, "%v", err)
	}
	g.resTy = resTy
	full := resTy
	if g.fuel {
		full = "Option " + pjAtomTy(resTy)
	}
	var results []types.Type
	for i := 0; i < sig.Results().Len(); i++ {
		results = append(results, sig.Results().At(i).Type())
	}
	finish := func(vals []string, e *pjEnv) (string, error) {
		for _, v := range g.inout {
			vals = append(vals, e.names[v])
		}
		s := "()"
		if len(vals) == 1 {
			s = vals[0]
		} else if len(vals) > 1 {
			s = "(" + strings.Join(vals, ", ") + ")"
		}
		if g.fuel {
			s = "(some " + pjAtom(s) + ")"
		}
		return s, nil
	}
	ctx := &pjCtx{
		retBase: finish,
		retRaw: func(v string, e *pjEnv) (string, error) {
			if len(g.inout) > 0 {
				return "", fmt.Errorf("forwarded call in a function that writes through pointer parameters")
			}
			if g.fuel {
				return "(some " + pjAtom(v) + ")", nil
			}
			return v, nil
		},
		wrap:    func(s string) string { return s },
		resTy:   full,
		results: results,
	}
	if results == nil {
		ctx.results, ctx.cheap = []types.Type{}, true
	}
	ctx.end = func(e *pjEnv) ([]string, error) {
		if len(results) > 0 {
			return nil, p.errf(d, "the function may end without return")
		}
		v, err := finish(nil, e)
		return []string{v}, err
	}
	body, err := p.block(d.Body.List, env, ctx)
	if err != nil {
		return nil, err
	}
	return append([]string{head + " : " + full + " :="}, pjIndent(body)...), nil
}

// ---------------------------------------------------------------- driver

func pjLoad(repo string) (*pjPkg, error) {
	cfg := &packages.Config{Mode: packages.NeedName | packages.NeedFiles | packages.NeedCompiledGoFiles | packages.NeedImports |
		packages.NeedDeps | packages.NeedTypes | packages.NeedSyntax | packages.NeedTypesInfo, Dir: repo, Tests: false}
	pkgs, err := packages.Load(cfg, ".")
	if err != nil {
		return nil, err
	}
	if len(pkgs) != 1 || len(pkgs[0].Errors) > 0 {
		if len(pkgs) == 1 {
			return nil, fmt.Errorf("package load errors: %v", pkgs[0].Errors)
		}
		return nil, fmt.Errorf("expected one package, got %d", len(pkgs))
	}
	p := &pjPkg{repo: repo, pkg: pkgs[0], info: pkgs[0].TypesInfo, fset: pkgs[0].Fset, ops: map[string]*pjOp{},
		tparams: map[string]string{}, structs: map[string]*pjStruct{}, structural: map[*types.Named]bool{},
		errs: map[string]string{}, errArgs: map[string]int{}, funcs: map[*types.Func]*pjFunc{}, pvars: map[string][]string{},
		srcs: map[string][]byte{}, decls: map[*types.Func]*ast.FuncDecl{}, assignedPkgVars: map[types.Object]bool{}}
	if abs := p.fset.Position(p.pkg.Syntax[0].Pos()).Filename; strings.Contains(abs, "/") {
		p.repo = abs[:strings.LastIndex(abs, "/")]
	}
	for _, f := range p.pkg.Syntax {
		for _, d := range f.Decls {
			if fd, ok := d.(*ast.FuncDecl); ok && fd.Body != nil {
				if fn, ok := p.info.Defs[fd.Name].(*types.Func); ok {
					p.decls[fn] = fd
				}
			}
		}
		// package variables assigned anywhere (their initialiser is then not their value)
		ast.Inspect(f, func(n ast.Node) bool {
			mark := func(e ast.Expr) {
				if o, _ := p.rootObj(e); o != nil && o.Parent() == p.pkg.Types.Scope() {
					p.assignedPkgVars[o] = true
				}
			}
			switch s := n.(type) {
			case *ast.AssignStmt:
				for _, l := range s.Lhs {
					mark(l)
				}
			case *ast.IncDecStmt:
				mark(s.X)
			case *ast.UnaryExpr:
				if s.Op == token.AND {
					if id, ok := ast.Unparen(s.X).(*ast.Ident); ok {
						mark(id)
					}
				}
			}
			return true
		})
	}
	return p, nil
}

func (p *pjPkg) targets() []*types.Func {
	var out []*types.Func
	for fn := range p.decls {
		if p.isTarget(fn) {
			out = append(out, fn)
		}
	}
	sort.Slice(out, func(i, j int) bool {
		a, b := out[i], out[j]
		if (a.Name() == "Parse") != (b.Name() == "Parse") {
			return a.Name() == "Parse"
		}
		return p.posP(a.Pos()) < p.posP(b.Pos())
	})
	return out
}

// markStructural: the struct types of the package whose fields the translated functions touch
// (field selection, literal, var declaration, new): these are regenerated as Lean structures;
// the other named types stay abstract type parameters
func (p *pjPkg) markStructural(fns []*types.Func) {
	var mark func(t types.Type)
	mark = func(t types.Type) {
		t, _ = pjDeref(t)
		n, ok := t.(*types.Named)
		if !ok || !p.local(n.Obj().Pkg()) || p.structural[n] {
			return
		}
		st, ok := n.Underlying().(*types.Struct)
		if !ok {
			return
		}
		p.structural[n] = true
		for i := 0; i < st.NumFields(); i++ {
			if st.Field(i).Embedded() {
				mark(st.Field(i).Type())
			}
		}
	}
	for _, fn := range fns {
		sig := fn.Type().(*types.Signature)
		if sig.Recv() != nil {
			mark(sig.Recv().Type())
		}
		ast.Inspect(p.decls[fn].Body, func(n ast.Node) bool {
			switch e := n.(type) {
			case *ast.SelectorExpr:
				if sel, ok := p.info.Selections[e]; ok && sel.Kind() == types.FieldVal {
					t := sel.Recv()
					for _, idx := range sel.Index() {
						mark(t)
						el, _ := pjDeref(t)
						if st, ok := el.Underlying().(*types.Struct); ok {
							t = st.Field(idx).Type()
						}
					}
				}
			case *ast.CompositeLit:
				mark(p.typeOf(e))
			case *ast.ValueSpec:
				for _, nm := range e.Names {
					if o := p.info.Defs[nm]; o != nil {
						mark(o.Type())
					}
				}
			case *ast.CallExpr:
				if id, ok := e.Fun.(*ast.Ident); ok && id.Name == "new" && len(e.Args) == 1 {
					if _, ok := p.info.Uses[id].(*types.Builtin); ok {
						mark(p.typeOf(e.Args[0]))
					}
				}
			}
			return true
		})
	}
}

const pjHeader = `/-
  GENERATED FILE — do not edit.  Regenerate with
      cd /verif/translate && go build -o bin/translate . && \
        ./bin/translate parsers /repo > /verif/lean/GeoModel/Generated/ParseGen.lean

  Syntactic translation (translate/parsers.go) of the JSON parsers of the root package: every function
  or method of package geojson whose name is Parse, toGeometryOpts or parse<Upper…> (parseJSON, the
  parseJSON<Kind> and parseJSON<Kind>Coords functions, parseBBoxAndExtras, (*collection).parseInitRectIndex).
  The package is type-checked first (go/packages); every choice below depends on the static type of the
  expression at hand only.

  Conventions:
    * the definitions take ops : Ops <type parameters>: one field per distinct callee / operator /
      constant that is not itself translated here, found in the source; the callees are taken to be pure.
      Type parameters: F = float64, Str = string, Bytes = []byte, a named type T of another package
      ↦ <Pkg>T (GjsonResult, GeometryPoint, …), a named type of this package whose fields are not touched
      ↦ its name (Object, Circle, Rect); byte ↦ UInt8, int ↦ Int (unbounded), bool ↦ Bool;
      []T and [n]T ↦ List T (nil ↦ []; a[i] ↦ arrAt zero a i, a[i] = v ↦ arrSet a i v: an index out of
      range, a panic in Go, gives the zero value resp. changes nothing; append(a, v) ↦ a ++ [v]; a[lo:] ↦
      sliceFrom a lo; len ↦ Int.ofNat (List.length a); make([]T, n) ↦ List.replicate n zero);
      *T ↦ Option T (nil ↦ none, &x and new(T) ↦ some …, *p and p.f ↦ deref zero p: a nil dereference,
      a panic in Go, gives the zero value).  POINTERS ARE VALUES: two names for one pointee are not
      tracked (no translated function writes through a pointer after copying it and reads the copy);
    * a struct type of this package some field of which is touched ↦ a Lean structure with the same
      fields (lower-case first letter; an embedded T ↦ field t) and a zero<Name> value; x.f = v ↦
      { x with f := v }; through a pointer ↦ some { deref zero p with f := v };
    * a struct type of another package: field F ↦ ops.<t>F, assignment to it ↦ ops.<t>SetF, literal ↦
      ops.mk<T> (all fields, declaration order), == ↦ ops.<t>Eq, zero value ↦ ops.zero<T>;
      float64 operators ↦ ops.f64Add, f64Lt, …; string operators ↦ ops.strEq, strLen, strAt, strSliceFrom,
      string constants ↦ ops.strLit "…"; a constant of a named type ↦ an Ops field of its name;
    * an interface type (Object) ↦ a type parameter; nil ↦ ops.nilObject; a *T converted to it ↦
      ops.objectOf<T> (the struct value); a method call ↦ ops.object<Method>; a type switch
      ` + "`switch v := x.(type) { case *T: A … }`" + ` ↦ match ops.objectAs<T> x with | some v' => A | none => …;
    * error ↦ Option (Err Str): nil ↦ none; a package variable err… = errors.New(…) ↦ the constructor
      Err.err…; fmt.Errorf(CONST, strings…) ↦ the constructor Err.CONST applied to the strings;
    * a pointer parameter (or receiver) that the function WRITES THROUGH (*p = …, p.f = …) stands for
      its pointee: the value comes in as that parameter and goes out as an extra component of the
      result (results first); at a call  g(&x, …)  x is rebound to that component;
    * ITERATION: x.ForEach(func(a A, b B) bool {…}) — any call whose last argument is a function literal
      returning bool — ↦ ops.<t>ForEach : T → List (A × B), the list of what the iterator is offered, in
      order; the call becomes  searchFold (fun x' st' => body) (ops.<t>ForEach x) st, st the tuple of
      the captured variables the literal assigns (also inside nested literals), ` + "`return e`" + ` in the literal
      ↦ (st, e): the fold stops after the first element for which e is false;
    * a void method of another package on a pointer receiver, as a statement (tree.Insert(…)) ↦
      x := ops.<t>Insert x args;
    * a statement list becomes one expression, continuation style: x := e, x = e, x += e, x++ ↦ let
      (shadowing; a variable that would shadow a live one of the same name gets a suffix _1, _2…); the
      statements after an if / switch go into the one arm that falls through; when several arms fall
      through they are joined: let j' := if … then (vars) else (vars), vars the variables assigned, or,
      when an arm may leave (return / break / continue),  let e' : Exit σ ρ := if … then Exit.ret r
      else Exit.done vars;  match e' with | Exit.ret r' => r' | Exit.done j' => rest;
    * for i := lo; i < hi; i++ (bound and i not assigned in the body) ↦ forRange over intRange lo hi;
      for _, v := range xs ↦ forRange over xs; end of body / continue ↦ Flow.next st, break ↦ Flow.brk st,
      return ↦ Flow.ret r (r the value of the enclosing function or literal at that point);
      the body of a function literal / of a loop is a definition of its own, <func>_lit<k> / <func>_body<k>
      (numbered in order of completion), with the variables it mentions as parameters;
      a for without condition ↦ loopFuel … fuel: the function takes fuel : Nat, its result is an Option,
      none = fuel exhausted;
    * RECURSION: a call of a translated function that is still being translated (a call cycle: Parse →
      parseJSON → parseJSONFeature → Parse) ↦ the Ops field rec_<name>.
  Anything outside the recognised subset appears below as  opaque <name>_unrecognised : Unit.
-/

set_option linter.unusedVariables false

namespace Geo.PGen

/-- how one pass through a loop body ends -/
inductive Flow (σ ρ : Type) where
  | next (s : σ) : Flow σ ρ
  | brk (s : σ) : Flow σ ρ
  | ret (r : ρ) : Flow σ ρ

/-- how a loop / a joined branch ends: normally (or by break) with the state, or by leaving with r -/
inductive Exit (σ ρ : Type) where
  | done (s : σ) : Exit σ ρ
  | ret (r : ρ) : Exit σ ρ

/-- a loop over the list of the values of its variable -/
def forRange {ε σ ρ : Type} (body : ε → σ → Flow σ ρ) : List ε → σ → Exit σ ρ
  | [], s => Exit.done s
  | x :: xs, s =>
    match body x s with
    | Flow.next s' => forRange body xs s'
    | Flow.brk s' => Exit.done s'
    | Flow.ret r => Exit.ret r

/-- a loop without condition, at most fuel passes (none: fuel exhausted) -/
def loopFuel {σ ρ : Type} (body : σ → Flow σ ρ) : Nat → σ → Option (Exit σ ρ)
  | 0, _ => none
  | n + 1, s =>
    match body s with
    | Flow.next s' => loopFuel body n s'
    | Flow.brk s' => some (Exit.done s')
    | Flow.ret r => some (Exit.ret r)

/-- the values of i in ` + "`for i := lo; i < hi; i++`" + ` -/
def intRange (lo hi : Int) : List Int := (List.range (hi - lo).toNat).map (fun k => lo + Int.ofNat k)

/-- an iteration with iterator f over the list of what the iterator is offered: stops after the first
    element for which f answers false -/
def searchFold {ε σ : Type} (f : ε → σ → σ × Bool) : List ε → σ → σ
  | [], s => s
  | x :: xs, s =>
    match f x s with
    | (s', true) => searchFold f xs s'
    | (s', false) => s'

/-- a[i] (zero: the zero value of the element type, the result when i is out of range) -/
def arrAt {α : Type} (zero : α) (xs : List α) (i : Int) : α :=
  if i < 0 then zero else xs.getD i.toNat zero

/-- a[i] = v -/
def arrSet {α : Type} (xs : List α) (i : Int) (v : α) : List α :=
  if i < 0 then xs else xs.set i.toNat v

/-- a[lo:] -/
def sliceFrom {α : Type} (xs : List α) (lo : Int) : List α := xs.drop lo.toNat

/-- *p (zero: the zero value of the pointee, the result when p is nil) -/
def deref {α : Type} (zero : α) : Option α → α
  | some v => v
  | none => zero
`

func translateParsers(repo string) (string, error) {
	p, err := pjLoad(repo)
	if err != nil {
		return "", err
	}
	fns := p.targets()
	p.markStructural(fns)
	p.useTParam("Str", "string")
	for _, fn := range fns {
		p.request(fn)
	}
	// zero values of the structures (may mention further structures / Ops fields)
	zeros := map[string][]string{}
	for i := 0; i < len(p.sorder); i++ {
		s := p.structs[p.sorder[i]]
		var parts []string
		st := s.named.Underlying().(*types.Struct)
		for j := range s.fields {
			z, err := p.zeroOf(st.Field(j).Type())
			if err != nil {
				return "", fmt.Errorf("zero value of %s: %v", s.lean, err)
			}
			parts = append(parts, s.fields[j]+" := "+z)
		}
		zeros[s.lean] = []string{
			fmt.Sprintf("/-- the zero value of %s -/", s.goName),
			fmt.Sprintf("def zero%s{{SIG}} : %s :=", s.lean, s.ref()),
			"  { " + strings.Join(parts, ", ") + " }"}
	}
	var tps []string
	for n := range p.tparams {
		tps = append(tps, n)
	}
	sort.Strings(tps)
	tpList := strings.Join(tps, " ")
	sig := " (ops : Ops " + tpList + ")"
	var b strings.Builder
	b.WriteString(pjHeader)
	b.WriteString("\n/-- the error values the parsers return: one constructor per package variable / format constant used -/\n")
	b.WriteString("inductive Err (Str : Type) where\n")
	var en []string
	for n := range p.errs {
		en = append(en, n)
	}
	sort.Strings(en)
	for _, n := range en {
		args := ""
		for i := 0; i < p.errArgs[n]; i++ {
			args += fmt.Sprintf(" (a%d : Str)", i)
		}
		fmt.Fprintf(&b, "  /-- %s -/\n  | %s%s : Err Str\n", p.errs[n], n, args)
	}
	if len(en) == 0 {
		b.WriteString("  | none_used : Err Str\n")
	}
	for _, n := range p.sorder {
		s := p.structs[n]
		ps := ""
		if len(s.params) > 0 {
			ps = " (" + strings.Join(s.params, " ") + " : Type)"
		}
		fmt.Fprintf(&b, "\n/-- Go: `type %s struct` — %s -/\nstructure %s%s where\n", s.goName, s.pos, s.lean, ps)
		st := s.named.Underlying().(*types.Struct)
		for i, f := range s.fields {
			fmt.Fprintf(&b, "  /-- Go: `%s %s` -/\n  %s : %s\n", st.Field(i).Name(), types.TypeString(st.Field(i).Type(), func(q *types.Package) string { return q.Name() }), f, s.ftys[i])
		}
	}
	b.WriteString("\n/-- the type parameters:\n")
	for _, n := range tps {
		fmt.Fprintf(&b, "      %s: %s\n", n, p.tparams[n])
	}
	b.WriteString("    the callees of the parsers, one field per distinct callee / operator / constant found in the source -/\n")
	fmt.Fprintf(&b, "structure Ops (%s : Type) where\n", tpList)
	var names []string
	for n := range p.ops {
		names = append(names, n)
	}
	sort.Strings(names)
	for _, n := range names {
		fmt.Fprintf(&b, "  /-- %s -/\n  %s : %s\n", p.ops[n].doc, n, p.ops[n].ty)
	}
	fmt.Fprintf(&b, "\nvariable {%s : Type}\n", tpList)
	for _, n := range p.sorder {
		b.WriteString("\n" + strings.ReplaceAll(strings.Join(zeros[n], "\n"), "{{SIG}}", sig) + "\n")
	}
	for _, n := range p.pvorder {
		b.WriteString("\n" + strings.ReplaceAll(strings.Join(p.pvars[n], "\n"), "{{SIG}}", sig) + "\n")
	}
	for _, g := range p.order {
		b.WriteString("\n")
		if g.err != nil {
			fmt.Fprintf(&b, "-- %s: NOT RECOGNISED: %s\n%s\nopaque %s_unrecognised : Unit\n", g.name, strings.ReplaceAll(g.err.Error(), "\n", " "), g.comment, g.name)
			continue
		}
		if len(g.inout) > 0 {
			var ns []string
			for _, v := range g.inout {
				ns = append(ns, v.Name())
			}
			fmt.Fprintf(&b, "-- written-through pointer parameters (each stands for its pointee and is returned after the results): %s\n", strings.Join(ns, ", "))
		}
		for _, a := range g.aux {
			b.WriteString(strings.ReplaceAll(strings.Join(a, "\n"), "{{SIG}}", sig) + "\n\n")
		}
		b.WriteString(g.comment + "\n" + strings.ReplaceAll(strings.Join(g.lines, "\n"), "{{SIG}}", sig) + "\n")
	}
	if len(p.order) == 0 {
		b.WriteString("\n-- NOT RECOGNISED: no parser function found in the package\nopaque Parse_unrecognised : Unit\n")
	}
	b.WriteString("\nend Geo.PGen\n")
	return b.String(), nil
}

// aliasCheck: pointers are modelled as values.  &x (x not a literal) outside a call argument makes a
// second name for x: refused when x is written afterwards (textually later, or anywhere in a loop /
// function literal that contains the & and not the declaration of x).
func (p *pjPkg) aliasCheck(d *ast.FuncDecl) error {
	var stack []ast.Node
	var err error
	writesTo := func(scope ast.Node, o types.Object, after token.Pos) bool {
		hit := false
		ast.Inspect(scope, func(n ast.Node) bool {
			chk := func(e ast.Expr) {
				if q, _ := p.rootObj(e); q == o && e.Pos() > after {
					hit = true
				}
			}
			switch s := n.(type) {
			case *ast.AssignStmt:
				for _, l := range s.Lhs {
					chk(l)
				}
			case *ast.IncDecStmt:
				chk(s.X)
			case *ast.CallExpr:
				for _, a := range s.Args {
					if u, ok := ast.Unparen(a).(*ast.UnaryExpr); ok && u.Op == token.AND {
						chk(u.X)
					}
				}
				if fs, ok := ast.Unparen(s.Fun).(*ast.SelectorExpr); ok {
					if sel, ok := p.info.Selections[fs]; ok && sel.Kind() == types.MethodVal {
						if _, isPtr := pjDeref(sel.Obj().Type().(*types.Signature).Recv().Type()); isPtr {
							chk(fs.X)
						}
					}
				}
			}
			return !hit
		})
		return hit
	}
	ast.Inspect(d.Body, func(n ast.Node) bool {
		if n == nil {
			stack = stack[:len(stack)-1]
			return true
		}
		stack = append(stack, n)
		u, ok := n.(*ast.UnaryExpr)
		if !ok || u.Op != token.AND || err != nil {
			return true
		}
		if _, lit := ast.Unparen(u.X).(*ast.CompositeLit); lit {
			return true
		}
		if len(stack) >= 2 {
			if c, ok := stack[len(stack)-2].(*ast.CallExpr); ok {
				for _, a := range c.Args {
					if a == ast.Expr(u) {
						return true
					}
				}
			}
		}
		o, _ := p.rootObj(u.X)
		if o == nil {
			err = p.errf(u, "& of something that is not a variable")
			return true
		}
		if writesTo(d.Body, o, u.Pos()) {
			err = p.errf(u, "%s is written after its address was taken (pointers are modelled as values)", o.Name())
		}
		for _, m := range stack {
			switch m.(type) {
			case *ast.ForStmt, *ast.RangeStmt, *ast.FuncLit:
				if !(o.Pos() >= m.Pos() && o.Pos() < m.End()) && writesTo(m, o, token.NoPos) {
					err = p.errf(u, "%s is written in the loop in which its address is taken (pointers are modelled as values)", o.Name())
				}
			}
		}
		return true
	})
	return err
}

// copyCheck: `dst = src` with src a pointer held in a variable / field makes two names for one pointee.
// Refused when, afterwards, one of them is written through and the other is still used.
func (p *pjPkg) copyCheck(d *ast.FuncDecl) error {
	type cp struct {
		src, dst types.Object
		at       ast.Node
		scopes   []ast.Node
	}
	var copies []cp
	var stack []ast.Node
	isPtrVar := func(e ast.Expr) types.Object {
		e = ast.Unparen(e)
		switch e.(type) {
		case *ast.Ident, *ast.SelectorExpr, *ast.IndexExpr, *ast.StarExpr:
		default:
			return nil
		}
		t := p.typeOf(e)
		if t == nil {
			return nil
		}
		if _, ok := t.Underlying().(*types.Pointer); !ok {
			return nil
		}
		o, _ := p.rootObj(e)
		if _, isVar := o.(*types.Var); !isVar {
			return nil
		}
		return o
	}
	add := func(src ast.Expr, dst ast.Expr, at ast.Node) {
		if s := isPtrVar(src); s != nil {
			var dobj types.Object
			if dst != nil {
				dobj, _ = p.rootObj(dst)
			}
			var sc []ast.Node
			for _, m := range stack {
				switch m.(type) {
				case *ast.ForStmt, *ast.RangeStmt, *ast.FuncLit:
					if !(s.Pos() >= m.Pos() && s.Pos() < m.End()) {
						sc = append(sc, m)
					}
				}
			}
			copies = append(copies, cp{s, dobj, at, sc})
		}
	}
	ast.Inspect(d.Body, func(n ast.Node) bool {
		if n == nil {
			stack = stack[:len(stack)-1]
			return true
		}
		stack = append(stack, n)
		switch s := n.(type) {
		case *ast.AssignStmt:
			if len(s.Lhs) == len(s.Rhs) {
				for i := range s.Rhs {
					add(s.Rhs[i], s.Lhs[i], s)
				}
			}
		case *ast.ValueSpec:
			for i := range s.Values {
				if i < len(s.Names) {
					add(s.Values[i], s.Names[i], s)
				}
			}
		case *ast.CompositeLit:
			for _, el := range s.Elts {
				if kv, ok := el.(*ast.KeyValueExpr); ok {
					el = kv.Value
				}
				add(el, nil, s)
			}
		case *ast.CallExpr:
			if id, ok := s.Fun.(*ast.Ident); ok && id.Name == "append" {
				for _, a := range s.Args[1:] {
					add(a, nil, s)
				}
			}
		}
		return true
	})
	for _, c := range copies {
		later := func(at token.Pos) bool {
			if at > c.at.End() {
				return true
			}
			for _, m := range c.scopes {
				if at >= m.Pos() && at < m.End() {
					return true
				}
			}
			return false
		}
		through := map[types.Object]bool{}
		p.writes(d.Body, func(o types.Object, steps int, at token.Pos) {
			if steps > 0 && later(at) {
				through[o] = true
			}
		})
		used := map[types.Object]bool{}
		ast.Inspect(d.Body, func(n ast.Node) bool {
			if id, ok := n.(*ast.Ident); ok && later(id.Pos()) {
				if o := p.info.Uses[id]; o != nil {
					used[o] = true
				}
			}
			return true
		})
		if through[c.src] && (c.dst == nil || used[c.dst]) || c.dst != nil && through[c.dst] && used[c.src] {
			return p.errf(c.at, "the pointer %s is copied and one of the two names is written through afterwards while the other is still used (pointers are modelled as values)", c.src.Name())
		}
	}
	return nil
}

var pjTokRe = regexp.MustCompile(`[A-Za-z_][A-Za-z0-9_']*`)

// captured: the live variables (other than those in `state`) that the generated text of a body
// mentions, by declaration order (a return inside it also mentions the state of the enclosing literal)
func (p *pjPkg) captured(body []string, env *pjEnv, state []types.Object) []types.Object {
	used := map[string]bool{}
	for _, l := range body {
		for _, m := range pjTokRe.FindAllStringIndex(l, -1) {
			if m[0] > 0 && l[m[0]-1] == '.' {
				continue // a field projection
			}
			if strings.HasPrefix(l[m[1]:], " := ") && !strings.HasSuffix(l[:m[0]], "let ") {
				continue // a field of a structure instance
			}
			used[l[m[0]:m[1]]] = true
		}
	}
	inState := map[types.Object]bool{}
	for _, o := range state {
		inState[o] = true
	}
	var out []types.Object
	for o, n := range env.names {
		if used[n] && !inState[o] {
			out = append(out, o)
		}
	}
	sort.Slice(out, func(i, j int) bool { return out[i].Pos() < out[j].Pos() })
	return out
}

// lift: the body of a function literal / loop becomes a definition of its own (named after the
// enclosing function), with the variables it reads as parameters; returns the term to use for it
func (p *pjPkg) lift(n ast.Node, kind string, env *pjEnv, state []types.Object, binders, resTy string, body []string) (string, error) {
	caps := p.captured(body, env, state)
	name := fmt.Sprintf("%s_%s%d", p.cur.name, kind, len(p.cur.aux)+1)
	head := "def " + name + "{{SIG}}"
	call := "(" + name + " ops"
	for _, o := range caps {
		lt, err := p.varType(o, env)
		if err != nil {
			return "", p.errf(n, "%v", err)
		}
		head += " (" + env.names[o] + " : " + lt + ")"
		call += " " + env.names[o]
	}
	what := "function literal"
	if kind == "body" {
		what = "loop body"
	}
	def := []string{fmt.Sprintf("/-- the %s at %s (in Go func %s) -/", what, p.pos(n), p.cur.obj.Name()), head + " " + binders + " : " + resTy + " :="}
	p.cur.aux = append(p.cur.aux, append(def, pjIndent(body)...))
	return call + ")", nil
}
