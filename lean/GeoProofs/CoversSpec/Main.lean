/-
  GeoProofs.CoversSpec.Main — adequacy of `Spec.covers` for valid shapes, all 16 kind pairs.
-/
import GeoProofs.CoversSpec.Region
import GeoProofs.CoversSpec.Thin

namespace Geo
namespace CS
open Spec

/-- `Spec.covers` decides the point-set statement `Covers` on valid shapes -/
theorem spec_covers_iff (a b : Shape) (ha : a.valid = true) (hb : b.valid = true) :
    covers a b = true ↔ Covers a b := by
  by_cases hpb : ∃ p, b = .point p
  · obtain ⟨p, rfl⟩ := hpb
    exact covers_point_right a ha p
  by_cases hpa : ∃ q, a = .point q
  · obtain ⟨q, rfl⟩ := hpa
    exact covers_point_left q b hb
  have hpa' : ∀ q, a ≠ .point q := fun q h => hpa ⟨q, h⟩
  have hpb' : ∀ p, b ≠ .point p := fun p h => hpb ⟨p, h⟩
  cases hrb : isRegion b with
  | false => exact covers_curve a b ha hb hpa' hpb' hrb (segInsideOK_shape a ha hpa')
  | true =>
    cases hra : isRegion a with
    | true => exact covers_region a b ha hb hra hrb
    | false =>
      rw [covers_region_in_curve_false a b hpa' hrb hra]
      constructor
      · intro h; cases h
      · intro h; exact absurd h (not_covers_region_in_curve a b ha hb hrb hra hpa')

end CS
end Geo
