/-
  Property C07 — Parse decodes exactly what the document says, or rejects it (on the AST
  model GeoModel.Json).

  * `Defect` / `defect_rejected`: every listed structural defect is rejected, for all options.
  * `WellFormed` / `wf_accepted_partial`: every well-formed document that respects the
    dimension rule (`DimsNotIncreasing`) is accepted; `wf_accepted_counterexample` is the
    known finding D11 (a well-formed document with positions of 2 and then 3 numbers is
    rejected), so the unrestricted statement is false for the code as it is.
  * `wf_decoded`: an accepted well-formed document decodes to the reference reading.
-/
import GeoProofs.ParseLemmas
namespace Geo

/-! ## structural defects are rejected -/

/-- the six types whose required member is "coordinates" -/
def coordTypes : List String :=
  ["Point", "LineString", "Polygon", "MultiPoint", "MultiLineString", "MultiPolygon"]

/-- the listed structural defects. Reserved members are read as Parse reads them: the LAST
    member of each reserved name (`scanKeys`). Positions, lines, rings and polygons are looked
    at through `JVal.elems` (for arrays: their elements), see `badPos`, `badLine`, `badRing`,
    `badPoly` in GeoProofs.ParseLemmas. -/
inductive Defect : JVal → Prop
  /-- not an object -/
  | notObject (v : JVal) (h : ∀ ms, v ≠ .obj ms) : Defect v
  /-- missing type -/
  | typeMissing (ms) (h : (scanKeys ms).type = none) : Defect (.obj ms)
  /-- non-string type -/
  | typeNotString (ms) (t : JVal) (h : (scanKeys ms).type = some t) (hs : ∀ r s, t ≠ .str r s) :
      Defect (.obj ms)
  /-- unknown type -/
  | typeUnknown (ms) (r ty : String) (h : (scanKeys ms).type = some (.str r ty)) (hu : ty ∉ nineTypes) :
      Defect (.obj ms)
  /-- missing required member -/
  | coordinatesMissing (ms) (r ty : String) (h : (scanKeys ms).type = some (.str r ty))
      (ht : ty ∈ coordTypes) (hc : (scanKeys ms).coordinates = none) : Defect (.obj ms)
  | geometriesMissing (ms) (r : String) (h : (scanKeys ms).type = some (.str r "GeometryCollection"))
      (hc : (scanKeys ms).geometries = none) : Defect (.obj ms)
  | featuresMissing (ms) (r : String) (h : (scanKeys ms).type = some (.str r "FeatureCollection"))
      (hc : (scanKeys ms).features = none) : Defect (.obj ms)
  | geometryMissing (ms) (r : String) (h : (scanKeys ms).type = some (.str r "Feature"))
      (hc : (scanKeys ms).geometry = none) : Defect (.obj ms)
  /-- required member that is not an array -/
  | coordinatesNotArray (ms) (r ty : String) (c : JVal) (h : (scanKeys ms).type = some (.str r ty))
      (ht : ty ∈ coordTypes) (hc : (scanKeys ms).coordinates = some c) (ha : c.isArray = false) :
      Defect (.obj ms)
  | geometriesNotArray (ms) (r : String) (c : JVal)
      (h : (scanKeys ms).type = some (.str r "GeometryCollection"))
      (hc : (scanKeys ms).geometries = some c) (ha : c.isArray = false) : Defect (.obj ms)
  | featuresNotArray (ms) (r : String) (c : JVal)
      (h : (scanKeys ms).type = some (.str r "FeatureCollection"))
      (hc : (scanKeys ms).features = some c) (ha : c.isArray = false) : Defect (.obj ms)
  /-- a position with fewer than two ordinates or a non-numeric value among its first four
      (`null` is allowed in Point and MultiPoint positions only) -/
  | pointPosition (ms) (r : String) (c : JVal) (h : (scanKeys ms).type = some (.str r "Point"))
      (hc : (scanKeys ms).coordinates = some c) (hb : badPos true c = true) : Defect (.obj ms)
  | multiPointPosition (ms) (r : String) (c p : JVal) (h : (scanKeys ms).type = some (.str r "MultiPoint"))
      (hc : (scanKeys ms).coordinates = some c) (hp : p ∈ c.elems) (hb : badPos true p = true) :
      Defect (.obj ms)
  /-- a line with fewer than two positions (or with a bad position) -/
  | lineString (ms) (r : String) (c : JVal) (h : (scanKeys ms).type = some (.str r "LineString"))
      (hc : (scanKeys ms).coordinates = some c) (hb : badLine c = true) : Defect (.obj ms)
  | multiLineString (ms) (r : String) (c l : JVal)
      (h : (scanKeys ms).type = some (.str r "MultiLineString"))
      (hc : (scanKeys ms).coordinates = some c) (hl : l ∈ c.elems) (hb : badLine l = true) :
      Defect (.obj ms)
  /-- a polygon with no ring, a ring with fewer than four positions or not closed (or with a
      bad position) -/
  | polygon (ms) (r : String) (c : JVal) (h : (scanKeys ms).type = some (.str r "Polygon"))
      (hc : (scanKeys ms).coordinates = some c) (hb : badPoly c = true) : Defect (.obj ms)
  | multiPolygon (ms) (r : String) (c pg : JVal)
      (h : (scanKeys ms).type = some (.str r "MultiPolygon"))
      (hc : (scanKeys ms).coordinates = some c) (hl : pg ∈ c.elems) (hb : badPoly pg = true) :
      Defect (.obj ms)
  /-- any such defect in a nested object -/
  | nestedGeometry (ms) (r : String) (g : JVal) (h : (scanKeys ms).type = some (.str r "Feature"))
      (hc : (scanKeys ms).geometry = some g) (hd : Defect g) : Defect (.obj ms)
  | nestedGeometries (ms) (r : String) (items : List JVal) (x : JVal)
      (h : (scanKeys ms).type = some (.str r "GeometryCollection"))
      (hc : (scanKeys ms).geometries = some (.arr items)) (hx : x ∈ items) (hd : Defect x) :
      Defect (.obj ms)
  | nestedFeatures (ms) (r : String) (items : List JVal) (x : JVal)
      (h : (scanKeys ms).type = some (.str r "FeatureCollection"))
      (hc : (scanKeys ms).features = some (.arr items)) (hx : x ∈ items) (hd : Defect x) :
      Defect (.obj ms)

/-- what an accepted object of type `ty` looks like, one level deep: no defect of its own,
    and the nested objects are accepted too -/
def OkInv (o : POpts) (n : Nat) (k : Keys) (ty : String) : Prop :=
  ty ∈ nineTypes ∧
  (ty ∈ coordTypes → ∃ c, k.coordinates = some c ∧ c.isArray = true ∧
    (ty = "Point" → badPos true c = false) ∧
    (ty = "MultiPoint" → ∀ p ∈ c.elems, badPos true p = false) ∧
    (ty = "LineString" → badLine c = false) ∧
    (ty = "MultiLineString" → ∀ l ∈ c.elems, badLine l = false) ∧
    (ty = "Polygon" → badPoly c = false) ∧
    (ty = "MultiPolygon" → ∀ pg ∈ c.elems, badPoly pg = false)) ∧
  (ty = "GeometryCollection" → ∃ items, k.geometries = some (.arr items) ∧
    ∀ y ∈ items, ∃ c, parse o n y = .ok c) ∧
  (ty = "FeatureCollection" → ∃ items, k.features = some (.arr items) ∧
    ∀ y ∈ items, ∃ c, parse o n y = .ok c) ∧
  (ty = "Feature" → ∃ g b, k.geometry = some g ∧ parse o n g = .ok b)

local macro "nope" : tactic => `(tactic| (intro hne; exact absurd hne (by decide)))

theorem parse_ok_inv (o : POpts) (n : Nat) (ms : List (String × String × JVal)) (x : Obj)
    (h : parse o (n+1) (.obj ms) = .ok x) :
    ∃ r ty, (scanKeys ms).type = some (.str r ty) ∧ OkInv o n (scanKeys ms) ty := by
  rw [parse_succ_obj] at h
  split at h
  · cases h
  · rename_i r ty hty
    refine ⟨r, ty, hty, ?_⟩
    revert h
    refine parseTyped_elim (motive := fun ty res => res = .ok x → OkInv o n (scanKeys ms) ty)
      o (scanKeys ms) (parse o n) (parseList o n) ty ?_ ?_ ?_ ?_ ?_ ?_ ?_ ?_ ?_ ?_
    · intro h
      obtain ⟨c, hc, ha, hb⟩ := pointCase_ok h
      refine ⟨by decide, fun _ => ⟨c, hc, ha, ?_⟩, by nope, by nope, by nope⟩
      exact ⟨fun _ => hb, by nope, by nope, by nope, by nope, by nope⟩
    · intro h
      obtain ⟨c, hc, ha, hb⟩ := lineCase_ok h
      refine ⟨by decide, fun _ => ⟨c, hc, ha, ?_⟩, by nope, by nope, by nope⟩
      exact ⟨by nope, by nope, fun _ => hb, by nope, by nope, by nope⟩
    · intro h
      obtain ⟨c, hc, ha, hb⟩ := polyCase_ok h
      refine ⟨by decide, fun _ => ⟨c, hc, ha, ?_⟩, by nope, by nope, by nope⟩
      exact ⟨by nope, by nope, by nope, by nope, fun _ => hb, by nope⟩
    · intro h
      obtain ⟨c, hc, ha, hb⟩ := multiPointCase_ok h
      refine ⟨by decide, fun _ => ⟨c, hc, ha, ?_⟩, by nope, by nope, by nope⟩
      exact ⟨by nope, fun _ => hb, by nope, by nope, by nope, by nope⟩
    · intro h
      obtain ⟨c, hc, ha, hb⟩ := multiLineCase_ok h
      refine ⟨by decide, fun _ => ⟨c, hc, ha, ?_⟩, by nope, by nope, by nope⟩
      exact ⟨by nope, by nope, by nope, fun _ => hb, by nope, by nope⟩
    · intro h
      obtain ⟨c, hc, ha, hb⟩ := multiPolyCase_ok h
      refine ⟨by decide, fun _ => ⟨c, hc, ha, ?_⟩, by nope, by nope, by nope⟩
      exact ⟨by nope, by nope, by nope, by nope, by nope, fun _ => hb⟩
    · intro h
      obtain ⟨items, cs, hg, hcs, _⟩ := geomCollCase_ok h
      refine ⟨by decide, by nope, fun _ => ⟨items, hg, ?_⟩, by nope, by nope⟩
      intro y hy
      obtain ⟨c, _, hc⟩ := (parseList_ok o n items cs hcs).left y hy
      exact ⟨c, hc⟩
    · intro h
      obtain ⟨items, cs, hg, hcs, _⟩ := featCollCase_ok h
      refine ⟨by decide, by nope, by nope, fun _ => ⟨items, hg, ?_⟩, by nope⟩
      intro y hy
      obtain ⟨c, _, hc⟩ := (parseList_ok o n items cs hcs).left y hy
      exact ⟨c, hc⟩
    · intro h
      obtain ⟨g, b, hg, hb, _⟩ := featureCase_ok h
      exact ⟨by decide, by nope, by nope, by nope, fun _ => ⟨g, b, hg, hb⟩⟩
    · intro _ h; cases h
  · cases h

end Geo

namespace Geo

theorem parse_nonobj_error (o : POpts) (n : Nat) (v : JVal) (h : ∀ ms, v ≠ .obj ms) :
    ∃ e, parse o n v = .error e := by
  cases n with
  | zero => exact ⟨_, parse_zero o v⟩
  | succ n => exact ⟨_, parse_succ_nonobj o n v h⟩

theorem defect_rejected_fuel (o : POpts) (v : JVal) (h : Defect v) :
    ∀ n, ∃ e, parse o n v = .error e := by
  induction h with
  | notObject v h => exact fun n => parse_nonobj_error o n v h
  | nestedGeometry ms r g h hc hd ih =>
    intro n
    cases n with
    | zero => exact ⟨_, parse_zero o _⟩
    | succ n =>
      apply error_of_not_ok
      intro x hx
      obtain ⟨r', ty', hty', inv⟩ := parse_ok_inv o n ms x hx
      rw [h] at hty'
      cases hty'
      obtain ⟨g', b, hg', hb⟩ := inv.2.2.2.2 rfl
      rw [hc] at hg'
      cases hg'
      obtain ⟨e, he⟩ := ih n
      rw [he] at hb
      cases hb
  | nestedGeometries ms r items y h hc hy hd ih =>
    intro n
    cases n with
    | zero => exact ⟨_, parse_zero o _⟩
    | succ n =>
      apply error_of_not_ok
      intro x hx
      obtain ⟨r', ty', hty', inv⟩ := parse_ok_inv o n ms x hx
      rw [h] at hty'
      cases hty'
      obtain ⟨items', hg', hall⟩ := inv.2.2.1 rfl
      rw [hc] at hg'
      cases hg'
      obtain ⟨c, hc'⟩ := hall y hy
      obtain ⟨e, he⟩ := ih n
      rw [he] at hc'
      cases hc'
  | nestedFeatures ms r items y h hc hy hd ih =>
    intro n
    cases n with
    | zero => exact ⟨_, parse_zero o _⟩
    | succ n =>
      apply error_of_not_ok
      intro x hx
      obtain ⟨r', ty', hty', inv⟩ := parse_ok_inv o n ms x hx
      rw [h] at hty'
      cases hty'
      obtain ⟨items', hg', hall⟩ := inv.2.2.2.1 rfl
      rw [hc] at hg'
      cases hg'
      obtain ⟨c, hc'⟩ := hall y hy
      obtain ⟨e, he⟩ := ih n
      rw [he] at hc'
      cases hc'
  | typeMissing ms h =>
    intro n
    cases n with
    | zero => exact ⟨_, parse_zero o _⟩
    | succ n =>
      apply error_of_not_ok
      intro x hx
      obtain ⟨r', ty', hty', inv⟩ := parse_ok_inv o n ms x hx
      rw [h] at hty'
      cases hty'
  | typeNotString ms t h hs =>
    intro n
    cases n with
    | zero => exact ⟨_, parse_zero o _⟩
    | succ n =>
      apply error_of_not_ok
      intro x hx
      obtain ⟨r', ty', hty', inv⟩ := parse_ok_inv o n ms x hx
      rw [h] at hty'
      cases hty'
      exact hs _ _ rfl
  | typeUnknown ms r ty h hu =>
    intro n
    cases n with
    | zero => exact ⟨_, parse_zero o _⟩
    | succ n =>
      apply error_of_not_ok
      intro x hx
      obtain ⟨r', ty', hty', inv⟩ := parse_ok_inv o n ms x hx
      rw [h] at hty'
      cases hty'
      exact hu inv.1
  | coordinatesMissing ms r ty h ht hc =>
    intro n
    cases n with
    | zero => exact ⟨_, parse_zero o _⟩
    | succ n =>
      apply error_of_not_ok
      intro x hx
      obtain ⟨r', ty', hty', inv⟩ := parse_ok_inv o n ms x hx
      rw [h] at hty'
      cases hty'
      obtain ⟨c, hc', _⟩ := inv.2.1 ht
      rw [hc] at hc'
      cases hc'
  | geometriesMissing ms r h hc =>
    intro n
    cases n with
    | zero => exact ⟨_, parse_zero o _⟩
    | succ n =>
      apply error_of_not_ok
      intro x hx
      obtain ⟨r', ty', hty', inv⟩ := parse_ok_inv o n ms x hx
      rw [h] at hty'
      cases hty'
      obtain ⟨items, hc', _⟩ := inv.2.2.1 rfl
      rw [hc] at hc'
      cases hc'
  | featuresMissing ms r h hc =>
    intro n
    cases n with
    | zero => exact ⟨_, parse_zero o _⟩
    | succ n =>
      apply error_of_not_ok
      intro x hx
      obtain ⟨r', ty', hty', inv⟩ := parse_ok_inv o n ms x hx
      rw [h] at hty'
      cases hty'
      obtain ⟨items, hc', _⟩ := inv.2.2.2.1 rfl
      rw [hc] at hc'
      cases hc'
  | geometryMissing ms r h hc =>
    intro n
    cases n with
    | zero => exact ⟨_, parse_zero o _⟩
    | succ n =>
      apply error_of_not_ok
      intro x hx
      obtain ⟨r', ty', hty', inv⟩ := parse_ok_inv o n ms x hx
      rw [h] at hty'
      cases hty'
      obtain ⟨g, b, hc', _⟩ := inv.2.2.2.2 rfl
      rw [hc] at hc'
      cases hc'
  | coordinatesNotArray ms r ty c h ht hc ha =>
    intro n
    cases n with
    | zero => exact ⟨_, parse_zero o _⟩
    | succ n =>
      apply error_of_not_ok
      intro x hx
      obtain ⟨r', ty', hty', inv⟩ := parse_ok_inv o n ms x hx
      rw [h] at hty'
      cases hty'
      obtain ⟨c', hc', ha', _⟩ := inv.2.1 ht
      rw [hc] at hc'
      cases hc'
      rw [ha] at ha'
      cases ha'
  | geometriesNotArray ms r c h hc ha =>
    intro n
    cases n with
    | zero => exact ⟨_, parse_zero o _⟩
    | succ n =>
      apply error_of_not_ok
      intro x hx
      obtain ⟨r', ty', hty', inv⟩ := parse_ok_inv o n ms x hx
      rw [h] at hty'
      cases hty'
      obtain ⟨items, hc', _⟩ := inv.2.2.1 rfl
      rw [hc] at hc'
      cases hc'
      cases ha
  | featuresNotArray ms r c h hc ha =>
    intro n
    cases n with
    | zero => exact ⟨_, parse_zero o _⟩
    | succ n =>
      apply error_of_not_ok
      intro x hx
      obtain ⟨r', ty', hty', inv⟩ := parse_ok_inv o n ms x hx
      rw [h] at hty'
      cases hty'
      obtain ⟨items, hc', _⟩ := inv.2.2.2.1 rfl
      rw [hc] at hc'
      cases hc'
      cases ha
  | pointPosition ms r c h hc hb =>
    intro n
    cases n with
    | zero => exact ⟨_, parse_zero o _⟩
    | succ n =>
      apply error_of_not_ok
      intro x hx
      obtain ⟨r', ty', hty', inv⟩ := parse_ok_inv o n ms x hx
      rw [h] at hty'
      cases hty'
      obtain ⟨c', hc', _, h1, _⟩ := inv.2.1 (by decide)
      rw [hc] at hc'
      cases hc'
      rw [h1 rfl] at hb
      cases hb
  | multiPointPosition ms r c p h hc hp hb =>
    intro n
    cases n with
    | zero => exact ⟨_, parse_zero o _⟩
    | succ n =>
      apply error_of_not_ok
      intro x hx
      obtain ⟨r', ty', hty', inv⟩ := parse_ok_inv o n ms x hx
      rw [h] at hty'
      cases hty'
      obtain ⟨c', hc', _, _, h1, _⟩ := inv.2.1 (by decide)
      rw [hc] at hc'
      cases hc'
      rw [h1 rfl p hp] at hb
      cases hb
  | lineString ms r c h hc hb =>
    intro n
    cases n with
    | zero => exact ⟨_, parse_zero o _⟩
    | succ n =>
      apply error_of_not_ok
      intro x hx
      obtain ⟨r', ty', hty', inv⟩ := parse_ok_inv o n ms x hx
      rw [h] at hty'
      cases hty'
      obtain ⟨c', hc', _, _, _, h1, _⟩ := inv.2.1 (by decide)
      rw [hc] at hc'
      cases hc'
      rw [h1 rfl] at hb
      cases hb
  | multiLineString ms r c l h hc hl hb =>
    intro n
    cases n with
    | zero => exact ⟨_, parse_zero o _⟩
    | succ n =>
      apply error_of_not_ok
      intro x hx
      obtain ⟨r', ty', hty', inv⟩ := parse_ok_inv o n ms x hx
      rw [h] at hty'
      cases hty'
      obtain ⟨c', hc', _, _, _, _, h1, _⟩ := inv.2.1 (by decide)
      rw [hc] at hc'
      cases hc'
      rw [h1 rfl l hl] at hb
      cases hb
  | polygon ms r c h hc hb =>
    intro n
    cases n with
    | zero => exact ⟨_, parse_zero o _⟩
    | succ n =>
      apply error_of_not_ok
      intro x hx
      obtain ⟨r', ty', hty', inv⟩ := parse_ok_inv o n ms x hx
      rw [h] at hty'
      cases hty'
      obtain ⟨c', hc', _, _, _, _, _, h1, _⟩ := inv.2.1 (by decide)
      rw [hc] at hc'
      cases hc'
      rw [h1 rfl] at hb
      cases hb
  | multiPolygon ms r c pg h hc hl hb =>
    intro n
    cases n with
    | zero => exact ⟨_, parse_zero o _⟩
    | succ n =>
      apply error_of_not_ok
      intro x hx
      obtain ⟨r', ty', hty', inv⟩ := parse_ok_inv o n ms x hx
      rw [h] at hty'
      cases hty'
      obtain ⟨c', hc', _, _, _, _, _, _, h1⟩ := inv.2.1 (by decide)
      rw [hc] at hc'
      cases hc'
      rw [h1 rfl pg hl] at hb
      cases hb

/-- every text with a listed structural defect is rejected, whatever the options -/
theorem defect_rejected (o : POpts) (v : JVal) (h : Defect v) : ∃ e, parseTop o v = .error e :=
  defect_rejected_fuel o v h _

end Geo

namespace Geo

/-! ## well-formed documents -/

/-- One JSON object of one of the nine GeoJSON types with a well-formed required member.
    For duplicate members the last one counts (`scanKeys`). Positions are arrays of exactly
    two to four finite numbers (`wfPos`), line strings have at least two positions (`wfLine`),
    polygon rings at least four with first equal to last in x and y (`wfRing`), polygons at
    least one ring (`wfPoly`); a Feature has a well-formed geometry of any of the nine types
    and any properties; collections are arrays of well-formed objects.

    Side condition (Tile38 Circle convention): a Feature whose `properties.type` is the string
    "Circle" is read as a Circle when its geometry is a Point, which may fail on the radius
    units; such Features are excluded here (`isCircleType = false`). -/
inductive WellFormed : JVal → Prop
  | point (ms) (r : String) (c : JVal) (h : (scanKeys ms).type = some (.str r "Point"))
      (hc : (scanKeys ms).coordinates = some c) (hw : wfPos c = true) : WellFormed (.obj ms)
  | lineString (ms) (r : String) (c : JVal) (h : (scanKeys ms).type = some (.str r "LineString"))
      (hc : (scanKeys ms).coordinates = some c) (hw : wfLine c = true) : WellFormed (.obj ms)
  | polygon (ms) (r : String) (c : JVal) (h : (scanKeys ms).type = some (.str r "Polygon"))
      (hc : (scanKeys ms).coordinates = some c) (hw : wfPoly c = true) : WellFormed (.obj ms)
  | multiPoint (ms) (r : String) (c : JVal) (h : (scanKeys ms).type = some (.str r "MultiPoint"))
      (hc : (scanKeys ms).coordinates = some c) (hw : wfArrayOf wfPos c = true) : WellFormed (.obj ms)
  | multiLineString (ms) (r : String) (c : JVal)
      (h : (scanKeys ms).type = some (.str r "MultiLineString"))
      (hc : (scanKeys ms).coordinates = some c) (hw : wfArrayOf wfLine c = true) : WellFormed (.obj ms)
  | multiPolygon (ms) (r : String) (c : JVal)
      (h : (scanKeys ms).type = some (.str r "MultiPolygon"))
      (hc : (scanKeys ms).coordinates = some c) (hw : wfArrayOf wfPoly c = true) : WellFormed (.obj ms)
  | geometryCollection (ms) (r : String) (items : List JVal)
      (h : (scanKeys ms).type = some (.str r "GeometryCollection"))
      (hc : (scanKeys ms).geometries = some (.arr items))
      (hw : ∀ x ∈ items, WellFormed x) : WellFormed (.obj ms)
  | featureCollection (ms) (r : String) (items : List JVal)
      (h : (scanKeys ms).type = some (.str r "FeatureCollection"))
      (hc : (scanKeys ms).features = some (.arr items))
      (hw : ∀ x ∈ items, WellFormed x) : WellFormed (.obj ms)
  | feature (ms) (r : String) (g : JVal)
      (h : (scanKeys ms).type = some (.str r "Feature"))
      (hc : (scanKeys ms).geometry = some g) (hw : WellFormed g)
      (hcircle : isCircleType (scanKeys ms) = false) : WellFormed (.obj ms)

/-- the dimension rule for one line string / one polygon (all its rings together): if the
    first position has exactly two ordinates, no later position has more than two -/
def lineDimsOK (c : JVal) : Bool := dimsOKb c.elems
def polyDimsOK (c : JVal) : Bool := dimsOKb (c.elems.flatMap JVal.elems)

/-- No LineString / Polygon / MultiLineString / MultiPolygon part has a first position with
    exactly two ordinates and a later position with more than two (known finding D11: such
    documents are rejected by the real code). Stated as an inductive predicate (the recursion
    goes through `scanKeys`, which is not structural). -/
inductive DimsNotIncreasing : JVal → Prop
  | nonObj (v : JVal) (h : ∀ ms, v ≠ .obj ms) : DimsNotIncreasing v
  | obj (ms : List (String × String × JVal))
      (hLine : ∀ r c, (scanKeys ms).type = some (.str r "LineString") →
        (scanKeys ms).coordinates = some c → lineDimsOK c = true)
      (hPoly : ∀ r c, (scanKeys ms).type = some (.str r "Polygon") →
        (scanKeys ms).coordinates = some c → polyDimsOK c = true)
      (hMLine : ∀ r c, (scanKeys ms).type = some (.str r "MultiLineString") →
        (scanKeys ms).coordinates = some c → ∀ l ∈ c.elems, lineDimsOK l = true)
      (hMPoly : ∀ r c, (scanKeys ms).type = some (.str r "MultiPolygon") →
        (scanKeys ms).coordinates = some c → ∀ pg ∈ c.elems, polyDimsOK pg = true)
      (hFeat : ∀ r g, (scanKeys ms).type = some (.str r "Feature") →
        (scanKeys ms).geometry = some g → DimsNotIncreasing g)
      (hGC : ∀ r items, (scanKeys ms).type = some (.str r "GeometryCollection") →
        (scanKeys ms).geometries = some (.arr items) → ∀ x ∈ items, DimsNotIncreasing x)
      (hFC : ∀ r items, (scanKeys ms).type = some (.str r "FeatureCollection") →
        (scanKeys ms).features = some (.arr items) → ∀ x ∈ items, DimsNotIncreasing x) :
      DimsNotIncreasing (.obj ms)

theorem DimsNotIncreasing.inv {ms : List (String × String × JVal)} (h : DimsNotIncreasing (.obj ms)) :
    (∀ r c, (scanKeys ms).type = some (.str r "LineString") →
        (scanKeys ms).coordinates = some c → lineDimsOK c = true) ∧
    (∀ r c, (scanKeys ms).type = some (.str r "Polygon") →
        (scanKeys ms).coordinates = some c → polyDimsOK c = true) ∧
    (∀ r c, (scanKeys ms).type = some (.str r "MultiLineString") →
        (scanKeys ms).coordinates = some c → ∀ l ∈ c.elems, lineDimsOK l = true) ∧
    (∀ r c, (scanKeys ms).type = some (.str r "MultiPolygon") →
        (scanKeys ms).coordinates = some c → ∀ pg ∈ c.elems, polyDimsOK pg = true) ∧
    (∀ r g, (scanKeys ms).type = some (.str r "Feature") →
        (scanKeys ms).geometry = some g → DimsNotIncreasing g) ∧
    (∀ r items, (scanKeys ms).type = some (.str r "GeometryCollection") →
        (scanKeys ms).geometries = some (.arr items) → ∀ x ∈ items, DimsNotIncreasing x) ∧
    (∀ r items, (scanKeys ms).type = some (.str r "FeatureCollection") →
        (scanKeys ms).features = some (.arr items) → ∀ x ∈ items, DimsNotIncreasing x) := by
  cases h with
  | nonObj _ h => exact absurd rfl (h ms)
  | obj _ h1 h2 h3 h4 h5 h6 h7 => exact ⟨h1, h2, h3, h4, h5, h6, h7⟩

/-- `parse` on an object whose (last) type member is the string `ty` -/
theorem parse_of_type {o : POpts} {n : Nat} {ms : List (String × String × JVal)} {r ty : String}
    (h : (scanKeys ms).type = some (.str r ty)) :
    parse o (n+1) (.obj ms) = parseTyped o (scanKeys ms) (parse o n) (parseList o n) ty := by
  rw [parse_succ_obj, h]

theorem wf_accepted_fuel (o : POpts) (ho : o.requireValid = false) (v : JVal) (h : WellFormed v) :
    ∀ n, v.depth < n → DimsNotIncreasing v → ∃ x, parse o n v = .ok x := by
  induction h with
  | point ms r c h hc hw =>
    intro n hn _
    cases n with
    | zero => exact absurd hn (Nat.not_lt_zero _)
    | succ n => rw [parse_of_type h]; exact pointCase_wf ho hc hw
  | lineString ms r c h hc hw =>
    intro n hn hd
    cases n with
    | zero => exact absurd hn (Nat.not_lt_zero _)
    | succ n => rw [parse_of_type h]; exact lineCase_wf ho hc hw (hd.inv.1 r c h hc)
  | polygon ms r c h hc hw =>
    intro n hn hd
    cases n with
    | zero => exact absurd hn (Nat.not_lt_zero _)
    | succ n => rw [parse_of_type h]; exact polyCase_wf ho hc hw (hd.inv.2.1 r c h hc)
  | multiPoint ms r c h hc hw =>
    intro n hn _
    cases n with
    | zero => exact absurd hn (Nat.not_lt_zero _)
    | succ n => rw [parse_of_type h]; exact multiPointCase_wf ho hc hw
  | multiLineString ms r c h hc hw =>
    intro n hn hd
    cases n with
    | zero => exact absurd hn (Nat.not_lt_zero _)
    | succ n => rw [parse_of_type h]; exact multiLineCase_wf ho hc hw (hd.inv.2.2.1 r c h hc)
  | multiPolygon ms r c h hc hw =>
    intro n hn hd
    cases n with
    | zero => exact absurd hn (Nat.not_lt_zero _)
    | succ n => rw [parse_of_type h]; exact multiPolyCase_wf ho hc hw (hd.inv.2.2.2.1 r c h hc)
  | geometryCollection ms r items h hc hw ih =>
    intro n hn hd
    cases n with
    | zero => exact absurd hn (Nat.not_lt_zero _)
    | succ n =>
      rw [parse_of_type h]
      have hdep := (scanKeys_depth ms).geometries _ hc
      rw [depth_obj] at hn
      rw [depth_arr] at hdep
      obtain ⟨cs, hcs⟩ := parseList_total o n items (fun x hx =>
        ih x hx n (by have := depth_le_depthL items x hx; omega) (hd.inv.2.2.2.2.2.1 r items h hc x hx))
      show ∃ x, geomCollCase o (scanKeys ms) (parseList o n) = .ok x
      unfold geomCollCase
      rw [hc, reqArray_arr]
      simp only [hcs]
      exact ⟨_, rfl⟩
  | featureCollection ms r items h hc hw ih =>
    intro n hn hd
    cases n with
    | zero => exact absurd hn (Nat.not_lt_zero _)
    | succ n =>
      rw [parse_of_type h]
      have hdep := (scanKeys_depth ms).features _ hc
      rw [depth_obj] at hn
      rw [depth_arr] at hdep
      obtain ⟨cs, hcs⟩ := parseList_total o n items (fun x hx =>
        ih x hx n (by have := depth_le_depthL items x hx; omega) (hd.inv.2.2.2.2.2.2 r items h hc x hx))
      show ∃ x, featCollCase o (scanKeys ms) (parseList o n) = .ok x
      unfold featCollCase
      rw [hc, reqArray_arr]
      simp only [hcs]
      exact ⟨_, rfl⟩
  | feature ms r g h hc hw hcircle ih =>
    intro n hn hd
    cases n with
    | zero => exact absurd hn (Nat.not_lt_zero _)
    | succ n =>
      rw [parse_of_type h]
      have hdep := (scanKeys_depth ms).geometry _ hc
      rw [depth_obj] at hn
      obtain ⟨b, hb⟩ := ih n (by omega) (hd.inv.2.2.2.2.1 r g h hc)
      show ∃ x, featureCase o (scanKeys ms) (parse o n) = .ok x
      unfold featureCase
      rw [hc]
      simp only [hb, featureObj_noCircle hcircle]
      exact ⟨_, rfl⟩

/-- Every well-formed document that respects the dimension rule is accepted (RequireValid
    off). The restriction `DimsNotIncreasing` is necessary: `wf_accepted_counterexample`. -/
theorem wf_accepted_partial (o : POpts) (ho : o.requireValid = false) (v : JVal)
    (h : WellFormed v) (hd : DimsNotIncreasing v) : ∃ x, parseTop o v = .ok x :=
  wf_accepted_fuel o ho v h _ (Nat.lt_succ_self _) hd

end Geo

namespace Geo

/-! ## concrete documents -/


/-- `{"type":"LineString","coordinates":[[0,0],[10,0,1]]}` -/
def docD11 : JVal :=
  .obj [jmem "type" (jstr "LineString"),
        jmem "coordinates" (.arr [.arr [jnum 0 "0", jnum 0 "0"], .arr [jnum 10 "10", jnum 0 "0", jnum 1 "1"]])]

theorem docD11_rejected : parseTop {} docD11 = .error .coordsInvalid := by
  show parse {} (3+1) (.obj _) = _
  rw [parse_succ_obj]
  rfl

theorem docD11_wellFormed : WellFormed docD11 :=
  .lineString _ _ _ rfl rfl rfl

end Geo

namespace Geo

/-- the D11 witness: a well-formed document (positions of two and of three numbers) that the
    real code — and the model — rejects -/
theorem wf_accepted_counterexample : ∃ v, WellFormed v ∧ ∃ e, parseTop {} v = .error e :=
  ⟨docD11, docD11_wellFormed, _, docD11_rejected⟩

theorem str_ty_eq {r r' a b : String} (h : some (JVal.str r a) = some (JVal.str r' b)) : a = b := by
  injection h with h
  injection h

/-- `{"type":"Polygon","coordinates":[[[0,0],[10,0],[10,10],[0,0]]],"id":7}` -/
def docPoly : JVal :=
  .obj [jmem "type" (jstr "Polygon"),
        jmem "coordinates" (.arr [.arr [.arr [jnum 0 "0", jnum 0 "0"], .arr [jnum 10 "10", jnum 0 "0"],
          .arr [jnum 10 "10", jnum 10 "10"], .arr [jnum 0 "0", jnum 0 "0"]]]),
        jmem "id" (jnum 7 "7")]

theorem docPoly_wellFormed : WellFormed docPoly := .polygon _ _ _ rfl rfl (by decide)

theorem docPoly_dims : DimsNotIncreasing docPoly := by
  refine .obj _ ?_ ?_ ?_ ?_ ?_ ?_ ?_
  · intro r c h; exact absurd (str_ty_eq h) (by decide)
  · intro r c _ hc; cases hc; decide
  · intro r c h; exact absurd (str_ty_eq h) (by decide)
  · intro r c h; exact absurd (str_ty_eq h) (by decide)
  · intro r c h; exact absurd (str_ty_eq h) (by decide)
  · intro r c h; exact absurd (str_ty_eq h) (by decide)
  · intro r c h; exact absurd (str_ty_eq h) (by decide)

/-- non-vacuity of `wf_accepted_partial` -/
example : ∃ x, parseTop {} docPoly = .ok x :=
  wf_accepted_partial {} rfl docPoly docPoly_wellFormed docPoly_dims

/-- `{"type":"Point","coordinates":[1,2]}` is accepted, and this is what it decodes to -/
def docPoint : JVal :=
  .obj [jmem "type" (jstr "Point"), jmem "coordinates" (.arr [jnum 1 "1", jnum 2 "2"])]

example : parseTop {} docPoint = .ok (.point ⟨⟨1, 2⟩, true, "1", "2"⟩ none) := by
  show parse {} (2+1) (.obj _) = _
  rw [parse_succ_obj]
  rfl

/-- `{"type":"Polygon","coordinates":[[[0,0],[1,1],[0,0]]]}`: a ring with three positions -/
def docShortRing : JVal :=
  .obj [jmem "type" (jstr "Polygon"),
        jmem "coordinates" (.arr [.arr [.arr [jnum 0 "0", jnum 0 "0"], .arr [jnum 1 "1", jnum 1 "1"],
          .arr [jnum 0 "0", jnum 0 "0"]]])]

theorem docShortRing_defect : Defect docShortRing := .polygon _ _ _ rfl rfl (by decide)

/-- non-vacuity of `defect_rejected` -/
example : ∃ e, parseTop {} docShortRing = .error e := defect_rejected {} _ docShortRing_defect

example : parseTop {} docShortRing = .error .coordsInvalid := by
  show parse {} (4+1) (.obj _) = _
  rw [parse_succ_obj]
  rfl

/-- a defect in a nested object: `{"type":"Feature","geometry":{"type":"Point","coordinates":[1]}}` -/
def docNested : JVal :=
  .obj [jmem "type" (jstr "Feature"),
        jmem "geometry" (.obj [jmem "type" (jstr "Point"), jmem "coordinates" (.arr [jnum 1 "1"])])]

example : Defect docNested :=
  .nestedGeometry _ _ _ rfl rfl (.pointPosition _ _ _ rfl rfl (by decide))

/-- finding D12: a JSON object in place of a position is ACCEPTED (gjson iterates its member
    values); it is neither well-formed nor a listed defect.
    `{"type":"MultiPoint","coordinates":[{"a":1,"b":2}]}` -/
def docObjPos : JVal :=
  .obj [jmem "type" (jstr "MultiPoint"),
        jmem "coordinates" (.arr [.obj [jmem "a" (jnum 1 "1"), jmem "b" (jnum 2 "2")]])]

example : parseTop {} docObjPos =
    .ok (.coll .multiPoint [.point ⟨⟨1, 2⟩, true, "1", "2"⟩ none] none false) := by
  show parse {} (3+1) (.obj _) = _
  rw [parse_succ_obj]
  rfl

/-- `takeNums` stops after four values: a fifth, non-numeric element is not looked at -/
example : parseTop {} (.obj [jmem "type" (jstr "Point"),
    jmem "coordinates" (.arr [jnum 1 "1", jnum 2 "2", jnum 3 "3", jnum 4 "4", jstr "x"])]) =
    .ok (.point ⟨⟨1, 2⟩, true, "1", "2"⟩ (some ⟨2, ["3", "4"], "", false⟩)) := by
  show parse {} (2+1) (.obj _) = _
  rw [parse_succ_obj]
  rfl

end Geo

#print axioms Geo.defect_rejected
#print axioms Geo.wf_accepted_partial
#print axioms Geo.wf_accepted_counterexample
