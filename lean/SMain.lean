/-
  sgendriver: `processPoints` REGENERATED from geometry/series.go (GeoModel/Generated/SeriesGen.lean),
  evaluated at `Float`.  A separate executable (see KMain.lean for why).  Answers the op kproc,
  prints `skip` otherwise.
-/
import GeoModel.SeriesGenDriver
open Geo

def sgenLine (line : String) : String :=
  let toks := (line.trimAscii.toString.splitOn " ").filter (· ≠ "")
  match toks with
  | op :: _ =>
    if op == "kproc" then
      match sgenStep toks with
      | some s => s ++ " | - | sg:" ++ op
      | none => "bad-op"
    else "skip"
  | [] => "skip"

partial def sloop (hin : IO.FS.Stream) (hout : IO.FS.Stream) : IO Unit := do
  let line ← hin.getLine
  if line.isEmpty then return ()
  hout.putStrLn (sgenLine line)
  sloop hin hout

def main : IO Unit := do
  let hin ← IO.getStdin
  let hout ← IO.getStdout
  sloop hin hout
  hout.flush
